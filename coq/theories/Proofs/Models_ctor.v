(* Proofs/Models_ctor.v -- the fixed-point constructors of the contiguous and non-contiguous
   categorical models: exactly the well-formed tables are accepted, and the accepted model is the
   canonical one (cdf_of / ecdf / a finite map equal to the table). *)
From CV Require Import Base.Bits Model.EModel Model.MBase Model.Tables.
From CV Require Import Proofs.Table_lemmas Proofs.Models_base Proofs.Models_validator Proofs.Models_tables.
Open Scope N_scope.
Set Default Timeout 30.

(* ------------------------------------------------------------------ ideal runs of the closures *)
Lemma fold_push_contig : forall ps (st : list N) S0,
  fold_op (fun cdf (_ : Z) cum (_ : N) => Ok (cdf ++ [cum])) st SInf S0 ps = Ok (SInf, st ++ cums S0 ps).
Proof.
  induction ps as [|p r IH]; intros st S0; cbn [fold_op cums src_next bind].
  - rewrite app_nil_r. reflexivity.
  - rewrite IH. rewrite <- app_assoc. reflexivity.
Qed.

Lemma fold_push_ncdec : forall ps (st : list (N * Z)) S0 l,
  fold_op (fun cdf s cum (_ : N) => Ok (cdf ++ [(cum, s)])) st (SList l) S0 ps =
  if (length ps <=? length l)%nat
  then Ok (SList (skipn (length ps) l), st ++ combine (cums S0 ps) (firstn (length ps) l))
  else Fail E_ERR.
Proof.
  induction ps as [|p r IH]; intros st S0 l; cbn [fold_op cums length].
  - cbn. rewrite app_nil_r. reflexivity.
  - destruct l as [|x l]; cbn [src_next length]; [reflexivity|]. cbn [bind].
    rewrite IH. change (S (length r) <=? S (length l))%nat with (length r <=? length l)%nat.
    destruct (length r <=? length l)%nat; [|reflexivity].
    cbn [skipn firstn combine]. rewrite <- app_assoc. reflexivity.
Qed.

Lemma last_combine_snd {A B} : forall (a : list A) (b : list B) da db,
  length a = length b -> snd (last (combine a b) (da, db)) = last b db.
Proof.
  induction a as [|x a IH]; intros [|y b] da db H; cbn [length] in H; try discriminate; [reflexivity|].
  destruct a as [|x' a]; destruct b as [|y' b]; cbn [length] in H; try discriminate; [reflexivity|].
  change (combine (x :: x' :: a) (y :: y' :: b)) with ((x, y) :: combine (x' :: a) (y' :: b)).
  change (last (y :: y' :: b) db) with (last (y' :: b) db).
  rewrite <- (IH (y' :: b) da db) by (cbn [length]; lia). reflexivity.
Qed.

(* ------------------------------------------------------------------ contiguous *)
Section Ctor.
  Variable c : mcfg.
  Hypothesis Hc : wf_mcfg c.
  Local Notation M := (2 ^ PB c).

  Theorem contig_from_probs_iff probs infer m :
    Forall (fun p => p < M) probs ->
    (contig_from_probs c probs infer = Ok m <->
     valid_probs (PR c) (full_probs c probs infer) /\ m = cdf_of c (full_probs c probs infer)).
  Proof.
    intros HF. unfold contig_from_probs. split.
    - intros H. inv_bind H. destruct a as [sy cdf].
      apply (accumulate_ok_iff c _ Hc _ _ _ _ _ HF) in Ha. destruct Ha as [Hv Hf].
      rewrite fold_push_contig in Hf. inversion Hf; subst. inversion H. split; [exact Hv|reflexivity].
    - intros [Hv ->].
      assert (Hacc : accumulate c (fun cdf (_ : Z) cum (_ : N) => Ok (cdf ++ [cum])) probs SInf infer []
                     = Ok (SInf, [] ++ cums 0 (full_probs c probs infer))).
      { apply (accumulate_ok_iff c _ Hc _ _ _ _ _ HF). split; [exact Hv|apply fold_push_contig]. }
      rewrite Hacc. reflexivity.
  Qed.

  (* rejection is always the clean error value *)
  Lemma accumulate_fail_err {St} (op : St -> Z -> N -> N -> res St) probs syms infer st e :
    (forall st s cu p e', op st s cu p = Fail e' -> e' = E_ERR) ->
    accumulate c op probs syms infer st = Fail e -> e = E_ERR.
  Proof.
    intros Hop H. unfold accumulate in H.
    assert (Hloop : forall ps sy l n a s e', accum_loop c op ps sy l n a s = Fail e' -> e' = E_ERR).
    { induction ps as [|p r IH]; intros sy l n a s e' Hl; cbn [accum_loop] in Hl; [discriminate|].
      destruct (src_next sy) as [[x sy']|]; [|inversion Hl; reflexivity].
      destruct (op s x a p) as [s'|e''] eqn:Eop; cbn [bind] in Hl.
      - eapply IH; eauto.
      - inversion Hl; subst. eapply Hop; eauto. }
    destruct (accum_loop c op probs syms 0 0 0 st) as [[[[[sy l] n] a] s]|e'] eqn:El; cbn [bind] in H.
    - destruct infer.
      + destruct (_ || _ || _); [inversion H; reflexivity|].
        destruct (src_next sy) as [[x sy']|]; [|inversion H; reflexivity].
        destruct (op s x a _) eqn:Eop; cbn [bind] in H; [discriminate|].
        inversion H; subst. eapply Hop; eauto.
      + destruct (_ || _ || _); [inversion H; reflexivity|discriminate].
    - inversion H; subst. eapply Hloop; eauto.
  Qed.

  Theorem contig_from_probs_reject probs infer e :
    contig_from_probs c probs infer = Fail e -> e = E_ERR.
  Proof.
    unfold contig_from_probs. intros H. apply bind_fail in H. destruct H as [H|(a & Ha & H)].
    - eapply accumulate_fail_err; [|exact H]. intros; discriminate.
    - destruct a. discriminate.
  Qed.

  (* ------------------------------------------------------------------ non-contiguous decoder *)
  Theorem ncdec_from_probs_iff ss probs infer m :
    Forall (fun p => p < M) probs ->
    (ncdec_from_probs c ss probs infer = Ok m <->
     valid_probs (PR c) (full_probs c probs infer) /\
     length ss = length (full_probs c probs infer) /\
     m = ecdf c ss (full_probs c probs infer) (last ss 0%Z)).
  Proof.
    intros HF. unfold ncdec_from_probs. set (full := full_probs c probs infer).
    assert (Hrun : forall (Hv : valid_probs (PR c) full),
      (accumulate c (fun cdf s cum (_ : N) => Ok (cdf ++ [(cum, s)])) probs (SList ss) infer [] >>=
       (fun '(rest, cdf) => ncdec_close c cdf >>= fun cdf0 =>
          match src_next rest with Some _ => Fail E_ERR | None => Ok cdf0 end))
      = if (length full =? length ss)%nat then Ok (ecdf c ss full (last ss 0%Z)) else Fail E_ERR).
    { intros Hv. rewrite (accumulate_valid_eq c _ Hc _ _ _ _ Hv). fold full.
      rewrite fold_push_ncdec. cbn [app].
      destruct (Nat.leb_spec (length full) (length ss)) as [Hle|Hgt].
      2:{ destruct (Nat.eqb_spec (length full) (length ss)); [lia|reflexivity]. }
      cbn [bind].
      assert (Hne : combine (cums 0 full) (firstn (length full) ss) <> []).
      { destruct Hv as (_ & _ & Hl). destruct full as [|p r]; [cbn in Hl; lia|].
        destruct ss; [cbn in Hle; lia|]. discriminate. }
      unfold ncdec_close.
      destruct (Nat.eqb_spec (length full) (length ss)) as [Heq|Hne'].
      - rewrite Heq, firstn_all, skipn_all.
        rewrite Heq, firstn_all in Hne.
        rewrite (last_opt_last _ (0, 0%Z) Hne).
        destruct (last (combine (cums 0 full) ss) (0, 0%Z)) as [lc ls] eqn:El. cbn [bind src_next].
        unfold ecdf. f_equal. f_equal. f_equal. f_equal.
        assert (Hlen : length (cums 0 full) = length ss) by (rewrite cums_length; exact Heq).
        pose proof (last_combine_snd (cums 0 full) ss 0 0%Z Hlen) as Hls. rewrite El in Hls. exact Hls.
      - rewrite (last_opt_last _ (0, 0%Z) Hne).
        destruct (last _ (0, 0%Z)) as [lc ls]. cbn [bind].
        assert (Hsk : skipn (length full) ss <> []).
        { intros E. apply (f_equal (@length Z)) in E. rewrite skipn_length in E. cbn in E. lia. }
        destruct (skipn (length full) ss); [contradiction|]. reflexivity. }
    split.
    - intros H.
      assert (Hv : valid_probs (PR c) full).
      { inv_bind H. eapply accumulate_accepts_valid; eauto. }
      rewrite (Hrun Hv) in H.
      destruct (Nat.eqb_spec (length full) (length ss)); [|discriminate].
      inversion H. split; [exact Hv|]. split; [lia|reflexivity].
    - intros (Hv & Hlen & ->). rewrite (Hrun Hv).
      destruct (Nat.eqb_spec (length full) (length ss)); [reflexivity|lia].
  Qed.

  Theorem ncdec_from_probs_reject ss probs infer e :
    Forall (fun p => p < M) probs ->
    ncdec_from_probs c ss probs infer = Fail e -> e = E_ERR.
  Proof.
    intros HF H. unfold ncdec_from_probs in H. apply bind_fail in H. destruct H as [H|(a & Ha & H)].
    - eapply accumulate_fail_err; [|exact H]. intros; discriminate.
    - destruct a as [rest cdf].
      pose proof (accumulate_accepts_valid c _ Hc _ _ _ _ _ HF Ha) as Hv.
      rewrite (accumulate_valid_eq c _ Hc _ _ _ _ Hv), fold_push_ncdec in Ha.
      destruct (length _ <=? length ss)%nat eqn:Ele; [|discriminate]. inversion Ha; subst. clear Ha.
      cbn [app] in H. unfold ncdec_close in H.
      assert (Hne : combine (cums 0 (full_probs c probs infer))
                      (firstn (length (full_probs c probs infer)) ss) <> []).
      { apply Nat.leb_le in Ele. destruct Hv as (_ & _ & Hl).
        destruct (full_probs c probs infer) as [|p r]; [cbn in Hl; lia|].
        destruct ss; [cbn in Ele; lia|]. discriminate. }
      rewrite (last_opt_last _ (0, 0%Z) Hne) in H. destruct (last _ (0, 0%Z)). cbn [bind] in H.
      destruct (src_next _); inversion H; reflexivity.
  Qed.
End Ctor.

(* ------------------------------------------------------------------ finite maps *)
Lemma map_get_insert m k v k' :
  map_get (map_insert m k v) k' = if Z.eqb k' k then Some v else map_get m k'.
Proof.
  induction m as [|[k0 v0] r IH]; cbn [map_insert map_get].
  - destruct (Z.eqb k' k); reflexivity.
  - destruct (Z.eqb_spec k k0) as [->|Hne]; cbn [map_get].
    + destruct (Z.eqb_spec k' k0); reflexivity.
    + rewrite IH. destruct (Z.eqb_spec k' k0) as [->|]; [|reflexivity].
      destruct (Z.eqb_spec k0 k); [congruence|reflexivity].
Qed.

Lemma map_insert_length_new m k v : map_get m k = None -> length (map_insert m k v) = S (length m).
Proof.
  induction m as [|[k0 v0] r IH]; cbn [map_insert map_get length]; [reflexivity|].
  destruct (Z.eqb_spec k k0); [discriminate|]. intros H. cbn [length]. rewrite IH; auto.
Qed.

(* the ideal run of the encoder's closure *)
Definition fresh_in (m0 : ncenc) (l : list Z) : Prop := forall s, In s l -> map_get m0 s = None.

Lemma fold_ncenc_ok : forall ps (m0 : ncenc) S0 l,
  all_pos ps -> (length ps <= length l)%nat -> NoDup (firstn (length ps) l) ->
  fresh_in m0 (firstn (length ps) l) ->
  exists m, fold_op ncenc_op m0 (SList l) S0 ps = Ok (SList (skipn (length ps) l), m) /\
    (forall s, map_get m s = match tbl_enc (table_of S0 (firstn (length ps) l) ps) s with
                             | Some v => Some v
                             | None => map_get m0 s
                             end) /\
    length m = (length m0 + length ps)%nat.
Proof.
  induction ps as [|p r IH]; intros m0 S0 l Hpos Hlen Hnd Hfr.
  - exists m0. cbn. split; [reflexivity|]. split; [reflexivity|lia].
  - inversion Hpos as [|? ? Hp Hpos']; subst.
    destruct l as [|x l]; [cbn in Hlen; lia|].
    cbn [length firstn skipn] in *. inversion Hnd as [|? ? Hnotin Hnd']; subst.
    cbn [fold_op src_next]. unfold ncenc_op at 1.
    rewrite (Hfr x) by (left; reflexivity).
    unfold into_nonzero. destruct (N.eqb_spec p 0) as [|_]; [lia|]. cbn [bind].
    destruct (IH (map_insert m0 x (S0, p)) (S0 + p) l Hpos' ltac:(lia) Hnd') as (m & Hrun & Hget & Hl).
    { intros s Hs. rewrite map_get_insert.
      destruct (Z.eqb_spec s x) as [->|_]; [contradiction|]. apply Hfr. right. exact Hs. }
    exists m. split; [exact Hrun|]. split.
    + intros s. rewrite Hget. cbn [table_of tbl_enc]. rewrite map_get_insert.
      destruct (Z.eqb_spec s x) as [->|Hne].
      * rewrite tbl_enc_notin; [reflexivity|].
        rewrite table_of_syms; [exact Hnotin|]. rewrite firstn_length. lia.
      * reflexivity.
    + rewrite Hl. rewrite map_insert_length_new by (apply Hfr; left; reflexivity). lia.
Qed.

Lemma fold_ncenc_inv : forall ps (m0 : ncenc) S0 l r,
  fold_op ncenc_op m0 (SList l) S0 ps = Ok r ->
  (length ps <= length l)%nat /\ NoDup (firstn (length ps) l) /\ fresh_in m0 (firstn (length ps) l).
Proof.
  induction ps as [|p r IH]; intros m0 S0 l res H.
  - cbn. split; [lia|]. split; [constructor|]. intros s [].
  - destruct l as [|x l]; [discriminate|]. cbn [fold_op src_next] in H.
    unfold ncenc_op at 1 in H. destruct (map_get m0 x) eqn:Eg; [discriminate|].
    destruct (into_nonzero p); [|discriminate]. cbn [bind] in H.
    destruct (IH _ _ _ _ H) as (Hlen & Hnd & Hfr).
    cbn [length firstn]. split; [lia|]. split.
    + constructor; [|exact Hnd]. intros Hin. specialize (Hfr x Hin).
      rewrite map_get_insert, Z.eqb_refl in Hfr. discriminate.
    + intros s [<-|Hin]; [exact Eg|]. specialize (Hfr s Hin). rewrite map_get_insert in Hfr.
      destruct (Z.eqb s x); [discriminate|exact Hfr].
Qed.

Section CtorEnc.
  Variable c : mcfg.
  Hypothesis Hc : wf_mcfg c.
  Local Notation M := (2 ^ PB c).

  Lemma ncenc_op_err st s cu p e' : ncenc_op st s cu p = Fail e' -> e' = E_ERR.
  Proof.
    unfold ncenc_op. destruct (map_get st s); [intros H; inversion H; reflexivity|].
    destruct (into_nonzero p); [discriminate|intros H; inversion H; reflexivity].
  Qed.

  Theorem ncenc_from_probs_reject ss probs infer e :
    ncenc_from_probs c ss probs infer = Fail e -> e = E_ERR.
  Proof.
    unfold ncenc_from_probs. intros H. apply bind_fail in H. destruct H as [H|(a & Ha & H)].
    - eapply accumulate_fail_err; [|exact H]. apply ncenc_op_err.
    - destruct a as [rest m]. destruct (src_next rest); inversion H; reflexivity.
  Qed.

  (* accepted  <->  well-formed table, one symbol per probability, no symbol twice *)
  Theorem ncenc_from_probs_iff ss probs infer :
    Forall (fun p => p < M) probs ->
    ((exists m, ncenc_from_probs c ss probs infer = Ok m) <->
     valid_probs (PR c) (full_probs c probs infer) /\
     length ss = length (full_probs c probs infer) /\ NoDup ss).
  Proof.
    intros HF. unfold ncenc_from_probs. set (full := full_probs c probs infer). split.
    - intros (m & H). inv_bind H. destruct a as [rest m'].
      pose proof (accumulate_accepts_valid c _ Hc _ _ _ _ _ HF Ha) as Hv. fold full in Hv.
      rewrite (accumulate_valid_eq c _ Hc _ _ _ _ Hv) in Ha. fold full in Ha.
      destruct (fold_ncenc_inv _ _ _ _ _ Ha) as (Hlen & Hnd & _).
      destruct (fold_ncenc_ok full [] 0 ss (proj1 Hv) Hlen Hnd ltac:(intros s _; reflexivity))
        as (m2 & Hrun & _).
      rewrite Hrun in Ha. inversion Ha; subst.
      destruct (skipn (length full) ss) eqn:Esk; cbn [src_next] in H; [|discriminate].
      assert (length ss = length full).
      { apply (f_equal (@length Z)) in Esk. rewrite skipn_length in Esk. cbn in Esk. lia. }
      split; [exact Hv|]. split; [assumption|]. rewrite <- H0, firstn_all in Hnd. exact Hnd.
    - intros (Hv & Hlen & Hnd).
      rewrite (accumulate_valid_eq c _ Hc _ _ _ _ Hv). fold full.
      destruct (fold_ncenc_ok full [] 0 ss (proj1 Hv) ltac:(lia)) as (m & Hrun & _).
      { rewrite <- Hlen, firstn_all. exact Hnd. }
      { intros s _. reflexivity. }
      rewrite Hrun. cbn [bind]. rewrite <- Hlen, skipn_all. cbn. eauto.
  Qed.

  (* the accepted map IS the table *)
  Theorem ncenc_from_probs_spec ss probs infer m :
    Forall (fun p => p < M) probs ->
    ncenc_from_probs c ss probs infer = Ok m ->
    (forall s, ncenc_lcp m s = tbl_enc (table_of 0 ss (full_probs c probs infer)) s) /\
    ncenc_support_size m = lenN (full_probs c probs infer).
  Proof.
    intros HF H.
    destruct (proj1 (ncenc_from_probs_iff ss probs infer HF) (ex_intro _ m H)) as (Hv & Hlen & Hnd).
    unfold ncenc_from_probs in H. inv_bind H. destruct a as [rest m'].
    rewrite (accumulate_valid_eq c _ Hc _ _ _ _ Hv) in Ha.
    set (full := full_probs c probs infer) in *.
    destruct (fold_ncenc_ok full [] 0 ss (proj1 Hv) ltac:(lia)) as (m2 & Hrun & Hget & Hl).
    { rewrite <- Hlen, firstn_all. exact Hnd. }
    { intros s _. reflexivity. }
    rewrite Hrun in Ha. inversion Ha; subst.
    destruct (src_next _); inversion H; subst.
    rewrite <- Hlen, firstn_all in Hget. split.
    - intros s. unfold ncenc_lcp. rewrite Hget. destruct (tbl_enc _ s); reflexivity.
    - unfold ncenc_support_size, lenN. rewrite Hl. cbn. reflexivity.
  Qed.
End CtorEnc.
