(* Proofs/Models_props.v -- the statements quoted by Props/C03, C05, C09, C19, C20 for the
   fixed-point model families, assembled from the Models_* files. *)
From CV Require Import Base.Bits Model.EModel Model.MBase Model.Uniform Model.Tables Model.Lookup Model.Convert.
From CV Require Import Proofs.Table_lemmas Proofs.Models_base Proofs.Models_validator Proofs.Models_tables
  Proofs.Models_ctor Proofs.Models_uniform Proofs.Models_lookup Proofs.Models_conv Proofs.Models_valid.
Open Scope N_scope.
Set Default Timeout 30.

Definition probs_typed (c : mcfg) (probs : list N) : Prop := Forall (fun p => p < 2 ^ PB c) probs.

(* "base was returned by a constructor and t is the table its input denotes" *)
Definition accepted (c : mcfg) (base : rep) (t : table) : Prop :=
  (exists range m, wf_mcfg_uniform c /\ range < 2 ^ UB c /\ uniform_new c range = Ok m /\
      base = RUniform m /\ t = utable (2 ^ PR c) (2 ^ PR c / range) (range - 1) (N.to_nat range))
  \/ (exists probs infer m, probs_typed c probs /\ contig_from_probs c probs infer = Ok m /\
      base = RContig m /\
      t = table_of 0 (iotaZ (length (full_probs c probs infer))) (full_probs c probs infer))
  \/ (exists ss probs infer m, probs_typed c probs /\ NoDup ss /\ ncdec_from_probs c ss probs infer = Ok m /\
      base = RNcDec m /\ t = table_of 0 ss (full_probs c probs infer))
  \/ (exists ss probs infer m, probs_typed c probs /\ ncenc_from_probs c ss probs infer = Ok m /\
      base = RNcEnc m /\ t = table_of 0 ss (full_probs c probs infer))
  \/ (exists probs infer m, wf_mcfg_lookup c /\ probs_typed c probs /\ lkc_from_probs c probs infer = Ok m /\
      base = RLkC m /\
      t = table_of 0 (iotaZ (length (full_probs c probs infer))) (full_probs c probs infer))
  \/ (exists ss probs infer m, wf_mcfg_lookup c /\ probs_typed c probs /\ NoDup ss /\
      lkn_from_probs c ss probs infer = Ok m /\
      base = RLkN m /\ t = table_of 0 ss (full_probs c probs infer)).

Lemma accepted_good c base t : wf_mcfg c -> accepted c base t -> wf_table (PR c) t /\ rep_good c t base.
Proof.
  intros Hc [H|[H|[H|[H|[H|H]]]]].
  - destruct H as (range & m & Hu & Hr & Hn & -> & ->). apply uniform_accepted_good; assumption.
  - destruct H as (probs & infer & m & HF & Hn & -> & ->).
    destruct (contig_accepted_good c Hc probs infer m HF Hn) as (_ & Hw & Hg). auto.
  - destruct H as (ss & probs & infer & m & HF & Hnd & Hn & -> & ->).
    destruct (ncdec_accepted_good c Hc ss probs infer m HF Hn Hnd) as (_ & Hw & Hg). auto.
  - destruct H as (ss & probs & infer & m & HF & Hn & -> & ->).
    destruct (ncenc_accepted_good c Hc ss probs infer m HF Hn) as (_ & _ & _ & Hw & Hg). auto.
  - destruct H as (probs & infer & m & Hl & HF & Hn & -> & ->).
    destruct (lkc_accepted_good c Hc probs infer m Hl HF Hn) as (_ & Hw & Hg). auto.
  - destruct H as (ss & probs & infer & m & Hl & HF & Hnd & Hn & -> & ->).
    destruct (lkn_accepted_good c Hc ss probs infer m Hl HF Hn Hnd) as (_ & Hw & Hg). auto.
Qed.

(* ================================================================ C03 *)
Lemma p_uniform_valid c range m :
  wf_mcfg_uniform c -> range < 2 ^ UB c -> uniform_new c range = Ok m -> wf_model (uniform_emodel c m).
Proof.
  intros Hu Hr H. destruct (uniform_accepted_good c range m Hu Hr H) as (Hw & Hg).
  eapply uniform_good_wf; [apply Hu|exact Hw|exact Hg].
Qed.

Lemma full_probs_length c probs infer :
  (length (full_probs c probs infer) <= S (length probs))%nat.
Proof. unfold full_probs. destruct infer; [rewrite app_length; cbn; lia|lia]. Qed.

Lemma p_contig_valid c probs infer m :
  wf_mcfg c -> probs_typed c probs -> N.of_nat (length probs) < 2 ^ UB c ->
  contig_from_probs c probs infer = Ok m -> wf_model (contig_emodel c m).
Proof.
  intros Hc HF Hfit H. destruct (contig_accepted_good c Hc probs infer m HF H) as (Hv & Hw & Hg).
  eapply contig_good_wf; [exact Hc|exact Hw| |exact Hg].
  rewrite table_of_length by apply iotaZ_length.
  pose proof (full_probs_length c probs infer). lia.
Qed.

Lemma p_noncontig_valid c ss probs infer e d :
  wf_mcfg c -> probs_typed c probs ->
  ncenc_from_probs c ss probs infer = Ok e -> ncdec_from_probs c ss probs infer = Ok d ->
  wf_model (nc_emodel c e d).
Proof.
  intros Hc HF He Hd.
  destruct (ncenc_accepted_good c Hc ss probs infer e HF He) as (_ & Hnd & _ & Hw & Hge).
  destruct (ncdec_accepted_good c Hc ss probs infer d HF Hd Hnd) as (_ & _ & Hgd).
  eapply nc_good_wf; eauto.
Qed.

Lemma p_noncontig_decoder_valid c ss probs infer d :
  wf_mcfg c -> probs_typed c probs -> NoDup ss -> ncdec_from_probs c ss probs infer = Ok d ->
  exists t, ncdec_table c d = Ok t /\ wf_table (PR c) t /\ wf_model (dec_emodel (PR c) t (ncdec_dec c d)).
Proof.
  intros Hc HF Hnd Hd. destruct (ncdec_accepted_good c Hc ss probs infer d HF Hd Hnd) as (_ & Hw & Hg).
  eexists. split; [|split; [exact Hw|]].
  - apply (rep_table_good c Hc _ Hw (RNcDec d) _ Hg eq_refl).
  - eapply ncdec_good_wf; eauto.
Qed.

Lemma p_lookup_valid c probs infer m :
  wf_mcfg_lookup c -> probs_typed c probs -> lkc_from_probs c probs infer = Ok m ->
  exists t, lkc_table_of c m = Ok t /\ wf_table (PR c) t /\ wf_model (dec_emodel (PR c) t (lkc_dec c m)).
Proof.
  intros Hl HF H. destruct (lkc_accepted_good c (proj1 Hl) probs infer m Hl HF H) as (_ & Hw & Hg).
  eexists. split; [|split; [exact Hw|]].
  - apply (rep_table_good c (proj1 Hl) _ Hw (RLkC m) _ Hg eq_refl).
  - eapply lkc_good_wf; eauto. apply Hl.
Qed.

Lemma p_lookup_noncontig_valid c ss probs infer m :
  wf_mcfg_lookup c -> probs_typed c probs -> NoDup ss -> lkn_from_probs c ss probs infer = Ok m ->
  exists t, lkn_table_of c m = Ok t /\ wf_table (PR c) t /\ wf_model (dec_emodel (PR c) t (lkn_dec c m)).
Proof.
  intros Hl HF Hnd H. destruct (lkn_accepted_good c (proj1 Hl) ss probs infer m Hl HF H Hnd) as (_ & Hw & Hg).
  eexists. split; [|split; [exact Hw|]].
  - apply (rep_table_good c (proj1 Hl) _ Hw (RLkN m) _ Hg eq_refl).
  - eapply lkn_good_wf; eauto. apply Hl.
Qed.

Lemma p_tables_wf c base t : wf_mcfg c -> accepted c base t ->
  wf_table (PR c) t /\ forall rt, rep_table c base = Some rt -> rt = Ok t.
Proof.
  intros Hc Ha. destruct (accepted_good c base t Hc Ha) as (Hw & Hg). split; [exact Hw|].
  intros rt. apply (rep_table_good c Hc t Hw base rt Hg).
Qed.

(* ================================================================ C05 *)
Lemma p_all_representations c lookup_ok base t ks :
  wf_mcfg c -> (lookup_ok = true -> wf_mcfg_lookup c) -> accepted c base t ->
  exists o, rep_convs c lookup_ok ks base = Ok o /\
    forall r, o = Some r ->
      (forall rt, rep_table c r = Some rt -> rt = Ok t) /\
      (forall s rr, rep_lcp c r s = Some rr ->
         match r with RNcEnc _ => True | _ => sym_ok (UB c) SyUsize s = true end ->
         rr = Ok (tbl_enc t s)) /\
      (forall q rr, rep_quant c r q = Some rr -> q < 2 ^ PR c -> rr = Ok (tbl_dec t q)) /\
      (forall rn, rep_support_size r = Some rn -> rn = Ok (lenN t)).
Proof.
  intros Hc Hlk Ha. destruct (accepted_good c base t Hc Ha) as (Hw & Hg).
  apply convs_agree; assumption.
Qed.

Lemma p_view_eq_owner c lookup_ok r :
  match r with RContig _ | RNcDec _ | RLkC _ | RLkN _ => True | _ => False end ->
  rep_conv c lookup_ok CView r = Ok (Some r) /\ rep_conv c lookup_ok CClone r = Ok (Some r).
Proof. destruct r; cbn; intros H; try contradiction; split; reflexivity. Qed.

Lemma p_identity_relabel c probs infer m :
  wf_mcfg c -> probs_typed c probs -> contig_from_probs c probs infer = Ok m ->
  let full := full_probs c probs infer in
  let t := table_of 0 (iotaZ (length full)) full in
  exists d, ncdec_from_probs c (iotaZ (length full)) probs infer = Ok d /\
            wf_table (PR c) t /\ rep_good c t (RContig m) /\ rep_good c t (RNcDec d).
Proof.
  intros Hc HF H full t. destruct (contig_accepted_good c Hc probs infer m HF H) as (Hv & Hw & Hg).
  exists (ecdf c (iotaZ (length full)) full (last (iotaZ (length full)) 0%Z)).
  assert (Hd : ncdec_from_probs c (iotaZ (length full)) probs infer =
               Ok (ecdf c (iotaZ (length full)) full (last (iotaZ (length full)) 0%Z))).
  { apply (ncdec_from_probs_iff c Hc _ probs infer _ HF). split; [exact Hv|]. split; [apply iotaZ_length|reflexivity]. }
  split; [exact Hd|]. split; [exact Hw|]. split; [exact Hg|].
  destruct (ncdec_accepted_good c Hc _ probs infer _ HF Hd (NoDup_seq_Z _)) as (_ & _ & Hgd). exact Hgd.
Qed.

Lemma wrap_inj (x y : res (N * N * N)) v :
  x >>= (fun '(s, cu, p) => Ok (Z.of_N s, cu, p)) = Ok v ->
  y >>= (fun '(s, cu, p) => Ok (Z.of_N s, cu, p)) = Ok v -> x = y.
Proof.
  destruct x as [[[s1 c1] p1]|e1]; destruct y as [[[s2 c2] p2]|e2]; cbn; try discriminate.
  intros H1 H2. rewrite <- H2 in H1. inversion H1. f_equal. f_equal. f_equal. lia.
Qed.

Lemma p_lookup_eq_searched c probs infer m :
  wf_mcfg_lookup c -> probs_typed c probs -> contig_from_probs c probs infer = Ok m ->
  exists l, lkc_from_contig c m = Ok l /\
    lkc_from_probs c probs infer = Ok l /\
    forall q, q < 2 ^ PR c -> lkc_quant c l q = contig_quant c m q.
Proof.
  intros Hl HF H. pose proof (proj1 Hl) as Hc.
  destruct (contig_accepted_good c Hc probs infer m HF H) as (Hv & Hw & Hg).
  apply (contig_from_probs_iff c Hc probs infer m HF) in H. destruct H as [_ ->].
  exists (lkc_of c (full_probs c probs infer)). split; [apply lkc_from_contig_spec; assumption|].
  split; [apply (lkc_from_probs_iff c Hl probs infer _ HF); auto|].
  intros q Hq. eapply wrap_inj.
  - apply lkc_quant_spec; assumption.
  - apply contig_quant_spec; assumption.
Qed.

(* ================================================================ C09 *)
Lemma p_uniform_outside c range m s :
  wf_mcfg_uniform c -> range < 2 ^ UB c -> uniform_new c range = Ok m ->
  s < 2 ^ UB c -> range <= s -> uniform_lcp c m s = Ok None.
Proof.
  intros Hu Hr H Hs Hout. apply (uniform_new_iff c Hu range m Hr) in H. destruct H as [Hrg ->].
  rewrite (uniform_lcp_spec c Hu range) by lia. rewrite utable_enc by (try assumption; lia).
  destruct (N.ltb_spec s range); [lia|reflexivity].
Qed.

Lemma p_uniform_outside_Z c range m (s : Z) :
  wf_mcfg_uniform c -> range < 2 ^ UB c -> uniform_new c range = Ok m ->
  ~ (0 <= s < Z.of_N range)%Z -> em_enc (uniform_emodel c m) s = None.
Proof.
  intros Hu Hr H Hout. cbn [uniform_emodel em_enc].
  destruct (sym_ok (UB c) SyUsize s) eqn:Eok; [|reflexivity].
  cbn [sym_ok] in Eok. apply andb_true_iff in Eok. destruct Eok as [E0 E1].
  apply Z.leb_le in E0. apply Z.ltb_lt in E1.
  rewrite (p_uniform_outside c range m (Z.to_N s) Hu Hr H); [reflexivity|lia|lia].
Qed.

Lemma p_contig_outside c probs infer m (s : Z) :
  wf_mcfg c -> probs_typed c probs -> contig_from_probs c probs infer = Ok m ->
  ~ (0 <= s < Z.of_nat (length (full_probs c probs infer)))%Z ->
  em_enc (contig_emodel c m) s = None.
Proof.
  intros Hc HF H Hout. cbn [contig_emodel em_enc].
  destruct (sym_ok (UB c) SyUsize s) eqn:Eok; [|reflexivity].
  destruct (contig_accepted_good c Hc probs infer m HF H) as (Hv & Hw & Hg).
  pose proof (rep_lcp_good c Hc _ Hw (RContig m) s _ Hg eq_refl Eok) as Hl. cbn in Hl. rewrite Hl. cbn.
  apply tbl_enc_notin. rewrite table_of_syms by apply iotaZ_length.
  unfold iotaZ. intros Hin. apply in_map_iff in Hin. destruct Hin as (j & <- & Hj). apply in_seq in Hj. lia.
Qed.

Lemma p_noncontig_outside c ss probs infer e s :
  wf_mcfg c -> probs_typed c probs -> ncenc_from_probs c ss probs infer = Ok e ->
  ~ In s ss -> ncenc_lcp e s = None.
Proof.
  intros Hc HF H Hout.
  destruct (ncenc_accepted_good c Hc ss probs infer e HF H) as (_ & _ & Hlen & _ & (Hget & _)).
  unfold ncenc_lcp. rewrite Hget. apply tbl_enc_notin. rewrite table_of_syms by exact Hlen. exact Hout.
Qed.

Lemma p_converted_outside c lookup_ok base t ks r s rr :
  wf_mcfg c -> (lookup_ok = true -> wf_mcfg_lookup c) -> accepted c base t ->
  rep_convs c lookup_ok ks base = Ok (Some r) -> rep_lcp c r s = Some rr ->
  match r with RNcEnc _ => True | _ => sym_ok (UB c) SyUsize s = true end ->
  ~ In s (syms t) -> rr = Ok None.
Proof.
  intros Hc Hlk Ha Hk Hl Hok Hout.
  destruct (p_all_representations c lookup_ok base t ks Hc Hlk Ha) as (o & Ho & Hall).
  rewrite Hk in Ho. inversion Ho; subst o. destruct (Hall r eq_refl) as (_ & Hlcp & _).
  rewrite (Hlcp s rr Hl Hok). rewrite tbl_enc_notin by exact Hout. reflexivity.
Qed.

(* ================================================================ C19 *)
Lemma valid_probs_lt P probs : valid_probs P probs -> Forall (fun p => 0 < p < 2 ^ P) probs.
Proof.
  intros (Hpos & Hsum & Hlen).
  destruct probs as [|p1 [|p2 r]]; cbn in Hlen; try lia.
  inversion Hpos as [|? ? H1 Hpos']; subst. inversion Hpos' as [|? ? H2 Hpos'']; subst.
  cbn [sumN] in Hsum. constructor; [lia|]. constructor; [lia|].
  apply Forall_forall. intros x Hx.
  assert (0 < x <= sumN r).
  { clear - Hx Hpos''. induction r as [|y r IH]; [contradiction|]. cbn [sumN].
    inversion Hpos''; subst. destruct Hx as [->|Hx]; [lia|]. specialize (IH H2 Hx). lia. }
  lia.
Qed.

Lemma p_rejects_invalid_contig c probs infer :
  wf_mcfg c -> probs_typed c probs -> ~ valid_probs (PR c) (full_probs c probs infer) ->
  contig_from_probs c probs infer = Fail E_ERR.
Proof.
  intros Hc HF Hnv. destruct (contig_from_probs c probs infer) as [m|e] eqn:E.
  - exfalso. apply Hnv. apply (contig_from_probs_iff c Hc probs infer m HF) in E. apply E.
  - f_equal. eapply contig_from_probs_reject; eauto.
Qed.

Lemma p_ncdec_count c ss probs infer m :
  wf_mcfg c -> probs_typed c probs -> ncdec_from_probs c ss probs infer = Ok m ->
  valid_probs (PR c) (full_probs c probs infer) /\ length ss = length (full_probs c probs infer).
Proof. intros Hc HF H. apply (ncdec_from_probs_iff c Hc ss probs infer m HF) in H. tauto. Qed.

Lemma p_ncenc_distinct c ss probs infer m :
  wf_mcfg c -> probs_typed c probs -> ncenc_from_probs c ss probs infer = Ok m ->
  valid_probs (PR c) (full_probs c probs infer) /\ length ss = length (full_probs c probs infer) /\ NoDup ss.
Proof.
  intros Hc HF H. apply (proj1 (ncenc_from_probs_iff c Hc ss probs infer HF)). eauto.
Qed.

Lemma p_ncenc_rejects c ss probs infer :
  wf_mcfg c -> probs_typed c probs ->
  ~ (valid_probs (PR c) (full_probs c probs infer) /\ length ss = length (full_probs c probs infer) /\ NoDup ss) ->
  ncenc_from_probs c ss probs infer = Fail E_ERR.
Proof.
  intros Hc HF Hn. destruct (ncenc_from_probs c ss probs infer) as [m|e] eqn:E.
  - exfalso. apply Hn. apply (proj1 (ncenc_from_probs_iff c Hc ss probs infer HF)). eauto.
  - f_equal. eapply ncenc_from_probs_reject; eauto.
Qed.

Lemma p_ncdec_rejects c ss probs infer :
  wf_mcfg c -> probs_typed c probs ->
  ~ (valid_probs (PR c) (full_probs c probs infer) /\ length ss = length (full_probs c probs infer)) ->
  ncdec_from_probs c ss probs infer = Fail E_ERR.
Proof.
  intros Hc HF Hn. destruct (ncdec_from_probs c ss probs infer) as [m|e] eqn:E.
  - exfalso. apply Hn. apply (ncdec_from_probs_iff c Hc ss probs infer m HF) in E. tauto.
  - f_equal. eapply ncdec_from_probs_reject; eauto.
Qed.

(* ================================================================ C20 *)
Lemma p_queries_sound c lookup_ok base t ks r :
  wf_mcfg c -> (lookup_ok = true -> wf_mcfg_lookup c) -> accepted c base t ->
  rep_convs c lookup_ok ks base = Ok (Some r) ->
  (forall rt, rep_table c r = Some rt -> exists v, rt = Ok v) /\
  (forall s rr, rep_lcp c r s = Some rr ->
     match r with RNcEnc _ => True | _ => sym_ok (UB c) SyUsize s = true end -> exists v, rr = Ok v) /\
  (forall q rr, rep_quant c r q = Some rr -> q < 2 ^ PR c -> exists v, rr = Ok v) /\
  (forall rn, rep_support_size r = Some rn -> exists v, rn = Ok v).
Proof.
  intros Hc Hlk Ha Hk.
  destruct (p_all_representations c lookup_ok base t ks Hc Hlk Ha) as (o & Ho & Hall).
  rewrite Hk in Ho. inversion Ho; subst o. destruct (Hall r eq_refl) as (H1 & H2 & H3 & H4).
  repeat split; intros; eexists; eauto.
Qed.

Lemma p_conversions_total c lookup_ok base t ks :
  wf_mcfg c -> (lookup_ok = true -> wf_mcfg_lookup c) -> accepted c base t ->
  exists o, rep_convs c lookup_ok ks base = Ok o.
Proof.
  intros Hc Hlk Ha. destruct (p_all_representations c lookup_ok base t ks Hc Hlk Ha) as (o & Ho & _). eauto.
Qed.

Lemma accumulate_fail_in {St} c (op : St -> Z -> N -> N -> res St) (Q : Z -> Prop) probs syms infer st e :
  Q E_ERR -> (forall st s cu p e', op st s cu p = Fail e' -> Q e') ->
  accumulate c op probs syms infer st = Fail e -> Q e.
Proof.
  intros HQ Hop H. unfold accumulate in H.
  assert (Hloop : forall ps sy l n a s e', accum_loop c op ps sy l n a s = Fail e' -> Q e').
  { induction ps as [|p r IH]; intros sy l n a s e' Hl; cbn [accum_loop] in Hl; [discriminate|].
    destruct (src_next sy) as [[x sy']|]; [|inversion Hl; exact HQ].
    destruct (op s x a p) as [s'|e''] eqn:Eop; cbn [bind] in Hl.
    - eapply IH; eauto.
    - inversion Hl; subst. eapply Hop; eauto. }
  destruct (accum_loop c op probs syms 0 0 0 st) as [[[[[sy l] n] a] s]|e'] eqn:El; cbn [bind] in H.
  - destruct infer.
    + destruct (_ || _ || _); [inversion H; exact HQ|].
      destruct (src_next sy) as [[x sy']|]; [|inversion H; exact HQ].
      destruct (op s x a _) eqn:Eop; cbn [bind] in H; [discriminate|].
      inversion H; subst. eapply Hop; eauto.
    + destruct (_ || _ || _); [inversion H; exact HQ|discriminate].
  - inversion H; subst. eapply Hloop; eauto.
Qed.

Lemma p_lookup_ctor_no_ub c probs infer e :
  lkc_from_probs c probs infer = Fail e -> e = E_ERR \/ e = E_OVERFLOW.
Proof.
  unfold lkc_from_probs. intros H. apply bind_fail in H. destruct H as [H|(a & Ha & H)].
  - eapply (accumulate_fail_in c (lkc_op c) (fun e => e = E_ERR \/ e = E_OVERFLOW)); [auto| |exact H].
    intros [cdf tbl] s cu p e' Hop. unfold lkc_op, cadd in Hop.
    destruct (_ <? _); cbn in Hop; [discriminate|inversion Hop; auto].
  - destruct a as [sy [cdf tbl]]. discriminate.
Qed.

Lemma p_lookup_nc_ctor_no_ub c ss probs infer e :
  lkn_from_probs c ss probs infer = Fail e -> e = E_ERR \/ e = E_OVERFLOW \/ e = E_PANIC.
Proof.
  unfold lkn_from_probs. intros H. apply bind_fail in H. destruct H as [H|(a & Ha & H)].
  - eapply (accumulate_fail_in c _ (fun e => e = E_ERR \/ e = E_OVERFLOW \/ e = E_PANIC)); [auto| |exact H].
    intros [cdf tbl] s cu p e' Hop. unfold lkn_push, cadd in Hop.
    destruct (_ <? _); cbn in Hop; [discriminate|inversion Hop; auto].
  - destruct a as [sy [cdf tbl]]. unfold lkn_close, ncdec_close in H.
    destruct (last_opt cdf) as [[lc ls]|]; cbn [bind] in H; [|inversion H; auto].
    destruct (src_next sy); inversion H; auto.
Qed.

(* failures of the validator when the closure keeps a size invariant *)
Section InvFail.
  Context {St : Type}.
  Variable c : mcfg.
  Variable op : St -> Z -> N -> N -> res St.
  Variable Inv : N -> St -> Prop.
  Variable Q : Z -> Prop.
  Variable K : N.
  Hypothesis HQ : Q E_ERR.
  Hypothesis Hop : forall k st s cu p, Inv k st -> p < 2 ^ PB c -> k < K ->
    (forall e, op st s cu p = Fail e -> Q e) /\ (forall st', op st s cu p = Ok st' -> Inv (k + 1) st').

  Lemma accum_loop_inv : forall probs sy l n a st k,
    Forall (fun p => p < 2 ^ PB c) probs -> Inv k st -> k + lenN probs <= K ->
    (forall e, accum_loop c op probs sy l n a st = Fail e -> Q e) /\
    (forall sy' l' n' a' st', accum_loop c op probs sy l n a st = Ok (sy', l', n', a', st') ->
       Inv (k + lenN probs) st').
  Proof.
    induction probs as [|p r IH]; intros sy l n a st k HF HI HK.
    - split; [discriminate|]. intros sy' l' n' a' st' H. cbn in H. inversion H; subst.
      unfold lenN. cbn. rewrite N.add_0_r. exact HI.
    - inversion HF as [|? ? Hp HF']; subst. rewrite lenN_cons in HK.
      cbn [accum_loop].
      destruct (src_next sy) as [[x sy1]|]; [|split; [intros e H; inversion H; exact HQ|discriminate]].
      destruct (Hop k st x a p HI Hp ltac:(lia)) as [Hf Hok].
      destruct (op st x a p) as [st1|e1] eqn:Eop; cbn [bind].
      + specialize (Hok st1 eq_refl).
        destruct (IH sy1 (l + (if wadd (PB c) a p <=? a then 1 else 0)) (n + 1) (wadd (PB c) a p) st1 (k + 1) HF' Hok ltac:(lia)) as [IHf IHok].
        split; [exact IHf|]. intros sy' l' n' a' st' H. rewrite lenN_cons.
        replace (k + (1 + lenN r)) with (k + 1 + lenN r) by lia. eapply IHok; eauto.
      + split; [intros e H; inversion H; subst; apply Hf; reflexivity|discriminate].
  Qed.

  Lemma accumulate_fail_inv probs sy infer st e :
    Forall (fun p => p < 2 ^ PB c) probs -> Inv 0 st -> lenN probs < K ->
    accumulate c op probs sy infer st = Fail e -> Q e.
  Proof.
    intros HF HI HK H. unfold accumulate in H.
    destruct (accum_loop_inv probs sy 0 0 0 st 0 HF HI ltac:(lia)) as [Hf Hok].
    destruct (accum_loop c op probs sy 0 0 0 st) as [[[[[sy1 l] n] a] st1]|e1] eqn:El; cbn [bind] in H.
    - specialize (Hok _ _ _ _ _ eq_refl). rewrite N.add_0_l in Hok.
      destruct infer.
      + destruct (_ || _ || _); [inversion H; exact HQ|].
        destruct (src_next sy1) as [[x sy2]|]; [|inversion H; exact HQ].
        destruct (Hop (lenN probs) st1 x a (wsub (PB c) (wpow2 (PB c) (PR c)) a) Hok
                    ltac:(unfold wsub; apply trunc_lt) HK) as [Hf2 _].
        destruct (op st1 x a _) eqn:Eop; cbn [bind] in H; [discriminate|].
        inversion H; subst. apply Hf2. reflexivity.
      + destruct (_ || _ || _); [inversion H; exact HQ|discriminate].
    - inversion H; subst. apply Hf. reflexivity.
  Qed.
End InvFail.

(* "the table fits into the address space": (number of entries + 1) * 2^Probability::BITS <= 2^usize::BITS *)
Definition table_fits (c : mcfg) (probs : list N) : Prop := (lenN probs + 1) * 2 ^ PB c <= 2 ^ UB c.

Lemma p_lookup_ctor_clean c probs infer e :
  probs_typed c probs -> table_fits c probs ->
  lkc_from_probs c probs infer = Fail e -> e = E_ERR.
Proof.
  intros HF Hfit H. unfold lkc_from_probs in H. apply bind_fail in H. destruct H as [H|(a & Ha & H)].
  2:{ destruct a as [sy [cdf tbl]]. discriminate. }
  eapply (accumulate_fail_inv c (lkc_op c) (fun k st => lenN (snd st) + k <= k * 2 ^ PB c) (fun e => e = E_ERR)
            (lenN probs + 1)); [reflexivity| |exact HF| |lia|exact H].
  - intros k [cdf tbl] s cu p HI Hp Hk. cbn [snd] in HI. unfold lkc_op, cadd.
    assert (lenN tbl + p < 2 ^ UB c).
    { unfold table_fits in Hfit. pose proof (pow2_pos (PB c)). nia. }
    destruct (N.ltb_spec (lenN tbl + p) (2 ^ UB c)) as [_|]; [|lia]. cbn [bind]. split; [discriminate|].
    intros st' Hst. inversion Hst; subst. cbn [snd]. rewrite resize_grow, lenN_app. unfold lenN at 2. rewrite repeat_length, N2Nat.id. pose proof (pow2_pos (PB c)). nia.
  - cbn. lia.
Qed.

Lemma p_lookup_nc_ctor_clean c ss probs infer e :
  wf_mcfg_lookup c -> probs_typed c probs -> table_fits c probs ->
  lkn_from_probs c ss probs infer = Fail e -> e = E_ERR.
Proof.
  intros Hl HF Hfit H.
  destruct (accumulate c (fun st s (_ : N) p => lkn_push c st s p) probs (SList ss) infer ([], [])) as [[rest st]|e1] eqn:Ea.
  - pose proof (accumulate_accepts_valid c _ (proj1 Hl) _ _ _ _ _ HF Ea) as Hv.
    rewrite (lkn_from_probs_valid c Hl ss probs infer Hv) in H.
    destruct (_ =? _)%nat; inversion H; reflexivity.
  - unfold lkn_from_probs in H. rewrite Ea in H. cbn [bind] in H. inversion H; subst e1.
    eapply (accumulate_fail_inv c _ (fun k st => lenN (snd st) + k <= k * 2 ^ PB c) (fun e => e = E_ERR)
              (lenN probs + 1)); [reflexivity| |exact HF| |lia|exact Ea].
    + intros k [cdf tbl] s cu p HI Hp Hk. cbn [snd] in HI. unfold lkn_push, cadd.
      assert (lenN tbl + p < 2 ^ UB c).
      { unfold table_fits in Hfit. pose proof (pow2_pos (PB c)). nia. }
      destruct (N.ltb_spec (lenN tbl + p) (2 ^ UB c)) as [_|]; [|lia]. cbn [bind]. split; [discriminate|].
      intros st' Hst. inversion Hst; subst. cbn [snd]. rewrite resize_grow, lenN_app. unfold lenN at 2.
      rewrite repeat_length, N2Nat.id. pose proof (pow2_pos (PB c)). nia.
    + cbn. lia.
Qed.
