#!/usr/bin/env python3
"""Debug aid: run ONE (family, generator) of a property with n cases and dump every violation.
usage: tools/runfam.py <prop> <family module> <generator> <n> [quick|thorough]   (VERIF_SEED, VERIF_REPO honoured)
Writes /verif/replay/runfam-<prop>-<gen>.json; never touches evidence/."""
import importlib.machinery, importlib.util, json, os, sys
here = os.path.dirname(os.path.dirname(os.path.abspath(__file__)))
sys.path.insert(0, os.path.join(here, "lib"))
loader = importlib.machinery.SourceFileLoader("check_main", os.path.join(here, "check"))
spec = importlib.util.spec_from_loader("check_main", loader)
chk = importlib.util.module_from_spec(spec)
loader.exec_module(chk)
C = chk.C


def main():
    prop, famname, genname, n = sys.argv[1], sys.argv[2], sys.argv[3], int(sys.argv[4])
    tier = sys.argv[5] if len(sys.argv) > 5 else "quick"
    seed = int(os.environ.get("VERIF_SEED", "1"))
    workdir = os.path.join(C.WORK, "runfam-%d" % os.getpid())
    os.makedirs(workdir, exist_ok=True)
    known, _ = C.load_known()
    fam = importlib.import_module(famname)
    C.proof_obligations([fam.RUNNER[0]], "quick", workdir)
    bins = {"debug": C.cargo_build("debug"), "release": C.cargo_build("release")}
    if os.environ.get("RUNFAM_ASAN"):
        os.environ.setdefault("ASAN_OPTIONS", "detect_leaks=0:abort_on_error=1:allocator_may_return_null=1")
        a = C.cargo_build_asan()
        assert a, "no ASan build"
        bins["asan"] = a
    stats = dict(evaluations=0, nontrivial=set(), families=[], samples=[])
    v, kh, *_ = chk.run_family(prop, famname, genname, n, seed, tier, workdir, bins, known, stats)
    out = os.path.join(here, "replay", "runfam-%s-%s.json" % (prop, genname))
    os.makedirs(os.path.dirname(out), exist_ok=True)
    json.dump(v, open(out, "w"), indent=1)
    print("violations", len(v), "known hits", len(kh), "->", out)
    for x in v[:40]:
        print(x["kind"], x["profile"], x["describe"], "|", x["reason"])


main()
