(* Proofs/Huffman_opt.v -- optimality of the constructed code among all prefix
   codes (integer weights).
   Route: (1) a prefix-free code satisfies the Kraft inequality; (2) exchange
   argument on lists of (weight, length) pairs: the two lightest items can be
   given the two largest lengths, these can be made equal (parity), and the two
   items can be merged into one item one level higher at a cost difference of
   exactly w0 + w1; (3) induction along the loop: the sum of the internal node
   weights is a lower bound for the cost of EVERY feasible length assignment;
   (4) the cost identity of Huffman_kraft.v. *)
From CV Require Import Base.Bits Model.Huffman Proofs.Huffman_heap Proofs.Huffman_build
  Proofs.Huffman_code Proofs.Huffman_kraft Proofs.Huffman_main.
From Coq Require Import Permutation.
Set Default Timeout 30.
Open Scope N_scope.

Definition wl := (N * nat)%type.          (* (weight, codeword length) *)

Definition kterm (L : nat) (l : nat) : N := 2 ^ N.of_nat (L - l).
Definition kraft (L : nat) (pl : list wl) : N := nsum (map (fun x => kterm L (snd x)) pl).
Definition cost (pl : list wl) : N := nsum (map (fun x => fst x * N.of_nat (snd x)) pl).
Definition lens_le (B : nat) (pl : list wl) : Prop := Forall (fun x => (snd x <= B)%nat) pl.
(* a length assignment that satisfies the Kraft inequality *)
Definition feasible (L : nat) (pl : list wl) : Prop := lens_le L pl /\ kraft L pl <= 2 ^ N.of_nat L.

Lemma kraft_cons L x pl : kraft L (x :: pl) = kterm L (snd x) + kraft L pl.
Proof. reflexivity. Qed.

Lemma cost_cons x pl : cost (x :: pl) = fst x * N.of_nat (snd x) + cost pl.
Proof. reflexivity. Qed.

Lemma kraft_perm L a b : Permutation a b -> kraft L a = kraft L b.
Proof. intros P. apply nsum_perm, Permutation_map, P. Qed.

Lemma cost_perm a b : Permutation a b -> cost a = cost b.
Proof. intros P. apply nsum_perm, Permutation_map, P. Qed.

Lemma feasible_perm L a b : Permutation a b -> feasible L a -> feasible L b.
Proof.
  intros P [H1 H2]. split.
  - eapply Permutation_Forall; eassumption.
  - rewrite <- (kraft_perm L a b P). exact H2.
Qed.

Lemma kterm_pos L l : 0 < kterm L l.
Proof. apply pow2_pos. Qed.

Lemma kterm_double L l : (S l <= L)%nat -> kterm L l = 2 * kterm L (S l).
Proof.
  intros H. unfold kterm. replace (N.of_nat (L - l)) with (N.of_nat (L - S l) + 1) by lia.
  rewrite N.pow_add_r. change (2 ^ 1) with 2. lia.
Qed.

(* all terms of lengths <= m are multiples of the term of length m *)
Lemma kraft_multiple L m pl : (m <= L)%nat -> lens_le m pl -> exists q, kraft L pl = q * kterm L m.
Proof.
  intros Hm H. induction H as [|x r Hx Hr IH].
  - exists 0. reflexivity.
  - destruct IH as (q & Hq). rewrite kraft_cons, Hq.
    exists (2 ^ N.of_nat (m - snd x) + q). unfold kterm.
    replace (N.of_nat (L - snd x)) with (N.of_nat (m - snd x) + N.of_nat (L - m)) by lia.
    rewrite N.pow_add_r. lia.
Qed.

(* ---------- give the lightest item the largest length (swaps only) *)
Lemma lightest_longest L : forall (rest : list wl) w0 l0,
  Forall (fun x => w0 <= fst x) rest ->
  exists M rest',
    map fst rest' = map fst rest /\ (l0 <= M)%nat /\ lens_le M rest'
    /\ kraft L ((w0, M) :: rest') = kraft L ((w0, l0) :: rest)
    /\ cost ((w0, M) :: rest') <= cost ((w0, l0) :: rest)
    /\ (forall B, (l0 <= B)%nat -> lens_le B rest -> (M <= B)%nat /\ lens_le B rest').
Proof.
  induction rest as [|[w l] r IH]; intros w0 l0 Hw.
  - exists l0, []. split; [reflexivity|]. split; [lia|]. split; [constructor|].
    split; [reflexivity|]. split; [apply N.le_refl|]. intros B HB _. split; [exact HB|constructor].
  - inversion Hw as [|? ? Hw1 Hw2]; subst. cbn [fst] in Hw1.
    destruct (IH w0 l0 Hw2) as (M1 & r' & Hf & Hl0 & Hle & Hk & Hc & HB).
    rewrite !kraft_cons, !cost_cons in *. cbn [fst snd] in *.
    destruct (le_lt_dec l M1) as [Hl|Hl].
    + exists M1, ((w, l) :: r'). rewrite !kraft_cons, !cost_cons. cbn [fst snd map].
      split; [f_equal; exact Hf|]. split; [exact Hl0|].
      split; [constructor; [exact Hl|exact Hle]|]. split; [lia|]. split; [lia|].
      intros B HB0 HBr. inversion HBr; subst. destruct (HB B HB0 H2) as (HB1 & HB2).
      split; [exact HB1|constructor; assumption].
    + exists l, ((w, M1) :: r'). rewrite !kraft_cons, !cost_cons. cbn [fst snd map].
      split; [f_equal; exact Hf|]. split; [lia|].
      split.
      { constructor; [cbn; lia|]. eapply Forall_impl; [|exact Hle]. cbn. intros; lia. }
      split; [lia|]. split.
      { assert (w0 * N.of_nat l + w * N.of_nat M1 <= w0 * N.of_nat M1 + w * N.of_nat l) by nia. lia. }
      intros B HB0 HBr. inversion HBr; subst. cbn [snd] in *. destruct (HB B HB0 H2) as (HB1 & HB2).
      split; [assumption|]. constructor; [cbn; lia|exact HB2].
Qed.

(* ---------- parity: a unique longest item can be shortened *)
Lemma shorten_unique_max L w0 w1 M1 rest : forall M,
  (M1 <= M)%nat -> lens_le M1 rest ->
  feasible L ((w0, M) :: (w1, M1) :: rest) ->
  feasible L ((w0, M1) :: (w1, M1) :: rest).
Proof.
  intros M. remember (M - M1)%nat as d eqn:Hd. revert M Hd.
  induction d as [|d IH]; intros M Hd HM Hr Hf.
  - replace M1 with M by lia. replace M with M1 in Hf by lia. replace M with M1 by lia. exact Hf.
  - apply (IH (M - 1)%nat); [lia|lia|exact Hr|].
    destruct Hf as [Hl Hk]. inversion Hl as [|? ? HML Hl']; subst. cbn [snd] in HML.
    split; [constructor; [cbn; lia|exact Hl']|].
    rewrite kraft_cons in *. cbn [snd] in *.
    assert (lens_le (M - 1) ((w1, M1) :: rest)) as Hothers.
    { constructor; [cbn; lia|]. eapply Forall_impl; [|exact Hr]. cbn. intros; lia. }
    destruct (kraft_multiple L (M - 1) _ ltac:(lia) Hothers) as (q & Hq).
    rewrite Hq in *.
    assert (kterm L (M - 1) = 2 * kterm L M) as Hdbl.
    { replace M with (S (M - 1)) at 2 by lia. apply kterm_double. lia. }
    (* 2^L is a multiple of kterm L (M-1) as well *)
    assert (exists t, 2 ^ N.of_nat L = t * kterm L (M - 1)) as (t & Ht).
    { exists (2 ^ N.of_nat (M - 1)). unfold kterm. rewrite <- N.pow_add_r. f_equal. lia. }
    rewrite Ht in *. pose proof (kterm_pos L M) as Hp.
    set (u := kterm L (M - 1)) in *. set (k := kterm L M) in *.
    assert (q < t) by nia. nia.
Qed.

(* ---------- exchange + merge: the two lightest items become one item *)
Lemma merge_two_lightest L w0 l0 w1 l1 rest :
  w0 <= w1 -> Forall (fun x => w1 <= fst x) rest ->
  feasible L ((w0, l0) :: (w1, l1) :: rest) ->
  exists lm rest',
    map fst rest' = map fst rest
    /\ feasible L ((w0 + w1, lm) :: rest')
    /\ cost ((w0 + w1, lm) :: rest') + (w0 + w1) <= cost ((w0, l0) :: (w1, l1) :: rest).
Proof.
  intros H01 Hrest [Hl Hk].
  assert (Forall (fun x => w0 <= fst x) ((w1, l1) :: rest)) as Hw0.
  { constructor; [exact H01|]. eapply Forall_impl; [|exact Hrest]. cbn. intros; lia. }
  destruct (lightest_longest L _ w0 l0 Hw0) as (M & r0 & Hf0 & HlM & Hle0 & Hk0 & Hc0 & HB0).
  destruct r0 as [|[w1' l1'] r1]; [discriminate|].
  cbn [map fst] in Hf0. inversion Hf0 as [[Hw1 Hf1]]. subst w1'.
  assert (Forall (fun x => w1 <= fst x) r1) as Hw1.
  { clear - Hrest Hf1. revert rest Hrest Hf1. induction r1 as [|y r IH]; intros rest Hr Hf; [constructor|].
    destruct rest as [|z rest']; [discriminate|]. cbn in Hf. inversion Hf. inversion Hr; subst.
    constructor; [congruence|]. eapply IH; eassumption. }
  destruct (lightest_longest L r1 w1 l1' Hw1) as (M1 & r2 & Hf2 & HlM1 & Hle2 & Hk2 & Hc2 & HB2).
  inversion Hle0 as [|? ? Hl1' Hler1]; subst. cbn [snd] in Hl1'.
  destruct (HB2 M Hl1' Hler1) as (HM1M & Hler2M).
  inversion Hl as [|? ? HL0 Hl2]; subst. cbn [snd] in HL0.
  destruct (HB0 L HL0 Hl2) as (HML & HleL). inversion HleL as [|? ? HL1' HLr1]; subst. cbn [snd] in HL1'.
  destruct (HB2 L HL1' HLr1) as (HM1L & HLr2).
  (* now (w0, M) :: (w1, M1) :: r2 is feasible and no more expensive *)
  assert (feasible L ((w0, M) :: (w1, M1) :: r2)) as F1.
  { split; [constructor; [exact HML|constructor; [exact HM1L|exact HLr2]]|].
    rewrite (kraft_cons L (w0, M)). rewrite Hk2.
    rewrite (kraft_cons L (w0, M)) in Hk0. lia. }
  assert (cost ((w0, M) :: (w1, M1) :: r2) <= cost ((w0, l0) :: (w1, l1) :: rest)) as C1.
  { rewrite (cost_cons (w0, M)). rewrite (cost_cons (w0, M)) in Hc0. lia. }
  pose proof (shorten_unique_max L w0 w1 M1 r2 M HM1M Hle2 F1) as F2.
  assert (cost ((w0, M1) :: (w1, M1) :: r2) <= cost ((w0, M) :: (w1, M1) :: r2)) as C2.
  { rewrite !cost_cons. cbn [fst snd]. nia. }
  (* M1 >= 1, otherwise two terms of 2^L *)
  assert (1 <= M1)%nat as HM1.
  { destruct M1 as [|m]; [|lia]. exfalso. destruct F2 as [_ Hk']. rewrite !kraft_cons in Hk'. cbn [snd] in Hk'.
    unfold kterm in Hk'. rewrite Nat.sub_0_r in Hk'. pose proof (pow2_pos (N.of_nat L)). lia. }
  exists (M1 - 1)%nat, r2. split; [congruence|]. split.
  - destruct F2 as [Hl2' Hk']. inversion Hl2' as [|? ? _ Hl3]; subst. inversion Hl3 as [|? ? _ Hl4]; subst.
    split; [constructor; [cbn; lia|exact Hl4]|].
    rewrite !kraft_cons in *. cbn [snd] in *.
    rewrite (kterm_double L (M1 - 1)) by lia. replace (S (M1 - 1)) with M1 by lia. lia.
  - rewrite !cost_cons in *. cbn [fst snd] in *.
    replace (N.of_nat (M1 - 1)) with (N.of_nat M1 - 1) by lia.
    assert (1 <= N.of_nat M1) by lia. nia.
Qed.

(* ---------- (3) the internal node weights are a lower bound for every
   feasible length assignment *)
Lemma perm_map_fst_cons (pl : list wl) a l :
  Permutation (map fst pl) (a :: l) ->
  exists x pl', Permutation pl (x :: pl') /\ fst x = a /\ Permutation (map fst pl') l.
Proof.
  intros P.
  assert (In a (map fst pl)) as Hin by (eapply Permutation_in; [symmetry; exact P|left; reflexivity]).
  apply in_map_iff in Hin. destruct Hin as (x & Hx & Hin).
  apply in_split in Hin. destruct Hin as (l1 & l2 & ->).
  exists x, (l1 ++ l2). split; [symmetry; apply Permutation_middle|]. split; [exact Hx|].
  apply (Permutation_cons_inv (a := a)).
  rewrite <- P, map_app, map_app. cbn [map]. rewrite Hx. apply Permutation_middle.
Qed.

Lemma item_le_weight (a b : N * N) : item_le N N.compare a b -> fst a <= fst b.
Proof.
  intros H. apply (item_le_spec N N.compare ncmp_sym) in H.
  destruct H as [H|[H _]].
  - apply N.lt_le_incl. exact H.
  - apply N.compare_eq_iff in H. rewrite H. apply N.le_refl.
Qed.

Section LowerBound.
  Variable wadd : N -> N -> option N.
  Variable wnan : N -> bool.
  Hypothesis wadd_spec : forall x y s, wadd x y = Some s -> s = x + y.
  Variable L : nat.

  Lemma loop_lower_bound f : forall h next ss,
    sums_loop N.compare wadd wnan f h next = Ok ss -> heap_ok h next ->
    forall pl, Permutation (map fst pl) (map fst h) -> feasible L pl -> nsum ss <= cost pl.
  Proof.
    induction f as [|f IH]; intros h next ss H Hok pl P F; [discriminate|].
    cbn in H.
    destruct (merge_step N N.compare wadd wnan h next) as [[[[i0 i1] h']|e]|] eqn:E; cbn in H;
      try discriminate.
    - destruct (sums_loop N.compare wadd wnan f h' (next + 1)) as [ss'|] eqn:Es; cbn in H; [|discriminate].
      inversion H; subst ss. clear H.
      destruct (merge_step_ok _ _ _ _ _ _ _ _ _ Hok E) as (h2' & _ & _ & Hok' & _).
      destruct (merge_step_minimal N N.compare wadd wnan ncmp_sym ncmp_trans _ _ _ _ _ E)
        as (p0 & p1 & h2 & s & Ph & -> & Ea & Hle01 & Hle1).
      apply wadd_spec in Ea. subst s. cbn [hd_weight].
      apply item_le_weight in Hle01. cbn [fst] in Hle01.
      assert (Forall (fun w => p1 <= w) (map fst h2)) as Hw2.
      { apply Forall_map. eapply Forall_impl; [|exact Hle1]. intros y Hy.
        apply item_le_weight in Hy. exact Hy. }
      assert (Permutation (map fst pl) (p0 :: p1 :: map fst h2)) as P'.
      { rewrite P. change (p0 :: p1 :: map fst h2) with (map fst ((p0, i0) :: (p1, i1) :: h2)).
        apply Permutation_map. exact Ph. }
      destruct (perm_map_fst_cons _ _ _ P') as ([w0 l0] & pl1 & Ppl & Hx0 & P1). cbn in Hx0. subst w0.
      destruct (perm_map_fst_cons _ _ _ P1) as ([w1 l1] & rest & Ppl1 & Hx1 & P2). cbn in Hx1. subst w1.
      assert (Permutation pl ((p0, l0) :: (p1, l1) :: rest)) as Pfull.
      { rewrite Ppl. constructor. exact Ppl1. }
      assert (Forall (fun x => p1 <= fst x) rest) as Hrest.
      { apply Forall_map. eapply Permutation_Forall; [symmetry; exact P2|exact Hw2]. }
      destruct (merge_two_lightest L p0 l0 p1 l1 rest Hle01 Hrest (feasible_perm _ _ _ Pfull F))
        as (lm & rest' & Hf & F' & C').
      assert (Permutation (map fst ((p0 + p1, lm) :: rest')) (map fst ((p0 + p1, next) :: h2))) as Pn.
      { cbn [map fst]. constructor. rewrite Hf. exact P2. }
      specialize (IH _ _ _ Es Hok' _ Pn F').
      rewrite (cost_perm _ _ Pfull). cbn [nsum]. lia.
    - inversion H; subst. cbn. lia.
  Qed.
End LowerBound.

(* ---------- (1) prefix-free word lists satisfy the Kraft inequality *)
Definition is_prefix (a b : list bool) : Prop := exists r, b = a ++ r.
Definition incomparable (a b : list bool) : Prop := ~ is_prefix a b /\ ~ is_prefix b a.
Definition pfree (cs : list (list bool)) : Prop := ForallOrdPairs incomparable cs.
Definition wsum (L : nat) (cs : list (list bool)) : N := nsum (map (fun c => kterm L (length c)) cs).

(* the words that start with bit b, without that bit *)
Fixpoint sub (b : bool) (cs : list (list bool)) : list (list bool) :=
  match cs with
  | [] => []
  | [] :: r => sub b r
  | (x :: t) :: r => if Bool.eqb x b then t :: sub b r else sub b r
  end.

Lemma in_sub b cs t : In t (sub b cs) -> In (b :: t) cs.
Proof.
  induction cs as [|[|x u] r IH]; cbn; [tauto|intros H; right; auto|].
  destruct (Bool.eqb x b) eqn:E.
  - apply Bool.eqb_prop in E. subst x. intros [->|H]; [left; reflexivity|right; auto].
  - intros H. right. auto.
Qed.

Lemma pfree_sub b cs : pfree cs -> pfree (sub b cs).
Proof.
  induction 1 as [|a r Ha Hr IH]; cbn; [constructor|].
  destruct a as [|x t]; [exact IH|].
  destruct (Bool.eqb x b) eqn:E; [|exact IH].
  apply Bool.eqb_prop in E. subst x. constructor; [|exact IH].
  apply Forall_forall. intros t' Ht'. apply in_sub in Ht'.
  rewrite Forall_forall in Ha. destruct (Ha _ Ht') as [H1 H2].
  split; intros [q Hq]; [apply H1|apply H2]; exists q; cbn; f_equal; exact Hq.
Qed.

Lemma wsum_split L cs : Forall (fun c => c <> []) cs ->
  wsum (S L) cs = wsum L (sub false cs) + wsum L (sub true cs).
Proof.
  induction 1 as [|c r Hc Hr IH]; [reflexivity|].
  destruct c as [|x t]; [congruence|]. unfold wsum in *. cbn [map nsum sub length].
  rewrite IH. assert (kterm (S L) (S (length t)) = kterm L (length t)) as -> by reflexivity.
  destruct x; cbn [Bool.eqb map nsum]; lia.
Qed.

Lemma sub_len b L cs : Forall (fun c => (length c <= S L)%nat) cs -> Forall (fun c => (length c <= L)%nat) (sub b cs).
Proof.
  induction 1 as [|c r Hc Hr IH]; cbn; [constructor|].
  destruct c as [|x t]; [exact IH|]. destruct (Bool.eqb x b); [|exact IH].
  constructor; [cbn in Hc; lia|exact IH].
Qed.

Lemma pfree_nil_only cs : pfree cs -> In [] cs -> cs = [[]].
Proof.
  intros H Hin. destruct H as [|a r Ha Hr]; [contradiction|].
  destruct a as [|x t].
  - destruct r as [|b r']; [reflexivity|]. exfalso.
    inversion Ha as [|? ? [H1 _] _]; subst. apply H1. exists b. reflexivity.
  - exfalso. destruct Hin as [Hin|Hin]; [discriminate|].
    rewrite Forall_forall in Ha. destruct (Ha _ Hin) as [_ H2]. apply H2. exists (x :: t). reflexivity.
Qed.

Lemma kraft_ineq : forall L cs,
  Forall (fun c => (length c <= L)%nat) cs -> pfree cs -> wsum L cs <= 2 ^ N.of_nat L.
Proof.
  induction L as [|L IH]; intros cs Hlen Hp.
  - destruct (in_dec (list_eq_dec Bool.bool_dec) [] cs) as [Hin|Hnin].
    + rewrite (pfree_nil_only cs Hp Hin). unfold wsum, kterm. cbn [map nsum length Nat.sub].
      rewrite N.add_0_r. apply N.le_refl.
    + destruct cs as [|c r]; [unfold wsum; cbn [map nsum]; apply N.le_0_l|]. exfalso. apply Hnin. left.
      inversion Hlen; subst. destruct c; [reflexivity|cbn in *; lia].
  - destruct (in_dec (list_eq_dec Bool.bool_dec) [] cs) as [Hin|Hnin].
    + rewrite (pfree_nil_only cs Hp Hin). unfold wsum, kterm. cbn [map nsum length].
      rewrite Nat.sub_0_r. lia.
    + rewrite wsum_split.
      * pose proof (IH (sub false cs) (sub_len false L cs Hlen) (pfree_sub false cs Hp)).
        pose proof (IH (sub true cs) (sub_len true L cs Hlen) (pfree_sub true cs Hp)).
        replace (N.of_nat (S L)) with (N.of_nat L + 1) by lia. rewrite N.pow_add_r. change (2 ^ 1) with 2. lia.
      * apply Forall_forall. intros c Hc ->. contradiction.
Qed.

Lemma pfree_map (c : N -> list bool) l :
  NoDup l -> (forall s s', In s l -> In s' l -> is_prefix (c s) (c s') -> s = s') -> pfree (map c l).
Proof.
  induction 1 as [|a r Ha Hr IH]; intros H; cbn; [constructor|].
  constructor.
  - apply Forall_forall. intros w Hw. apply in_map_iff in Hw. destruct Hw as (s' & <- & Hs').
    split; intros Hp.
    + apply Ha. rewrite (H a s'); [exact Hs'|left; reflexivity|right; exact Hs'|exact Hp].
    + apply Ha. rewrite <- (H s' a); [exact Hs'|right; exact Hs'|left; reflexivity|exact Hp].
  - apply IH. intros s s' Hs Hs'. apply H; right; assumption.
Qed.

(* ---------- (4) optimality *)
Theorem huff_optimal b USZ ws en dn (c : N -> list bool) :
  built N N.compare (nw_add b) nw_nan USZ ws en dn ->
  (forall s s' r, s < N.of_nat (length ws) -> s' < N.of_nat (length ws) -> c s' = c s ++ r -> s = s') ->
  nsum (map (fun x => fst x * N.of_nat (code_len en (snd x))) (enumerate N 0 ws))
  <= nsum (map (fun x => fst x * N.of_nat (length (c (snd x)))) (enumerate N 0 ws)).
Proof.
  intros B Hc. destruct (main_cost b USZ ws en dn B) as (ss & Hs & _ & ->).
  set (h := enumerate N 0 ws) in *.
  set (pl := map (fun x : N * N => (fst x, length (c (snd x)))) h).
  assert (cost pl = nsum (map (fun x => fst x * N.of_nat (length (c (snd x)))) h)) as <-.
  { unfold cost, pl. rewrite map_map. reflexivity. }
  set (L := list_max (map (fun x => snd x) pl)).
  assert (forall x y s, nw_add b x y = Some s -> s = x + y) as Hadd.
  { unfold nw_add. intros x y s. destruct (x + y <? 2 ^ b); intros X; inversion X; reflexivity. }
  apply (loop_lower_bound (nw_add b) nw_nan Hadd L _ h _ ss Hs).
  - apply heap_ok_enumerate.
  - unfold pl. rewrite map_map. cbn [fst]. reflexivity.
  - split.
    + unfold lens_le. apply Forall_forall. intros x Hx.
      assert (In (snd x) (map (fun x => snd x) pl)) as Hin by (apply in_map; exact Hx).
      pose proof (list_max_le (map (fun x => snd x) pl) L) as [Hmax _].
      specialize (Hmax (Nat.le_refl _)). rewrite Forall_forall in Hmax. apply Hmax. exact Hin.
    + assert (kraft L pl = wsum L (map c (idx h))) as ->.
      { unfold kraft, wsum, pl, idx. rewrite !map_map. reflexivity. }
      apply kraft_ineq.
      * apply Forall_forall. intros w Hw. apply in_map_iff in Hw. destruct Hw as (s & <- & Hs').
        unfold idx in Hs'. apply in_map_iff in Hs'. destruct Hs' as (x & <- & Hx).
        assert (In (length (c (snd x))) (map (fun x => snd x) pl)) as Hin.
        { unfold pl. rewrite map_map. cbn [snd]. apply in_map_iff. exists x. auto. }
        pose proof (list_max_le (map (fun x => snd x) pl) L) as [Hmax _].
        specialize (Hmax (Nat.le_refl _)). rewrite Forall_forall in Hmax. apply Hmax. exact Hin.
      * unfold h. rewrite idx_enumerate. apply pfree_map; [apply nseq_nodup|].
        intros s s' Hs1 Hs2 [r Hr]. apply in_nseq in Hs1, Hs2.
        apply (Hc s s' r); [lia|lia|exact Hr].
Qed.
