//! Family `models`: fixed-point entropy models under `src/stream/model/` (C03, C05, C09, C19,
//! C20): UniformModel, ContiguousCategoricalEntropyModel, NonContiguousCategorical{Decoder,
//! Encoder}Model, {Contiguous,NonContiguous}LookupDecoderModel and the conversion graph between
//! them.  Input / output format: see /verif/lib/fam_models.py (generator) and
//! coq/theories/Corr/Models_run.v (model runner); the three must agree.
use crate::common::*;
use constriction::stream::model::{
    ContiguousCategoricalEntropyModel, ContiguousLookupDecoderModel, DecoderModel, EncoderModel,
    IterableEntropyModel, NonContiguousCategoricalDecoderModel,
    NonContiguousCategoricalEncoderModel, NonContiguousLookupDecoderModel, UniformModel,
};
use std::hash::Hash;

pub const NONE: Int = -1;
pub const ERR: Int = -1;
pub const UNREPRESENTABLE: Int = -3;
pub const NOT_APPLICABLE: Int = -5;
pub const REFUSED: Int = -6;
/// a query / conversion on an ACCEPTED model panicked (the constructor's own panic is reported
/// for the whole case by main.rs)
pub const OP_PANIC: Int = -7;

/// symbol types of the non-contiguous models
pub trait SymT: Clone + Hash + Eq + Default + 'static {
    fn from_int(x: Int) -> Option<Self>;
    fn to_int(&self) -> Int;
}
impl SymT for usize {
    fn from_int(x: Int) -> Option<Self> {
        usize::try_from(x).ok()
    }
    fn to_int(&self) -> Int {
        *self as Int
    }
}
impl SymT for i32 {
    fn from_int(x: Int) -> Option<Self> {
        i32::try_from(x).ok()
    }
    fn to_int(&self) -> Int {
        *self as Int
    }
}
impl SymT for char {
    fn from_int(x: Int) -> Option<Self> {
        u32::try_from(x).ok().and_then(char::from_u32)
    }
    fn to_int(&self) -> Int {
        *self as u32 as Int
    }
}

type Entry = (Int, u64, u64);

/// one representation of a model, type-erased
pub trait Rep {
    /// IterableEntropyModel::symbol_table
    fn table(&self) -> Option<Vec<Entry>> {
        None
    }
    fn is_enc(&self) -> bool {
        false
    }
    /// EncoderModel::left_cumulative_and_probability, result already encoded
    fn lcp(&self, _s: Int, _out: &mut Vec<Int>) {}
    fn is_dec(&self) -> bool {
        false
    }
    /// DecoderModel::quantile_function
    fn quant(&self, _q: u64) -> Entry {
        unreachable!()
    }
    fn support(&self) -> Option<usize> {
        None
    }
    /// applies conversion `id` and hands the result to `k`; false = no such conversion
    fn conv(&self, _id: Int, _k: &mut dyn FnMut(&dyn Rep)) -> bool {
        false
    }
}

fn push_lcp<T: Into<u64>, Q: Into<u64>>(r: Option<(T, Q)>, out: &mut Vec<Int>) {
    match r {
        None => out.push(NONE),
        Some((c, p)) => {
            out.push(1);
            out.push(c.into() as Int);
            out.push(p.into() as Int);
        }
    }
}

macro_rules! lookup_or_false {
    (yes, $e:expr) => {
        $e
    };
    (no, $e:expr) => {
        false
    };
}
macro_rules! if_lookup {
    (yes, $($body:tt)*) => { $($body)* };
    (no, $($body:tt)*) => {};
}

macro_rules! pr_mod {
    ($modname:ident, $Pr:ty, $lk:tt, [$($p:literal),*]) => {
        pub mod $modname {
            use super::*;
            type Pr = $Pr;
            type Contig<Cdf, const P: usize> = ContiguousCategoricalEntropyModel<Pr, Cdf, P>;
            type NcDec<S, Cdf, const P: usize> = NonContiguousCategoricalDecoderModel<S, Pr, Cdf, P>;
            type NcEnc<S, const P: usize> = NonContiguousCategoricalEncoderModel<S, Pr, P>;

            fn table_of<'m, S: SymT, M, const P: usize>(m: &'m M) -> Vec<Entry>
            where
                M: IterableEntropyModel<'m, P, Symbol = S, Probability = Pr>,
            {
                m.symbol_table().map(|(s, c, p)| (s.to_int(), c as u64, p.get() as u64)).collect()
            }

            /// to_generic_{encoder,decoder,lookup_decoder}_model of any iterable model
            fn generic_conv<'m, S: SymT, M, const P: usize>(
                m: &'m M,
                id: Int,
                k: &mut dyn FnMut(&dyn Rep),
            ) -> bool
            where
                M: IterableEntropyModel<'m, P, Symbol = S, Probability = Pr>,
            {
                match id {
                    2 => {
                        let e = m.to_generic_encoder_model();
                        k(&e);
                        true
                    }
                    3 => {
                        let d = m.to_generic_decoder_model();
                        k(&d);
                        true
                    }
                    4 => lookup_or_false!($lk, {
                        let l = m.to_generic_lookup_decoder_model();
                        k(&l);
                        true
                    }),
                    _ => false,
                }
            }

            impl<const P: usize> Rep for UniformModel<Pr, P> {
                fn table(&self) -> Option<Vec<Entry>> {
                    Some(table_of::<usize, _, P>(self))
                }
                fn is_enc(&self) -> bool {
                    true
                }
                fn lcp(&self, s: Int, out: &mut Vec<Int>) {
                    match <usize as SymT>::from_int(s) {
                        None => out.push(UNREPRESENTABLE),
                        Some(s) => push_lcp(
                            self.left_cumulative_and_probability(s).map(|(c, p)| (c, p.get())),
                            out,
                        ),
                    }
                }
                fn is_dec(&self) -> bool {
                    true
                }
                fn quant(&self, q: u64) -> Entry {
                    let (s, c, p) = self.quantile_function(q as Pr);
                    (s as Int, c as u64, p.get() as u64)
                }
                fn conv(&self, id: Int, k: &mut dyn FnMut(&dyn Rep)) -> bool {
                    match id {
                        9 => {
                            let c = *self;
                            k(&c);
                            true
                        }
                        _ => generic_conv::<usize, _, P>(self, id, k),
                    }
                }
            }

            impl<Cdf: AsRef<[Pr]> + Clone, const P: usize> Rep for Contig<Cdf, P> {
                fn table(&self) -> Option<Vec<Entry>> {
                    Some(table_of::<usize, _, P>(self))
                }
                fn is_enc(&self) -> bool {
                    true
                }
                fn lcp(&self, s: Int, out: &mut Vec<Int>) {
                    match <usize as SymT>::from_int(s) {
                        None => out.push(UNREPRESENTABLE),
                        Some(s) => push_lcp(
                            self.left_cumulative_and_probability(s).map(|(c, p)| (c, p.get())),
                            out,
                        ),
                    }
                }
                fn is_dec(&self) -> bool {
                    true
                }
                fn quant(&self, q: u64) -> Entry {
                    let (s, c, p) = self.quantile_function(q as Pr);
                    (s as Int, c as u64, p.get() as u64)
                }
                fn support(&self) -> Option<usize> {
                    Some(self.support_size())
                }
                fn conv(&self, id: Int, k: &mut dyn FnMut(&dyn Rep)) -> bool {
                    match id {
                        1 => {
                            let v = self.as_view();
                            k(&v);
                            true
                        }
                        5 => lookup_or_false!($lk, {
                            let l = self.to_lookup_decoder_model();
                            k(&l);
                            true
                        }),
                        9 => {
                            let c = self.clone();
                            k(&c);
                            true
                        }
                        _ => generic_conv::<usize, _, P>(self, id, k),
                    }
                }
            }

            impl<S: SymT, Cdf: AsRef<[(Pr, S)]> + Clone, const P: usize> Rep for NcDec<S, Cdf, P> {
                fn table(&self) -> Option<Vec<Entry>> {
                    Some(table_of::<S, _, P>(self))
                }
                fn is_dec(&self) -> bool {
                    true
                }
                fn quant(&self, q: u64) -> Entry {
                    let (s, c, p) = self.quantile_function(q as Pr);
                    (s.to_int(), c as u64, p.get() as u64)
                }
                fn support(&self) -> Option<usize> {
                    Some(self.support_size())
                }
                fn conv(&self, id: Int, k: &mut dyn FnMut(&dyn Rep)) -> bool {
                    match id {
                        1 => {
                            let v = self.as_view();
                            k(&v);
                            true
                        }
                        5 => lookup_or_false!($lk, {
                            let l = self.to_lookup_decoder_model();
                            k(&l);
                            true
                        }),
                        9 => {
                            let c = self.clone();
                            k(&c);
                            true
                        }
                        _ => generic_conv::<S, _, P>(self, id, k),
                    }
                }
            }

            impl<S: SymT, const P: usize> Rep for NcEnc<S, P> {
                fn is_enc(&self) -> bool {
                    true
                }
                fn lcp(&self, s: Int, out: &mut Vec<Int>) {
                    match S::from_int(s) {
                        None => out.push(UNREPRESENTABLE),
                        Some(s) => push_lcp(
                            self.left_cumulative_and_probability(s).map(|(c, p)| (c, p.get())),
                            out,
                        ),
                    }
                }
                fn support(&self) -> Option<usize> {
                    Some(self.support_size())
                }
                fn conv(&self, id: Int, k: &mut dyn FnMut(&dyn Rep)) -> bool {
                    match id {
                        9 => {
                            let c = self.clone();
                            k(&c);
                            true
                        }
                        _ => false,
                    }
                }
            }

            if_lookup!($lk,
            impl<Cdf: AsRef<[Pr]> + Clone, Lt: AsRef<[Pr]> + Clone, const P: usize> Rep
                for ContiguousLookupDecoderModel<Pr, Cdf, Lt, P>
            {
                fn table(&self) -> Option<Vec<Entry>> {
                    Some(table_of::<usize, _, P>(self))
                }
                fn is_dec(&self) -> bool {
                    true
                }
                fn quant(&self, q: u64) -> Entry {
                    let (s, c, p) = self.quantile_function(q as Pr);
                    (s as Int, c as u64, p.get() as u64)
                }
                fn conv(&self, id: Int, k: &mut dyn FnMut(&dyn Rep)) -> bool {
                    match id {
                        1 => {
                            let v = self.as_view();
                            k(&v);
                            true
                        }
                        6 => {
                            let v = self.as_contiguous_categorical();
                            k(&v);
                            true
                        }
                        7 => {
                            let v = self.clone().into_contiguous_categorical();
                            k(&v);
                            true
                        }
                        9 => {
                            let c = self.clone();
                            k(&c);
                            true
                        }
                        _ => generic_conv::<usize, _, P>(self, id, k),
                    }
                }
            }

            impl<S: SymT, Cdf: AsRef<[(Pr, S)]> + Clone, Lt: AsRef<[Pr]> + Clone, const P: usize> Rep
                for NonContiguousLookupDecoderModel<S, Pr, Cdf, Lt, P>
            {
                fn table(&self) -> Option<Vec<Entry>> {
                    Some(table_of::<S, _, P>(self))
                }
                fn is_dec(&self) -> bool {
                    true
                }
                fn quant(&self, q: u64) -> Entry {
                    let (s, c, p) = self.quantile_function(q as Pr);
                    (s.to_int(), c as u64, p.get() as u64)
                }
                fn conv(&self, id: Int, k: &mut dyn FnMut(&dyn Rep)) -> bool {
                    match id {
                        1 => {
                            let v = self.as_view();
                            k(&v);
                            true
                        }
                        6 => {
                            let v = self.as_non_contiguous_categorical();
                            k(&v);
                            true
                        }
                        7 => {
                            let v = self.clone().into_non_contiguous_categorical();
                            k(&v);
                            true
                        }
                        9 => {
                            let c = self.clone();
                            k(&c);
                            true
                        }
                        _ => generic_conv::<S, _, P>(self, id, k),
                    }
                }
            }
            );

            /// kinds over `usize` symbols: 0 uniform, 1 contiguous, 4 contiguous lookup
            fn run_contig<const P: usize>(c: &Case, out: &mut Vec<Int>) {
                let probs: Vec<Pr> = c.raw.iter().map(|&x| x as Pr).collect();
                match c.kind {
                    0 => {
                        let m = UniformModel::<Pr, P>::new(c.raw[0] as usize);
                        out.push(0);
                        run_ops(&m, c, out, P, &|_k| false);
                    }
                    1 => match Contig::<Vec<Pr>, P>::from_nonzero_fixed_point_probabilities(
                        &probs, c.infer,
                    ) {
                        Err(()) => out.push(ERR),
                        Ok(m) => {
                            out.push(0);
                            // conversion 10: same table, symbols 0..n, non-contiguous decoder
                            let relabel = |k: &mut dyn FnMut(&dyn Rep)| {
                                let n = probs.len() + c.infer as usize;
                                let d = NcDec::<usize, Vec<(Pr, usize)>, P>
                                    ::from_symbols_and_nonzero_fixed_point_probabilities(
                                        0..n, &probs, c.infer,
                                    )
                                    .expect("identity relabelling of an accepted table");
                                k(&d);
                                true
                            };
                            run_ops(&m, c, out, P, &relabel);
                        }
                    },
                    4 => lookup_or_false!($lk, {
                        match ContiguousLookupDecoderModel::<Pr, Vec<Pr>, Box<[Pr]>, P>
                            ::from_nonzero_fixed_point_probabilities(&probs, c.infer)
                        {
                            Err(()) => out.push(ERR),
                            Ok(m) => {
                                out.push(0);
                                run_ops(&m, c, out, P, &|_k| false);
                            }
                        }
                        true
                    })
                    .then_some(())
                    .expect("harness: lookup models need Probability: Into<usize>"),
                    other => panic!("harness: bad kind {}", other),
                }
            }

            /// kinds over an arbitrary symbol type: 2 decoder, 3 encoder, 5 lookup
            fn run_nc<S: SymT, const P: usize>(c: &Case, out: &mut Vec<Int>) {
                let probs: Vec<Pr> = c.raw.iter().map(|&x| x as Pr).collect();
                let syms: Vec<S> =
                    c.syms.iter().map(|&x| S::from_int(x).expect("harness: bad symbol")).collect();
                match c.kind {
                    2 => match NcDec::<S, Vec<(Pr, S)>, P>
                        ::from_symbols_and_nonzero_fixed_point_probabilities(
                            syms.iter().cloned(), &probs, c.infer,
                        )
                    {
                        Err(()) => out.push(ERR),
                        Ok(m) => {
                            out.push(0);
                            run_ops(&m, c, out, P, &|_k| false);
                        }
                    },
                    3 => match NcEnc::<S, P>::from_symbols_and_nonzero_fixed_point_probabilities(
                        syms.iter().cloned(), &probs, c.infer,
                    ) {
                        Err(()) => out.push(ERR),
                        Ok(m) => {
                            out.push(0);
                            run_ops(&m, c, out, P, &|_k| false);
                        }
                    },
                    5 => lookup_or_false!($lk, {
                        match NonContiguousLookupDecoderModel::<S, Pr, Vec<(Pr, S)>, Box<[Pr]>, P>
                            ::from_symbols_and_nonzero_fixed_point_probabilities(
                                syms.iter().cloned(), &probs, c.infer,
                            )
                        {
                            Err(()) => out.push(ERR),
                            Ok(m) => {
                                out.push(0);
                                run_ops(&m, c, out, P, &|_k| false);
                            }
                        }
                        true
                    })
                    .then_some(())
                    .expect("harness: lookup models need Probability: Into<usize>"),
                    other => panic!("harness: bad kind {}", other),
                }
            }

            pub fn dispatch(c: &Case, out: &mut Vec<Int>) {
                match c.p {
                    $( $p => match (c.kind, c.symty) {
                        (0, _) | (1, _) | (4, _) => run_contig::<$p>(c, out),
                        (_, 1) => run_nc::<i32, $p>(c, out),
                        (_, 2) => run_nc::<char, $p>(c, out),
                        (_, _) => run_nc::<usize, $p>(c, out),
                    }, )*
                    other => panic!("harness: precision {} not in menu", other),
                }
            }
        }
    };
}

pub struct Case {
    pub p: usize,
    pub symty: Int,
    pub kind: Int,
    pub infer: bool,
    pub syms: Vec<Int>,
    pub raw: Vec<Int>,
    pub ops: Vec<Int>,
}

fn chain(rep: &dyn Rep, convs: &[Int], f: &mut dyn FnMut(&dyn Rep)) -> bool {
    if convs.is_empty() {
        f(rep);
        return true;
    }
    let mut ok = true;
    let applied = rep.conv(convs[0], &mut |r2: &dyn Rep| {
        ok = chain(r2, &convs[1..], &mut *f);
    });
    applied && ok
}

fn dump(rep: &dyn Rep, kind: Int, args: &[Int], out: &mut Vec<Int>, p: usize) {
    match kind {
        1 => match rep.table() {
            None => out.push(NOT_APPLICABLE),
            Some(t) => {
                out.push(1);
                out.push(t.len() as Int);
                for (s, c, q) in t {
                    out.extend([s, c as Int, q as Int]);
                }
            }
        },
        2 => {
            if !rep.is_enc() {
                out.push(NOT_APPLICABLE);
            } else {
                out.push(1);
                for &s in args {
                    rep.lcp(s, out);
                }
            }
        }
        3 => {
            if !rep.is_dec() {
                out.push(NOT_APPLICABLE);
            } else {
                out.push(1);
                for &q in args {
                    let (s, c, pr) = rep.quant(q as u64);
                    out.extend([s, c as Int, pr as Int]);
                }
            }
        }
        4 => {
            if !rep.is_dec() {
                out.push(NOT_APPLICABLE);
            } else if p > 12 {
                out.push(REFUSED);
            } else {
                let mut runs: Vec<Int> = Vec::new();
                let mut n = 0;
                let mut prev: Option<Entry> = None;
                for q in 0..(1u64 << p) {
                    let e = rep.quant(q);
                    if prev != Some(e) {
                        runs.extend([q as Int, e.0, e.1 as Int, e.2 as Int]);
                        n += 1;
                    }
                    prev = Some(e);
                }
                out.push(1);
                out.push(n);
                out.extend(runs);
            }
        }
        5 => match rep.support() {
            None => out.push(NOT_APPLICABLE),
            Some(n) => out.extend([1, n as Int]),
        },
        other => panic!("harness: bad dump {}", other),
    }
}

fn run_ops(
    base: &dyn Rep,
    c: &Case,
    out: &mut Vec<Int>,
    p: usize,
    relabel: &dyn Fn(&mut dyn FnMut(&dyn Rep)) -> bool,
) {
    let mut r = Reader::new(&c.ops);
    while !r.done() {
        let convs = r.list();
        let kind = r.next();
        let args = if kind == 2 || kind == 3 { r.list() } else { Vec::new() };
        // every op runs under its own catch_unwind: a panic after the constructor succeeded is
        // reported for that op only
        let res = std::panic::catch_unwind(std::panic::AssertUnwindSafe(|| {
            let mut buf: Vec<Int> = Vec::new();
            let ok = {
                let mut f = |rep: &dyn Rep| dump(rep, kind, &args, &mut buf, p);
                if convs.first() == Some(&10) {
                    let mut ok2 = true;
                    let applied = relabel(&mut |b: &dyn Rep| {
                        ok2 = chain(b, &convs[1..], &mut f);
                    });
                    applied && ok2
                } else {
                    chain(base, &convs, &mut f)
                }
            };
            if !ok {
                buf.push(NOT_APPLICABLE);
            }
            buf
        }));
        match res {
            Ok(buf) => out.extend(buf),
            Err(_) => out.push(OP_PANIC),
        }
    }
}

pr_mod!(m_u8, u8, yes, [1, 2, 3, 5, 7, 8]);
pr_mod!(m_u16, u16, yes, [1, 2, 8, 12, 15, 16]);
pr_mod!(m_u32, u32, no, [1, 2, 12, 24, 31, 32]);
// Probability as wide as usize: PRECISION == 64 exercises the `wrapping_pow2::<usize>` corner
pr_mod!(m_u64, u64, no, [1, 2, 32, 63, 64]);

pub fn run(r: &mut Reader, out: &mut Vec<Int>) {
    let pb = r.next();
    let p = r.us();
    let symty = r.next();
    let kind = r.next();
    let infer = r.next() != 0;
    let syms = r.list();
    let raw = r.list();
    let ops: Vec<Int> = r.v[r.i..].to_vec();
    let c = Case { p, symty, kind, infer, syms, raw, ops };
    match pb {
        8 => m_u8::dispatch(&c, out),
        16 => m_u16::dispatch(&c, out),
        32 => m_u32::dispatch(&c, out),
        64 => m_u64::dispatch(&c, out),
        _ => panic!("harness: models instance PB={} not in menu", pb),
    }
}
