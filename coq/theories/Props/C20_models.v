(* Props/C20_models.v -- GROUP C20_models_* of property C20 (no undefined behaviour) for the
   fixed-point model families.  Every into_nonzero_unchecked / get_unchecked /
   unreachable_unchecked / NonZero-getter site of uniform.rs, contiguous.rs, non_contiguous.rs,
   lookup_contiguous.rs, lookup_noncontiguous.rs is a CHECKED operation of the model that
   returns a distinct UB_* code (Model/MBase.v); plain + - * << return E_OVERFLOW.
   Statements only. *)
From CV Require Import Base.Bits Model.EModel Model.MBase Model.Uniform Model.Tables Model.Lookup Model.Convert.
From CV Require Import Proofs.Models_base Proofs.Models_validator Proofs.Models_ctor Proofs.Models_uniform
  Proofs.Models_props.
Open Scope N_scope.

(* every query on every representation reachable from an accepted model returns a value:
   no UB_* code, no overflow, no panic -- for quantiles below 2^P and symbols of the type *)
Theorem C20_models_queries_sound : forall c lookup_ok base t ks r,
  wf_mcfg c -> (lookup_ok = true -> wf_mcfg_lookup c) -> accepted c base t ->
  rep_convs c lookup_ok ks base = Ok (Some r) ->
  (forall rt, rep_table c r = Some rt -> exists v, rt = Ok v) /\
  (forall s rr, rep_lcp c r s = Some rr ->
     match r with RNcEnc _ => True | _ => sym_ok (UB c) SyUsize s = true end -> exists v, rr = Ok v) /\
  (forall q rr, rep_quant c r q = Some rr -> q < 2 ^ PR c -> exists v, rr = Ok v) /\
  (forall rn, rep_support_size r = Some rn -> exists v, rn = Ok v).
Proof. exact p_queries_sound. Qed.

(* conversions of accepted models never fail *)
Theorem C20_models_conversions_total : forall c lookup_ok base t ks,
  wf_mcfg c -> (lookup_ok = true -> wf_mcfg_lookup c) -> accepted c base t ->
  exists o, rep_convs c lookup_ok ks base = Ok o.
Proof. exact p_conversions_total. Qed.

(* constructors on ARBITRARY (also malformed) input fail only cleanly *)
Theorem C20_models_contiguous_ctor : forall c probs infer e,
  contig_from_probs c probs infer = Fail e -> e = E_ERR.
Proof. exact contig_from_probs_reject. Qed.

Theorem C20_models_noncontiguous_ctors : forall c ss probs infer e,
  wf_mcfg c -> probs_typed c probs ->
  (ncdec_from_probs c ss probs infer = Fail e -> e = E_ERR) /\
  (ncenc_from_probs c ss probs infer = Fail e -> e = E_ERR).
Proof.
  intros c ss probs infer e Hc HF. split.
  - exact (ncdec_from_probs_reject c Hc ss probs infer e HF).
  - exact (ncenc_from_probs_reject c ss probs infer e).
Qed.

Theorem C20_models_uniform_ctor : forall c range e,
  wf_mcfg_uniform c -> range < 2 ^ UB c -> uniform_new c range = Fail e -> e = E_PANIC.
Proof. intros c range e Hc Hr H. exact (proj1 (uniform_new_reject c Hc range e Hr H)). Qed.

(* the lookup constructors run their closure (which grows the lookup table) BEFORE the table is
   validated; the usize addition [lookup_table.len() + probability] cannot overflow as long as
   the table fits into the address space:  (entries + 1) * 2^Probability::BITS <= 2^usize::BITS
   (u8 / u16 probabilities, the only types with Into<usize>: < 2^48 entries on 64 bit) *)
Theorem C20_models_lookup_ctors : forall c ss probs infer e,
  wf_mcfg_lookup c -> probs_typed c probs -> table_fits c probs ->
  (lkc_from_probs c probs infer = Fail e -> e = E_ERR) /\
  (lkn_from_probs c ss probs infer = Fail e -> e = E_ERR).
Proof.
  intros c ss probs infer e Hl HF Hfit. split.
  - exact (p_lookup_ctor_clean c probs infer e HF Hfit).
  - exact (p_lookup_nc_ctor_clean c ss probs infer e Hl HF Hfit).
Qed.

(* without the size hypothesis: still no UB_* code *)
Theorem C20_models_lookup_ctors_any_size : forall c ss probs infer e,
  (lkc_from_probs c probs infer = Fail e -> e = E_ERR \/ e = E_OVERFLOW) /\
  (lkn_from_probs c ss probs infer = Fail e -> e = E_ERR \/ e = E_OVERFLOW \/ e = E_PANIC).
Proof.
  intros c ss probs infer e. split.
  - exact (p_lookup_ctor_no_ub c probs infer e).
  - exact (p_lookup_nc_ctor_no_ub c ss probs infer e).
Qed.

Check C20_models_queries_sound : forall c lookup_ok base t ks r,
  wf_mcfg c -> (lookup_ok = true -> wf_mcfg_lookup c) -> accepted c base t ->
  rep_convs c lookup_ok ks base = Ok (Some r) ->
  (forall rt, rep_table c r = Some rt -> exists v, rt = Ok v) /\
  (forall s rr, rep_lcp c r s = Some rr ->
     match r with RNcEnc _ => True | _ => sym_ok (UB c) SyUsize s = true end -> exists v, rr = Ok v) /\
  (forall q rr, rep_quant c r q = Some rr -> q < 2 ^ PR c -> exists v, rr = Ok v) /\
  (forall rn, rep_support_size r = Some rn -> exists v, rn = Ok v).

(* the checked sites do fire on states the constructors never produce (the checks are real) *)
Example ex_sites_fire :
  contig_quant {| PB := 8; UB := 64; PR := 8 |} [] 0 = Fail UB_contig_quant_slice /\
  contig_quant {| PB := 8; UB := 64; PR := 8 |} [0; 0; 0] 5 = Fail UB_contig_quant_prob /\
  contig_lcp {| PB := 8; UB := 64; PR := 8 |} [0; 7; 7] 1 = Fail UB_contig_lcp_prob /\
  lkc_quant {| PB := 8; UB := 64; PR := 8 |} {| lkc_table := [0; 0]; lkc_cdf := [0; 0] |} 2 = Fail UB_lkc_quant_table /\
  lkc_quant {| PB := 8; UB := 64; PR := 8 |} {| lkc_table := [1; 1]; lkc_cdf := [0; 0] |} 1 = Fail UB_lkc_quant_index /\
  uniform_lcp {| PB := 8; UB := 64; PR := 8 |} {| u_ppb := 0; u_last := 3 |} 1 = Fail UB_nonzero_get.
Proof. repeat split; vm_compute; reflexivity. Qed.

Print Assumptions C20_models_queries_sound.
Print Assumptions C20_models_conversions_total.
Print Assumptions C20_models_contiguous_ctor.
Print Assumptions C20_models_noncontiguous_ctors.
Print Assumptions C20_models_uniform_ctor.
Print Assumptions C20_models_lookup_ctors.
Print Assumptions C20_models_lookup_ctors_any_size.
