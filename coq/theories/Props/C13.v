(* Props/C13.v -- Chain coder: decoding then re-encoding restores the original data
   exactly.  This file contains ONLY statements; all proofs live in Proofs/Chain_*.v.

   Conventions (Model/Chain.v): a coder is {comp; rems; hc; hr} (two Vec backends as
   stacks, head = top; the two heads).  [chain_inv c P] is the documented head
   invariant.  [wf_ccfg c P] is exactly the set of compile-time constraints
   (0 < P <= ProbBits <= WordBits, WordBits + P <= StateBits).  A failing operation
   returns [Err e] / [None] / [inr rest] WITHOUT a new coder: the caller still holds the
   old one, which is how "returned before any mutation" is expressed. *)
From CV Require Import Base.Bits Model.EModel Model.Chain.
From CV Require Import Proofs.Table_lemmas Proofs.Chain_bits Proofs.Chain_rem Proofs.Chain_step
  Proofs.Chain_prec Proofs.Chain_history Proofs.Chain_io.
Open Scope N_scope.

(* ---- per step: both branches of the bit buffer and of the remainder flush / refill ---- *)
(* decode a symbol, encode it back: the coder (all four components) is restored *)
Theorem C13_chain_enc_dec : forall c m ch s ch',
  wf_model m -> wf_ccfg c (em_prec m) -> chain_inv c (em_prec m) ch ->
  chain_decode c m ch = Ok (s, ch') ->
  chain_inv c (em_prec m) ch' /\ chain_encode c m s ch' = Ok ch.
Proof. intros c m ch s ch' Hm Hwf. exact (chain_enc_dec c m Hm Hwf ch s ch'). Qed.

(* encode a symbol, decode: the symbol comes back and the coder is restored *)
Theorem C13_chain_dec_enc : forall c m ch s ch',
  wf_model m -> wf_ccfg c (em_prec m) -> chain_inv c (em_prec m) ch ->
  chain_encode c m s ch = Ok ch' ->
  chain_inv c (em_prec m) ch' /\ chain_decode c m ch' = Ok (s, ch).
Proof. intros c m ch s ch' Hm Hwf. exact (chain_dec_enc c m Hm Hwf ch s ch'). Qed.

(* the wraps written in the model are never taken (release and debug builds agree) *)
Theorem C13_decode_no_overflow : forall c m ch qw cm' h',
  wf_model m -> wf_ccfg c (em_prec m) -> chain_inv c (em_prec m) ch ->
  chain_take c (em_prec m) (comp ch) (hc ch) = Some (qw, cm', h') ->
  let q := trunc (cPB c) qw in
  let '(_, cum, p) := em_dec m q in
  qw < 2 ^ cPB c /\ cum <= q /\ hr ch * p < 2 ^ cSB c /\ hr ch * p + (q - cum) < 2 ^ cSB c.
Proof. intros c m ch qw cm' h' Hm Hwf. exact (chain_decode_no_overflow c m Hm Hwf ch qw cm' h'). Qed.

Theorem C13_encode_no_overflow : forall c m ch s cum p,
  wf_model m -> wf_ccfg c (em_prec m) -> chain_inv c (em_prec m) ch ->
  em_enc m s = Some (cum, p) ->
  p * 2 ^ (cSB c - cWB c - em_prec m) < 2 ^ cSB c
  /\ (hr ch < p * 2 ^ (cSB c - cWB c - em_prec m) -> hr ch * 2 ^ cWB c < 2 ^ cSB c)
  /\ (forall x, cum + x mod p < 2 ^ cPB c).
Proof. intros c m ch s cum p Hm Hwf. exact (chain_encode_no_overflow c m Hm Hwf ch s cum p). Qed.

(* ---- precision changes ---- *)
(* change_precision P -> P' re-establishes the invariant at P' and is undone by
   change_precision P' -> P, in both directions *)
Theorem C13_change_undo : forall c P P' ch ch',
  wf_ccfg c P -> wf_ccfg c P' -> chain_inv c P ch ->
  chain_change c P P' ch = Ok ch' ->
  chain_inv c P' ch' /\ chain_change c P' P ch' = Ok ch.
Proof. exact chain_change_undo. Qed.

(* decrease . increase = id *)
Theorem C13_prec_roundtrip : forall c P P' ch,
  wf_ccfg c P -> wf_ccfg c P' -> P <= P' -> chain_inv c P ch ->
  chain_inv c P' (chain_increase c P' ch)
  /\ chain_decrease c P (chain_increase c P' ch) = Ok ch.
Proof. exact chain_prec_roundtrip. Qed.

(* increase . decrease = id *)
Theorem C13_prec_roundtrip_down : forall c P P' ch ch',
  wf_ccfg c P -> wf_ccfg c P' -> P' <= P -> chain_inv c P ch ->
  chain_decrease c P' ch = Ok ch' ->
  chain_inv c P' ch' /\ chain_increase c P ch' = ch.
Proof. exact chain_prec_roundtrip'. Qed.

(* ---- whole schedules: decodes interleaved with precision changes, undone in reverse ---- *)
Theorem C13_schedule_undone : forall c ops P ch P1 ch1 u,
  wf_ccfg c P -> ops_ok c P ops -> chain_inv c P ch ->
  chain_forward c P ch ops [] = Ok (P1, ch1, u) ->
  wf_ccfg c P1 /\ chain_inv c P1 ch1 /\ chain_undo c P1 ch1 u = Ok (P, ch).
Proof. intros c ops P ch P1 ch1 u. exact (chain_schedule_undone c ops P ch P1 ch1 u). Qed.

(* the plain form: decode_symbols then encode_symbols_reverse with the same models *)
Theorem C13_bitsback : forall c P ms ch ss ch1,
  wf_ccfg c P -> Forall (fun m => wf_model m /\ em_prec m = P) ms -> chain_inv c P ch ->
  chain_decode_all c ms ch = (map Ok ss, ch1) ->
  chain_inv c P ch1 /\ length ss = length ms
  /\ chain_encode_all c (rev (combine ms ss)) ch1 = Ok ch.
Proof. intros c P ms ch ss ch1. exact (chain_bitsback c P ms ch ss ch1). Qed.

(* ---- start states ---- *)
(* from_binary of ANY words: invariant, and into_binary gives the words back *)
Theorem C13_start_binary : forall c P data ch,
  wf_ccfg c P -> Forall (fun w => w < 2 ^ cWB c) data ->
  chain_from_binary c P data = inl ch ->
  chain_inv c P ch /\ chain_into_binary c ch = Some ([], data).
Proof. exact chain_start_binary. Qed.

(* from_compressed of any words ending in a non-zero word *)
Theorem C13_start_compressed : forall c P data ch,
  wf_ccfg c P -> Forall (fun w => w < 2 ^ cWB c) data ->
  chain_from_compressed c P data = inl ch ->
  chain_inv c P ch /\ chain_into_compressed c ch = Some ([], data).
Proof. exact chain_start_compressed. Qed.

Theorem C13_start_remainders : forall c P data ch,
  wf_ccfg c P -> Forall (fun w => w < 2 ^ cWB c) data ->
  chain_from_remainders c P data = inl ch -> chain_inv c P ch.
Proof. intros c P data ch Hwf. exact (from_remainders_inv c P Hwf data ch). Qed.

(* ---- remainders round trip: for the suffix alone (x = []) and with anything -- in
        particular the unused prefix -- underneath ---- *)
Theorem C13_remainders_roundtrip : forall c P ch x,
  wf_ccfg c P -> chain_inv c P ch -> Forall (fun w => w < 2 ^ cWB c) x ->
  chain_from_remainders c P (x ++ snd (chain_into_remainders c ch))
  = inl {| comp := []; rems := rems ch ++ rev x; hc := hc ch; hr := hr ch |}.
Proof. intros c P ch x Hwf. exact (remainders_roundtrip c P Hwf ch x). Qed.

(* ---- headline: arbitrary data, any schedule, the three documented re-import routes ---- *)
Theorem C13_restore_binary : forall c P data ops ch0 P1 ch1 u,
  wf_ccfg c P -> Forall (fun w => w < 2 ^ cWB c) data -> ops_ok c P ops ->
  chain_from_binary c P data = inl ch0 ->
  chain_forward c P ch0 ops [] = Ok (P1, ch1, u) ->
  let pre := fst (chain_into_remainders c ch1) in
  let suf := snd (chain_into_remainders c ch1) in
  (* the decoding coder itself *)
  (exists ch2, chain_undo c P1 ch1 u = Ok (P, ch2) /\ chain_into_binary c ch2 = Some ([], data))
  (* from_remainders (prefix ++ suffix) *)
  /\ (exists ch1' ch2 p s,
        chain_from_remainders c P1 (pre ++ suf) = inl ch1' /\ chain_undo c P1 ch1' u = Ok (P, ch2)
        /\ chain_into_binary c ch2 = Some (p, s) /\ p ++ s = data)
  (* from_remainders suffix, prefix kept apart *)
  /\ (exists ch1' ch2 p s,
        chain_from_remainders c P1 suf = inl ch1' /\ chain_undo c P1 ch1' u = Ok (P, ch2)
        /\ chain_into_binary c ch2 = Some (p, s) /\ pre ++ p ++ s = data).
Proof. exact chain_restore_binary. Qed.

Theorem C13_restore_compressed : forall c P data ops ch0 P1 ch1 u,
  wf_ccfg c P -> Forall (fun w => w < 2 ^ cWB c) data -> ops_ok c P ops ->
  chain_from_compressed c P data = inl ch0 ->
  chain_forward c P ch0 ops [] = Ok (P1, ch1, u) ->
  let pre := fst (chain_into_remainders c ch1) in
  let suf := snd (chain_into_remainders c ch1) in
  (exists ch2, chain_undo c P1 ch1 u = Ok (P, ch2) /\ chain_into_compressed c ch2 = Some ([], data))
  /\ (exists ch1' ch2 p s,
        chain_from_remainders c P1 (pre ++ suf) = inl ch1' /\ chain_undo c P1 ch1' u = Ok (P, ch2)
        /\ chain_into_compressed c ch2 = Some (p, s) /\ p ++ s = data)
  /\ (exists ch1' ch2 p s,
        chain_from_remainders c P1 suf = inl ch1' /\ chain_undo c P1 ch1' u = Ok (P, ch2)
        /\ chain_into_compressed c ch2 = Some (p, s) /\ pre ++ p ++ s = data).
Proof. exact chain_restore_compressed. Qed.

(* ---- errors: only the documented ones, decided before anything is written ---- *)
Theorem C13_decode_err : forall c m ch e,
  chain_decode c m ch = Err e <->
  e = OutOfCompressedData /\ chain_take c (em_prec m) (comp ch) (hc ch) = None.
Proof. exact chain_decode_err. Qed.

(* ... which happens exactly when the backend is empty and the bit buffer is short *)
Theorem C13_out_of_data : forall c P cm h,
  chain_take c P cm h = None <-> cm = [] /\ (P = cWB c \/ h < shl (cWB c) 1 P).
Proof. exact chain_take_none. Qed.

Theorem C13_encode_err : forall c m ch s e,
  chain_encode c m s ch = Err e <->
  (e = ImpossibleSymbol /\ em_enc m s = None)
  \/ (e = OutOfRemainders /\ exists cum p, em_enc m s = Some (cum, p)
        /\ chain_release c (em_prec m) p (rems ch) (hr ch) = None).
Proof. exact chain_encode_err. Qed.

Theorem C13_out_of_remainders : forall c P p r rh,
  chain_release c P p r rh = None <-> r = [] /\ rh < shl (cSB c) p (cSB c - cWB c - P).
Proof. exact chain_release_none. Qed.

Theorem C13_change_err : forall c P P' ch e,
  chain_change c P P' ch = Err e <->
  e = OutOfRemainders /\ P' <= P /\ rems ch = [] /\ hr ch < shl (cSB c) 1 (cSB c - P' - cWB c).
Proof. exact chain_change_err. Qed.

Theorem C13_schedule_err : forall c ops P ch acc e,
  chain_forward c P ch ops acc = Err e -> e = OutOfRemainders.
Proof. exact chain_forward_err. Qed.

(* a constructor that fails hands back what is left of the data: nothing (the data was
   too short), or -- from_compressed -- everything but the zero word on top *)
Theorem C13_from_binary_err : forall c P data rest,
  chain_from_binary c P data = inr rest -> rest = [].
Proof. exact from_binary_err. Qed.

Theorem C13_from_compressed_err : forall c P data rest,
  chain_from_compressed c P data = inr rest -> rest = [] \/ data = rest ++ [0].
Proof. exact from_compressed_err. Qed.

(* the hypothesis [wf_model] is met by every explicit table that tiles [0,2^P) *)
Theorem C13_tables_are_models : forall P t, wf_table P t -> wf_model (table_model P t).
Proof. exact table_model_wf. Qed.

(* ---- pins ---- *)
Check C13_chain_enc_dec : forall c m ch s ch',
  wf_model m -> wf_ccfg c (em_prec m) -> chain_inv c (em_prec m) ch ->
  chain_decode c m ch = Ok (s, ch') ->
  chain_inv c (em_prec m) ch' /\ chain_encode c m s ch' = Ok ch.
Check C13_change_undo : forall c P P' ch ch',
  wf_ccfg c P -> wf_ccfg c P' -> chain_inv c P ch ->
  chain_change c P P' ch = Ok ch' ->
  chain_inv c P' ch' /\ chain_change c P' P ch' = Ok ch.
Check C13_schedule_undone : forall c ops P ch P1 ch1 u,
  wf_ccfg c P -> ops_ok c P ops -> chain_inv c P ch ->
  chain_forward c P ch ops [] = Ok (P1, ch1, u) ->
  wf_ccfg c P1 /\ chain_inv c P1 ch1 /\ chain_undo c P1 ch1 u = Ok (P, ch).
Check C13_remainders_roundtrip : forall c P ch x,
  wf_ccfg c P -> chain_inv c P ch -> Forall (fun w => w < 2 ^ cWB c) x ->
  chain_from_remainders c P (x ++ snd (chain_into_remainders c ch))
  = inl {| comp := []; rems := rems ch ++ rev x; hc := hc ch; hr := hr ch |}.
Check C13_restore_binary : forall c P data ops ch0 P1 ch1 u,
  wf_ccfg c P -> Forall (fun w => w < 2 ^ cWB c) data -> ops_ok c P ops ->
  chain_from_binary c P data = inl ch0 ->
  chain_forward c P ch0 ops [] = Ok (P1, ch1, u) ->
  let pre := fst (chain_into_remainders c ch1) in
  let suf := snd (chain_into_remainders c ch1) in
  (exists ch2, chain_undo c P1 ch1 u = Ok (P, ch2) /\ chain_into_binary c ch2 = Some ([], data))
  /\ (exists ch1' ch2 p s,
        chain_from_remainders c P1 (pre ++ suf) = inl ch1' /\ chain_undo c P1 ch1' u = Ok (P, ch2)
        /\ chain_into_binary c ch2 = Some (p, s) /\ p ++ s = data)
  /\ (exists ch1' ch2 p s,
        chain_from_remainders c P1 suf = inl ch1' /\ chain_undo c P1 ch1' u = Ok (P, ch2)
        /\ chain_into_binary c ch2 = Some (p, s) /\ pre ++ p ++ s = data).
Check C13_restore_compressed : forall c P data ops ch0 P1 ch1 u,
  wf_ccfg c P -> Forall (fun w => w < 2 ^ cWB c) data -> ops_ok c P ops ->
  chain_from_compressed c P data = inl ch0 ->
  chain_forward c P ch0 ops [] = Ok (P1, ch1, u) ->
  let pre := fst (chain_into_remainders c ch1) in
  let suf := snd (chain_into_remainders c ch1) in
  (exists ch2, chain_undo c P1 ch1 u = Ok (P, ch2) /\ chain_into_compressed c ch2 = Some ([], data))
  /\ (exists ch1' ch2 p s,
        chain_from_remainders c P1 (pre ++ suf) = inl ch1' /\ chain_undo c P1 ch1' u = Ok (P, ch2)
        /\ chain_into_compressed c ch2 = Some (p, s) /\ p ++ s = data)
  /\ (exists ch1' ch2 p s,
        chain_from_remainders c P1 suf = inl ch1' /\ chain_undo c P1 ch1' u = Ok (P, ch2)
        /\ chain_into_compressed c ch2 = Some (p, s) /\ pre ++ p ++ s = data).
Check C13_encode_err : forall c m ch s e,
  chain_encode c m s ch = Err e <->
  (e = ImpossibleSymbol /\ em_enc m s = None)
  \/ (e = OutOfRemainders /\ exists cum p, em_enc m s = Some (cum, p)
        /\ chain_release c (em_prec m) p (rems ch) (hr ch) = None).

(* ---- non-vacuity: a concrete instance meeting every hypothesis, PRECISION not dividing
        the word size, with a precision change up and down in the schedule ---- *)
Definition ex_c : ccfg := {| cWB := 8; cSB := 32; cPB := 8 |}.
Definition ex_t5 : table := [(0%Z, 0, 9); (1%Z, 9, 14); (7%Z, 23, 9)].
Definition ex_t8 : table := [((-3)%Z, 0, 100); (4%Z, 100, 155); (5%Z, 255, 1)].
Definition ex_m5 : emodel := table_model 5 ex_t5.
Definition ex_m8 : emodel := table_model 8 ex_t8.
Definition ex_data : list N :=
  [0x12; 0x34; 0x56; 0x78; 0x9a; 0xbc; 0xde; 0xf0; 0x0f; 0xff; 0x00; 0x81].
Definition ex_ops : list cop :=
  [CDec ex_m5; CDec ex_m5; CDec ex_m5; CPrec 8; CDec ex_m8; CDec ex_m8; CPrec 5;
   CDec ex_m5; CDec ex_m5; CDec ex_m5; CDec ex_m5].

Example ex_cfg_wf : wf_ccfg ex_c 5 /\ wf_ccfg ex_c 8.
Proof. unfold wf_ccfg, ex_c; cbn; lia. Qed.
Example ex_models_wf : wf_model ex_m5 /\ wf_model ex_m8.
Proof. split; apply table_model_wf, wf_tableb_spec; vm_compute; reflexivity. Qed.
Example ex_data_ok : Forall (fun w => w < 2 ^ cWB ex_c) ex_data.
Proof. repeat constructor. Qed.
Example ex_ops_ok : ops_ok ex_c 5 ex_ops.
Proof.
  destruct ex_models_wf as [H5 H8]. destruct ex_cfg_wf as [W5 W8].
  cbn [ops_ok ex_ops].
  repeat match goal with
         | |- wf_model _ /\ _ => split; [assumption|]
         | |- em_prec _ = _ /\ _ => split; [reflexivity|]
         | |- wf_ccfg _ _ /\ _ => split; [assumption|]
         end.
  exact I.
Qed.
Example ex_run : exists ch0 ch1 u,
  chain_from_binary ex_c 5 ex_data = inl ch0
  /\ chain_forward ex_c 5 ch0 ex_ops [] = Ok (5, ch1, u)
  /\ length u = 11%nat /\ length (rems ch1) = 5%nat /\ hc ch1 <> 1
  /\ chain_inv ex_c 5 ch0.
Proof.
  eexists _, _, _. split; [vm_compute; reflexivity|]. split; [vm_compute; reflexivity|].
  split; [reflexivity|]. split; [reflexivity|]. split; [vm_compute; discriminate|].
  unfold chain_inv; cbn. repeat split; try (vm_compute; reflexivity || discriminate);
    repeat constructor.
Qed.
(* both error kinds of encode_symbol and the decode error do occur *)
Example ex_errors :
  chain_encode ex_c ex_m5 3 {| comp := []; rems := []; hc := 1; hr := 2 ^ 19 |} = Err ImpossibleSymbol
  /\ chain_encode ex_c ex_m5 1 {| comp := []; rems := []; hc := 1; hr := 2 ^ 19 |} = Err OutOfRemainders
  /\ chain_decode ex_c ex_m5 {| comp := []; rems := []; hc := 5; hr := 2 ^ 19 |} = Err OutOfCompressedData
  /\ chain_change ex_c 8 5 {| comp := []; rems := []; hc := 1; hr := 2 ^ 16 |} = Err OutOfRemainders.
Proof. repeat split; vm_compute; reflexivity. Qed.

Print Assumptions C13_chain_enc_dec.
Print Assumptions C13_chain_dec_enc.
Print Assumptions C13_decode_no_overflow.
Print Assumptions C13_encode_no_overflow.
Print Assumptions C13_change_undo.
Print Assumptions C13_prec_roundtrip.
Print Assumptions C13_prec_roundtrip_down.
Print Assumptions C13_schedule_undone.
Print Assumptions C13_bitsback.
Print Assumptions C13_start_binary.
Print Assumptions C13_start_compressed.
Print Assumptions C13_start_remainders.
Print Assumptions C13_remainders_roundtrip.
Print Assumptions C13_restore_binary.
Print Assumptions C13_restore_compressed.
Print Assumptions C13_decode_err.
Print Assumptions C13_out_of_data.
Print Assumptions C13_encode_err.
Print Assumptions C13_out_of_remainders.
Print Assumptions C13_change_err.
Print Assumptions C13_schedule_err.
Print Assumptions C13_from_binary_err.
Print Assumptions C13_from_compressed_err.
Print Assumptions C13_tables_are_models.
