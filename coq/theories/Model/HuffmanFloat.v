(* Model/HuffmanFloat.v -- the float instance of Model/Huffman.v
   (from_float_probabilities::<f32 / f64>).  Definitions only.

   Weights are Flocq's IEEE-754 binary floats.  [NonNanFloatCore::new] rejects NaN
   (wnan = is_nan); addition is IEEE addition, round to nearest even; the order
   is the one BinaryHeap sees through the derived PartialOrd: IEEE comparison of
   the inner floats (-0 = +0).  A NaN never reaches a comparison in the model
   (E_NaN on input, E_HeapNaN for a NaN sum), so the value of [fcmp] on NaN is
   unobservable; it is chosen so that [fcmp] is a total preorder on ALL floats
   (NaN = NaN, NaN above everything else), which lets the order theorems apply
   without side conditions. *)
From CV Require Export Model.Huffman.
From Flocq Require Import IEEE754.BinarySingleNaN IEEE754.Binary IEEE754.Bits.

Definition fcmp (prec emax : Z) (x y : binary_float prec emax) : comparison :=
  match Bcompare prec emax x y with
  | Some c => c
  | None => if is_nan prec emax x then (if is_nan prec emax y then Eq else Gt) else Lt
  end.

Definition f32add (x y : binary32) : option binary32 := Some (b32_plus mode_NE x y).
Definition f64add (x y : binary64) : option binary64 := Some (b64_plus mode_NE x y).

Definition enc_build_f32 (USZ : N) := enc_build binary32 (fcmp 24 128) f32add (is_nan 24 128) USZ.
Definition dec_build_f32 (USZ : N) := dec_build binary32 (fcmp 24 128) f32add (is_nan 24 128) USZ.
Definition enc_build_f64 (USZ : N) := enc_build binary64 (fcmp 53 1024) f64add (is_nan 53 1024) USZ.
Definition dec_build_f64 (USZ : N) := dec_build binary64 (fcmp 53 1024) f64add (is_nan 53 1024) USZ.
