(* Proofs/FloatQ_cdf.v -- fast_quantized_cdf produces a valid cdf (C03, C19, C20 float part). *)
From Coq Require Import ZArith NArith List Bool Reals Lia Lra.
From Flocq Require Import Core IEEE754.BinarySingleNaN.
From CV Require Import Base.Bits Model.EModel Model.FloatQ Proofs.Table_lemmas Proofs.FloatQ_float.
Set Default Timeout 60.
Open Scope N_scope.

(* ------------------------------------------------------------------ integer helpers *)

Lemma fq_wsub_val B a b : b <= a -> a < 2 ^ B -> fq_wsub B a b = a - b.
Proof.
  intros Hba Ha. unfold fq_wsub, trunc.
  replace (a + 2 ^ B - b) with ((a - b) + 1 * 2 ^ B) by lia.
  rewrite N.mod_add by apply pow2_nz. apply N.mod_small. lia.
Qed.

Lemma fq_wsub_wrap B b : 0 < b -> b <= 2 ^ B -> fq_wsub B 0 b = 2 ^ B - b.
Proof.
  intros H0 Hb. unfold fq_wsub, trunc. rewrite N.add_0_l. apply N.mod_small. lia.
Qed.

Lemma fq_wpow2_lt B e : e < B -> fq_wpow2 B e = 2 ^ e.
Proof. intros. unfold fq_wpow2. apply trunc_small. apply pow2_lt. assumption. Qed.

Lemma fq_wpow2_eq B : fq_wpow2 B B = 0.
Proof. unfold fq_wpow2, trunc. apply N.mod_same, pow2_nz. Qed.

(* 2^P - x, computed in a PB-bit type with wrapping, for 0 < x <= 2^P (or P < PB) *)
Lemma fq_total_minus PB P x :
  0 < P -> P <= PB -> x <= 2 ^ P -> (0 < x \/ P < PB) -> x < 2 ^ PB ->
  fq_wsub PB (fq_wpow2 PB P) x = 2 ^ P - x.
Proof.
  intros HP HPB Hx H0 HxB.
  destruct (N.eq_dec P PB) as [->|Hne].
  - rewrite fq_wpow2_eq. apply fq_wsub_wrap; [|lia]. destruct H0; lia.
  - assert (P < PB) by lia. rewrite fq_wpow2_lt by assumption.
    apply fq_wsub_val; [assumption|apply pow2_lt; assumption].
Qed.

Lemma fq_len_bad_spec P n :
  0 < P -> P <= fq_USZ -> n < 2 ^ fq_USZ ->
  (fq_len_bad P n = false <-> 2 <= n /\ n + 1 < 2 ^ P).
Proof.
  intros HP HPU Hn. unfold fq_len_bad.
  assert (Hv : fq_wsub fq_USZ (fq_wpow2 fq_USZ P) 1 = 2 ^ P - 1).
  { pose proof (pow2_le P fq_USZ HPU).
    assert (2 ^ 1 <= 2 ^ P) by (apply pow2_le; lia).
    assert (2 ^ 1 <= 2 ^ fq_USZ) by (apply pow2_le; unfold fq_USZ; lia).
    change (2 ^ 1) with 2 in *.
    apply fq_total_minus; lia. }
  rewrite Hv, orb_false_iff, N.ltb_ge, N.leb_gt.
  pose proof (pow2_ge1 P). lia.
Qed.

Lemma fq_free_weight_val PB P n :
  0 < P -> P <= PB -> 2 <= n -> n + 1 < 2 ^ P -> fq_free_weight PB P n = 2 ^ P - n.
Proof.
  intros HP HPB H2 Hn. unfold fq_free_weight.
  pose proof (pow2_le P PB HPB).
  rewrite (trunc_small PB n) by lia.
  apply fq_total_minus; try assumption; lia.
Qed.

Lemma fq_incr_lt l cs T : fq_incr l cs T -> l < T.
Proof.
  revert l. induction cs as [|x r IH]; intros l H; cbn in H; [exact H|].
  destruct H as [Hl Hr]. apply IH in Hr. lia.
Qed.

Lemma fq_seqZ_length s n : length (fq_seqZ s n) = n.
Proof. revert s. induction n; intros; cbn; auto. Qed.

Lemma fq_seqZ_lower s n x : In x (fq_seqZ s n) -> (s <= x)%Z.
Proof.
  revert s. induction n as [|n IH]; intros s H; cbn in H; [contradiction|].
  destruct H as [<-|H]; [lia|]. apply IH in H. lia.
Qed.

Lemma fq_seqZ_nodup s n : NoDup (fq_seqZ s n).
Proof.
  revert s. induction n as [|n IH]; intros s; cbn; constructor; [|apply IH].
  intros H. apply fq_seqZ_lower in H. lia.
Qed.

(* ------------------------------------------------------------------ table from a good cdf *)

(* the table that symbol_table produces from a cdf [l :: cs] extended by the total T *)
Fixpoint tbl_of (sym : Z) (l : N) (cs : list N) (T : N) : table :=
  match cs with
  | [] => [(sym, l, T - l)]
  | x :: r => (sym, l, x - l) :: tbl_of (sym + 1)%Z x r T
  end.

Lemma tbl_of_tiles T : forall cs sym l, fq_incr l cs T ->
  tiles l T (tbl_of sym l cs T) /\ syms (tbl_of sym l cs T) = fq_seqZ sym (S (length cs)).
Proof.
  induction cs as [|x r IH]; intros sym l Hinc; cbn in Hinc.
  - cbn. repeat split; lia.
  - destruct Hinc as [Hlx Hr]. destruct (IH (sym + 1)%Z x Hr) as [Ht Hs].
    cbn [tbl_of tiles syms map fst length fq_seqZ]. split.
    + repeat split; try lia. replace (l + (x - l)) with x by lia. exact Ht.
    + f_equal. exact Hs.
Qed.

Lemma fq_table_from_incr PB P : 0 < P -> P <= PB ->
  forall cs sym l, fq_incr l cs (2 ^ P) -> (0 < l \/ cs <> []) ->
  fq_table_from PB sym l (cs ++ [fq_wpow2 PB P]) = Some (tbl_of sym l cs (2 ^ P)).
Proof.
  intros HP HPB. pose proof (pow2_le P PB HPB) as HPP.
  induction cs as [|x r IH]; intros sym l Hinc Hl.
  - cbn in Hinc. cbn [app fq_table_from tbl_of].
    assert (Hp : fq_wsub PB (fq_wpow2 PB P) l = 2 ^ P - l).
    { apply fq_total_minus; try assumption; try lia. destruct Hl as [Hl|Hl]; [left; exact Hl|contradiction]. }
    rewrite Hp. destruct (N.eqb_spec (2 ^ P - l) 0) as [He|_]; [lia|]. reflexivity.
  - cbn in Hinc. destruct Hinc as [Hlx Hr]. pose proof (fq_incr_lt _ _ _ Hr) as HxT.
    cbn [app fq_table_from tbl_of].
    assert (Hp : fq_wsub PB x l = x - l) by (apply fq_wsub_val; lia).
    rewrite Hp. destruct (N.eqb_spec (x - l) 0) as [He|_]; [lia|].
    rewrite (IH (sym + 1)%Z x Hr) by (left; lia). reflexivity.
Qed.

Section Cdf.
Variables prec emax : Z.
Context (Hprec : Prec_gt_0 prec) (Hmax : Prec_lt_emax prec emax).
Variables PB P : N.
Notation float := (binary_float prec emax).
Notation fadd := (fq_add prec emax Hprec Hmax).
Notation fmul := (fq_mul prec emax Hprec Hmax).
Notation scaled := (fq_scaled prec emax Hprec Hmax PB).
Notation NN := (NN prec emax).
Notation fle := (fle prec emax).

Definition nonneg_all (ws : list float) : Prop :=
  Forall (fun w => is_finite w = true /\ (0 <= B2R w)%R) ws.

Lemma fq_all_finite_nonneg_spec ws :
  fq_all_finite_nonneg prec emax ws = true -> nonneg_all ws.
Proof.
  unfold fq_all_finite_nonneg, nonneg_all. rewrite forallb_forall, Forall_forall.
  intros H w Hin. specialize (H w Hin). apply andb_prop in H. destruct H as [Hge Hf].
  split; [exact Hf|]. apply (fq_ge_zero_nonneg prec emax); assumption.
Qed.

Lemma scaled_le_fw c s fw : scaled c s fw <= fw.
Proof. unfold fq_scaled. apply N.le_min_r. Qed.

Lemma scaled_mono c c' s fw :
  NN c -> NN c' -> fle c c' -> NN s -> scaled c s fw <= scaled c' s fw.
Proof.
  intros. unfold fq_scaled. apply N.min_le_compat_r. apply mulcast_mono; assumption.
Qed.

Lemma scaled_zero u s fw : scaled (B754_zero u) s fw = 0.
Proof. unfold fq_scaled. rewrite mulcast_zero. apply N.min_l, N.le_0_l. Qed.

Lemma scaled_zeq x y s fw : zeq prec emax x y -> scaled x s fw = scaled y s fw.
Proof. intros H. unfold fq_scaled. rewrite (mulcast_zeq prec emax Hprec Hmax PB x y s H). reflexivity. Qed.

(* the iterator without the overflow checks *)
Fixpoint cdf_ideal (s : float) (fw : N) (ws : list float) (c : float) (k : N) : list N :=
  match ws with
  | [] => []
  | w :: r => (scaled c s fw + k) :: cdf_ideal s fw r (fadd c w) (k + 1)
  end.

Lemma cdf_ideal_length s fw ws : forall c k, length (cdf_ideal s fw ws c k) = length ws.
Proof. induction ws as [|w r IH]; intros; cbn; auto. Qed.

Lemma loop_ideal s fw : 0 < fw -> forall ws c k,
  k + N.of_nat (length ws) + fw <= 2 ^ PB ->
  fq_cdf_loop prec emax Hprec Hmax PB s fw ws c k = Some (cdf_ideal s fw ws c k).
Proof.
  intros Hfw. induction ws as [|w r IH]; intros c k Hb; [reflexivity|].
  cbn [fq_cdf_loop cdf_ideal]. cbn [length] in Hb. rewrite Nat2N.inj_succ in Hb.
  pose proof (scaled_le_fw c s fw) as Hs.
  unfold fq_cadd. destruct (N.ltb_spec (scaled c s fw + k) (2 ^ PB)) as [_|Hge]; [|lia].
  rewrite (trunc_small PB (k + 1)) by lia.
  rewrite IH by lia. reflexivity.
Qed.

Lemma ideal_incr s fw : NN s -> forall ws c k, nonneg_all ws -> NN c -> ws <> [] ->
  exists cs, cdf_ideal s fw ws c k = (scaled c s fw + k) :: cs
             /\ fq_incr (scaled c s fw + k) cs (fw + k + N.of_nat (length ws)).
Proof.
  intros Hs. induction ws as [|w r IH]; intros c k Hnn Hc Hne; [contradiction|].
  inversion Hnn as [|? ? [Hwf Hw0] Hr]; subst.
  destruct (add_nn prec emax Hprec Hmax c w Hc Hwf Hw0) as [Hc' Hle].
  destruct r as [|w' r'].
  - exists []. cbn. split; [reflexivity|]. pose proof (scaled_le_fw c s fw). lia.
  - destruct (IH (fadd c w) (k + 1) Hr Hc') as (cs & Hcs & Hinc); [discriminate|].
    exists ((scaled (fadd c w) s fw + (k + 1)) :: cs). split.
    + cbn [cdf_ideal]. cbn [cdf_ideal] in Hcs. rewrite Hcs. reflexivity.
    + cbn [fq_incr]. split.
      * pose proof (scaled_mono c (fadd c w) s fw Hc Hc' Hle Hs). lia.
      * cbn [length] in *. rewrite !Nat2N.inj_succ in *.
        replace (fw + k + N.succ (N.succ (N.of_nat (length r'))))
          with (fw + (k + 1) + N.succ (N.of_nat (length r'))) by lia.
        exact Hinc.
Qed.

(* ------------------------------------------------------------------ the constructor *)

Hypothesis HP : 0 < P.
Hypothesis HPB : P <= PB.
Hypothesis HU : PB <= fq_USZ.

Definition normalization_of (ws : list float) (norm : option float) : float :=
  match norm with Some x => x | None => fq_sum prec emax Hprec Hmax ws end.

Lemma prepare_ok ws norm :
  2 <= N.of_nat (length ws) -> N.of_nat (length ws) + 1 < 2 ^ P ->
  fq_all_finite_nonneg prec emax ws = true ->
  fq_norm_ok prec emax (normalization_of ws norm) = true ->
  exists scale, fq_prepare prec emax Hprec Hmax PB P ws norm = FqOk scale /\ NN scale.
Proof.
  intros H2 Hn Hall Hnorm. unfold fq_prepare.
  assert (Hlen : fq_len_bad P (N.of_nat (length ws)) = false).
  { apply fq_len_bad_spec; try lia.
    pose proof (pow2_le P fq_USZ ltac:(lia)). lia. }
  rewrite Hlen, Hall. cbn [negb]. fold (normalization_of ws norm). rewrite Hnorm. cbn [negb].
  eexists. split; [reflexivity|].
  destruct (norm_ok_pos prec emax _ Hnorm) as [Hf Hpos].
  apply (div_nn prec emax Hprec Hmax); [apply of_N_nn|assumption|assumption].
Qed.

Lemma eager_explicit ws norm :
  2 <= N.of_nat (length ws) -> N.of_nat (length ws) + 1 < 2 ^ P ->
  fq_all_finite_nonneg prec emax ws = true ->
  fq_norm_ok prec emax (normalization_of ws norm) = true ->
  exists scale cs,
    fq_prepare prec emax Hprec Hmax PB P ws norm = FqOk scale /\ NN scale
    /\ fq_free_weight PB P (N.of_nat (length ws)) = 2 ^ P - N.of_nat (length ws)
    /\ cdf_ideal scale (2 ^ P - N.of_nat (length ws)) ws (fq_zero prec emax) 0 = 0 :: cs
    /\ fq_incr 0 cs (2 ^ P) /\ length (0 :: cs) = length ws
    /\ fq_fast_cdf prec emax Hprec Hmax PB P ws norm = FqOk (0 :: cs)
    /\ fq_eager_table prec emax Hprec Hmax PB P ws norm = FqOk (tbl_of 0%Z 0 cs (2 ^ P)).
Proof.
  intros H2 Hn Hall Hnorm.
  destruct (prepare_ok ws norm H2 Hn Hall Hnorm) as (scale & Hprep & Hsc).
  set (n := N.of_nat (length ws)) in *.
  pose proof (pow2_le P PB HPB) as HPP.
  assert (Hfw : fq_free_weight PB P n = 2 ^ P - n) by (apply fq_free_weight_val; assumption).
  assert (Hnn : nonneg_all ws) by (apply fq_all_finite_nonneg_spec; exact Hall).
  assert (Hne : ws <> []) by (intros ->; cbn in H2; lia).
  pose proof (loop_ideal scale (2 ^ P - n) ltac:(lia) ws (fq_zero prec emax) 0 ltac:(fold n; lia)) as Hloop.
  destruct (ideal_incr scale (2 ^ P - n) Hsc ws (fq_zero prec emax) 0 Hnn (NN_zero prec emax false) Hne)
    as (cs & Hcs & Hinc).
  unfold fq_zero in Hcs, Hinc. rewrite scaled_zero in Hcs, Hinc.
  fold n in Hinc. replace (2 ^ P - n + 0 + n) with (2 ^ P) in Hinc by lia.
  change (0 + 0) with 0 in Hcs, Hinc.
  assert (Hcdf : fq_fast_cdf prec emax Hprec Hmax PB P ws norm = FqOk (0 :: cs)).
  { unfold fq_fast_cdf. rewrite Hprep. fold n. rewrite Hfw, Hloop.
    unfold fq_zero. rewrite Hcs. reflexivity. }
  assert (Hlen : length (0 :: cs) = length ws).
  { rewrite <- Hcs. apply cdf_ideal_length. }
  assert (Hcsne : cs <> []).
  { intros ->. cbn in Hlen. unfold n in H2. rewrite <- Hlen in H2. cbn in H2. lia. }
  pose proof (fq_table_from_incr PB P HP HPB cs 0%Z 0 Hinc (or_intror Hcsne)) as Ht.
  exists scale, cs. repeat split; try assumption.
  unfold fq_eager_table. rewrite Hcdf. unfold fq_extend, fq_table_of_ext.
  cbn [app]. rewrite Ht. reflexivity.
Qed.

Theorem fast_cdf_valid ws norm :
  2 <= N.of_nat (length ws) -> N.of_nat (length ws) + 1 < 2 ^ P ->
  fq_all_finite_nonneg prec emax ws = true ->
  fq_norm_ok prec emax (normalization_of ws norm) = true ->
  exists cdf t,
    fq_fast_cdf prec emax Hprec Hmax PB P ws norm = FqOk cdf
    /\ length cdf = length ws /\ fq_cdf_ok P cdf
    /\ fq_eager_table prec emax Hprec Hmax PB P ws norm = FqOk t
    /\ wf_table P t /\ syms t = fq_seqZ 0 (length ws)
    /\ Forall (fun e => snd e <> 0) t.
Proof.
  intros H2 Hn Hall Hnorm.
  destruct (eager_explicit ws norm H2 Hn Hall Hnorm)
    as (scale & cs & _ & _ & _ & _ & Hinc & Hlen & Hcdf & Htab).
  destruct (tbl_of_tiles (2 ^ P) cs 0%Z 0 Hinc) as [Htl Hsy].
  set (t := tbl_of 0%Z 0 cs (2 ^ P)) in *.
  exists (0 :: cs), t. split; [exact Hcdf|]. split; [exact Hlen|]. split; [exists cs; auto|].
  assert (Hsy' : syms t = fq_seqZ 0 (length ws)).
  { rewrite Hsy. f_equal. cbn in Hlen. exact Hlen. }
  split; [exact Htab|].
  split.
  { split; [exact HP|]. split; [exact Htl|]. split.
    - rewrite Hsy'. apply fq_seqZ_nodup.
    - assert (length t = length ws).
      { rewrite <- (map_length (fun e => fst (fst e)) t). fold (syms t). rewrite Hsy'. apply fq_seqZ_length. }
      lia. }
  split; [exact Hsy'|].
  apply Forall_forall. intros [[s c] p] Hin. cbn.
  destruct (tiles_in _ _ _ _ _ _ Htl Hin) as (_ & Hp & _). lia.
Qed.

End Cdf.
