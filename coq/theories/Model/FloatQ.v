(* Model/FloatQ.v -- float-to-fixed-point quantisation of categorical models.
   Definitions only.  Written line by line from
     src/stream/model/categorical.rs            fast_quantized_cdf, all_finite_and_nonnegative,
                                                scaled_cumulative, perfectly_quantized_probabilities
                                                (input validation only), iter_extended_cdf
     src/stream/model/categorical/contiguous.rs from_floating_point_probabilities_fast,
                                                from_fixed_point_cdf, symbol_table
     src/stream/model/categorical/lazy_contiguous.rs   constructor, left_cumulative_and_probability,
                                                quantile_function
   Floats are Flocq's IEEE-754 binary formats (one NaN), parametric in (prec, emax):
   binary32 = (24, 128), binary64 = (53, 1024); every operation rounds to nearest even.
   Integers: [PB] = Probability::BITS, [P] = PRECISION, usize has [fq_USZ] = 64 bits.
   Plain Rust [+] on integers is a CHECKED operation here ([None] = overflow: panic in debug
   builds, wrap in release builds); [wrapping_*] and [as] casts between integers are [trunc];
   float -> integer [as] saturates (NaN -> 0); integer -> float [as] rounds to nearest even. *)
From Coq Require Import ZArith NArith List Bool.
From Flocq Require Import Core IEEE754.BinarySingleNaN.
From Flocq Require IEEE754.Binary IEEE754.Bits.
From CV Require Import Base.Bits Model.EModel.
Open Scope N_scope.

Definition fq_USZ : N := 64.

(* outcome of an operation that may return Err(()) / None, or panic *)
Inductive fq_res (A : Type) : Type :=
  | FqOk (a : A)
  | FqErr                (* Err(()) *)
  | FqPanic.             (* overflow of a plain [+], or [expect] on a zero probability *)
Arguments FqOk {A} a.
Arguments FqErr {A}.
Arguments FqPanic {A}.

(* [wrapping_pow2::<T>(e)] for a [B]-bit type: 0 if e >= B, else 1 << e *)
Definition fq_wpow2 (B e : N) : N := trunc B (2 ^ e).
(* [a.wrapping_sub(b)] on a [B]-bit type (a, b < 2^B) *)
Definition fq_wsub (B a b : N) : N := trunc B (a + 2 ^ B - b).
(* plain [a + b] on a [B]-bit type *)
Definition fq_cadd (B a b : N) : option N := if a + b <? 2 ^ B then Some (a + b) else None.
(* [a.saturating_sub(b)] *)
Definition fq_ssub (a b : N) : N := a - b.

Section FloatQ.
Variables prec emax : Z.
Context (Hprec : Prec_gt_0 prec) (Hmax : Prec_lt_emax prec emax).
Notation float := (binary_float prec emax).

Definition fq_zero : float := B754_zero false.            (* F::zero() *)
Definition fq_nzero : float := B754_zero true.            (* -0.0, the start of Iterator::sum *)
Definition fq_add (x y : float) : float := Bplus mode_NE x y.
Definition fq_mul (x y : float) : float := Bmult mode_NE x y.
Definition fq_div (x y : float) : float := Bdiv mode_NE x y.

(* integer -> float [as]: round to nearest even (0 -> +0.0) *)
Definition fq_of_N (n : N) : float := binary_normalize prec emax Hprec Hmax mode_NE (Z.of_N n) 0 false.

(* float -> [B]-bit unsigned [as]: truncate toward zero, saturate, NaN -> 0 *)
Definition fq_to_N (B : N) (x : float) : N :=
  match x with
  | B754_nan => 0
  | B754_infinity s => if s then 0 else 2 ^ B - 1
  | _ => N.min (Z.to_N (Btrunc x)) (2 ^ B - 1)
  end.

(* [x >= y] (false if unordered) *)
Definition fq_ge (x y : float) : bool :=
  match Bcompare x y with
  | Some Eq | Some Gt => true
  | _ => false
  end.
(* [x < y] *)
Definition fq_lt (x y : float) : bool :=
  match Bcompare x y with
  | Some Lt => true
  | _ => false
  end.

(* FloatCore::is_normal: classify() == Normal *)
Definition fq_is_normal (x : float) : bool :=
  match x with
  | B754_finite _ m _ _ => Z.eqb (Z.pos (SpecFloat.digits2_pos m)) prec
  | _ => false
  end.

(* [!x.is_normal() || !x.is_sign_positive()] is the rejection test *)
Definition fq_norm_ok (x : float) : bool := fq_is_normal x && negb (Bsign x).

(* F::one(), F::epsilon() = 2^(1-prec) *)
Definition fq_one : float := binary_normalize prec emax Hprec Hmax mode_NE 1 0 false.
Definition fq_eps : float := binary_normalize prec emax Hprec Hmax mode_NE 1 (1 - prec) false.

(* [iter.copied().sum::<F>()]: left fold starting from -0.0 (core::iter::Sum for floats) *)
Definition fq_sum (ws : list float) : float := fold_left fq_add ws fq_nzero.

(* all_finite_and_nonnegative *)
Definition fq_all_finite_nonneg (ws : list float) : bool :=
  forallb (fun w => fq_ge w fq_zero && is_finite w) ws.

(* [len < 2 || len >= wrapping_pow2::<usize>(PRECISION).wrapping_sub(1)] *)
Definition fq_len_bad (P n : N) : bool :=
  (n <? 2) || (fq_wsub fq_USZ (fq_wpow2 fq_USZ P) 1 <=? n).

(* [wrapping_pow2::<Probability>(PRECISION).wrapping_sub(&len.as_())] *)
Definition fq_free_weight (PB P n : N) : N := fq_wsub PB (fq_wpow2 PB P) (trunc PB n).

(* scaled_cumulative: min((cumulative_float * scale).as_(), free_weight) *)
Definition fq_scaled (PB : N) (c scale : float) (fw : N) : N :=
  N.min (fq_to_N PB (fq_mul c scale)) fw.

(* the checks shared by [fast_quantized_cdf] and the lazy constructor; returns [scale] *)
Definition fq_prepare (PB P : N) (ws : list float) (norm : option float) : fq_res float :=
  let n := N.of_nat (length ws) in
  if fq_len_bad P n then FqErr else
  if negb (fq_all_finite_nonneg ws) then FqErr else
  let fw := fq_free_weight PB P n in
  let normalization := match norm with Some x => x | None => fq_sum ws end in
  if negb (fq_norm_ok normalization) then FqErr else
  FqOk (fq_div (fq_of_N fw) normalization).

(* the iterator returned by [fast_quantized_cdf], driven to the end *)
Fixpoint fq_cdf_loop (PB : N) (scale : float) (fw : N) (ws : list float)
                     (cum : float) (slack : N) : option (list N) :=
  match ws with
  | [] => Some []
  | w :: r =>
      match fq_cadd PB (fq_scaled PB cum scale fw) slack with
      | None => None
      | Some lcum =>
          match fq_cdf_loop PB scale fw r (fq_add cum w) (trunc PB (slack + 1)) with
          | None => None
          | Some l => Some (lcum :: l)
          end
      end
  end.

Definition fq_fast_cdf (PB P : N) (ws : list float) (norm : option float) : fq_res (list N) :=
  match fq_prepare PB P ws norm with
  | FqErr => FqErr
  | FqPanic => FqPanic
  | FqOk scale =>
      let fw := fq_free_weight PB P (N.of_nat (length ws)) in
      match fq_cdf_loop PB scale fw ws fq_zero 0 with
      | Some cdf => FqOk cdf
      | None => FqPanic
      end
  end.

(* from_fixed_point_cdf: chain(once(wrapping_pow2(PRECISION))) *)
Definition fq_extend (PB P : N) (cdf : list N) : list N := cdf ++ [fq_wpow2 PB P].

(* symbol_table / iter_extended_cdf over the extended cdf: (symbol, left, right - left) with
   the probability going through a NonZero ([None] = a zero would be stored: panic in
   iter_extended_cdf, undefined behaviour behind into_nonzero_unchecked) *)
Fixpoint fq_table_from (PB : N) (sym : Z) (lcum : N) (rest : list N) : option table :=
  match rest with
  | [] => Some []
  | rcum :: r =>
      let p := fq_wsub PB rcum lcum in
      if p =? 0 then None else
      match fq_table_from PB (sym + 1)%Z rcum r with
      | None => None
      | Some t => Some ((sym, lcum, p) :: t)
      end
  end.

Definition fq_table_of_ext (PB : N) (ext : list N) : option table :=
  match ext with
  | [] => None                          (* "cdf is not empty" *)
  | c0 :: r => fq_table_from PB 0%Z c0 r
  end.

(* ContiguousCategoricalEntropyModel::from_floating_point_probabilities_fast + symbol_table *)
Definition fq_eager_table (PB P : N) (ws : list float) (norm : option float) : fq_res table :=
  match fq_fast_cdf PB P ws norm with
  | FqErr => FqErr
  | FqPanic => FqPanic
  | FqOk cdf =>
      match fq_table_of_ext PB (fq_extend PB P cdf) with
      | Some t => FqOk t
      | None => FqPanic
      end
  end.

(* ---------------------------------------------------------------- lazy model *)

Record fq_lazy : Type := { lz_pmf : list float; lz_scale : float }.

Definition fq_lazy_new (PB P : N) (ws : list float) (norm : option float) : fq_res fq_lazy :=
  match fq_prepare PB P ws norm with
  | FqErr => FqErr
  | FqPanic => FqPanic
  | FqOk scale => FqOk {| lz_pmf := ws; lz_scale := scale |}
  end.

(* .into_nonzero().expect(..) *)
Definition fq_nonzero {A} (p : N) (k : N -> A) : fq_res A :=
  if p =? 0 then FqPanic else FqOk (k p).

(* EncoderModel::left_cumulative_and_probability; [FqOk None] = symbol out of range *)
Definition fq_lazy_enc (PB P : N) (m : fq_lazy) (symbol : N) : fq_res (option (N * N)) :=
  let pmf := lz_pmf m in
  let n := N.of_nat (length pmf) in
  if n <=? symbol then FqOk None else
  let i := N.to_nat symbol in
  match nth_error pmf i with
  | None => FqOk None
  | Some probability_float =>
      let left_cumulative_float := fq_sum (firstn i pmf) in
      let fw := fq_free_weight PB P n in
      match fq_cadd PB (fq_scaled PB left_cumulative_float (lz_scale m) fw) (trunc PB symbol) with
      | None => FqPanic
      | Some left_cumulative =>
          let right_cumulative_float := fq_add left_cumulative_float probability_float in
          let rcum :=
            if symbol =? n - 1 then Some (fq_wpow2 PB P) else
            match fq_cadd PB (fq_scaled PB right_cumulative_float (lz_scale m) fw) (trunc PB symbol) with
            | None => None
            | Some x => fq_cadd PB x 1
            end in
          match rcum with
          | None => FqPanic
          | Some right_cumulative =>
              fq_nonzero (fq_wsub PB right_cumulative left_cumulative)
                         (fun p => Some (left_cumulative, p))
          end
      end
  end.

(* first loop of quantile_function: returns (rest of the iterator, next_symbol, left, right) *)
Fixpoint fq_skip (lower_bound : float) (ws : list float) (next_symbol : N) (lf rf : float)
  : list float * N * float * float :=
  match ws with
  | [] => ([], next_symbol, lf, rf)
  | w :: r =>
      let next_symbol' := trunc fq_USZ (next_symbol + 1) in
      let lf' := rf in
      let rf' := fq_add rf w in
      if fq_ge rf' lower_bound then (r, next_symbol', lf', rf')
      else fq_skip lower_bound r next_symbol' lf' rf'
  end.

(* second loop + special-cased last symbol *)
Fixpoint fq_search (PB P : N) (scale : float) (fw quantile : N) (ws : list float)
                   (next_symbol left_cumulative : N) (right_cumulative_float : float)
  : fq_res (N * N * N) :=
  let sym := fq_wsub fq_USZ next_symbol 1 in
  match ws with
  | [] =>
      fq_nonzero (fq_wsub PB (fq_wpow2 PB P) left_cumulative) (fun p => (sym, left_cumulative, p))
  | w :: r =>
      match fq_cadd PB (fq_scaled PB right_cumulative_float scale fw) (trunc PB next_symbol) with
      | None => FqPanic
      | Some right_cumulative =>
          if quantile <? right_cumulative then
            fq_nonzero (fq_wsub PB right_cumulative left_cumulative) (fun p => (sym, left_cumulative, p))
          else
            fq_search PB P scale fw quantile r (trunc fq_USZ (next_symbol + 1)) right_cumulative
                      (fq_add right_cumulative_float w)
      end
  end.

Definition fq_lower_bound (PB : N) (m : fq_lazy) (quantile : N) : float :=
  let enlarged_scale := fq_mul (fq_add (fq_add fq_one fq_eps) fq_eps) (lz_scale m) in
  fq_div (fq_of_N (fq_ssub quantile (trunc PB (N.of_nat (length (lz_pmf m)))))) enlarged_scale.

(* DecoderModel::quantile_function -> (symbol, left_cumulative, probability) *)
Definition fq_lazy_dec (PB P : N) (m : fq_lazy) (quantile : N) : fq_res (N * N * N) :=
  let pmf := lz_pmf m in
  let lower_bound := fq_lower_bound PB m quantile in
  let '(rest, next_symbol, left_f, right_f) := fq_skip lower_bound pmf 0 fq_zero fq_zero in
  let fw := fq_free_weight PB P (N.of_nat (length pmf)) in
  match fq_cadd PB (fq_scaled PB left_f (lz_scale m) fw) (trunc PB (fq_wsub fq_USZ next_symbol 1)) with
  | None => FqPanic
  | Some left_cumulative =>
      fq_search PB P (lz_scale m) fw quantile rest next_symbol left_cumulative right_f
  end.

End FloatQ.

(* accumulate_nonzero_probabilities with infer_last_probability = false, as used by
   from_nonzero_fixed_point_probabilities(weights, false): returns the left cumulatives *)
Fixpoint fq_accumulate (PB : N) (ps : list N) (accum laps_or_zeros : N) (acc : list N)
  : list N * N * N :=
  match ps with
  | [] => (rev acc, accum, laps_or_zeros)
  | p :: r =>
      let accum' := trunc PB (accum + p) in
      fq_accumulate PB r accum' (laps_or_zeros + (if accum' <=? accum then 1 else 0)) (accum :: acc)
  end.

Definition fq_validate_fixed (PB P : N) (ps : list N) : option (list N) :=
  let '(cdf, accum, laps) := fq_accumulate PB ps 0 0 [] in
  if negb (accum =? fq_wpow2 PB P) || negb (laps =? (if P =? PB then 1 else 0))
     || (N.of_nat (length ps) <? 2)
  then None else Some cdf.

(* ---------------------------------------------------------------- "perfect" constructors:
   only the input validation of perfectly_quantized_probabilities and the fixed-point
   validator its output is pushed through.  The optimisation itself (libm log1p, sorting by
   f64 keys) is NOT modelled: it is a section variable.  The normalisation is summed in f64
   after the exact conversion [x.into()], hence two formats. *)
Section Perfect.
Variables prec emax : Z.
Context (Hprec : Prec_gt_0 prec) (Hmax : Prec_lt_emax prec emax).
Variables prec2 emax2 : Z.
Context (Hprec2 : Prec_gt_0 prec2) (Hmax2 : Prec_lt_emax prec2 emax2).

(* F -> f64 [into()] (exact when the target format is at least as wide) *)
Definition fq_widen (x : binary_float prec emax) : binary_float prec2 emax2 :=
  match x with
  | B754_zero s => B754_zero s
  | B754_infinity s => B754_infinity s
  | B754_nan => B754_nan
  | B754_finite s m e _ =>
      binary_normalize prec2 emax2 Hprec2 Hmax2 mode_NE (cond_Zopp s (Z.pos m)) e s
  end.

(* [len < 2 || len > Probability::max_value().as_()] *)
Definition fq_perfect_len_bad (PB n : N) : bool := (n <? 2) || (2 ^ PB - 1 <? n).

(* Ok-path conditions of perfectly_quantized_probabilities before / outside the optimisation:
   length, normalisation normal and positive, no entry [< F::zero()] *)
Definition fq_perfect_validate (PB : N) (ws : list (binary_float prec emax)) : bool :=
  negb (fq_perfect_len_bad PB (N.of_nat (length ws)))
  && fq_norm_ok prec2 emax2 (fq_sum prec2 emax2 Hprec2 Hmax2 (map fq_widen ws))
  && forallb (fun w => negb (fq_lt prec emax w (fq_zero prec emax))) ws.

(* the weights computed by the optimisation loop: not modelled *)
Variable optimise : list (binary_float prec emax) -> fq_res (list N).

Definition fq_perfect_table (PB P : N) (ws : list (binary_float prec emax)) : fq_res table :=
  if negb (fq_perfect_validate PB ws) then FqErr else
  match optimise ws with
  | FqErr => FqErr
  | FqPanic => FqPanic
  | FqOk weights =>
      match fq_validate_fixed PB P (map (trunc PB) weights) with
      | None => FqErr
      | Some cdf =>
          match fq_table_of_ext PB (fq_extend PB P cdf) with
          | Some t => FqOk t
          | None => FqPanic
          end
      end
  end.
End Perfect.

(* ---------------------------------------------------------------- specification vocabulary
   (used by the statements in Props/C0x_float.v) *)

(* [l < x1 < x2 < ... < xk < T] *)
Fixpoint fq_incr (l : N) (cs : list N) (T : N) : Prop :=
  match cs with
  | [] => l < T
  | x :: r => l < x /\ fq_incr x r T
  end.

(* a list of left cumulatives as fast_quantized_cdf must produce it: starts at 0, strictly
   increasing, everything below 2^P *)
Definition fq_cdf_ok (P : N) (cdf : list N) : Prop :=
  exists cs, cdf = 0 :: cs /\ fq_incr 0 cs (2 ^ P).

(* the contiguous symbols s, s+1, ..., s+n-1 *)
Fixpoint fq_seqZ (s : Z) (n : nat) : list Z :=
  match n with
  | O => []
  | S n' => s :: fq_seqZ (s + 1)%Z n'
  end.

(* "the first loop of the lazy quantile_function stopped no later than the symbol that owns the
   quantile": the left cumulative of the symbol at which it stopped is <= quantile.  This is what
   the comment "any mismatch in rounding errors can only make our bound more conservative"
   promises; it is a HYPOTHESIS of the decoder theorem in Props/C05_float.v. *)
Definition fq_skip_ok (prec emax : Z) (Hprec : Prec_gt_0 prec) (Hmax : Prec_lt_emax prec emax)
           (PB P : N) (m : fq_lazy prec emax) (quantile : N) : Prop :=
  let pmf := lz_pmf prec emax m in
  let '(_, next_symbol, left_f, _) :=
    fq_skip prec emax Hprec Hmax (fq_lower_bound prec emax Hprec Hmax PB m quantile) pmf 0
            (fq_zero prec emax) (fq_zero prec emax) in
  fq_scaled prec emax Hprec Hmax PB left_f (lz_scale prec emax m)
            (fq_free_weight PB P (N.of_nat (length pmf))) + (next_symbol - 1) <= quantile.

(* ---------------------------------------------------------------- the two Rust float types *)
#[global] Instance fq_prec32 : Prec_gt_0 24 := eq_refl.
#[global] Instance fq_max32 : Prec_lt_emax 24 128 := eq_refl.
#[global] Instance fq_prec64 : Prec_gt_0 53 := eq_refl.
#[global] Instance fq_max64 : Prec_lt_emax 53 1024 := eq_refl.

(* f32::from_bits / f64::from_bits (NaN payloads are dropped: one NaN) *)
Definition fq_f32_of_bits (z : Z) : binary_float 24 128 := Binary.B2BSN 24 128 (Bits.b32_of_bits z).
Definition fq_f64_of_bits (z : Z) : binary_float 53 1024 := Binary.B2BSN 53 1024 (Bits.b64_of_bits z).
