(* Proofs/Range_extra.v -- the range-coder parts of C07 (seek), C08 (guards), C09 (impossible
   symbols), C10 (decoder total), C12 (size), C18 (queries). *)
From CV Require Import Base.Bits Model.EModel Model.Range Model.RangeSpec.
From CV Require Import Proofs.Range_base Proofs.Range_spec Proofs.Range_enc Proofs.Range_dec
                       Proofs.Range_roundtrip.
From Coq Require Import ZifyBool ZifyN.
Open Scope N_scope.
Set Default Timeout 30.

(* the type-level invariant of EncoderSituation: the counter is a NonZeroUsize *)
Definition sit_wf (sit : situation) : Prop :=
  match sit with Normal => True | Inverted n _ => 1 <= n end.

Lemma pop_n_app (a b : list N) : pop_n (length a) (a ++ b) = Some b.
Proof. induction a as [|x r IH]; [reflexivity|]. cbn [length app pop_n]. exact IH. Qed.

(* ================================================================== C18 / C08 : seal shape *)
Section Queries.
Variable c : rcfg.

(* whatever the state: sealing only appends, and appends exactly num_seal_words words *)
Lemma seal_shape e b : sit_wf (e_sit e) -> renc_seal c e = ROk b ->
  exists extra, b = extra ++ e_bulk e /\ length extra = N.to_nat (renc_num_seal_words c e).
Proof.
  intros Hwf. unfold renc_seal, renc_num_seal_words.
  destruct (e_range e =? smax c).
  - intros E. inversion E. exists []. split; reflexivity.
  - destruct (e_sit e) as [|n w].
    + destruct (seal_upper_word c e =? seal_point_word c e); intros E; inversion E.
      * exists [0; seal_point_word c e]. split; reflexivity.
      * exists [seal_point_word c e]. split; reflexivity.
    + cbn in Hwf.
      assert (Hfl : forall f x, exists ex, flush_held f x n (e_bulk e) = ex ++ e_bulk e /\ length ex = N.to_nat n).
      { intros f x. unfold flush_held. exists (repeat x (N.to_nat (n - 1)) ++ [f]).
        split; [rewrite <- app_assoc; reflexivity|].
        rewrite app_length, repeat_length. cbn [length]. lia. }
      destruct (seal_point c e <? e_lower e).
      * destruct (2 ^ rWB c <=? w + 1); [discriminate|].
        destruct (Hfl (w + 1) 0) as (ex & -> & Hl).
        destruct (seal_upper_word c e =? seal_point_word c e); intros E; inversion E.
        -- exists (0 :: seal_point_word c e :: ex). split; [reflexivity|]. cbn [length]. lia.
        -- exists (seal_point_word c e :: ex). split; [reflexivity|]. cbn [length]. lia.
      * destruct (Hfl w (wmax c)) as (ex & -> & Hl).
        destruct (seal_upper_word c e =? seal_point_word c e); intros E; inversion E.
        -- exists (0 :: seal_point_word c e :: ex). split; [reflexivity|]. cbn [length]. lia.
        -- exists (seal_point_word c e :: ex). split; [reflexivity|]. cbn [length]. lia.
Qed.

(* C18: num_words is the length of what exporting returns, in both situations *)
Theorem num_words_exact e ws : sit_wf (e_sit e) ->
  renc_into_compressed c e = ROk ws -> renc_num_words c e = N.of_nat (length ws).
Proof.
  intros Hwf. unfold renc_into_compressed, renc_num_words.
  destruct (renc_seal c e) as [b| | |] eqn:Es; try discriminate.
  intros E. inversion E. destruct (seal_shape e b Hwf Es) as (ex & -> & Hl).
  rewrite rev_length, app_length. lia.
Qed.

Theorem num_bits_exact e : renc_num_bits c e = rWB c * renc_num_words c e.
Proof. reflexivity. Qed.

(* C18: is_empty exactly when exporting returns nothing *)
Theorem is_empty_exact e ws : sit_wf (e_sit e) ->
  renc_into_compressed c e = ROk ws -> (renc_is_empty c e = true <-> ws = []).
Proof.
  intros Hwf. unfold renc_into_compressed, renc_is_empty.
  destruct (renc_seal c e) as [b| | |] eqn:Es; try discriminate.
  intros E. inversion E; subst ws. clear E.
  unfold renc_seal in Es.
  destruct (e_range e =? smax c) eqn:Er.
  - inversion Es; subst b. cbn [andb]. destruct (e_bulk e) as [|x r].
    + split; reflexivity.
    + split; [discriminate|]. intros H. apply (f_equal (@length N)) in H.
      cbn [rev] in H. rewrite app_length in H. cbn in H. lia.
  - cbn [andb]. split; [discriminate|]. intros H. exfalso.
    assert (Hb : b <> []).
    { destruct (match e_sit e with
                | Normal => ROk (e_bulk e)
                | Inverted n w =>
                    if seal_point c e <? e_lower e
                    then if 2 ^ rWB c <=? w + 1 then RPanic Panic_word_add_overflow
                         else ROk (flush_held (w + 1) 0 n (e_bulk e))
                    else ROk (flush_held w (wmax c) n (e_bulk e))
                end) as [b0| | |]; try discriminate.
      destruct (seal_upper_word c e =? seal_point_word c e); inversion Es; discriminate. }
    apply Hb. destruct b; [reflexivity|]. cbn [rev] in H.
    apply (f_equal (@length N)) in H. rewrite app_length in H. cbn in H. lia.
Qed.

(* C18: a decoder with a whole unread word is not exhausted *)
Theorem not_exhausted d : d_rest d <> [] -> rdec_maybe_exhausted c d = false.
Proof. intros H. unfold rdec_maybe_exhausted. destruct (d_rest d); [contradiction|reflexivity]. Qed.

(* C08: the guard shows what finishing would return and its Drop restores the encoder exactly *)
Theorem get_compressed_pure e view e' : sit_wf (e_sit e) ->
  renc_get_compressed c e = ROk (view, e') ->
  e' = e /\ renc_into_compressed c e = ROk view.
Proof.
  intros Hwf. unfold renc_get_compressed, guard_new, renc_into_compressed.
  destruct (renc_is_empty c e) eqn:Eemp.
  - (* nothing is sealed; num_seal_words = 0 *)
    unfold renc_is_empty in Eemp. apply andb_true_iff in Eemp. destruct Eemp as [Er Eb].
    unfold renc_num_seal_words, renc_seal. rewrite Er. cbn [N.to_nat pop_n].
    intros E. inversion E. split; [destruct e; reflexivity|reflexivity].
  - destruct (renc_seal c e) as [b| | |] eqn:Es; try discriminate.
    destruct (seal_shape e b Hwf Es) as (ex & -> & Hl).
    rewrite <- Hl, pop_n_app. intros E. inversion E. split; [destruct e; reflexivity|reflexivity].
Qed.

(* C09: the model lookup precedes every mutation *)
Theorem impossible_symbol_rejected m x e : em_enc m x = None -> renc_encode_sym c m x e = RErrImpossible.
Proof. intros H. unfold renc_encode_sym. rewrite H. reflexivity. Qed.

(* C07: positions beyond the data are refused, decoder untouched (the result carries no decoder) *)
Theorem seek_refused pos lo ra d : N.of_nat (length (d_buf d)) < pos -> rdec_seek c pos lo ra d = None.
Proof. intros H. unfold rdec_seek. apply N.ltb_lt in H. rewrite H. reflexivity. Qed.

End Queries.

(* ================================================================== under the invariants *)
Section Reach.
Variable c : rcfg.
Hypothesis Hc : wf_rcfg c.

Local Notation W := (rWB c).
Local Notation SB := (rSB c).
Local Notation B := (Bw c).
Local Notation T := (Tw c).
Local Notation M := (Mw c).

Lemma renc_sit_wf e s : Renc c e s -> sit_wf (e_sit e).
Proof. intros (_ & _ & _ & _ & _ & H). destruct (e_sit e); [exact I|]. cbn. lia. Qed.

Lemma renc_pos_spec e s : Renc c e s ->
  renc_pos e = (N.of_nat (sk s), (sL s mod M, sR s)).
Proof.
  intros (ER & HlM & EL & Ek & _ & Hsit). unfold renc_pos. rewrite ER.
  f_equal; [|f_equal].
  - rewrite Ek, app_length. destruct (e_sit e) as [|n w].
    + cbn. lia.
    + destruct Hsit as (_ & _ & Hn). rewrite (held_length c n w Hn). lia.
  - rewrite EL, N.add_comm, N.mod_add by (pose proof (M_pos c); lia).
    symmetry. apply N.mod_small. assumption.
Qed.

(* C08 on reachable encoders: the guard never panics (also while words are held back) *)
Theorem get_compressed_total e s : Renc c e s -> SInv c s ->
  exists view, renc_get_compressed c e = ROk (view, e) /\ renc_into_compressed c e = ROk view.
Proof.
  intros HR Hs.
  assert (Hseal : exists b, renc_seal c e = ROk b).
  { destruct (N.eq_dec (sR s) (M - 1)) as [E|Hne].
    - destruct HR as (ER & _). unfold renc_seal. rewrite ER, smax_eq, E, N.eqb_refl. eexists; reflexivity.
    - destruct (seal_refines c Hc e s HR Hs Hne) as (b & Eb & _). exists b. assumption. }
  destruct Hseal as (b & Es).
  pose proof (renc_sit_wf e s HR) as Hwf.
  assert (exists view e', renc_get_compressed c e = ROk (view, e')) as (view & e' & Eg).
  { unfold renc_get_compressed, guard_new.
    destruct (renc_is_empty c e) eqn:Eemp.
    - unfold renc_is_empty in Eemp. apply andb_true_iff in Eemp. destruct Eemp as [Er _].
      unfold renc_num_seal_words. rewrite Er. cbn [N.to_nat pop_n]. eexists _, _. reflexivity.
    - rewrite Es. destruct (seal_shape c e b Hwf Es) as (ex & -> & Hl).
      rewrite <- Hl, pop_n_app. eexists _, _. reflexivity. }
  destruct (get_compressed_pure c e view e' Hwf Eg) as [-> Ei].
  exists view. split; assumption.
Qed.

(* C09 on reachable encoders: ImpossibleSymbol is returned ONLY for symbols outside the support *)
Theorem impossible_iff e s m x :
  Renc c e s -> SInv c s -> model_ok c m -> N.of_nat (sk s) + 1 < 2 ^ USZ ->
  (renc_encode_sym c m x e = RErrImpossible <-> em_enc m x = None).
Proof.
  intros HR Hs [Hm HPB] Hu. split; [|apply impossible_symbol_rejected].
  unfold renc_encode_sym. destruct (em_enc m x) as [[cum p]|] eqn:Henc; [|reflexivity].
  destruct (wfm_enc m Hm x cum p Henc) as (Hwf & _ & _).
  assert (Hok : step_ok c (em_prec m, cum, p)).
  { split; [split; [apply (wfm_prec m Hm)|assumption]|assumption]. }
  destruct (renc_step c Hc e s _ cum p HR Hs Hok Hu) as (e' & E & _). rewrite E. discriminate.
Qed.

(* ---------------------------------------------------------------- C10 : decoder total *)
Definition dec_type_ok (d : rdec) : Prop := T <= d_range d /\ d_range d < M.

Theorem rdec_decode_total m d : dec_type_ok d -> model_ok c m ->
  (exists x d', rdec_decode c m d = ROk (x, d') /\ em_enc m x <> None /\ dec_type_ok d' /\ d_buf d' = d_buf d)
  \/ rdec_decode c m d = RErrInvalidData.
Proof.
  intros [HT HM] [Hm HPB].
  set (P := em_prec m).
  assert (HP : prec_ok c P) by (split; [apply (wfm_prec m Hm)|assumption]).
  (* reuse the spec-level bounds on a fake spec state carrying the range *)
  set (s := {| sL := 0; sR := d_range d; sk := 0 |}).
  assert (Hs : SInv c s).
  { unfold SInv, s. cbn [sL sR sk]. rewrite Bp_0. lia. }
  destruct (scale_bounds c Hc s P Hs HP) as (Hsc1 & Hsc2 & Hsc0). cbn [sR s] in Hsc1, Hsc2, Hsc0.
  unfold rdec_decode. fold P. rewrite shr_div. set (sc := d_range d / 2 ^ P) in *.
  destruct (N.eqb_spec sc 0) as [Hbad|_]; [lia|].
  rewrite (shl1P c Hc P HP).
  set (q := wsub SB (d_point d) (d_lower d) / sc).
  destruct (N.leb_spec (2 ^ P) q) as [Hinv|Hq]; [right; reflexivity|]. left.
  assert (Etr : trunc (rPB c) (trunc W q) = q).
  { pose proof (P_le_W c Hc P HP). destruct HP as [_ HP2].
    rewrite (trunc_small W q) by (eapply N.lt_le_trans; [exact Hq|apply pow2_le; assumption]).
    apply trunc_small. eapply N.lt_le_trans; [exact Hq|apply pow2_le; assumption]. }
  rewrite Etr.
  pose proof (wfm_dec m Hm q Hq) as Hd.
  destruct (em_dec m q) as [[x cum] p]. destruct Hd as [Henc Hrange].
  destruct (wfm_enc m Hm x cum p Henc) as ([Hp Hcp] & _ & _). fold P in Hcp.
  assert (Hsum : sc * cum + sc * p <= d_range d) by (clear - Hsc2 Hcp; pnia).
  assert (Hscp : 0 < sc * p) by (clear - Hsc0 Hp; nia).
  fold M.
  destruct (N.leb_spec M (sc * cum)) as [Hbad|_]; [lia|].
  destruct (N.leb_spec M (sc * p)) as [Hbad|_]; [lia|].
  destruct (N.eqb_spec (sc * p) 0) as [Hbad|_]; [lia|].
  rewrite (rthr_eq c Hc).
  assert (Hx : em_enc m x <> None) by (rewrite Henc; discriminate).
  destruct (N.ltb_spec (sc * p) T) as [Hlt|Hge].
  - (* renormalised range: sc*p*B in [T, M) *)
    assert (Hr2 : T <= shl SB (sc * p) W /\ shl SB (sc * p) W < M).
    { rewrite (shl_W_small c Hc _ Hlt).
      pose proof (T_split_P c Hc P HP) as ET. pose proof (powP_le_B c Hc P HP) as HPBw.
      pose proof (B_pos c) as HB. pose proof (M_eq_TB c Hc) as EM.
      split.
      - rewrite ET. transitivity (sc * 2 ^ P); [apply N.mul_le_mono_r; assumption|].
        replace (sc * p * B) with (sc * (p * B)) by lia. apply N.mul_le_mono_l.
        clear - Hp HPBw. pnia.
      - rewrite EM. apply N.mul_lt_mono_pos_r; assumption. }
    destruct (d_rest d); eexists _, _; (split; [reflexivity|]); (split; [assumption|]);
      (split; [exact Hr2|reflexivity]).
  - eexists _, _. split; [reflexivity|]. split; [assumption|]. split; [|reflexivity].
    unfold dec_type_ok. cbn [d_range]. lia.
Qed.

Theorem rdec_from_compressed_type_ok ws : dec_type_ok (rdec_from_compressed c ws).
Proof.
  unfold rdec_from_compressed. destruct (read_point c ws) as [rest pt].
  unfold dec_type_ok. cbn [d_range]. rewrite smax_eq. pose proof (T_lt_M c Hc). lia.
Qed.

(* any number of symbols, any models: in-support symbols, or InvalidData; never a panic *)
Theorem rdec_decode_all_total ms : forall d, dec_type_ok d -> Forall (model_ok c) ms ->
  (exists xs d', rdec_decode_all c ms d = ROk (xs, d') /\
                 Forall2 (fun m x => em_enc m x <> None) ms xs /\ dec_type_ok d')
  \/ rdec_decode_all c ms d = RErrInvalidData.
Proof.
  induction ms as [|m r IH]; intros d Hd Hms.
  - left. exists [], d. split; [reflexivity|]. split; [constructor|assumption].
  - inversion Hms as [|? ? Hm Hr]; subst. cbn [rdec_decode_all].
    destruct (rdec_decode_total m d Hd Hm) as [(x & d1 & E1 & Hx & Hd1 & _)|E1]; rewrite E1; [|right; reflexivity].
    destruct (IH d1 Hd1 Hr) as [(xs & d2 & E2 & Hxs & Hd2)|E2]; rewrite E2; [|right; reflexivity].
    left. exists (x :: xs), d2. split; [reflexivity|]. split; [constructor; assumption|assumption].
Qed.

(* ---------------------------------------------------------------- C07 : seek *)
Lemma msg_triples_app l1 : forall l2 tr,
  msg_triples (l1 ++ l2) = Some tr ->
  exists tr1 tr2, msg_triples l1 = Some tr1 /\ msg_triples l2 = Some tr2 /\ tr = tr1 ++ tr2.
Proof.
  induction l1 as [|[m x] r IH]; intros l2 tr E.
  - exists [], tr. cbn [app] in *. auto.
  - cbn [app msg_triples] in *.
    destruct (em_enc m x) as [[cum p]|]; [|discriminate].
    destruct (msg_triples (r ++ l2)) as [tr'|] eqn:E'; [|discriminate].
    inversion E; subst tr.
    destruct (IH l2 tr' E') as (tr1 & tr2 & E1 & E2 & ->).
    rewrite E1. exists ((em_prec m, cum, p) :: tr1), tr2. auto.
Qed.

(* where the decoder's window ends up relative to the final interval, for the sealed text *)
Lemma final_window tr sfx :
  Forall (step_ok c) tr -> text_ok W sfx ->
  (tr <> [] -> seal_pins c (spec_run c tr (spec_init c)) sfx) ->
  let sf := spec_run c tr (spec_init c) in
  let t := spec_words c tr ++ sfx in
  sL sf <= spec_window c t sf /\ spec_window c t sf <= sL sf + sR sf /\
  (tr <> [] -> spec_window c t sf < sL sf + sR sf) /\
  (tr <> [] -> (sk sf < length t)%nat) /\
  (sfx = [] -> (length t <= sk sf + wps c)%nat /\
               (sR sf = M - 1 \/ spec_window c t sf - sL sf < 2 * T - 1)).
Proof.
  intros Htr Hsfx Hpin sf t.
  pose proof (spec_init_inv c Hc) as Hs0.
  assert (Hsf : SInv c sf) by (apply spec_run_inv; assumption).
  destruct tr as [|x tr'].
  - subst sf t. cbn [spec_run spec_words app] in *.
    unfold spec_window. cbn [spec_init sL sR sk Nat.add].
    pose proof (tval_lt W sfx (wps c) Hsfx) as Hlt. rewrite (Bp_wps c Hc) in Hlt. fold M in Hlt |- *.
    split; [lia|]. split; [lia|]. split; [intros H; exfalso; apply H; reflexivity|].
    split; [intros H; exfalso; apply H; reflexivity|].
    intros ->. split; [cbn; lia|]. left. reflexivity.
  - specialize (Hpin ltac:(discriminate)). fold sf in Hpin.
    assert (EW : spec_window c t sf = spec_seal_value c sf * T + seal_slack c sf sfx).
    { subst t. unfold spec_words. fold sf. apply sealed_window; assumption. }
    assert (Elen : length t = (Datatypes.S (sk sf) + (if spec_seal_two c sf then 1 else 0) + length sfx)%nat).
    { subst t. unfold spec_words. fold sf. rewrite app_length, seal_digits_length. reflexivity. }
    destruct (seal_value_bounds c Hc sf Hsf) as (Hv1 & Hv2 & _).
    unfold seal_pins in Hpin. rewrite EW.
    split; [lia|]. split; [lia|]. split; [intros _; exact Hpin|].
    split; [intros _; lia|].
    intros ->. pose proof (wps_ge2 c Hc). split.
    + rewrite Elen. cbn [length]. destruct (spec_seal_two c sf); lia.
    + right. unfold seal_slack. rewrite !tval_nil. pose proof (T_pos c).
      destruct (spec_seal_two c sf); lia.
Qed.

(* a snapshot taken between two symbols, handed to ANY decoder over the finished data (sealed
   words, optionally followed by a harmless suffix), resumes decoding exactly there *)
Theorem seek_resumes l1 l2 sfx e1 d :
  msg_ok c (l1 ++ l2) -> N.of_nat (length (l1 ++ l2)) < 2 ^ USZ -> text_ok W sfx ->
  ~ range_known_class c (l1 ++ l2) sfx ->
  renc_encode_all c l1 (renc_new c) = ROk e1 ->
  exists ws, range_compress c (l1 ++ l2) = ROk ws /\
    (d_buf d = ws ++ sfx ->
     exists d' d'',
       rdec_seek c (fst (renc_pos e1)) (fst (snd (renc_pos e1))) (snd (snd (renc_pos e1))) d = Some d' /\
       rdec_decode_all c (msg_models l2) d' = ROk (msg_symbols l2, d'') /\
       (sfx = [] -> rdec_maybe_exhausted c d'' = true)).
Proof.
  intros Hmsg Hlen Hsfx Hnk He1.
  destruct (compress_spec c Hc _ Hmsg Hlen) as (tr & e & Etr & Htr & Eln & _ & _ & Ecomp).
  exists (spec_words c tr). split; [assumption|]. intros Hbuf.
  destruct (msg_triples_app l1 l2 tr Etr) as (tr1 & tr2 & E1 & E2 & ->).
  apply Forall_app in Htr. destruct Htr as [Htr1 Htr2].
  apply Forall_app in Hmsg. destruct Hmsg as [Hm1 Hm2].
  pose proof (spec_init_inv c Hc) as Hs0.
  set (s1 := spec_run c tr1 (spec_init c)).
  set (sf := spec_run c tr2 s1).
  assert (Esf : spec_run c (tr1 ++ tr2) (spec_init c) = sf) by apply spec_run_app.
  assert (Hs1 : SInv c s1) by (apply spec_run_inv; assumption).
  assert (Hsf : SInv c sf) by (apply spec_run_inv; assumption).
  (* the encoder after l1 is related to s1 *)
  assert (HR1 : Renc c e1 s1).
  { rewrite (renc_encode_all_triples c l1 tr1 _ E1) in He1.
    destruct (enc_triples_refines c Hc tr1 (renc_new c) (spec_init c) (renc_new_refines c) Hs0 Htr1)
      as (e1' & Ee & HR).
    - cbn [spec_init sk Nat.add]. rewrite app_length in Eln, Hlen.
      destruct (msg_triples_ok c l1 Hm1) as (t1 & Et1 & _ & El1). rewrite E1 in Et1. inversion Et1; subst t1.
      lia.
    - rewrite He1 in Ee. inversion Ee; subst e1'. exact HR. }
  rewrite (renc_pos_spec e1 s1 HR1). cbn [fst snd].
  set (t := spec_words c (tr1 ++ tr2) ++ sfx) in *.
  assert (Ht : text_ok W t).
  { unfold t, spec_words. destruct (tr1 ++ tr2); [exact Hsfx|]. apply text_ok_app; [apply seal_digits_ok|assumption]. }
  (* the window of the final state lies in the final interval (or the message is empty) *)
  assert (Hpin : tr1 ++ tr2 <> [] -> seal_pins c (spec_run c (tr1 ++ tr2) (spec_init c)) sfx).
  { intros Hne. unfold seal_pins.
    destruct (N.lt_ge_cases (spec_seal_value c (spec_run c (tr1 ++ tr2) (spec_init c)) * T +
                             seal_slack c (spec_run c (tr1 ++ tr2) (spec_init c)) sfx)
                            (sL (spec_run c (tr1 ++ tr2) (spec_init c)) + sR (spec_run c (tr1 ++ tr2) (spec_init c))))
      as [H|H]; [exact H|].
    exfalso. apply Hnk. exists (tr1 ++ tr2). auto. }
  pose proof (final_window (tr1 ++ tr2) sfx ltac:(apply Forall_app; auto) Hsfx Hpin) as Hwin.
  cbv zeta in Hwin. rewrite Esf in Hwin. fold t in Hwin.
  destruct Hwin as (HLf & HUf & HUf' & Hklt & Hexh).
  (* nesting: the window of s1 lies in the interval of s1 *)
  destruct (spec_run_nest c Hc tr2 s1 Hs1 Htr2) as (d2 & Ek2 & _ & HL2 & HU2). fold sf in Ek2, HL2, HU2.
  pose proof (window_prefix c t s1 sf d2 Ht Ek2) as EW1.
  pose proof (Bp_pos W d2) as HB2.
  assert (HX1 : sL s1 <= spec_window c t s1 /\ spec_window c t s1 <= sL s1 + sR s1).
  { rewrite EW1. split.
    - apply div_ge_lower; [assumption|]. lia.
    - apply N.div_le_upper_bound; [lia|]. nia. }
  (* the snapshot position lies inside the buffer *)
  assert (Hk1 : (sk s1 <= length t)%nat).
  { destruct (list_eq_dec (fun a b : N * N * N => ltac:(decide equality; try apply N.eq_dec; decide equality; apply N.eq_dec))
                (tr1 ++ tr2) []) as [E0|Hne].
    - assert (tr1 = []) as -> by (destruct tr1; [auto|discriminate]). unfold s1. cbn. lia.
    - specialize (Hklt Hne). lia. }
  destruct (rdec_seek_refines c Hc t d s1 Ht Hbuf Hk1 (proj1 HX1) (proj2 HX1)) as (d' & Eseek & HRd).
  exists d'.
  (* decode l2 from s1 *)
  pose proof (rdec_decode_all_refines c Hc t (msg_models l2) d' s1 HRd Hs1) as Href.
  assert (Hms2 : Forall (model_ok c) (msg_models l2)).
  { unfold msg_models. apply Forall_map. eapply Forall_impl; [|exact Hm2]. intros [m x] [H _]. exact H. }
  specialize (Href Hms2 Ht).
  destruct l2 as [|mx l2'].
  - (* nothing left to decode *)
    cbn in E2. inversion E2; subst tr2. cbn [msg_models msg_symbols map spec_decode_all rdec_decode_all] in *.
    exists d'. split; [assumption|]. split; [reflexivity|].
    intros Esfx. unfold sf in *. cbn [spec_run] in *.
    destruct (Hexh Esfx) as [Hl Hx].
    apply (exhausted_at_end c Hc t d' s1 HRd Hs1); assumption.
  - assert (Hne : tr1 ++ tr2 <> []).
    { destruct tr2; [cbn in E2; destruct mx as [m0 x0]; destruct (em_enc m0 x0) as [[? ?]|]; [destruct (msg_triples l2')|]; discriminate|].
      destruct tr1; discriminate. }
    rewrite (spec_roundtrip c Hc (mx :: l2') tr2 s1 t Hm2 E2 Hs1 Ht HLf (HUf' Hne)) in Href.
    destruct Href as (d'' & Ed & HRf & _). fold sf in HRf.
    exists d''. split; [assumption|]. split; [assumption|].
    intros Esfx. destruct (Hexh Esfx) as [Hl Hx].
    apply (exhausted_at_end c Hc t d'' sf HRf Hsf); assumption.
Qed.

(* ---------------------------------------------------------------- C12 : size *)
Definition Kof (P : N) : N := 2 ^ (SB - W - P).

Fixpoint prod_in (tr : list (N * N * N)) : N :=      (* product of p_i * K_i *)
  match tr with [] => 1 | (P, _, p) :: r => p * Kof P * prod_in r end.
Fixpoint prod_out (tr : list (N * N * N)) : N :=     (* product of 2^P_i * (K_i + 1) *)
  match tr with [] => 1 | (P, _, _) :: r => 2 ^ P * (Kof P + 1) * prod_out r end.

(* range_shrink: one symbol costs at most its information content plus the rounding term *)
Lemma range_shrink s P cum p : SInv c s -> step_ok c (P, cum, p) ->
  exists d : nat, sk (spec_step c P cum p s) = (sk s + d)%nat /\ (d <= 1)%nat /\
    sR s * (p * Kof P) * Bp W d <= sR (spec_step c P cum p s) * (2 ^ P * (Kof P + 1)).
Proof.
  intros Hs [HP [Hp Hcp]].
  destruct (scale_bounds c Hc s P Hs HP) as (Hsc1 & Hsc2 & Hsc0). fold (Kof P) in Hsc1.
  destruct (spec_step_shape c s P cum p) as (d & Hd & _ & ER & Ek).
  set (sc := sR s / 2 ^ P) in *. set (K := Kof P) in *.
  exists d. split; [assumption|]. split; [destruct Hd as [[-> _]|[-> _]]; lia|].
  rewrite ER.
  (* R <= (sc+1)*2^P - 1 and sc >= K give R*K <= sc*2^P*(K+1) *)
  pose proof (pow2_pos P) as HP0.
  pose proof (N.div_mod (sR s) (2 ^ P) ltac:(lia)) as E. fold sc in E.
  pose proof (N.mod_lt (sR s) (2 ^ P) ltac:(lia)) as Hr.
  assert (Hkey : sR s * K <= sc * (2 ^ P * (K + 1))).
  { set (Q := 2 ^ P) in *. set (r := sR s mod Q) in *. clearbody Q r sc K. nia. }
  replace (sR s * (p * K) * Bp W d) with (sR s * K * (p * Bp W d)) by lia.
  replace (sc * p * Bp W d * (2 ^ P * (K + 1))) with (sc * (2 ^ P * (K + 1)) * (p * Bp W d)) by lia.
  apply N.mul_le_mono_r. assumption.
Qed.

Lemma range_shrink_run tr : forall s, SInv c s -> Forall (step_ok c) tr ->
  exists d : nat, sk (spec_run c tr s) = (sk s + d)%nat /\ (d <= length tr)%nat /\
    sR s * prod_in tr * Bp W d <= sR (spec_run c tr s) * prod_out tr.
Proof.
  induction tr as [|[[P cum] p] r IH]; intros s Hs Htr.
  - exists 0%nat. cbn [spec_run prod_in prod_out length]. rewrite Bp_0. repeat split; lia.
  - inversion Htr as [|? ? H1 Hr]; subst. cbn [spec_run prod_in prod_out length].
    destruct (range_shrink s P cum p Hs H1) as (d1 & Ek1 & Hd1 & H1').
    pose proof (spec_step_inv c Hc s P cum p Hs H1) as Hs1.
    destruct (IH _ Hs1 Hr) as (d2 & Ek2 & Hd2 & H2').
    exists (d1 + d2)%nat. split; [lia|]. split; [lia|].
    set (s1 := spec_step c P cum p s) in *. set (sf := spec_run c r s1) in *.
    rewrite Bp_add.
    set (a := p * Kof P) in *. set (b := 2 ^ P * (Kof P + 1)) in *.
    (* R*a*B1 <= R1*b   and   R1*pi*B2 <= Rf*po *)
    transitivity (sR s1 * b * (prod_in r * Bp W d2)).
    + replace (sR s * (a * prod_in r) * (Bp W d1 * Bp W d2))
        with (sR s * a * Bp W d1 * (prod_in r * Bp W d2)) by lia.
      apply N.mul_le_mono_r. assumption.
    + replace (sR s1 * b * (prod_in r * Bp W d2)) with (sR s1 * prod_in r * Bp W d2 * b) by lia.
      replace (sR sf * (b * prod_out r)) with (sR sf * prod_out r * b) by lia.
      apply N.mul_le_mono_r. assumption.
Qed.

(* C12 for whole messages: at most one word per symbol plus two, and the product form of
   "bits <= information content + n * rounding term + StateBits + 2 words" *)
Theorem range_size msg :
  msg_ok c msg -> N.of_nat (length msg) < 2 ^ USZ ->
  exists tr ws, msg_triples msg = Some tr /\ range_compress c msg = ROk ws /\
    (length ws <= length msg + 2)%nat /\
    Bp W (length ws) * (M - 1) * prod_in tr <= B * B * M * prod_out tr.
Proof.
  intros Hmsg Hlen.
  destruct (compress_spec c Hc msg Hmsg Hlen) as (tr & e & Etr & Htr & Eln & _ & _ & Ecomp).
  exists tr, (spec_words c tr). split; [assumption|]. split; [assumption|].
  pose proof (spec_init_inv c Hc) as Hs0.
  destruct (range_shrink_run tr (spec_init c) Hs0 Htr) as (d & Ek & Hd & Hprod).
  set (sf := spec_run c tr (spec_init c)) in *.
  assert (Hsf : SInv c sf) by (apply spec_run_inv; assumption).
  cbn [spec_init sR sk Nat.add] in Ek, Hprod. fold M in Hprod.
  pose proof (B_pos c) as HB. pose proof (M_pos c) as HM.
  assert (Hws : (length (spec_words c tr) <= d + 2)%nat).
  { unfold spec_words. destruct tr as [|x tr']; [cbn; lia|]. fold sf.
    rewrite seal_digits_length, Ek. destruct (spec_seal_two c sf); lia. }
  split; [lia|].
  destruct Hsf as (_ & HRM & _).
  assert (Hbp : Bp W (length (spec_words c tr)) <= Bp W d * (B * B)).
  { replace (Bp W d * (B * B)) with (Bp W (d + 2)).
    - unfold Bp. apply pow2_le. apply N.mul_le_mono_l. lia.
    - rewrite Bp_add. f_equal. change 2%nat with (1 + 1)%nat. rewrite Bp_add, Bp_1. reflexivity. }
  pose proof (Bp_pos W d) as HBd.
  transitivity (Bp W d * (B * B) * (M - 1) * prod_in tr).
  - apply N.mul_le_mono_r, N.mul_le_mono_r. assumption.
  - replace (Bp W d * (B * B) * (M - 1) * prod_in tr) with ((M - 1) * prod_in tr * Bp W d * (B * B)) by lia.
    replace (B * B * M * prod_out tr) with (M * prod_out tr * (B * B)) by lia.
    apply N.mul_le_mono_r.
    etransitivity; [exact Hprod|]. apply N.mul_le_mono_r. lia.
Qed.

(* one word per symbol on the concrete encoder: Pos::pos advances by at most one *)
Theorem pos_advances e s P cum p e' :
  Renc c e s -> SInv c s -> step_ok c (P, cum, p) -> N.of_nat (sk s) + 1 < 2 ^ USZ ->
  renc_encode c P cum p e = ROk e' ->
  fst (renc_pos e) <= fst (renc_pos e') <= fst (renc_pos e) + 1.
Proof.
  intros HR Hs Hok Hu E.
  destruct (renc_step c Hc e s P cum p HR Hs Hok Hu) as (e2 & E2 & HR2).
  rewrite E in E2. inversion E2; subst e2.
  rewrite (renc_pos_spec e s HR), (renc_pos_spec e' _ HR2). cbn [fst].
  destruct (spec_step_shape c s P cum p) as (d & [[-> _]|[-> _]] & _ & _ & Ek); rewrite Ek; lia.
Qed.

End Reach.

(* ---------- assembled corollaries used by Props ---------- *)
Theorem seek_end c msg e d :
  wf_rcfg c -> msg_ok c msg -> N.of_nat (length msg) < 2 ^ USZ ->
  renc_encode_all c msg (renc_new c) = ROk e ->
  exists ws, range_compress c msg = ROk ws /\
    (d_buf d = ws ->
     exists d', rdec_seek c (fst (renc_pos e)) (fst (snd (renc_pos e))) (snd (snd (renc_pos e))) d = Some d' /\
                rdec_maybe_exhausted c d' = true).
Proof.
  intros Hc Hm Hl He.
  assert (Hnk : ~ range_known_class c (msg ++ []) []).
  { intros Hk. rewrite app_nil_r in Hk.
    destruct (range_known_class_is_wide c msg [] Hc Hm ltac:(constructor) Hk) as (_ & H & _). apply H. reflexivity. }
  destruct (seek_resumes c Hc msg [] [] e d ltac:(rewrite app_nil_r; exact Hm)
              ltac:(rewrite app_nil_r; exact Hl) ltac:(constructor) Hnk He) as (ws & Ew & H).
  rewrite app_nil_r in Ew. exists ws. split; [assumption|]. intros Hb.
  destruct (H ltac:(rewrite app_nil_r; exact Hb)) as (d' & d'' & Es & Ed & Hex).
  cbn in Ed. inversion Ed; subst d''. exists d'. auto.
Qed.

Theorem decode_all_total_from_compressed c ws ms : wf_rcfg c -> Forall (model_ok c) ms ->
  (exists xs d', rdec_decode_all c ms (rdec_from_compressed c ws) = ROk (xs, d') /\
                 Forall2 (fun m x => em_enc m x <> None) ms xs)
  \/ rdec_decode_all c ms (rdec_from_compressed c ws) = RErrInvalidData.
Proof.
  intros Hc Hms.
  destruct (rdec_decode_all_total c Hc ms _ (rdec_from_compressed_type_ok c Hc ws) Hms)
    as [(xs & d' & E & H & _)|E]; [left; exists xs, d'; auto|right; exact E].
Qed.
