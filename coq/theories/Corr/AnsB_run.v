(* Corr/AnsB_run.v -- mirror of harness/src/fam_ansb.rs (bounded sink). *)
From CV Require Import Corr.Parse Model.Ans Corr.Ans_run.
Open Scope Z_scope.

Definition ERR_FULL := -5.

(* batch form on the bounded sink: per-symbol loop, stops at the first failure *)
Fixpoint ansb_batch (c : cfg) (cap : N) (m : emodel) (ss : list Z) (a : ans) : ans * Z :=
  match ss with
  | [] => (a, 0)
  | s :: r =>
      match ans_encode_cap c cap m s a with
      | EncOk a' => ansb_batch c cap m r a'
      | EncImpossible => (a, ERR_IMPOSSIBLE)
      | EncBackendFull => (a, ERR_FULL)
      end
  end.

Fixpoint ansb_loop (fuel : nat) (c : cfg) (cap : N) (ms : list rmodel) (l : list Z) (a : ans) : list Z :=
  match fuel with
  | O => out_raw a
  | S fuel' =>
    match l with
    | [] => out_raw a
    | 1 :: m :: s :: r =>
        match ans_encode_cap c cap (get_model ms m) s a with
        | EncOk a' => 0 :: ansb_loop fuel' c cap ms r a'
        | EncImpossible => ERR_IMPOSSIBLE :: ansb_loop fuel' c cap ms r a
        | EncBackendFull => ERR_FULL :: ansb_loop fuel' c cap ms r a
        end
    | 2 :: m :: r =>
        let '(s, a') := ans_decode_sym c (get_model ms m) a in
        s :: ansb_loop fuel' c cap ms r a'
    | 9 :: m :: r =>
        let '(ss, r') := read_list r in
        let '(a', e) := ansb_batch c cap (get_model ms m) ss a in
        e :: ansb_loop fuel' c cap ms r' a'
    | 12 :: r => out_raw a ++ ansb_loop fuel' c cap ms r a
    | _ => [PANIC]
    end
  end.

Definition run_ansb (inp : list Z) : list Z :=
  match inp with
  | wb :: sb :: pb :: r =>
      let c := {| WB := zN wb; SB := zN sb |} in
      let '(ms, r1) := read_models r in
      match r1 with
      | cap :: ops => ansb_loop (length ops) c (zN cap) ms ops ans_empty
      | [] => [PANIC]
      end
  | _ => [PANIC]
  end.
