(* Model/Convert.v -- the conversion graph between model representations
   (model.rs:747-820 to_generic_{encoder,decoder,lookup_decoder}_model, as_view,
   to_lookup_decoder_model, as_/into_(non_)contiguous_categorical).  Definitions only. *)
From CV Require Export Model.Uniform Model.Tables Model.Lookup.
Open Scope N_scope.

Inductive rep :=
| RUniform (m : umodel)
| RContig (m : contig)
| RNcDec (m : ncdec)
| RNcEnc (m : ncenc)
| RLkC (m : lkc)
| RLkN (m : lkn).

(* IterableEntropyModel::symbol_table; None = the type does not implement the trait *)
Definition rep_table (c : mcfg) (r : rep) : option (res table) :=
  match r with
  | RUniform m => Some (uniform_table c m)
  | RContig m => Some (contig_table c m)
  | RNcDec m => Some (ncdec_table c m)
  | RNcEnc _ => None
  | RLkC m => Some (lkc_table_of c m)
  | RLkN m => Some (lkn_table_of c m)
  end.

(* EncoderModel::left_cumulative_and_probability; [s] is a value of the symbol type *)
Definition rep_lcp (c : mcfg) (r : rep) (s : Z) : option (res (option (N * N))) :=
  match r with
  | RUniform m => Some (uniform_lcp c m (Z.to_N s))
  | RContig m => Some (contig_lcp c m (Z.to_N s))
  | RNcEnc m => Some (Ok (ncenc_lcp m s))
  | _ => None
  end.

(* DecoderModel::quantile_function *)
Definition rep_quant (c : mcfg) (r : rep) (q : N) : option (res (Z * N * N)) :=
  match r with
  | RUniform m => Some (uniform_quant c m q >>= fun '(s, cu, p) => Ok (Z.of_N s, cu, p))
  | RContig m => Some (contig_quant c m q >>= fun '(s, cu, p) => Ok (Z.of_N s, cu, p))
  | RNcDec m => Some (ncdec_quant c m q)
  | RNcEnc _ => None
  | RLkC m => Some (lkc_quant c m q >>= fun '(s, cu, p) => Ok (Z.of_N s, cu, p))
  | RLkN m => Some (lkn_quant c m q)
  end.

Definition rep_support_size (r : rep) : option (res N) :=
  match r with
  | RContig m => Some (contig_support_size m)
  | RNcDec m => Some (ncdec_support_size m)
  | RNcEnc m => Some (Ok (ncenc_support_size m))
  | _ => None
  end.

Inductive conv :=
| CView            (* as_view *)
| CGenEnc          (* to_generic_encoder_model *)
| CGenDec          (* to_generic_decoder_model *)
| CGenLookup       (* to_generic_lookup_decoder_model *)
| CToLookup        (* to_lookup_decoder_model *)
| CAsCategorical   (* as_contiguous_categorical / as_non_contiguous_categorical *)
| CIntoCategorical (* into_contiguous_categorical / into_non_contiguous_categorical *)
| CClone.

Definition with_table (c : mcfg) (r : rep) (f : table -> res rep) : res (option rep) :=
  match rep_table c r with
  | None => Ok None
  | Some rt => rt >>= fun t => f t >>= fun r' => Ok (Some r')
  end.

(* None = the conversion does not exist for this type.  [lookup_ok] = the Probability type
   implements Into<usize> (required by every lookup model). *)
Definition rep_conv (c : mcfg) (lookup_ok : bool) (k : conv) (r : rep) : res (option rep) :=
  match k, r with
  | CView, (RContig _ | RNcDec _ | RLkC _ | RLkN _) => Ok (Some r)
  | CClone, _ => Ok (Some r)
  | CGenEnc, _ => with_table c r (fun t => Ok (RNcEnc (ncenc_from_table t)))
  | CGenDec, _ => with_table c r (fun t => ncdec_from_table c t >>= fun m => Ok (RNcDec m))
  | CGenLookup, _ =>
      if lookup_ok then with_table c r (fun t => lkn_from_table c t >>= fun m => Ok (RLkN m))
      else Ok None
  | CToLookup, RContig m =>
      if lookup_ok then lkc_from_contig c m >>= fun l => Ok (Some (RLkC l)) else Ok None
  | CToLookup, RNcDec m =>
      if lookup_ok then with_table c r (fun t => lkn_from_table c t >>= fun m => Ok (RLkN m))
      else Ok None
  | (CAsCategorical | CIntoCategorical), RLkC m => Ok (Some (RContig (lkc_as_contig m)))
  | (CAsCategorical | CIntoCategorical), RLkN m => Ok (Some (RNcDec (lkn_as_ncdec m)))
  | _, _ => Ok None
  end.

Fixpoint rep_convs (c : mcfg) (lookup_ok : bool) (ks : list conv) (r : rep) : res (option rep) :=
  match ks with
  | [] => Ok (Some r)
  | k :: ks' =>
      rep_conv c lookup_ok k r >>= fun o =>
      match o with
      | None => Ok None
      | Some r' => rep_convs c lookup_ok ks' r'
      end
  end.
