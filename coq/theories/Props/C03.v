(* Props/C03.v -- every constructible entropy model is valid and exactly invertible.
   Statements only; proofs live in Proofs/.  GROUPS (further groups -- float quantisation,
   leaky quantiser -- are added to this file by their owners):
     C03_uniform_valid, C03_contiguous_valid, C03_noncontiguous_valid, C03_lookup_valid
   "valid" = [wf_model] of Model/EModel.v: tiling of [0,2^P) by non-empty intervals, no
   probability one, dec o enc exact; P = Probability::BITS included (wf_mcfg only asks
   0 < P <= PB). *)
From CV Require Import Base.Bits Model.EModel Model.MBase Model.Uniform Model.Tables Model.Lookup Model.Convert.
From CV Require Import Proofs.Table_lemmas Proofs.Models_base Proofs.Models_validator Proofs.Models_uniform
  Proofs.Models_conv Proofs.Models_valid Proofs.Models_props.
Open Scope N_scope.

(* ---- group C03_uniform_valid ---- *)
Theorem C03_uniform_valid : forall c range m,
  wf_mcfg_uniform c -> range < 2 ^ UB c ->
  uniform_new c range = Ok m -> wf_model (uniform_emodel c m).
Proof. exact p_uniform_valid. Qed.

(* ---- group C03_contiguous_valid ---- *)
(* [N.of_nat (length probs) < 2^UB]: the probabilities fit into memory (a Vec length is a usize) *)
Theorem C03_contiguous_valid : forall c probs infer m,
  wf_mcfg c -> probs_typed c probs -> N.of_nat (length probs) < 2 ^ UB c ->
  contig_from_probs c probs infer = Ok m -> wf_model (contig_emodel c m).
Proof. exact p_contig_valid. Qed.

(* ---- group C03_noncontiguous_valid ---- *)
(* encoder + decoder built from the same input (the encoder's acceptance implies that the
   symbols are distinct) *)
Theorem C03_noncontiguous_valid : forall c ss probs infer e d,
  wf_mcfg c -> probs_typed c probs ->
  ncenc_from_probs c ss probs infer = Ok e -> ncdec_from_probs c ss probs infer = Ok d ->
  wf_model (nc_emodel c e d).
Proof. exact p_noncontig_valid. Qed.

(* the decoder alone, paired with the encoder its own symbol table defines; needs distinct
   symbols as a HYPOTHESIS: the decoder constructor does not check it (known finding
   noncontig_decoder_duplicate_symbols, see C19_ncdec_accepts_duplicates_refuted) *)
Theorem C03_noncontiguous_decoder_valid : forall c ss probs infer d,
  wf_mcfg c -> probs_typed c probs -> NoDup ss -> ncdec_from_probs c ss probs infer = Ok d ->
  exists t, ncdec_table c d = Ok t /\ wf_table (PR c) t /\
            wf_model (dec_emodel (PR c) t (ncdec_dec c d)).
Proof. exact p_noncontig_decoder_valid. Qed.

(* ---- group C03_lookup_valid ---- *)
Theorem C03_lookup_valid : forall c probs infer m,
  wf_mcfg_lookup c -> probs_typed c probs -> lkc_from_probs c probs infer = Ok m ->
  exists t, lkc_table_of c m = Ok t /\ wf_table (PR c) t /\
            wf_model (dec_emodel (PR c) t (lkc_dec c m)).
Proof. exact p_lookup_valid. Qed.

Theorem C03_lookup_noncontiguous_valid : forall c ss probs infer m,
  wf_mcfg_lookup c -> probs_typed c probs -> NoDup ss -> lkn_from_probs c ss probs infer = Ok m ->
  exists t, lkn_table_of c m = Ok t /\ wf_table (PR c) t /\
            wf_model (dec_emodel (PR c) t (lkn_dec c m)).
Proof. exact p_lookup_noncontig_valid. Qed.

(* the symbol table of every accepted model is the well-formed table its input denotes *)
Theorem C03_models_symbol_table_wf : forall c base t,
  wf_mcfg c -> accepted c base t ->
  wf_table (PR c) t /\ forall rt, rep_table c base = Some rt -> rt = Ok t.
Proof. exact p_tables_wf. Qed.

(* the table lemma the above rest on (shared with C01) *)
Theorem C03_tables_are_models : forall P t, wf_table P t -> wf_model (table_model P t).
Proof. exact table_model_wf. Qed.

Check C03_uniform_valid : forall c range m,
  wf_mcfg_uniform c -> range < 2 ^ UB c ->
  uniform_new c range = Ok m -> wf_model (uniform_emodel c m).
Check C03_contiguous_valid : forall c probs infer m,
  wf_mcfg c -> probs_typed c probs -> N.of_nat (length probs) < 2 ^ UB c ->
  contig_from_probs c probs infer = Ok m -> wf_model (contig_emodel c m).
Check C03_noncontiguous_valid : forall c ss probs infer e d,
  wf_mcfg c -> probs_typed c probs ->
  ncenc_from_probs c ss probs infer = Ok e -> ncdec_from_probs c ss probs infer = Ok d ->
  wf_model (nc_emodel c e d).
Check C03_lookup_valid : forall c probs infer m,
  wf_mcfg_lookup c -> probs_typed c probs -> lkc_from_probs c probs infer = Ok m ->
  exists t, lkc_table_of c m = Ok t /\ wf_table (PR c) t /\
            wf_model (dec_emodel (PR c) t (lkc_dec c m)).

(* ---- non-vacuity: concrete accepted models, also at PRECISION = Probability::BITS ---- *)
Definition c8_8 : mcfg := {| PB := 8; UB := 64; PR := 8 |}.
Definition c16_12 : mcfg := {| PB := 16; UB := 64; PR := 12 |}.
Example ex_cfgs : wf_mcfg_uniform c8_8 /\ wf_mcfg_lookup c8_8 /\ wf_mcfg_uniform c16_12 /\ wf_mcfg_lookup c16_12.
Proof. unfold wf_mcfg_uniform, wf_mcfg_lookup, wf_mcfg; cbn. lia. Qed.
Example ex_uniform_full_precision : exists m, uniform_new c8_8 7 = Ok m /\ uniform_table c8_8 m =
  Ok [(0%Z, 0, 36); (1%Z, 36, 36); (2%Z, 72, 36); (3%Z, 108, 36); (4%Z, 144, 36); (5%Z, 180, 36); (6%Z, 216, 40)].
Proof. eexists. split; [vm_compute; reflexivity|]. vm_compute. reflexivity. Qed.
Example ex_uniform_256 : exists m, uniform_new c8_8 256 = Ok m /\ uniform_lcp c8_8 m 255 = Ok (Some (255, 1)).
Proof. eexists. split; [vm_compute; reflexivity|]. vm_compute. reflexivity. Qed.
Example ex_contig_wrap : exists m, contig_from_probs c8_8 [255; 1] false = Ok m /\ m = [0; 255; 0]
  /\ contig_quant c8_8 m 255 = Ok (1, 255, 1).
Proof. eexists. split; [vm_compute; reflexivity|]. split; vm_compute; reflexivity. Qed.
Example ex_contig_infer_full_precision : contig_from_probs c8_8 [100; 100] true = Ok [0; 100; 200; 0].
Proof. vm_compute. reflexivity. Qed.
Example ex_nc : exists e d, ncenc_from_probs c16_12 [7; (-3); 65536]%Z [1; 4094; 1] false = Ok e
  /\ ncdec_from_probs c16_12 [7; (-3); 65536]%Z [1; 4094; 1] false = Ok d
  /\ ncdec_quant c16_12 d 4094 = Ok ((-3)%Z, 1, 4094).
Proof. eexists. eexists. split; [vm_compute; reflexivity|]. split; [vm_compute; reflexivity|]. vm_compute. reflexivity. Qed.
Example ex_lookup : exists m, lkc_from_probs c8_8 [1; 254; 1] false = Ok m
  /\ lkc_quant c8_8 m 255 = Ok (2, 255, 1).
Proof. eexists. split; [vm_compute; reflexivity|]. vm_compute. reflexivity. Qed.

Print Assumptions C03_uniform_valid.
Print Assumptions C03_contiguous_valid.
Print Assumptions C03_noncontiguous_valid.
Print Assumptions C03_noncontiguous_decoder_valid.
Print Assumptions C03_lookup_valid.
Print Assumptions C03_lookup_noncontiguous_valid.
Print Assumptions C03_models_symbol_table_wf.
Print Assumptions C03_tables_are_models.
