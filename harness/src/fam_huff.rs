//! Family `huff`: Huffman codebooks (C15; index obligations of C20; rejection part of C09).
//! Input / output format: see /verif/lib/fam_huff.py (generator) and
//! coq/theories/Corr/Huff_run.v (model runner); the three must agree.
//!
//! input : kind n w_0 .. w_{n-1} ops..
//!   kind 0/1/2 = u8/u32/u64 weights (from_probabilities), 3/4 = f32/f64 weights given as IEEE
//!   bit patterns (from_float_probabilities)
//! output: <enc status> <dec status> (0 | -6 NanError; if either is an error the case ends), then
//!   per op:
//!   1 s          encode_symbol_suffix                      -> -1 | len bits..
//!   2 s          encode_symbol_prefix                      -> -1 | len bits..
//!   3 k s.. e    QueueEncoder<u32>: encode_iid_symbols     -> 0 | -1, then into_decoder and
//!                k+e times decode_symbol                   -> sym | -5 each
//!   4 k s.. e    StackCoder<u32>: encode_iid_symbols_reverse -> 0 | -1, then k+e times
//!                decode_symbol on the same coder           -> sym | -5 each
//!   5 k b..      decode_symbol from an explicit bit iterator -> (sym | -5) consumed
//!   6            num_symbols of encoder tree, of decoder tree
//!   7            for every s < encoder.num_symbols(): suffix form, prefix form (len bits..),
//!                single-symbol round trip on a queue (sym | -5 | -1), on a stack (sym | -5 | -1),
//!                stack coder empty afterwards (0/1)
use crate::common::*;
use constriction::symbol::huffman::{DecoderHuffmanTree, EncoderHuffmanTree};
use constriction::symbol::{
    DecoderCodebook, EncoderCodebook, QueueEncoder, ReadBitStream, StackCoder, WriteBitStream,
};
use constriction::CoderError;
use core::convert::Infallible;

pub const ERR_IMPOSSIBLE: Int = -1;
pub const ERR_OUT_OF_DATA: Int = -5;
pub const ERR_NAN: Int = -6;

fn push_bits(out: &mut Vec<Int>, res: Result<Vec<bool>, ()>) {
    match res {
        Ok(bits) => {
            out.push(bits.len() as Int);
            out.extend(bits.iter().map(|&b| b as Int));
        }
        Err(()) => out.push(ERR_IMPOSSIBLE),
    }
}

fn suffix(enc: &EncoderHuffmanTree, s: usize) -> Result<Vec<bool>, ()> {
    let mut bits = Vec::new();
    match enc.encode_symbol_suffix(s, |b| {
        bits.push(b);
        Ok::<(), Infallible>(())
    }) {
        Ok(()) => Ok(bits),
        Err(CoderError::Frontend(_)) => Err(()),
        Err(CoderError::Backend(e)) => match e {},
    }
}

fn prefix(enc: &EncoderHuffmanTree, s: usize) -> Result<Vec<bool>, ()> {
    let mut bits = Vec::new();
    match enc.encode_symbol_prefix(s, |b| {
        bits.push(b);
        Ok::<(), Infallible>(())
    }) {
        Ok(()) => Ok(bits),
        Err(CoderError::Frontend(_)) => Err(()),
        Err(CoderError::Backend(e)) => match e {},
    }
}

fn dec_res<B>(
    res: Result<usize, CoderError<constriction::symbol::SymbolCodeError<Infallible>, B>>,
) -> Int {
    match res {
        Ok(s) => s as Int,
        Err(CoderError::Frontend(constriction::symbol::SymbolCodeError::OutOfCompressedData)) => {
            ERR_OUT_OF_DATA
        }
        Err(CoderError::Frontend(constriction::symbol::SymbolCodeError::InvalidCodeword(e))) => {
            match e {}
        }
        Err(CoderError::Backend(_)) => panic!("harness: backend error"),
    }
}

fn ops(enc: &EncoderHuffmanTree, dec: &DecoderHuffmanTree, r: &mut Reader, out: &mut Vec<Int>) {
    while !r.done() {
        let op = r.next();
        match op {
            1 => {
                let s = r.us();
                push_bits(out, suffix(enc, s));
            }
            2 => {
                let s = r.us();
                push_bits(out, prefix(enc, s));
            }
            3 => {
                let syms: Vec<usize> = r.list().into_iter().map(|x| x as usize).collect();
                let extra = r.us();
                let mut q = QueueEncoder::<u32, Vec<u32>>::new();
                let res = q.encode_iid_symbols(syms.iter(), enc);
                out.push(match res {
                    Ok(()) => 0,
                    Err(CoderError::Frontend(_)) => ERR_IMPOSSIBLE,
                    Err(CoderError::Backend(e)) => match e {},
                });
                let mut d = q.into_decoder().unwrap();
                for _ in 0..syms.len() + extra {
                    out.push(dec_res(d.decode_symbol(dec)));
                }
            }
            4 => {
                let syms: Vec<usize> = r.list().into_iter().map(|x| x as usize).collect();
                let extra = r.us();
                let mut st = StackCoder::<u32, Vec<u32>>::new();
                let res = st.encode_iid_symbols_reverse(syms.iter(), enc);
                out.push(match res {
                    Ok(()) => 0,
                    Err(CoderError::Frontend(_)) => ERR_IMPOSSIBLE,
                    Err(CoderError::Backend(e)) => match e {},
                });
                for _ in 0..syms.len() + extra {
                    out.push(dec_res(st.decode_symbol(dec)));
                }
            }
            5 => {
                let bits: Vec<bool> = r.list().into_iter().map(|x| x != 0).collect();
                let mut it = bits.iter().map(|&b| Ok::<bool, Infallible>(b));
                let res = dec.decode_symbol(&mut it);
                out.push(dec_res(res));
                out.push((bits.len() - it.len()) as Int);
            }
            6 => {
                out.push(enc.num_symbols() as Int);
                out.push(dec.num_symbols() as Int);
            }
            7 => {
                for s in 0..enc.num_symbols() {
                    push_bits(out, suffix(enc, s));
                    push_bits(out, prefix(enc, s));
                    let mut q = QueueEncoder::<u32, Vec<u32>>::new();
                    match q.encode_symbol(s, enc) {
                        Ok(()) => {
                            let mut d = q.into_decoder().unwrap();
                            out.push(dec_res(d.decode_symbol(dec)));
                        }
                        Err(_) => out.push(ERR_IMPOSSIBLE),
                    }
                    let mut st = StackCoder::<u32, Vec<u32>>::new();
                    match st.encode_symbol(s, enc) {
                        Ok(()) => {
                            out.push(dec_res(st.decode_symbol(dec)));
                        }
                        Err(_) => out.push(ERR_IMPOSSIBLE),
                    }
                    out.push(st.is_empty() as Int);
                }
            }
            other => panic!("harness: unknown huff op {}", other),
        }
    }
}

macro_rules! int_kind {
    ($T:ty, $r:expr, $out:expr) => {{
        let ws: Vec<$T> = $r.list().into_iter().map(|x| x as $T).collect();
        let enc = EncoderHuffmanTree::from_probabilities::<$T, _>(&ws);
        let dec = DecoderHuffmanTree::from_probabilities::<$T, _>(&ws);
        $out.push(0);
        $out.push(0);
        ops(&enc, &dec, $r, $out);
    }};
}

macro_rules! float_kind {
    ($T:ty, $B:ty, $r:expr, $out:expr) => {{
        let ws: Vec<$T> = $r.list().into_iter().map(|x| <$T>::from_bits(x as $B)).collect();
        let enc = EncoderHuffmanTree::from_float_probabilities::<$T, _>(&ws);
        let dec = DecoderHuffmanTree::from_float_probabilities::<$T, _>(&ws);
        $out.push(if enc.is_ok() { 0 } else { ERR_NAN });
        $out.push(if dec.is_ok() { 0 } else { ERR_NAN });
        if let (Ok(enc), Ok(dec)) = (enc, dec) {
            ops(&enc, &dec, $r, $out);
        }
    }};
}

pub fn run(r: &mut Reader, out: &mut Vec<Int>) {
    let kind = r.next();
    match kind {
        0 => int_kind!(u8, r, out),
        1 => int_kind!(u32, r, out),
        2 => int_kind!(u64, r, out),
        3 => float_kind!(f32, u32, r, out),
        4 => float_kind!(f64, u64, r, out),
        _ => panic!("harness: huff kind {} not in menu", kind),
    }
}
