(* Props/C09_ans.v -- impossible symbols and failed writes leave the ANS coder intact. *)
From CV Require Import Base.Bits Model.EModel Model.Ans Proofs.Ans_lemmas Proofs.Ans_extra.
Open Scope N_scope.

(* a symbol outside the model's support is rejected; the result carries no new coder, i.e. the
   caller keeps the old one (the model lookup precedes every mutation, stack.rs:983-985) *)
Theorem C09_ans_impossible : forall c m s a, em_enc m s = None -> ans_encode_sym c m s a = None.
Proof. exact ans_encode_impossible. Qed.

(* bounded sink: the only outcomes are Ok (= the unbounded result), ImpossibleSymbol, BackendFull;
   the latter two return no new coder; capacity is never exceeded; with room left the bounded
   coder is the unbounded one -- so after a failure encoding continues as if the failed call had
   not happened and everything encoded before still decodes (C01) *)
Theorem C09_ans_bounded_ok : forall c cap m s a a',
  ans_encode_cap c cap m s a = EncOk a' -> ans_encode_sym c m s a = Some a'.
Proof. exact ans_encode_cap_ok. Qed.

Theorem C09_ans_bounded_room : forall c cap m s a,
  N.of_nat (length (bulk a)) < cap ->
  ans_encode_cap c cap m s a =
  match ans_encode_sym c m s a with Some a' => EncOk a' | None => EncImpossible end.
Proof. exact ans_encode_cap_room. Qed.

Theorem C09_ans_bounded_capacity : forall c cap m s a a',
  N.of_nat (length (bulk a)) <= cap ->
  ans_encode_cap c cap m s a = EncOk a' -> N.of_nat (length (bulk a')) <= cap.
Proof. exact ans_encode_cap_bound. Qed.

Print Assumptions C09_ans_impossible.
Print Assumptions C09_ans_bounded_ok.
Print Assumptions C09_ans_bounded_room.
Print Assumptions C09_ans_bounded_capacity.
