(* Proofs/Models_validator.v -- accumulate_nonzero_probabilities: what it accepts (exactly the
   well-formed tables, at every precision incl. PRECISION = Probability::BITS, with and without
   infer_last_probability) and what it does to the caller's state. *)
From CV Require Import Base.Bits Model.EModel Model.MBase Model.Tables Proofs.Models_base.
Open Scope N_scope.
Set Default Timeout 30.

Fixpoint zerosN (l : list N) : N :=
  match l with [] => 0 | p :: r => (if p =? 0 then 1 else 0) + zerosN r end.

Lemma zerosN_0 l : zerosN l = 0 <-> all_pos l.
Proof.
  unfold all_pos. induction l as [|p r IH]; cbn [zerosN]; [split; [constructor|reflexivity]|].
  split.
  - intros H. destruct (N.eqb_spec p 0); [lia|]. constructor; [lia|]. apply IH. lia.
  - intros H. inversion H; subst. destruct (N.eqb_spec p 0); [lia|]. apply IH in H3. lia.
Qed.

Lemma sumN_0_zeros l : sumN l = 0 -> zerosN l = lenN l.
Proof.
  unfold lenN. induction l as [|p r IH]; cbn [sumN zerosN length]; [reflexivity|].
  intros H. assert (p = 0) by lia. subst. rewrite IH by lia.
  rewrite Nat2N.inj_succ. change (0 =? 0) with true. cbv iota. lia.
Qed.

Lemma lenN_app {A} (a b : list A) : lenN (a ++ b) = lenN a + lenN b.
Proof. unfold lenN. rewrite app_length. lia. Qed.

Lemma lenN_cons {A} (x : A) l : lenN (x :: l) = 1 + lenN l.
Proof. unfold lenN. cbn [length]. lia. Qed.

(* the ideal run: every probability is handed to [op] with its exact left cumulative *)
Fixpoint fold_op {St : Type} (op : St -> Z -> N -> N -> res St) (st : St) (syms : symsrc)
    (start : N) (probs : list N) : res (symsrc * St) :=
  match probs with
  | [] => Ok (syms, st)
  | p :: r =>
      match src_next syms with
      | None => Fail E_ERR
      | Some (s, syms') => op st s start p >>= fun st' => fold_op op st' syms' (start + p) r
      end
  end.

Lemma fold_op_app {St} (op : St -> Z -> N -> N -> res St) a b st syms start :
  fold_op op st syms start (a ++ b) =
  fold_op op st syms start a >>= fun '(sy, st') => fold_op op st' sy (start + sumN a) b.
Proof.
  revert st syms start. induction a as [|p r IH]; intros st syms start; cbn [app fold_op sumN].
  - cbn. rewrite N.add_0_r. reflexivity.
  - destruct (src_next syms) as [[s sy]|]; [|reflexivity].
    destruct (op st s start p) as [st'|e]; cbn [bind]; [|reflexivity].
    rewrite IH. rewrite N.add_assoc. reflexivity.
Qed.

Definition full_probs (c : mcfg) (probs : list N) (infer : bool) : list N :=
  if infer then probs ++ [2 ^ PR c - sumN probs] else probs.

Section Acc.
  Context {St : Type}.
  Variable c : mcfg.
  Variable op : St -> Z -> N -> N -> res St.
  Let M := 2 ^ PB c.

  Lemma M_pos : 0 < M.
  Proof. apply pow2_pos. Qed.

  Lemma accum_loop_counters : forall probs syms laps num S st syms' laps' num' accum' st',
    Forall (fun p => p < M) probs ->
    accum_loop c op probs syms laps num (S mod M) st = Ok (syms', laps', num', accum', st') ->
    accum' = (S + sumN probs) mod M /\ num' = num + lenN probs /\
    laps' + S / M = laps + zerosN probs + (S + sumN probs) / M.
  Proof.
    induction probs as [|p r IH]; intros syms laps num S st syms' laps' num' accum' st' HF H.
    - cbn in H. inversion H; subst. cbn [sumN zerosN]. rewrite N.add_0_r. unfold lenN. cbn. lia.
    - cbn [accum_loop] in H. inversion HF as [|? ? Hp HF']; subst.
      destruct (src_next syms) as [[s sy]|]; [|discriminate].
      inv_bind H. fold M in H. rewrite wadd_mod in H. fold M in H.
      destruct (IH _ _ _ _ _ _ _ _ _ _ HF' H) as (Hac & Hn & Hl).
      cbn [sumN zerosN]. rewrite lenN_cons.
      replace (S + (p + sumN r)) with (S + p + sumN r) by lia.
      split; [exact Hac|]. split; [lia|].
      pose proof (laps_step M S p M_pos Hp) as Hs.
      rewrite N.add_mod_idemp_l in Hs by (pose proof M_pos; lia).
      lia.
  Qed.

  Definition drop5 (r : res (symsrc * N * N * N * St)) : res (symsrc * St) :=
    r >>= fun '(sy, _, _, _, st) => Ok (sy, st).

  Lemma accum_loop_fold : forall probs syms laps num S st,
    all_pos probs -> S + sumN probs <= M ->
    drop5 (accum_loop c op probs syms laps num (S mod M) st) = fold_op op st syms S probs.
  Proof.
    induction probs as [|p r IH]; intros syms laps num S st Hpos Hle; [reflexivity|].
    cbn [accum_loop fold_op]. inversion Hpos as [|? ? Hp Hpos']; subst. cbn [sumN] in Hle.
    destruct (src_next syms) as [[s sy]|]; [|reflexivity].
    rewrite (N.mod_small S M) by lia.
    destruct (op st s S p) as [st'|e]; cbn [bind]; [|reflexivity].
    fold M. replace (wadd (PB c) S p) with ((S + p) mod M).
    2:{ unfold wadd, trunc. reflexivity. }
    apply IH; [assumption|lia].
  Qed.

  Hypothesis Hc : wf_mcfg c.

  Lemma total_le_M : 2 ^ PR c <= M.
  Proof. apply pow2_le. apply Hc. Qed.

  (* SOUNDNESS: whatever is accepted is a well-formed table *)
  Lemma accumulate_accepts_valid probs syms infer st r :
    Forall (fun p => p < M) probs ->
    accumulate c op probs syms infer st = Ok r ->
    valid_probs (PR c) (full_probs c probs infer).
  Proof.
    intros HF H. unfold accumulate in H. inv_bind H.
    destruct a as [[[[sy l] n] a] s].
    replace 0 with (0 mod M) in Ha at 3 by (apply N.mod_0_l; pose proof M_pos; lia).
    destruct (accum_loop_counters _ _ _ _ _ _ _ _ _ _ _ HF Ha) as (Hacc & Hn & Hl).
    rewrite N.add_0_l in *. rewrite (N.div_small 0 M) in Hl by apply M_pos.
    rewrite N.add_0_r, N.add_0_l in Hl.
    pose proof total_le_M as HT. pose proof M_pos as HM. destruct Hc as [HP0 HPle].
    pose proof (N.div_mod (sumN probs) M ltac:(lia)) as Hdm.
    pose proof (N.mod_lt (sumN probs) M ltac:(lia)) as Hml.
    assert (HTM : PR c = PB c -> 2 ^ PR c = M) by (intros ->; reflexivity).
    assert (HTlt : PR c <> PB c -> wpow2 (PB c) (PR c) = 2 ^ PR c) by (intros; apply wpow2_lt; lia).
    assert (HT0 : PR c = PB c -> wpow2 (PB c) (PR c) = 0) by (intros ->; apply wpow2_same).
    pose proof (zerosN_0 probs) as Hz0. pose proof (sumN_0_zeros probs) as Hs0.
    assert (Hlenn : n = N.of_nat (length probs)) by exact Hn.
    set (d := sumN probs / M) in *. set (md := sumN probs mod M) in *.
    clearbody d md. clear Ha Hn.
    unfold full_probs, valid_probs.
    destruct infer.
    - (* infer_last_probability *)
      destruct (negb (PR c =? PB c) && (wpow2 (PB c) (PR c) <=? a)) eqn:Eex; cbn [orb] in H; [discriminate|].
      destruct (N.eqb_spec l 0) as [Hl0|]; cbn [negb orb] in H; [|discriminate].
      destruct (N.eqb_spec n 0) as [|Hn0]; [discriminate|].
      assert (Hz : zerosN probs = 0) by lia. assert (Hd : d = 0) by lia.
      subst d. rewrite N.mul_0_r, N.add_0_l in Hdm.
      assert (Hsum : sumN probs < 2 ^ PR c).
      { destruct (N.eqb_spec (PR c) (PB c)) as [Heq|Hne].
        - rewrite (HTM Heq). lia.
        - cbn [negb andb] in Eex. apply N.leb_gt in Eex. rewrite (HTlt Hne) in Eex. lia. }
      apply Hz0 in Hz.
      split; [|split].
      + apply all_pos_app. split; [exact Hz|]. constructor; [lia|constructor].
      + rewrite sumN_app. cbn [sumN]. lia.
      + rewrite app_length. cbn [length]. lia.
    - destruct (N.eqb_spec a (wpow2 (PB c) (PR c))) as [Ha0|]; cbn [negb orb] in H; [|discriminate].
      destruct (N.eqb_spec l (if PR c =? PB c then 1 else 0)) as [Hl0|]; cbn [negb orb] in H; [|discriminate].
      destruct (N.ltb_spec n 2) as [|Hn2]; [discriminate|].
      assert (Hlen : (2 <= length probs)%nat) by lia.
      destruct (N.eqb_spec (PR c) (PB c)) as [Heq|Hne].
      + (* PRECISION = Probability::BITS: exactly one lap, no zero *)
        rewrite (HT0 Heq) in Ha0. rewrite (HTM Heq).
        assert (Hz : zerosN probs = 0).
        { destruct (N.eq_dec d 0) as [Hd|Hd]; [|lia].
          exfalso. subst d. assert (sumN probs = 0) by lia.
          specialize (Hs0 H0). unfold lenN in Hs0. lia. }
        split; [apply Hz0; exact Hz|]. split; [|exact Hlen].
        assert (d = 1) by lia. subst d. lia.
      + rewrite (HTlt Hne) in Ha0.
        assert (Hz : zerosN probs = 0) by lia. assert (Hd : d = 0) by lia. subst d.
        split; [apply Hz0; exact Hz|]. split; [|exact Hlen]. lia.
  Qed.

  Lemma valid_lt_M probs : valid_probs (PR c) probs -> Forall (fun p => p < M) probs.
  Proof.
    intros (Hpos & Hsum & Hlen). pose proof total_le_M as HT.
    destruct probs as [|p1 [|p2 r]]; cbn in Hlen; try lia.
    inversion Hpos as [|? ? H1 Hpos']; subst. inversion Hpos' as [|? ? H2 Hpos'']; subst.
    cbn [sumN] in Hsum.
    constructor; [lia|]. constructor; [lia|].
    apply Forall_forall. intros x Hx.
    assert (x <= sumN r).
    { clear - Hx. induction r as [|y r IH]; [contradiction|]. cbn [sumN].
      destruct Hx as [->|Hx]; [lia|]. specialize (IH Hx). lia. }
    lia.
  Qed.

  (* COMPLETENESS (and what happens to the caller's state): on a well-formed table the
     validator is exactly the ideal run *)
  Lemma accumulate_valid_eq probs syms infer st :
    valid_probs (PR c) (full_probs c probs infer) ->
    accumulate c op probs syms infer st = fold_op op st syms 0 (full_probs c probs infer).
  Proof.
    intros Hv. pose proof total_le_M as HT. pose proof M_pos as HM. destruct Hc as [HP0 HPle].
    pose proof (valid_lt_M _ Hv) as HFfull.
    assert (Hpos : all_pos probs /\ sumN probs <= 2 ^ PR c /\ Forall (fun p => p < M) probs).
    { destruct Hv as (Hpos & Hsum & _). unfold full_probs in *. destruct infer.
      - apply all_pos_app in Hpos. rewrite sumN_app in Hsum. cbn [sumN] in Hsum.
        apply Forall_app in HFfull. destruct Hpos, HFfull. split; [assumption|]. split; [lia|assumption].
      - split; [assumption|]. split; [lia|assumption]. }
    destruct Hpos as (Hpos & Hsle & HF).
    unfold accumulate.
    pose proof (accum_loop_fold probs syms 0 0 0 st Hpos ltac:(lia)) as Hfold.
    rewrite (N.mod_0_l M) in Hfold by lia.
    destruct (accum_loop c op probs syms 0 0 0 st) as [[[[[sy l] n] a] s]|e] eqn:Eloop.
    2:{ cbn [bind]. cbn in Hfold. unfold full_probs. destruct infer; [|auto].
        rewrite fold_op_app, <- Hfold. reflexivity. }
    cbn [bind]. cbn in Hfold.
    replace 0 with (0 mod M) in Eloop at 3 by (apply N.mod_0_l; lia).
    destruct (accum_loop_counters _ _ _ _ _ _ _ _ _ _ _ HF Eloop) as (Hacc & Hn & Hl).
    rewrite N.add_0_l in *. rewrite (N.div_small 0 M) in Hl by lia.
    rewrite N.add_0_r, N.add_0_l in Hl.
    assert (Hz : zerosN probs = 0) by (apply zerosN_0; exact Hpos).
    destruct Hv as (Hposf & Hsumf & Hlenf). unfold full_probs in *.
    destruct infer.
    - rewrite sumN_app in Hsumf. cbn [sumN] in Hsumf. rewrite app_length in Hlenf. cbn [length] in Hlenf.
      apply all_pos_app in Hposf. destruct Hposf as [_ Hlast]. inversion Hlast as [|? ? Hlp _]; subst.
      assert (Hslt : sumN probs < 2 ^ PR c) by lia.
      assert (Hmod : sumN probs mod M = sumN probs) by (apply N.mod_small; lia).
      rewrite Hmod in *.
      assert (Hd : sumN probs / M = 0) by (apply N.div_small; lia).
      assert (Hspos : 0 < sumN probs).
      { pose proof (all_pos_len_le probs Hpos). lia. }
      assert (Eex : negb (PR c =? PB c) && (wpow2 (PB c) (PR c) <=? sumN probs) = false).
      { destruct (N.eqb_spec (PR c) (PB c)); [reflexivity|]. cbn [negb andb].
        rewrite wpow2_lt by lia. apply N.leb_gt. exact Hslt. }
      rewrite Hz, Hd, N.add_0_l. rewrite Eex. cbn [orb negb]. rewrite N.eqb_refl. cbn [negb orb].
      destruct (N.eqb_spec (lenN probs) 0) as [E0|_]; [unfold lenN in E0; lia|].
      rewrite fold_op_app, <- Hfold. cbn [bind fold_op]. rewrite N.add_0_l.
      destruct (src_next sy) as [[s0 sy']|]; [|reflexivity].
      rewrite wsub_pow; [reflexivity|lia|lia|right; exact Hspos].
    - assert (Hacc' : a = wpow2 (PB c) (PR c)).
      { rewrite wpow2_eq by exact HPle. rewrite Hacc, Hsumf. reflexivity. }
      rewrite Hacc'. rewrite N.eqb_refl. cbn [negb orb].
      assert (Hd : sumN probs / M = if PR c =? PB c then 1 else 0).
      { rewrite Hsumf. destruct (N.eqb_spec (PR c) (PB c)) as [Heq|Hne].
        - rewrite Heq. apply N.div_same. lia.
        - apply N.div_small. apply pow2_lt. lia. }
      assert (l = if PR c =? PB c then 1 else 0) as -> by (rewrite Hl, Hz, Hd; lia).
      rewrite N.eqb_refl. cbn [negb orb].
      destruct (N.ltb_spec n 2) as [Hlt|_]; [unfold lenN in Hn; lia|].
      rewrite <- Hfold. reflexivity.
  Qed.

  (* the two together: acceptance = well-formedness + the ideal run succeeds *)
  Lemma accumulate_ok_iff probs syms infer st r :
    Forall (fun p => p < M) probs ->
    (accumulate c op probs syms infer st = Ok r <->
     valid_probs (PR c) (full_probs c probs infer) /\
     fold_op op st syms 0 (full_probs c probs infer) = Ok r).
  Proof.
    intros HF. split.
    - intros H. pose proof (accumulate_accepts_valid _ _ _ _ _ HF H) as Hv.
      split; [exact Hv|]. rewrite <- accumulate_valid_eq; assumption.
    - intros [Hv Hf]. rewrite accumulate_valid_eq; assumption.
  Qed.
End Acc.
