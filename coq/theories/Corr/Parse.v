(* Corr/Parse.v -- integer-list case format shared by the Rust harness and the
   model runners.  Executable glue only (validated by the correspondence itself). *)
From CV Require Export Base.Bits Model.EModel.
Open Scope Z_scope.

Definition zN (z : Z) : N := Z.to_N z.
Definition nZ (n : N) : Z := Z.of_N n.

Definition hdz (l : list Z) : Z := match l with x :: _ => x | [] => 0 end.

Fixpoint take_n (n : nat) (l : list Z) : list Z * list Z :=
  match n with
  | O => ([], l)
  | S n' => match l with
            | [] => ([], [])
            | x :: r => let '(a, b) := take_n n' r in (x :: a, b)
            end
  end.

(* length-prefixed list *)
Definition read_list (l : list Z) : list Z * list Z :=
  match l with
  | [] => ([], [])
  | n :: r => take_n (Z.to_nat n) r
  end.

Fixpoint read_entries (k : nat) (l : list Z) : table * list Z :=
  match k with
  | O => ([], l)
  | S k' => match l with
            | s :: c :: p :: r => let '(t, rest) := read_entries k' r in ((s, zN c, zN p) :: t, rest)
            | _ => ([], [])
            end
  end.

Definition rmodel := (N * table)%type.

Fixpoint read_models_n (n : nat) (l : list Z) : list rmodel * list Z :=
  match n with
  | O => ([], l)
  | S n' => match l with
            | P :: k :: r =>
                let '(t, r1) := read_entries (Z.to_nat k) r in
                let '(ms, r2) := read_models_n n' r1 in ((zN P, t) :: ms, r2)
            | _ => ([], [])
            end
  end.

Definition read_models (l : list Z) : list rmodel * list Z :=
  match l with
  | [] => ([], [])
  | n :: r => read_models_n (Z.to_nat n) r
  end.

Definition get_model (ms : list rmodel) (i : Z) : emodel :=
  let '(P, t) := nth (Z.to_nat i) ms (1%N, []) in table_model P t.

Definition list_eqb (a b : list Z) : bool :=
  if list_eq_dec Z.eq_dec a b then true else false.

Fixpoint list_eqbz (a b : list Z) : bool :=
  match a, b with
  | [], [] => true
  | x :: a', y :: b' => Z.eqb x y && list_eqbz a' b'
  | _, _ => false
  end.

(* indices (0-based) of the cases on which the model's output differs from the
   implementation's output *)
Fixpoint mismatches_from (run : list Z -> list Z) (i : N) (cs : list (list Z * list Z)) : list N :=
  match cs with
  | [] => []
  | (inp, exp) :: r =>
      if list_eqbz (run inp) exp then mismatches_from run (N.succ i) r
      else i :: mismatches_from run (N.succ i) r
  end.

Definition mismatches run cs := mismatches_from run 0%N cs.

Definition PANIC : Z := -999999.
