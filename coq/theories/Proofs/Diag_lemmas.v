(* Proofs/Diag_lemmas.v -- the diagnostics formulas of model.rs equal the textbook definitions.
   Real-number proofs (Coq Reals); the axioms of the standard library's real numbers are the
   only assumptions (listed by Print Assumptions in Props/C18_diag.v). *)
From Coq Require Import Reals Lra Lia.
From CV Require Import Model.EModel Model.Diag.
Set Default Timeout 30.
Local Open Scope R_scope.

(* ------------------------------------------------------------------ sums *)

Definition sumf {A} (f : A -> R) (l : list A) : R := fold_right (fun x acc => f x + acc) 0 l.

Lemma fold_left_Rplus l : forall a, fold_left Rplus l a = a + fold_right Rplus 0 l.
Proof.
  induction l as [|x l IH]; intros a; cbn [fold_left fold_right].
  - lra.
  - rewrite IH. lra.
Qed.

Lemma rsum_map {A} (f : A -> R) l : rsum (map f l) = sumf f l.
Proof.
  unfold rsum. rewrite fold_left_Rplus, Rplus_0_l.
  induction l as [|x l IH]; cbn [map fold_right sumf]; [reflexivity|].
  rewrite IH. reflexivity.
Qed.

Lemma sumf_scal {A} (f : A -> R) c l : sumf (fun x => c * f x) l = c * sumf f l.
Proof. induction l as [|x l IH]; cbn [sumf fold_right]; [lra|]. fold (sumf (fun x => c * f x) l). fold (sumf f l). rewrite IH. lra. Qed.

Lemma sumf_plus {A} (f g : A -> R) l : sumf (fun x => f x + g x) l = sumf f l + sumf g l.
Proof.
  induction l as [|x l IH]; cbn [sumf fold_right]; [lra|].
  fold (sumf (fun x => f x + g x) l). fold (sumf f l). fold (sumf g l). rewrite IH. lra.
Qed.

Lemma sumf_ext {A} (f g : A -> R) l : Forall (fun x => f x = g x) l -> sumf f l = sumf g l.
Proof.
  induction 1 as [|x l Hx _ IH]; cbn [sumf fold_right]; [reflexivity|].
  fold (sumf f l). fold (sumf g l). rewrite Hx, IH. reflexivity.
Qed.

(* ------------------------------------------------------------------ powers of two, log2 *)

Lemma two_pow_pow P : two_pow P = 2 ^ N.to_nat P.
Proof. unfold two_pow. rewrite pow_IZR. f_equal. f_equal. lia. Qed.

Lemma two_pow_pos P : 0 < two_pow P.
Proof. rewrite two_pow_pow. apply pow_lt. lra. Qed.

Lemma qR_pow2 P : qR (2 ^ P) = two_pow P.
Proof. unfold qR, two_pow. f_equal. rewrite N2Z.inj_pow. reflexivity. Qed.

Lemma qR_pos q : (0 < q)%N -> 0 < qR q.
Proof. intros H. unfold qR. apply IZR_lt. lia. Qed.

Lemma qR_nonneg q : 0 <= qR q.
Proof. unfold qR. apply IZR_le. lia. Qed.

Lemma whole_two_pow P : (0 < P)%N -> whole P = two_pow P.
Proof.
  intros HP. unfold whole. rewrite shiftl_mul, N.mul_1_l, qR_pow2, !two_pow_pow.
  replace (N.to_nat P) with (S (N.to_nat (P - 1))) by lia. cbn [pow]. lra.
Qed.

Lemma ln2_pos : 0 < ln 2.
Proof. pose proof ln_lt_2. lra. Qed.

Lemma log2R_two_pow P : log2R (two_pow P) = shiftR P.
Proof.
  unfold log2R, shiftR, qR. rewrite two_pow_pow, ln_pow by lra.
  rewrite INR_IZR_INZ, N_nat_Z. field. pose proof ln2_pos. lra.
Qed.

Lemma log2R_div x y : 0 < x -> 0 < y -> log2R (x / y) = log2R x - log2R y.
Proof.
  intros Hx Hy. unfold log2R. change (x / y) with (x * / y).
  rewrite ln_mult, ln_Rinv by (try apply Rinv_0_lt_compat; assumption).
  field. pose proof ln2_pos. lra.
Qed.

Lemma prob_pos P q : (0 < q)%N -> 0 < prob P q.
Proof. intros H. unfold prob. apply Rdiv_lt_0_compat; [apply qR_pos, H | apply two_pow_pos]. Qed.

Lemma log2R_prob P q : (0 < q)%N -> log2R (prob P q) = log2R (qR q) - shiftR P.
Proof.
  intros H. unfold prob. rewrite log2R_div by (try apply qR_pos; try apply two_pow_pos; assumption).
  rewrite log2R_two_pow. reflexivity.
Qed.

(* ------------------------------------------------------------------ what wf_table gives *)

Definition nsum (l : list N) : N := fold_right N.add 0%N l.

Lemma tiles_probs t : forall start total,
  tiles start total t -> Forall (fun q => (0 < q)%N) (probs t) /\ (start + nsum (probs t) = total)%N.
Proof.
  induction t as [|[[s c] p] r IH]; intros start total H; cbn [tiles probs map nsum fold_right] in *.
  - split; [constructor | lia].
  - destruct H as (_ & Hp & Hr). destruct (IH _ _ Hr) as (Hall & Hs). fold (probs r) in *. fold (nsum (probs r)) in *.
    split; [constructor; [exact Hp | exact Hall] | ].
    cbn [snd]. lia.
Qed.

Lemma sumf_qR l : sumf qR l = qR (nsum l).
Proof.
  induction l as [|x l IH]; cbn [sumf fold_right nsum]; [reflexivity|].
  fold (sumf qR l). fold (nsum l). rewrite IH. unfold qR. rewrite N2Z.inj_add, plus_IZR. reflexivity.
Qed.

Lemma wf_table_probs P t : wf_table P t ->
  (0 < P)%N /\ Forall (fun q => (0 < q)%N) (probs t) /\ sumf qR (probs t) = two_pow P.
Proof.
  intros (HP & Ht & _ & _). destruct (tiles_probs _ _ _ Ht) as (Hall & Hs).
  split; [exact HP|]. split; [exact Hall|].
  rewrite sumf_qR. rewrite N.add_0_l in Hs. rewrite Hs. apply qR_pow2.
Qed.

(* Forall over a zip *)
Lemma Forall_combine_l {A B} (Q : A -> Prop) (l : list A) : forall (m : list B),
  Forall Q l -> Forall (fun ab => Q (fst ab)) (combine l m).
Proof.
  induction l as [|a l IH]; intros m H; cbn [combine]; [constructor|].
  destruct m as [|b m]; [constructor|]. inversion H; subst. constructor; [assumption | apply IH; assumption].
Qed.

Lemma Forall_combine_r {A B} (Q : B -> Prop) (m : list B) : forall (l : list A),
  Forall Q m -> Forall (fun ab => Q (snd ab)) (combine l m).
Proof.
  induction m as [|b m IH]; intros l H; destruct l as [|a l]; cbn [combine]; try constructor.
  - inversion H; subst. assumption.
  - inversion H; subst. apply IH; assumption.
Qed.

Lemma Forall_and {A} (Q1 Q2 : A -> Prop) l : Forall Q1 l -> Forall Q2 l -> Forall (fun x => Q1 x /\ Q2 x) l.
Proof. induction 1; intros H2; inversion H2; subst; constructor; auto. Qed.

(* sums over a zip in terms of the components, when the lengths agree *)
Lemma sumf_combine_fst {A B} (f : A -> R) (l : list A) : forall (m : list B),
  length m = length l -> sumf (fun ab => f (fst ab)) (combine l m) = sumf f l.
Proof.
  induction l as [|a l IH]; intros m H; destruct m as [|b m]; cbn [length] in H; try discriminate; cbn [combine sumf fold_right]; [reflexivity|].
  fold (sumf (fun ab : A * B => f (fst ab)) (combine l m)). fold (sumf f l). rewrite IH by lia. reflexivity.
Qed.

Lemma sumf_combine_snd {A B} (f : B -> R) (l : list A) : forall (m : list B),
  length m = length l -> sumf (fun ab => f (snd ab)) (combine l m) = sumf f m.
Proof.
  induction l as [|a l IH]; intros m H; destruct m as [|b m]; cbn [length] in H; try discriminate; cbn [combine sumf fold_right]; [reflexivity|].
  fold (sumf (fun ab : A * B => f (snd ab)) (combine l m)). fold (sumf f m). rewrite IH by lia. reflexivity.
Qed.

Lemma probs_length t : length (probs t) = length t.
Proof. unfold probs. apply map_length. Qed.

(* ------------------------------------------------------------------ the five identities *)

Lemma entropy_eq P t : wf_table P t -> entropy_code P t = entropy_def P t.
Proof.
  intros H. destruct (wf_table_probs P t H) as (HP & Hpos & Hsum).
  unfold entropy_code, entropy_def. rewrite !rsum_map, (whole_two_pow P HP).
  rewrite (sumf_ext (fun q => prob P q * log2R (prob P q))
                    (fun q => / two_pow P * (qR q * log2R (qR q)) + (- shiftR P / two_pow P) * qR q)).
  2:{ eapply Forall_impl; [|exact Hpos]. cbv beta. intros q Hq. rewrite (log2R_prob P q Hq). unfold prob.
      field. pose proof (two_pow_pos P). lra. }
  rewrite sumf_plus, !sumf_scal, Hsum. field. pose proof (two_pow_pos P). lra.
Qed.

Lemma cross_entropy_eq P t p : wf_table P t -> length p = length t ->
  cross_entropy_code P t p = cross_entropy_def P t p.
Proof.
  intros H _. destruct (wf_table_probs P t H) as (HP & Hpos & Hsum).
  unfold cross_entropy_code, cross_entropy_def. rewrite !rsum_map.
  match goal with |- _ = - sumf ?g ?l => replace (- sumf g l) with ((-1) * sumf g l) by lra; rewrite <- (sumf_scal g (-1) l) end.
  apply sumf_ext. eapply Forall_impl; [|apply (Forall_combine_l _ _ p Hpos)].
  intros [q pi] Hq. cbn [fst] in Hq. rewrite (log2R_prob P q Hq). lra.
Qed.

Lemma reverse_cross_entropy_eq P t p : wf_table P t -> length p = length t -> Forall (fun x => 0 < x) p ->
  reverse_cross_entropy_code P t p = reverse_cross_entropy_def P t p.
Proof.
  intros H _ _. destruct (wf_table_probs P t H) as (HP & Hpos & Hsum).
  unfold reverse_cross_entropy_code, reverse_cross_entropy_def. rewrite !rsum_map, (whole_two_pow P HP).
  rewrite (sumf_ext (fun qp : N * R => let '(q, pi) := qp in prob P q * log2R pi)
                    (fun qp : N * R => / two_pow P * (let '(q, pi) := qp in qR q * log2R pi))).
  2:{ apply Forall_forall. intros [q pi] _. unfold prob. field. pose proof (two_pow_pos P). lra. }
  rewrite sumf_scal. field. pose proof (two_pow_pos P). lra.
Qed.

Lemma kl_eq P t p : wf_table P t -> length p = length t -> Forall (fun x => 0 <= x) p -> sumf (fun x => x) p = 1 ->
  kl_code P t p = kl_def P t p.
Proof.
  intros H Hlen Hnn Hone. destruct (wf_table_probs P t H) as (HP & Hpos & Hsum).
  unfold kl_code, kl_def. rewrite !rsum_map.
  assert (Hs : sumf (fun qp : N * R => snd qp) (combine (probs t) p) = 1).
  { rewrite (sumf_combine_snd (fun x => x)); [exact Hone | rewrite probs_length; exact Hlen]. }
  rewrite (sumf_ext (fun qp : N * R => let '(q, pi) := qp in if Req_EM_T pi 0 then 0 else pi * log2R (pi / prob P q))
                    (fun qp : N * R => (let '(q, pi) := qp in kl_term_code q pi) + shiftR P * snd qp)).
  2:{ eapply Forall_impl; [|apply Forall_and; [apply (Forall_combine_l _ _ p Hpos) | apply (Forall_combine_r _ _ (probs t) Hnn)]].
      intros [q pi] [Hq Hpi]. cbn [fst snd] in *. unfold kl_term_code.
      destruct (Req_EM_T pi 0) as [E|NE]; [subst; lra|].
      rewrite log2R_div by (try apply prob_pos; try assumption; lra).
      rewrite (log2R_prob P q Hq). lra. }
  rewrite sumf_plus, sumf_scal.
  replace (sumf snd (combine (probs t) p)) with 1 by (symmetry; exact Hs). lra.
Qed.

Lemma reverse_kl_eq P t p : wf_table P t -> length p = length t -> Forall (fun x => 0 < x) p ->
  reverse_kl_code P t p = reverse_kl_def P t p.
Proof.
  intros H Hlen Hp. destruct (wf_table_probs P t H) as (HP & Hpos & Hsum).
  unfold reverse_kl_code, reverse_kl_def. rewrite !rsum_map, (whole_two_pow P HP).
  assert (Hs : sumf (fun qp : N * R => qR (fst qp)) (combine (probs t) p) = two_pow P).
  { rewrite (sumf_combine_fst qR); [exact Hsum | rewrite probs_length; exact Hlen]. }
  rewrite (sumf_ext (fun qp : N * R => let '(q, pi) := qp in prob P q * log2R (prob P q / pi))
                    (fun qp : N * R => / two_pow P * (let '(q, pi) := qp in qR q * (log2R (qR q) - log2R pi))
                                       + (- shiftR P / two_pow P) * qR (fst qp))).
  2:{ eapply Forall_impl; [|apply Forall_and; [apply (Forall_combine_l _ _ p Hpos) | apply (Forall_combine_r _ _ (probs t) Hp)]].
      intros [q pi] [Hq Hpi]. cbn [fst snd] in *.
      rewrite log2R_div by (try apply prob_pos; assumption).
      rewrite (log2R_prob P q Hq). unfold prob. field. pose proof (two_pow_pos P). lra. }
  rewrite sumf_plus, !sumf_scal, Hs. field. pose proof (two_pow_pos P). lra.
Qed.

(* ------------------------------------------------------------------ floating-point view *)

Lemma fp_view_prob P q : (0 < P)%N -> fp_view P q = prob P q.
Proof. intros HP. unfold fp_view, prob. rewrite (whole_two_pow P HP). reflexivity. Qed.

From Flocq Require Import Core Binary Bits.

Lemma IZR_pow2 e : (0 <= e)%Z -> IZR (2 ^ e) = bpow radix2 e.
Proof. intros H. apply (IZR_Zpower radix2). exact H. Qed.

Lemma two_pow_bpow P : two_pow P = bpow radix2 (Z.of_N P).
Proof. unfold two_pow. apply IZR_pow2. lia. Qed.

Lemma prob_F2R P q : prob P q = F2R (Float radix2 (Z.of_N q) (- Z.of_N P)).
Proof.
  unfold prob, F2R, qR. cbn [Fnum Fexp]. rewrite two_pow_bpow, bpow_opp. reflexivity.
Qed.

(* q / 2^P is in the format with [prec] digits and minimal exponent [emin] (no rounding, no
   underflow) as soon as q < 2^prec and -P >= emin *)
Lemma prob_generic_format prec emin P q : (0 < prec)%Z ->
  (Z.of_N q < 2 ^ prec)%Z -> (emin <= - Z.of_N P)%Z ->
  generic_format radix2 (FLT_exp emin prec) (prob P q).
Proof.
  intros Hprec Hq HP. rewrite prob_F2R.
  apply generic_format_FLT. econstructor; [reflexivity | | ]; cbn [Fnum Fexp].
  - rewrite Z.abs_eq by lia. change (radix_val radix2) with 2%Z. exact Hq.
  - exact HP.
Qed.

Section Bits_sound.
  Variables mw ew : Z.
  Hypothesis Hmw : (0 < mw)%Z.
  Hypothesis Hew : (0 < ew)%Z.
  Let prec := (mw + 1)%Z.
  Let emax := (2 ^ (ew - 1))%Z.
  Let emin := (3 - emax - prec)%Z.
  Hypothesis Hmax : (prec < emax)%Z.

  Variables P q : N.
  Hypothesis Hq0 : (0 < q)%N.
  Hypothesis Hq : (Z.of_N q < 2 ^ prec)%Z.
  Hypothesis HP : (Z.of_N P <= emax - 2)%Z.

  Let l := Z.log2 (Z.of_N q).
  Let m := (Z.of_N q * 2 ^ (mw - l))%Z.
  Let e := (l - mw - Z.of_N P)%Z.

  Lemma bs_l : (0 <= l <= mw)%Z /\ (2 ^ l <= Z.of_N q < 2 ^ (l + 1))%Z.
  Proof.
    assert (H0 : (0 < Z.of_N q)%Z) by lia.
    pose proof (Z.log2_spec _ H0) as Hs. fold l in Hs. rewrite <- Z.add_1_r in Hs.
    pose proof (Z.log2_nonneg (Z.of_N q)) as Hn. fold l in Hn.
    split; [|exact Hs]. split; [exact Hn|].
    assert (Hlt : (l < prec)%Z). { apply Z.log2_lt_pow2; [exact H0 | exact Hq]. }
    unfold prec in Hlt. lia.
  Qed.

  Lemma bs_m : (2 ^ mw <= m < 2 ^ (mw + 1))%Z.
  Proof.
    destruct bs_l as ((Hl0 & Hl1) & Hlo & Hhi). unfold m.
    assert (Hp : (0 < 2 ^ (mw - l))%Z) by (apply Z.pow_pos_nonneg; lia).
    replace (2 ^ mw)%Z with (2 ^ l * 2 ^ (mw - l))%Z by (rewrite <- Z.pow_add_r by lia; f_equal; lia).
    replace (2 ^ (mw + 1))%Z with (2 ^ (l + 1) * 2 ^ (mw - l))%Z by (rewrite <- Z.pow_add_r by lia; f_equal; lia).
    split; [apply Z.mul_le_mono_nonneg_r; lia | apply Z.mul_lt_mono_pos_r; lia].
  Qed.

  Lemma bs_bounded : SpecFloat.bounded prec emax (Z.to_pos m) e = true.
  Proof.
    pose proof bs_m as (Hm0 & Hm1). destruct bs_l as ((Hl0 & Hl1) & _).
    assert (Hmpos : (0 < m)%Z). { pose proof (Z.pow_pos_nonneg 2 mw). lia. }
    assert (He1 : (1 <= emax)%Z). { unfold emax. pose proof (Z.pow_pos_nonneg 2 (ew - 1)). lia. }
    unfold SpecFloat.bounded, SpecFloat.canonical_mantissa. apply andb_true_intro. split.
    - apply Zeq_bool_true. rewrite Zpos_digits2_pos, Z2Pos.id by exact Hmpos.
      rewrite (Zdigits_unique radix2 m (mw + 1)).
      2:{ rewrite Z.abs_eq by lia. change (radix_val radix2) with 2%Z. replace (mw + 1 - 1)%Z with mw by lia. split; assumption. }
      unfold SpecFloat.fexp, SpecFloat.emin. fold prec. unfold e, prec. lia.
    - apply Zle_bool_true. unfold e, prec. clearbody emax l. lia.
  Qed.

  Definition bs_float : binary_float prec emax := B754_finite prec emax false (Z.to_pos m) e bs_bounded.

  Lemma bs_B2R : B2R prec emax bs_float = prob P q.
  Proof.
    destruct bs_l as ((Hl0 & Hl1) & _). pose proof bs_m as (Hm0 & _).
    assert (Hmpos : (0 < m)%Z). { pose proof (Z.pow_pos_nonneg 2 mw). lia. }
    unfold bs_float, B2R. cbn [cond_Zopp]. rewrite Z2Pos.id by exact Hmpos.
    rewrite prob_F2R. unfold F2R. cbn [Fnum Fexp]. unfold m, e.
    rewrite mult_IZR, IZR_pow2 by lia.
    rewrite Rmult_assoc, <- bpow_plus. f_equal. f_equal. lia.
  Qed.

  Lemma bs_bits : bits_of_binary_float mw ew bs_float = Z.of_N (ieee_bits (Z.to_N mw) (Z.to_N (emax - 1)) P q).
  Proof.
    destruct bs_l as ((Hl0 & Hl1) & Hlo & _). pose proof bs_m as (Hm0 & _).
    assert (Hmpos : (0 < m)%Z). { pose proof (Z.pow_pos_nonneg 2 mw). lia. }
    assert (He1 : (1 <= emax)%Z). { unfold emax. pose proof (Z.pow_pos_nonneg 2 (ew - 1)). lia. }
    unfold bs_float, bits_of_binary_float. rewrite Z2Pos.id by exact Hmpos.
    replace (0 <=? m - 2 ^ mw)%Z with true by (symmetry; apply Z.leb_le; lia).
    unfold join_bits. rewrite Z.shiftl_mul_pow2 by lia. fold emax. fold prec.
    unfold ieee_bits. replace (q =? 0)%N with false by (symmetry; apply N.eqb_neq; lia).
    assert (HlN : Z.of_N (N.log2 q) = l) by (unfold l; clear; destruct q as [|[p|p|]]; reflexivity).
    assert (HN1 : (N.log2 q <= Z.to_N mw)%N) by (apply N2Z.inj_le; rewrite HlN, Z2N.id; lia).
    assert (HN2 : (2 ^ Z.to_N mw <= q * 2 ^ (Z.to_N mw - N.log2 q))%N).
    { apply N2Z.inj_le. rewrite N2Z.inj_mul, !N2Z.inj_pow, N2Z.inj_sub, HlN, !Z2N.id by lia. exact Hm0. }
    assert (HN3 : (P <= Z.to_N (emax - 1) + N.log2 q)%N) by (apply N2Z.inj_le; rewrite N2Z.inj_add, HlN, Z2N.id; lia).
    rewrite N2Z.inj_add, N2Z.inj_mul, (N2Z.inj_sub _ P) by exact HN3.
    rewrite (N2Z.inj_sub _ (2 ^ Z.to_N mw)) by exact HN2.
    rewrite N2Z.inj_add, N2Z.inj_mul, !N2Z.inj_pow, N2Z.inj_sub by exact HN1.
    rewrite HlN, !Z2N.id by lia.
    unfold m, e, prec, SpecFloat.emin. change (Z.of_N 2) with 2%Z. ring.
  Qed.
End Bits_sound.

(* ------------------------------------------------------------------ glue for Props/C18_diag.v *)

Lemma rsum_sumf_id p : rsum p = sumf (fun x => x) p.
Proof. rewrite <- (map_id p) at 1. apply rsum_map. Qed.

Lemma fp_table_eq P t : (0 < P)%N ->
  fp_table P t = map (fun e : Z * N * N => let '(s, c, q) := e in (s, prob P c, prob P q)) t.
Proof.
  intros HP. unfold fp_table. apply map_ext. intros [[s c] q]. rewrite !(fp_view_prob P _ HP). reflexivity.
Qed.

Lemma float_view_exact P q : (0 < P)%N ->
  fp_view P q = qR q / two_pow P
  /\ ((q < 2 ^ 53)%N -> (P <= 1074)%N -> generic_format radix2 (FLT_exp (-1074) 53) (fp_view P q))
  /\ ((q < 2 ^ 24)%N -> (P <= 149)%N -> generic_format radix2 (FLT_exp (-149) 24) (fp_view P q)).
Proof.
  intros HP. rewrite (fp_view_prob P q HP). split; [reflexivity|]. split; intros Hq HP2.
  - apply prob_generic_format; [lia | | lia]. change (2 ^ 53)%Z with (Z.of_N (2 ^ 53)). lia.
  - apply prob_generic_format; [lia | | lia]. change (2 ^ 24)%Z with (Z.of_N (2 ^ 24)). lia.
Qed.

Lemma float_view_b64 P q : (0 < P <= 1022)%N -> (q < 2 ^ 53)%N ->
  exists x : binary64, is_finite 53 1024 x = true /\ B2R 53 1024 x = fp_view P q
                       /\ bits_of_b64 x = Z.of_N (b64_bits P q).
Proof.
  intros [HP0 HP] Hq. rewrite (fp_view_prob P q HP0).
  destruct (N.eq_dec q 0) as [E|NE].
  - subst q. exists (B754_zero 53 1024 false). split; [reflexivity|]. split; [|reflexivity].
    unfold prob, qR. cbn [B2R Z.of_N]. unfold Rdiv. rewrite Rmult_0_l. reflexivity.
  - assert (Hq0 : (0 < q)%N) by lia.
    assert (Hq' : (Z.of_N q < 2 ^ (52 + 1))%Z) by (change (2 ^ (52 + 1))%Z with (Z.of_N (2 ^ 53)); lia).
    assert (HP' : (Z.of_N P <= 2 ^ (11 - 1) - 2)%Z) by (change (2 ^ (11 - 1) - 2)%Z with 1022%Z; lia).
    exists (bs_float 52 11 eq_refl eq_refl eq_refl P q Hq0 Hq' HP').
    split; [reflexivity|]. split; [apply (bs_B2R 52 11 eq_refl eq_refl eq_refl P q Hq0 Hq' HP') | apply (bs_bits 52 11 eq_refl eq_refl eq_refl P q Hq0 Hq' HP')].
Qed.

Lemma float_view_b32 P q : (0 < P <= 126)%N -> (q < 2 ^ 24)%N ->
  exists x : binary32, is_finite 24 128 x = true /\ B2R 24 128 x = fp_view P q
                       /\ bits_of_b32 x = Z.of_N (b32_bits P q).
Proof.
  intros [HP0 HP] Hq. rewrite (fp_view_prob P q HP0).
  destruct (N.eq_dec q 0) as [E|NE].
  - subst q. exists (B754_zero 24 128 false). split; [reflexivity|]. split; [|reflexivity].
    unfold prob, qR. cbn [B2R Z.of_N]. unfold Rdiv. rewrite Rmult_0_l. reflexivity.
  - assert (Hq0 : (0 < q)%N) by lia.
    assert (Hq' : (Z.of_N q < 2 ^ (23 + 1))%Z) by (change (2 ^ (23 + 1))%Z with (Z.of_N (2 ^ 24)); lia).
    assert (HP' : (Z.of_N P <= 2 ^ (8 - 1) - 2)%Z) by (change (2 ^ (8 - 1) - 2)%Z with 126%Z; lia).
    exists (bs_float 23 8 eq_refl eq_refl eq_refl P q Hq0 Hq' HP').
    split; [reflexivity|]. split; [apply (bs_B2R 23 8 eq_refl eq_refl eq_refl P q Hq0 Hq' HP') | apply (bs_bits 23 8 eq_refl eq_refl eq_refl P q Hq0 Hq' HP')].
Qed.
