(* Props/C12_ans.v -- compressed size of the ANS coder within a proven overhead.
   Exact integer (product) form; taking log2 of both sides gives
     bits - WB <= (SB - WB) + sum_i (P_i - log2 p_i) + sum_i log2 (1 + 2^-(SB - WB - P_i)). *)
From CV Require Import Base.Bits Model.EModel Model.Ans Proofs.Ans_size.
Open Scope N_scope.

(* one symbol *)
Theorem C12_ans_growth : forall c P cum p a,
  wf_cfg c -> 0 < P -> P <= WB c -> wf_entry P cum p -> ans_inv c a ->
  ans_potential c (ans_encode c P cum p a) * (p * Kof c P)
  <= ans_potential c a * (2 ^ P * (Kof c P + 1)).
Proof. intros c P cum p a Hc. exact (ans_growth c Hc P cum p a). Qed.

(* n symbols from the empty coder: (2^WB)^(words-1) * prod (p_i K_i) <= 2^(SB-WB) * prod (2^P_i (K_i+1)) *)
Theorem C12_ans_size_bound : forall c l,
  wf_cfg c -> Forall (entry_ok c) l ->
  let a := encode_entries c l ans_empty in
  ans_words c a <> [] ->
  (2 ^ WB c) ^ N.of_nat (length (ans_words c a) - 1) * info_den c l <= 2 ^ (SB c - WB c) * info_num c l.
Proof. intros c l Hc. exact (ans_size_bound c Hc l). Qed.

(* number of words <= n + ceil(SB / WB) *)
Theorem C12_ans_words : forall c l,
  (length (ans_words c (encode_entries c l ans_empty)) <= length l + nchunks c)%nat.
Proof. exact ans_size_words. Qed.

Check C12_ans_size_bound : forall c l,
  wf_cfg c -> Forall (entry_ok c) l ->
  let a := encode_entries c l ans_empty in
  ans_words c a <> [] ->
  (2 ^ WB c) ^ N.of_nat (length (ans_words c a) - 1) * info_den c l <= 2 ^ (SB c - WB c) * info_num c l.

Print Assumptions C12_ans_growth.
Print Assumptions C12_ans_size_bound.
Print Assumptions C12_ans_words.
