(* Props/C20_cursor.v -- cursor part of C20 (no undefined behaviour): the two unchecked indexing
   sites of src/backends.rs (get_unchecked in ReadWords<Stack> for Cursor, get_unchecked_mut in
   WriteWords for Reverse<Cursor>) are checked operations in Model/Backend.v that return
   [UB_cursor_stack_read] / [UB_rev_cursor_write]; the plain usize subtractions return [OVF_*].
   Statements only; to be merged into Props/C20.v. *)
From CV Require Import Model.Backend.
From CV Require Import Proofs.Backend_cursor Proofs.Backend_history.
Open Scope nat_scope.

(* every public constructor establishes pos <= len; new_at_pos refuses exactly pos > len *)
Theorem C20_cursor_ctor_inv : forall b p,
  cursor_inv (cursor_new_at_write_beginning b) /\ cursor_inv (cursor_new_at_write_end b) /\
  (forall c, cursor_new_at_pos b p = Some c -> cursor_inv c /\ buf c = b /\ pos c = p) /\
  (length b < p <-> cursor_new_at_pos b p = None).
Proof.
  intros b p. split; [apply cursor_new_beginning_inv|]. split; [apply cursor_new_end_inv|].
  split; [apply cursor_new_at_pos_inv|apply cursor_new_at_pos_refuses].
Qed.

(* one operation (any trait method or view, on any backend, Reverse at any nesting) preserves the
   invariant and returns no UB_* / OVF_* fault *)
Theorem C20_cursor_step_no_ub : forall b o, bk_wf b -> op_safe o ->
  bk_wf (fst (bk_step b o)) /\ ~ out_is_fault (snd (bk_step b o)).
Proof. exact bk_step_wf. Qed.

(* hence no interleaving of those operations ever reaches an unchecked access out of bounds *)
Theorem C20_cursor_inv_preserved : forall ops b, bk_wf b -> Forall op_safe ops ->
  bk_wf (fst (bk_run b ops)) /\ Forall (fun x => ~ out_is_fault x) (snd (bk_run b ops)).
Proof. exact bk_run_wf. Qed.

(* the unsafe sites individually *)
Theorem C20_cursor_index_sites : forall c w, cursor_inv c ->
  (forall f, fst (cursor_read_stack c) <> RFault f) /\
  (forall f, fst (rcursor_write w c) <> WFault f) /\
  (forall f, cursor_space_left c <> QFault f) /\
  (forall f, cursor_remaining_queue c <> QFault f) /\
  (forall f, fst (cursor_reverse_in_place c) <> QFault f).
Proof.
  intros c w H. split; [apply cursor_read_stack_inv; assumption|].
  split; [apply rcursor_write_inv; assumption|].
  split; [rewrite cursor_space_left_ok by assumption; discriminate|].
  split; [rewrite cursor_remaining_queue_ok by assumption; discriminate|].
  apply cursor_reverse_inv; assumption.
Qed.

(* [op_safe] is necessary: Cursor::buf_mut() hands out &mut Vec to safe code, which can shrink the
   buffer below pos; the next Stack read indexes out of bounds (known class cursor_buf_mut_shrink) *)
Theorem C20_cursor_buf_mut_refuted : exists b ops,
  bk_wf b /\ Exists out_is_fault (snd (bk_run b ops)).
Proof.
  exists (BCursor BufVec (cursor_new_at_write_end [7%N])), [OBufMutTruncate 0; ORead Stack].
  destruct buf_mut_breaks_inv as [H1 H2]. split; [exact H1|]. rewrite H2.
  apply Exists_cons_tl, Exists_cons_hd. exact I.
Qed.

Check C20_cursor_inv_preserved : forall ops b, bk_wf b -> Forall op_safe ops ->
  bk_wf (fst (bk_run b ops)) /\ Forall (fun x => ~ out_is_fault x) (snd (bk_run b ops)).
Check C20_cursor_buf_mut_refuted : exists b ops,
  bk_wf b /\ Exists out_is_fault (snd (bk_run b ops)).

(* non-vacuity: a state at the boundary pos = len and one at pos = 0 satisfy the invariant and the
   unchecked sites are exercised *)
Example ex_sites :
  let c := {| buf := [1; 2; 3]%N; pos := 3 |} in
  cursor_inv c /\ fst (cursor_read_stack c) = RSome 3%N /\
  fst (rcursor_write 9%N c) = WOk /\ fst (rcursor_write 9%N {| buf := [1; 2; 3]%N; pos := 0 |}) = WOutOfSpace /\
  fst (cursor_read_stack {| buf := [1; 2; 3]%N; pos := 4 |}) = RFault UB_cursor_stack_read.
Proof. vm_compute. repeat split. lia. Qed.

Print Assumptions C20_cursor_ctor_inv.
Print Assumptions C20_cursor_step_no_ub.
Print Assumptions C20_cursor_inv_preserved.
Print Assumptions C20_cursor_index_sites.
Print Assumptions C20_cursor_buf_mut_refuted.
