"""Family `ans`: histories on AnsCoder<Word, State, Vec<Word>>.

Input (ints):  wb sb pb  <models>  init_kind init_words(len-prefixed)  ops...
  init_kind 0 new, 1 from_compressed, 2 from_binary; 11 / 12 the same through the iterator-backed
  constructors from_reversed_compressed_iter / from_reversed_binary_iter
  ops: 1 m sym        encode_symbol                    -> 0 | -1 (ImpossibleSymbol)
       2 m            decode_symbol                    -> sym
       3              into_compressed -> from_compressed -> 0 | -2
       4              iter_compressed                  -> len words..
       5              get_compressed (view, dropped)   -> len words..
       6              get_binary (view, dropped)       -> -3 | len words..
       7              sizes                            -> num_words num_bits num_valid_bits is_empty
       8              clone().into_binary()            -> -3 | len words..
       9 m k syms..   encode_iid_symbols               -> 0 | -1
      10 m k syms..   encode_iid_symbols_reverse       -> 0 | -1
      11 m k syms.. f try_encode_symbols, Err at index f -> 0 | -1 | -4
      12              raw parts                        -> len bulk.. state
      13 m k          decode_iid_symbols(k)            -> k syms
      23 m k          the same on into_seekable_decoder(), then into_reversed() twice and back to
                      the Vec-backed coder (yielded as op 13 by `walk`: one operation for the oracles)
      14              clone, continue on the clone     -> 0
  the final raw parts are always appended.
"""
from gen_models import ANS_MENU, pick_precision, gen_table, enc_models

FAMILY = "ans"
RUNNER = ("Corr.Ans_run", "run_ans")


def _init(rng, wb, sb):
    kind = rng.choice([0, 0, 1, 1, 2])
    if kind == 0:
        return 0, []
    n = rng.choice([0, 1, 2, 3, sb // wb - 1, sb // wb, sb // wb + 1, rng.randrange(0, 12)])
    ws = []
    for _ in range(n):
        r = rng.random()
        if r < 0.15:
            ws.append(0)
        elif r < 0.3:
            ws.append((1 << wb) - 1)
        elif r < 0.4:
            ws.append(1)
        else:
            ws.append(rng.randrange(1 << wb))
    if kind == 1 and ws and ws[-1] == 0:
        ws[-1] = rng.randrange(1, 1 << wb)
    return kind, ws


def _models(rng, wb, sb, pb, n=None):
    n = n or rng.randint(1, 4)
    ms = []
    for _ in range(n):
        P = pick_precision(rng, pb, wb, sb)
        ms.append((P, gen_table(rng, P)))
    return ms


def _header(rng):
    wb, sb, pb = rng.choice(ANS_MENU)
    ms = _models(rng, wb, sb, pb)
    kind, ws = _init(rng, wb, sb)
    return wb, sb, pb, ms, kind, ws


def _assemble(wb, sb, pb, ms, kind, ws, ops):
    # init_kind + 10: the same constructor reached through the iterator-backed route
    # (from_reversed_compressed_iter / from_reversed_binary_iter, then moved onto a Vec through raw
    # parts); chosen by a content hash so that no generator's random stream changes
    if kind in (1, 2) and (sum(ws) + len(ops)) % 3 == 0:
        kind += 10
    return [wb, sb, pb] + enc_models(ms) + [kind, len(ws)] + ws + ops


def _in_sym(rng, t):
    return rng.choice(t)[0]


def _out_sym(rng, t):
    syms = {e[0] for e in t}
    while True:
        s = rng.choice([max(syms) + 1, min(syms) - 1, rng.randrange(-5000, 5000), (1 << 16) + rng.choice(list(syms)),
                        (1 << 32) + rng.choice(list(syms)), -(1 << 40)])
        if s not in syms:
            return s


INSPECT = [4, 5, 6, 7, 8, 12, 14]


def gen_stack(rng, max_ops=120):
    """Stack-disciplined history (C01): pops only of what was pushed, with matching models;
    reloads, clones and inspections anywhere; batch / reverse / fallible forms; impossible symbols."""
    wb, sb, pb, ms, kind, ws = _header(rng)
    ops = [4]
    pending = []          # (model index, symbol), top at the end
    n = rng.randint(1, max_ops)
    for _ in range(n):
        r = rng.random()
        if r < 0.40 or not pending:
            m = rng.randrange(len(ms))
            t = ms[m][1]
            rr = rng.random()
            if rr < 0.08:
                ops += [1, m, _out_sym(rng, t)]
            elif rr < 0.75:
                s = _in_sym(rng, t)
                ops += [1, m, s]
                pending.append((m, s))
            else:
                k = rng.randint(0, 6)
                syms = [_in_sym(rng, t) for _ in range(k)]
                if k and rng.random() < 0.2:
                    syms[rng.randrange(k)] = _out_sym(rng, t)       # impossible symbol inside a batch
                insup = [any(e[0] == x for e in t) for x in syms]
                form = rng.choice([9, 10, 11, 18, 19, 20])
                if form in (9, 20, 10, 19):
                    ops += [form, m, k] + syms
                    order = list(zip(syms, insup)) if form in (9, 20) else list(zip(syms, insup))[::-1]
                    for x, okx in order:
                        if not okx:
                            break
                        pending.append((m, x))
                else:
                    f = rng.randint(0, k + 1)
                    ops += [form, m, k] + syms + [f]
                    items = list(enumerate(zip(syms, insup)))
                    if form == 18:
                        items.reverse()
                    for j, (x, okx) in items:
                        if j == f or not okx:
                            break
                        pending.append((m, x))
        elif r < 0.75:
            m, s = pending.pop()
            # batch pop if several pending entries on top share the model
            k = 1
            while k < len(pending) + 1 and k < 5 and len(pending) >= k and pending[-k][0] == m and rng.random() < 0.3:
                k += 1
            if k > 1:
                for _ in range(k - 1):
                    pending.pop()
                form = rng.choice([13, 23, 21, 22])
                if form == 22:
                    # k decodes plus one error item at index f (f in 0..k): k + 1 models in total
                    f = rng.randint(0, k)
                    ops += [22, m, k + 1, f]
                else:
                    ops += [form, m, k]
            else:
                ops += [2, m]
        elif r < 0.85:
            ops += [3]
        else:
            ops += [rng.choice(INSPECT)]
    while pending:
        m, s = pending.pop()
        ops += [2, m]
    ops += [4]
    return _assemble(wb, sb, pb, ms, kind, ws, ops)


def gen_free(rng, max_ops=80):
    """Unconstrained history: decodes beyond what was pushed, wrong models, garbage start
    states (C10), impossible symbols (C09), inspections (C08, C18)."""
    wb, sb, pb, ms, kind, ws = _header(rng)
    ops = []
    for _ in range(rng.randint(1, max_ops)):
        r = rng.random()
        m = rng.randrange(len(ms))
        t = ms[m][1]
        if r < 0.3:
            ops += [1, m, _in_sym(rng, t) if rng.random() < 0.9 else _out_sym(rng, t)]
        elif r < 0.6:
            ops += [2, m]
        elif r < 0.65:
            ops += [rng.choice([13, 13, 23]), m, rng.randint(0, 5)]
        elif r < 0.7:
            ops += [3]
        else:
            ops += [rng.choice(INSPECT)]
    return _assemble(wb, sb, pb, ms, kind, ws, ops)


def gen_binary(rng):
    """C04: from_binary(any data), decode k symbols with any models, push them back in reverse
    order, export with both raw-binary accessors."""
    wb, sb, pb = rng.choice(ANS_MENU)
    ms = _models(rng, wb, sb, pb)
    n = rng.choice([0, 0, 1, 2, 3, sb // wb - 1, sb // wb, sb // wb + 1, rng.randrange(0, 40)])
    style = rng.random()
    ws = []
    for i in range(n):
        if style < 0.1:
            ws.append(0)
        elif style < 0.2:
            ws.append((1 << wb) - 1)
        elif style < 0.5:
            ws.append(rng.choice([0, 0, 1, (1 << wb) - 1, rng.randrange(1 << wb)]))
        else:
            ws.append(rng.randrange(1 << wb))
    k = rng.choice([0, 1, 2, 5, rng.randrange(0, 120)])
    seq = [rng.randrange(len(ms)) for _ in range(k)]
    ops = [6, 8, 7, 12, 15, k] + seq + [6, 8, 7, 12]
    return _assemble(wb, sb, pb, ms, 2, ws, ops)


def gen_encode_only(rng, max_syms=200):
    """C06 / C12 / C18: encode a message on an empty coder, exporting words and sizes on the way.
    Low-information sequences (p = 2^P - 1 repeated, alternating extremes) are over-weighted."""
    wb, sb, pb = rng.choice(ANS_MENU)
    ms = _models(rng, wb, sb, pb)
    ops = [7, 4]
    n = rng.choice([0, 1, 2, rng.randint(0, max_syms)])
    style = rng.random()
    for j in range(n):
        m = rng.randrange(len(ms))
        t = ms[m][1]
        if style < 0.3:
            e = max(t, key=lambda x: x[2])                  # most probable symbol
        elif style < 0.4:
            e = min(t, key=lambda x: x[2])                  # least probable symbol
        elif style < 0.5:
            e = (max if j % 2 else min)(t, key=lambda x: x[2])
        else:
            e = rng.choice(t)
        ops += [1, m, e[0]]
        if rng.random() < 0.1:
            ops += [7, 4]
    ops += [7, 4, 5]
    return _assemble(wb, sb, pb, ms, 0, [], ops)


def gen_twin(rng, max_ops=80):
    """C08: identical encode/decode history on a coder and on its twin; only the first coder is
    inspected (views, raw-binary views, iterators, clones, size queries) at random points."""
    wb, sb, pb, ms, kind, ws = _header(rng)
    ops = [16]
    for _ in range(rng.randint(1, max_ops)):
        r = rng.random()
        m = rng.randrange(len(ms))
        t = ms[m][1]
        if r < 0.35:
            ops += [1, m, _in_sym(rng, t) if rng.random() < 0.95 else _out_sym(rng, t)]
        elif r < 0.5:
            ops += [2, m]
        else:
            k = rng.choice([1, 1, 2, 5])
            for _ in range(k):
                o = rng.choice([4, 5, 5, 6, 6, 7, 8, 12, 14])
                ops += [8, 6] if o == 6 and rng.random() < 0.5 else [o]
    ops += [4, 5, 4]
    return _assemble(wb, sb, pb, ms, kind, ws, ops)


def gen_impossible(rng, max_ops=60):
    """C09: out-of-support symbols anywhere in a stack-disciplined history; raw parts before and
    after each failed encode."""
    wb, sb, pb, ms, kind, ws = _header(rng)
    ops = [4]
    pending = []
    for _ in range(rng.randint(1, max_ops)):
        r = rng.random()
        m = rng.randrange(len(ms))
        t = ms[m][1]
        if r < 0.25:
            ops += [12, 1, m, _out_sym(rng, t), 12]
        elif r < 0.65 or not pending:
            s = _in_sym(rng, t)
            ops += [1, m, s]
            pending.append((m, s))
        else:
            pm, s = pending.pop()
            ops += [2, pm]
    while pending:
        pm, s = pending.pop()
        ops += [2, pm]
    ops += [4]
    return _assemble(wb, sb, pb, ms, kind, ws, ops)


def _sweep_case(P, cum, p, lo, hi):
    total = 1 << P
    t = []
    if cum > 0:
        t.append((100, 0, cum))
    t.append((7, cum, p))
    if cum + p < total:
        t.append((200, cum + p, total - cum - p))
    return _assemble(8, 16, 8, [(P, t)], 0, [], [17, 0, lo, hi])


def sweep_all(maxP=4, block=4096):
    """EXHAUSTIVE single-step space of the smallest instance (u8 words, u16 state): every state
    0..65535 (with the bulk the documented invariant requires), every (cum, p) with
    PRECISION <= maxP: encode then decode."""
    cases = []
    for P in range(1, maxP + 1):
        total = 1 << P
        for cum in range(total):
            for p in range(1, total - cum + 1):
                if p == total:
                    continue
                for lo in range(0, 65536, block):
                    cases.append(_sweep_case(P, cum, p, lo, lo + block))
    return cases


def gen_sweep(rng):
    P = rng.randint(1, 8)
    total = 1 << P
    cum = rng.randrange(total)
    p = rng.randint(1, total - cum)
    if p == total:
        p -= 1
    lo = rng.choice([0, 128, 256 - 64, 65536 - 192, rng.randrange(0, 65536 - 192)])
    return _sweep_case(P, cum, max(p, 1), lo, lo + 192)


EXHAUSTIVE = {"gen_sweep": lambda: sweep_all(4, 4096)}


# ---------------------------------------------------------------- output walking

def walk(inp, out):
    """Yields (op, args, results) for each op of an `ans` case given input and output lists."""
    i = 3
    nm = inp[i]
    i += 1
    for _ in range(nm):
        k = inp[i + 1]
        i += 2 + 3 * k
    kind = inp[i] % 10
    nw = inp[i + 1]
    i += 2 + nw
    o = 0
    if kind == 1 and out[:1] == [-2] and len(out) == 1:
        yield ("init_err", [], out)
        return

    def words():
        nonlocal o
        if out[o] < 0:
            o += 1
            return out[o - 1]
        n = out[o]
        r = out[o + 1:o + 1 + n]
        o += 1 + n
        return r

    twin = False
    while i < len(inp):
        op = inp[i]
        if op == 1:
            yield (1, inp[i + 1:i + 3], out[o]); i += 3; o += 1
            if twin:
                yield ("twin1", [], (out[o - 1], out[o])); o += 1
        elif op == 2:
            yield (2, inp[i + 1:i + 2], out[o]); i += 2; o += 1
            if twin:
                yield ("twin2", [], (out[o - 1], out[o])); o += 1
        elif op == 16:
            twin = True
            yield (16, [], out[o]); i += 1; o += 1
        elif op in (3, 14):
            yield (op, [], out[o]); i += 1; o += 1
        elif op in (4, 5, 6, 8):
            yield (op, [], words()); i += 1
        elif op == 7:
            yield (7, [], out[o:o + 4]); i += 1; o += 4
        elif op in (9, 10):
            k = inp[i + 2]
            yield (op, (inp[i + 1], inp[i + 3:i + 3 + k]), out[o]); i += 3 + k; o += 1
        elif op == 11:
            k = inp[i + 2]
            yield (11, (inp[i + 1], inp[i + 3:i + 3 + k], inp[i + 3 + k]), out[o]); i += 4 + k; o += 1
        elif op == 12:
            n = out[o]
            yield (12, [], (out[o + 1:o + 1 + n], out[o + 1 + n])); i += 1; o += 2 + n
        elif op in (13, 23):
            k = inp[i + 2]
            yield (13, (inp[i + 1], k), out[o:o + k]); i += 3; o += k
        elif op == 17:
            yield (17, inp[i + 1:i + 4], out[o]); i += 4; o += 1
        elif op == 18:
            k = inp[i + 2]
            yield (18, (inp[i + 1], inp[i + 3:i + 3 + k], inp[i + 3 + k]), out[o]); i += 4 + k; o += 1
        elif op in (19, 20):
            k = inp[i + 2]
            yield (op, (inp[i + 1], inp[i + 3:i + 3 + k]), out[o]); i += 3 + k; o += 1
        elif op == 21:
            n = out[o]
            if n < 0 or n > 10 ** 6:
                raise ValueError
            yield (21, (inp[i + 1], inp[i + 2]), out[o + 1:o + 1 + n]); i += 3; o += 1 + n
        elif op == 22:
            n = out[o]
            if n < 0 or n > 10 ** 6:
                raise ValueError
            yield (22, (inp[i + 1], inp[i + 2], inp[i + 3]), out[o + 1:o + 1 + n]); i += 4; o += 1 + n
        elif op == 15:
            k = inp[i + 1]
            yield (15, inp[i + 2:i + 2 + k], (out[o:o + k], out[o + k:o + 2 * k])); i += 2 + k; o += 2 * k
        else:
            raise ValueError("bad op %r" % op)
    n = out[o]
    yield ("final", [], (out[o + 1:o + 1 + n], out[o + 1 + n]))
    o += 2 + n
    if twin:
        n = out[o]
        yield ("final_twin", [], (out[o + 1:o + 1 + n], out[o + 1 + n]))


def models_of(inp):
    i = 3
    nm = inp[i]
    i += 1
    ms = []
    for _ in range(nm):
        P, k = inp[i], inp[i + 1]
        t = [tuple(inp[i + 2 + 3 * j:i + 5 + 3 * j]) for j in range(k)]
        ms.append((P, t))
        i += 2 + 3 * k
    return ms, i


# ---------------------------------------------------------------- oracles (on IMPLEMENTATION output)

def oracle_C01(inp, out):
    """Every decode returns the most recent not-yet-decoded pushed symbol (same model); when all
    pushes are popped the exported words equal the initial ones; batch forms == per-symbol loop
    (checked through the same pending stack)."""
    if any(x in (-999999, -999998, -999997, -999996) for x in out):
        return "panic/abort/timeout"
    ms, _ = models_of(inp)
    pending = []
    first_words = None
    try:
        for op, args, res in walk(inp, out):
            if op == "init_err":
                return None
            if op == 1:
                m, s = args
                insup = any(e[0] == s for e in ms[m][1])
                if insup:
                    if res != 0:
                        return "encode of in-support symbol failed"
                    pending.append((m, s))
                elif res != -1:
                    return "impossible symbol not rejected"
            elif op in (9, 10, 19, 20):
                # batch forms = the per-symbol loop: they stop at the first impossible symbol and keep
                # what was encoded before it
                m, syms = args
                order = list(syms) if op in (9, 20) else list(reversed(syms))
                ok = [any(e[0] == x for e in ms[m][1]) for x in order]
                stop = ok.index(False) if False in ok else len(order)
                if stop < len(order):
                    if res != -1:
                        return "batch encode with an impossible symbol returned %d" % res
                elif res != 0:
                    return "batch encode failed"
                pending += [(m, x) for x in order[:stop]]
            elif op in (11, 18):
                m, syms, f = args
                items = [(j, x) for j, x in enumerate(syms)]
                if op == 18:
                    items.reverse()
                done = []
                expect = 0
                for j, x in items:
                    if j == f:
                        expect = -4
                        break
                    if not any(e[0] == x for e in ms[m][1]):
                        expect = -1
                        break
                    done.append(x)
                if res != expect:
                    return "fallible batch returned %d, expected %d" % (res, expect)
                pending += [(m, x) for x in done]
            elif op == 21:
                m, k = args
                if len(res) != k:
                    return "decode_symbols over %d models yielded %d items" % (k, len(res))
                for j in range(k):
                    if not pending or pending[-1][0] != m:
                        return None
                    pm, x = pending.pop()
                    if res[j] != x:
                        return "batch decode returned %d, expected %d" % (res[j], x)
            elif op == 22:
                m, k, f = args
                if len(res) != k:
                    return "try_decode_symbols over %d models yielded %d items" % (k, len(res))
                for j in range(k):
                    if j == f:
                        if res[j] != -4000:
                            return "try_decode_symbols did not report the model error"
                        continue
                    if not pending or pending[-1][0] != m:
                        return None
                    pm, x = pending.pop()
                    if res[j] != x:
                        return "fallible batch decode returned %d, expected %d" % (res[j], x)
            elif op == 2:
                # a pop of something that was never pushed, or with another model, leaves the
                # stack discipline: the property says nothing about the rest of such a history
                if not pending or pending[-1][0] != args[0]:
                    return None
                m, s = pending.pop()
                if res != s:
                    return "decode returned %d, expected %d" % (res, s)
            elif op == 13:
                m, k = args
                for j in range(k):
                    if not pending or pending[-1][0] != m:
                        return None
                    pm, s = pending.pop()
                    if res[j] != s:
                        return "batch decode returned %d, expected %d" % (res[j], s)
            elif op == 3:
                if res != 0:
                    return "re-import of exported words failed"
            elif op == 4:
                if pending:
                    pass            # only exports taken with every push popped are comparable
                elif first_words is None:
                    first_words = res
                elif res != first_words:
                    return "exported words differ after all pushes were popped"
    except (IndexError, ValueError):
        return "malformed output"
    return None


def oracle_C04(inp, out):
    """from_binary(data): both raw-binary exports equal data before and after a decode /
    re-encode round trip; payload size exact; decoded symbols are in the model's support."""
    if any(x in (-999999, -999998, -999997, -999996) for x in out):
        return "panic/abort/timeout"
    ms, i = models_of(inp)
    if inp[i] % 10 != 2:
        return None
    nw = inp[i + 1]
    data = inp[i + 2:i + 2 + nw]
    wb = inp[0]
    raws = []
    try:
        for op, args, res in walk(inp, out):
            if op not in (4, 5, 6, 7, 8, 12, 14, 15, "final"):
                return None      # pushes/pops that are not a decode/re-encode round trip: out of scope
            if op in (6, 8) and res != data:
                return "raw binary export %r differs from the data %r" % (res, data)
            if op == 7 and res[2] != wb * len(data):
                return "num_valid_bits %d != %d" % (res[2], wb * len(data))
            if op == 12:
                raws.append(res)
            if op == 15:
                syms, errs = res
                for m, s in zip(args, syms):
                    if not any(e[0] == s for e in ms[m][1]):
                        return "decoded symbol %d outside the support" % s
                if any(e != 0 for e in errs):
                    return "re-encoding a decoded symbol failed"
    except (IndexError, ValueError):
        return "malformed output"
    if len(raws) == 2 and raws[0] != raws[1]:
        return "coder state not restored by re-encoding"
    return None


def _bad(out):
    return any(x in (-999999, -999998, -999997, -999996) for x in out)


def ref_rans(wb, sb, entries):
    """Independent arbitrary-precision reference of streaming rANS (published algorithm):
    entries = [(P, cum, p)]; returns the words, least significant state word first."""
    out, x = [], 0
    B = 1 << wb
    for P, cum, p in entries:
        if x >= p << (sb - P):
            out.append(x % B)
            x //= B
        x = (x // p) * (1 << P) + cum + x % p
    while x:
        out.append(x % B)
        x //= B
    return out


def oracle_C06(inp, out):
    """exported words == independent reference implementation (encode-only histories from new())"""
    if _bad(out):
        return "panic/abort/timeout"
    ms, i = models_of(inp)
    if inp[i] % 10 != 0:
        return None
    wb, sb = inp[0], inp[1]
    entries = []
    try:
        for op, args, res in walk(inp, out):
            if op == 1:
                m, s = args
                e = [x for x in ms[m][1] if x[0] == s]
                if not e:
                    return None
                if res != 0:
                    return "encode failed"
                entries.append((ms[m][0], e[0][1], e[0][2]))
            elif op in (4, 5):
                ref = ref_rans(wb, sb, entries)
                if res != ref:
                    return "words %r differ from the reference rANS stream %r" % (res[:8], ref[:8])
            elif op in (7, 12, 14, "final"):
                pass
            else:
                return None
    except (IndexError, ValueError):
        return "malformed output"
    return None


def oracle_C08(inp, out):
    """twin run: every result and the final coder equal those of the never-inspected twin; a
    view shows exactly the words that exporting at that moment returns."""
    if _bad(out):
        return "panic/abort/timeout"
    try:
        last4 = None
        last8 = None
        fin = None
        for op, args, res in walk(inp, out):
            # raw-binary view (6) must equal the consuming raw-binary export (8) at the same moment
            if op == 8:
                last8 = res
            elif op == 6:
                if last8 is not None and res != last8:
                    return "get_binary view differs from into_binary at the same moment"
            elif op in (1, 2, 3, 9, 10, 11, 13, 15):
                last8 = None
            if op in ("twin1", "twin2") and res[0] != res[1]:
                return "inspected coder and twin disagree on a result: %r" % (res,)
            if op == 4:
                last4 = res
            elif op == 5:
                if last4 is not None and res != last4:
                    return "get_compressed view differs from iter_compressed at the same moment"
                last4 = None
            elif op in (1, 2, 3, 9, 10, 11, 13, 15):
                last4 = None
            if op == "final":
                fin = res
            if op == "final_twin" and res != fin:
                return "final coder differs from the never-inspected twin"
    except (IndexError, ValueError):
        return "malformed output"
    return None


def oracle_C09(inp, out):
    """impossible symbol -> ImpossibleSymbol error, raw parts unchanged; what was encoded before
    still decodes (checked by the C01 predicate on the same history)."""
    if _bad(out):
        return "panic/abort/timeout"
    ms, _ = models_of(inp)
    try:
        prev12 = None
        expect_same = False
        for op, args, res in walk(inp, out):
            if op == 12:
                if expect_same and res != prev12:
                    return "failed encode changed the coder"
                prev12 = res
                expect_same = False
            elif op == 1:
                m, s = args
                insup = any(e[0] == s for e in ms[m][1])
                if not insup:
                    if res != -1:
                        return "out-of-support symbol %d was not rejected (result %d)" % (s, res)
                    expect_same = prev12 is not None
                else:
                    prev12 = None
                    expect_same = False
            else:
                if op != "final":
                    # any other operation in between (e.g. a reload) may legitimately change the
                    # raw parts: the comparison only spans dump, refused encode(s), dump
                    prev12 = None
                    expect_same = False
    except (IndexError, ValueError):
        return "malformed output"
    return oracle_C01(inp, out)


def oracle_C10(inp, out):
    """decoding anything never panics/aborts/hangs; every decoded symbol is in the support"""
    if _bad(out):
        return "panic/abort/timeout while decoding arbitrary data"
    ms, _ = models_of(inp)
    try:
        for op, args, res in walk(inp, out):
            if op == 2 and not any(e[0] == res for e in ms[args[0]][1]):
                return "decoded symbol %d outside the support" % res
            if op == 13 and any(not any(e[0] == x for e in ms[args[0]][1]) for x in res):
                return "decoded symbol outside the support"
    except (IndexError, ValueError):
        return "malformed output"
    return None


def oracle_C12(inp, out):
    """exact integer form of the size bound, evaluated on the implementation's word counts:
    B^(words-1) * prod p_i K_i <= 2^(SB-WB) * prod 2^P_i (K_i+1), and words <= n + SB/WB"""
    if _bad(out):
        return "panic/abort/timeout"
    ms, i = models_of(inp)
    if inp[i] % 10 != 0:
        return None
    wb, sb = inp[0], inp[1]
    den, num, n = 1, 1, 0
    try:
        for op, args, res in walk(inp, out):
            if op == 1:
                m, s = args
                e = [x for x in ms[m][1] if x[0] == s]
                if not e or res != 0:
                    return None
                P, p = ms[m][0], e[0][2]
                K = 1 << (sb - wb - P)
                den *= p * K
                num *= (1 << P) * (K + 1)
                n += 1
            elif op == 7:
                nw = res[0]
                if nw > n + (sb + wb - 1) // wb:
                    return "%d words after %d symbols" % (nw, n)
                if nw >= 1 and (1 << (wb * (nw - 1))) * den > (1 << (sb - wb)) * num:
                    return "size bound violated: %d words after %d symbols" % (nw, n)
            elif op in (4, 5, 12, 14, "final"):
                pass
            else:
                return None
    except (IndexError, ValueError):
        return "malformed output"
    return None


def oracle_C18(inp, out):
    """num_words / num_bits == length of the export at that moment; is_empty <=> nothing exported;
    num_valid_bits of a from_binary coder == size of the data"""
    if _bad(out):
        return "panic/abort/timeout"
    ms, i = models_of(inp)
    wb = inp[0]
    kind, nw0 = inp[i] % 10, inp[i + 1]
    try:
        sizes = None
        touched = False
        for op, args, res in walk(inp, out):
            if op == "init_err":
                return None
            if op == 7:
                sizes = res
                if kind == 2 and not touched and res[2] != wb * nw0:
                    return "num_valid_bits %d != %d" % (res[2], wb * nw0)
                if res[1] != wb * res[0]:
                    return "num_bits != WB * num_words"
            elif op in (4, 5):
                if sizes is not None:
                    if sizes[0] != len(res):
                        return "num_words %d but export has %d words" % (sizes[0], len(res))
                    if (sizes[3] == 1) != (len(res) == 0):
                        return "is_empty inconsistent with the export"
            elif op in (6, 8, 12, 14):
                pass
            else:
                sizes = None
                touched = True
    except (IndexError, ValueError):
        return "malformed output"
    return None


ORACLES = {"C01": oracle_C01, "C04": oracle_C04, "C06": oracle_C06, "C08": oracle_C08,
           "C09": oracle_C09, "C10": oracle_C10, "C12": oracle_C12, "C18": oracle_C18}


def nontrivial_C04(inp, out):
    try:
        ms, i = models_of(inp)
        return inp[i] % 10 == 2 and inp[i + 1] >= 1 and any(op == 15 and len(a) >= 1 for op, a, r in walk(inp, out))
    except Exception:
        return False


def nontrivial(inp, out, prop=None):
    """at least one decode and a bulk that is non-empty at the end or a flush observable in sizes"""
    if prop == "C04":
        return nontrivial_C04(inp, out)
    if prop in NONTRIVIAL:
        try:
            return NONTRIVIAL[prop](inp, out)
        except Exception:
            return False
    try:
        dec = False
        big = False
        sb, wb = inp[1], inp[0]
        for op, args, res in walk(inp, out):
            if op in (2, 13):
                dec = True
            if op == 4 and isinstance(res, list) and len(res) > sb // wb:
                big = True
            if op in (12, "final") and len(res[0]) > 0:
                big = True
        return dec and big
    except Exception:
        return False


def describe(inp):
    ms, i = models_of(inp)
    return "ans W=%d S=%d PB=%d models=%s init_kind=%d ops=%d ints" % (
        inp[0], inp[1], inp[2], [(P, len(t)) for P, t in ms], inp[i], len(inp) - i)


def _ops(inp, out):
    return list(walk(inp, out))


NONTRIVIAL = {
    "C06": lambda inp, out: sum(1 for o, a, r in _ops(inp, out) if o == 1) >= 3 and any(
        o == 4 and len(r) > inp[1] // inp[0] for o, a, r in _ops(inp, out)),
    "C12": lambda inp, out: sum(1 for o, a, r in _ops(inp, out) if o == 1) >= 10,
    "C18": lambda inp, out: any(x[0] == 7 and y[0] in (4, 5) for x, y in zip(_ops(inp, out), _ops(inp, out)[1:])),
    "C08": lambda inp, out: any(o == 16 for o, a, r in _ops(inp, out)) and any(
        x[0] in (4, 5, 6, 7, 8, 12, 14) and y[0] in (1, 2) for x, y in zip(_ops(inp, out), _ops(inp, out)[1:])),
    "C09": lambda inp, out: any(o == 1 and r == -1 for o, a, r in _ops(inp, out)),
    "C10": lambda inp, out: models_of(inp)[1] is not None and inp[models_of(inp)[1]] != 0 and any(
        o in (2, 13) for o, a, r in _ops(inp, out)),
}


def op_slices(inp):
    """(start index of the ops, list of (begin, end) slices, one per op)"""
    ms, i = models_of(inp)
    nw = inp[i + 1]
    i += 2 + nw
    start = i
    sl = []
    while i < len(inp):
        op = inp[i]
        if op == 1:
            n = 3
        elif op in (2,):
            n = 2
        elif op in (3, 4, 5, 6, 7, 8, 12, 14, 16):
            n = 1
        elif op in (9, 10):
            n = 3 + inp[i + 2]
        elif op == 11:
            n = 4 + inp[i + 2]
        elif op in (13, 23):
            n = 3
        elif op == 15:
            n = 2 + inp[i + 1]
        elif op == 17:
            n = 4
        elif op == 18:
            n = 4 + inp[i + 2]
        elif op in (19, 20):
            n = 3 + inp[i + 2]
        elif op == 21:
            n = 3
        elif op == 22:
            n = 4
        else:
            break
        sl.append((i, i + n))
        i += n
    return start, sl


def shrink_candidates(inp):
    """smaller variants of a case: drop chunks of ops (delta debugging order: halves first)"""
    start, sl = op_slices(inp)
    n = len(sl)
    k = max(1, n // 2)
    while k >= 1:
        for a in range(0, n, k):
            keep = sl[:a] + sl[a + k:]
            yield inp[:start] + [x for b, e in keep for x in inp[b:e]]
        if k == 1:
            break
        k //= 2
