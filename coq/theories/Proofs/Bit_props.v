(* Proofs/Bit_props.v -- composite statements used by Props/C16.v *)
From CV Require Import Base.Bits Model.BitCoder Model.ExpGolomb.
From CV Require Import Proofs.Bit_core Proofs.Bit_stack Proofs.Bit_queue Proofs.Bit_history Proofs.Bit_expgolomb.
Set Default Timeout 30.
Open Scope N_scope.

Lemma app_inj_pre {A} (a c b d : list A) :
  a ++ b = c ++ d -> length a = length c -> a = c /\ b = d.
Proof.
  revert c. induction a as [|x a IH]; intros c E L; destruct c as [|y c]; cbn [length] in L; try lia.
  - split; [reflexivity|exact E].
  - cbn [app] in E. injection E as -> E. destruct (IH c E ltac:(lia)) as [-> ->]. split; reflexivity.
Qed.

Section Props.
Variable WB : N.
Hypothesis HWB : 0 < WB.

Lemma qpad_length l : (length (qpad WB l) < N.to_nat WB)%nat.
Proof.
  unfold qpad. rewrite repeat_length.
  pose proof (N.mod_lt (WB - N.of_nat (length l) mod WB) WB ltac:(lia)). lia.
Qed.

Lemma abs_queue_new : abs_queue WB bc_new = [].
Proof. reflexivity. Qed.

(* write bits to a fresh queue encoder, turn it into a decoder, read until the end:
   the written bits in order, then only zero padding, then end-of-data for ever *)
Lemma queue_roundtrip bits fuel :
  (length bits + N.to_nat WB < fuel)%nat ->
  exists d', qd_drain WB fuel (qe_into_decoder (bc_write_bits WB bits bc_new)) = (bits ++ qpad WB bits, d')
    /\ qd_read_bit WB d' = (None, d').
Proof.
  intros Hf.
  destruct (qe_write_bits_spec WB HWB bits bc_new (bc_new_inv WB)) as [Hi Ha].
  rewrite abs_queue_new in Ha. cbn [app] in Ha.
  pose proof (qe_into_decoder_abs WB HWB _ Hi) as Hd. rewrite Ha in Hd.
  destruct (qd_drain_spec WB HWB fuel (qe_into_decoder (bc_write_bits WB bits bc_new))) as (d' & E & Hi' & Ha').
  - apply qd_from_compressed_inv.
  - rewrite Hd, app_length. pose proof (qpad_length bits). lia.
  - exists d'. rewrite Hd in E. split; [exact E|].
    pose proof (qd_read_bit_spec WB HWB d' Hi') as Hr. rewrite Ha' in Hr. exact Hr.
Qed.

(* the same for an arbitrary (valid) encoder state *)
Lemma queue_drain c fuel :
  bc_inv WB c -> (length (abs_queue WB c) + N.to_nat WB < fuel)%nat ->
  exists d', qd_drain WB fuel (qe_into_decoder c)
             = (abs_queue WB c ++ qpad WB (abs_queue WB c), d')
    /\ qd_read_bit WB d' = (None, d').
Proof.
  intros Hi Hf.
  pose proof (qe_into_decoder_abs WB HWB _ Hi) as Hd.
  destruct (qd_drain_spec WB HWB fuel (qe_into_decoder c)) as (d' & E & Hi' & Ha').
  - apply qd_from_compressed_inv.
  - rewrite Hd, app_length. pose proof (qpad_length (abs_queue WB c)). lia.
  - exists d'. rewrite Hd in E. split; [exact E|].
    pose proof (qd_read_bit_spec WB HWB d' Hi') as Hr. rewrite Ha' in Hr. exact Hr.
Qed.

(* write bits to a fresh stack coder and read them all back: reverse order, then end-of-data *)
Lemma stack_roundtrip bits fuel :
  (length bits < fuel)%nat ->
  exists c', st_drain WB fuel (bc_write_bits WB bits bc_new) = (rev bits, c')
    /\ st_read_bit WB c' = (None, c').
Proof.
  intros Hf.
  destruct (bc_write_bits_spec WB HWB bits bc_new (bc_new_inv WB)) as [Hi Ha].
  change (abs_stack WB bc_new) with (@nil bool) in Ha. rewrite app_nil_r in Ha.
  destruct (st_drain_spec WB HWB fuel _ Hi) as (c' & E & Hi' & Ha').
  - rewrite Ha, rev_length. exact Hf.
  - exists c'. rewrite Ha in E. split; [exact E|].
    pose proof (st_read_bit_spec WB HWB c' Hi') as Hr. rewrite Ha' in Hr. exact Hr.
Qed.

(* export + import at every fill level: same content, still valid, and indistinguishable
   from the original under every later history *)
Lemma stack_export_import UB c h :
  bc_inv WB c ->
  exists c', st_from_compressed WB (st_into_compressed WB c) = inl c'
    /\ bc_inv WB c' /\ abs_stack WB c' = abs_stack WB c
    /\ snd (st_run UB WB c' h) = snd (st_run UB WB c h)
    /\ bc_equiv WB (fst (st_run UB WB c' h)) (fst (st_run UB WB c h)).
Proof.
  intros Hi. exists (bc_norm WB c).
  destruct (bc_norm_spec WB HWB c Hi) as [Hin Han].
  split; [apply (st_export_import_raw WB HWB c Hi)|].
  split; [exact Hin|]. split; [exact Han|].
  apply (st_run_equiv UB WB HWB h _ _ Hin Hi). apply (bc_norm_idem WB HWB c Hi).
Qed.

(* histories started from the empty coder never leave the invariant *)
Lemma st_reachable_inv UB h : bc_inv WB (fst (st_run UB WB bc_new h)).
Proof. apply (st_run_inv UB WB HWB). apply bc_new_inv. Qed.

Lemma qe_reachable_inv UB h : bc_inv WB (fst (qe_run UB WB bc_new h)).
Proof. apply (qe_run_inv UB WB HWB). apply bc_new_inv. Qed.

(* the content determines the normal form: two valid coders with the same content are
   observationally equivalent (so every observable is a function of the content) *)
Lemma wordbits_inj b1 b2 :
  Forall (fun w => w < 2 ^ WB) b1 -> Forall (fun w => w < 2 ^ WB) b2 ->
  flat_map (bits_desc (N.to_nat WB)) b1 = flat_map (bits_desc (N.to_nat WB)) b2 -> b1 = b2.
Proof.
  revert b2. induction b1 as [|w1 b1 IH]; intros b2 H1 H2 E.
  - destruct b2 as [|w2 b2]; [reflexivity|]. exfalso.
    apply (f_equal (@length bool)) in E. cbn [flat_map length] in E.
    rewrite app_length, bits_desc_length in E. lia.
  - destruct b2 as [|w2 b2].
    + exfalso. apply (f_equal (@length bool)) in E. cbn [flat_map length] in E.
      rewrite app_length, bits_desc_length in E. lia.
    + cbn [flat_map] in E. inversion H1; subst. inversion H2; subst.
      apply app_inj_pre in E; [|rewrite !bits_desc_length; reflexivity].
      destruct E as [Ew Eb]. f_equal.
      * apply (bits_desc_inj (N.to_nat WB)); [rewrite N2Nat.id; assumption..|exact Ew].
      * apply IH; assumption.
Qed.

Lemma norm_shape c :
  bc_inv WB c ->
  (mask (bc_norm WB c) = 0 /\ cur (bc_norm WB c) = 0)
  \/ exists k, k + 1 < WB /\ mask (bc_norm WB c) = 2 ^ k /\ cur (bc_norm WB c) < 2 ^ (k + 1).
Proof.
  destruct c as [b cw m]. intros [Hb [[Hm Hc]|(k & Hk & Hm & Hc)]]; cbn [bk cur mask] in *; subst.
  - rewrite (norm_A WB HWB). left. split; reflexivity.
  - destruct (N.eq_dec (k + 1) WB) as [Htop|Hmid].
    + rewrite (norm_B_top WB HWB) by assumption. left. split; reflexivity.
    + rewrite (norm_B_mid WB HWB) by assumption. right. exists k. cbn [mask cur]. repeat split; [lia|assumption].
Qed.

Lemma content_determines_norm c1 c2 :
  bc_inv WB c1 -> bc_inv WB c2 -> abs_stack WB c1 = abs_stack WB c2 -> bc_equiv WB c1 c2.
Proof.
  intros H1 H2 E. unfold bc_equiv.
  destruct (bc_norm_spec WB HWB c1 H1) as [[Hb1 _] Ha1].
  destruct (bc_norm_spec WB HWB c2 H2) as [[Hb2 _] Ha2].
  pose proof (norm_shape c1 H1) as S1. pose proof (norm_shape c2 H2) as S2.
  rewrite <- Ha1, <- Ha2 in E. clear Ha1 Ha2 H1 H2.
  destruct (bc_norm WB c1) as [b1 cw1 m1]. destruct (bc_norm WB c2) as [b2 cw2 m2].
  cbn [bk cur mask] in *.
  pose proof (f_equal (@length bool) E) as EL.
  destruct S1 as [[-> ->]|(k1 & Hk1 & -> & Hc1)]; destruct S2 as [[-> ->]|(k2 & Hk2 & -> & Hc2)].
  - rewrite !abs_A in E. f_equal. apply wordbits_inj; assumption.
  - exfalso. rewrite abs_A, abs_B' in EL.
    rewrite app_length, bits_desc_length, !(wordbits_length WB HWB) in EL.
    assert (Hmod : (N.of_nat (length b1) * WB) mod WB = (k2 + 1 + N.of_nat (length b2) * WB) mod WB)
      by (f_equal; lia).
    rewrite N.mod_mul, N.mod_add, N.mod_small in Hmod by lia. lia.
  - exfalso. rewrite abs_A, abs_B' in EL.
    rewrite app_length, bits_desc_length, !(wordbits_length WB HWB) in EL.
    assert (Hmod : (N.of_nat (length b2) * WB) mod WB = (k1 + 1 + N.of_nat (length b1) * WB) mod WB)
      by (f_equal; lia).
    rewrite N.mod_mul, N.mod_add, N.mod_small in Hmod by lia. lia.
  - rewrite !abs_B' in E, EL.
    rewrite !app_length, !bits_desc_length, !(wordbits_length WB HWB) in EL.
    assert (Hmod : (k1 + 1 + N.of_nat (length b1) * WB) mod WB = (k2 + 1 + N.of_nat (length b2) * WB) mod WB)
      by (f_equal; lia).
    rewrite !N.mod_add, !N.mod_small in Hmod by lia.
    assert (k1 = k2) by lia. subst k2.
    apply app_inj_pre in E; [|rewrite !bits_desc_length; reflexivity].
    destruct E as [Ec Eb]. f_equal.
    + apply wordbits_inj; assumption.
    + apply (bits_desc_inj (S (N.to_nat k1))); [| |exact Ec];
        (replace (N.of_nat (S (N.to_nat k1))) with (k1 + 1) by lia); assumption.
Qed.

End Props.
