(* Proofs/Models_tables.v -- contiguous and non-contiguous categorical models built from a
   well-formed fixed-point table: symbol table, encoder, decoder all equal the explicit table
   [table_of 0 symbols probabilities]; nothing unsafe is reached. *)
From CV Require Import Base.Bits Model.EModel Model.MBase Model.Tables.
From CV Require Import Proofs.Table_lemmas Proofs.Models_base Proofs.Models_validator.
Open Scope N_scope.
Set Default Timeout 30.

Definition iotaZ (n : nat) : list Z := map Z.of_nat (seq 0 n).

Lemma iotaZ_length n : length (iotaZ n) = n.
Proof. unfold iotaZ. rewrite map_length, seq_length. reflexivity. Qed.

Lemma iotaZ_S n : iotaZ (S n) = iotaZ n ++ [Z.of_nat n].
Proof. unfold iotaZ. rewrite seq_S, map_app. reflexivity. Qed.

(* the extended cdf of a table: left cumulatives paired with symbols, then 2^P (wrapped) *)
Definition ecdf (c : mcfg) (ss : list Z) (probs : list N) (x : Z) : list (N * Z) :=
  combine (cums 0 probs) ss ++ [(wpow2 (PB c) (PR c), x)].

Definition cdf_of (c : mcfg) (probs : list N) : list N := cums 0 probs ++ [wpow2 (PB c) (PR c)].

Lemma csub_succ k : csub (N.of_nat (S k)) 1 = Ok (N.of_nat k).
Proof. unfold csub. destruct (N.leb_spec 1 (N.of_nat (S k))); [f_equal; lia|lia]. Qed.

Lemma all_pos_firstn_pos probs k :
  all_pos probs -> (1 <= k)%nat -> (1 <= length probs)%nat -> 0 < sumN (firstn k probs).
Proof.
  intros Hp Hk Hl. destruct probs as [|p r]; [cbn in Hl; lia|]. destruct k; [lia|].
  cbn [firstn sumN]. inversion Hp; subst. lia.
Qed.

Lemma combine_app {A B} (a b : list A) (x y : list B) :
  length a = length x -> combine (a ++ b) (x ++ y) = combine a x ++ combine b y.
Proof.
  revert x. induction a as [|u a IH]; intros [|v x] H; cbn in *; try discriminate; [reflexivity|].
  rewrite IH by lia. reflexivity.
Qed.

Lemma combine_nth_error {A B} (a : list A) (b : list B) k x y :
  nth_error a k = Some x -> nth_error b k = Some y -> nth_error (combine a b) k = Some (x, y).
Proof.
  revert b k. induction a as [|u a IH]; intros [|v b] [|k] Ha Hb; cbn in *; try discriminate.
  - inversion Ha; inversion Hb; reflexivity.
  - apply IH; assumption.
Qed.

Lemma combine_map_fst {A B} (a : list A) (b : list B) :
  length a = length b -> map fst (combine a b) = a.
Proof.
  revert b. induction a as [|u a IH]; intros [|v b] H; cbn in *; try discriminate; [reflexivity|].
  rewrite IH by lia. reflexivity.
Qed.

Section Valid.
  Variable c : mcfg.
  Variable probs : list N.
  Hypothesis Hc : wf_mcfg c.
  Hypothesis Hv : valid_probs (PR c) probs.
  Local Notation n := (length probs).
  Local Notation wp := (wpow2 (PB c) (PR c)).

  Lemma valid_total_le : 2 ^ PR c <= 2 ^ PB c.
  Proof. apply pow2_le. apply Hc. Qed.

  (* the one arithmetic fact everything rests on: adjacent cdf entries differ (in wrapping
     arithmetic) by exactly the probability, also across the wrapped last entry *)
  Lemma cdf_diff k p :
    nth_error probs k = Some p ->
    let ck := sumN (firstn k probs) in
    nth_error (cdf_of c probs) k = Some ck /\
    exists rgt, nth_error (cdf_of c probs) (S k) = Some rgt /\ wsub (PB c) rgt ck = p /\ 0 < p.
  Proof.
    intros Hk ck. destruct Hv as (Hpos & Hsum & Hlen). pose proof valid_total_le as HT.
    destruct Hc as [HP0 HPle].
    assert (Hkn : (k < length probs)%nat) by (apply nth_error_Some; congruence).
    assert (Hp : 0 < p).
    { unfold all_pos in Hpos. rewrite Forall_forall in Hpos. apply Hpos. eapply nth_error_In; eauto. }
    unfold cdf_of. split.
    - rewrite nth_error_app_l by (rewrite cums_length; exact Hkn).
      rewrite (cums_nth 0 probs k p Hk). reflexivity.
    - pose proof (sumN_firstn_S probs k p Hk) as HS. fold ck in HS.
      destruct (Nat.eq_dec (S k) (length probs)) as [Heq|Hne].
      + exists wp. split.
        * rewrite <- (cums_length 0 probs) in Heq. rewrite Heq. apply nth_error_app_last.
        * split; [|exact Hp]. rewrite Heq, firstn_all in HS.
          rewrite wsub_pow; [lia|exact HPle|lia|].
          destruct (N.eq_dec (PR c) (PB c)); [right|left; lia].
          apply all_pos_firstn_pos; [exact Hpos|lia|lia].
      + assert (HSk : (S k < length probs)%nat) by lia.
        destruct (nth_error probs (S k)) as [p'|] eqn:Ep'; [|apply nth_error_None in Ep'; lia].
        exists (sumN (firstn (S k) probs)). split.
        * rewrite nth_error_app_l by (rewrite cums_length; exact HSk).
          rewrite (cums_nth 0 probs (S k) p' Ep'). reflexivity.
        * split; [|exact Hp].
          assert (Hp' : 0 < p').
          { unfold all_pos in Hpos. rewrite Forall_forall in Hpos. apply Hpos. eapply nth_error_In; eauto. }
          pose proof (sumN_firstn_S probs (S k) p' Ep') as HS2.
          pose proof (sumN_firstn_le probs (S (S k))) as Hle.
          rewrite wsub_small; lia.
  Qed.

  Lemma cdf_of_length : length (cdf_of c probs) = S n.
  Proof. unfold cdf_of. rewrite app_length, cums_length. cbn. lia. Qed.

  (* ---- iter_extended_cdf ---- *)
  Lemma iter_ext_from_spec : forall ps ss S s p x,
    length ss = length ps -> all_pos (p :: ps) -> S + p + sumN ps = 2 ^ PR c ->
    (PR c < PB c \/ 0 < S \/ ps <> []) ->
    iter_ext_from c S s (combine (cums (S + p) ps) ss ++ [(wp, x)]) = Ok (table_of S (s :: ss) (p :: ps)).
  Proof.
    pose proof valid_total_le as HT. destruct Hc as [HP0 HPle].
    induction ps as [|p' ps IH]; intros ss S s p x Hlen Hpos Hsum Hor.
    - destruct ss; [|discriminate]. cbn [cums combine app iter_ext_from sumN] in *.
      inversion Hpos; subst.
      rewrite wsub_pow; [|exact HPle|lia|].
      2:{ destruct Hor as [?|[?|?]]; [left; lia|right; lia|contradiction]. }
      replace (2 ^ PR c - S) with p by lia. unfold into_nonzero.
      destruct (N.eqb_spec p 0) as [E0|_]; [lia|]. reflexivity.
    - destruct ss as [|s' ss]; [discriminate|]. cbn [cums combine app iter_ext_from].
      inversion Hpos as [|? ? Hp Hpos']; subst. inversion Hpos' as [|? ? Hp' _]; subst.
      cbn [sumN] in Hsum.
      rewrite wsub_small by lia. replace (S + p - S) with p by lia.
      unfold into_nonzero. destruct (N.eqb_spec p 0) as [E0|_]; [lia|].
      rewrite IH; [reflexivity|cbn in Hlen; lia|exact Hpos'|lia|right; left; lia].
  Qed.

  Lemma iter_extended_cdf_spec ss x :
    length ss = n -> iter_extended_cdf c (ecdf c ss probs x) = Ok (table_of 0 ss probs).
  Proof.
    intros Hlen. destruct Hv as (Hpos & Hsum & Hl). 
    destruct probs as [|p ps]; [cbn in Hl; lia|]. destruct ss as [|s ss]; [discriminate|].
    unfold ecdf. cbn [cums combine app iter_extended_cdf]. cbn [sumN] in Hsum.
    apply iter_ext_from_spec; [cbn in Hlen; lia|exact Hpos|lia|].
    right. right. destruct ps; [cbn in Hl; lia|discriminate].
  Qed.

  (* ---- the table and its canonical lookups ---- *)
  Lemma table_entry ss k s p :
    length ss = n -> nth_error ss k = Some s -> nth_error probs k = Some p ->
    nth_error (table_of 0 ss probs) k = Some (s, sumN (firstn k probs), p).
  Proof. intros _ Hs Hp. rewrite (table_of_nth 0 ss probs k s p Hs Hp). reflexivity. Qed.

  Lemma table_hd_cum ss d : length ss = n -> ecum (hd d (table_of 0 ss probs)) = 0.
  Proof.
    intros Hlen. destruct Hv as (_ & _ & Hl). 
    destruct probs as [|p ps]; [cbn in Hl; lia|]. destruct ss; [discriminate|]. reflexivity.
  Qed.

  Lemma table_nonempty ss : length ss = n -> table_of 0 ss probs <> [].
  Proof.
    intros Hlen. destruct Hv as (_ & _ & Hl). 
    destruct probs as [|p ps]; [cbn in Hl; lia|]. destruct ss; discriminate.
  Qed.

  (* decoding with the partition point over the monotone part of the cdf *)
  Lemma search_spec ss q :
    length ss = n ->
    exists k s p,
      partition_point (fun x => x <=? q) (cums 0 probs) = S k /\
      nth_error ss k = Some s /\ nth_error probs k = Some p /\
      tbl_dec (table_of 0 ss probs) q = (s, sumN (firstn k probs), p).
  Proof.
    intros Hlen. set (t := table_of 0 ss probs).
    destruct (tbl_dec_pp t q (0%Z, 0, 0) (table_nonempty ss Hlen)) as (k & Hpp & Hnth).
    { unfold t. rewrite table_hd_cum by exact Hlen. lia. }
    assert (Hkt : (k < length t)%nat) by (apply nth_error_Some; congruence).
    unfold t in Hkt. rewrite table_of_length in Hkt by exact Hlen.
    destruct (nth_error ss k) as [s|] eqn:Es; [|apply nth_error_None in Es; lia].
    destruct (nth_error probs k) as [p|] eqn:Ep; [|apply nth_error_None in Ep; lia].
    exists k, s, p. split.
    - rewrite <- (table_of_cums 0 ss probs) by exact Hlen.
      rewrite partition_point_map. exact Hpp.
    - split; [exact Es|]. split; [exact Ep|].
      unfold t in Hnth. rewrite (table_entry ss k s p Hlen Es Ep) in Hnth. inversion Hnth. unfold t. congruence.
  Qed.

  (* ================================================================ contiguous *)
  Lemma enumerate_cdf_of : enumerate_cdf (cdf_of c probs) = ecdf c (iotaZ n) probs (Z.of_nat n).
  Proof.
    unfold enumerate_cdf. rewrite cdf_of_length. fold (iotaZ (S n)). rewrite iotaZ_S.
    unfold cdf_of, ecdf. rewrite combine_app by (rewrite cums_length, iotaZ_length; reflexivity).
    reflexivity.
  Qed.

  Lemma contig_table_spec : contig_table c (cdf_of c probs) = Ok (table_of 0 (iotaZ n) probs).
  Proof.
    unfold contig_table. rewrite enumerate_cdf_of. apply iter_extended_cdf_spec. apply iotaZ_length.
  Qed.

  Lemma contig_support_spec : contig_support_size (cdf_of c probs) = Ok (N.of_nat n).
  Proof. unfold contig_support_size, lenN. rewrite cdf_of_length. apply csub_succ. Qed.

  Lemma contig_lcp_spec i :
    contig_lcp c (cdf_of c probs) i = Ok (tbl_enc (table_of 0 (iotaZ n) probs) (Z.of_N i)).
  Proof.
    unfold contig_lcp. rewrite contig_support_spec. cbn [bind].
    destruct (N.leb_spec (N.of_nat n) i) as [Hge|Hlt].
    - rewrite tbl_enc_notin; [reflexivity|].
      rewrite table_of_syms by (rewrite iotaZ_length; reflexivity).
      unfold iotaZ. intros Hin. apply in_map_iff in Hin. destruct Hin as (j & Hj & Hin).
      apply in_seq in Hin. lia.
    - set (k := N.to_nat i). assert (Hk : (k < n)%nat) by (unfold k; lia).
      replace i with (N.of_nat k) by (unfold k; lia).
      destruct (nth_error probs k) as [p|] eqn:Ep; [|apply nth_error_None in Ep; lia].
      destruct (cdf_diff k p Ep) as (Hl & rgt & Hr & Hd & Hp).
      rewrite (get_unchecked_nat _ _ _ _ Hl). cbn [bind].
      replace (N.of_nat k + 1) with (N.of_nat (S k)) by lia.
      rewrite (get_unchecked_nat _ _ _ _ Hr). cbn [bind].
      rewrite Hd. unfold nonzero_unchecked. destruct (N.eqb_spec p 0) as [E0|_]; [lia|]. cbn [bind].
      rewrite nat_N_Z.
      erewrite tbl_enc_nth; [reflexivity| |].
      + rewrite table_of_syms by (rewrite iotaZ_length; reflexivity). apply NoDup_seq_Z.
      + apply table_entry; [apply iotaZ_length| |exact Ep]. apply seq_map_nth. exact Hk.
  Qed.

  Lemma contig_quant_spec q :
    contig_quant c (cdf_of c probs) q >>= (fun '(s, cu, p) => Ok (Z.of_N s, cu, p))
    = Ok (tbl_dec (table_of 0 (iotaZ n) probs) q).
  Proof.
    unfold contig_quant.
    assert (Hne : cdf_of c probs <> []) by (unfold cdf_of; destruct (cums 0 probs); discriminate).
    destruct (cdf_of c probs) as [|c0 cr] eqn:Ecdf; [contradiction|]. rewrite <- Ecdf. cbn [bind].
    unfold cdf_of at 1. rewrite removelast_snoc.
    rewrite no_equal_search by (intros x; unfold cmp_le_quantile; destruct (x <=? q); discriminate).
    destruct (search_spec (iotaZ n) q (iotaZ_length n)) as (k & s & p & Hpp & Hs & Hp & Hdec).
    assert (Hpp' : partition_point (fun x => match cmp_le_quantile q x with Less => true | _ => false end)
                     (cums 0 probs) = S k).
    { rewrite <- Hpp. clear. induction (cums 0 probs) as [|x r IH]; [reflexivity|].
      cbn [partition_point]. unfold cmp_le_quantile at 1. destruct (x <=? q); [rewrite IH|]; reflexivity. }
    rewrite Hpp'. rewrite csub_succ. cbn [bind].
    destruct (cdf_diff k p Hp) as (Hl & rgt & Hr & Hd & Hp0).
    rewrite (get_unchecked_nat _ _ _ _ Hr). cbn [bind].
    rewrite (get_unchecked_nat _ _ _ _ Hl). cbn [bind].
    rewrite Hd. unfold nonzero_unchecked. destruct (N.eqb_spec p 0) as [E0|_]; [lia|]. cbn [bind].
    rewrite Hdec. f_equal. f_equal. f_equal.
    assert (Hk : (k < n)%nat) by (apply nth_error_Some; congruence).
    unfold iotaZ in Hs. rewrite seq_map_nth in Hs by exact Hk. inversion Hs. apply nat_N_Z.
  Qed.

  (* ================================================================ non-contiguous decoder *)
  Variable ss : list Z.
  Hypothesis Hss : length ss = n.

  Lemma ecdf_nth k s p :
    nth_error ss k = Some s -> nth_error probs k = Some p ->
    nth_error (ecdf c ss probs (last ss 0%Z)) k = Some (sumN (firstn k probs), s).
  Proof.
    intros Hs Hp. unfold ecdf.
    assert (Hk : (k < n)%nat) by (apply nth_error_Some; congruence).
    rewrite nth_error_app_l by (rewrite combine_length, cums_length; lia).
    pose proof (cums_nth 0 probs k p Hp) as Hc'. rewrite N.add_0_l in Hc'.
    apply combine_nth_error; assumption.
  Qed.

  Lemma ecdf_fst : map fst (ecdf c ss probs (last ss 0%Z)) = cdf_of c probs.
  Proof.
    unfold ecdf, cdf_of. rewrite map_app. cbn [map fst]. f_equal.
    apply combine_map_fst. rewrite cums_length. lia.
  Qed.

  Lemma ecdf_length : length (ecdf c ss probs (last ss 0%Z)) = S n.
  Proof. rewrite <- (map_length fst), ecdf_fst. apply cdf_of_length. Qed.

  Lemma ncdec_table_spec : ncdec_table c (ecdf c ss probs (last ss 0%Z)) = Ok (table_of 0 ss probs).
  Proof. apply iter_extended_cdf_spec. exact Hss. Qed.

  Lemma ncdec_support_spec : ncdec_support_size (ecdf c ss probs (last ss 0%Z)) = Ok (N.of_nat n).
  Proof. unfold ncdec_support_size, lenN. rewrite ecdf_length. apply csub_succ. Qed.

  Lemma ncdec_quant_spec q :
    ncdec_quant c (ecdf c ss probs (last ss 0%Z)) q = Ok (tbl_dec (table_of 0 ss probs) q).
  Proof.
    unfold ncdec_quant. set (m := ecdf c ss probs (last ss 0%Z)).
    assert (Hne : m <> []) by (unfold m, ecdf; destruct (combine (cums 0 probs) ss); discriminate).
    destruct m as [|c0 cr] eqn:Em; [contradiction|]. rewrite <- Em. cbn [bind].
    assert (Hrl : removelast m = combine (cums 0 probs) ss) by (unfold m, ecdf; apply removelast_snoc).
    rewrite Hrl.
    rewrite no_equal_search by (intros x; unfold cmp_le_quantile_pair; destruct (fst x <=? q); discriminate).
    destruct (search_spec ss q Hss) as (k & s & p & Hpp & Hs & Hp & Hdec).
    assert (Hpp' : partition_point (fun x => match cmp_le_quantile_pair q x with Less => true | _ => false end)
                     (combine (cums 0 probs) ss) = S k).
    { rewrite <- Hpp.
      assert (Hl : length (cums 0 probs) = length ss) by (rewrite cums_length; lia).
      clear - Hl. revert ss Hl. generalize (cums 0 probs) as cs.
      induction cs as [|x cs IH]; intros [|y ss] Hl; cbn in *; try discriminate; [reflexivity|].
      unfold cmp_le_quantile_pair at 1. cbn [fst]. destruct (x <=? q); [rewrite IH by lia|]; reflexivity. }
    rewrite Hpp'.
    destruct (cdf_diff k p Hp) as (Hl & rgt & Hr & Hd & Hp0).
    assert (Hr' : exists sx, nth_error m (S k) = Some (rgt, sx)).
    { pose proof ecdf_fst as Hf. fold m in Hf. rewrite <- Hf in Hr. rewrite nth_error_map in Hr.
      destruct (nth_error m (S k)) as [[a b]|]; [|discriminate]. cbn in Hr. inversion Hr. eauto. }
    destruct Hr' as (sx & Hr').
    rewrite (get_unchecked_nat _ _ _ _ Hr'). cbn [bind].
    rewrite csub_succ. cbn [bind].
    pose proof (ecdf_nth k s p Hs Hp) as Hlk. fold m in Hlk.
    rewrite (get_unchecked_nat _ _ _ _ Hlk). cbn [bind fst].
    rewrite Hd. unfold nonzero_unchecked. destruct (N.eqb_spec p 0) as [E0|_]; [lia|]. cbn [bind].
    rewrite Hdec. reflexivity.
  Qed.
End Valid.
