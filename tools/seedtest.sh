#!/bin/bash
# usage: seedtest.sh <patch.diff> <prop> [<prop> ...]
# Applies a seeded change to /repo, runs the given checks (quick tier), and undoes it straight afterwards.
P="$1"; shift
cd /repo || exit 2
git diff --quiet || { echo "/repo has uncommitted changes"; exit 2; }
git apply "$P" || { echo "patch does not apply"; exit 3; }
trap 'git -C /repo checkout -- . ' EXIT
for prop in "$@"; do
  ( cd /verif && ./check "$prop" --tier quick 2>&1 | grep -E "^(VIOLATION|OK|FAIL|KNOWN)" )
done
