(* Proofs/Range_dec.v -- the concrete decoder (wrapping arithmetic, zero fill) refines the
   exact-arithmetic decoder of the specification on EVERY text (relation Rdec of DESIGN.md
   Appendix A, modular: digits left of the window never matter). *)
From CV Require Import Base.Bits Model.EModel Model.Range Model.RangeSpec.
From CV Require Import Proofs.Range_base Proofs.Range_spec.
From Coq Require Import ZifyBool ZifyN.
Open Scope N_scope.
Set Default Timeout 30.

Lemma tval_fill wb t j i : (length t <= j)%nat -> tval wb t (j + i) = tval wb t j * Bp wb i.
Proof.
  intros Hj. induction i as [|i IH].
  - rewrite Nat.add_0_r, Bp_0. lia.
  - replace (j + Datatypes.S i)%nat with (Datatypes.S (j + i)) by lia.
    rewrite tval_S, IH, Bp_S. rewrite nth_overflow by lia. lia.
Qed.

Section Dec.
Variable c : rcfg.
Hypothesis Hc : wf_rcfg c.

Local Notation W := (rWB c).
Local Notation SB := (rSB c).
Local Notation B := (Bw c).
Local Notation T := (Tw c).
Local Notation M := (Mw c).

(* ---------- read_point ---------- *)
Lemma read_loop_spec fuel : forall rest point j,
  (j + fuel = wps c)%nat -> point < Bp W j -> text_ok W rest ->
  let r := Nat.min fuel (length rest) in
  read_point_loop c fuel rest point (N.of_nat j) =
    (skipn fuel rest, point * Bp W r + tval W rest r, N.of_nat (j + r)).
Proof.
  induction fuel as [|f IH]; intros rest point j Hj Hp Ht r.
  - subst r. cbn [read_point_loop Nat.min skipn tval]. rewrite Bp_0, Nat.add_0_r. f_equal. f_equal. lia.
  - destruct rest as [|w rest'].
    + subst r. cbn [read_point_loop length Nat.min skipn tval]. rewrite Bp_0, Nat.add_0_r.
      f_equal. f_equal. lia.
    + inversion Ht as [|? ? Hw Ht']; subst.
      cbn [read_point_loop].
      assert (HpT : point < T).
      { rewrite <- (Bp_wps_pred c Hc).
        eapply N.lt_le_trans; [exact Hp|]. unfold Bp. apply pow2_le.
        apply N.mul_le_mono_l. lia. }
      rewrite (shl_W_small c Hc point HpT).
      unfold Bw. rewrite lor_disjoint by assumption.
      replace (N.of_nat j + 1) with (N.of_nat (Datatypes.S j)) by lia.
      rewrite (IH rest' (point * 2 ^ W + w) (Datatypes.S j)); [|lia| |assumption].
      2:{ rewrite Bp_S. pose proof (pow2_pos W). nia. }
      subst r. cbn [length skipn]. rewrite <- Nat.succ_min_distr.
      set (r := Nat.min f (length rest')).
      f_equal; [f_equal|f_equal; lia].
      (* (point * B + w) * B^r + tval rest' r = point * B^(r+1) + tval (w :: rest') (r+1) *)
      rewrite Bp_S.
      assert (E : tval W (w :: rest') (Datatypes.S r) = w * Bp W r + tval W rest' r).
      { change (Datatypes.S r) with (1 + r)%nat. rewrite (tval_split W (w :: rest') 1 r).
        cbn [skipn]. rewrite tval_S. cbn [tval nth]. lia. }
      rewrite E. lia.
Qed.

Lemma read_point_spec t : text_ok W t ->
  read_point c t = (skipn (wps c) t, tval W t (wps c)).
Proof.
  intros Ht. unfold read_point, words_per_state. fold (wps c).
  pose proof (read_loop_spec (wps c) t 0 0%nat eq_refl ltac:(rewrite Bp_0; lia) Ht) as E.
  cbn zeta in E. cbn [N.of_nat] in E. rewrite E. clear E.
  set (r := Nat.min (wps c) (length t)).
  rewrite N.mul_0_l, N.add_0_l, Nat.add_0_l.
  rewrite <- (wps_N c).
  f_equal.
  destruct (N.ltb_spec (N.of_nat r) (N.of_nat (wps c))) as [Hlt|Hge]; cbn [andb].
  - (* fewer than SB/WB words: zero fill *)
    assert (Hr : r = length t) by lia.
    assert (Efill : tval W t (wps c) = tval W t r * Bp W (wps c - r)).
    { replace (wps c) with (r + (wps c - r))%nat at 1 by lia. apply tval_fill. lia. }
    destruct (N.eqb_spec (N.of_nat r) 0) as [H0|Hn0]; cbn [negb].
    + assert (r = 0%nat) by lia. destruct t; [|cbn in *; lia].
      rewrite !tval_nil. reflexivity.
    + rewrite Efill. unfold shl. rewrite shiftl_mul.
      assert (Eexp : 2 ^ (SB - N.of_nat r * W) = Bp W (wps c - r)).
      { unfold Bp. f_equal. rewrite (wps_spec c Hc) at 1.
        replace (N.of_nat (wps c - r)) with (N.of_nat (wps c) - N.of_nat r) by lia. nia. }
      rewrite Eexp. apply trunc_small. rewrite <- (Bp_wps c Hc).
      replace (wps c) with (r + (wps c - r))%nat at 2 by lia. rewrite Bp_add.
      pose proof (tval_lt W t r Ht). pose proof (Bp_pos W (wps c - r)). nia.
  - replace r with (wps c) by lia. reflexivity.
Qed.

(* ---------- the relation ---------- *)
Definition Rdec (t : list N) (d : rdec) (s : sstate) : Prop :=
  d_buf d = t /\ d_range d = sR s /\ d_lower d = sL s mod M /\
  d_point d = spec_window c t s mod M /\
  sL s <= spec_window c t s /\ spec_window c t s <= sL s + sR s /\
  d_rest d = skipn (sk s + wps c) t.

Lemma rdec_from_compressed_refines t : text_ok W t ->
  Rdec t (rdec_from_compressed c t) (spec_init c).
Proof.
  intros Ht. unfold rdec_from_compressed. rewrite (read_point_spec t Ht).
  unfold Rdec, spec_init, spec_window. cbn [d_buf d_rest d_lower d_range d_point sL sR sk Nat.add].
  pose proof (tval_lt W t (wps c) Ht) as Hlt. rewrite (Bp_wps c Hc) in Hlt. fold M in Hlt |- *.
  rewrite smax_eq. fold M.
  split; [reflexivity|]. split; [reflexivity|].
  split; [symmetry; apply N.mod_0_l; pose proof (M_pos c); lia|].
  split; [symmetry; apply N.mod_small; assumption|].
  split; [lia|]. split; [lia|]. reflexivity.
Qed.

(* seek to a position whose spec state is s: the same relation, whatever the decoder was *)
Lemma rdec_seek_refines t d s :
  text_ok W t -> d_buf d = t -> (sk s <= length t)%nat ->
  sL s <= spec_window c t s -> spec_window c t s <= sL s + sR s ->
  exists d', rdec_seek c (N.of_nat (sk s)) (sL s mod M) (sR s) d = Some d' /\ Rdec t d' s.
Proof.
  intros Ht Hbuf Hk HL HU. unfold rdec_seek. rewrite Hbuf.
  destruct (N.ltb_spec (N.of_nat (length t)) (N.of_nat (sk s))) as [Hbad|_]; [lia|].
  rewrite Nat2N.id.
  rewrite (read_point_spec (skipn (sk s) t)) by (apply text_ok_skipn; assumption).
  eexists. split; [reflexivity|].
  unfold Rdec. cbn [d_buf d_rest d_lower d_range d_point].
  repeat split; try assumption; try reflexivity.
  - unfold spec_window. rewrite (tval_split W t (sk s) (wps c)), (Bp_wps c Hc). fold M.
    rewrite N.add_comm, N.mod_add by (pose proof (M_pos c); lia).
    symmetry. apply N.mod_small.
    pose proof (tval_lt W (skipn (sk s) t) (wps c) (text_ok_skipn W t (sk s) Ht)) as Hlt.
    rewrite (Bp_wps c Hc) in Hlt. exact Hlt.
  - apply skipn_add.
Qed.

(* ---------- one decoding step ---------- *)
Lemma rdec_step t d s m :
  Rdec t d s -> SInv c s -> model_ok c m -> text_ok W t ->
  match spec_decode c m t s with
  | Some (x, s') => exists d', rdec_decode c m d = ROk (x, d') /\ Rdec t d' s'
  | None => rdec_decode c m d = RErrInvalidData
  end.
Proof.
  intros (Hbuf & ER & ELo & EPt & HL & HU & Erest) Hs [Hm HPB] Ht.
  set (P := em_prec m).
  assert (HP : prec_ok c P) by (split; [apply (wfm_prec m Hm)|assumption]).
  destruct (scale_bounds c Hc s P Hs HP) as (_ & Hsc2 & Hsc0).
  pose proof Hs as (HTR & HRM & _).
  pose proof (M_pos c) as HM0. pose proof (B_pos c) as HB0. pose proof (M_eq_TB c Hc) as EM.
  unfold spec_decode, spec_quantile, rdec_decode. fold P.
  rewrite shr_div, ER. set (sc := sR s / 2 ^ P) in *.
  destruct (N.eqb_spec sc 0) as [Hbad|_]; [lia|].
  set (X := spec_window c t s) in *.
  assert (Ews : wsub SB (d_point d) (d_lower d) = X - sL s).
  { rewrite EPt, ELo. apply wsub_mod; [assumption|]. fold M. lia. }
  rewrite Ews, (shl1P c Hc P HP).
  destruct (N.leb_spec (2 ^ P) ((X - sL s) / sc)) as [Hinv|Hq]; [reflexivity|].
  set (q := (X - sL s) / sc) in *.
  assert (Etr : trunc (rPB c) (trunc W q) = q).
  { pose proof (P_le_W c Hc P HP). destruct HP as [_ HP2].
    rewrite (trunc_small W q) by (eapply N.lt_le_trans; [exact Hq|apply pow2_le; assumption]).
    apply trunc_small. eapply N.lt_le_trans; [exact Hq|apply pow2_le; assumption]. }
  rewrite Etr.
  pose proof (wfm_dec m Hm q Hq) as Hd.
  destruct (em_dec m q) as [[x cum] p]. destruct Hd as [Henc Hrange].
  destruct (wfm_enc m Hm x cum p Henc) as ([Hp Hcp] & _ & _). fold P in Hcp.
  assert (Hsum : sc * cum + sc * p <= sR s) by (clear - Hsc2 Hcp; pnia).
  assert (Hscp : 0 < sc * p) by (clear - Hsc0 Hp; nia).
  fold M.
  destruct (N.leb_spec M (sc * cum)) as [Hbad|_]; [lia|].
  destruct (N.leb_spec M (sc * p)) as [Hbad|_]; [lia|].
  destruct (N.eqb_spec (sc * p) 0) as [Hbad|_]; [lia|].
  rewrite (rthr_eq c Hc).
  (* the invariant of the new state comes from the spec-level lemma *)
  assert (Hdec : spec_decode c m t s = Some (x, spec_step c P cum p s)).
  { apply spec_decode_correct; try assumption; [split; assumption| |].
    - fold P sc X. destruct (quantile_out c Hc s P cum p X Hs HP HL Hrange) as [H1 _]. exact H1.
    - fold P sc X. destruct (quantile_out c Hc s P cum p X Hs HP HL Hrange) as [_ H2]. exact H2. }
  destruct (spec_decode_inv c Hc m t s x _ Hs (conj Hm HPB) Ht HL Hdec) as (_ & _ & HL' & HU').
  destruct (spec_step_shape c s P cum p) as (dd & Hdd & EL1 & ER1 & Ek1). fold sc in Hdd, EL1, ER1.
  set (s1 := spec_step c P cum p s) in *.
  assert (Elow1 : wadd SB (d_lower d) (sc * cum) = (sL s + sc * cum) mod M).
  { rewrite wadd_mod, ELo. fold M. rewrite N.add_mod_idemp_l by lia. reflexivity. }
  destruct Hdd as [[-> Hge]|[-> Hlt]].
  - (* no renormalisation *)
    destruct (N.ltb_spec (sc * p) T) as [Hbad|_]; [lia|].
    eexists. split; [reflexivity|].
    rewrite Bp_0, N.mul_1_r in EL1, ER1.
    assert (EW : spec_window c t s1 = X).
    { unfold spec_window, X. rewrite Ek1, Nat.add_0_r. reflexivity. }
    unfold Rdec. cbn [d_buf d_rest d_lower d_range d_point].
    rewrite EL1, ER1, EW, Ek1, Nat.add_0_r. rewrite EW in HL', HU'. rewrite EL1 in HL', HU'. rewrite ER1 in HU'.
    repeat split; try assumption; try lia.
  - (* renormalisation: one more word enters the window *)
    destruct (N.ltb_spec (sc * p) T) as [_|Hbad]; [|lia].
    rewrite Bp_1 in EL1, ER1. fold B in EL1, ER1.
    assert (EW : spec_window c t s1 = X * B + nth (sk s + wps c) t 0).
    { apply window_step; [assumption|rewrite Ek1; lia]. }
    pose proof (text_nth W t (sk s + wps c) Ht) as Hn. fold B in Hn.
    assert (Elow2 : shl SB (wadd SB (d_lower d) (sc * cum)) W = sL s1 mod M).
    { rewrite Elow1, shl_W. rewrite N.mul_mod_idemp_l by lia. rewrite EL1. reflexivity. }
    assert (Er2 : shl SB (sc * p) W = sR s1).
    { rewrite (shl_W_small c Hc _ Hlt). symmetry. exact ER1. }
    assert (Ept2 : shl SB (d_point d) W = (X * B) mod M).
    { rewrite EPt, shl_W. rewrite N.mul_mod_idemp_l by lia. reflexivity. }
    assert (Eskip : skipn (sk s1 + wps c) t = tl (skipn (sk s + wps c) t)).
    { rewrite Ek1. replace (sk s + 1 + wps c)%nat with ((sk s + wps c) + 1)%nat by lia.
      rewrite <- (skipn_add t 1 (sk s + wps c)).
      destruct (skipn (sk s + wps c) t); reflexivity. }
    assert (Ehd : nth (sk s + wps c) t 0 = hd 0 (skipn (sk s + wps c) t)).
    { rewrite <- (Nat.add_0_r (sk s + wps c)) at 1. rewrite <- nth_skipn_add.
      destruct (skipn (sk s + wps c) t); reflexivity. }
    (* (X*B) mod M is a multiple of B, so | w is + w and stays below M *)
    assert (Elor : forall w, w < B -> N.lor ((X * B) mod M) w = (X * B + w) mod M).
    { intros w Hw. apply (lor_low_word c Hc). exact Hw. }
    rewrite Erest in *.
    destruct (skipn (sk s + wps c) t) as [|w r] eqn:Esk.
    + cbn [hd] in Ehd. rewrite Ehd, N.add_0_r in EW.
      eexists. split; [reflexivity|].
      unfold Rdec. cbn [d_buf d_rest d_lower d_range d_point].
      rewrite EW. rewrite EW in HL', HU'.
      repeat split; try assumption; try lia. symmetry. exact Eskip.
    + cbn [hd] in Ehd. rewrite Ehd in EW, Hn.
      eexists. split; [reflexivity|].
      unfold Rdec. cbn [d_buf d_rest d_lower d_range d_point].
      rewrite EW. rewrite EW in HL', HU'.
      repeat split; try assumption; try lia.
      * rewrite Ept2. apply Elor. assumption.
      * symmetry. exact Eskip.
Qed.

(* ---------- a sequence of symbols ---------- *)
Lemma rdec_decode_all_refines t ms : forall d s,
  Rdec t d s -> SInv c s -> Forall (model_ok c) ms -> text_ok W t ->
  match spec_decode_all c ms t s with
  | Some (xs, s') => exists d', rdec_decode_all c ms d = ROk (xs, d') /\ Rdec t d' s' /\ SInv c s'
  | None => rdec_decode_all c ms d = RErrInvalidData
  end.
Proof.
  induction ms as [|m r IH]; intros d s HR Hs Hms Ht.
  - cbn. exists d. auto.
  - inversion Hms as [|? ? Hm Hr]; subst. cbn [spec_decode_all rdec_decode_all].
    pose proof (rdec_step t d s m HR Hs Hm Ht) as Hstep.
    destruct (spec_decode c m t s) as [[x s1]|] eqn:Ed.
    + destruct Hstep as (d1 & E1 & HR1). rewrite E1.
      destruct HR as (_ & _ & _ & _ & HL & _ & _).
      destruct (spec_decode_inv c Hc m t s x s1 Hs Hm Ht HL Ed) as (Hs1 & _).
      specialize (IH d1 s1 HR1 Hs1 Hr Ht).
      destruct (spec_decode_all c r t s1) as [[xs s2]|].
      * destruct IH as (d2 & E2 & HR2 & Hs2). rewrite E2. exists d2. auto.
      * rewrite IH. reflexivity.
    + rewrite Hstep. reflexivity.
Qed.

End Dec.
