"""Family `huff`: Huffman codebooks (EncoderHuffmanTree / DecoderHuffmanTree), property C15.

Input (ints):  kind n w_0 .. w_{n-1}  ops...
  kind 0/1/2 = u8/u32/u64 weights, 3/4 = f32/f64 weights as IEEE bit patterns.
Output: <enc status> <dec status>  (0 | -6 NanError; an error ends the case; empty input panics),
  then per op
       1 s          encode_symbol_suffix                  -> -1 | len bits..
       2 s          encode_symbol_prefix                  -> -1 | len bits..
       3 k s.. e    QueueEncoder<u32>.encode_iid_symbols  -> 0 | -1, into_decoder, k+e decodes
                                                             (sym | -5 each)
       4 k s.. e    StackCoder<u32>.encode_iid_symbols_reverse -> 0 | -1, k+e decodes
       5 k b..      decode_symbol on an explicit bit iterator  -> (sym | -5) consumed
       6            num_symbols (encoder tree, decoder tree)
       7            for each s < num_symbols: suffix form, prefix form, single-symbol round trip on
                    a queue, on a stack, stack empty afterwards
"""
import struct
from fractions import Fraction

FAMILY = "huff"
RUNNER = ("Corr.Huff_run", "run_huff")

SPECIAL = (-999999, -999998, -999997, -999996)   # panic, abort, timeout, arithmetic panic
BITS = {0: 8, 1: 32, 2: 64}


# ---------------------------------------------------------------- float helpers

def f32_bits(x):
    return struct.unpack("<I", struct.pack("<f", x))[0]


def f64_bits(x):
    return struct.unpack("<Q", struct.pack("<d", x))[0]


def bits_f32(b):
    return struct.unpack("<f", struct.pack("<I", b))[0]


def bits_f64(b):
    return struct.unpack("<d", struct.pack("<Q", b))[0]


def to_float(kind, b):
    return bits_f32(b) if kind == 3 else bits_f64(b)


def from_float(kind, x):
    return f32_bits(x) if kind == 3 else f64_bits(x)


def is_nan_bits(kind, b):
    x = to_float(kind, b)
    return x != x


INF = float("inf")


# ---------------------------------------------------------------- generators

def _sizes(rng):
    return rng.choice([1, 1, 2, 2, 3, 4, 5, 7, 8, 9, 16, 17, 31, 32, 33, rng.randint(1, 40),
                       rng.randint(1, 40), rng.randint(40, 120), rng.randint(100, 200)])


def _int_weights(rng, kind):
    bits = BITS[kind]
    cap = (1 << bits) - 1          # the SUM must fit: integer addition overflow is out of scope
    n = _sizes(rng)
    style = rng.choice(["zeros", "equal", "fib", "small", "ties", "rand", "pow2", "onebig", "geom", "twolevels"])
    if style == "zeros":
        ws = [0] * n
        if rng.random() < 0.5:
            ws[rng.randrange(n)] = rng.choice([1, min(cap, 5)])
    elif style == "equal":
        v = rng.choice([1, 1, 2, 3, max(1, cap // (n * 2)), max(1, cap // n)])
        ws = [v] * n
    elif style == "fib":
        a, b, ws = 1, 1, []
        while len(ws) < n and sum(ws) + a <= cap:
            ws.append(a)
            a, b = b, a + b
        rng.shuffle(ws) if rng.random() < 0.5 else None
    elif style == "small":
        ws = [rng.randint(0, 3) for _ in range(n)]
    elif style == "ties":
        vals = [rng.randint(0, 20) for _ in range(rng.randint(1, 3))]
        ws = [rng.choice(vals) for _ in range(n)]
    elif style == "pow2":
        ws = [1 << rng.randint(0, min(bits - 1, 12)) for _ in range(n)]
    elif style == "onebig":
        ws = [rng.randint(0, 2) for _ in range(n)]
        ws[rng.randrange(n)] = cap // 2
    elif style == "geom":
        ws = [max(0, cap >> (i + 2)) for i in range(n)]
        rng.shuffle(ws) if rng.random() < 0.5 else None
    elif style == "twolevels":
        ws = [rng.choice([1, 1, 1, 1000 % (cap + 1)]) for _ in range(n)]
    else:
        hi = max(1, cap // max(1, n))
        ws = [rng.randint(0, hi) for _ in range(n)]
    # scale down until the total fits the weight type
    while sum(ws) > cap:
        ws = [w // 2 for w in ws]
    return ws


def _float_weights(rng, kind):
    n = _sizes(rng)
    style = rng.choice(["ints", "ints", "dyadic", "equal", "zeros", "rand", "rand", "fib", "inf", "tiny", "neg",
                        "nan", "huge"])
    mant = 24 if kind == 3 else 53
    if style == "ints":
        ws = [float(rng.randint(0, 30)) for _ in range(n)]
    elif style == "dyadic":
        e = rng.randint(-20, 20)
        ws = [rng.randint(0, 1000) * 2.0 ** e for _ in range(n)]
    elif style == "equal":
        v = rng.choice([1.0, 0.1, 0.5, 1.0 / 3.0, 1e-30, 1e30])
        ws = [v] * n
    elif style == "zeros":
        ws = [rng.choice([0.0, -0.0]) for _ in range(n)]
        if rng.random() < 0.5:
            ws[rng.randrange(n)] = rng.choice([1.0, 5e-324 if kind == 4 else 1.4e-45])
    elif style == "fib":
        a, b, ws = 1.0, 1.0, []
        for _ in range(min(n, 70)):
            ws.append(a)
            a, b = b, a + b
        rng.shuffle(ws) if rng.random() < 0.5 else None
    elif style == "inf":
        ws = [rng.choice([INF, 1.0, 2.0, 0.0, 1e30]) for _ in range(n)]
    elif style == "tiny":
        sub = 5e-324 if kind == 4 else 1.4e-45
        ws = [rng.randint(0, 5) * sub for _ in range(n)]
    elif style == "neg":
        # negative weights are accepted by the constructor (outside C15's "non-negative" scope for
        # optimality, inside it for everything structural).  Never together with +inf: inf + -inf is a
        # NaN inside the heap, whose order std does not specify (model: E_HeapNaN).
        ws = [rng.choice([-1.0, -2.5, 0.0, -0.0, 1.0, 3.0, rng.uniform(-5, 5)]) for _ in range(n)]
    elif style == "nan":
        ws = [rng.choice([1.0, 2.0, 0.5]) for _ in range(n)]
        nan_bits = rng.choice([0x7FC00000, 0xFFC00000, 0x7F800001, 0x7FFFFFFF] if kind == 3 else
                              [0x7FF8000000000000, 0xFFF8000000000000, 0x7FF0000000000001, 0x7FFFFFFFFFFFFFFF])
        out = [from_float(kind, w) for w in ws]
        for _ in range(rng.randint(1, 2)):
            out[rng.randrange(n)] = nan_bits
        return out
    elif style == "huge":
        big = 3.0e38 if kind == 3 else 1.7e308
        ws = [rng.choice([big, big / 2, 1.0, big / 4]) for _ in range(n)]
    else:
        ws = [rng.random() * rng.choice([1.0, 1.0, 1e-3, 1e6]) for _ in range(n)]
    bits = [from_float(kind, w) for w in ws]
    # round-trip through the format (f32) so that both sides see the same value
    return bits


def _ops(rng, n, full_dump=True):
    ops = [6]
    if full_dump:
        ops += [7]
    out_syms = [n, n + 1, 2 * n - 1, 2 * n, (1 << 16) + rng.randrange(n), (1 << 32) + rng.randrange(n),
                (1 << 63), (1 << 64) - 1, (1 << 64) - n]
    for _ in range(rng.randint(1, 4)):
        ops += [rng.choice([1, 2]), rng.choice(out_syms)]
    for _ in range(rng.randint(0, 3)):
        ops += [rng.choice([1, 2]), rng.randrange(n)]
    for _ in range(rng.randint(1, 3)):
        k = rng.choice([0, 1, 2, 5, rng.randint(0, 40)])
        syms = [rng.randrange(n) for _ in range(k)]
        if k and rng.random() < 0.15:
            syms[rng.randrange(k)] = rng.choice(out_syms)
        ops += [rng.choice([3, 4]), k] + syms + [rng.choice([0, 0, 1, 2])]
    for _ in range(rng.randint(1, 3)):
        k = rng.choice([0, 1, 2, 3, rng.randint(0, 24)])
        ops += [5, k] + [rng.getrandbits(1) for _ in range(k)]
    return ops


def _total_len(vals):
    """sum of the codeword lengths of a Huffman code for these (approximate) weights"""
    import heapq
    heap = [(v, i) for i, v in enumerate(vals)]
    heapq.heapify(heap)
    cnt = {i: 1 for i in range(len(vals))}     # leaves below each node
    nxt = len(vals)
    total = 0
    while len(heap) >= 2:
        a = heapq.heappop(heap)
        b = heapq.heappop(heap)
        cnt[nxt] = cnt[a[1]] + cnt[b[1]]
        total += cnt[nxt]
        heapq.heappush(heap, (a[0] + b[0], nxt))
        nxt += 1
    return total


def _fit(kind, ws):
    """Deep trees make the full dump quadratic in n: shorten the weight list until the dump stays
    below ~9000 ints (Coq's parser overflows its stack on list literals beyond ~30000 entries)."""
    while len(ws) > 1:
        vals = ws if kind <= 2 else [to_float(kind, b) for b in ws]
        if any(v != v for v in vals) or 2 * _total_len(vals) <= 9000:
            break
        ws = ws[:len(ws) * 2 // 3]
    return ws


def gen_int(rng):
    """integer weights (u8/u32/u64): zeros, all-equal, Fibonacci-like, ties, one dominating weight;
    1..200 symbols; full dump + out-of-alphabet symbols + messages + arbitrary bits"""
    kind = rng.choice([0, 1, 1, 2, 2])
    ws = _fit(kind, _int_weights(rng, kind))
    return [kind, len(ws)] + ws + _ops(rng, len(ws))


def gen_float(rng):
    """float weights (f32/f64 bit patterns): exact small integers (ties), dyadic, +-0, denormals,
    +inf, huge (sums overflow to +inf), negative, NaN (must be rejected)"""
    kind = rng.choice([3, 4])
    ws = _fit(kind, _float_weights(rng, kind))
    return [kind, len(ws)] + ws + _ops(rng, len(ws))


def gen_edge(rng):
    """the empty alphabet (panics: out of scope), one symbol, two symbols, exact ties"""
    kind = rng.choice([0, 1, 2, 3, 4])
    n = rng.choice([0, 1, 1, 2, 2, 3])
    if kind <= 2:
        ws = [rng.choice([0, 1, 1, 2]) for _ in range(n)]
    else:
        ws = [from_float(kind, rng.choice([0.0, -0.0, 1.0, 1.0, 2.0, INF])) for _ in range(n)]
    if n == 0:
        return [kind, 0, 7, 6]
    return [kind, n] + ws + _ops(rng, n)


# ---------------------------------------------------------------- output walking

class Malformed(Exception):
    pass


def parse_input(inp):
    kind, n = inp[0], inp[1]
    ws = inp[2:2 + n]
    return kind, n, ws, inp[2 + n:]


def _take_bits(out, o):
    """-> (bits | None (=-1), new offset)"""
    if o >= len(out):
        raise Malformed()
    if out[o] < 0:
        return out[o], o + 1
    k = out[o]
    if o + 1 + k > len(out):
        raise Malformed()
    return out[o + 1:o + 1 + k], o + 1 + k


def walk(inp, out):
    """yields (op, args, result) after the two status ints; for op 7 result is a list of per-symbol
    tuples (suffix, prefix, queue, stack, empty).  The number of dumped symbols is taken from the
    input (n) -- a wrong count shows up as a malformed / misaligned output."""
    kind, n, ws, ops = parse_input(inp)
    o = 2
    i = 0
    while i < len(ops):
        op = ops[i]
        if op in (1, 2):
            res, o = _take_bits(out, o)
            yield (op, ops[i + 1], res)
            i += 2
        elif op in (3, 4):
            k = ops[i + 1]
            syms = ops[i + 2:i + 2 + k]
            extra = ops[i + 2 + k]
            if o + 1 + k + extra > len(out):
                raise Malformed()
            yield (op, (syms, extra), (out[o], out[o + 1:o + 1 + k + extra]))
            o += 1 + k + extra
            i += 3 + k
        elif op == 5:
            k = ops[i + 1]
            if o + 2 > len(out):
                raise Malformed()
            yield (5, ops[i + 2:i + 2 + k], (out[o], out[o + 1]))
            o += 2
            i += 2 + k
        elif op == 6:
            if o + 2 > len(out):
                raise Malformed()
            yield (6, None, (out[o], out[o + 1]))
            o += 2
            i += 1
        elif op == 7:
            rows = []
            for s in range(n):
                suf, o = _take_bits(out, o)
                pre, o = _take_bits(out, o)
                if o + 3 > len(out):
                    raise Malformed()
                rows.append((suf, pre, out[o], out[o + 1], out[o + 2]))
                o += 3
            yield (7, None, rows)
            i += 1
        else:
            raise Malformed()
    if o != len(out):
        raise Malformed()


# ---------------------------------------------------------------- independent reference computations

def exact_weights(kind, ws):
    """exact rational values, or None if some weight is not a finite number"""
    if kind <= 2:
        return [Fraction(w) for w in ws]
    vals = []
    for b in ws:
        x = to_float(kind, b)
        if x != x or x in (INF, -INF):
            return None
        vals.append(Fraction(x))
    return vals


def sums_exact(kind, vals):
    """True if every sum of a subset of the weights is exactly representable in the weight type, so
    that the implementation's additions are exact (integers: the total fits; floats: all weights are
    multiples of one power of two and the total is below 2^mantissa of these units)."""
    if kind <= 2:
        return sum(vals) < (1 << BITS[kind])
    if any(v < 0 for v in vals):
        return False
    nz = [v for v in vals if v != 0]
    if not nz:
        return True
    mant = 24 if kind == 3 else 53
    # unit = largest power of two dividing all weights
    from math import gcd
    den = 1
    for v in nz:
        den = den * v.denominator // gcd(den, v.denominator)
    ints = [int(v * den) for v in nz]
    g = 0
    for x in ints:
        g = gcd(g, x)
    unit = g & -g                  # power-of-two part of the gcd
    if den & (den - 1):
        return False
    total = sum(ints) // unit
    # the largest sum must not exceed the normal range either
    top = Fraction(sum(ints), den)
    limit = Fraction(2) ** (127 if kind == 3 else 1023)
    emin_unit = Fraction(1, 2 ** (149 if kind == 3 else 1074))
    return total < (1 << mant) and top < limit and Fraction(unit, den) >= emin_unit


def optimal_cost(vals):
    """two-queue method (van Leeuwen): sorted leaves in one queue, merged nodes in a second one"""
    from collections import deque
    q1 = deque(sorted(vals))
    q2 = deque()
    cost = 0

    def pop():
        if q1 and (not q2 or q1[0] <= q2[0]):
            return q1.popleft()
        return q2.popleft()
    while len(q1) + len(q2) > 1:
        a = pop()
        b = pop()
        cost += a + b
        q2.append(a + b)
    return cost


def reference_codewords(vals):
    """prefix codewords of the Huffman code whose ties are broken by node index ((weight, index)
    order; the first popped node gets bit 0): the property's determinism clause, computed with
    heapq on exact values"""
    import heapq
    n = len(vals)
    heap = [(v, i) for i, v in enumerate(vals)]
    heapq.heapify(heap)
    parent = {}
    nxt = n
    while len(heap) >= 2:
        a = heapq.heappop(heap)
        b = heapq.heappop(heap)
        parent[a[1]] = (nxt, 0)
        parent[b[1]] = (nxt, 1)
        heapq.heappush(heap, (a[0] + b[0], nxt))
        nxt += 1
    res = []
    for s in range(n):
        bits = []
        v = s
        while v in parent:
            v, b = parent[v]
            bits.append(b)
        res.append(bits[::-1])
    return res


# ---------------------------------------------------------------- oracle (on IMPLEMENTATION output)

def oracle_C15(inp, out):
    kind, n, ws, ops = parse_input(inp)
    if n == 0:
        return None                      # the property speaks about non-empty weight lists
    if any(x in SPECIAL for x in out):
        return "panic/abort/timeout on a non-empty weight list"
    has_nan = kind >= 3 and any(is_nan_bits(kind, b) for b in ws)
    if len(out) < 2:
        return "malformed output"
    if has_nan:
        return None if out == [-6, -6] else "NaN weight not rejected by both constructors"
    if out[0] != 0 or out[1] != 0:
        return "constructor failed on NaN-free weights"
    rows = None
    try:
        items = list(walk(inp, out))
    except Malformed:
        return "malformed output (wrong number of symbols or results)"
    for op, args, res in items:
        if op == 7:
            rows = res
    code = None
    if rows is not None:
        code = []
        for s, (suf, pre, q, st, empty) in enumerate(rows):
            if not isinstance(suf, list) or not isinstance(pre, list):
                return "symbol %d of the alphabet rejected" % s
            if pre != suf[::-1]:
                return "prefix form of symbol %d is not the reverse of its suffix form" % s
            if q != s:
                return "queue round trip of symbol %d gives %d" % (s, q)
            if st != s or empty != 1:
                return "stack round trip of symbol %d gives %d (empty=%d)" % (s, st, empty)
            code.append(pre)
        # prefix-free
        srt = sorted(range(n), key=lambda s: code[s])
        for a, b in zip(srt, srt[1:]):
            ca, cb = code[a], code[b]
            if cb[:len(ca)] == ca:
                return "codeword of %d is a prefix of the codeword of %d" % (a, b)
        # Kraft equality (complete code); for one symbol the codeword is empty
        L = max(len(c) for c in code)
        if sum(1 << (L - len(c)) for c in code) != (1 << L):
            return "Kraft sum differs from 1"
        if n == 1 and code[0] != []:
            return "single symbol has a non-empty codeword"
        # optimality and tie-breaking by index, where additions are exact
        vals = exact_weights(kind, ws)
        if vals is not None and all(v >= 0 for v in vals) and sums_exact(kind, vals):
            cost = sum(v * len(c) for v, c in zip(vals, code))
            opt = optimal_cost(vals)
            if cost != opt:
                return "total weighted length %s is not the optimum %s" % (cost, opt)
            ref = reference_codewords(vals)
            if ref != code:
                s = next(s for s in range(n) if ref[s] != code[s])
                return "ties not broken by index: codeword of %d is %r, expected %r" % (s, code[s], ref[s])
    for op, args, res in items:
        if op in (1, 2):
            s = args
            if s >= n:
                if res != -1:
                    return "symbol %d outside the alphabet not rejected" % s
            else:
                if not isinstance(res, list):
                    return "symbol %d of the alphabet rejected" % s
                if code is not None and res != (code[s] if op == 2 else code[s][::-1]):
                    return "codeword of %d differs between calls" % s
        elif op in (3, 4):
            syms, extra = args
            status, dec = res
            if all(s < n for s in syms):
                if status != 0:
                    return "encoding a valid message failed"
                if dec[:len(syms)] != syms:
                    return "message round trip (%s) failed" % ("queue" if op == 3 else "stack")
            elif status != -1:
                return "message with a symbol outside the alphabet not rejected"
        elif op == 5 and code is not None:
            bits = args
            sym, consumed = res
            hit = [s for s in range(n) if bits[:len(code[s])] == code[s]]
            if hit:
                if sym != hit[0] or consumed != len(code[hit[0]]):
                    return "decoding bits %r gives (%d,%d), expected symbol %d" % (bits, sym, consumed, hit[0])
            elif sym != -5 or consumed != len(bits):
                return "incomplete codeword %r not reported as out of data" % (bits,)
        elif op == 6:
            if res != (n, n):
                return "num_symbols %r != %d" % (res, n)
    return None


def oracle_C09(inp, out):
    """symbols outside the alphabet are rejected by both codeword forms and by the message forms;
    symbols of the alphabet never are"""
    kind, n, ws, ops = parse_input(inp)
    if n == 0 or len(out) < 2 or out[0] != 0 or out[1] != 0:
        return None
    if any(x in SPECIAL for x in out):
        return "panic/abort/timeout on a non-empty weight list"
    try:
        items = list(walk(inp, out))
    except Malformed:
        return "malformed output (wrong number of symbols or results)"
    for op, args, res in items:
        if op in (1, 2):
            if args >= n and res != -1:
                return "symbol %d outside the alphabet not rejected" % args
            if args < n and not isinstance(res, list):
                return "symbol %d of the alphabet rejected" % args
        elif op in (3, 4):
            syms, extra = args
            status, dec = res
            if all(s < n for s in syms):
                if status != 0:
                    return "encoding a valid message failed"
            elif status != -1:
                return "message with a symbol outside the alphabet not rejected"
    return None


ORACLES = {"C15": oracle_C15, "C09": oracle_C09}


def nontrivial(inp, out, prop=None):
    """>= 2 symbols, both trees built, and a full dump of all codewords present"""
    try:
        kind, n, ws, ops = parse_input(inp)
        return n >= 2 and out[:2] == [0, 0] and any(op == 7 for op, a, r in walk(inp, out))
    except Exception:
        return False


def describe(inp):
    kind, n, ws, ops = parse_input(inp)
    names = {0: "u8", 1: "u32", 2: "u64", 3: "f32", 4: "f64"}
    if kind >= 3:
        shown = [to_float(kind, b) for b in ws[:8]]
    else:
        shown = ws[:8]
    return "huff weights=%s n=%d %s%s ops=%d ints" % (names.get(kind), n, shown, "..." if n > 8 else "", len(ops))


def _split_ops(ops):
    """list of op chunks (each a list of ints)"""
    res, i = [], 0
    while i < len(ops):
        op = ops[i]
        if op in (1, 2):
            k = 2
        elif op in (3, 4):
            k = 3 + ops[i + 1]
        elif op == 5:
            k = 2 + ops[i + 1]
        else:
            k = 1
        res.append(ops[i:i + k])
        i += k
    return res


def shrink_candidates(inp):
    """smaller inputs for delta debugging: one op dropped; only the dump kept; weight list cut
    (ops reduced to num_symbols + dump, since the other ops depend on n)"""
    kind, n, ws, ops = parse_input(inp)
    try:
        chunks = _split_ops(ops)
    except IndexError:
        chunks = []
    for j in range(len(chunks)):
        yield [kind, n] + ws + [x for c in chunks[:j] + chunks[j + 1:] for x in c]
    if ops != [6, 7]:
        yield [kind, n] + ws + [6, 7]
    for m in (n // 2, n - 1):
        if 1 <= m < n:
            yield [kind, m] + ws[:m] + [6, 7]
            yield [kind, m] + ws[n - m:] + [6, 7]


def weight_sum_overflows(inp):
    """Class of inputs outside the model (NOT generated, NOT registered as a known finding here):
    integer weights whose total does not fit the weight type -- P::add panics in debug builds and
    wraps in release builds (e.g. u8 [90]*8: release returns lengths 4,4,4,4,3,3,2,2, cost 2340
    instead of the optimum 2160)."""
    kind, n, ws, ops = parse_input(inp)
    return kind <= 2 and sum(ws) >= (1 << BITS[kind])


def gen_overflow(rng):
    """NOT registered in props.py: integer weights whose sum overflows the weight type (see
    weight_sum_overflows).  Debug and release builds differ on these inputs."""
    kind = rng.choice([0, 0, 1, 2])
    bits = BITS[kind]
    n = rng.randint(2, 12)
    ws = [rng.randint((1 << bits) // n, (1 << bits) - 1) for _ in range(n)]
    return [kind, n] + ws + [6, 7]


KNOWN_CLASSES = {"huffman_weight_sum_overflow": weight_sum_overflows}
