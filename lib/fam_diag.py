"""Family `diag` (C18, last sentence): information-theoretic diagnostics of an entropy model.

Anchors: default methods of `IterableEntropyModel` in src/stream/model.rs
(`floating_point_symbol_table`, `entropy_base2`, `cross_entropy_base2`,
`reverse_cross_entropy_base2`, `kl_divergence_base2`, `reverse_kl_divergence_base2`).

case   = [inst, n, q_1 .. q_n, nvec, (mask, x_1 .. x_n)*] (+ [1] = "certify the entropy in Coq")
         inst indexes INSTS; x_i are f64 bit patterns; mask: 1 cross entropy, 2 reverse cross
         entropy, 4 KL, 8 reverse KL (which diagnostics are evaluated on that vector)
result = [-1] (table refused) | EXACT part ++ APPROXIMATE part
         EXACT  = [n] ++ [sym_i, bits64(cum_i/2^P), bits64(q_i/2^P)]_i ++ [bits32(..), bits32(..)]_i
                  (f32 view only where Probability -> f32 is lossless) ++ bits64 of
                  EncoderModel::floating_point_probability(s) for s = 0, n-1, n (n: outside support)
         APPROX = [bits64(entropy)] ++ per vector the requested diagnostics as f64 bit patterns

The family is judged in two ways because floats cannot be compared with a real-number model:
  * EXACT part (`exact_part`): the float views of the probabilities, as IEEE bit patterns, must
    be reproduced bit for bit by the Coq model `run_diag` (Corr/Diag_run.v), whose bit patterns
    are proved to denote q / 2^P (Props/C18_diag.v).
  * APPROXIMATE part: the oracle recomputes each diagnostic from the TEXTBOOK definition on the
    exact probabilities q_i / 2^P with 60 significant decimal digits and accepts

        |reported - exact|  <=  (n + 8) * 2^-50 * max(1, S)          (+ P * |1 - sum p| for KL)

    where S = sum_i |f_i| (|a_i| + |b_i|) (/ 2^P where the code divides) + P (where the code
    adds/subtracts P), for terms of the shape f * (a - b) resp. f * a.  Derivation (u = 2^-53):
    libm log2 is accurate to < 2 ulp (4u relative), a subtraction and a product add u each, so
    a term is off by <= 6u |f|(|a|+|b|); left-to-right summation of n terms adds <= (n-1) u
    sum|term|; the division by `whole` is exact (power of two); the final +-P adds <= u(|res|+P).
    Total <= (n + 7) u S.  The accepted bound is 8 (n + 8) u max(1, S): a factor >= 8 of
    slack, while any change of the formula (sign, missing `/ whole`, P-1, swapped arguments)
    moves the result by at least ~2^-40 relative on non-degenerate inputs.
    KL: the code adds P once ("assumes that p is normalized"); a float vector sums to 1 only
    up to rounding, so the exactly computed P * |1 - sum p_i| is added to the tolerance.
  * thorough tier (2 instances in the quick tier): per-instance Coq certificates
    `Rabs (entropy_def P t - reported) <= eps` proved by the `interval` tactic for tables of
    <= 16 entries (generator `gen_cert`); every such case is one compiled certificate.
"""
import math
import os
import struct
import subprocess
import tempfile
from decimal import Decimal, getcontext, localcontext
from fractions import Fraction
from functools import lru_cache

from gen_models import gen_parts

FAMILY = "diag"
RUNNER = ("Corr.Diag_run", "run_diag")

# (Probability::BITS, PRECISION, has f32 view) -- same menu as harness/src/fam_diag.rs and Corr/Diag_run.v
INSTS = [(32, 24, False), (16, 12, True), (8, 8, True), (32, 32, False), (16, 16, True), (8, 1, True)]
INST_WEIGHTS = [30, 20, 15, 25, 8, 2]

M_CE, M_RCE, M_KL, M_RKL = 1, 2, 4, 8
NAMES = {M_CE: "cross_entropy", M_RCE: "reverse_cross_entropy", M_KL: "kl", M_RKL: "reverse_kl"}
SPECIAL = (-999999, -999998, -999997)
INF_BITS = 0x7FF0000000000000
PREC = 60


def f2b(x):
    return struct.unpack("<Q", struct.pack("<d", x))[0]


def b2f(b):
    return struct.unpack("<d", struct.pack("<Q", b))[0]


def b2f32(b):
    return struct.unpack("<f", struct.pack("<I", b))[0]


# ------------------------------------------------------------------ generators

def _gen_qs(rng, P, max_n=300):
    total = 1 << P
    r = rng.random()
    # sizes: mostly small (Coq spends ~1 ms per 64-bit literal of a case, see props.py counts);
    # 2% large tables exercise the summation error of up to 300 terms
    if r < 0.6:
        n = rng.randint(2, 6)
    elif r < 0.9:
        n = rng.randint(7, 24)
    elif r < 0.98:
        n = rng.randint(25, 64)
    else:
        n = rng.randint(65, max(65, max_n))
    n = max(2, min(n, total, max_n))
    r = rng.random()
    if n == 2 and r < 0.5 and total > 2:
        return rng.choice([[1, total - 1], [total - 1, 1], [total // 2, total // 2]])
    if r < 0.1 and total >= 4 * n:
        # powers of two only (every log2 exact)
        qs = [total // 2]
        rest = total // 2
        while len(qs) < n - 1 and rest >= 2:
            rest //= 2
            qs.append(rest)
        qs.append(total - sum(qs))
        rng.shuffle(qs)
        return qs
    return gen_parts(rng, total, n)


def _rand_pos(rng):
    r = rng.random()
    if r < 0.5:
        return rng.random() + 2.0 ** -60
    if r < 0.8:
        return math.exp(rng.uniform(-40.0, 3.0))
    if r < 0.9:
        return 2.0 ** rng.randint(-30, 4)
    return rng.choice([5e-324, 2.2250738585072014e-308, 1e-300, 1e-100, 1.0, 0.5, 1e6])


def _normalise(w):
    s = math.fsum(w)
    return [x / s for x in w]


def _gen_vec(rng, P, qs):
    """Returns (mask, [floats]) -- mask says which diagnostics are within their documented domain."""
    n = len(qs)
    kind = rng.choice(["norm_pos", "norm_pos", "norm_zeros", "norm_zeros", "own", "onehot", "near",
                       "unnorm_any", "unnorm_any", "unnorm_pos"])
    if kind == "norm_pos":
        w = [rng.random() + 1e-3 if rng.random() < 0.7 else math.exp(rng.uniform(-30, 0)) for _ in range(n)]
        return 15, _normalise(w)
    if kind == "norm_zeros":
        w = [0.0 if rng.random() < 0.4 else rng.random() + 1e-6 for _ in range(n)]
        if not any(w):
            w[rng.randrange(n)] = 1.0
        p = _normalise(w)
        p = [(-0.0 if (x == 0.0 and rng.random() < 0.2) else x) for x in p]
        mask = M_CE | M_KL
        if any(x == 0.0 for x in p) and rng.random() < 0.3:
            mask |= rng.choice([M_RCE, M_RKL, M_RCE | M_RKL])      # IEEE: +infinity expected
        return mask, p
    if kind == "own":
        return 15, [q / float(1 << P) for q in qs]                # exact: q < 2^53
    if kind == "onehot":
        p = [0.0] * n
        p[rng.randrange(n)] = 1.0
        return M_CE | M_KL, p
    if kind == "near":
        w = [q * (1.0 + rng.uniform(-1e-3, 1e-3)) for q in qs]
        return 15, _normalise(w)
    if kind == "unnorm_any":
        p = []
        for _ in range(n):
            r = rng.random()
            if r < 0.15:
                p.append(rng.choice([0.0, -0.0]))
            elif r < 0.35:
                p.append(-_rand_pos(rng))
            else:
                p.append(_rand_pos(rng))
        return M_CE, p
    # unnorm_pos
    return M_CE | M_RCE | M_RKL, [_rand_pos(rng) for _ in range(n)]


def _encode(inst, qs, vecs, certify=False):
    out = [inst, len(qs)] + list(qs) + [len(vecs)]
    for mask, p in vecs:
        out += [mask] + [f2b(x) for x in p]
    if certify:
        out.append(1)
    return out


def gen_diag(rng):
    inst = rng.choices(range(len(INSTS)), INST_WEIGHTS)[0]
    bits, P, _ = INSTS[inst]
    qs = _gen_qs(rng, P)
    r = rng.random()
    if r < 0.04 and len(qs) >= 3:
        # tables the constructor must refuse (sum off by one / a zero entry): result [-1]
        j = rng.randrange(len(qs))
        k = rng.random()
        if k < 0.4 and qs[j] + 1 < (1 << bits):
            qs[j] += 1
        elif k < 0.7 and qs[j] > 1:
            qs[j] -= 1
        else:
            i2 = (j + 1) % len(qs)
            if qs[i2] + qs[j] < (1 << bits):
                qs[i2] += qs[j]
                qs[j] = 0
    vecs = [_gen_vec(rng, P, qs) for _ in range(rng.choice([0, 1, 1, 2, 2, 3]))]
    # kind: 0 contiguous model, 1 its generic decoder model, 2 its view, 3 UniformModel,
    #       4 a reference to the contiguous model (blanket impl for &M)
    kind = rng.choice([0, 0, 1, 2, 4, 4])
    if rng.random() < 0.2 and _valid(P, qs):
        # UniformModel over n symbols: its table is [ppb]*(n-1) + [rest]; prefer ranges that do
        # not divide 2^P (the last bin is then heavier)
        n = rng.choice([2, 3, 5, 7, 10, rng.randint(2, min(300, 1 << P))])
        n = max(2, min(n, 1 << P))
        ppb = (1 << P) // n
        qs = [ppb] * (n - 1) + [(1 << P) - ppb * (n - 1)]
        vecs = [_gen_vec(rng, P, qs) for _ in range(rng.choice([0, 1, 2]))]
        kind = 3
    return _encode(inst + 100 * kind, qs, vecs)


def gen_cert(rng):
    """small tables (<= 16 entries) whose reported entropy is certified inside Coq (`interval`)"""
    inst = rng.choices(range(len(INSTS)), INST_WEIGHTS)[0]
    _, P, _ = INSTS[inst]
    qs = _gen_qs(rng, P, max_n=16)
    return _encode(inst, qs, [], certify=True)


# ------------------------------------------------------------------ parsing

def _parse(inp):
    inst = inp[0] % 100        # inp[0] // 100 = which representation of the table is asked (kind)
    n = inp[1]
    qs = inp[2:2 + n]
    i = 2 + n
    nvec = inp[i]
    i += 1
    vecs = []
    for _ in range(nvec):
        mask = inp[i]
        vecs.append((mask, inp[i + 1:i + 1 + n]))
        i += 1 + n
    certify = i < len(inp) and inp[i] == 1
    return inst, qs, vecs, certify


def _valid(P, qs):
    return len(qs) >= 2 and all(q > 0 for q in qs) and sum(qs) == (1 << P)


def _exact_len(inst, n):
    return 1 + 3 * n + (2 * n if INSTS[inst][2] else 0) + 3


def exact_part(inp, out):
    """prefix of the implementation's output that the Coq model must reproduce bit for bit"""
    if len(out) == 1:
        return out
    return out[:_exact_len(inp[0] % 100, inp[1])]


# ------------------------------------------------------------------ high-precision reference

@lru_cache(maxsize=None)
def _ln2():
    with localcontext() as c:
        c.prec = PREC
        return Decimal(2).ln()


@lru_cache(maxsize=200000)
def _log2_int(q):
    with localcontext() as c:
        c.prec = PREC
        return Decimal(q).ln() / _ln2()


def _log2_float(x):
    with localcontext() as c:
        c.prec = PREC
        return Decimal(x).ln() / _ln2()      # Decimal(float) is exact


_REF_CACHE = {}


def reference(inp):
    """{'entropy': (exact, S), 'vecs': [ {mask_bit: (exact, S, extra_tol) | 'inf'} ]} as Decimals,
    computed from the textbook definitions on q_i / 2^P."""
    key = tuple(inp)
    if key in _REF_CACHE:
        return _REF_CACHE[key]
    inst, qs, vecs, _ = _parse(inp)
    _, P, _ = INSTS[inst]
    with localcontext() as c:
        c.prec = PREC
        W = Decimal(1 << P)
        PD = Decimal(P)
        lq = [_log2_int(q) for q in qs]                 # log2 q_i      (>= 0)
        lpi = [l - PD for l in lq]                      # log2 (q_i / 2^P)
        pi = [Decimal(q) / W for q in qs]
        res = {}
        H = -sum((a * l for a, l in zip(pi, lpi)), Decimal(0))
        S = sum((Decimal(q) * l for q, l in zip(qs, lq)), Decimal(0)) / W + PD
        res["entropy"] = (H, S)
        res["vecs"] = []
        for mask, pb in vecs:
            p = [b2f(b) for b in pb]
            d = {}
            pd = [Decimal(x) for x in p]
            has_zero = any(x == 0.0 for x in p)
            lp = None
            if mask & (M_RCE | M_KL | M_RKL):
                lp = [(_log2_float(x) if x > 0.0 else None) for x in p]
            if mask & M_CE:
                val = -sum((x * l for x, l in zip(pd, lpi)), Decimal(0))
                S = sum((abs(x) * (PD + l) for x, l in zip(pd, lq)), Decimal(0))
                d[M_CE] = (val, S, Decimal(0))
            if mask & M_RCE:
                if has_zero:
                    d[M_RCE] = "inf"
                else:
                    val = -sum((a * l for a, l in zip(pi, lp)), Decimal(0))
                    S = sum((a * abs(l) for a, l in zip(pi, lp)), Decimal(0))
                    d[M_RCE] = (val, S, Decimal(0))
            if mask & M_KL:
                val = Decimal(0)
                S = PD
                for x, l, lqi, lpii in zip(pd, lp, lq, lpi):
                    if x != 0:
                        val += x * (l - lpii)           # p log2 (p / (q/2^P))
                        S += abs(x) * (abs(l) + lqi)
                extra = PD * abs(Decimal(1) - sum(pd, Decimal(0)))
                d[M_KL] = (val, S, extra)
            if mask & M_RKL:
                if has_zero:
                    d[M_RKL] = "inf"
                else:
                    val = sum((a * (lpii - l) for a, lpii, l in zip(pi, lpi, lp)), Decimal(0))
                    S = sum((a * (lqi + abs(l)) for a, lqi, l in zip(pi, lq, lp)), Decimal(0)) + PD
                    d[M_RKL] = (val, S, Decimal(0))
            res["vecs"].append(d)
    if len(_REF_CACHE) > 20000:
        _REF_CACHE.clear()
    _REF_CACHE[key] = res
    return res


def tolerance(n, S, extra=Decimal(0)):
    with localcontext() as c:
        c.prec = PREC
        return Decimal(n + 8) * Decimal(2) ** -50 * max(Decimal(1), S) + extra


def _judge(name, n, bits, ref):
    if ref == "inf":
        if bits != INF_BITS:
            return "%s: a zero in p must give +infinity, got bits 0x%016x" % (name, bits)
        return None
    val, S, extra = ref if len(ref) == 3 else (ref[0], ref[1], Decimal(0))
    x = b2f(bits)
    if math.isnan(x) or math.isinf(x):
        return "%s: reported %r, textbook value %.17g" % (name, x, float(val))
    with localcontext() as c:
        c.prec = PREC
        err = abs(Decimal(x) - val)
        tol = tolerance(n, S, extra)
        if err > tol:
            return "%s: reported %.17g, textbook value on the exact probabilities %.17g, |difference| %.3e " \
                   "> tolerance %.3e" % (name, x, float(val), float(err), float(tol))
    return None


def _walk(inp, out):
    """yields (name, bits, reference) for every diagnostic of the approximate part, or raises"""
    inst, qs, vecs, _ = _parse(inp)
    ref = reference(inp)
    i = _exact_len(inst, len(qs))
    yield ("entropy", out[i], ref["entropy"])
    i += 1
    for (mask, _pb), d in zip(vecs, ref["vecs"]):
        for bit in (M_CE, M_RCE, M_KL, M_RKL):
            if mask & bit:
                yield (NAMES[bit], out[i], d[bit])
                i += 1
    if i != len(out):
        raise IndexError("output has %d values, expected %d" % (len(out), i))


def oracle_C18(inp, out):
    if any(x in SPECIAL for x in out[:1]) and len(out) == 1:
        return "panic / abort / timeout"
    inst, qs, vecs, certify = _parse(inp)
    bits_, P, f32 = INSTS[inst]
    n = len(qs)
    if not _valid(P, qs):
        return None                      # constructor behaviour belongs to C19, not to this property
    if out == [-1]:
        return "a valid table was refused"
    if len(out) < _exact_len(inst, n) + 1 or out[0] != n:
        return "malformed output"
    # float views: exactly cum / 2^P and q / 2^P, symbols 0..n-1
    cum = 0
    for j, q in enumerate(qs):
        s, cb, qb = out[1 + 3 * j:4 + 3 * j]
        if s != j:
            return "symbol %d reported as %d" % (j, s)
        if Fraction(b2f(cb)) != Fraction(cum, 1 << P) or Fraction(b2f(qb)) != Fraction(q, 1 << P):
            return "f64 view of entry %d is (%r, %r), exact values (%d, %d) / 2^%d" % (j, b2f(cb), b2f(qb), cum, q, P)
        if f32:
            c32, q32 = out[1 + 3 * n + 2 * j:3 + 3 * n + 2 * j]
            if Fraction(b2f32(c32)) != Fraction(cum, 1 << P) or Fraction(b2f32(q32)) != Fraction(q, 1 << P):
                return "f32 view of entry %d is (%r, %r), exact values (%d, %d) / 2^%d" % (
                    j, b2f32(c32), b2f32(q32), cum, q, P)
        cum += q
    i = _exact_len(inst, n) - 3
    for s, q in ((0, qs[0]), (n - 1, qs[-1]), (n, 0)):
        if Fraction(b2f(out[i])) != Fraction(q, 1 << P):
            return "floating_point_probability(%d) is %r, exact value %d / 2^%d" % (s, b2f(out[i]), q, P)
        i += 1
    try:
        for name, bits, ref in _walk(inp, out):
            msg = _judge(name, n, bits, ref)
            if msg:
                return msg
    except IndexError as ex:
        return "malformed output: %s" % ex
    if certify:
        return certificate(inp, out)
    return None


# ------------------------------------------------------------------ per-instance Coq certificates

_CERT_CACHE = {}
# `interval` computes with Coq's primitive 63-bit integers (Bignums) / primitive floats: kernel
# primitives and their specification axioms from the standard library show up in Print Assumptions
# of a certificate (never in the theorems of Props/C18_diag.v). They are accepted for certificates
# only, and named in the report. Print Assumptions (8 s) runs on the first certificate of a run.
CERT_PRIMITIVES = ("PrimInt63.", "Uint63.", "PrimFloat.", "FloatAxioms.", "FloatOps.", "Sint63.")
CERT_LOG = []        # (n, P, seconds) of every certificate compiled in this process


def certificate_source(P, qs, reported_bits, eps_num, eps_den):
    """Coq source of one certificate: |entropy_def P t - reported| <= eps, by interval arithmetic."""
    x = Fraction(b2f(reported_bits))
    t, cum = [], 0
    for j, q in enumerate(qs):
        t.append("(%d%%Z, %d%%N, %d%%N)" % (j, cum, q))
        cum += q
    return (
        "From Coq Require Import Reals List ZArith.\n"
        "From Interval Require Import Tactic.\n"
        "From CV Require Import Model.EModel Model.Diag.\n"
        "Import ListNotations.\nLocal Open Scope R_scope.\n"
        "Lemma cert : Rabs (entropy_def %d%%N [%s] - (%d / %d)) <= %d / %d.\n"
        "Proof.\n"
        "  unfold entropy_def, rsum, prob, log2R, qR, two_pow, probs.\n"
        "  cbn [map fold_left snd Z.of_N].\n"
        "  let v := eval vm_compute in (2 ^ %d)%%Z in change (2 ^ Z.pos %d)%%Z with v.\n"
        "  interval with (i_prec 90).\n"
        "Qed.\n"
        % (P, "; ".join(t), x.numerator, x.denominator, eps_num, eps_den, P, P))


def _assumption_names(txt):
    """names printed by Print Assumptions (a name starts a line; its type may follow on the next)"""
    import re
    names = []
    for line in txt.split("\n"):
        m = re.match(r"^([A-Za-z_][\w']*(\.[A-Za-z_][\w']*)+)\s*(:.*)?$", line)
        if m:
            names.append(m.group(1))
    return names


def certificate(inp, out):
    import time
    import common as C
    inst, qs, _vecs, _ = _parse(inp)
    _, P, _ = INSTS[inst]
    n = len(qs)
    bits = out[_exact_len(inst, n)]
    key = (tuple(inp), bits)
    if key in _CERT_CACHE:
        return _CERT_CACHE[key]
    _H, S = reference(inp)["entropy"]
    tol = tolerance(n, S)
    eps_den = 1 << 60
    eps_num = int(tol * eps_den) + 1
    first = not CERT_LOG
    src = certificate_source(P, qs, bits, eps_num, eps_den) + ("Print Assumptions cert.\n" if first else "")
    d = tempfile.mkdtemp(prefix="diagcert", dir=C.WORK if os.path.isdir(C.WORK) else None)
    path = os.path.join(d, "Cert.v")
    with open(path, "w") as f:
        f.write(src)
    t0 = time.time()
    try:
        p = subprocess.run(["coqc", "-noglob", "-Q", os.path.join(C.COQ, "theories"), "CV", path],
                           cwd=d, stdout=subprocess.PIPE, stderr=subprocess.STDOUT, text=True, timeout=300)
        rc, txt = p.returncode, p.stdout
    except subprocess.TimeoutExpired:
        rc, txt = 124, "timeout"
    CERT_LOG.append((n, P, round(time.time() - t0, 2)))
    msg = None
    if rc != 0:
        msg = "Coq certificate |entropy_def - reported| <= eps failed (interval): %s" % txt[-400:]
    elif first:
        bad = [a for a in _assumption_names(txt)
               if a not in C.ALLOWED_AXIOMS and not a.startswith(CERT_PRIMITIVES)]
        if bad:
            msg = "certificate depends on non-allow-listed axioms %s" % bad[:5]
    import shutil
    shutil.rmtree(d, ignore_errors=True)
    _CERT_CACHE[key] = msg
    return msg


ORACLES = {"C18": oracle_C18, "C18_diag": oracle_C18}


def nontrivial(inp, out, prop=None):
    """accepted table with >= 3 entries or >= 1 two-argument diagnostic evaluated, all results finite
    or the expected infinity (certificate cases: the certificate compiled)"""
    inst, qs, vecs, certify = _parse(inp)
    if len(out) <= 1 or not _valid(INSTS[inst][1], qs):
        return False
    return len(qs) >= 3 or len(vecs) >= 1


def describe(inp):
    inst, qs, vecs, certify = _parse(inp)
    bits, P, f32 = INSTS[inst]
    return "diag u%d/P=%d entries=%d min_q=%d max_q=%d vectors(masks)=%s%s" % (
        bits, P, len(qs), min(qs), max(qs), [m for m, _ in vecs], " +coq-certificate" if certify else "")
