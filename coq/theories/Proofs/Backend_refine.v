(* Proofs/Backend_refine.v -- the cursor family (Cursor<_, Buf> and Reverse<Cursor<_, Buf>>) refines
   the tape machine over arbitrary op lists; in-place reversal is invisible to reads and writes. *)
From CV Require Import Model.Backend Proofs.Backend_tape Proofs.Backend_cursor Proofs.Backend_vec
  Proofs.Backend_history.
Open Scope nat_scope.
Set Default Timeout 30.
Local Arguments Nat.ltb : simpl never.
Local Arguments Nat.leb : simpl never.
Local Arguments Nat.sub : simpl never.
Local Arguments Nat.eqb : simpl never.

Lemma map_snd_map_snd {A B C D} (g : C -> D) (h : B -> C) (x : A * B) :
  map_snd g (map_snd h x) = map_snd (fun y => g (h y)) x.
Proof. reflexivity. Qed.

(* ------------------------------------------------------------------ each trait method *)

Lemma bk_read_tape k fl s t :
  bk_read s (bk_of_tape k fl t) = Some (map_snd (bk_of_tape k fl) (tape_read s t)).
Proof.
  destruct fl; cbn [bk_of_tape bk_read omap].
  - destruct s; cbn [flip_sem].
    + rewrite rcursor_read_stack_tape. reflexivity.
    + rewrite rcursor_read_queue_tape. reflexivity.
  - destruct s.
    + rewrite cursor_read_stack_tape. reflexivity.
    + rewrite cursor_read_queue_tape. reflexivity.
Qed.

Lemma bk_write_tape k fl w t :
  bk_write w (bk_of_tape k fl t) =
    if buf_mutable k then Some (map_snd (bk_of_tape k fl) (tape_write w t)) else None.
Proof.
  destruct fl; cbn [bk_of_tape bk_write]; destruct (buf_mutable k); try reflexivity.
  - rewrite rcursor_write_tape. reflexivity.
  - rewrite cursor_write_tape. reflexivity.
Qed.

Lemma bk_remaining_tape k fl s t :
  bk_remaining s (bk_of_tape k fl t) = Some (QVal (tape_remaining s t)).
Proof.
  destruct fl; cbn [bk_of_tape bk_remaining]; destruct s; cbn [flip_sem].
  - now rewrite rcursor_remaining_stack_tape.
  - now rewrite rcursor_remaining_queue_tape.
  - now rewrite cursor_remaining_stack_tape.
  - now rewrite cursor_remaining_queue_tape.
Qed.

Lemma bk_is_exhausted_tape k fl s t :
  bk_is_exhausted s (bk_of_tape k fl t) = Some (QVal (if tape_remaining s t =? 0 then 1 else 0)).
Proof. unfold bk_is_exhausted. rewrite bk_remaining_tape. reflexivity. Qed.

Lemma bk_maybe_exhausted_tape k fl s t :
  bk_maybe_exhausted s (bk_of_tape k fl t) = Some (QVal (if tape_remaining s t =? 0 then 1 else 0)).
Proof.
  destruct fl; cbn [bk_of_tape bk_maybe_exhausted].
  - rewrite <- (bk_is_exhausted_tape k true s t). reflexivity.
  - apply (bk_is_exhausted_tape k false s t).
Qed.

Lemma bk_space_left_tape k fl t :
  bk_space_left (bk_of_tape k fl t) = if buf_mutable k then Some (QVal (tape_space_left t)) else None.
Proof.
  destruct fl; cbn [bk_of_tape bk_space_left]; destruct (buf_mutable k); try reflexivity.
  now rewrite cursor_space_left_tape.
Qed.

Lemma bk_is_full_tape k fl t :
  bk_is_full (bk_of_tape k fl t) =
    if buf_mutable k then Some (QVal (if tape_space_left t =? 0 then 1 else 0)) else None.
Proof. unfold bk_is_full. rewrite bk_space_left_tape. now destruct (buf_mutable k). Qed.

Lemma bk_maybe_full_tape k fl t :
  bk_maybe_full (bk_of_tape k fl t) = if buf_mutable k then Some (QVal 1) else None.
Proof.
  assert (bk_maybe_full (bk_of_tape k fl t) =
          match bk_write 0%N (bk_of_tape k fl t) with Some _ => Some (QVal 1) | None => None end) as ->
    by (destruct fl; reflexivity).
  rewrite bk_write_tape. now destruct (buf_mutable k).
Qed.

Lemma bk_pos_tape k fl t : bk_pos (bk_of_tape k fl t) = Some (tape_pos t fl).
Proof. destruct fl; reflexivity. Qed.

Lemma bk_seek_tape k fl p t :
  bk_seek p (bk_of_tape k fl t) = Some (map_snd (bk_of_tape k fl) (tape_seek p t fl)).
Proof.
  unfold tape_seek. destruct fl; cbn [bk_of_tape bk_seek omap].
  - rewrite rcursor_seek_tape. destruct (length (tape_all t) <? p); reflexivity.
  - rewrite cursor_seek_tape. destruct (length (tape_all t) <? p); reflexivity.
Qed.

Lemma bk_into_reversed_tape k fl t :
  bk_into_reversed (bk_of_tape k fl t) =
    if buf_mutable k then Some (QVal (tape_pos t (negb fl)), bk_of_tape k (negb fl) t) else None.
Proof.
  destruct fl; cbn [bk_of_tape bk_into_reversed negb]; destruct (buf_mutable k); try reflexivity.
  - rewrite reverse_rcursor_tape. reflexivity.
  - rewrite reverse_cursor_tape. reflexivity.
Qed.

Lemma tape_write_res w t : fst (tape_write w t) = WOk \/ fst (tape_write w t) = WOutOfSpace.
Proof. destruct t as [a [|x b]]; cbn; auto. Qed.

Lemma bk_write_loop_tape k fl : buf_mutable k = true -> forall ws t,
  bk_write_loop ws (bk_of_tape k fl t) = Some (map_snd (bk_of_tape k fl) (tape_extend ws t)).
Proof.
  intros Hk. induction ws as [|w ws IH]; intros t; cbn [bk_write_loop tape_extend].
  - rewrite bk_write_tape, Hk. reflexivity.
  - rewrite bk_write_tape, Hk. pose proof (tape_write_res w t) as Hr.
    destruct (tape_write w t) as [r t']. cbn in Hr |- *.
    destruct Hr as [-> | ->]; [apply IH|reflexivity].
Qed.

Lemma bk_write_loop_immutable k fl ws t : buf_mutable k = false ->
  bk_write_loop ws (bk_of_tape k fl t) = None.
Proof. intros Hk. destruct ws; cbn [bk_write_loop]; rewrite bk_write_tape, Hk; reflexivity. Qed.

Lemma bk_extend_tape k fl ws t :
  bk_extend ws (bk_of_tape k fl t) =
    if buf_mutable k then Some (map_snd (bk_of_tape k fl) (tape_extend ws t)) else None.
Proof.
  assert (bk_extend ws (bk_of_tape k fl t) = bk_write_loop ws (bk_of_tape k fl t)) as ->
    by (destruct fl; reflexivity).
  destruct (buf_mutable k) eqn:Hk; [now apply bk_write_loop_tape|now apply bk_write_loop_immutable].
Qed.

(* ------------------------------------------------------------------ refinement, one step and n steps *)

Lemma cursor_step_refines k fl t o : op_core o ->
  bk_step (bk_of_tape k fl t) o =
    let '((t', fl'), x) := tape_step (buf_mutable k) (t, fl) o in (bk_of_tape k fl' t', x).
Proof.
  intros Ho. destruct o; cbn [bk_step tape_step]; try destruct Ho.
  - rewrite bk_read_tape. destruct (tape_read s t); reflexivity.
  - rewrite bk_write_tape. destruct (buf_mutable k); [|reflexivity]. destruct (tape_write w t); reflexivity.
  - rewrite bk_seek_tape. destruct (tape_seek p t fl); reflexivity.
  - rewrite bk_pos_tape. reflexivity.
  - rewrite bk_remaining_tape. reflexivity.
  - rewrite bk_space_left_tape. destruct (buf_mutable k); reflexivity.
  - rewrite bk_is_exhausted_tape. unfold bool_q. reflexivity.
  - rewrite bk_maybe_exhausted_tape. unfold bool_q. reflexivity.
  - rewrite bk_is_full_tape. destruct (buf_mutable k); reflexivity.
  - rewrite bk_maybe_full_tape. destruct (buf_mutable k); reflexivity.
  - rewrite bk_into_reversed_tape. destruct (buf_mutable k); reflexivity.
  - rewrite bk_extend_tape. destruct (buf_mutable k); [|reflexivity]. destruct (tape_extend ws t); reflexivity.
Qed.

Lemma cursor_run_refines k : forall ops fl t, Forall op_core ops ->
  bk_run (bk_of_tape k fl t) ops =
    let '((t', fl'), xs) := tape_run (buf_mutable k) (t, fl) ops in (bk_of_tape k fl' t', xs).
Proof.
  induction ops as [|o ops IH]; intros fl t Hc; cbn [bk_run tape_run].
  - reflexivity.
  - inversion Hc; subst. rewrite cursor_step_refines by assumption.
    destruct (tape_step (buf_mutable k) (t, fl) o) as [[t1 fl1] x].
    rewrite IH by assumption.
    destruct (tape_run (buf_mutable k) (t1, fl1) ops) as [[t2 fl2] xs]. reflexivity.
Qed.

(* every cursor / reversed cursor satisfying the invariant is such a representation *)
Lemma cursor_is_tape k c : cursor_inv c -> BCursor k c = bk_of_tape k false (tape_of_cursor c).
Proof. intros H. cbn. now rewrite cursor_of_tape_of_cursor. Qed.
Lemma rcursor_is_tape k c : cursor_inv c -> BRev (BCursor k c) = bk_of_tape k true (tape_of_rcursor c).
Proof. intros H. cbn. now rewrite rcursor_of_tape_of_rcursor. Qed.

(* ------------------------------------------------------------------ in-place reversal is invisible *)

Lemma tape_step_orient mut t fl o : op_orient_free o ->
  tape_step mut (t, negb fl) o =
    let '((t', fl'), x) := tape_step mut (t, fl) o in ((t', negb fl'), x).
Proof.
  intros Ho. destruct o; cbn [tape_step]; try destruct Ho; try reflexivity;
    try (destruct mut; reflexivity).
  - destruct (tape_read s t); reflexivity.
  - destruct mut; [|reflexivity]. destruct (tape_write w t); reflexivity.
  - destruct mut; [|reflexivity]. destruct (tape_extend ws t); reflexivity.
Qed.

Lemma tape_run_orient mut : forall ops t fl, Forall op_orient_free ops ->
  tape_run mut (t, negb fl) ops =
    let '((t', fl'), xs) := tape_run mut (t, fl) ops in ((t', negb fl'), xs).
Proof.
  induction ops as [|o ops IH]; intros t fl Hc; cbn [tape_run].
  - reflexivity.
  - inversion Hc; subst. rewrite tape_step_orient by assumption.
    destruct (tape_step mut (t, fl) o) as [[t1 fl1] x]. rewrite IH by assumption.
    destruct (tape_run mut (t1, fl1) ops) as [[t2 fl2] xs]. reflexivity.
Qed.

Lemma op_orient_free_core o : op_orient_free o -> op_core o.
Proof. destruct o; cbn; auto. Qed.

(* after into_reversed (either direction) every sequence of reads, writes, bounds queries and further
   reversals observes exactly what it would have observed without it, and the two final states
   are again each other's reversal *)
Lemma into_reversed_noop b q b' ops :
  bk_wf b -> bk_into_reversed b = Some (q, b') -> Forall op_orient_free ops ->
  snd (bk_run b' ops) = snd (bk_run b ops) /\
  exists q', bk_into_reversed (fst (bk_run b ops)) = Some (q', fst (bk_run b' ops)).
Proof.
  intros Hwf Hrev Hops.
  assert (Hcore : Forall op_core ops) by (eapply Forall_impl; [apply op_orient_free_core|assumption]).
  assert (exists k fl t, b = bk_of_tape k fl t /\ buf_mutable k = true /\ b' = bk_of_tape k (negb fl) t)
    as (k & fl & t & -> & Hk & ->).
  { destruct b as [v|v|k c|b|f|f|cb|cb]; try (cbn in Hrev; discriminate).
    - cbn in Hwf. rewrite (cursor_is_tape k c Hwf) in Hrev |- *.
      rewrite bk_into_reversed_tape in Hrev.
      destruct (buf_mutable k) eqn:Hk; [|discriminate]. inversion Hrev; subst.
      exists k, false, (tape_of_cursor c). auto.
    - destruct b as [v|v|k c|b|f|f|cb|cb]; try (cbn in Hrev; discriminate).
      cbn in Hwf. rewrite (rcursor_is_tape k c Hwf) in Hrev |- *.
      rewrite bk_into_reversed_tape in Hrev.
      destruct (buf_mutable k) eqn:Hk; [|discriminate]. inversion Hrev; subst.
      exists k, true, (tape_of_rcursor c). auto. }
  rewrite !cursor_run_refines by assumption. rewrite Hk.
  rewrite tape_run_orient by assumption.
  destruct (tape_run true (t, fl) ops) as [[t2 fl2] xs]. cbn [fst snd]. split; [reflexivity|].
  rewrite bk_into_reversed_tape, Hk. eauto.
Qed.
