(* Proofs/Leaky_base.v -- arithmetic of the symbol / probability types used by
   Model/Leaky.v, the slack function, and LeakyQuantizer::new. *)
From CV Require Import Base.Bits Model.Leaky.
From Coq Require Import ZArith Lia Znumtheory.
Set Default Timeout 30.
Open Scope Z_scope.

Lemma Npow2_Z (k : N) : Z.of_N (2 ^ k) = 2 ^ Z.of_N k.
Proof. rewrite N2Z.inj_pow. reflexivity. Qed.

Lemma Zpow2_pos (k : Z) : 0 <= k -> 0 < 2 ^ k.
Proof. intros. apply Z.pow_pos_nonneg; lia. Qed.

Lemma Zpow2_le (a b : Z) : 0 <= a <= b -> 2 ^ a <= 2 ^ b.
Proof. intros. apply Z.pow_le_mono_r; lia. Qed.

Lemma Zpow2_lt (a b : Z) : 0 <= a < b -> 2 ^ a < 2 ^ b.
Proof. intros. apply Z.pow_lt_mono_r; lia. Qed.

Lemma Zpow2_split (a b : Z) : 0 <= b <= a -> 2 ^ a = 2 ^ (a - b) * 2 ^ b.
Proof. intros. rewrite <- Z.pow_add_r by lia. f_equal. lia. Qed.

Lemma Zpow2_divide (a b : Z) : 0 <= a <= b -> (2 ^ a | 2 ^ b).
Proof. intros. exists (2 ^ (b - a)). apply Zpow2_split. lia. Qed.

Section Cfg.
Variable c : lcfg.
Hypothesis Hwf : wf_lcfg c.

Let sw := Z.of_N (SYMB c).
Let pbz := Z.of_N (PB c).
Let pz := Z.of_N (PR c).

Lemma smod_eq : smod c = 2 ^ sw.
Proof. unfold smod, sw. apply Npow2_Z. Qed.

Lemma pmod_eq : Z.of_N (pmod c) = 2 ^ pbz.
Proof. unfold pmod, pbz. apply Npow2_Z. Qed.

Lemma sw_ge2 : 2 <= sw.
Proof. destruct Hwf as (H & _). unfold sw. lia. Qed.

Lemma p_range : 0 < pz <= pbz.
Proof. destruct Hwf as (_ & H1 & H2). unfold pz, pbz. lia. Qed.

Lemma smod_pos : 0 < smod c.
Proof. rewrite smod_eq. apply Zpow2_pos. pose proof sw_ge2. lia. Qed.

Lemma half_eq : Z.of_N (2 ^ (SYMB c - 1)) = 2 ^ (sw - 1).
Proof.
  rewrite Npow2_Z. f_equal. pose proof sw_ge2. unfold sw in *. lia.
Qed.

Lemma smod_half : smod c = 2 * 2 ^ (sw - 1).
Proof.
  rewrite smod_eq. pose proof sw_ge2.
  replace sw with (Z.succ (sw - 1)) at 1 by lia. rewrite Z.pow_succ_r by lia. reflexivity.
Qed.

Lemma smod_ge4 : 4 <= smod c.
Proof.
  rewrite smod_eq. pose proof sw_ge2.
  change 4 with (2 ^ 2). apply Zpow2_le. lia.
Qed.

Lemma smin_le0 : smin c <= 0.
Proof.
  unfold smin. destruct (sgn c); [|lia]. rewrite half_eq.
  pose proof (Zpow2_pos (sw - 1)). pose proof sw_ge2. lia.
Qed.

Lemma smax_ge1 : 1 <= smax c.
Proof.
  unfold smax, smin. pose proof smod_half. pose proof smod_ge4.
  destruct (sgn c); [rewrite half_eq|]; lia.
Qed.

Lemma smin_smax : smax c = smin c + smod c - 1.
Proof. reflexivity. Qed.

Lemma in_symb_spec z : in_symb c z = true <-> in_sym c z.
Proof. unfold in_symb, in_sym. lia. Qed.

Lemma in_symb_false z : in_symb c z = false <-> ~ in_sym c z.
Proof. unfold in_symb, in_sym. lia. Qed.

(* ---- wrapS *)
Lemma wrapS_in z : in_sym c (wrapS c z).
Proof.
  unfold wrapS, in_sym, smax. pose proof smod_pos.
  pose proof (Z.mod_pos_bound (z - smin c) (smod c) H). lia.
Qed.

Lemma wrapS_id z : in_sym c z -> wrapS c z = z.
Proof.
  unfold wrapS, in_sym, smax. intros. rewrite Z.mod_small; lia.
Qed.

Lemma wrapS_shift z k : wrapS c (z + k * smod c) = wrapS c z.
Proof.
  unfold wrapS. replace (z + k * smod c - smin c) with (z - smin c + k * smod c) by lia.
  rewrite Z.mod_add; [reflexivity|]. pose proof smod_pos. lia.
Qed.

Lemma wrapS_below z : smin c - smod c <= z < smin c -> wrapS c z = z + smod c.
Proof.
  intros. rewrite <- (wrapS_shift z 1). replace (z + 1 * smod c) with (z + smod c) by lia.
  apply wrapS_id. unfold in_sym, smax. lia.
Qed.

Lemma wrapS_above z : smax c < z <= smax c + smod c -> wrapS c z = z - smod c.
Proof.
  intros. rewrite <- (wrapS_shift z (-1)). replace (z + -1 * smod c) with (z - smod c) by lia.
  apply wrapS_id. unfold in_sym, smax in *. lia.
Qed.

(* wrapS z is congruent to z modulo 2^SYMB *)
Lemma wrapS_cong z : exists k, wrapS c z = z + k * smod c.
Proof.
  unfold wrapS. pose proof smod_pos.
  exists (- ((z - smin c) / smod c)).
  pose proof (Z.div_mod (z - smin c) (smod c)). lia.
Qed.

Lemma chkS_in dbg z : in_sym c z -> chkS c dbg z = Some z.
Proof. intros H. unfold chkS. apply in_symb_spec in H. rewrite H. reflexivity. Qed.

(* ---- probabilities *)
Lemma pmod_pos : (0 < pmod c)%N.
Proof. unfold pmod. apply pow2_pos. Qed.

Lemma maxprob_eq : maxprob c = (2 ^ PR c - 1)%N.
Proof.
  unfold maxprob, pmod. destruct Hwf as (_ & H1 & H2).
  rewrite (pow2_split (PB c) (PB c - PR c)) by lia.
  replace (PB c - (PB c - PR c))%N with (PR c) by lia.
  set (d := (2 ^ (PB c - PR c))%N). set (e := (2 ^ PR c)%N).
  assert (0 < d)%N by apply pow2_pos. assert (0 < e)%N by apply pow2_pos.
  replace (e * d - 1)%N with ((e - 1) * d + (d - 1))%N by nia.
  apply div_mul_add_small. lia.
Qed.

Lemma pow_P_le_PB : (2 ^ PR c <= pmod c)%N.
Proof. unfold pmod. apply pow2_le. destruct Hwf as (_ & _ & H). exact H. Qed.

Lemma wpow2_P : wpow2 c (PR c) = (2 ^ PR c mod pmod c)%N.
Proof.
  unfold wpow2, pmod. destruct Hwf as (_ & H1 & H2).
  destruct (N.leb_spec (PB c) (PR c)).
  - replace (PR c) with (PB c) by lia. rewrite N.mod_same by apply pow2_nz. reflexivity.
  - rewrite N.mod_small by (apply pow2_lt; lia). reflexivity.
Qed.

Lemma addP_small dbg a b : (a + b < pmod c)%N -> addP c dbg a b = Some (a + b)%N.
Proof. intros H. unfold addP. apply N.ltb_lt in H. rewrite H. reflexivity. Qed.

Lemma waddP_small a b : (a + b < pmod c)%N -> waddP c a b = (a + b)%N.
Proof. intros. unfold waddP. apply N.mod_small. assumption. Qed.

(* right - left in wrapping arithmetic, when the true right end is at most 2^PB *)
Lemma wsubP_exact (r l : N) :
  (l <= r)%N -> (r <= pmod c)%N -> (0 < l \/ r < pmod c)%N ->
  wsubP c (r mod pmod c) l = (r - l)%N.
Proof.
  intros H1 H2 H3. unfold wsubP. pose proof pmod_pos.
  destruct (N.eq_dec r (pmod c)) as [->|Hne].
  - rewrite N.mod_same by lia. rewrite N.add_0_l. apply N.mod_small. lia.
  - rewrite (N.mod_small r) by lia.
    replace (r + pmod c - l)%N with ((r - l) + 1 * pmod c)%N by lia.
    rewrite N.mod_add by lia. apply N.mod_small. lia.
Qed.

(* ---- the mask of fn slack *)
Lemma pmask_eq : pmask c = N.ones (N.min (SYMB c) (PB c)).
Proof.
  unfold pmask, wpow2, wsubP. pose proof pmod_pos. rewrite N.ones_equiv.
  destruct (N.leb_spec (PB c) (SYMB c)).
  - rewrite N.min_r by lia. rewrite N.add_0_l. fold (pmod c).
    rewrite N.mod_small by lia. lia.
  - rewrite N.min_l by lia.
    assert (2 ^ SYMB c < pmod c)%N by (apply pow2_lt; lia).
    assert (0 < 2 ^ SYMB c)%N by apply pow2_pos.
    replace (2 ^ SYMB c + pmod c - 1)%N with ((2 ^ SYMB c - 1) + 1 * pmod c)%N by lia.
    rewrite N.mod_add by lia. rewrite N.mod_small by lia. lia.
Qed.

(* slack is exact for every symbol at or above [lo] whose distance fits both types *)
Lemma slack_exact sym lo :
  0 <= sym - lo -> sym - lo < smod c -> sym - lo < 2 ^ pbz ->
  slack c sym lo = Z.to_N (sym - lo).
Proof.
  intros H0 H1 H2. unfold slack, wsubS, castP. rewrite pmask_eq, N.land_ones.
  set (d := sym - lo) in *.
  destruct (wrapS_cong d) as (k & Hk). rewrite Hk.
  rewrite pmod_eq. pose proof sw_ge2. pose proof p_range.
  assert (Hpb : 0 < 2 ^ pbz) by (apply Zpow2_pos; lia).
  set (m := N.min (SYMB c) (PB c)).
  assert (Hm : Z.of_N (2 ^ m) = 2 ^ Z.of_N m) by apply Npow2_Z.
  assert (Hmpos : 0 < 2 ^ Z.of_N m) by (apply Zpow2_pos; lia).
  (* work in Z *)
  apply N2Z.inj. rewrite N2Z.inj_mod, Hm.
  rewrite Z2N.id by (apply Z.mod_pos_bound; lia).
  rewrite Z2N.id by lia.
  assert (Hdiv1 : (2 ^ Z.of_N m | 2 ^ pbz)) by (apply Zpow2_divide; unfold m, pbz; lia).
  assert (Hdiv2 : (2 ^ Z.of_N m | smod c)) by (rewrite smod_eq; apply Zpow2_divide; unfold m, sw; lia).
  rewrite <- (Zmod_div_mod _ _ _ Hmpos Hpb Hdiv1).
  destruct Hdiv2 as (t & Ht). rewrite Ht.
  replace (d + k * (t * 2 ^ Z.of_N m)) with (d + (k * t) * 2 ^ Z.of_N m) by ring.
  rewrite Z.mod_add by lia.
  apply Z.mod_small. split; [lia|].
  unfold m. destruct (N.min_spec (SYMB c) (PB c)) as [(_ & ->)|(_ & ->)].
  - fold sw. rewrite <- smod_eq. lia.
  - fold pbz. lia.
Qed.

(* ---- LeakyQuantizer::new *)

(* the narrowed support size: exact, except that a signed Symbol narrower than
   Probability sign-extends distances of at least half the symbol range *)
Definition sign_ext_class (lo hi : Z) : Prop :=
  sgn c = true /\ (SYMB c < PB c)%N /\ 2 ^ (sw - 1) <= hi - lo.

Lemma cast_size lo hi :
  in_sym c lo -> in_sym c hi -> lo < hi -> hi - lo < 2 ^ pbz ->
  Z.of_N (castP c (wsubS c hi lo)) =
    if sgn c && (SYMB c <? PB c)%N && (2 ^ (sw - 1) <=? hi - lo)
    then 2 ^ pbz - 2 ^ sw + (hi - lo) else hi - lo.
Proof.
  intros Hlo Hhi Hlt Hpb. unfold castP, wsubS. rewrite pmod_eq.
  pose proof sw_ge2. pose proof p_range.
  assert (Hpbpos : 0 < 2 ^ pbz) by (apply Zpow2_pos; lia).
  rewrite Z2N.id by (apply Z.mod_pos_bound; lia).
  set (d := hi - lo) in *.
  assert (Hd : 0 < d < smod c) by (unfold in_sym, smax in *; lia).
  pose proof smod_half as Hsh. pose proof smod_eq as Hse.
  unfold in_sym, smax, smin in *.
  destruct (sgn c) eqn:Hs; cbn [andb].
  - rewrite half_eq in *.
    destruct (Z.leb_spec (2 ^ (sw - 1)) d) as [Hbig|Hsmall].
    + (* wraps to d - smod *)
      assert (Hw : wrapS c d = d - smod c).
      { apply wrapS_above. unfold smax, smin. rewrite Hs, half_eq. lia. }
      rewrite Hw.
      destruct (N.ltb_spec (SYMB c) (PB c)) as [Hn|Hn]; cbn [andb].
      * assert (smod c < 2 ^ pbz) by (rewrite smod_eq; apply Zpow2_lt; unfold sw, pbz; lia).
        replace (d - smod c) with ((2 ^ pbz - smod c + d) + (-1) * 2 ^ pbz) by lia.
        rewrite Z.mod_add by lia. rewrite Z.mod_small by lia. lia.
      * assert (Hdv : (2 ^ pbz | smod c)) by (rewrite smod_eq; apply Zpow2_divide; unfold sw, pbz; lia).
        destruct Hdv as (t & Ht). rewrite Ht.
        replace (d - t * 2 ^ pbz) with (d + (- t) * 2 ^ pbz) by ring.
        rewrite Z.mod_add by lia. apply Z.mod_small. lia.
    + rewrite Bool.andb_false_r.
      rewrite wrapS_id by (unfold in_sym, smax, smin; rewrite Hs, half_eq; lia).
      apply Z.mod_small. lia.
  - rewrite wrapS_id by (unfold in_sym, smax, smin; rewrite Hs; lia).
    apply Z.mod_small. lia.
Qed.

Lemma lq_new_reject lo hi : hi <= lo -> lq_new c lo hi = None.
Proof. intros. unfold lq_new. destruct (Z.ltb_spec lo hi); [lia|reflexivity]. Qed.

Lemma lq_new_too_large lo hi :
  2 ^ pz - 1 < hi - lo -> lq_new c lo hi = None.
Proof.
  intros H. unfold lq_new. destruct (Z.ltb_spec lo hi); [|reflexivity].
  rewrite maxprob_eq.
  assert (Z.of_N (2 ^ PR c) = 2 ^ pz) by apply Npow2_Z.
  destruct (N.leb_spec (Z.to_N (hi - lo)) (2 ^ PR c - 1)); [lia|reflexivity].
Qed.

(* what an accepted support guarantees (all that validity needs) *)
Lemma lq_new_some lo hi fw :
  in_sym c lo -> in_sym c hi -> lq_new c lo hi = Some fw ->
  lo < hi /\ hi - lo <= 2 ^ pz - 1 /\ Z.of_N fw + (hi - lo) <= 2 ^ pz - 1
  /\ (~ sign_ext_class lo hi -> Z.of_N fw = 2 ^ pz - 1 - (hi - lo)).
Proof.
  intros Hlo Hhi. unfold lq_new. rewrite maxprob_eq.
  assert (HP : Z.of_N (2 ^ PR c) = 2 ^ pz) by apply Npow2_Z.
  pose proof p_range as Hpr. pose proof sw_ge2.
  assert (Hle : 2 ^ pz <= 2 ^ pbz) by (apply Zpow2_le; lia).
  assert (0 < 2 ^ pz) by (apply Zpow2_pos; lia).
  destruct (Z.ltb_spec lo hi) as [Hlt|]; [|discriminate].
  destruct (N.leb_spec (Z.to_N (hi - lo)) (2 ^ PR c - 1)) as [Hsz|]; [|discriminate].
  assert (Hd : hi - lo <= 2 ^ pz - 1) by lia.
  pose proof (cast_size lo hi Hlo Hhi Hlt ltac:(lia)) as Hc.
  destruct (N.leb_spec (castP c (wsubS c hi lo)) (2 ^ PR c - 1)) as [Hcs|]; [|discriminate].
  intros [= <-].
  split; [exact Hlt|]. split; [exact Hd|].
  destruct (sgn c && (SYMB c <? PB c)%N && (2 ^ (sw - 1) <=? hi - lo)) eqn:Hcls.
  - assert (smod c < 2 ^ pbz).
    { rewrite smod_eq. apply Zpow2_lt. apply Bool.andb_true_iff in Hcls as (Hcls & _).
      apply Bool.andb_true_iff in Hcls as (_ & Hn). apply N.ltb_lt in Hn. unfold sw, pbz. lia. }
    rewrite <- smod_eq in Hc. split; [lia|].
    intros Hn. exfalso. apply Hn. unfold sign_ext_class.
    apply Bool.andb_true_iff in Hcls as (Hcls & Hc3). apply Bool.andb_true_iff in Hcls as (Hc1 & Hc2).
    apply N.ltb_lt in Hc2. apply Z.leb_le in Hc3. auto.
  - split; lia.
Qed.

(* acceptance, exactly *)
Lemma lq_new_accept lo hi :
  in_sym c lo -> in_sym c hi -> lo < hi -> hi - lo <= 2 ^ pz - 1 ->
  ~ sign_ext_class lo hi ->
  lq_new c lo hi = Some (Z.to_N (2 ^ pz - 1 - (hi - lo))).
Proof.
  intros Hlo Hhi Hlt Hd Hcls. unfold lq_new. rewrite maxprob_eq.
  assert (HP : Z.of_N (2 ^ PR c) = 2 ^ pz) by apply Npow2_Z.
  pose proof p_range as Hpr. pose proof sw_ge2.
  assert (Hle : 2 ^ pz <= 2 ^ pbz) by (apply Zpow2_le; lia).
  assert (0 < 2 ^ pz) by (apply Zpow2_pos; lia).
  destruct (Z.ltb_spec lo hi); [|lia].
  destruct (N.leb_spec (Z.to_N (hi - lo)) (2 ^ PR c - 1)); [|lia].
  pose proof (cast_size lo hi Hlo Hhi Hlt ltac:(lia)) as Hc.
  destruct (sgn c && (SYMB c <? PB c)%N && (2 ^ (sw - 1) <=? hi - lo)) eqn:Hb.
  - exfalso. apply Hcls. unfold sign_ext_class.
    apply Bool.andb_true_iff in Hb as (Hb & Hc3). apply Bool.andb_true_iff in Hb as (Hc1 & Hc2).
    apply N.ltb_lt in Hc2. apply Z.leb_le in Hc3. auto.
  - destruct (N.leb_spec (castP c (wsubS c hi lo)) (2 ^ PR c - 1)); [|lia].
    f_equal. lia.
Qed.

(* the sign-extension class: a clean panic unless PRECISION == Probability::BITS *)
Lemma lq_new_sign_ext lo hi :
  in_sym c lo -> in_sym c hi -> sign_ext_class lo hi -> (PR c < PB c)%N ->
  lq_new c lo hi = None.
Proof.
  intros Hlo Hhi (Hs & Hn & Hbig) Hp. unfold lq_new. rewrite maxprob_eq.
  assert (HP : Z.of_N (2 ^ PR c) = 2 ^ pz) by apply Npow2_Z.
  pose proof p_range as Hpr. pose proof sw_ge2.
  assert (0 < 2 ^ pz) by (apply Zpow2_pos; lia).
  assert (0 < 2 ^ (sw - 1)) by (apply Zpow2_pos; lia).
  destruct (Z.ltb_spec lo hi) as [Hlt|]; [|reflexivity].
  destruct (N.leb_spec (Z.to_N (hi - lo)) (2 ^ PR c - 1)) as [Hsz|]; [|reflexivity].
  assert (2 * 2 ^ pz <= 2 ^ pbz).
  { replace pbz with (Z.succ (pbz - 1)) by lia. rewrite Z.pow_succ_r by (unfold pz, pbz in *; lia).
    assert (2 ^ pz <= 2 ^ (pbz - 1)) by (apply Zpow2_le; unfold pz, pbz in *; lia). lia. }
  pose proof (cast_size lo hi Hlo Hhi Hlt ltac:(lia)) as Hc.
  rewrite Hs in Hc. apply N.ltb_lt in Hn. rewrite Hn in Hc.
  apply Z.leb_le in Hbig. rewrite Hbig in Hc. cbn [andb] in Hc. apply Z.leb_le in Hbig.
  apply N.ltb_lt in Hn.
  assert (2 * 2 ^ sw <= 2 ^ pbz).
  { replace pbz with (Z.succ (pbz - 1)) by lia. rewrite Z.pow_succ_r by (unfold sw, pbz in *; lia).
    assert (2 ^ sw <= 2 ^ (pbz - 1)) by (apply Zpow2_le; unfold sw, pbz in *; lia). lia. }
  pose proof smod_half. pose proof smod_eq.
  destruct (N.leb_spec (castP c (wsubS c hi lo)) (2 ^ PR c - 1)); [|reflexivity].
  exfalso. lia.
Qed.

End Cfg.
