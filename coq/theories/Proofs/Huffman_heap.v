(* Proofs/Huffman_heap.v -- the priority queue of the Huffman constructors.
   pop_min removes exactly one element (Permutation), it is a minimum under
   the (weight, index) order, and -- because indices are unique -- the result
   does not depend on the order in which the heap stores its elements. *)
From CV Require Import Base.Bits Model.Huffman.
From Coq Require Import Permutation.
Set Default Timeout 30.
Open Scope N_scope.

Definition idx {W} (h : list (W * N)) : list N := map snd h.

(* all indices distinct and below the next fresh index *)
Definition heap_ok {W} (h : list (W * N)) (next : N) : Prop :=
  NoDup (idx h) /\ Forall (fun i => i < next) (idx h).

Section Heap.
  Variable W : Type.
  Variable wcmp : W -> W -> comparison.
  Notation item := (W * N)%type.
  Notation pop_min := (pop_min W wcmp).
  Notation item_lt := (item_lt W wcmp).

  Lemma pop_min_none h : pop_min h = None -> h = [].
  Proof.
    destruct h as [|x r]; [reflexivity|]. cbn.
    destruct (pop_min r) as [[m r']|]; [destruct (item_lt m x)|]; discriminate.
  Qed.

  Lemma pop_min_perm h : forall x r, pop_min h = Some (x, r) -> Permutation h (x :: r).
  Proof.
    induction h as [|y t IH]; intros x r H; [discriminate|].
    cbn in H. destruct (pop_min t) as [[m r']|] eqn:E.
    - specialize (IH m r' eq_refl).
      destruct (item_lt m y); inversion H; subst.
      + rewrite IH. apply perm_swap.
      + reflexivity.
    - inversion H; subst. apply pop_min_none in E. subst. reflexivity.
  Qed.

  Lemma pop_min_length h x r : pop_min h = Some (x, r) -> length h = S (length r).
  Proof. intros H. apply pop_min_perm in H. apply Permutation_length in H. exact H. Qed.

  Lemma pop_min_some h : h <> [] -> exists x r, pop_min h = Some (x, r).
  Proof.
    destruct h as [|y t]; [congruence|]. intros _. cbn.
    destruct (pop_min t) as [[m r']|]; [destruct (item_lt m y)|]; eauto.
  Qed.

  Lemma heap_ok_perm (h h' : list item) next :
    Permutation h h' -> heap_ok h next -> heap_ok h' next.
  Proof.
    intros P [H1 H2]. assert (Permutation (idx h) (idx h')) by (apply Permutation_map; exact P).
    split.
    - eapply Permutation_NoDup; eassumption.
    - eapply Permutation_Forall; eassumption.
  Qed.

  Lemma heap_ok_pop h next x r :
    heap_ok h next -> pop_min h = Some (x, r) ->
    heap_ok r next /\ snd x < next /\ ~ In (snd x) (idx r).
  Proof.
    intros Hok Hp. apply pop_min_perm in Hp.
    destruct (heap_ok_perm _ _ _ Hp Hok) as [H1 H2]. cbn in H1, H2.
    inversion H1; subst. inversion H2; subst. repeat split; assumption.
  Qed.

  Lemma heap_ok_push (h : list item) next w :
    heap_ok h next -> heap_ok ((w, next) :: h) (next + 1).
  Proof.
    intros [H1 H2]. split; cbn.
    - constructor; [|exact H1]. intros Hin.
      rewrite Forall_forall in H2. specialize (H2 _ Hin). lia.
    - constructor; [lia|]. eapply Forall_impl; [|exact H2]. cbn. intros; lia.
  Qed.

  (* ------------------------------------------------------------------ order *)
  Section Order.
    (* P::cmp is a total preorder (integers: total order; floats without NaN:
       -0 = +0 are distinct values that compare Equal) *)
    Hypothesis wcmp_sym : forall a b, wcmp b a = CompOpp (wcmp a b).
    Hypothesis wcmp_trans : forall a b c, wcmp a b <> Gt -> wcmp b c <> Gt -> wcmp a c <> Gt.

    Definition item_le (a b : item) : Prop := item_lt b a = false.

    Lemma wcmp_refl a : wcmp a a = Eq.
    Proof. pose proof (wcmp_sym a a). destruct (wcmp a a); cbn in *; congruence. Qed.

    Lemma item_lt_irrefl a : item_lt a a = false.
    Proof. unfold Huffman.item_lt. rewrite wcmp_refl. apply N.ltb_irrefl. Qed.

    Lemma item_lt_asym a b : item_lt a b = true -> item_lt b a = false.
    Proof.
      unfold Huffman.item_lt. rewrite (wcmp_sym (fst a) (fst b)).
      destruct (wcmp (fst a) (fst b)); cbn; try congruence.
      rewrite N.ltb_lt, N.ltb_ge. lia.
    Qed.

    (* no two items with different indices compare Equal *)
    Lemma item_lt_total a b : snd a <> snd b -> item_lt a b = false -> item_lt b a = true.
    Proof.
      unfold Huffman.item_lt. rewrite (wcmp_sym (fst a) (fst b)).
      destruct (wcmp (fst a) (fst b)); cbn; try congruence.
      rewrite N.ltb_lt, N.ltb_ge. lia.
    Qed.

    Lemma wcmp_lt_le a b c : wcmp a b = Lt -> wcmp b c <> Gt -> wcmp a c = Lt.
    Proof.
      intros H1 H2.
      assert (wcmp a c <> Gt) as H3 by (apply (wcmp_trans a b c); congruence).
      destruct (wcmp a c) eqn:E; try congruence. exfalso.
      assert (wcmp b a <> Gt) as H4.
      { apply (wcmp_trans b c a); [exact H2|]. rewrite (wcmp_sym a c), E. cbn. congruence. }
      rewrite (wcmp_sym a b), H1 in H4. cbn in H4. congruence.
    Qed.

    Lemma wcmp_le_lt a b c : wcmp a b <> Gt -> wcmp b c = Lt -> wcmp a c = Lt.
    Proof.
      intros H1 H2.
      assert (wcmp a c <> Gt) as H3 by (apply (wcmp_trans a b c); congruence).
      destruct (wcmp a c) eqn:E; try congruence. exfalso.
      assert (wcmp c b <> Gt) as H4.
      { apply (wcmp_trans c a b); [|exact H1]. rewrite (wcmp_sym a c), E. cbn. congruence. }
      rewrite (wcmp_sym b c), H2 in H4. cbn in H4. congruence.
    Qed.

    Lemma wcmp_eq_eq a b c : wcmp a b = Eq -> wcmp b c = Eq -> wcmp a c = Eq.
    Proof.
      intros H1 H2.
      assert (wcmp a c <> Gt) as H3 by (apply (wcmp_trans a b c); congruence).
      assert (wcmp c a <> Gt) as H4.
      { apply (wcmp_trans c b a).
        - rewrite (wcmp_sym b c), H2. cbn. congruence.
        - rewrite (wcmp_sym a b), H1. cbn. congruence. }
      rewrite (wcmp_sym a c) in H4.
      destruct (wcmp a c); cbn in *; congruence.
    Qed.

    (* a <= b  <->  weight a < weight b, or equal weights and index a <= index b *)
    Lemma item_le_spec a b :
      item_le a b <-> wcmp (fst a) (fst b) = Lt \/ (wcmp (fst a) (fst b) = Eq /\ snd a <= snd b).
    Proof.
      unfold item_le, Huffman.item_lt. rewrite (wcmp_sym (fst a) (fst b)).
      destruct (wcmp (fst a) (fst b)); cbn.
      - rewrite N.ltb_ge. split.
        + intros H. right. split; [reflexivity|exact H].
        + intros [H|[_ H]]; [discriminate|exact H].
      - split; [intros _; left; reflexivity|reflexivity].
      - split; [discriminate|]. intros [H|[H _]]; discriminate.
    Qed.

    Lemma item_le_trans a b c : item_le a b -> item_le b c -> item_le a c.
    Proof.
      rewrite !item_le_spec. intros [H1|[H1 I1]] [H2|[H2 I2]].
      - left. apply (wcmp_lt_le _ (fst b)); congruence.
      - left. apply (wcmp_lt_le _ (fst b)); congruence.
      - left. apply (wcmp_le_lt _ (fst b)); congruence.
      - right. split; [apply (wcmp_eq_eq _ (fst b)); assumption|lia].
    Qed.

    (* BinaryHeap::pop returns a minimum *)
    Lemma pop_min_minimal h : forall m r, pop_min h = Some (m, r) -> Forall (item_le m) r.
    Proof.
      induction h as [|y t IH]; intros m r H; [discriminate|].
      cbn in H. destruct (pop_min t) as [[m' r']|] eqn:E.
      - specialize (IH m' r' eq_refl).
        destruct (item_lt m' y) eqn:L; inversion H; subst.
        + constructor; [apply item_lt_asym in L; exact L|exact IH].
        + pose proof (pop_min_perm _ _ _ E) as P.
          eapply Permutation_Forall; [symmetry; exact P|].
          constructor; [exact L|].
          eapply Forall_impl; [|exact IH]. intros z Hz.
          eapply item_le_trans; [exact L|exact Hz].
      - inversion H; subst. constructor.
    Qed.

    Lemma in_idx_eq (h : list item) a b :
      NoDup (idx h) -> In a h -> In b h -> snd a = snd b -> a = b.
    Proof.
      induction h as [|x t IH]; cbn; intros ND Ha Hb E; [contradiction|].
      inversion ND as [|? ? Hnin ND']; subst.
      destruct Ha as [->|Ha], Hb as [->|Hb]; auto.
      - exfalso. apply Hnin. rewrite E. apply in_map. exact Hb.
      - exfalso. apply Hnin. rewrite <- E. apply in_map. exact Ha.
    Qed.

    (* ties cannot matter: the popped element does not depend on the internal
       order of the heap, and the remaining collections are permutations *)
    Lemma pop_min_perm_inv h h' m r :
      Permutation h h' -> NoDup (idx h) -> pop_min h = Some (m, r) ->
      exists r', pop_min h' = Some (m, r') /\ Permutation r r'.
    Proof.
      intros P ND H.
      assert (h' <> []) as Hne.
      { intros ->. apply Permutation_sym, Permutation_nil in P. subst. discriminate. }
      destruct (pop_min_some h' Hne) as (m' & r' & H').
      pose proof (pop_min_perm _ _ _ H) as P1. pose proof (pop_min_perm _ _ _ H') as P2.
      pose proof (pop_min_minimal _ _ _ H) as M1. pose proof (pop_min_minimal _ _ _ H') as M2.
      assert (In m' (m :: r)) as I1.
      { eapply Permutation_in; [exact P1|]. eapply Permutation_in; [symmetry; exact P|].
        eapply Permutation_in; [symmetry; exact P2|]. left; reflexivity. }
      assert (In m (m' :: r')) as I2.
      { eapply Permutation_in; [exact P2|]. eapply Permutation_in; [exact P|].
        eapply Permutation_in; [symmetry; exact P1|]. left; reflexivity. }
      assert (m = m') as ->.
      { destruct I1 as [E|I1]; [exact E|]. destruct I2 as [E|I2]; [symmetry; exact E|].
        rewrite Forall_forall in M1, M2. specialize (M1 _ I1). specialize (M2 _ I2).
        unfold item_le in M1, M2.
        apply (in_idx_eq h); try assumption.
        - eapply Permutation_in; [symmetry; exact P1|]. left; reflexivity.
        - eapply Permutation_in; [symmetry; exact P1|]. right; exact I1.
        - destruct (N.eq_dec (snd m) (snd m')) as [E|NE]; [exact E|].
          apply item_lt_total in M1; [congruence|congruence]. }
      exists r'. split; [exact H'|].
      apply (Permutation_cons_inv (a := m')).
      rewrite <- P1, <- P2. exact P.
    Qed.
  End Order.
End Heap.
