(* Props/C08_ans.v -- inspecting an ANS coder never changes it. Statements only. *)
From CV Require Import Base.Bits Model.EModel Model.Ans Proofs.Ans_extra.
Open Scope N_scope.

(* get_compressed: the temporary view shows exactly what into_compressed would return,
   and dropping it restores the coder (for EVERY coder, no invariant needed) *)
Theorem C08_ans_guard_view : forall c a, ans_guard_view (ans_guard_open c a) = ans_words c a.
Proof. exact ans_guard_view_words. Qed.

Theorem C08_ans_guard_restores : forall c a, ans_guard_close c (ans_guard_open c a) = a.
Proof. exact ans_guard_roundtrip. Qed.

(* get_binary: same, and the view equals what into_binary-style export returns *)
Theorem C08_ans_sealed_guard : forall c a a',
  ans_sealed_open c a = Some a' ->
  ans_sealed_close c a' = a /\ Some (ans_guard_view a') = ans_get_binary c a.
Proof. exact ans_sealed_roundtrip. Qed.

(* a refused raw-binary view has written nothing *)
Theorem C08_ans_sealed_refused : forall c a, ans_sealed_open c a = None -> ans_get_binary c a = None.
Proof. exact ans_sealed_fail. Qed.

Check C08_ans_guard_restores : forall c a, ans_guard_close c (ans_guard_open c a) = a.

Print Assumptions C08_ans_guard_view.
Print Assumptions C08_ans_guard_restores.
Print Assumptions C08_ans_sealed_guard.
Print Assumptions C08_ans_sealed_refused.
