#!/bin/sh
# Builds everything the checks need, offline, from files on disk only.
set -e
cd "$(dirname "$0")"
export CARGO_NET_OFFLINE=true
mkdir -p .cache
( cd coq && coq_makefile -f _CoqProject -o Makefile >/dev/null && timeout 7200 make -j16 >/dev/null 2>.cache_make_err || { cat .cache_make_err; exit 1; } ; rm -f .cache_make_err )
[ -f harness/Cargo.lock ] || cp /repo/Cargo.lock harness/Cargo.lock
( cd harness && CARGO_TARGET_DIR=../.cache/cargo-target RUSTFLAGS="--cfg constriction_verif" timeout 3600 cargo build --offline 2>&1 | tail -2 )
( cd harness && CARGO_TARGET_DIR=../.cache/cargo-target RUSTFLAGS="--cfg constriction_verif" timeout 3600 cargo build --offline --release 2>&1 | tail -2 )
echo setup done
