(* Props/C16.v -- bit-level stack and queue coders are faithful LIFO / FIFO containers;
   Exp-Golomb codes round-trip for every value of every width.  Statements only.
   Also: the bit-coder parts of C08 (theorems C08_bits_xxx) and C18 (theorems C18_bits_xxx).

   WB = Word::BITS, UB = usize::BITS, BITS = bits of the Exp-Golomb integer type; all are
   universally quantified (0 < WB, 0 < BITS < 2^32 because count_zeros() is a u32).
   bc_inv is the documented struct invariant; it holds for new(), for every successful
   from_compressed, and is preserved by every operation (C16_reachable, C16_stack_import). *)
From CV Require Import Base.Bits Model.BitCoder Model.ExpGolomb.
From CV Require Import Proofs.Bit_core Proofs.Bit_stack Proofs.Bit_queue Proofs.Bit_history
  Proofs.Bit_expgolomb Proofs.Bit_props.
Open Scope N_scope.

(* ---------------- refinement to list bool, one operation at a time ---------------- *)

(* stack: write_bit = cons *)
Theorem C16_stack_write_cons : forall WB bit c, 0 < WB -> bc_inv WB c ->
  bc_inv WB (bc_write_bit WB bit c) /\ abs_stack WB (bc_write_bit WB bit c) = bit :: abs_stack WB c.
Proof. intros WB bit c H. exact (bc_write_bit_spec WB H bit c). Qed.

(* stack: read_bit = uncons (LIFO); Ok(None) exactly on the empty stack, coder untouched *)
Theorem C16_stack_read_lifo : forall WB c, 0 < WB -> bc_inv WB c ->
  match abs_stack WB c with
  | [] => st_read_bit WB c = (None, c)
  | b :: r => exists c', st_read_bit WB c = (Some b, c') /\ bc_inv WB c' /\ abs_stack WB c' = r
  end.
Proof. intros WB c H. exact (st_read_bit_spec WB H c). Qed.

(* raw level: pop after push restores the coder field by field (up to flushing a full word) *)
Theorem C16_stack_push_pop_raw : forall WB bit c, 0 < WB -> bc_inv WB c ->
  st_read_bit WB (bc_write_bit WB bit c) = (Some bit, bc_norm WB c).
Proof. intros WB bit c H. exact (st_push_pop_raw WB H bit c). Qed.

(* queue encoder: write_bit = snoc *)
Theorem C16_queue_write_snoc : forall WB bit c, 0 < WB -> bc_inv WB c ->
  bc_inv WB (bc_write_bit WB bit c) /\ abs_queue WB (bc_write_bit WB bit c) = abs_queue WB c ++ [bit].
Proof. intros WB bit c H. exact (qe_write_bit_spec WB H bit c). Qed.

(* queue decoder: read_bit = uncons of the remaining bits (FIFO), None exactly at the end *)
Theorem C16_queue_read_fifo : forall WB d, 0 < WB -> qd_inv WB d ->
  match abs_qdec WB d with
  | [] => qd_read_bit WB d = (None, d)
  | b :: r => exists d', qd_read_bit WB d = (Some b, d') /\ qd_inv WB d' /\ abs_qdec WB d' = r
  end.
Proof. intros WB d H. exact (qd_read_bit_spec WB H d). Qed.

(* encoder -> decoder: exactly the written bits, then zero padding up to a whole word *)
Theorem C16_queue_into_decoder : forall WB c, 0 < WB -> bc_inv WB c ->
  abs_qdec WB (qe_into_decoder c) = abs_queue WB c ++ qpad WB (abs_queue WB c).
Proof. intros WB c H. exact (qe_into_decoder_abs WB H c). Qed.

(* ---------------- whole histories ---------------- *)

(* every interleaving of write / read / len / export+import / inspection behaves like the
   abstract LIFO list; valid for every valid start state, in particular new() *)
Theorem C16_stack_history : forall UB WB h c, 0 < WB -> bc_inv WB c ->
  st_spec UB WB (abs_stack WB c) h (abs_stack WB (fst (st_run UB WB c h))) (snd (st_run UB WB c h)).
Proof. intros UB WB h c H. exact (st_run_refines UB WB H h c). Qed.

Theorem C16_queue_history : forall UB WB h c, 0 < WB -> bc_inv WB c ->
  qe_spec UB WB (abs_queue WB c) h (abs_queue WB (fst (qe_run UB WB c h))) (snd (qe_run UB WB c h)).
Proof. intros UB WB h c H. exact (qe_run_refines UB WB H h c). Qed.

Theorem C16_reachable : forall UB WB hs hq, 0 < WB ->
  bc_inv WB (fst (st_run UB WB bc_new hs)) /\ bc_inv WB (fst (qe_run UB WB bc_new hq)).
Proof. intros UB WB hs hq H. split; [exact (st_reachable_inv WB H UB hs)|exact (qe_reachable_inv WB H UB hq)]. Qed.

(* n bits written to a fresh stack come back in exactly reverse order, then end-of-data *)
Theorem C16_stack_roundtrip : forall WB bits fuel, 0 < WB -> (length bits < fuel)%nat ->
  exists c', st_drain WB fuel (bc_write_bits WB bits bc_new) = (rev bits, c')
    /\ st_read_bit WB c' = (None, c').
Proof. intros WB bits fuel H. exact (stack_roundtrip WB H bits fuel). Qed.

(* n bits written to a fresh queue come back in the same order, then only padding zeros,
   then end-of-data *)
Theorem C16_queue_roundtrip : forall WB bits fuel, 0 < WB -> (length bits + N.to_nat WB < fuel)%nat ->
  exists d', qd_drain WB fuel (qe_into_decoder (bc_write_bits WB bits bc_new)) = (bits ++ qpad WB bits, d')
    /\ qd_read_bit WB d' = (None, d').
Proof. intros WB bits fuel H. exact (queue_roundtrip WB H bits fuel). Qed.

(* ---------------- export / import of the stack coder ---------------- *)

(* for every valid coder, i.e. every fill level of the last word: re-importing the exported
   words succeeds, yields the normal form of the coder field by field, with the same content,
   and no later history can tell the two apart *)
Theorem C16_stack_export_import : forall UB WB c h, 0 < WB -> bc_inv WB c ->
  exists c', st_from_compressed WB (st_into_compressed WB c) = inl c'
    /\ bc_inv WB c' /\ abs_stack WB c' = abs_stack WB c
    /\ snd (st_run UB WB c' h) = snd (st_run UB WB c h)
    /\ bc_equiv WB (fst (st_run UB WB c' h)) (fst (st_run UB WB c h)).
Proof. intros UB WB c h H. exact (stack_export_import WB H UB c h). Qed.

Theorem C16_stack_export_import_raw : forall WB c, 0 < WB -> bc_inv WB c ->
  st_from_compressed WB (st_into_compressed WB c) = inl (bc_norm WB c).
Proof. intros WB c H. exact (st_export_import_raw WB H c). Qed.

(* exported data is never empty and never ends in a zero word *)
Theorem C16_stack_export_shape : forall WB c, 0 < WB -> bc_inv WB c ->
  exists init last, st_into_compressed WB c = init ++ [last] /\ last <> 0
    /\ Forall (fun w => w < 2 ^ WB) (init ++ [last]).
Proof. intros WB c H. exact (st_into_compressed_shape WB H c). Qed.

(* import of ANY words not ending in a zero word: a valid normal-form coder that exports
   to exactly these words (import and export are mutually inverse) *)
Theorem C16_stack_import : forall WB init last, 0 < WB ->
  Forall (fun w => w < 2 ^ WB) (init ++ [last]) -> last <> 0 ->
  exists c, st_from_compressed WB (init ++ [last]) = inl c
    /\ bc_inv WB c /\ bc_norm WB c = c /\ st_into_compressed WB c = init ++ [last].
Proof. intros WB init last H. exact (st_import_export WB H init last). Qed.

(* data ending in a zero word is rejected; the returned Vec has lost that word *)
Theorem C16_stack_import_reject : forall WB init,
  st_from_compressed WB (init ++ [0]) = inr init.
Proof. exact st_import_zero. Qed.

Theorem C16_stack_import_empty : forall WB, st_from_compressed WB [] = inl bc_new.
Proof. exact st_import_nil. Qed.

(* observational equivalence is exactly "same content" *)
Theorem C16_content_determines_behaviour : forall UB WB c1 c2 h, 0 < WB ->
  bc_inv WB c1 -> bc_inv WB c2 -> abs_stack WB c1 = abs_stack WB c2 ->
  snd (st_run UB WB c1 h) = snd (st_run UB WB c2 h)
  /\ bc_equiv WB (fst (st_run UB WB c1 h)) (fst (st_run UB WB c2 h)).
Proof.
  intros UB WB c1 c2 h H H1 H2 E.
  exact (st_run_equiv UB WB H h c1 c2 H1 H2 (content_determines_norm WB H c1 c2 H1 H2 E)).
Qed.

(* ---------------- Exp-Golomb ---------------- *)

(* what the encoder emits IS the Exp-Golomb code of n, for every n of the type, the
   maximum 2^BITS - 1 included (wrap-to-zero branch); the suffix form is its reversal *)
Theorem C16_expgolomb_code : forall BITS n, 0 < BITS -> n < 2 ^ BITS ->
  eg_prefix_bits BITS n = eg_spec n /\ eg_suffix_bits BITS n = rev (eg_spec n).
Proof.
  intros BITS n H Hn. split; [exact (eg_prefix_is_spec BITS H n Hn)|exact (eg_suffix_is_rev_spec BITS H n Hn)].
Qed.

(* decode . encode = id on any bit source, whatever follows the codeword *)
Theorem C16_expgolomb_roundtrip : forall BITS n rest fuel,
  0 < BITS -> BITS < 2 ^ 32 -> n < 2 ^ BITS -> (N.to_nat BITS < fuel)%nat ->
  eg_decode ls_read BITS fuel (eg_prefix_bits BITS n ++ rest) = (EgOk n, rest).
Proof.
  intros BITS n rest fuel H H32 Hn Hf. rewrite (eg_prefix_is_spec BITS H n Hn).
  exact (eg_decode_spec_list BITS H H32 n rest fuel Hn Hf).
Qed.

(* on the stack coder (suffix form, any fill level, any word width) *)
Theorem C16_expgolomb_roundtrip_stack : forall WB BITS n c fuel,
  0 < WB -> 0 < BITS -> BITS < 2 ^ 32 -> n < 2 ^ BITS -> bc_inv WB c -> (N.to_nat BITS < fuel)%nat ->
  exists c', st_decode_eg WB BITS fuel (st_encode_eg WB BITS n c) = (EgOk n, c')
    /\ bc_inv WB c' /\ abs_stack WB c' = abs_stack WB c.
Proof. intros WB BITS n c fuel HW HB H32 Hn Hi Hf. exact (st_eg_roundtrip WB BITS HW HB H32 n c fuel Hn Hi Hf). Qed.

(* on the queue (prefix form): the encoder appends the code; a decoder positioned at the
   code returns n and stops right behind it *)
Theorem C16_expgolomb_roundtrip_queue : forall WB BITS n c d rest fuel,
  0 < WB -> 0 < BITS -> BITS < 2 ^ 32 -> n < 2 ^ BITS -> bc_inv WB c -> qd_inv WB d ->
  (N.to_nat BITS < fuel)%nat ->
  abs_queue WB (qe_encode_eg WB BITS n c) = abs_queue WB c ++ eg_prefix_bits BITS n
  /\ (abs_qdec WB d = eg_prefix_bits BITS n ++ rest ->
      exists d', qd_decode_eg WB BITS fuel d = (EgOk n, d') /\ qd_inv WB d' /\ abs_qdec WB d' = rest).
Proof.
  intros WB BITS n c d rest fuel HW HB H32 Hn Hi Hd Hf.
  rewrite (eg_prefix_is_spec BITS HB n Hn). split.
  - exact (proj2 (qe_encode_eg_spec WB BITS HW HB n c Hn Hi)).
  - intros Ha. exact (qd_eg_roundtrip WB BITS HW HB H32 n d rest fuel Hn Hd Ha Hf).
Qed.

(* rejection of over-long codes: more than BITS leading zeros *)
Theorem C16_expgolomb_reject_overlong : forall BITS k rest fuel,
  0 < BITS -> BITS < 2 ^ 32 -> BITS < N.of_nat k -> N.of_nat k < 2 ^ 32 -> (k < fuel)%nat ->
  eg_decode ls_read BITS fuel (repeat false k ++ true :: rest) = (EgInvalid, rest).
Proof. intros BITS k rest fuel H H32. exact (eg_reject_overlong BITS H H32 k rest fuel). Qed.

(* exactly BITS leading zeros: only the all-zero tail (= the maximum) is a codeword *)
Theorem C16_expgolomb_reject_noncanonical : forall BITS bs rest fuel,
  0 < BITS -> BITS < 2 ^ 32 ->
  length bs = N.to_nat BITS -> bs <> repeat false (N.to_nat BITS) -> (N.to_nat BITS < fuel)%nat ->
  eg_decode ls_read BITS fuel (repeat false (N.to_nat BITS) ++ true :: bs ++ rest) = (EgInvalid, rest).
Proof. intros BITS bs rest fuel H H32. exact (eg_reject_noncanonical BITS H H32 bs rest fuel). Qed.

(* data ending inside a codeword *)
Theorem C16_expgolomb_reject_truncated : forall BITS k bs fuel,
  0 < BITS -> BITS < 2 ^ 32 -> (k < fuel)%nat -> N.of_nat k < 2 ^ 32 ->
  eg_decode ls_read BITS fuel (repeat false k) = (EgInvalid, [])
  /\ ((length bs < k)%nat -> N.of_nat k <= BITS ->
      eg_decode ls_read BITS fuel (repeat false k ++ true :: bs) = (EgInvalid, [])).
Proof.
  intros BITS k bs fuel H HB32 Hf H32. split.
  - exact (eg_reject_eof_zeros BITS H HB32 k fuel Hf H32).
  - intros Hs Hk. exact (eg_reject_eof_tail BITS H HB32 k bs fuel Hs Hf Hk).
Qed.

(* conversely, the decoder accepts nothing but codewords of values of the type: with the round
   trip, decoding is a bijection between codewords and the values 0 .. 2^BITS - 1 *)
Theorem C16_expgolomb_accepts_only_codewords : forall BITS fuel l n rest,
  0 < BITS -> BITS < 2 ^ 32 -> eg_decode ls_read BITS fuel l = (EgOk n, rest) ->
  n < 2 ^ BITS /\ l = eg_prefix_bits BITS n ++ rest.
Proof.
  intros BITS fuel l n rest H H32 Hd.
  destruct (eg_decode_ok_inv BITS H H32 fuel l n rest Hd) as [Hn Hl].
  split; [exact Hn|]. rewrite (eg_prefix_is_spec BITS H n Hn). exact Hl.
Qed.

(* decoding is total: with fuel for the data at hand (the model's only artefact) and fewer
   than 2^32 bits of data (the u32 zero counter), the answer is a value or InvalidCodeword *)
Theorem C16_expgolomb_decode_total : forall BITS fuel l,
  (length l < fuel)%nat -> N.of_nat (length l) < 2 ^ 32 ->
  fst (eg_decode ls_read BITS fuel l) = EgInvalid \/ exists n, fst (eg_decode ls_read BITS fuel l) = EgOk n.
Proof. exact eg_decode_total. Qed.

(* the coders decode exactly what a list of their content decodes (also on every error path) *)
Theorem C16_expgolomb_decode_refines : forall WB BITS fuel c d, 0 < WB -> bc_inv WB c -> qd_inv WB d ->
  (exists c', st_decode_eg WB BITS fuel c = (fst (eg_decode ls_read BITS fuel (abs_stack WB c)), c')
     /\ bc_inv WB c' /\ abs_stack WB c' = snd (eg_decode ls_read BITS fuel (abs_stack WB c)))
  /\ (exists d', qd_decode_eg WB BITS fuel d = (fst (eg_decode ls_read BITS fuel (abs_qdec WB d)), d')
     /\ qd_inv WB d' /\ abs_qdec WB d' = snd (eg_decode ls_read BITS fuel (abs_qdec WB d))).
Proof.
  intros WB BITS fuel c d H Hc Hd. split.
  - exact (st_decode_eg_refines WB BITS H fuel c Hc).
  - exact (qd_decode_eg_refines WB BITS H fuel d Hd).
Qed.

(* ---------------- C08, bit coders: inspection leaves the coder observably untouched -------- *)

(* the guard's view is exactly what into_compressed would return at that moment *)
Theorem C08_bits_guard_view : forall WB c,
  bc_guard_view (st_guard_new WB c) = st_into_compressed WB c
  /\ bc_guard_view (qe_guard_new c) = qe_into_compressed c.
Proof. intros WB c. split; [exact (st_guard_view_eq WB c)|exact (qe_guard_view_eq c)]. Qed.

(* dropping a stack guard leaves the normal form of the coder: the only possible change is
   "current word full" -> "that word flushed" *)
Theorem C08_bits_stack_guard_drop : forall WB c, 0 < WB -> bc_inv WB c ->
  st_guard_drop WB (st_guard_new WB c) = bc_norm WB c
  /\ bc_inv WB (bc_norm WB c) /\ abs_stack WB (bc_norm WB c) = abs_stack WB c.
Proof.
  intros WB c H Hi. split; [exact (st_guard_roundtrip WB H c Hi)|exact (bc_norm_spec WB H c Hi)].
Qed.

(* dropping a queue guard restores the encoder field by field *)
Theorem C08_bits_queue_guard_drop : forall c, qe_guard_drop (qe_guard_new c) = c.
Proof. exact qe_guard_roundtrip. Qed.

(* twin histories: an inspection inserted anywhere changes no later output (write_bit, read_bit,
   len, export+import, further inspections) and leaves an equivalent coder *)
Theorem C08_bits_stack_twin : forall UB WB h1 h2 c, 0 < WB -> bc_inv WB c ->
  let c1 := fst (st_run UB WB c h1) in
  snd (st_run UB WB c (h1 ++ SInspect :: h2))
  = snd (st_run UB WB c h1) ++ SoWords (st_into_compressed WB c1) :: snd (st_run UB WB c1 h2)
  /\ snd (st_run UB WB c (h1 ++ h2)) = snd (st_run UB WB c h1) ++ snd (st_run UB WB c1 h2)
  /\ bc_equiv WB (fst (st_run UB WB c (h1 ++ SInspect :: h2))) (fst (st_run UB WB c (h1 ++ h2))).
Proof. intros UB WB h1 h2 c H. exact (st_run_twin UB WB H h1 h2 c). Qed.

Theorem C08_bits_queue_twin : forall UB WB h1 h2 c,
  let c1 := fst (qe_run UB WB c h1) in
  qe_run UB WB c1 (QInspect :: h2)
  = (fst (qe_run UB WB c1 h2), SoWords (qe_into_compressed c1) :: snd (qe_run UB WB c1 h2)).
Proof. exact qe_run_twin. Qed.

(* equivalent coders are indistinguishable by any history *)
Theorem C08_bits_equiv_indistinguishable : forall UB WB h c1 c2, 0 < WB ->
  bc_inv WB c1 -> bc_inv WB c2 -> bc_equiv WB c1 c2 ->
  snd (st_run UB WB c1 h) = snd (st_run UB WB c2 h)
  /\ bc_equiv WB (fst (st_run UB WB c1 h)) (fst (st_run UB WB c2 h)).
Proof. intros UB WB h c1 c2 H. exact (st_run_equiv UB WB H h c1 c2). Qed.

(* ---------------- C18, bit coders: len / is_empty are exact ---------------- *)

(* len() = number of bits of content, or the documented panic when that does not fit in usize *)
Theorem C18_bits_len : forall UB WB c, 0 < WB -> bc_inv WB c ->
  bc_len UB WB c = len_spec UB (abs_stack WB c)
  /\ length (abs_queue WB c) = length (abs_stack WB c).
Proof.
  intros UB WB c H Hi. split; [exact (bc_len_spec WB H UB c Hi)|].
  unfold abs_queue. apply rev_length.
Qed.

Theorem C18_bits_is_empty : forall WB c, 0 < WB -> bc_inv WB c ->
  bc_is_empty c = match abs_stack WB c with [] => true | _ => false end.
Proof. intros WB c H. exact (bc_is_empty_spec WB H c). Qed.

(* QueueDecoder::maybe_exhausted is true exactly when no whole word is left and every
   remaining bit of the current word is zero (i.e. only padding can follow) *)
Theorem C18_bits_queue_maybe_exhausted : forall WB d, 0 < WB -> qd_inv WB d ->
  (qd_maybe_exhausted WB d = true
   <-> qws d = [] /\ abs_qdec WB d = repeat false (length (abs_qdec WB d))).
Proof. intros WB d H. exact (qd_maybe_exhausted_spec WB H d). Qed.

(* ---------------- pinned statements ---------------- *)
Check C16_stack_read_lifo : forall WB c, 0 < WB -> bc_inv WB c ->
  match abs_stack WB c with
  | [] => st_read_bit WB c = (None, c)
  | b :: r => exists c', st_read_bit WB c = (Some b, c') /\ bc_inv WB c' /\ abs_stack WB c' = r
  end.
Check C16_stack_history : forall UB WB h c, 0 < WB -> bc_inv WB c ->
  st_spec UB WB (abs_stack WB c) h (abs_stack WB (fst (st_run UB WB c h))) (snd (st_run UB WB c h)).
Check C16_queue_roundtrip : forall WB bits fuel, 0 < WB -> (length bits + N.to_nat WB < fuel)%nat ->
  exists d', qd_drain WB fuel (qe_into_decoder (bc_write_bits WB bits bc_new)) = (bits ++ qpad WB bits, d')
    /\ qd_read_bit WB d' = (None, d').
Check C16_stack_export_import : forall UB WB c h, 0 < WB -> bc_inv WB c ->
  exists c', st_from_compressed WB (st_into_compressed WB c) = inl c'
    /\ bc_inv WB c' /\ abs_stack WB c' = abs_stack WB c
    /\ snd (st_run UB WB c' h) = snd (st_run UB WB c h)
    /\ bc_equiv WB (fst (st_run UB WB c' h)) (fst (st_run UB WB c h)).
Check C16_stack_import_reject : forall WB init, st_from_compressed WB (init ++ [0]) = inr init.
Check C16_expgolomb_roundtrip : forall BITS n rest fuel,
  0 < BITS -> BITS < 2 ^ 32 -> n < 2 ^ BITS -> (N.to_nat BITS < fuel)%nat ->
  eg_decode ls_read BITS fuel (eg_prefix_bits BITS n ++ rest) = (EgOk n, rest).
Check C16_expgolomb_roundtrip_stack : forall WB BITS n c fuel,
  0 < WB -> 0 < BITS -> BITS < 2 ^ 32 -> n < 2 ^ BITS -> bc_inv WB c -> (N.to_nat BITS < fuel)%nat ->
  exists c', st_decode_eg WB BITS fuel (st_encode_eg WB BITS n c) = (EgOk n, c')
    /\ bc_inv WB c' /\ abs_stack WB c' = abs_stack WB c.
Check C16_expgolomb_reject_overlong : forall BITS k rest fuel,
  0 < BITS -> BITS < 2 ^ 32 -> BITS < N.of_nat k -> N.of_nat k < 2 ^ 32 -> (k < fuel)%nat ->
  eg_decode ls_read BITS fuel (repeat false k ++ true :: rest) = (EgInvalid, rest).
Check C08_bits_stack_twin : forall UB WB h1 h2 c, 0 < WB -> bc_inv WB c ->
  let c1 := fst (st_run UB WB c h1) in
  snd (st_run UB WB c (h1 ++ SInspect :: h2))
  = snd (st_run UB WB c h1) ++ SoWords (st_into_compressed WB c1) :: snd (st_run UB WB c1 h2)
  /\ snd (st_run UB WB c (h1 ++ h2)) = snd (st_run UB WB c h1) ++ snd (st_run UB WB c1 h2)
  /\ bc_equiv WB (fst (st_run UB WB c (h1 ++ SInspect :: h2))) (fst (st_run UB WB c (h1 ++ h2))).
Check C18_bits_len : forall UB WB c, 0 < WB -> bc_inv WB c ->
  bc_len UB WB c = len_spec UB (abs_stack WB c) /\ length (abs_queue WB c) = length (abs_stack WB c).

(* ---------------- non-vacuity: concrete non-trivial instances ---------------- *)

(* a u8 stack coder holding 5 bits in a partial word: the invariant holds, export gives
   0x2d (the F4 example), import gives the coder back *)
Example ex_partial : let c := bc_write_bits 8 [true; false; true; true; false] bc_new in
  c = {| bk := []; cur := 13; mask := 16 |}
  /\ st_into_compressed 8 c = [45]
  /\ st_from_compressed 8 [45] = inl c
  /\ abs_stack 8 c = [false; true; true; false; true].
Proof. vm_compute. repeat split. Qed.

Example ex_partial_inv : bc_inv 8 {| bk := []; cur := 13; mask := 16 |}.
Proof.
  split; [constructor|]. right. exists 4. repeat split; vm_compute; reflexivity.
Qed.

(* a completely filled current word: the guard turns it into the flushed form *)
Example ex_full : let c := bc_write_bits 8 [true; true; false; false; true; false; true; false; true; true; true; false; false; false; false; true] bc_new in
  c = {| bk := [83]; cur := 135; mask := 128 |}
  /\ st_guard_drop 8 (st_guard_new 8 c) = {| bk := [135; 83]; cur := 0; mask := 0 |}
  /\ bc_guard_view (st_guard_new 8 c) = [83; 135; 1]
  /\ bc_len 64 8 c = Some 16 /\ bc_len 64 8 (bc_norm 8 c) = Some 16.
Proof. vm_compute. repeat split. Qed.

Example ex_history :
  snd (st_run 64 8 bc_new [SWrite true; SWrite false; SInspect; SLen; SReimport; SRead; SRead; SRead])
  = [SoUnit; SoUnit; SoWords [5]; SoLen (Some 2); SoUnit; SoBit (Some false); SoBit (Some true); SoBit None].
Proof. vm_compute. reflexivity. Qed.

Example ex_queue : let q := bc_write_bits 8 [true; false; true] bc_new in
  qe_into_compressed q = [5]
  /\ fst (qd_drain 8 20 (qe_into_decoder q)) = [true; false; true; false; false; false; false; false].
Proof. vm_compute. split; reflexivity. Qed.

(* Exp-Golomb: the maximum of u8 and an ordinary value, through a u8 stack at fill level 3 *)
Example ex_exhausted :
  let d := snd (qd_read_bit 8 (snd (qd_read_bit 8 (qd_from_compressed [2])))) in
  qd_maybe_exhausted 8 d = true /\ qd_maybe_exhausted 8 (qd_from_compressed [2]) = false
  /\ abs_qdec 8 d = repeat false 6.
Proof. vm_compute. repeat split. Qed.

Example ex_eg_max :
  eg_prefix_bits 8 255 = repeat false 8 ++ [true] ++ repeat false 8
  /\ fst (st_decode_eg 8 8 100 (st_encode_eg 8 8 255 (bc_write_bits 8 [true; true; false] bc_new))) = EgOk 255
  /\ eg_prefix_bits 8 6 = [false; false; true; true; true]
  /\ fst (eg_decode ls_read 8 100 (repeat false 9 ++ [true])) = EgInvalid.
Proof. vm_compute. repeat split. Qed.

Print Assumptions C16_stack_write_cons.
Print Assumptions C16_stack_read_lifo.
Print Assumptions C16_stack_push_pop_raw.
Print Assumptions C16_queue_write_snoc.
Print Assumptions C16_queue_read_fifo.
Print Assumptions C16_queue_into_decoder.
Print Assumptions C16_stack_history.
Print Assumptions C16_queue_history.
Print Assumptions C16_reachable.
Print Assumptions C16_stack_roundtrip.
Print Assumptions C16_queue_roundtrip.
Print Assumptions C16_stack_export_import.
Print Assumptions C16_stack_export_import_raw.
Print Assumptions C16_stack_export_shape.
Print Assumptions C16_stack_import.
Print Assumptions C16_stack_import_reject.
Print Assumptions C16_stack_import_empty.
Print Assumptions C16_content_determines_behaviour.
Print Assumptions C16_expgolomb_code.
Print Assumptions C16_expgolomb_roundtrip.
Print Assumptions C16_expgolomb_roundtrip_stack.
Print Assumptions C16_expgolomb_roundtrip_queue.
Print Assumptions C16_expgolomb_reject_overlong.
Print Assumptions C16_expgolomb_reject_noncanonical.
Print Assumptions C16_expgolomb_reject_truncated.
Print Assumptions C16_expgolomb_accepts_only_codewords.
Print Assumptions C16_expgolomb_decode_total.
Print Assumptions C16_expgolomb_decode_refines.
Print Assumptions C08_bits_guard_view.
Print Assumptions C08_bits_stack_guard_drop.
Print Assumptions C08_bits_queue_guard_drop.
Print Assumptions C08_bits_stack_twin.
Print Assumptions C08_bits_queue_twin.
Print Assumptions C08_bits_equiv_indistinguishable.
Print Assumptions C18_bits_len.
Print Assumptions C18_bits_is_empty.
Print Assumptions C18_bits_queue_maybe_exhausted.
