"""property entries delivered by the chain family (merged by tools/merge_shared.py)"""
PROPS = {
    "C13": dict(
        coq=["Props.C13", "Corr.Chain_run"],
        fams=[("fam_chain", "gen_restore", 600, 40000), ("fam_chain", "gen_boundary", 400, 20000),
              ("fam_chain", "gen_free", 200, 8000)],
        anchors=["src/stream/chain.rs", "src/backends.rs"],
        rule="chain round trip (op 16) with >=3 symbols decoded and pushed back, every undo step ok, followed by a "
             "successful export matching the constructor (into_binary / into_compressed); or a boundary case: raw "
             "state dump / decode or precision change / dump / inverse step / dump, all successful",
        level_text="Machine-checked Coq theorems (unbounded: every Word/State/Probability width and PRECISION allowed by "
                   "the crate's static assertions, every exactly invertible model, all data, all schedules of decodes "
                   "interleaved with precision changes) about a Gallina model of ChainCoder: per-step decode/encode "
                   "inverses in both branches of the bit buffer and of the remainder flush/refill, invariant "
                   "preservation incl. change_precision, remainders round trip with and without the unused prefix, "
                   "restore theorems for the three documented re-import routes x {from_binary/into_binary, "
                   "from_compressed/into_compressed}, error theorems (only OutOfCompressedData / OutOfRemainders / "
                   "ImpossibleSymbol, decided before any write). Tied to the current source by a differential check "
                   "(harness, debug+release, vs vm_compute) on seeded histories.",
        level_note="Trusted: Coq kernel + vm_compute; the hand-written model (Model/Chain.v) corresponds to chain.rs only "
                   "as far as the sampled correspondence shows; type/precision menu of the harness (9 instances); Vec "
                   "backends only; raw head values are read through Code::state() + Debug; no axioms.",
        technique="Coq proof (head invariants, div/mod inverses, frame lemmas for the re-import routes) + "
                  "model/implementation correspondence",
        design_ref="DESIGN.md section 4, C13",
    ),
    "C14": dict(
        coq=["Props.C14", "Corr.Chain_run"],
        fams=[("fam_chain", "gen_local", 700, 40000), ("fam_chain", "gen_doc_example", 60, 2000),
              ("fam_chain", "gen_free", 150, 4000)],
        anchors=["src/stream/chain.rs"],
        rule=">=2 twin decodes (decode_symbols on clones) of >=2 positions with >=1 symbol decoded, differing in one "
             "model or in bits of one chunk",
        level_text="Machine-checked Coq theorems (all widths, precisions, data, model sequences -- the models need not even "
                   "be well-formed): the i-th decoded symbol is what the i-th model assigns to the i-th PRECISION-bit chunk "
                   "of the data, chunks being a model-independent function of the data; replacing one model / altering one "
                   "chunk changes at most that position; OutOfCompressedData is a function of the number of data words, "
                   "the precision and the position. Tied to the source by the differential check plus a direct oracle that "
                   "recomputes the chunks from the data bits in Python.",
        level_note="Trusted: Coq kernel + vm_compute; hand-written model tied to chain.rs by sampled correspondence; no "
                   "axioms. 'Bits inside one chunk' is expressed through the chunk function (data' whose chunk list differs "
                   "at one index); C14_chunk_update shows every such alteration is realised by data of the same length. The "
                   "explicit bit-to-chunk map is used by the Python oracle only.",
        technique="Coq proof (the compressed-side update is model-free; fuel-adequacy by a bit-count measure) + "
                  "correspondence + direct oracle",
        design_ref="DESIGN.md section 4, C14",
    ),
}
