(* Model/Diag.v -- information-theoretic diagnostics of an entropy model (C18, last sentence).
   Source: default methods of trait [IterableEntropyModel], src/stream/model.rs
     floating_point_symbol_table, entropy_base2, cross_entropy_base2,
     reverse_cross_entropy_base2, kl_divergence_base2, reverse_kl_divergence_base2.

   DEFINITIONS ONLY.  The Rust code computes in a float type F; this model is the same
   expression tree evaluated over Coq's real numbers (every float operation replaced by the
   exact operation, libm [log2] by [ln x / ln 2]).  It states WHAT the formulas compute; how far
   the floating-point evaluation is from it is judged per instance (oracle with a derived
   rounding bound, `interval` certificates), not here.

   Conventions: a table is [list (Z * N * N)] = (symbol, left cumulative, probability) as in
   Model/EModel.v; the reference distribution [p] of the two-argument diagnostics is a list of
   reals zipped with the table (Rust [zip]: the shorter one decides the length). *)
From Coq Require Import Reals.
From CV Require Export Model.EModel.

Local Open Scope R_scope.

(* Probability -> F  ([.into()], lossless by the trait bound [F: From<Probability>]) *)
Definition qR (q : N) : R := IZR (Z.of_N q).

(* [x.log2()] *)
Definition log2R (x : R) : R := ln x / ln 2.

(* [iter.sum::<F>()] = fold(zero, +), left to right *)
Definition rsum (l : list R) : R := fold_left Rplus l 0.

Definition probs (t : table) : list N := map (fun e : Z * N * N => snd e) t.
Definition cums (t : table) : list N := map (fun e : Z * N * N => snd (fst e)) t.

(* [let whole = (F::one() + F::one()) * (Self::Probability::one() << (PRECISION - 1)).into();]
   The shift is by PRECISION-1 <= BITS-1, so it never leaves the Probability type (this is why
   the code does not write [1 << PRECISION], which would for PRECISION = BITS); PRECISION > 0 is
   a static assertion of every model type, the truncated N subtraction is therefore exact. *)
Definition whole (P : N) : R := (1 + 1) * qR (N.shiftl 1 (P - 1)).

(* [F::from(PRECISION).unwrap()] *)
Definition shiftR (P : N) : R := qR P.

(* ---- floating_point_symbol_table: (symbol, cumulative.into() / whole, probability.into() / whole) *)
Definition fp_view (P q : N) : R := qR q / whole P.

Definition fp_table (P : N) (t : table) : list (Z * R * R) :=
  map (fun e : Z * N * N => let '(s, c, q) := e in (s, fp_view P c, fp_view P q)) t.

(* ---- EncoderModel::floating_point_probability(symbol):
        [left_cumulative_and_probability(symbol).map_or(zero, |(_, p)| p.get()).into() / whole] *)
Definition fp_prob (P : N) (t : table) (s : Z) : R :=
  fp_view P (match tbl_enc t s with Some (_, p) => p | None => 0%N end).

(* ---- entropy_base2 *)
Definition entropy_code (P : N) (t : table) : R :=
  let scaled_shifted := rsum (map (fun q => qR q * log2R (qR q)) (probs t)) in
  shiftR P - scaled_shifted / whole P.

(* ---- cross_entropy_base2(p) *)
Definition cross_entropy_code (P : N) (t : table) (p : list R) : R :=
  let shift := shiftR P in
  rsum (map (fun qp : N * R => let '(q, pi) := qp in pi * (shift - log2R (qR q)))
            (combine (probs t) p)).

(* ---- reverse_cross_entropy_base2(p) *)
Definition reverse_cross_entropy_code (P : N) (t : table) (p : list R) : R :=
  let scaled := rsum (map (fun qp : N * R => let '(q, pi) := qp in qR q * log2R pi)
                          (combine (probs t) p)) in
  - scaled / whole P.

(* ---- kl_divergence_base2(p):  [if p == F::zero() { F::zero() } else { p * (p.log2() - probability.log2()) }]
        and then [shifted + F::from(PRECISION)]  ("assumes that p is normalized") *)
Definition kl_term_code (q : N) (pi : R) : R :=
  if Req_EM_T pi 0 then 0 else pi * (log2R pi - log2R (qR q)).

Definition kl_code (P : N) (t : table) (p : list R) : R :=
  let shifted := rsum (map (fun qp : N * R => let '(q, pi) := qp in kl_term_code q pi)
                           (combine (probs t) p)) in
  shifted + shiftR P.

(* ---- reverse_kl_divergence_base2(p) *)
Definition reverse_kl_code (P : N) (t : table) (p : list R) : R :=
  let scaled_shifted :=
    rsum (map (fun qp : N * R => let '(q, pi) := qp in qR q * (log2R (qR q) - log2R pi))
              (combine (probs t) p)) in
  scaled_shifted / whole P - shiftR P.

(* ======================= textbook definitions on the exact probabilities q_i / 2^P *)

Definition two_pow (P : N) : R := IZR (2 ^ Z.of_N P).

Definition prob (P q : N) : R := qR q / two_pow P.

(* H(self) = - sum_i self_i log2 self_i *)
Definition entropy_def (P : N) (t : table) : R :=
  - rsum (map (fun q => prob P q * log2R (prob P q)) (probs t)).

(* H(p, self) = - sum_i p_i log2 self_i *)
Definition cross_entropy_def (P : N) (t : table) (p : list R) : R :=
  - rsum (map (fun qp : N * R => let '(q, pi) := qp in pi * log2R (prob P q)) (combine (probs t) p)).

(* H(self, p) = - sum_i self_i log2 p_i *)
Definition reverse_cross_entropy_def (P : N) (t : table) (p : list R) : R :=
  - rsum (map (fun qp : N * R => let '(q, pi) := qp in prob P q * log2R pi) (combine (probs t) p)).

(* D_KL(p || self) = sum_{i : p_i <> 0} p_i log2 (p_i / self_i) *)
Definition kl_def (P : N) (t : table) (p : list R) : R :=
  rsum (map (fun qp : N * R => let '(q, pi) := qp in
               if Req_EM_T pi 0 then 0 else pi * log2R (pi / prob P q))
            (combine (probs t) p)).

(* D_KL(self || p) = sum_i self_i log2 (self_i / p_i) *)
Definition reverse_kl_def (P : N) (t : table) (p : list R) : R :=
  rsum (map (fun qp : N * R => let '(q, pi) := qp in prob P q * log2R (prob P q / pi))
            (combine (probs t) p)).

(* ======================= exact part that can be executed: IEEE-754 bit patterns

   [ieee_bits mw bias P q] = interchange encoding (sign 0, biased exponent, [mw]-bit mantissa
   field) of the dyadic rational q / 2^P, meaningful for q < 2^(mw+1) and P <= bias (then the
   value is a normal number or zero and no rounding happens).  Pure integer arithmetic:
   q = 1.xxx * 2^l with l = floor(log2 q), so the value is 1.xxx * 2^(l-P). *)
Definition ieee_bits (mw bias P q : N) : N :=
  if N.eqb q 0 then 0%N
  else
    let l := N.log2 q in
    ((bias + l - P) * 2 ^ mw + (q * 2 ^ (mw - l) - 2 ^ mw))%N.

Definition b64_bits (P q : N) : N := ieee_bits 52 1023 P q.
Definition b32_bits (P q : N) : N := ieee_bits 23 127 P q.
