(* Proofs/Leaky_search.v -- the ingredients of quantile_function's search:
   powers of two as step sizes, the doubling guard, the two inner loops. *)
From CV Require Import Base.Bits Model.Leaky Proofs.Leaky_base.
From Coq Require Import ZArith Lia.
Set Default Timeout 30.
Open Scope Z_scope.

Lemma pow2_cases k : 0 <= k ->
  (k = 0 /\ 2 ^ k = 1) \/ (1 <= k /\ 2 ^ k = 2 * 2 ^ (k - 1) /\ 1 <= 2 ^ (k - 1)).
Proof.
  intros H. destruct (Z.eq_dec k 0) as [->|Hk].
  - left. split; reflexivity.
  - right. split; [lia|]. split.
    + replace k with (Z.succ (k - 1)) at 1 by lia. rewrite Z.pow_succ_r by lia. reflexivity.
    + pose proof (Zpow2_pos (k - 1)). lia.
Qed.

Lemma pow2_ge1 k : 0 <= k -> 1 <= 2 ^ k.
Proof. intros. pose proof (Zpow2_pos k). lia. Qed.

Lemma pow2_mono_lt j k : 0 <= j -> 2 ^ j < 2 ^ k -> j < k.
Proof.
  intros Hj H. destruct (Z.lt_ge_cases j k); [assumption|].
  destruct (Z.lt_ge_cases k 0).
  - rewrite (Z.pow_neg_r 2 k) in H by lia. pose proof (Zpow2_pos j). lia.
  - pose proof (Zpow2_le k j). lia.
Qed.

Lemma shr1_pow2 k : 1 <= k -> shr1S (2 ^ k) = 2 ^ (k - 1).
Proof.
  intros H. unfold shr1S. destruct (pow2_cases k ltac:(lia)) as [(? & _)|(_ & -> & _)]; [lia|].
  rewrite Z.mul_comm. apply Z.div_mul. lia.
Qed.

Section Search.
Variable c : lcfg.
Hypothesis Hwf : wf_lcfg c.

Let sw := Z.of_N (SYMB c).

(* exponent of the largest step the doubling guard lets through *)
Definition kmax : Z := if sgn c then sw - 2 else sw - 1.

Lemma kmax_nonneg : 0 <= kmax.
Proof. pose proof (sw_ge2 c Hwf). unfold kmax, sw in *. destruct (sgn c); lia. Qed.

Lemma smax_kmax : smax c = 2 * 2 ^ kmax - 1.
Proof.
  pose proof (sw_ge2 c Hwf) as H2. fold sw in H2.
  pose proof (smod_half c Hwf) as Hh. fold sw in Hh.
  unfold smax, smin, kmax. destruct (sgn c).
  - rewrite (half_eq c Hwf). fold sw. rewrite Hh.
    destruct (pow2_cases (sw - 1) ltac:(lia)) as [(? & _)|(_ & He & _)]; [lia|].
    replace (sw - 1 - 1) with (sw - 2) in He by lia. lia.
  - lia.
Qed.

Lemma smod_kmax : 2 * 2 ^ kmax <= smod c <= 4 * 2 ^ kmax.
Proof.
  pose proof (sw_ge2 c Hwf) as H2. fold sw in H2.
  pose proof (smod_half c Hwf) as Hh. fold sw in Hh.
  unfold kmax. destruct (sgn c).
  - destruct (pow2_cases (sw - 1) ltac:(lia)) as [(? & _)|(_ & He & _)]; [lia|].
    replace (sw - 1 - 1) with (sw - 2) in He by lia. lia.
  - lia.
Qed.

Lemma pow_kmax_in k : 0 <= k <= kmax -> 1 <= 2 ^ k /\ 2 ^ k <= 2 ^ kmax /\ 2 ^ k <= smax c /\ 2 ^ k < smod c.
Proof.
  intros H. pose proof (pow2_ge1 k ltac:(lia)). pose proof (Zpow2_le k kmax ltac:(lia)).
  pose proof smax_kmax. pose proof smod_kmax. pose proof (pow2_ge1 kmax kmax_nonneg). lia.
Qed.

Lemma shr1_smax : shr1S (smax c) = 2 ^ kmax - 1.
Proof.
  unfold shr1S. rewrite smax_kmax. pose proof (pow2_ge1 kmax kmax_nonneg).
  symmetry. apply (Z.div_unique _ _ _ 1); lia.
Qed.

(* the doubling guard keeps the step a positive power of two below 2^kmax *)
Lemma dbl_step_spec k : 0 <= k <= kmax ->
  dbl_step c (2 ^ k) = 2 ^ (if k <? kmax then k + 1 else k).
Proof.
  intros H. unfold dbl_step. rewrite shr1_smax.
  destruct (Z.ltb_spec k kmax) as [Hlt|Hge].
  - pose proof (Zpow2_lt k kmax ltac:(lia)).
    destruct (Z.leb_spec (2 ^ k) (2 ^ kmax - 1)); [|lia].
    unfold shl1S. rewrite <- Z.pow_succ_r by lia. replace (Z.succ k) with (k + 1) by lia.
    apply wrapS_id. destruct (pow_kmax_in (k + 1) ltac:(lia)) as (? & _ & ? & _).
    pose proof (smin_le0 c Hwf). unfold in_sym. lia.
  - replace k with kmax by lia.
    destruct (Z.leb_spec (2 ^ kmax) (2 ^ kmax - 1)); [lia|reflexivity].
Qed.

Section Inner.
Variables lo hi : Z.
Hypothesis Hlo : in_sym c lo.
Hypothesis Hhi : in_sym c hi.

(* inner loop of the downward search: the largest halving 2^j of the step with
   symbol - 2^j >= lo; terminates because symbol - 1 >= lo *)
Lemma down_inner_spec fuel symbol k :
  0 <= k <= kmax -> lo < symbol -> symbol <= hi -> (Z.to_nat k < fuel)%nat ->
  exists j, 0 <= j <= k /\ down_inner c lo fuel symbol (2 ^ k) = Some (symbol - 2 ^ j, 2 ^ j)
            /\ lo <= symbol - 2 ^ j /\ (j < k -> symbol - 2 ^ (j + 1) < lo).
Proof.
  revert k. induction fuel as [|f IH]; intros k Hk Hs1 Hs2 Hf; [lia|].
  cbn [down_inner]. unfold wsubS.
  destruct (pow_kmax_in k Hk) as (Hp1 & _ & Hp3 & Hp4).
  unfold in_sym, smax in *.
  assert (Hcase : lo <= symbol - 2 ^ k \/ symbol - 2 ^ k < lo) by lia.
  destruct Hcase as [Hok|Hbad].
  - (* the subtraction stays in range and above lo *)
    rewrite wrapS_id by (unfold in_sym, smax; lia).
    destruct (Z.leb_spec lo (symbol - 2 ^ k)); [|lia].
    destruct (Z.leb_spec (symbol - 2 ^ k) symbol); [|lia]. cbn [andb].
    exists k. split; [lia|]. split; [reflexivity|]. split; [lia|]. lia.
  - (* either below lo or wrapped around: halve *)
    assert (Htest : (lo <=? wrapS c (symbol - 2 ^ k)) && (wrapS c (symbol - 2 ^ k) <=? symbol) = false).
    { destruct (Z.lt_ge_cases (symbol - 2 ^ k) (smin c)).
      - rewrite wrapS_below by (exact Hwf || lia).
        destruct (Z.leb_spec (symbol - 2 ^ k + smod c) symbol); [lia|]. apply Bool.andb_false_r.
      - rewrite wrapS_id by (unfold in_sym, smax; lia).
        destruct (Z.leb_spec lo (symbol - 2 ^ k)); [lia|]. reflexivity. }
    rewrite Htest.
    destruct (pow2_cases k ltac:(lia)) as [(-> & He)|(Hk1 & He & Hh)]; [lia|].
    rewrite shr1_pow2 by lia.
    destruct (IH (k - 1) ltac:(lia) Hs1 Hs2 ltac:(lia)) as (j & Hj & Hr & Hj1 & Hj2).
    exists j. split; [lia|]. split; [exact Hr|]. split; [exact Hj1|].
    intros _. destruct (Z.eq_dec j (k - 1)) as [->|].
    + replace (k - 1 + 1) with k by lia. lia.
    + apply Hj2. lia.
Qed.

(* inner loop of the upward search *)
Lemma up_inner_spec fuel symbol k :
  0 <= k <= kmax -> lo <= symbol -> symbol < hi -> (Z.to_nat k < fuel)%nat ->
  exists j, 0 <= j <= k /\ up_inner c hi fuel symbol (2 ^ k) = Some (symbol + 2 ^ j, 2 ^ j)
            /\ symbol + 2 ^ j <= hi /\ (j < k -> hi < symbol + 2 ^ (j + 1)).
Proof.
  revert k. induction fuel as [|f IH]; intros k Hk Hs1 Hs2 Hf; [lia|].
  cbn [up_inner]. unfold waddS.
  destruct (pow_kmax_in k Hk) as (Hp1 & _ & Hp3 & Hp4).
  unfold in_sym, smax in *.
  assert (Hcase : symbol + 2 ^ k <= hi \/ hi < symbol + 2 ^ k) by lia.
  destruct Hcase as [Hok|Hbad].
  - rewrite wrapS_id by (unfold in_sym, smax; lia).
    destruct (Z.leb_spec (symbol + 2 ^ k) hi); [|lia].
    destruct (Z.leb_spec symbol (symbol + 2 ^ k)); [|lia]. cbn [andb].
    exists k. split; [lia|]. split; [reflexivity|]. split; [lia|]. lia.
  - assert (Htest : (wrapS c (symbol + 2 ^ k) <=? hi) && (symbol <=? wrapS c (symbol + 2 ^ k)) = false).
    { destruct (Z.lt_ge_cases (smax c) (symbol + 2 ^ k)) as [Hov|Hin].
      - rewrite wrapS_above by (exact Hwf || (unfold smax in *; lia)).
        destruct (Z.leb_spec symbol (symbol + 2 ^ k - smod c)); [lia|]. apply Bool.andb_false_r.
      - rewrite wrapS_id by (unfold in_sym, smax in *; lia).
        destruct (Z.leb_spec (symbol + 2 ^ k) hi); [lia|]. reflexivity. }
    rewrite Htest.
    destruct (pow2_cases k ltac:(lia)) as [(-> & He)|(Hk1 & He & Hh)]; [lia|].
    rewrite shr1_pow2 by lia.
    destruct (IH (k - 1) ltac:(lia) Hs1 Hs2 ltac:(lia)) as (j & Hj & Hr & Hj1 & Hj2).
    exists j. split; [lia|]. split; [exact Hr|]. split; [exact Hj1|].
    intros _. destruct (Z.eq_dec j (k - 1)) as [->|].
    + replace (k - 1 + 1) with k by lia. lia.
    + apply Hj2. lia.
Qed.

End Inner.
End Search.
