(* Proofs/Chain_history.v -- whole decoding schedules (with precision changes) and
   their undo lists; independence of the undo from what lies underneath the two
   backends (needed for the re-import routes). *)
From CV Require Import Base.Bits Model.EModel Model.Chain Proofs.Chain_bits Proofs.Chain_rem
  Proofs.Chain_step Proofs.Chain_prec.
Open Scope N_scope.
Set Default Timeout 30.

Section History.
Variable c : ccfg.

(* ---------- decode k symbols, encode them back in reverse (one precision) ---------- *)
Definition model_ok (P : N) (m : emodel) : Prop := wf_model m /\ em_prec m = P.

Lemma chain_encode_all_app l1 l2 ch :
  chain_encode_all c (l1 ++ l2) ch =
  match chain_encode_all c l1 ch with Ok ch' => chain_encode_all c l2 ch' | Err e => Err e end.
Proof.
  revert ch. induction l1 as [|[m s] r IH]; intros ch; cbn; [reflexivity|].
  destruct (chain_encode c m s ch); [apply IH|reflexivity].
Qed.

Lemma chain_bitsback P ms : forall ch ss ch1,
  wf_ccfg c P -> Forall (model_ok P) ms -> chain_inv c P ch ->
  chain_decode_all c ms ch = (map Ok ss, ch1) ->
  chain_inv c P ch1 /\ length ss = length ms
  /\ chain_encode_all c (rev (combine ms ss)) ch1 = Ok ch.
Proof.
  induction ms as [|m r IH]; intros ch ss ch1 Hwf Hms Hinv Hdec; cbn in Hdec.
  - inversion Hdec as [[Hs Hc]]. destruct ss; [|discriminate]. subst. auto.
  - apply Forall_cons_iff in Hms. destruct Hms as [[Hm HP] Hr].
    destruct (chain_decode c m ch) as [[s ch']|e] eqn:Ed.
    + destruct (chain_decode_all c r ch') as [o ch''] eqn:Eall.
      destruct ss as [|s0 ss]; [discriminate|]. cbn in Hdec.
      inversion Hdec; subst s0 o ch''; clear Hdec.
      subst P. destruct (chain_enc_dec c m Hm Hwf ch s ch' Hinv Ed) as [Hinv' Henc].
      destruct (IH ch' ss ch1 Hwf Hr Hinv' Eall) as (Hinv1 & Hlen & Hback).
      split; [exact Hinv1|]. split; [cbn; congruence|].
      cbn [combine rev]. rewrite chain_encode_all_app, Hback. cbn. rewrite Henc. reflexivity.
    + destruct (chain_decode_all c r ch) as [o ch''].
      destruct ss; discriminate.
Qed.

(* ---------- schedules with precision changes: undone in reverse ---------- *)
Lemma chain_forward_undo ops : forall P ch acc P1 ch1 u,
  wf_ccfg c P -> ops_ok c P ops -> chain_inv c P ch ->
  chain_forward c P ch ops acc = Ok (P1, ch1, u) ->
  wf_ccfg c P1 /\ chain_inv c P1 ch1
  /\ forall r, chain_undo c P ch acc = r -> chain_undo c P1 ch1 u = r.
Proof.
  induction ops as [|o ops IH]; intros P ch acc P1 ch1 u Hwf Hok Hinv Hf; cbn in Hf.
  - inversion Hf; subst. auto.
  - destruct o as [m|P'].
    + destruct Hok as (Hm & HP & Hok).
      destruct (chain_decode c m ch) as [[s ch']|e] eqn:Ed.
      * subst P. destruct (chain_enc_dec c m Hm Hwf ch s ch' Hinv Ed) as [Hinv' Henc].
        destruct (IH _ ch' _ P1 ch1 u Hwf Hok Hinv' Hf) as (Hwf1 & Hinv1 & Hu).
        split; [exact Hwf1|]. split; [exact Hinv1|].
        intros r Hr. apply Hu. cbn [chain_undo]. rewrite Henc. exact Hr.
      * exact (IH P ch acc P1 ch1 u Hwf Hok Hinv Hf).
    + destruct Hok as (Hwf' & Hok).
      destruct (chain_change c P P' ch) as [ch'|e] eqn:Ec; [|discriminate].
      destruct (chain_change_undo c P P' ch ch' Hwf Hwf' Hinv Ec) as [Hinv' Hback].
      destruct (IH P' ch' _ P1 ch1 u Hwf' Hok Hinv' Hf) as (Hwf1 & Hinv1 & Hu).
      split; [exact Hwf1|]. split; [exact Hinv1|].
      intros r Hr. apply Hu. cbn [chain_undo]. rewrite Hback. exact Hr.
Qed.

(* the only way a schedule can end with an error: a lowering of the precision that
   needs a refill while the remainders backend is empty *)
Lemma chain_forward_err ops : forall P ch acc e,
  chain_forward c P ch ops acc = Err e -> e = OutOfRemainders.
Proof.
  induction ops as [|o ops IH]; intros P ch acc e Hf; cbn in Hf; [discriminate|].
  destruct o as [m|P'].
  - destruct (chain_decode c m ch) as [[s ch']|e']; eauto.
  - destruct (chain_change c P P' ch) as [ch'|e'] eqn:Ec; [eauto|].
    inversion Hf; subst. apply chain_change_err in Ec. tauto.
Qed.

(* ---------- frames ---------- *)
(* the coder with its compressed backend replaced by [x] and [br] put underneath
   its remainders backend *)
Definition reframe (x br : list N) (ch : chain) : chain :=
  {| comp := x; rems := rems ch ++ br; hc := hc ch; hr := hr ch |}.

Lemma chain_put_shape P q h :
  exists pushed h', forall cm, chain_put c P q cm h = (pushed ++ cm, h').
Proof.
  unfold chain_put.
  destruct (negb (P =? cWB c) && (h <? shl (cWB c) 1 (cWB c - P))).
  - exists [], (N.lor (shl (cWB c) h P) q). reflexivity.
  - destruct (P =? cWB c).
    + exists [q], h. reflexivity.
    + exists [N.lor (shl (cWB c) h P) q], (shr h (cWB c - P)). reflexivity.
Qed.

(* encode_symbol only pushes onto the compressed backend and only pops from the
   remainders backend *)
Lemma chain_encode_frame m s ch ch' :
  chain_encode c m s ch = Ok ch' ->
  exists pushed, comp ch' = pushed ++ comp ch
    /\ forall x br, chain_encode c m s (reframe x br ch) = Ok (reframe (pushed ++ x) br ch').
Proof.
  unfold chain_encode.
  destruct (em_enc m s) as [[cum p]|]; [|discriminate].
  destruct (chain_release c (em_prec m) p (rems ch) (hr ch)) as [[[rem r'] rh']|] eqn:Er; [|discriminate].
  destruct (chain_put_shape (em_prec m) (trunc (cPB c) (cum + rem)) (hc ch)) as (pushed & h' & Hput).
  rewrite Hput. intros E; inversion E; subst ch'; clear E.
  exists pushed. split; [reflexivity|].
  intros x br. unfold reframe. cbn [comp rems hc hr].
  rewrite (chain_release_frame c _ _ _ _ _ _ _ br Er), Hput. reflexivity.
Qed.

Lemma chain_change_frame P P' ch ch' :
  chain_change c P P' ch = Ok ch' ->
  comp ch' = comp ch
  /\ forall x br, chain_change c P P' (reframe x br ch) = Ok (reframe x br ch').
Proof.
  unfold chain_change, chain_increase, chain_decrease.
  destruct (P <? P').
  - intros E; inversion E; subst ch'; clear E.
    destruct (shl (cSB c) 1 (cSB c - P') <=? hr ch) eqn:Ef.
    + split; [reflexivity|]. intros x br. unfold reframe. cbn [comp rems hc hr]. rewrite Ef. reflexivity.
    + split; [reflexivity|]. intros x br. unfold reframe. cbn [comp rems hc hr]. rewrite Ef. reflexivity.
  - destruct (hr ch <? shl (cSB c) 1 (cSB c - P' - cWB c)) eqn:Ef.
    + destruct (rems ch) as [|w r] eqn:Er; [discriminate|].
      intros E; inversion E; subst ch'; clear E.
      split; [reflexivity|]. intros x br. unfold reframe. cbn [comp rems hc hr].
      rewrite Ef, Er. reflexivity.
    + intros E; inversion E; subst ch'; clear E.
      split; [reflexivity|]. intros x br. unfold reframe. cbn [comp rems hc hr]. rewrite Ef. reflexivity.
Qed.

Lemma chain_undo_frame u : forall P ch P0 ch0,
  chain_undo c P ch u = Ok (P0, ch0) ->
  exists pushed, comp ch0 = pushed ++ comp ch
    /\ forall x br, chain_undo c P (reframe x br ch) u = Ok (P0, reframe (pushed ++ x) br ch0).
Proof.
  induction u as [|[m s|Pold] u IH]; intros P ch P0 ch0 Hu; cbn [chain_undo] in Hu.
  - inversion Hu; subst. exists []. split; [reflexivity|]. intros x br. reflexivity.
  - destruct (chain_encode c m s ch) as [ch'|e] eqn:Ee; [|discriminate].
    destruct (chain_encode_frame m s ch ch' Ee) as (p1 & Hc1 & Hf1).
    destruct (IH P ch' P0 ch0 Hu) as (p2 & Hc2 & Hf2).
    exists (p2 ++ p1). split; [rewrite Hc2, Hc1, app_assoc; reflexivity|].
    intros x br. cbn [chain_undo]. rewrite Hf1, Hf2, app_assoc. reflexivity.
  - destruct (chain_change c P Pold ch) as [ch'|e] eqn:Ec; [|discriminate].
    destruct (chain_change_frame P Pold ch ch' Ec) as (Hc1 & Hf1).
    destruct (IH Pold ch' P0 ch0 Hu) as (p2 & Hc2 & Hf2).
    exists p2. split; [rewrite Hc2, Hc1; reflexivity|].
    intros x br. cbn [chain_undo]. rewrite Hf1, Hf2. reflexivity.
Qed.

End History.
