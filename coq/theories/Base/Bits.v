(* Base/Bits.v -- shifts, masks and truncation as div / mul / mod on N.
   Shared by every machine-level model.  No axioms. *)
From Coq Require Export NArith ZArith List Lia Bool.
From Coq Require Import ZifyBool ZifyN.
Export ListNotations.
Open Scope N_scope.

Arguments N.add : simpl never.
Arguments N.sub : simpl never.
Arguments N.mul : simpl never.
Arguments N.div : simpl never.
Arguments N.modulo : simpl never.
Arguments N.pow : simpl never.
Arguments N.shiftl : simpl never.
Arguments N.shiftr : simpl never.
Arguments N.lor : simpl never.
Arguments N.land : simpl never.
Arguments N.lxor : simpl never.
Arguments N.eqb : simpl never.
Arguments N.ltb : simpl never.
Arguments N.leb : simpl never.

(* truncation to a [b]-bit unsigned machine integer *)
Definition trunc (b x : N) : N := x mod 2 ^ b.

(* Rust [x << k] on a b-bit type (k < b): bits shifted out are lost, no panic *)
Definition shl (b x k : N) : N := trunc b (N.shiftl x k).
(* Rust [x >> k] *)
Definition shr (x k : N) : N := N.shiftr x k.

Lemma pow2_pos k : 0 < 2 ^ k.
Proof. apply N.neq_0_lt_0, N.pow_nonzero; lia. Qed.

Lemma pow2_nz k : 2 ^ k <> 0.
Proof. apply N.pow_nonzero; lia. Qed.

Lemma pow2_add a b : 2 ^ (a + b) = 2 ^ a * 2 ^ b.
Proof. apply N.pow_add_r. Qed.

Lemma pow2_split a b : b <= a -> 2 ^ a = 2 ^ (a - b) * 2 ^ b.
Proof. intros H. rewrite <- N.pow_add_r. f_equal. lia. Qed.

Lemma pow2_le a b : a <= b -> 2 ^ a <= 2 ^ b.
Proof. intros. apply N.pow_le_mono_r; lia. Qed.

Lemma pow2_lt a b : a < b -> 2 ^ a < 2 ^ b.
Proof. intros. apply N.pow_lt_mono_r; lia. Qed.

Lemma pow2_ge1 k : 1 <= 2 ^ k.
Proof. pose proof (pow2_pos k). lia. Qed.

Lemma shr_div x k : shr x k = x / 2 ^ k.
Proof. apply N.shiftr_div_pow2. Qed.

Lemma shiftl_mul x k : N.shiftl x k = x * 2 ^ k.
Proof. apply N.shiftl_mul_pow2. Qed.

Lemma trunc_small b x : x < 2 ^ b -> trunc b x = x.
Proof. intros. unfold trunc. apply N.mod_small; assumption. Qed.

Lemma trunc_lt b x : trunc b x < 2 ^ b.
Proof. unfold trunc. apply N.mod_lt, pow2_nz. Qed.

Lemma land_shiftl_low hi lo k : lo < 2 ^ k -> N.land (N.shiftl hi k) lo = 0.
Proof.
  intros Hlo. apply N.bits_inj_0. intros n.
  rewrite N.land_spec.
  destruct (N.lt_ge_cases n k) as [Hn|Hn].
  - rewrite N.shiftl_spec_low by assumption. reflexivity.
  - rewrite N.shiftl_spec_high' by assumption.
    assert (N.testbit lo n = false) as ->.
    { destruct (N.eq_dec lo 0) as [->|Hnz]; [apply N.bits_0|].
      apply N.bits_above_log2.
      apply N.log2_lt_pow2; [lia|].
      eapply N.lt_le_trans; [exact Hlo|]. apply pow2_le; assumption. }
    apply andb_false_r.
Qed.

(* disjoint or = plus : high part is a multiple of 2^k, low part < 2^k *)
Lemma lor_disjoint hi lo k : lo < 2 ^ k -> N.lor (hi * 2 ^ k) lo = hi * 2 ^ k + lo.
Proof.
  intros Hlo. rewrite <- N.shiftl_mul_pow2.
  pose proof (land_shiftl_low hi lo k Hlo) as Hland.
  pose proof (N.add_nocarry_lxor (N.shiftl hi k) lo Hland) as Hx.
  pose proof (N.lxor_lor (N.shiftl hi k) lo Hland) as Hl.
  congruence.
Qed.

Lemma div_mul_add_small a b c : c < b -> (a * b + c) / b = a.
Proof.
  intros H. rewrite N.add_comm, N.div_add by lia.
  rewrite N.div_small by assumption. lia.
Qed.

Lemma mod_mul_add_small a b c : c < b -> (a * b + c) mod b = c.
Proof.
  intros H. rewrite N.add_comm, N.mod_add by lia.
  apply N.mod_small; assumption.
Qed.

Lemma div_lt_upper a b q : 0 < b -> a < q * b -> a / b < q.
Proof. intros Hb H. apply N.div_lt_upper_bound; lia. Qed.

Lemma div_ge_lower a b q : 0 < b -> q * b <= a -> q <= a / b.
Proof. intros Hb H. apply N.div_le_lower_bound; lia. Qed.

Lemma div_mod_eq a b : b <> 0 -> a = b * (a / b) + a mod b.
Proof. intros. apply N.div_mod; assumption. Qed.

Lemma div_le_self x p : x / p <= x.
Proof.
  destruct (N.eq_dec p 0) as [->|Hp].
  - destruct x; cbn; lia.
  - apply N.div_le_upper_bound; [assumption|]. nia.
Qed.

(* lia/nia choke on N-subtraction inside exponents (each [a - b] is a case
   split after zify): abstract every power of two into a positive variable. *)
Ltac apows :=
  repeat match goal with
  | |- context [2 ^ ?e] =>
      let k := fresh "pw" in let H := fresh "Hpw" in
      pose proof (pow2_pos e) as H; set (k := 2 ^ e) in *; clearbody k
  | H0 : context [2 ^ ?e] |- _ =>
      let k := fresh "pw" in let H := fresh "Hpw" in
      pose proof (pow2_pos e) as H; set (k := 2 ^ e) in *; clearbody k
  end.
Ltac plia := apows; lia.
Ltac pnia := apows; nia.
