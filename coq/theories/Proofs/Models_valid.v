(* Proofs/Models_valid.v -- top-level facts about the fixed-point model families:
   accepted constructors yield good representations of a well-formed table; the coder-facing
   models are exactly invertible; out-of-support symbols get None; no query is unsound. *)
From CV Require Import Base.Bits Model.EModel Model.MBase Model.Uniform Model.Tables Model.Lookup Model.Convert.
From CV Require Import Proofs.Table_lemmas Proofs.Models_base Proofs.Models_validator Proofs.Models_tables
  Proofs.Models_ctor Proofs.Models_uniform Proofs.Models_lookup Proofs.Models_conv.
Open Scope N_scope.
Set Default Timeout 30.

Lemma table_of_tprobs : forall ps ss S, length ss = length ps -> tprobs (table_of S ss ps) = ps.
Proof.
  unfold tprobs. induction ps as [|p r IH]; intros [|s ss] S H; cbn in *; try discriminate; try reflexivity.
  rewrite IH by lia. reflexivity.
Qed.

(* a decoder-only model, paired with the encoder its own symbol table defines *)
Definition dec_emodel (P : N) (t : table) (dec : N -> Z * N * N) : emodel :=
  {| em_prec := P; em_enc := tbl_enc t; em_dec := dec |}.

(* ------------------------------------------------------------------ accepted = good *)
Section Accepted.
  Variable c : mcfg.
  Hypothesis Hc : wf_mcfg c.
  Local Notation T := (2 ^ PR c).
  Local Notation M := (2 ^ PB c).

  Lemma good_table ss probs :
    valid_probs (PR c) probs -> length ss = length probs -> NoDup ss ->
    let t := table_of 0 ss probs in
    wf_table (PR c) t /\ syms t = ss /\ tprobs t = probs /\ length t = length probs.
  Proof.
    intros Hv Hl Hnd t. split; [apply table_of_wf; try assumption; apply Hc|].
    split; [apply table_of_syms; exact Hl|]. split; [apply table_of_tprobs; exact Hl|].
    apply table_of_length; exact Hl.
  Qed.

  Theorem uniform_accepted_good range m :
    wf_mcfg_uniform c -> range < 2 ^ UB c -> uniform_new c range = Ok m ->
    let t := utable T (T / range) (range - 1) (N.to_nat range) in
    wf_table (PR c) t /\ rep_good c t (RUniform m).
  Proof.
    intros Hu Hru H t. apply (uniform_new_iff c Hu range m Hru) in H. destruct H as [Hr ->].
    split; [apply utable_wf; try assumption; lia|].
    cbn [rep_good]. split; [exact Hu|]. exists range. repeat split; try lia.
  Qed.

  Theorem contig_accepted_good probs infer m :
    Forall (fun p => p < M) probs -> contig_from_probs c probs infer = Ok m ->
    let full := full_probs c probs infer in
    let t := table_of 0 (iotaZ (length full)) full in
    valid_probs (PR c) full /\ wf_table (PR c) t /\ rep_good c t (RContig m).
  Proof.
    intros HF H full t. apply (contig_from_probs_iff c Hc probs infer m HF) in H. destruct H as [Hv ->].
    destruct (good_table (iotaZ (length full)) full Hv (iotaZ_length _) (NoDup_seq_Z _)) as (Hw & Hs & Hp & Hl).
    split; [exact Hv|]. split; [exact Hw|]. unfold t; cbn [rep_good]. rewrite Hs, Hp, Hl. split; reflexivity.
  Qed.

  Theorem ncdec_accepted_good ss probs infer m :
    Forall (fun p => p < M) probs -> ncdec_from_probs c ss probs infer = Ok m -> NoDup ss ->
    let full := full_probs c probs infer in
    let t := table_of 0 ss full in
    valid_probs (PR c) full /\ wf_table (PR c) t /\ rep_good c t (RNcDec m).
  Proof.
    intros HF H Hnd full t. apply (ncdec_from_probs_iff c Hc ss probs infer m HF) in H.
    destruct H as (Hv & Hlen & ->).
    destruct (good_table ss full Hv Hlen Hnd) as (Hw & Hs & Hp & Hl).
    split; [exact Hv|]. split; [exact Hw|]. unfold t; cbn [rep_good]. rewrite Hs, Hp. reflexivity.
  Qed.

  Theorem ncenc_accepted_good ss probs infer m :
    Forall (fun p => p < M) probs -> ncenc_from_probs c ss probs infer = Ok m ->
    let full := full_probs c probs infer in
    let t := table_of 0 ss full in
    valid_probs (PR c) full /\ NoDup ss /\ length ss = length full /\
    wf_table (PR c) t /\ rep_good c t (RNcEnc m).
  Proof.
    intros HF H full t.
    destruct (proj1 (ncenc_from_probs_iff c Hc ss probs infer HF) (ex_intro _ m H)) as (Hv & Hlen & Hnd).
    destruct (ncenc_from_probs_spec c Hc ss probs infer m HF H) as (Hget & Hsz).
    destruct (good_table ss full Hv Hlen Hnd) as (Hw & Hs & Hp & Hl).
    split; [exact Hv|]. split; [exact Hnd|]. split; [exact Hlen|]. split; [exact Hw|].
    cbn [rep_good]. split.
    - intros s. apply Hget.
    - unfold ncenc_support_size in Hsz. rewrite Hsz. unfold lenN, t. rewrite Hl. reflexivity.
  Qed.

  Theorem lkc_accepted_good probs infer m :
    wf_mcfg_lookup c -> Forall (fun p => p < M) probs -> lkc_from_probs c probs infer = Ok m ->
    let full := full_probs c probs infer in
    let t := table_of 0 (iotaZ (length full)) full in
    valid_probs (PR c) full /\ wf_table (PR c) t /\ rep_good c t (RLkC m).
  Proof.
    intros Hlk HF H full t. apply (lkc_from_probs_iff c Hlk probs infer m HF) in H. destruct H as [Hv ->].
    destruct (good_table (iotaZ (length full)) full Hv (iotaZ_length _) (NoDup_seq_Z _)) as (Hw & Hs & Hp & Hl).
    split; [exact Hv|]. split; [exact Hw|]. unfold t; cbn [rep_good]. rewrite Hs, Hp, Hl.
    split; [exact Hlk|]. split; reflexivity.
  Qed.

  Theorem lkn_accepted_good ss probs infer m :
    wf_mcfg_lookup c -> Forall (fun p => p < M) probs -> lkn_from_probs c ss probs infer = Ok m -> NoDup ss ->
    let full := full_probs c probs infer in
    let t := table_of 0 ss full in
    valid_probs (PR c) full /\ wf_table (PR c) t /\ rep_good c t (RLkN m).
  Proof.
    intros Hlk HF H Hnd full t. apply (lkn_from_probs_iff c Hlk ss probs infer m HF) in H.
    destruct H as (Hv & Hlen & ->).
    destruct (good_table ss full Hv Hlen Hnd) as (Hw & Hs & Hp & Hl).
    split; [exact Hv|]. split; [exact Hw|]. unfold t; cbn [rep_good]. rewrite Hs, Hp. split; [exact Hlk|reflexivity].
  Qed.

  (* ---------------------------------------------------------------- exactly invertible *)
  Variable t : table.
  Hypothesis Ht : wf_table (PR c) t.

  Lemma good_model_wf (m : emodel) :
    em_prec m = PR c -> (forall s, em_enc m s = tbl_enc t s) ->
    (forall q, q < T -> em_dec m q = tbl_dec t q) -> wf_model m.
  Proof.
    intros HP He Hd. apply (wf_model_ext (table_model (PR c) t) m).
    - cbn. symmetry. exact HP.
    - exact He.
    - cbn [em_prec table_model]. exact Hd.
    - apply table_model_wf. exact Ht.
  Qed.

  Lemma not_sym_ok_not_in s :
    N.of_nat (length t) <= 2 ^ UB c -> syms t = iotaZ (length t) ->
    sym_ok (UB c) SyUsize s = false -> tbl_enc t s = None.
  Proof.
    intros Hfit Hs Hno. apply tbl_enc_notin. rewrite Hs. unfold iotaZ. intros Hin.
    apply in_map_iff in Hin. destruct Hin as (j & <- & Hj). apply in_seq in Hj.
    cbn [sym_ok] in Hno. apply andb_false_iff in Hno.
    destruct Hno as [Hno|Hno]; [apply Z.leb_gt in Hno; lia|apply Z.ltb_ge in Hno; lia].
  Qed.

  Theorem uniform_good_wf m : rep_good c t (RUniform m) -> wf_model (uniform_emodel c m).
  Proof.
    intros Hg. apply good_model_wf; [reflexivity| |].
    - intros s. cbn [uniform_emodel em_enc].
      destruct (sym_ok (UB c) SyUsize s) eqn:Eok.
      + pose proof (rep_lcp_good c Hc t Ht (RUniform m) s _ Hg eq_refl Eok) as H.
        cbn in H. rewrite H. reflexivity.
      + symmetry. destruct Hg as (Hu & range & Hr & Hru & Hm & Htab).
        apply not_sym_ok_not_in; [| |exact Eok].
        * rewrite Htab, utable_length. lia.
        * rewrite Htab, utable_syms, utable_length. reflexivity.
    - intros q Hq. cbn [uniform_emodel em_dec].
      pose proof (rep_quant_good c Hc t Ht (RUniform m) q _ Hg eq_refl Hq) as H. cbn in H. rewrite H. reflexivity.
  Qed.

  Theorem contig_good_wf m :
    N.of_nat (length t) <= 2 ^ UB c -> rep_good c t (RContig m) -> wf_model (contig_emodel c m).
  Proof.
    intros Hfit Hg. apply good_model_wf; [reflexivity| |].
    - intros s. cbn [contig_emodel em_enc].
      destruct (sym_ok (UB c) SyUsize s) eqn:Eok.
      + pose proof (rep_lcp_good c Hc t Ht (RContig m) s _ Hg eq_refl Eok) as H.
        cbn in H. rewrite H. reflexivity.
      + symmetry. destruct Hg as (Hs & _). apply not_sym_ok_not_in; assumption.
    - intros q Hq. cbn [contig_emodel em_dec].
      pose proof (rep_quant_good c Hc t Ht (RContig m) q _ Hg eq_refl Hq) as H. cbn in H. rewrite H. reflexivity.
  Qed.

  Theorem nc_good_wf e d :
    rep_good c t (RNcEnc e) -> rep_good c t (RNcDec d) -> wf_model (nc_emodel c e d).
  Proof.
    intros He Hd. apply good_model_wf; [reflexivity| |].
    - intros s. cbn [nc_emodel em_enc]. destruct He as (Hget & _). apply Hget.
    - intros q Hq. cbn [nc_emodel em_dec]. unfold ncdec_dec.
      pose proof (rep_quant_good c Hc t Ht (RNcDec d) q _ Hd eq_refl Hq) as H. cbn in H. rewrite H. reflexivity.
  Qed.

  Theorem ncdec_good_wf d : rep_good c t (RNcDec d) -> wf_model (dec_emodel (PR c) t (ncdec_dec c d)).
  Proof.
    intros Hd. apply good_model_wf; [reflexivity|reflexivity|].
    intros q Hq. cbn [dec_emodel em_dec]. unfold ncdec_dec.
    pose proof (rep_quant_good c Hc t Ht (RNcDec d) q _ Hd eq_refl Hq) as H. cbn in H. rewrite H. reflexivity.
  Qed.

  Theorem lkc_good_wf m : rep_good c t (RLkC m) -> wf_model (dec_emodel (PR c) t (lkc_dec c m)).
  Proof.
    intros Hd. apply good_model_wf; [reflexivity|reflexivity|].
    intros q Hq. cbn [dec_emodel em_dec]. unfold lkc_dec.
    pose proof (rep_quant_good c Hc t Ht (RLkC m) q _ Hd eq_refl Hq) as H. cbn in H. rewrite H. reflexivity.
  Qed.

  Theorem lkn_good_wf m : rep_good c t (RLkN m) -> wf_model (dec_emodel (PR c) t (lkn_dec c m)).
  Proof.
    intros Hd. apply good_model_wf; [reflexivity|reflexivity|].
    intros q Hq. cbn [dec_emodel em_dec]. unfold lkn_dec.
    pose proof (rep_quant_good c Hc t Ht (RLkN m) q _ Hd eq_refl Hq) as H. cbn in H. rewrite H. reflexivity.
  Qed.

  (* ---------------------------------------------------------------- the whole conversion graph *)
  Theorem convs_agree lookup_ok ks base :
    (lookup_ok = true -> wf_mcfg_lookup c) -> rep_good c t base ->
    exists o, rep_convs c lookup_ok ks base = Ok o /\
      forall r, o = Some r ->
        (forall rt, rep_table c r = Some rt -> rt = Ok t) /\
        (forall s rr, rep_lcp c r s = Some rr ->
           match r with RNcEnc _ => True | _ => sym_ok (UB c) SyUsize s = true end ->
           rr = Ok (tbl_enc t s)) /\
        (forall q rr, rep_quant c r q = Some rr -> q < T -> rr = Ok (tbl_dec t q)) /\
        (forall rn, rep_support_size r = Some rn -> rn = Ok (lenN t)).
  Proof.
    intros Hlk Hg. destruct (rep_convs_good c Hc t Ht lookup_ok ks base Hlk Hg) as (o & Ho & Hgo).
    exists o. split; [exact Ho|]. intros r Hr. specialize (Hgo r Hr).
    split; [intros rt; apply (rep_table_good c Hc t Ht r rt Hgo)|].
    split; [intros s rr; apply (rep_lcp_good c Hc t Ht r s rr Hgo)|].
    split; [intros q rr; apply (rep_quant_good c Hc t Ht r q rr Hgo)|].
    intros rn; apply (rep_support_good c t Ht r rn Hgo).
  Qed.
End Accepted.
