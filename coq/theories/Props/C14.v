(* Props/C14.v -- Chain coder decoding is local: symbol i depends only on chunk i and
   model i.  Statements only; proofs in Proofs/Chain_local.v and Proofs/Chain_io.v.

   [chunks c P data] (Model/Chain.v) is the model-independent stream of PRECISION-bit
   chunks of the data: it iterates [chain_take], the compressed side of decode_symbol,
   which mentions neither an entropy model nor the remainders.  [local_outputs ms chs]
   is the specification: output i = what model i assigns to chunk i, and
   Err OutOfCompressedData from the first position without a chunk on.

   None of the theorems needs the models to be well-formed: even a broken model cannot
   influence which bits the other positions see. *)
From CV Require Import Base.Bits Model.EModel Model.Chain.
From CV Require Import Proofs.Chain_bits Proofs.Chain_local Proofs.Chain_io Proofs.Chain_flip.
Open Scope N_scope.

(* the i-th symbol is the one the i-th model assigns to the i-th chunk; the i-th
   quantile handed to a model is the i-th chunk *)
Theorem C14_symbol_i : forall c P data ms ch,
  wf_ccfg c P -> Forall (fun w => w < 2 ^ cWB c) data -> Forall (fun m => em_prec m = P) ms ->
  chain_from_binary c P data = inl ch ->
  fst (chain_decode_all c ms ch) = local_outputs ms (chunks c P data)
  /\ chain_quantiles c ms ch = pad_chunks (length ms) (chunks c P data).
Proof. intros c P data ms ch Hwf. exact (chain_local_binary c P Hwf data ms ch). Qed.

(* position-wise reading of the specification *)
Theorem C14_local_outputs_nth : forall ms chs i,
  nth_error (local_outputs ms chs) i =
  match nth_error ms i with
  | Some m => Some (sym_at m (nth_error chs i))
  | None => None
  end.
Proof. exact local_outputs_nth. Qed.

Theorem C14_quantile_is_chunk : forall n chs i, (i < n)%nat ->
  nth_error (pad_chunks n chs) i = Some (nth_error chs i).
Proof. exact pad_chunks_nth. Qed.

(* the same for any coder in any state (after a history, from_compressed, ...): the
   chunks are those of its compressed backend and bit buffer *)
Theorem C14_symbol_i_any_state : forall c P ms ch,
  wf_ccfg c P -> Forall (fun m => em_prec m = P) ms ->
  1 <= hc ch < 2 ^ cWB c -> Forall (fun w => w < 2 ^ cWB c) (comp ch) ->
  fst (chain_decode_all c ms ch) = local_outputs ms (chain_chunks c P ch)
  /\ chain_quantiles c ms ch = pad_chunks (length ms) (chain_chunks c P ch).
Proof. intros c P ms ch Hwf Hms. exact (chain_decode_all_local c P Hwf ms ch Hms). Qed.

(* replacing the model used for one position changes at most the symbol decoded at that
   position and never whether or when the coder runs out of data *)
Theorem C14_model_swap : forall c P data ms ms' ch j,
  wf_ccfg c P -> Forall (fun w => w < 2 ^ cWB c) data ->
  Forall (fun m => em_prec m = P) ms -> Forall (fun m => em_prec m = P) ms' ->
  length ms = length ms' -> (forall i, i <> j -> nth_error ms i = nth_error ms' i) ->
  chain_from_binary c P data = inl ch ->
  let o := fst (chain_decode_all c ms ch) in
  let o' := fst (chain_decode_all c ms' ch) in
  forall i, (i <> j -> nth_error o i = nth_error o' i)
            /\ is_err (nth_error o i) = is_err (nth_error o' i).
Proof. intros c P data ms ms' ch j Hwf. exact (chain_model_swap c P Hwf data ms ms' ch j). Qed.

(* flipping bits inside chunk j (data' has the same chunks except possibly chunk j)
   changes at most the symbol decoded at position j, never the running out of data *)
Theorem C14_bitflip : forall c P data data' ms ch ch' j,
  wf_ccfg c P ->
  Forall (fun w => w < 2 ^ cWB c) data -> Forall (fun w => w < 2 ^ cWB c) data' ->
  Forall (fun m => em_prec m = P) ms ->
  length (chunks c P data) = length (chunks c P data') ->
  (forall i, i <> j -> nth_error (chunks c P data) i = nth_error (chunks c P data') i) ->
  chain_from_binary c P data = inl ch -> chain_from_binary c P data' = inl ch' ->
  let o := fst (chain_decode_all c ms ch) in
  let o' := fst (chain_decode_all c ms ch') in
  forall i, (i <> j -> nth_error o i = nth_error o' i)
            /\ is_err (nth_error o i) = is_err (nth_error o' i).
Proof. intros c P data data' ms ch ch' j Hwf. exact (chain_chunk_flip c P Hwf data data' ms ch ch' j). Qed.

(* "flipping bits inside one chunk" is not vacuous and is exactly an alteration of one entry
   of the chunk list: ANY new value of ANY chunk j is realised by data of the same length that
   leaves the initial remainders head and every other chunk untouched (the chunk stream is a
   bijective re-arrangement of the data bits) *)
Theorem C14_chunk_update : forall c P data ch j q',
  wf_ccfg c P -> Forall (fun w => w < 2 ^ cWB c) data -> chain_from_binary c P data = inl ch ->
  (j < length (chunks c P data))%nat -> q' < 2 ^ P ->
  exists data' ch',
    length data' = length data /\ Forall (fun w => w < 2 ^ cWB c) data'
    /\ chain_from_binary c P data' = inl ch' /\ hr ch' = hr ch
    /\ chunks c P data' = replace_nth j q' (chunks c P data).
Proof. intros c P data ch j q' Hwf. exact (chain_chunk_update c P Hwf data ch j q'). Qed.

(* whether and when OutOfCompressedData occurs is a function of the number of data
   words, the precision and the position alone *)
Theorem C14_oom_independent : forall c P data data' ms ms' ch ch' i,
  wf_ccfg c P ->
  Forall (fun w => w < 2 ^ cWB c) data -> Forall (fun w => w < 2 ^ cWB c) data' ->
  Forall (fun m => em_prec m = P) ms -> Forall (fun m => em_prec m = P) ms' ->
  length data = length data' -> length ms = length ms' ->
  chain_from_binary c P data = inl ch -> chain_from_binary c P data' = inl ch' ->
  is_err (nth_error (fst (chain_decode_all c ms ch)) i)
  = is_err (nth_error (fst (chain_decode_all c ms' ch')) i)
  /\ (is_err (nth_error (fst (chain_decode_all c ms ch)) i) = true
      <-> (i < length ms)%nat /\ (length (chunks c P data) <= i)%nat).
Proof.
  intros c P data data' ms ms' ch ch' i Hwf.
  exact (chain_oom_independent c P Hwf data data' ms ms' ch ch' i).
Qed.

(* the number of chunks, and whether from_binary succeeds at all, depends on the
   number of words only *)
Theorem C14_chunks_length : forall c P data data',
  wf_ccfg c P ->
  Forall (fun w => w < 2 ^ cWB c) data -> Forall (fun w => w < 2 ^ cWB c) data' ->
  length data = length data' ->
  length (chunks c P data) = length (chunks c P data')
  /\ ((exists ch, chain_from_binary c P data = inl ch) <-> (exists ch, chain_from_binary c P data' = inl ch)).
Proof. intros c P data data' Hwf. exact (chunks_length_shape c P Hwf data data'). Qed.

(* the mechanism: after any number of decodes the compressed side (backend and bit
   buffer) is the same whatever models were used and whatever the remainders were *)
Theorem C14_compressed_side_model_free : forall c P ms ms' ch ch',
  Forall (fun m => em_prec m = P) ms -> Forall (fun m => em_prec m = P) ms' ->
  length ms = length ms' -> comp ch = comp ch' -> hc ch = hc ch' ->
  comp (snd (chain_decode_all c ms ch)) = comp (snd (chain_decode_all c ms' ch'))
  /\ hc (snd (chain_decode_all c ms ch)) = hc (snd (chain_decode_all c ms' ch')).
Proof. intros c P ms ms' ch ch'. exact (chain_decode_all_comp c P ms ms' ch ch'). Qed.

(* ---- pins ---- *)
Check C14_symbol_i : forall c P data ms ch,
  wf_ccfg c P -> Forall (fun w => w < 2 ^ cWB c) data -> Forall (fun m => em_prec m = P) ms ->
  chain_from_binary c P data = inl ch ->
  fst (chain_decode_all c ms ch) = local_outputs ms (chunks c P data)
  /\ chain_quantiles c ms ch = pad_chunks (length ms) (chunks c P data).
Check C14_model_swap : forall c P data ms ms' ch j,
  wf_ccfg c P -> Forall (fun w => w < 2 ^ cWB c) data ->
  Forall (fun m => em_prec m = P) ms -> Forall (fun m => em_prec m = P) ms' ->
  length ms = length ms' -> (forall i, i <> j -> nth_error ms i = nth_error ms' i) ->
  chain_from_binary c P data = inl ch ->
  let o := fst (chain_decode_all c ms ch) in
  let o' := fst (chain_decode_all c ms' ch) in
  forall i, (i <> j -> nth_error o i = nth_error o' i)
            /\ is_err (nth_error o i) = is_err (nth_error o' i).
Check C14_bitflip : forall c P data data' ms ch ch' j,
  wf_ccfg c P ->
  Forall (fun w => w < 2 ^ cWB c) data -> Forall (fun w => w < 2 ^ cWB c) data' ->
  Forall (fun m => em_prec m = P) ms ->
  length (chunks c P data) = length (chunks c P data') ->
  (forall i, i <> j -> nth_error (chunks c P data) i = nth_error (chunks c P data') i) ->
  chain_from_binary c P data = inl ch -> chain_from_binary c P data' = inl ch' ->
  let o := fst (chain_decode_all c ms ch) in
  let o' := fst (chain_decode_all c ms ch') in
  forall i, (i <> j -> nth_error o i = nth_error o' i)
            /\ is_err (nth_error o i) = is_err (nth_error o' i).
Check C14_oom_independent : forall c P data data' ms ms' ch ch' i,
  wf_ccfg c P ->
  Forall (fun w => w < 2 ^ cWB c) data -> Forall (fun w => w < 2 ^ cWB c) data' ->
  Forall (fun m => em_prec m = P) ms -> Forall (fun m => em_prec m = P) ms' ->
  length data = length data' -> length ms = length ms' ->
  chain_from_binary c P data = inl ch -> chain_from_binary c P data' = inl ch' ->
  is_err (nth_error (fst (chain_decode_all c ms ch)) i)
  = is_err (nth_error (fst (chain_decode_all c ms' ch')) i)
  /\ (is_err (nth_error (fst (chain_decode_all c ms ch)) i) = true
      <-> (i < length ms)%nat /\ (length (chunks c P data) <= i)%nat).

(* ---- non-vacuity ---- *)
Definition ex_c : ccfg := {| cWB := 8; cSB := 32; cPB := 8 |}.
Definition ex_m1 : emodel := table_model 5 [(0%Z, 0, 12); (1%Z, 12, 8); (7%Z, 20, 12)].
Definition ex_m2 : emodel := table_model 5 [(2%Z, 0, 1); (3%Z, 1, 30); (4%Z, 31, 1)].
Definition ex_data : list N := [0x12; 0x34; 0x56; 0x78; 0x9a; 0xbc].
(* the same data with bit 6 and bit 5 of the word 0x56 flipped: both lie in chunk 2 *)
Definition ex_data' : list N := [0x12; 0x34; 0x36; 0x78; 0x9a; 0xbc].
Definition ex_ms : list emodel := [ex_m1; ex_m1; ex_m1; ex_m1; ex_m1; ex_m1].

Example ex_chunks :
  chunks ex_c 5 ex_data = [22; 20; 17; 18] /\ chunks ex_c 5 ex_data' = [22; 20; 9; 18].
Proof. split; vm_compute; reflexivity. Qed.
Example ex_swap_and_flip : exists ch ch',
  chain_from_binary ex_c 5 ex_data = inl ch /\ chain_from_binary ex_c 5 ex_data' = inl ch'
  /\ fst (chain_decode_all ex_c ex_ms ch)
     = [Ok 7%Z; Ok 7%Z; Ok 1%Z; Ok 1%Z; Err OutOfCompressedData; Err OutOfCompressedData]
  /\ fst (chain_decode_all ex_c [ex_m1; ex_m2; ex_m1; ex_m1; ex_m1; ex_m1] ch)
     = [Ok 7%Z; Ok 3%Z; Ok 1%Z; Ok 1%Z; Err OutOfCompressedData; Err OutOfCompressedData]
  /\ fst (chain_decode_all ex_c ex_ms ch')
     = [Ok 7%Z; Ok 7%Z; Ok 0%Z; Ok 1%Z; Err OutOfCompressedData; Err OutOfCompressedData].
Proof. eexists _, _. repeat split; vm_compute; reflexivity. Qed.

Print Assumptions C14_symbol_i.
Print Assumptions C14_local_outputs_nth.
Print Assumptions C14_quantile_is_chunk.
Print Assumptions C14_symbol_i_any_state.
Print Assumptions C14_model_swap.
Print Assumptions C14_bitflip.
Print Assumptions C14_chunk_update.
Print Assumptions C14_oom_independent.
Print Assumptions C14_chunks_length.
Print Assumptions C14_compressed_side_model_free.
