(* Props/C09.v -- impossible symbols are rejected.  Statements only.
   GROUP C09_models_* (fixed-point model families; the coder-side statements "failed encode
   leaves the coder intact" and the leaky / lazy / Huffman encoders are added by their owners).
   Symbols are unbounded integers; every narrowing cast is explicit in the model
   (uniform.rs: usize -> Probability, then compared back, fix e50109e). *)
From CV Require Import Base.Bits Model.EModel Model.MBase Model.Uniform Model.Tables Model.Lookup Model.Convert.
From CV Require Import Proofs.Models_base Proofs.Models_validator Proofs.Models_props.
Open Scope N_scope.

(* machine level: any usize outside 0..range, in particular s = i + k * 2^Probability::BITS *)
Theorem C09_models_uniform : forall c range m s,
  wf_mcfg_uniform c -> range < 2 ^ UB c -> uniform_new c range = Ok m ->
  s < 2 ^ UB c -> range <= s -> uniform_lcp c m s = Ok None.
Proof. exact p_uniform_outside. Qed.

(* coder-facing, symbol an arbitrary integer *)
Theorem C09_models_uniform_Z : forall c range m (s : Z),
  wf_mcfg_uniform c -> range < 2 ^ UB c -> uniform_new c range = Ok m ->
  ~ (0 <= s < Z.of_N range)%Z -> em_enc (uniform_emodel c m) s = None.
Proof. exact p_uniform_outside_Z. Qed.

Theorem C09_models_contiguous : forall c probs infer m (s : Z),
  wf_mcfg c -> probs_typed c probs -> contig_from_probs c probs infer = Ok m ->
  ~ (0 <= s < Z.of_nat (length (full_probs c probs infer)))%Z ->
  em_enc (contig_emodel c m) s = None.
Proof. exact p_contig_outside. Qed.

Theorem C09_models_noncontiguous : forall c ss probs infer e s,
  wf_mcfg c -> probs_typed c probs -> ncenc_from_probs c ss probs infer = Ok e ->
  ~ In s ss -> ncenc_lcp e s = None.
Proof. exact p_noncontig_outside. Qed.

(* every encoder reachable through the conversion graph from any accepted model *)
Theorem C09_models_converted : forall c lookup_ok base t ks r s rr,
  wf_mcfg c -> (lookup_ok = true -> wf_mcfg_lookup c) -> accepted c base t ->
  rep_convs c lookup_ok ks base = Ok (Some r) -> rep_lcp c r s = Some rr ->
  match r with RNcEnc _ => True | _ => sym_ok (UB c) SyUsize s = true end ->
  ~ In s (syms t) -> rr = Ok None.
Proof. exact p_converted_outside. Qed.

Check C09_models_uniform : forall c range m s,
  wf_mcfg_uniform c -> range < 2 ^ UB c -> uniform_new c range = Ok m ->
  s < 2 ^ UB c -> range <= s -> uniform_lcp c m s = Ok None.

(* ---- non-vacuity: the aliasing symbol of finding F3 (65536 + 3 on u16 / P = 12) ---- *)
Definition c16_12 : mcfg := {| PB := 16; UB := 64; PR := 12 |}.
Example ex_alias : exists m, uniform_new c16_12 10 = Ok m /\
  uniform_lcp c16_12 m 3 = Ok (Some (1227, 409)) /\ uniform_lcp c16_12 m (65536 + 3) = Ok None.
Proof. eexists. split; [vm_compute; reflexivity|]. split; vm_compute; reflexivity. Qed.

Print Assumptions C09_models_uniform.
Print Assumptions C09_models_uniform_Z.
Print Assumptions C09_models_contiguous.
Print Assumptions C09_models_noncontiguous.
Print Assumptions C09_models_converted.
