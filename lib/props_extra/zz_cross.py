"""Cross-property assignments: theorem groups that live in another property's Props file and
families that serve several properties (merged by lib/props.py like every other part)."""


def _part(coq, fams, rule, text, note, tech):
    return dict(coq=coq, fams=fams, anchors=[], rule=rule, level_text=text, level_note=note, technique=tech,
                design_ref="DESIGN.md section 4")


_LEAKY_NOTE = ("Leaky quantizer part: the floating-point CDF is not modelled; the theorems quantify over every "
               "integer table nl that is bounded by free_weight (and monotone where stated) and over EVERY inverse "
               "hint; the harness feeds the nl values it observes to the model. No axioms.")

PROPS = {
    "C03_lazy": _part(
        ["Props.C05_float"], [("fam_floatq", "gen_lazy", 120, 8000)],
        "lazy categorical model decoded at quantiles next to interval edges",
        "The lazy model's decoder returns an entry of the eager table for every quantile (C05_lazy_dec_eq_eager_"
        "partial: equality with the table lookup under the skip-ahead hypothesis fq_skip_ok; the hypothesis itself is "
        "validated by edge-aimed quantiles incl. f32 at PRECISION 31/32).",
        "Flocq-based; standard-library axioms classic, sig_forall_dec, sig_not_dec, functional_extensionality_dep.",
        "Coq proof (partial) + correspondence"),
    "C05_leaky": _part(
        ["Props.C03_leaky:C05_"], [("fam_leaky", "gen_step", 120, 10000), ("fam_leaky", "gen_real", 60, 8000)],
        "leaky model whose full symbol table was dumped and compared with direct queries",
        "C05_leaky_table_eq_direct: the iterated symbol table of a leakily quantized distribution equals the "
        "encoder's answers on exactly the symbols lo..hi.", _LEAKY_NOTE, "Coq proof + correspondence"),
    "C09_leaky": _part(
        ["Props.C03_leaky:C09_"], [("fam_leaky", "gen_step", 120, 10000)],
        "leaky model queried for >=1 symbol outside its support",
        "C09_leaky_outside: every symbol outside [lo,hi] gets None from the leaky encoder, for any CDF table.",
        _LEAKY_NOTE, "Coq proof + correspondence"),
    "C10_leaky": _part(
        ["Props.C03_leaky:C10_"], [("fam_leaky", "gen_step", 120, 10000), ("fam_leaky", "gen_f13", 30, 2000)],
        "leaky model decoded on >=3 quantiles with adversarial hints (F13 shapes included)",
        "C10_leaky_decode_total: the three-phase quantile search terminates within 2*bits+8 iterations for every "
        "hint and returns an in-support triple, for signed and unsigned symbol types of every width.",
        _LEAKY_NOTE, "Coq proof (explicit termination measure) + correspondence with watchdog"),
    "C19_leaky": _part(
        ["Props.C03_leaky:C19_"], [("fam_leaky", "gen_new", 150, 10000)],
        "LeakyQuantizer::new on an empty / single-element / too large / sign-extended support",
        "C19_leaky_new_rejects: empty, single-element and too large supports are rejected (panic), also beyond the "
        "Probability range (after fix 642e4b6); accepted supports get free_weight + size <= 2^P.",
        _LEAKY_NOTE, "Coq proof + correspondence"),
}
