(* Proofs/FloatQ_float.v -- facts about IEEE-754 arithmetic (Flocq) used by the float-to-fixed
   point quantisation: the running sum of non-negative floats is non-decreasing in the extended
   order [0, +inf], multiplication by a non-negative scale followed by the saturating cast is
   monotone, and zeros of either sign are mapped to 0. *)
From Coq Require Import ZArith NArith List Bool Reals Lia Lra.
From Flocq Require Import Core IEEE754.BinarySingleNaN.
From CV Require Import Base.Bits Model.EModel Model.FloatQ.
Set Default Timeout 60.

Section FloatFacts.
Variables prec emax : Z.
Context (Hprec : Prec_gt_0 prec) (Hmax : Prec_lt_emax prec emax).
Notation float := (binary_float prec emax).
Notation fexp := (SpecFloat.fexp prec emax).
Notation rnd := (round radix2 fexp ZnearestE).
Notation fadd := (fq_add prec emax Hprec Hmax).
Notation fmul := (fq_mul prec emax Hprec Hmax).
Notation fdiv := (fq_div prec emax Hprec Hmax).
Notation cast := (fq_to_N prec emax).

Definition pinf : float := B754_infinity false.

#[local] Instance fexp_valid : Valid_exp fexp := fexp_correct prec emax Hprec.

Lemma rnd_ge_generic x y : generic_format radix2 fexp x -> (x <= y)%R -> (x <= rnd y)%R.
Proof. intros. apply round_ge_generic; try typeclasses eauto; assumption. Qed.

Lemma rnd_le x y : (x <= y)%R -> (rnd x <= rnd y)%R.
Proof. intros. apply round_le; try typeclasses eauto; assumption. Qed.

Lemma rnd_0 : rnd 0 = 0%R.
Proof. apply round_0. typeclasses eauto. Qed.

(* "non-negative or +infinity" *)
Definition NN (x : float) : Prop := x = pinf \/ (is_finite x = true /\ (0 <= B2R x)%R).
(* extended order on NN values *)
Definition fle (x y : float) : Prop :=
  y = pinf \/ (is_finite x = true /\ is_finite y = true /\ (B2R x <= B2R y)%R).
(* equal up to the sign of a zero *)
Definition zeq (x y : float) : Prop := x = y \/ (exists s t, x = B754_zero s /\ y = B754_zero t).

Lemma NN_zero s : NN (B754_zero s).
Proof. right. split; [reflexivity|]. simpl. lra. Qed.

Lemma fle_refl x : NN x -> fle x x.
Proof. intros [->|[Hf H0]]; [left; reflexivity|]. right. repeat split; auto. lra. Qed.

Lemma zeq_refl x : zeq x x.
Proof. left; reflexivity. Qed.

Lemma finite_nonneg_sign (x : float) :
  is_finite x = true -> (0 <= B2R x)%R -> Bsign x = true -> B2R x = 0%R.
Proof.
  destruct x as [s|s| |s m e Hb]; simpl; intros Hf H0 Hs; try reflexivity; try discriminate.
  subst s. exfalso.
  pose proof (F2R_lt_0 radix2 (Float radix2 (Z.neg m) e)) as H. simpl in H.
  assert (F2R (Float radix2 (Z.neg m) e) < 0)%R by (apply H; reflexivity).
  simpl in H0. lra.
Qed.

Lemma finite_pos_sign (x : float) :
  is_finite x = true -> (0 < B2R x)%R -> Bsign x = false.
Proof.
  intros Hf Hp. destruct (Bsign x) eqn:Hs; [|reflexivity].
  pose proof (finite_nonneg_sign x Hf (Rlt_le _ _ Hp) Hs). lra.
Qed.

Lemma B2SF_pinf (x : float) : B2SF x = SpecFloat.S754_infinity false -> x = pinf.
Proof. destruct x; simpl; intros H; try discriminate. inversion H. reflexivity. Qed.

Lemma fq_ge_zero_nonneg (w : float) :
  fq_ge prec emax w (fq_zero prec emax) = true -> is_finite w = true -> (0 <= B2R w)%R.
Proof.
  unfold fq_ge, fq_zero. intros H Hf.
  rewrite (Bcompare_correct prec emax w (B754_zero false) Hf eq_refl) in H.
  simpl B2R in H.
  destruct (Rcompare_spec (B2R w) 0); try discriminate; lra.
Qed.

(* ------------------------------------------------------------------ addition *)

Lemma add_pinf (w : float) : is_finite w = true -> fadd pinf w = pinf.
Proof. destruct w; simpl; intros; try discriminate; reflexivity. Qed.

Lemma add_nn (c w : float) :
  NN c -> is_finite w = true -> (0 <= B2R w)%R -> NN (fadd c w) /\ fle c (fadd c w).
Proof.
  intros [->|[Hc H0]] Hw Hw0.
  - rewrite add_pinf by assumption. split; left; reflexivity.
  - pose proof (Bplus_correct prec emax Hprec Hmax mode_NE c w Hc Hw) as H.
    unfold fq_add. simpl round_mode in H.
    destruct (Rlt_bool_spec (Rabs (rnd (B2R c + B2R w))) (bpow radix2 emax)) as [Hlt|Hge].
    + destruct H as (HR & HF & _).
      assert (Hc' : (B2R c <= rnd (B2R c + B2R w))%R).
      { apply rnd_ge_generic; [apply generic_format_B2R|lra]. }
      split.
      * right. split; [exact HF|]. rewrite HR. lra.
      * right. repeat split; auto. rewrite HR. exact Hc'.
    + destruct H as (HS & Hsg).
      unfold binary_overflow in HS. simpl in HS.
      assert (Hs : Bsign c = false).
      { destruct (Bsign c) eqn:Hsc; [|reflexivity]. exfalso.
        pose proof (finite_nonneg_sign c Hc H0 Hsc) as Hc0.
        try rewrite Hsc in Hsg. symmetry in Hsg.
        pose proof (finite_nonneg_sign w Hw Hw0 Hsg) as Hw1.
        rewrite Hc0, Hw1, Rplus_0_r, rnd_0, Rabs_R0 in Hge.
        pose proof (bpow_gt_0 radix2 emax). lra. }
      rewrite Hs in HS. apply B2SF_pinf in HS. rewrite HS.
      split; left; reflexivity.
Qed.

(* zeros of either sign behave alike under addition *)
Lemma add_zeq (x y w : float) : zeq x y -> zeq (fadd x w) (fadd y w).
Proof.
  intros [->|(s & t & -> & ->)]; [left; reflexivity|].
  unfold fq_add. destruct w as [u|u| |u m e Hb]; simpl.
  - right. destruct (Bool.eqb s u), (Bool.eqb t u); eauto.
  - left; reflexivity.
  - left; reflexivity.
  - left; reflexivity.
Qed.

(* ------------------------------------------------------------------ the cast *)

Lemma cast_le_max B (x : float) : cast B x <= 2 ^ B - 1.
Proof.
  unfold fq_to_N. destruct x as [s|s| |s m e Hb]; try apply N.le_min_r.
  - destruct s; lia.
  - lia.
Qed.

Lemma Btrunc_Ztrunc (x : float) : Btrunc x = Ztrunc (B2R x).
Proof.
  apply eq_IZR. rewrite Btrunc_correct by assumption. apply round_FIX_IZR.
Qed.

Lemma cast_finite B (x : float) :
  is_finite x = true -> cast B x = N.min (Z.to_N (Ztrunc (B2R x))) (2 ^ B - 1).
Proof.
  destruct x as [s|s| |s m e Hb]; intros Hf; try discriminate.
  - unfold fq_to_N. rewrite Btrunc_Ztrunc. reflexivity.
  - unfold fq_to_N. rewrite Btrunc_Ztrunc. reflexivity.
Qed.

Lemma cast_zero B s : cast B (B754_zero s) = 0.
Proof. unfold fq_to_N. simpl Btrunc. apply N.min_l, N.le_0_l. Qed.

Lemma cast_nan B : cast B B754_nan = 0.
Proof. reflexivity. Qed.

Lemma cast_pinf B : cast B pinf = 2 ^ B - 1.
Proof. reflexivity. Qed.

Lemma cast_finite_mono B (x y : float) :
  is_finite x = true -> is_finite y = true -> (B2R x <= B2R y)%R -> cast B x <= cast B y.
Proof.
  intros Hx Hy Hle. rewrite !cast_finite by assumption.
  apply N.min_le_compat_r.
  pose proof (Ztrunc_le _ _ Hle) as Ht.
  lia.
Qed.

(* ------------------------------------------------------------------ multiplication *)

Lemma mulcast_zero B s (y : float) : cast B (fmul (B754_zero s) y) = 0.
Proof.
  unfold fq_mul. destruct y as [u|u| |u m e Hb]; simpl Bmult; try apply cast_zero; reflexivity.
Qed.

Lemma mulcast_zero_r B (c : float) u : cast B (fmul c (B754_zero u)) = 0.
Proof.
  unfold fq_mul. destruct c as [v|v| |v m e Hb]; simpl Bmult; try apply cast_zero; reflexivity.
Qed.

Lemma finite_zero_or_pos (c : float) :
  is_finite c = true -> (0 <= B2R c)%R ->
  (exists s, c = B754_zero s) \/ (exists m e Hb, c = B754_finite false m e Hb /\ (0 < B2R c)%R).
Proof.
  destruct c as [s|s| |s m e Hb]; simpl; intros Hf H0; try discriminate.
  - left; eauto.
  - right. destruct s.
    + exfalso.
      assert (F2R (Float radix2 (Z.neg m) e) < 0)%R by (apply F2R_lt_0; reflexivity).
      simpl in H0. lra.
    + exists m, e, Hb. split; [reflexivity|]. simpl. apply F2R_gt_0. reflexivity.
Qed.

(* finite * finite, both non-negative: either the rounded product, or +inf on overflow *)
Lemma mul_finite (c s : float) :
  is_finite c = true -> (0 <= B2R c)%R -> is_finite s = true -> (0 <= B2R s)%R ->
  (is_finite (fmul c s) = true /\ B2R (fmul c s) = rnd (B2R c * B2R s)
     /\ (Rabs (rnd (B2R c * B2R s)) < bpow radix2 emax)%R)
  \/ (fmul c s = pinf /\ (bpow radix2 emax <= Rabs (rnd (B2R c * B2R s)))%R).
Proof.
  intros Hc Hc0 Hs Hs0.
  pose proof (Bmult_correct prec emax Hprec Hmax mode_NE c s) as H.
  unfold fq_mul. simpl round_mode in H.
  destruct (Rlt_bool_spec (Rabs (rnd (B2R c * B2R s))) (bpow radix2 emax)) as [Hlt|Hge].
  - left. destruct H as (HR & HF & _). rewrite Hc, Hs in HF. auto.
  - right. split; [|exact Hge].
    assert (Hpos : (0 < B2R c * B2R s)%R).
    { destruct (Rle_lt_or_eq_dec 0 (B2R c * B2R s)) as [Hp|Hz]; [apply Rmult_le_pos; assumption|exact Hp|].
      exfalso. rewrite <- Hz, rnd_0, Rabs_R0 in Hge.
      pose proof (bpow_gt_0 radix2 emax). lra. }
    assert (0 < B2R c)%R.
    { destruct (Rle_lt_or_eq_dec 0 (B2R c) Hc0) as [Hp|Hz]; [exact Hp|].
      rewrite <- Hz, Rmult_0_l in Hpos. lra. }
    assert (0 < B2R s)%R.
    { destruct (Rle_lt_or_eq_dec 0 (B2R s) Hs0) as [Hp|Hz]; [exact Hp|].
      rewrite <- Hz, Rmult_0_r in Hpos. lra. }
    rewrite (finite_pos_sign c), (finite_pos_sign s) in H by assumption.
    unfold binary_overflow in H. simpl in H. apply B2SF_pinf in H. exact H.
Qed.

Lemma rnd_nonneg (x : R) : (0 <= x)%R -> (0 <= rnd x)%R.
Proof.
  intros Hx. apply rnd_ge_generic; [apply generic_format_0|exact Hx].
Qed.

Lemma mul_pinf_r (c : float) :
  is_finite c = true -> (0 <= B2R c)%R ->
  (exists s, c = B754_zero s) /\ fmul c pinf = B754_nan \/ fmul c pinf = pinf.
Proof.
  intros Hc H0. destruct (finite_zero_or_pos c Hc H0) as [(s & ->)|(m & e & Hb & -> & _)].
  - left. split; [eauto|reflexivity].
  - right. reflexivity.
Qed.

(* the heart of C03: c |-> cast (c * scale) is monotone on [0, +inf] for every scale in [0, +inf] *)
Lemma mulcast_mono B (c c' s : float) :
  NN c -> NN c' -> fle c c' -> NN s -> cast B (fmul c s) <= cast B (fmul c' s).
Proof.
  intros Hc Hc' Hle Hs.
  destruct Hs as [->|[Hs Hs0]].
  - (* scale = +inf *)
    destruct Hc as [->|[Hc Hc0]].
    + (* c = +inf, hence c' = +inf *)
      destruct Hle as [->|(Hf & _)]; [apply N.le_refl|discriminate].
    + destruct (mul_pinf_r c Hc Hc0) as [((s & ->) & Hn)|Hp].
      * rewrite Hn, cast_nan. apply N.le_0_l.
      * rewrite Hp.
        destruct Hc' as [->|[Hc' Hc'0]]; [apply N.le_refl|].
        destruct Hle as [->|(_ & _ & Hle)]; [apply N.le_refl|].
        destruct (finite_zero_or_pos c Hc Hc0) as [(s & ->)|(m & e & Hb & -> & Hpos)].
        { simpl in Hp. discriminate. }
        destruct (finite_zero_or_pos c' Hc' Hc'0) as [(s' & ->)|(m' & e' & Hb' & -> & _)].
        { simpl in Hle, Hpos. lra. }
        apply N.le_refl.
  - (* finite scale *)
    destruct Hc' as [->|[Hc' Hc'0]].
    + (* c' = +inf *)
      destruct (finite_zero_or_pos s Hs Hs0) as [(u & ->)|(m & e & Hb & -> & _)].
      * (* scale zero: inf * 0 = NaN -> 0, and everything * 0 casts to 0 *)
        rewrite !mulcast_zero_r. apply N.le_refl.
      * replace (fmul pinf (B754_finite false m e Hb)) with pinf by reflexivity.
        rewrite cast_pinf. apply cast_le_max.
    + destruct Hc as [->|[Hc Hc0]].
      { destruct Hle as [->|(Hf & _)]; [discriminate|discriminate]. }
      assert (HR : (B2R c <= B2R c')%R).
      { destruct Hle as [->|(_ & _ & H)]; [discriminate|exact H]. }
      assert (Hprod : (B2R c * B2R s <= B2R c' * B2R s)%R) by (apply Rmult_le_compat_r; assumption).
      assert (Hrnd : (rnd (B2R c * B2R s) <= rnd (B2R c' * B2R s))%R)
        by (apply rnd_le; exact Hprod).
      assert (H0r : (0 <= rnd (B2R c * B2R s))%R) by (apply rnd_nonneg, Rmult_le_pos; assumption).
      destruct (mul_finite c' s Hc' Hc'0 Hs Hs0) as [(Hf' & HB' & Hlt')|(Hp' & _)].
      * destruct (mul_finite c s Hc Hc0 Hs Hs0) as [(Hf & HB & _)|(_ & Hge)].
        -- apply cast_finite_mono; auto. rewrite HB, HB'. exact Hrnd.
        -- exfalso. rewrite Rabs_pos_eq in Hge by exact H0r.
           rewrite Rabs_pos_eq in Hlt' by lra. lra.
      * rewrite Hp', cast_pinf. apply cast_le_max.
Qed.

(* equal up to the sign of zero => same cast of the product *)
Lemma mulcast_zeq B (x y s : float) : zeq x y -> cast B (fmul x s) = cast B (fmul y s).
Proof.
  intros [->|(u & v & -> & ->)]; [reflexivity|].
  rewrite !mulcast_zero. reflexivity.
Qed.

(* ------------------------------------------------------------------ the scale *)

Lemma of_N_nn (n : N) : NN (fq_of_N prec emax Hprec Hmax n).
Proof.
  unfold fq_of_N.
  pose proof (binary_normalize_correct prec emax Hprec Hmax mode_NE (Z.of_N n) 0 false) as H.
  simpl round_mode in H. cbv zeta in H.
  assert (H0 : (0 <= F2R (Float radix2 (Z.of_N n) 0))%R) by (apply F2R_ge_0; simpl; lia).
  destruct (Rlt_bool_spec (Rabs (rnd (F2R (Float radix2 (Z.of_N n) 0)))) (bpow radix2 emax)).
  - destruct H as (HR & HF & _). right. split; [exact HF|]. rewrite HR. apply rnd_nonneg, H0.
  - unfold binary_overflow in H. simpl in H.
    rewrite Rlt_bool_false in H by exact H0. apply B2SF_pinf in H. left. exact H.
Qed.

Lemma norm_ok_pos (x : float) :
  fq_norm_ok prec emax x = true -> is_finite x = true /\ (0 < B2R x)%R.
Proof.
  unfold fq_norm_ok, fq_is_normal. destruct x as [s|s| |s m e Hb]; simpl; try discriminate.
  intros H. apply andb_prop in H. destruct H as [_ Hs].
  destruct s; [discriminate|]. split; [reflexivity|]. apply F2R_gt_0. reflexivity.
Qed.

(* scale = x / normalization with x in [0, +inf] and a finite positive normalization *)
Lemma div_nn (x d : float) :
  NN x -> is_finite d = true -> (0 < B2R d)%R -> NN (fdiv x d).
Proof.
  intros Hx Hd Hd0.
  destruct (finite_zero_or_pos d Hd (Rlt_le _ _ Hd0)) as [(u & ->)|(md & ed & Hbd & -> & _)].
  { simpl in Hd0. lra. }
  destruct Hx as [->|[Hx Hx0]].
  - left. reflexivity.
  - pose proof (Bdiv_correct prec emax Hprec Hmax mode_NE x (B754_finite false md ed Hbd)) as H.
    unfold fq_div. simpl round_mode in H.
    set (d := B754_finite false md ed Hbd) in *.
    assert (Hnz : B2R d <> 0%R) by lra.
    specialize (H Hnz).
    assert (Hq : (0 <= B2R x / B2R d)%R).
    { unfold Rdiv. apply Rmult_le_pos; [assumption|]. left. apply Rinv_0_lt_compat. assumption. }
    destruct (Rlt_bool_spec (Rabs (rnd (B2R x / B2R d))) (bpow radix2 emax)).
    + destruct H as (HR & HF & _). right. split; [rewrite HF; exact Hx|].
      rewrite HR. apply rnd_nonneg, Hq.
    + unfold binary_overflow in H. simpl in H.
      assert (Hpos : (0 < B2R x)%R).
      { destruct (Rle_lt_or_eq_dec 0 (B2R x) Hx0) as [Hp|Hz]; [exact Hp|]. exfalso.
        rewrite <- Hz in H0. unfold Rdiv in H0.
        rewrite Rmult_0_l, rnd_0, Rabs_R0 in H0.
        pose proof (bpow_gt_0 radix2 emax). lra. }
      rewrite (finite_pos_sign x Hx Hpos) in H. simpl in H.
      apply B2SF_pinf in H. left. exact H.
Qed.

End FloatFacts.
