"""property entries delivered by the backend family (merged by tools/merge_shared.py)"""
PROPS = {
    "C17": dict(
        coq=["Props.C17", "Props.C20_cursor"],
        fams=[("fam_backend", "gen_cursor", 600, 30000), ("fam_backend", "gen_vec", 250, 8000),
              ("fam_backend", "gen_adapter", 300, 8000)],
        anchors=["src/backends.rs", "src/lib.rs"],
        rule="history with >=1 read that delivered a word (>=1 accepted write for callback sinks) AND >=1 boundary "
             "event: end-of-data, OutOfSpace, refused seek or refused constructor",
        level_text="Machine-checked Coq theorems (no bound on buffer length, word width, history length or nesting of "
                   "Reverse) about a Gallina model of src/backends.rs: Vec/SmallVec refine the abstract stack; "
                   "Cursor over owned/borrowed/mutable/boxed buffers and Reverse<Cursor> refine a tape (abstract "
                   "stack + queue) over arbitrary interleavings of read (both semantics), write, extend, seek, pos, "
                   "remaining, space_left, is_exhausted/is_full/maybe_*, into_reversed; stack reads return writes in "
                   "reverse order, queue reads in order; end-of-data is sticky; remaining/space_left equal the number "
                   "of reads/writes that succeed; seek(pos) is a no-op, out-of-range seeks are refused without effect, "
                   "Vec seek truncates; into_reversed is invisible to every later read/write/bounds query (twice = "
                   "identity); iterator adapters deliver the items before the wrapped iterator's first None and then "
                   "end-of-data for ever; callback adapters pass every word once, in order; pos <= len is preserved by "
                   "every modelled operation and excludes the two unchecked-index sites and the usize underflows. "
                   "Tied to the current source by a differential check (harness vs vm_compute) plus an independent "
                   "abstract stack/queue oracle on the implementation's outputs.",
        level_note="Trusted: Coq kernel + vm_compute; the hand-written model (Model/Backend.v) corresponds to backends.rs "
                   "only as far as the sampled correspondence shows (Word = u8/u32; 19 backend types incl. SmallVec "
                   "inline+spilled, Reverse nesting, scripted non-fused ExactSizeIterator, scripted callbacks); "
                   "core::iter::Fuse is modelled by its documented behaviour; which trait impls exist is mirrored "
                   "by hand (a removed impl breaks the harness build). No axioms (Closed under the global context). "
                   "Theorems are about the code after the fix: commit for Reverse<Cursor>::space_left. "
                   "Cursor::buf_mut() shrinking a Vec buffer is outside (C20 known class cursor_buf_mut_shrink, "
                   "theorem C20_cursor_buf_mut_refuted). Observation: InfallibleIteratorReadWords::new demands an "
                   "iterator over Result items, so its Word type is that Result.",
        technique="Coq proof (representation invariant + refinement to an abstract stack/queue zipper, induction over "
                  "op lists and over Reverse nesting) + model/implementation correspondence + abstract oracle",
        design_ref="DESIGN.md section 4, C17 (and cursor part of C20)",
    ),
}
