(* Proofs/Leaky_dec.v -- quantile_function of LeakilyQuantizedDistribution:
   the three-phase search terminates within an explicit number of iterations for
   EVERY hint, never reaches a panic, and returns the symbol whose interval
   contains the quantile, with the encoder's cumulative and probability.

   Only boundedness of nl is used here (monotonicity is needed for the tiling and
   for uniqueness, see Leaky_enc.v): the search finds a crossing
   L s <= q < L (s+1) of any bounded table. *)
From CV Require Import Base.Bits Model.EModel Model.Leaky.
From CV Require Import Proofs.Leaky_base Proofs.Leaky_enc Proofs.Leaky_search.
From Coq Require Import ZArith Lia.
Set Default Timeout 60.
Open Scope Z_scope.

(* generic fuelled loop: an invariant indexed by a decreasing integer measure *)
Lemma sloop_ok (step : sst -> sres) (Inv : Z -> sst -> Prop) (Good : sres -> Prop) :
  (forall m st, Inv m st ->
     match step st with
     | Cont st' => exists m', 0 <= m' < m /\ Inv m' st'
     | r => Good r
     end) ->
  (forall st, ~ Good (Cont st)) ->
  forall fuel m st, Inv m st -> 0 <= m < Z.of_nat fuel -> Good (sloop step fuel st).
Proof.
  intros Hstep Hnc. induction fuel as [|f IH]; intros m st Hi Hm; [lia|].
  cbn [sloop]. specialize (Hstep m st Hi).
  destruct (step st) as [st'| | |]; try exact Hstep.
  destruct Hstep as (m' & Hm' & Hi'). apply (IH m' st' Hi'). lia.
Qed.

Section Dec.
Variable c : lcfg.
Hypothesis Hwf : wf_lcfg c.
Variable dbg : bool.
Variables lo hi : Z.
Variable nl : Z -> N.
Variable fw : N.
Hypothesis Hlo : in_sym c lo.
Hypothesis Hhi : in_sym c hi.
Hypothesis Hlt : lo < hi.
Hypothesis Hfw : Z.of_N fw + (hi - lo) <= 2 ^ Z.of_N (PR c) - 1.
Hypothesis Hbd : forall x, lo < x <= hi -> (nl x <= fw)%N.
Variable q : N.
Hypothesis Hq : (q < 2 ^ PR c)%N.
Variable ifuel : nat.
Hypothesis Hif : (Z.to_nat (kmax c) < ifuel)%nat.

Notation L := (LN c lo hi nl).
Notation R := (RM c lo hi nl).
Notation km := (kmax c).

Let LcumE : forall s, lo < s <= hi -> lcum c dbg lo nl s = Some (L s) :=
  lcum_exact c Hwf dbg lo hi nl fw Hlo Hhi Hlt Hfw Hbd.
Let RcumE : forall s, lo <= s < hi -> rcum c dbg lo nl s = Some (L (s + 1)) :=
  rcum_exact c Hwf dbg lo hi nl fw Hlo Hhi Hlt Hfw Hbd.
Let RMmid : forall s, lo <= s < hi -> R s = L (s + 1) := RM_mid c Hwf lo hi nl fw Hlt Hfw Hbd.
Let RMhi : R hi = wpow2 c (PR c) := RM_hi c Hwf lo hi nl fw Hlt Hbd.
Let Ltop : L (hi + 1) = (2 ^ PR c)%N := LN_top c lo hi nl fw Hlt Hbd.
Let Llo : L lo = 0%N := LN_lo c lo hi nl.
Let Lmidb : forall s, lo < s <= hi -> (1 <= L s <= 2 ^ PR c - 1)%N :=
  LN_mid_bound c lo hi nl fw Hlt Hfw Hbd.

Lemma L_congr a b : a = b -> L a = L b.
Proof. intros ->. reflexivity. Qed.

Lemma sym_in s : lo <= s <= hi -> in_sym c s.
Proof. generalize Hlo Hhi. unfold in_sym. lia. Qed.

Lemma eval_left s : lo <= s <= hi ->
  (if s =? lo then Some 0%N else lcum c dbg lo nl s) = Some (L s).
Proof.
  intros H. destruct (Z.eqb_spec s lo) as [->|]; [rewrite Llo; reflexivity|].
  apply LcumE. lia.
Qed.

Lemma eval_right s : lo <= s <= hi ->
  (if s =? hi then Some (wpow2 c (PR c)) else rcum c dbg lo nl s) = Some (R s).
Proof.
  intros H. destruct (Z.eqb_spec s hi) as [->|]; [rewrite RMhi; reflexivity|].
  rewrite RcumE by lia. rewrite RMmid by lia. reflexivity.
Qed.

(* the test of the upward search decides  q < (true right end of s) *)
Lemma up_test s : lo <= s <= hi ->
  ((q <? R s) || (R s =? 0))%N = (q <? L (s + 1))%N.
Proof.
  intros H. destruct (Z.eq_dec s hi) as [->|Hne].
  - rewrite Ltop. destruct (N.ltb_spec q (2 ^ PR c)); [|lia].
    unfold RM. rewrite Ltop. pose proof (pow_P_le_PB c Hwf) as Hp.
    destruct (N.eq_dec (2 ^ PR c) (pmod c)) as [He|He].
    + rewrite He, N.mod_same by (pose proof (pmod_pos c); lia).
      cbn. apply Bool.orb_true_r.
    + rewrite N.mod_small by lia. destruct (N.ltb_spec q (2 ^ PR c)); [reflexivity|lia].
  - rewrite RMmid by lia. pose proof (Lmidb (s + 1) ltac:(lia)).
    destruct (N.eqb_spec (L (s + 1)) 0); [lia|]. apply Bool.orb_false_r.
Qed.

(* the manual check before the panic!() of the upward search always passes *)
Lemma no_panic_hi : (wpow2 c (PR c) =? L hi)%N = false.
Proof.
  rewrite <- RMhi. unfold RM. rewrite Ltop. pose proof (Lmidb hi ltac:(lia)) as Hb.
  pose proof (pow_P_le_PB c Hwf) as Hp.
  destruct (N.eq_dec (2 ^ PR c) (pmod c)) as [He|He].
  - rewrite He, N.mod_same by (pose proof (pmod_pos c); lia).
    destruct (N.eqb_spec 0 (L hi)); [lia|reflexivity].
  - rewrite N.mod_small by lia. destruct (N.eqb_spec (2 ^ PR c) (L hi)); [lia|reflexivity].
Qed.

(* a correct final state of either loop *)
Definition good (r : sres) : Prop :=
  match r with
  | Ret s l rr => lo <= s <= hi /\ l = L s /\ rr = R s /\ (L s <= q < L (s + 1))%N
  | _ => False
  end.

(* ---- measure of the exponential phase.  d = distance left to the end of the
   support, step = 2^k.  Either the step can still grow (at most km - k
   doublings, then at most cc <= 4 moves at the capped step) or it has been
   shrunk below d once, after which it halves at least once per iteration. *)
Definition nf_meas (d k m : Z) : Prop :=
  (exists cc, 1 <= cc <= 4 /\ d < cc * 2 ^ km /\ m = (km - k) + cc + km + 4)
  \/ (d < 2 ^ k /\ m = k + 3).

Lemma nf_meas_lb d k m : 0 <= k <= km -> nf_meas d k m -> k + 3 <= m.
Proof. intros Hk [(cc & Hc & _ & ->)|(_ & ->)]; lia. Qed.

Lemma nf_meas_init d : 0 <= d < smod c -> nf_meas d 0 (2 * km + 8).
Proof.
  intros H. left. exists 4. pose proof (smod_kmax c Hwf). split; [lia|]. split; [lia|]. lia.
Qed.

Lemma nf_meas_step d k m j :
  0 <= k <= km -> nf_meas d k m ->
  0 <= j <= (if k <? km then k + 1 else k) -> 2 ^ j <= d ->
  (j < (if k <? km then k + 1 else k) -> d < 2 ^ (j + 1)) ->
  exists m', 0 <= m' < m /\ nf_meas (d - 2 ^ j) j m'.
Proof.
  intros Hk Hm Hj Hd Hmax.
  assert (Hj1 : 2 ^ (j + 1) = 2 * 2 ^ j).
  { replace (j + 1) with (Z.succ j) by lia. apply Z.pow_succ_r. lia. }
  pose proof (pow2_ge1 j ltac:(lia)) as Hjp.
  set (k2 := if k <? km then k + 1 else k) in *.
  assert (Hk2 : k <= k2 <= km /\ (k < km -> k2 = k + 1) /\ (km <= k -> k2 = k))
    by (unfold k2; destruct (Z.ltb_spec k km); lia).
  clearbody k2.
  destruct Hm as [(cc & Hc & Hdc & ->)|(Hdk & ->)].
  - destruct (Z.eq_dec j k2) as [Hjk|Hjk].
    + (* no shrinking *)
      destruct (Z.lt_ge_cases k km) as [Hlt'|Hge].
      * exists ((km - j) + cc + km + 4). split; [lia|].
        left. exists cc. split; [lia|]. split; [lia|reflexivity].
      * assert (Hjm : j = km) by lia. rewrite Hjm in *.
        assert (Hpk : 1 <= 2 ^ km) by exact Hjp.
        assert (2 <= cc) by nia.
        exists ((km - km) + (cc - 1) + km + 4). split; [lia|].
        left. exists (cc - 1). split; [lia|]. split; [nia|reflexivity].
    + exists (j + 3). split; [lia|]. right. split; [|reflexivity].
      specialize (Hmax ltac:(lia)). lia.
  - assert (j < k) by (apply pow2_mono_lt; lia).
    exists (j + 3). split; [lia|]. right. split; [|reflexivity].
    specialize (Hmax ltac:(lia)). lia.
Qed.

(* ------------------------------------------------------------ downward loop *)
Inductive dinv : Z -> sst -> Prop :=
| D_nf st k m b :                     (* exponential phase *)
    s_found st = false -> s_step st = 2 ^ k -> 0 <= k <= km ->
    lo <= s_sym st -> b = s_sym st + 2 ^ k -> b <= hi ->
    s_left st = L b -> (q < L b)%N ->
    nf_meas (s_sym st - lo) k m -> dinv m st
| D_bin st k m a b :                  (* binary phase: a crossing lies in [a, b) *)
    s_found st = true -> s_step st = 2 ^ k -> 0 <= k <= km ->
    a = s_sym st - 2 ^ k -> b = s_sym st + 2 ^ k -> lo <= a -> b <= hi ->
    (L a <= q < L b)%N -> m = k + 2 -> dinv m st
| D_fin st m b :                      (* last probe: the crossing is at s_sym *)
    s_found st = true -> s_step st = 1 ->
    lo <= s_sym st -> b = s_sym st + 1 -> b <= hi ->
    s_left st = L b -> (L (s_sym st) <= q < L b)%N -> m = 1 -> dinv m st.

Lemma down_step_ok m st : dinv m st ->
  match down_step c dbg lo hi nl q ifuel st with
  | Cont st' => exists m', 0 <= m' < m /\ dinv m' st'
  | r => good r
  end.
Proof.
  intros H. unfold down_step.
  destruct H as [st k m b Hfd Hst Hk Hsy Hb Hbh Hlf Hq1 Hm
                |st k m a b Hfd Hst Hk Ha Hb Hal Hbh Hq1 Hm
                |st m b Hfd Hst Hsy Hb Hbh Hlf Hq1 Hm];
    rewrite ?Hfd, ?Hst; set (sy := s_sym st) in *.
  - (* exponential phase *)
    rewrite Hlf. rewrite eval_left by (pose proof (pow2_ge1 k ltac:(lia)); lia).
    destruct (pow2_cases k ltac:(lia)) as [(Hk0 & He)|(Hk1 & He & Hh)].
    + (* step = 1 *)
      destruct (Z.leb_spec (2 ^ k) 1); [|lia].
      destruct (Z.eqb_spec sy lo) as [Heq|Hne]; cbn [andb].
      * cbn [good]. split; [lia|]. split; [rewrite Heq, Llo; reflexivity|].
        split; [rewrite RMmid by lia; apply L_congr; lia|].
        rewrite Heq, Llo. rewrite (L_congr (lo + 1) b) by lia. lia.
      * destruct (N.leb_spec (L sy) q) as [Hle|Hgt].
        -- destruct (Z.eqb_spec sy hi); [lia|]. rewrite RcumE by lia.
           cbn [good]. split; [lia|]. split; [reflexivity|].
           split; [symmetry; apply RMmid; lia|]. rewrite (L_congr (sy + 1) b) by lia. lia.
        -- (* still too high: double the step and move down *)
           rewrite (dbl_step_spec c Hwf k Hk).
           set (k2 := if k <? km then k + 1 else k).
           assert (Hk2 : 0 <= k2 <= km) by (unfold k2; destruct (Z.ltb_spec k km); lia).
           destruct (down_inner_spec c Hwf lo hi Hlo Hhi ifuel sy k2 Hk2 ltac:(lia) ltac:(lia) ltac:(lia))
             as (j & Hj & -> & Hj1 & Hj2).
           destruct (nf_meas_step (sy - lo) k m j Hk Hm Hj ltac:(lia)
                      ltac:(intros; specialize (Hj2 ltac:(assumption)); lia)) as (m' & Hm' & Hnm).
           exists m'. split; [exact Hm'|].
           apply (D_nf _ j m' sy); cbn [s_sym s_step s_left s_found]; try reflexivity; try lia.
           replace (sy - 2 ^ j - lo) with (sy - lo - 2 ^ j) by lia. exact Hnm.
    + (* step > 1 *)
      destruct (Z.leb_spec (2 ^ k) 1); [lia|]. rewrite Bool.andb_false_r.
      destruct (N.leb_spec (L sy) q) as [Hle|Hgt].
      * (* lower bound found: binary phase *)
        rewrite shr1_pow2 by lia. unfold caddS. rewrite chkS_in by (apply sym_in; lia).
        pose proof (nf_meas_lb _ _ _ Hk Hm).
        exists (k - 1 + 2). split; [lia|].
        apply (D_bin _ (k - 1) _ sy b); cbn [s_sym s_step s_left s_found]; try reflexivity; lia.
      * rewrite (dbl_step_spec c Hwf k Hk).
        set (k2 := if k <? km then k + 1 else k).
        assert (Hk2 : 0 <= k2 <= km) by (unfold k2; destruct (Z.ltb_spec k km); lia).
        assert (Hsylo : lo < sy).
        { destruct (Z.eq_dec sy lo) as [Heq|]; [|lia]. rewrite Heq, Llo in Hgt. lia. }
        destruct (down_inner_spec c Hwf lo hi Hlo Hhi ifuel sy k2 Hk2 Hsylo ltac:(lia) ltac:(lia))
          as (j & Hj & -> & Hj1 & Hj2).
        destruct (nf_meas_step (sy - lo) k m j Hk Hm Hj ltac:(lia)
                      ltac:(intros; specialize (Hj2 ltac:(assumption)); lia)) as (m' & Hm' & Hnm).
        exists m'. split; [exact Hm'|].
        apply (D_nf _ j m' sy); cbn [s_sym s_step s_left s_found]; try reflexivity; try lia.
        replace (sy - 2 ^ j - lo) with (sy - lo - 2 ^ j) by lia. exact Hnm.
  - (* binary phase *)
    pose proof (pow2_ge1 k ltac:(lia)) as Hp.
    destruct (Z.eqb_spec sy lo); [lia|]. cbn [andb].
    rewrite LcumE by lia.
    destruct (pow2_cases k ltac:(lia)) as [(Hk0 & He)|(Hk1 & He & Hh)].
    + destruct (Z.leb_spec (2 ^ k) 1); [|lia]. destruct (Z.ltb_spec 1 (2 ^ k)); [lia|].
      destruct (N.leb_spec (L sy) q) as [Hle|Hgt].
      * destruct (Z.eqb_spec sy hi); [lia|]. rewrite RcumE by lia.
        cbn [good]. split; [lia|]. split; [reflexivity|].
        split; [symmetry; apply RMmid; lia|]. rewrite (L_congr (sy + 1) b) by lia. lia.
      * unfold csubS. rewrite chkS_in by (apply sym_in; lia).
        exists 1. split; [lia|].
        apply (D_fin _ _ sy); cbn [s_sym s_step s_left s_found]; try reflexivity; try lia.
        rewrite (L_congr (sy - 2 ^ k) a) by lia. lia.
    + destruct (Z.leb_spec (2 ^ k) 1); [lia|]. destruct (Z.ltb_spec 1 (2 ^ k)); [|lia].
      rewrite shr1_pow2 by lia.
      destruct (N.leb_spec (L sy) q) as [Hle|Hgt].
      * unfold caddS. rewrite chkS_in by (apply sym_in; lia).
        exists (k - 1 + 2). split; [lia|].
        apply (D_bin _ (k - 1) _ sy b); cbn [s_sym s_step s_left s_found]; try reflexivity; lia.
      * unfold csubS. rewrite chkS_in by (apply sym_in; lia).
        exists (k - 1 + 2). split; [lia|].
        apply (D_bin _ (k - 1) _ a sy); cbn [s_sym s_step s_left s_found]; try reflexivity; lia.
  - (* last probe *)
    destruct (Z.leb_spec 1 1); [|lia].
    destruct (Z.eqb_spec sy lo) as [Heq|Hne]; cbn [andb].
    + rewrite Hlf. cbn [good]. split; [lia|]. split; [rewrite Heq, Llo; reflexivity|].
      split; [rewrite RMmid by lia; apply L_congr; lia|].
      rewrite (L_congr (sy + 1) b) by lia. lia.
    + rewrite LcumE by lia. destruct (N.leb_spec (L sy) q) as [Hle|Hgt]; [|lia].
      destruct (Z.eqb_spec sy hi); [lia|]. rewrite RcumE by lia.
      cbn [good]. split; [lia|]. split; [reflexivity|].
      split; [symmetry; apply RMmid; lia|]. rewrite (L_congr (sy + 1) b) by lia. lia.
Qed.

(* -------------------------------------------------------------- upward loop *)
Inductive uinv : Z -> sst -> Prop :=
| U_nf st k m a :
    s_found st = false -> s_step st = 2 ^ k -> 0 <= k <= km ->
    a = s_sym st - 2 ^ k + 1 -> lo <= a -> s_sym st <= hi ->
    (L a <= q)%N -> nf_meas (hi - s_sym st) k m -> uinv m st
| U_bin st k m a b :
    s_found st = true -> s_step st = 2 ^ k -> 0 <= k <= km ->
    a = s_sym st - 2 ^ k + 1 -> b = s_sym st + 2 ^ k + 1 -> lo <= a -> b <= hi + 1 ->
    (L a <= q < L b)%N -> m = k + 2 -> uinv m st
| U_fin st m :
    s_found st = true -> s_step st = 1 ->
    lo <= s_sym st <= hi -> (L (s_sym st) <= q < L (s_sym st + 1))%N -> m = 1 -> uinv m st.

Lemma up_step_ok m st : uinv m st ->
  match up_step c dbg lo hi nl q ifuel st with
  | Cont st' => exists m', 0 <= m' < m /\ uinv m' st'
  | r => good r
  end.
Proof.
  intros H. unfold up_step.
  destruct H as [st k m a Hfd Hst Hk Ha Hal Hsh Hq1 Hm
                |st k m a b Hfd Hst Hk Ha Hb Hal Hbh Hq1 Hm
                |st m Hfd Hst Hsy Hq1 Hm];
    rewrite ?Hfd, ?Hst; set (sy := s_sym st) in *.
  - (* exponential phase *)
    pose proof (pow2_ge1 k ltac:(lia)) as Hp.
    assert (Hin : lo <= sy <= hi) by lia.
    rewrite (eval_right sy Hin), (eval_left sy Hin), (up_test sy Hin).
    destruct (pow2_cases k ltac:(lia)) as [(Hk0 & He)|(Hk1 & He & Hh)].
    + destruct (Z.leb_spec (2 ^ k) 1); [|lia].
      destruct (Z.eqb_spec sy hi) as [Heq|Hne]; cbn [andb].
      * rewrite LcumE by lia. rewrite Heq, no_panic_hi.
        cbn [good]. split; [lia|]. split; [reflexivity|]. split; [symmetry; exact RMhi|].
        rewrite Ltop. rewrite (L_congr hi a) by lia. lia.
      * destruct (N.ltb_spec q (L (sy + 1))) as [Hlt'|Hge].
        -- rewrite (L_congr sy a) by lia.
           destruct (N.leb_spec (L a) q); [|lia]. cbn [orb].
           cbn [good]. split; [lia|]. split; [apply L_congr; lia|]. split; [reflexivity|].
           rewrite (L_congr sy a) by lia. lia.
        -- rewrite (dbl_step_spec c Hwf k Hk).
           set (k2 := if k <? km then k + 1 else k).
           assert (Hk2 : 0 <= k2 <= km) by (unfold k2; destruct (Z.ltb_spec k km); lia).
           destruct (up_inner_spec c Hwf lo hi Hlo Hhi ifuel sy k2 Hk2 ltac:(lia) ltac:(lia) ltac:(lia))
             as (j & Hj & -> & Hj1 & Hj2).
           destruct (nf_meas_step (hi - sy) k m j Hk Hm Hj ltac:(lia) ltac:(intros; specialize (Hj2 ltac:(assumption)); lia))
             as (m' & Hm' & Hnm).
           exists m'. split; [exact Hm'|].
           apply (U_nf _ j m' (sy + 1)); cbn [s_sym s_step s_left s_found]; try reflexivity; try lia.
           replace (hi - (sy + 2 ^ j)) with (hi - sy - 2 ^ j) by lia. exact Hnm.
    + destruct (Z.leb_spec (2 ^ k) 1); [lia|]. rewrite Bool.andb_false_r.
      destruct (N.ltb_spec q (L (sy + 1))) as [Hlt'|Hge].
      * rewrite shr1_pow2 by lia. unfold csubS. rewrite chkS_in by (apply sym_in; lia).
        pose proof (nf_meas_lb _ _ _ Hk Hm).
        exists (k - 1 + 2). split; [lia|].
        apply (U_bin _ (k - 1) _ a (sy + 1)); cbn [s_sym s_step s_left s_found]; try reflexivity; lia.
      * assert (Hsyhi : sy < hi).
        { destruct (Z.eq_dec sy hi) as [Heq|]; [|lia]. rewrite Heq, Ltop in Hge. lia. }
        rewrite (dbl_step_spec c Hwf k Hk).
        set (k2 := if k <? km then k + 1 else k).
        assert (Hk2 : 0 <= k2 <= km) by (unfold k2; destruct (Z.ltb_spec k km); lia).
        destruct (up_inner_spec c Hwf lo hi Hlo Hhi ifuel sy k2 Hk2 ltac:(lia) Hsyhi ltac:(lia))
          as (j & Hj & -> & Hj1 & Hj2).
        destruct (nf_meas_step (hi - sy) k m j Hk Hm Hj ltac:(lia) ltac:(intros; specialize (Hj2 ltac:(assumption)); lia))
          as (m' & Hm' & Hnm).
        exists m'. split; [exact Hm'|].
        apply (U_nf _ j m' (sy + 1)); cbn [s_sym s_step s_left s_found]; try reflexivity; try lia.
        replace (hi - (sy + 2 ^ j)) with (hi - sy - 2 ^ j) by lia. exact Hnm.
  - (* binary phase *)
    pose proof (pow2_ge1 k ltac:(lia)) as Hp.
    assert (Hin : lo <= sy <= hi) by lia.
    destruct (Z.eqb_spec sy hi); [lia|]. cbn [andb].
    rewrite RcumE by lia.
    assert (Ht : ((q <? L (sy + 1)) || (L (sy + 1) =? 0))%N = (q <? L (sy + 1))%N).
    { pose proof (up_test sy Hin) as Ht0. rewrite RMmid in Ht0 by lia. exact Ht0. }
    rewrite Ht. rewrite (eval_left sy Hin).
    destruct (pow2_cases k ltac:(lia)) as [(Hk0 & He)|(Hk1 & He & Hh)].
    + destruct (Z.leb_spec (2 ^ k) 1); [|lia]. destruct (Z.ltb_spec 1 (2 ^ k)); [lia|].
      destruct (N.ltb_spec q (L (sy + 1))) as [Hlt'|Hge].
      * rewrite (L_congr sy a) by lia.
        destruct (N.leb_spec (L a) q); [|lia]. cbn [orb].
        cbn [good]. split; [lia|]. split; [apply L_congr; lia|]. split; [symmetry; apply RMmid; lia|].
        rewrite (L_congr sy a) by lia. lia.
      * unfold caddS. rewrite chkS_in by (apply sym_in; lia).
        exists 1. split; [lia|].
        apply U_fin; cbn [s_sym s_step s_left s_found]; try reflexivity; try lia.
        rewrite (L_congr (sy + 2 ^ k + 1) b) by lia. rewrite (L_congr (sy + 2 ^ k) (sy + 1)) by lia. lia.
    + destruct (Z.leb_spec (2 ^ k) 1); [lia|]. destruct (Z.ltb_spec 1 (2 ^ k)); [|lia].
      rewrite shr1_pow2 by lia.
      destruct (N.ltb_spec q (L (sy + 1))) as [Hlt'|Hge].
      * unfold csubS. rewrite chkS_in by (apply sym_in; lia).
        exists (k - 1 + 2). split; [lia|].
        apply (U_bin _ (k - 1) _ a (sy + 1)); cbn [s_sym s_step s_left s_found]; try reflexivity; lia.
      * unfold caddS. rewrite chkS_in by (apply sym_in; lia).
        exists (k - 1 + 2). split; [lia|].
        apply (U_bin _ (k - 1) _ (sy + 1) b); cbn [s_sym s_step s_left s_found]; try reflexivity; lia.
  - (* last probe *)
    destruct (Z.leb_spec 1 1); [|lia].
    destruct (Z.eqb_spec sy hi) as [Heq|Hne]; cbn [andb].
    + rewrite LcumE by lia. rewrite Heq, no_panic_hi.
      cbn [good]. split; [lia|]. split; [reflexivity|]. split; [symmetry; exact RMhi|].
      rewrite (L_congr hi sy) by lia. rewrite (L_congr (hi + 1) (sy + 1)) by lia. exact Hq1.
    + assert (Hin : lo <= sy <= hi) by lia.
      rewrite RcumE by lia.
      assert (Ht : ((q <? L (sy + 1)) || (L (sy + 1) =? 0))%N = (q <? L (sy + 1))%N).
      { pose proof (up_test sy Hin) as Ht0. rewrite RMmid in Ht0 by lia. exact Ht0. }
      rewrite Ht. rewrite (eval_left sy Hin).
      destruct (N.ltb_spec q (L (sy + 1))); [|lia].
      destruct (N.leb_spec (L sy) q); [|lia]. cbn [orb].
      cbn [good]. split; [lia|]. split; [reflexivity|]. split; [symmetry; apply RMmid; lia|]. lia.
Qed.

(* ------------------------------------------------------------ the whole search *)
Lemma good_not_cont st : ~ good (Cont st).
Proof. cbn. tauto. Qed.

Lemma finish_good r : good r ->
  exists s, lo <= s <= hi /\ (L s <= q < L (s + 1))%N
            /\ finish c r = DOk s (L s) (L (s + 1) - L s).
Proof.
  destruct r as [st|s l rr| |]; cbn [good]; try tauto.
  intros (Hs & -> & -> & Hq1). exists s. split; [exact Hs|]. split; [exact Hq1|].
  cbn [finish].
  rewrite (prob_exact c Hwf lo hi nl fw Hlt Hfw Hbd s Hs) by lia.
  destruct (N.eqb_spec (L (s + 1) - L s) 0); [lia|reflexivity].
Qed.

(* quantile_function: for EVERY hint of the symbol type *)
Theorem lq_dec_correct fuel hint :
  in_sym c hint -> 2 * km + 8 < Z.of_nat fuel ->
  exists s, lo <= s <= hi /\ (L s <= q < L (s + 1))%N
            /\ lq_dec c dbg lo hi nl q ifuel fuel hint = DOk s (L s) (L (s + 1) - L s).
Proof.
  intros Hh Hfuel. unfold lq_dec.
  rewrite (maxprob_eq c Hwf). destruct (N.ltb_spec (2 ^ PR c - 1) q); [lia|].
  pose proof (kmax_nonneg c Hwf) as Hkm.
  assert (Hsm : hi - lo < smod c) by (generalize Hlo Hhi; unfold in_sym, smax; lia).
  destruct (Z.leb_spec hint lo) as [Hle|Hgt].
  - (* left cut-off tail: start the upward search at lo *)
    destruct (N.ltb_spec q 0); [lia|].
    apply finish_good.
    apply (sloop_ok _ uinv good up_step_ok good_not_cont fuel (2 * km + 8)); [|lia].
    apply (U_nf _ 0 _ lo); cbn [s_sym s_step s_left s_found]; try reflexivity; try lia.
    apply nf_meas_init. lia.
  - set (sy := if hi <? hint then hi else hint).
    assert (Hsy : lo < sy <= hi) by (unfold sy; destruct (Z.ltb_spec hi hint); lia).
    rewrite LcumE by exact Hsy.
    destruct (N.ltb_spec q (L sy)) as [Hhigh|Hlow].
    + (* guess too high: downward search *)
      unfold csubS. rewrite chkS_in by (apply sym_in; lia).
      apply finish_good.
      apply (sloop_ok _ dinv good down_step_ok good_not_cont fuel (2 * km + 8)); [|lia].
      apply (D_nf _ 0 _ sy); cbn [s_sym s_step s_left s_found]; try reflexivity; try lia.
      apply nf_meas_init. lia.
    + apply finish_good.
      apply (sloop_ok _ uinv good up_step_ok good_not_cont fuel (2 * km + 8)); [|lia].
      apply (U_nf _ 0 _ sy); cbn [s_sym s_step s_left s_found]; try reflexivity; try lia.
      apply nf_meas_init. lia.
Qed.

End Dec.
