//! Family `diag` (C18, model diagnostics): the default methods of `IterableEntropyModel`
//! (`floating_point_symbol_table`, `entropy_base2`, `cross_entropy_base2`,
//! `reverse_cross_entropy_base2`, `kl_divergence_base2`, `reverse_kl_divergence_base2`) on
//! `ContiguousCategoricalEntropyModel`s built from fixed-point tables.
//!
//! case   = [inst, n, q_1 .. q_n, nvec, (mask, x_1 .. x_n)*]      x_i = f64 bit patterns
//! result = [-1] if the constructor refuses the table, else
//!          EXACT part (compared bit for bit with the Coq model Corr/Diag_run.v):
//!            [n] ++ [sym_i, bits64(cum_i/2^P), bits64(q_i/2^P)]_i
//!                ++ [bits32(cum_i/2^P), bits32(q_i/2^P)]_i        (instances with an f32 view)
//!                ++ [bits64(EncoderModel::floating_point_probability(s))] for s = 0, n-1, n
//!          APPROXIMATE part (judged by the oracle in lib/fam_diag.py):
//!            [bits64(entropy)] ++ per vector, for each bit set in mask (1 = cross entropy,
//!            2 = reverse cross entropy, 4 = KL, 8 = reverse KL) the f64 bit pattern.
//! inst = type instance + 100 * kind; kind 0 contiguous model, 1 its to_generic_decoder_model(),
//!   2 its as_view(), 3 UniformModel::new(n) (the table must be the uniform one, else [-2])
//! type instance: 0 = (u32, 24)  1 = (u16, 12)  2 = (u8, 8)  3 = (u32, 32)  4 = (u16, 16)  5 = (u8, 1)
use crate::common::*;
use constriction::stream::model::{
    ContiguousCategoricalEntropyModel, EncoderModel, IterableEntropyModel, UniformModel,
};

/// NaN payloads are not specified; every NaN is reported as the canonical quiet NaN.
fn bits(x: f64) -> Int {
    if x.is_nan() {
        0x7FF8_0000_0000_0000u64 as Int
    } else {
        x.to_bits() as Int
    }
}

macro_rules! f32_view {
    (yes, $model:ident, $out:ident) => {
        for (_s, c, q) in $model.floating_point_symbol_table::<f32>() {
            $out.push(c.to_bits() as Int);
            $out.push(q.to_bits() as Int);
        }
    };
    (no, $model:ident, $out:ident) => {};
}

macro_rules! diag_impl {
    ($name:ident, $prob:ty, $p:expr, $f32:tt) => {
        fn $name(kind: Int, qs: &[Int], vecs: &[(Int, Vec<f64>)], out: &mut Vec<Int>) {
            let probs: Vec<$prob> = qs
                .iter()
                .map(|&q| <$prob>::try_from(q).expect("probability does not fit the Probability type"))
                .collect();
            let base = match ContiguousCategoricalEntropyModel::<$prob, Vec<$prob>, $p>::
                from_nonzero_fixed_point_probabilities(&probs, false)
            {
                Ok(m) => m,
                Err(()) => {
                    out.push(-1);
                    return;
                }
            };
            // the three single-symbol views come from the encoder side of the contiguous model
            let fpp: Vec<Int> = [0usize, probs.len() - 1, probs.len()]
                .iter()
                .map(|&s| base.floating_point_probability::<f64>(s).to_bits() as Int)
                .collect();

            fn emit<'m, M>(model: &'m M, fpp: &[Int], vecs: &[(Int, Vec<f64>)], out: &mut Vec<Int>)
            where
                M: IterableEntropyModel<'m, $p, Symbol = usize, Probability = $prob>,
            {
                let tbl: Vec<(usize, f64, f64)> = model.floating_point_symbol_table::<f64>().collect();
                out.push(tbl.len() as Int);
                for (s, c, q) in tbl {
                    out.push(s as Int);
                    out.push(c.to_bits() as Int);
                    out.push(q.to_bits() as Int);
                }
                f32_view!($f32, model, out);
                out.extend(fpp.iter().cloned());
                out.push(bits(model.entropy_base2::<f64>()));
                for (mask, p) in vecs {
                    if mask & 1 != 0 {
                        out.push(bits(model.cross_entropy_base2::<f64>(p.iter().cloned())));
                    }
                    if mask & 2 != 0 {
                        out.push(bits(model.reverse_cross_entropy_base2::<f64>(p.iter().cloned())));
                    }
                    if mask & 4 != 0 {
                        out.push(bits(model.kl_divergence_base2::<f64>(p.iter().cloned())));
                    }
                    if mask & 8 != 0 {
                        out.push(bits(model.reverse_kl_divergence_base2::<f64>(p.iter().cloned())));
                    }
                }
            }

            // kind: which representation of the SAME table the diagnostics are asked of (every
            // model type may override the trait's default methods)
            match kind {
                0 => emit(&base, &fpp, vecs, out),
                1 => emit(&base.to_generic_decoder_model(), &fpp, vecs, out),
                2 => emit(&base.as_view(), &fpp, vecs, out),
                4 => {
                    // through the blanket impl for references: M = &Model
                    let r = &base;
                    emit(&r, &fpp, vecs, out)
                }
                _ => {
                    // UniformModel over `n` symbols: the case's table must be the uniform one
                    let u = UniformModel::<$prob, $p>::new(probs.len());
                    let same = u
                        .symbol_table()
                        .map(|(_, _, q)| q.get())
                        .eq(probs.iter().cloned());
                    if !same {
                        out.push(-2);
                        return;
                    }
                    emit(&u, &fpp, vecs, out)
                }
            }
        }
    };
}

diag_impl!(diag_u32_24, u32, 24, no);
diag_impl!(diag_u16_12, u16, 12, yes);
diag_impl!(diag_u8_8, u8, 8, yes);
diag_impl!(diag_u32_32, u32, 32, no);
diag_impl!(diag_u16_16, u16, 16, yes);
diag_impl!(diag_u8_1, u8, 1, yes);

pub fn run(r: &mut Reader, out: &mut Vec<Int>) {
    let inst_kind = r.next();
    let (inst, kind) = (inst_kind % 100, inst_kind / 100);
    let qs = r.list();
    let nvec = r.us();
    let mut vecs = Vec::with_capacity(nvec);
    for _ in 0..nvec {
        let mask = r.next();
        let p: Vec<f64> = (0..qs.len()).map(|_| f64::from_bits(r.u())).collect();
        vecs.push((mask, p));
    }
    match inst {
        0 => diag_u32_24(kind, &qs, &vecs, out),
        1 => diag_u16_12(kind, &qs, &vecs, out),
        2 => diag_u8_8(kind, &qs, &vecs, out),
        3 => diag_u32_32(kind, &qs, &vecs, out),
        4 => diag_u16_16(kind, &qs, &vecs, out),
        _ => diag_u8_1(kind, &qs, &vecs, out),
    }
}
