"""Generators for explicit entropy-model tables and type instances (shared by coder families)."""

# (WordBits, StateBits, ProbBits) instances compiled into the harness
ANS_MENU = [(8, 16, 8), (8, 32, 8), (8, 64, 8), (16, 32, 16), (16, 32, 8), (16, 64, 16),
            (32, 64, 32), (32, 64, 16)]
# range coder: StateBits must be a multiple of WordBits
RANGE_MENU = [(8, 16, 8), (8, 32, 8), (8, 64, 8), (16, 32, 16), (16, 32, 8), (16, 64, 16),
              (32, 64, 32), (32, 64, 16)]

PRECISIONS = {
    8: [1, 2, 3, 4, 5, 6, 7, 8],
    16: list(range(1, 17)),
    32: [1, 2, 7, 8, 12, 16, 23, 24, 25, 31, 32],
}


def pick_precision(rng, pb, wb=None, sb=None):
    """PRECISION <= ProbBits (<= WordBits); extremes are over-weighted."""
    ps = [p for p in PRECISIONS[pb] if (wb is None or p <= wb)]
    r = rng.random()
    if r < 0.25:
        return ps[-1]
    if r < 0.35:
        return ps[0]
    if r < 0.45 and len(ps) > 1:
        return ps[-2]
    return rng.choice(ps)


def gen_parts(rng, total, n):
    """n positive integers summing to total; extreme shapes over-weighted."""
    assert 2 <= n <= total
    style = rng.random()
    if style < 0.15:
        # one symbol takes almost everything, the others 1 quantum each
        parts = [1] * n
        parts[rng.randrange(n)] = total - (n - 1)
        return parts
    if style < 0.25 and n >= 2:
        # all equal-ish
        base = total // n
        parts = [base] * n
        parts[-1] += total - base * n
        if rng.random() < 0.5:
            parts.reverse()
        return parts
    cuts = set()
    while len(cuts) < n - 1:
        if total - 1 <= 4 * n:
            cuts = set(rng.sample(range(1, total), n - 1))
            break
        r = rng.random()
        if r < 0.2:
            cuts.add(rng.choice([1, total - 1, 2, total - 2]) if total > 4 else rng.randrange(1, total))
        else:
            cuts.add(rng.randrange(1, total))
    cs = [0] + sorted(cuts) + [total]
    return [cs[i + 1] - cs[i] for i in range(n)]


def gen_symbols(rng, n):
    style = rng.random()
    if style < 0.5:
        return list(range(n))
    if style < 0.8:
        base = rng.randrange(-50, 50)
        return [base + i for i in range(n)]
    return rng.sample(range(-1000, 1000), n)


def gen_table(rng, P, max_entries=8):
    total = 1 << P
    n = rng.randint(2, max(2, min(total, max_entries)))
    parts = gen_parts(rng, total, n)
    syms = gen_symbols(rng, n)
    t, c = [], 0
    for s, p in zip(syms, parts):
        t.append((s, c, p))
        c += p
    return t


def enc_models(models):
    """models: list of (P, table) -> flat ints"""
    out = [len(models)]
    for P, t in models:
        out += [P, len(t)]
        for s, c, p in t:
            out += [s, c, p]
    return out


def table_lookup(t, q):
    cur = t[0]
    for e in t[1:]:
        if e[1] <= q:
            cur = e
        else:
            break
    return cur
