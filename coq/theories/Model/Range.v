(* Model/Range.v -- machine-level model of RangeEncoder<Word, State, Vec<Word>> and
   RangeDecoder<Word, State, Cursor<Word, Vec<Word>>> (src/stream/queue.rs).
   Definitions only.

   Conventions
   * e_bulk : the head of the list is the LAST word written (= the END of the Vec);
     the compressed words in Vec order are [rev (e_bulk e)].
   * every Rust operator is written with the truncation the type imposes:
       a.wrapping_add(b)   ==> wadd SB a b       a.wrapping_sub(b) ==> wsub SB a b
       x << k (State)      ==> shl SB x k        (bits shifted out are dropped, no panic)
       x >> k              ==> shr x k
       x.as_() State->Word ==> trunc WB x        Word->Probability ==> trunc PB x
       word.into()         ==> identity (widening)
       a * b, a + b (plain operators) ==> checked: a distinct [Panic_*] result when the
       mathematical result does not fit the type (debug builds panic, release builds
       wrap; C20 forbids relying on the wrap).
   * [expect]/[unwrap]/[debug_assert] sites are distinct [Panic_*] results as well.
   * usize is 64 bit ([USZ]); it only matters for [num_inverted.wrapping_add(1)]. *)
From CV Require Export Base.Bits Model.EModel.
Open Scope N_scope.

Record rcfg := { rWB : N; rSB : N; rPB : N }.

(* generic_static_asserts! of queue.rs (State::BITS >= 2*Word::BITS, State::BITS %
   Word::BITS == 0) plus [Probability: Into<Word>] (ProbBits <= WordBits). *)
Definition wf_rcfg (c : rcfg) : Prop :=
  0 < rWB c /\ 2 * rWB c <= rSB c /\ rSB c mod rWB c = 0 /\ 0 < rPB c <= rWB c.

Definition wf_rcfgb (c : rcfg) : bool :=
  (0 <? rWB c) && (2 * rWB c <=? rSB c) && (rSB c mod rWB c =? 0) && (0 <? rPB c) && (rPB c <=? rWB c).

(* per-call static asserts: PRECISION > 0, State::BITS >= Word::BITS + PRECISION; and the
   EntropyModel contract PRECISION <= Probability::BITS *)
Definition prec_ok (c : rcfg) (P : N) : Prop := 0 < P /\ P <= rPB c.

Definition USZ : N := 64.

Definition wadd (sb a b : N) : N := trunc sb (a + b).
Definition wsub (sb a b : N) : N := trunc sb (a + (2 ^ sb - trunc sb b)).

Definition rthr (c : rcfg) : N := shl (rSB c) 1 (rSB c - rWB c).   (* State::one() << (S - W) *)
Definition smax (c : rcfg) : N := 2 ^ rSB c - 1.                   (* State::max_value() *)
Definition wmax (c : rcfg) : N := 2 ^ rWB c - 1.                   (* Word::max_value() *)
Definition words_per_state (c : rcfg) : N := rSB c / rWB c.        (* State::BITS / Word::BITS *)

Inductive situation := Normal | Inverted (n : N) (w : N).

Record renc := { e_bulk : list N; e_lower : N; e_range : N; e_sit : situation }.

Inductive rpanic :=
| Panic_mul_overflow        (* scale * probability / scale * left_cumulative does not fit State *)
| Panic_word_add_overflow   (* first_inverted_lower_word + Word::one() *)
| Panic_num_inverted        (* NonZeroUsize::new(n.wrapping_add(1)).expect(..) *)
| Panic_div_zero            (* (point - lower) / scale with scale == 0 *)
| Panic_expect_todo         (* decoder: (scale * probability).into_nonzero().expect("TODO") *)
| Panic_unseal_pop.         (* debug_assert!(word.is_some()) in unseal *)

Inductive rres (A : Type) :=
| ROk (a : A)
| RErrImpossible            (* Err(Frontend(ImpossibleSymbol)); the coder is untouched *)
| RErrInvalidData           (* Err(Frontend(InvalidData));      the coder is untouched *)
| RPanic (p : rpanic).
Arguments ROk {A} a.
Arguments RErrImpossible {A}.
Arguments RErrInvalidData {A}.
Arguments RPanic {A} p.

(* RangeCoderState::default / RangeEncoder::new *)
Definition renc_new (c : rcfg) : renc :=
  {| e_bulk := []; e_lower := 0; e_range := smax c; e_sit := Normal |}.

(* RangeEncoder::clear: bulk.clear(); state = default; situation = Normal (the last assignment
   was missing before the repair of finding F18) *)
Definition renc_clear (c : rcfg) (e : renc) : renc :=
  {| e_bulk := []; e_lower := 0; e_range := smax c; e_sit := Normal |}.

(* RangeCoderState::new(lower, range) : Err(()) iff range >> (S - W) == 0 *)
Definition rstate_ok (c : rcfg) (range : N) : bool :=
  negb (shr range (rSB c - rWB c) =? 0).

(* the words a resolved run of held-back words turns into, LAST word first:
   first_word followed by (n - 1) copies of consecutive_words *)
Definition flush_held (first cons n : N) (b : list N) : list N :=
  repeat cons (N.to_nat (n - 1)) ++ first :: b.

(* queue.rs:579-598: part 1 of the update, leaving the inverted situation.
   Result: the bulk and the situation afterwards. *)
Definition renc_part1 (c : rcfg) (e : renc) (new_lower r1 : N) : rres (list N * situation) :=
  match e_sit e with
  | Inverted n w =>
      if new_lower <? wadd (rSB c) new_lower r1 then
        if new_lower <? e_lower e then
          if 2 ^ rWB c <=? w + 1 then RPanic Panic_word_add_overflow
          else ROk (flush_held (w + 1) 0 n (e_bulk e), Normal)
        else ROk (flush_held w (wmax c) n (e_bulk e), Normal)
      else ROk (e_bulk e, Inverted n w)
  | Normal => ROk (e_bulk e, Normal)
  end.

(* queue.rs:600-634: part 2, renormalisation *)
Definition renc_part2 (c : rcfg) (b1 : list N) (sit1 : situation) (new_lower r1 : N) : rres renc :=
  let S := rSB c in
  let W := rWB c in
  if r1 <? rthr c then
    let range2 := shl S r1 W in
    let lower_word := trunc W (shr new_lower (S - W)) in
    let lower2 := shl S new_lower W in
    match sit1 with
    | Inverted n w =>
        let n' := trunc USZ (n + 1) in
        if n' =? 0 then RPanic Panic_num_inverted
        else ROk {| e_bulk := b1; e_lower := lower2; e_range := range2; e_sit := Inverted n' w |}
    | Normal =>
        if lower2 <? wadd S lower2 range2
        then ROk {| e_bulk := lower_word :: b1; e_lower := lower2; e_range := range2; e_sit := Normal |}
        else ROk {| e_bulk := b1; e_lower := lower2; e_range := range2; e_sit := Inverted 1 lower_word |}
    end
  else ROk {| e_bulk := b1; e_lower := new_lower; e_range := r1; e_sit := sit1 |}.

(* queue.rs:565-637, after the model lookup succeeded with (cum, p) *)
Definition renc_encode (c : rcfg) (P cum p : N) (e : renc) : rres renc :=
  let S := rSB c in
  let scale := shr (e_range e) P in
  let r1 := scale * p in
  if 2 ^ S <=? r1 then RPanic Panic_mul_overflow else
  if r1 =? 0 then RErrImpossible else            (* into_nonzero() failed; nothing assigned yet *)
  let sc := scale * cum in
  if 2 ^ S <=? sc then RPanic Panic_mul_overflow else
  let new_lower := wadd S (e_lower e) sc in
  match renc_part1 c e new_lower r1 with
  | ROk (b1, sit1) => renc_part2 c b1 sit1 new_lower r1
  | RErrImpossible => RErrImpossible
  | RErrInvalidData => RErrInvalidData
  | RPanic x => RPanic x
  end.

Definition renc_encode_sym (c : rcfg) (m : emodel) (s : Z) (e : renc) : rres renc :=
  match em_enc m s with
  | Some (cum, p) => renc_encode c (em_prec m) cum p e
  | None => RErrImpossible
  end.

(* seal (queue.rs:322-363): the new bulk *)
Definition seal_point (c : rcfg) (e : renc) : N :=
  wadd (rSB c) (e_lower e) (rthr c - 1).
Definition seal_point_word (c : rcfg) (e : renc) : N :=
  trunc (rWB c) (shr (seal_point c e) (rSB c - rWB c)).
Definition seal_upper_word (c : rcfg) (e : renc) : N :=
  trunc (rWB c) (shr (wadd (rSB c) (e_lower e) (e_range e)) (rSB c - rWB c)).

Definition renc_seal (c : rcfg) (e : renc) : rres (list N) :=
  if e_range e =? smax c then ROk (e_bulk e) else
  let point := seal_point c e in
  let held : rres (list N) :=
    match e_sit e with
    | Inverted n w =>
        if point <? e_lower e then
          if 2 ^ rWB c <=? w + 1 then RPanic Panic_word_add_overflow
          else ROk (flush_held (w + 1) 0 n (e_bulk e))
        else ROk (flush_held w (wmax c) n (e_bulk e))
    | Normal => ROk (e_bulk e)
    end in
  match held with
  | ROk b =>
      let pw := seal_point_word c e in
      let b1 := pw :: b in
      if seal_upper_word c e =? pw then ROk (0 :: b1) else ROk b1
  | other => other
  end.

(* num_seal_words (queue.rs:365-384) *)
Definition renc_num_seal_words (c : rcfg) (e : renc) : N :=
  if e_range e =? smax c then 0 else
  (if seal_upper_word c e =? seal_point_word c e then 2 else 1) +
  match e_sit e with Inverted n _ => n | Normal => 0 end.

(* into_compressed: the Vec that is returned *)
Definition renc_into_compressed (c : rcfg) (e : renc) : rres (list N) :=
  match renc_seal c e with
  | ROk b => ROk (rev b)
  | RErrImpossible => RErrImpossible
  | RErrInvalidData => RErrInvalidData
  | RPanic x => RPanic x
  end.

Definition renc_is_empty (c : rcfg) (e : renc) : bool :=
  (e_range e =? smax c) && match e_bulk e with [] => true | _ => false end.

Definition renc_num_words (c : rcfg) (e : renc) : N :=
  N.of_nat (length (e_bulk e)) + renc_num_seal_words c e.
Definition renc_num_bits (c : rcfg) (e : renc) : N := rWB c * renc_num_words c e.
Definition renc_maybe_full (e : renc) : bool := false.     (* Vec never is *)

(* Pos::pos (queue.rs:186-200): (bulk.pos() + num_inverted, state) *)
Definition renc_pos (e : renc) : N * (N * N) :=
  (N.of_nat (length (e_bulk e)) + match e_sit e with Inverted n _ => n | Normal => 0 end,
   (e_lower e, e_range e)).

(* EncoderGuard::new (seal unless is_empty) and its Drop (unseal: pop num_seal_words) *)
Definition guard_new (c : rcfg) (e : renc) : rres (list N) :=
  if renc_is_empty c e then ROk (e_bulk e) else renc_seal c e.

Fixpoint pop_n (n : nat) (b : list N) : option (list N) :=
  match n with
  | O => Some b
  | S n' => match b with [] => None | _ :: r => pop_n n' r end
  end.

(* get_compressed followed by dropping the guard: (the view, the encoder afterwards) *)
Definition renc_get_compressed (c : rcfg) (e : renc) : rres (list N * renc) :=
  match guard_new c e with
  | ROk b =>
      match pop_n (N.to_nat (renc_num_seal_words c e)) b with
      | Some b' => ROk (rev b, {| e_bulk := b'; e_lower := e_lower e; e_range := e_range e; e_sit := e_sit e |})
      | None => RPanic Panic_unseal_pop
      end
  | RErrImpossible => RErrImpossible
  | RErrInvalidData => RErrInvalidData
  | RPanic x => RPanic x
  end.

(* ------------------------------------------------------------------ decoder *)

(* Cursor<Word, Vec<Word>> with queue semantics: d_buf is the whole buffer, d_rest the
   words not yet read (pos = |d_buf| - |d_rest|). *)
Record rdec := { d_buf : list N; d_rest : list N; d_lower : N; d_range : N; d_point : N }.

Definition rdec_pos (d : rdec) : nat := length (d_buf d) - length (d_rest d).

(* read_point (queue.rs:779-800): the loop reads at most State::BITS / Word::BITS words *)
Fixpoint read_point_loop (c : rcfg) (fuel : nat) (rest : list N) (point num_read : N)
  : list N * N * N :=
  match fuel with
  | O => (rest, point, num_read)
  | S f =>
      match rest with
      | [] => (rest, point, num_read)
      | w :: r => read_point_loop c f r (N.lor (shl (rSB c) point (rWB c)) w) (num_read + 1)
      end
  end.

Definition read_point (c : rcfg) (rest : list N) : list N * N :=
  let '(rest', point, num_read) :=
    read_point_loop c (N.to_nat (words_per_state c)) rest 0 0 in
  let point' :=
    if (num_read <? words_per_state c) && negb (num_read =? 0)
    then shl (rSB c) point (rSB c - num_read * rWB c)
    else point in
  (rest', point').

(* RangeDecoder::from_compressed *)
Definition rdec_from_compressed (c : rcfg) (ws : list N) : rdec :=
  let '(rest, point) := read_point c ws in
  {| d_buf := ws; d_rest := rest; d_lower := 0; d_range := smax c; d_point := point |}.

(* Seek::seek (queue.rs:849-859) on a Cursor: positions beyond the buffer are refused and
   leave the decoder untouched *)
Definition rdec_seek (c : rcfg) (pos : N) (lower range : N) (d : rdec) : option rdec :=
  if N.of_nat (length (d_buf d)) <? pos then None else
  let '(rest, point) := read_point c (skipn (N.to_nat pos) (d_buf d)) in
  Some {| d_buf := d_buf d; d_rest := rest; d_lower := lower; d_range := range; d_point := point |}.

(* RangeDecoder::from_raw_parts: refused iff point (-) lower >= range *)
Definition rdec_from_raw_parts (c : rcfg) (buf rest : list N) (lower range point : N) : option rdec :=
  if range <=? wsub (rSB c) point lower then None
  else Some {| d_buf := buf; d_rest := rest; d_lower := lower; d_range := range; d_point := point |}.

Definition rdec_quantile (c : rcfg) (P : N) (d : rdec) : N :=
  wsub (rSB c) (d_point d) (d_lower d) / shr (d_range d) P.

(* decode_symbol (queue.rs:901-968) *)
Definition rdec_decode (c : rcfg) (m : emodel) (d : rdec) : rres (Z * rdec) :=
  let S := rSB c in
  let W := rWB c in
  let P := em_prec m in
  let scale := shr (d_range d) P in
  if scale =? 0 then RPanic Panic_div_zero else
  let quantile := wsub S (d_point d) (d_lower d) / scale in
  if shl S 1 P <=? quantile then RErrInvalidData else
  let '(s, cum, p) := em_dec m (trunc (rPB c) (trunc W quantile)) in
  let sc := scale * cum in
  if 2 ^ S <=? sc then RPanic Panic_mul_overflow else
  let lower1 := wadd S (d_lower d) sc in
  let r1 := scale * p in
  if 2 ^ S <=? r1 then RPanic Panic_mul_overflow else
  if r1 =? 0 then RPanic Panic_expect_todo else
  if r1 <? rthr c then
    let lower2 := shl S lower1 W in
    let range2 := shl S r1 W in
    let point2 := shl S (d_point d) W in
    match d_rest d with
    | w :: r => ROk (s, {| d_buf := d_buf d; d_rest := r; d_lower := lower2; d_range := range2;
                            d_point := N.lor point2 w |})
    | [] => ROk (s, {| d_buf := d_buf d; d_rest := []; d_lower := lower2; d_range := range2;
                        d_point := point2 |})
    end
  else ROk (s, {| d_buf := d_buf d; d_rest := d_rest d; d_lower := lower1; d_range := r1;
                   d_point := d_point d |}).

(* maybe_exhausted (queue.rs:804-815) *)
Definition rdec_max_difference (c : rcfg) : N :=
  wsub (rSB c) (shl (rSB c) (rthr c) 1) 1.

Definition rdec_maybe_exhausted (c : rcfg) (d : rdec) : bool :=
  match d_rest d with [] => true | _ => false end &&
  ((d_range d =? smax c) || (wsub (rSB c) (d_point d) (d_lower d) <? rdec_max_difference c)).

(* ------------------------------------------------------------------ whole messages *)

Fixpoint renc_encode_all (c : rcfg) (l : list (emodel * Z)) (e : renc) : rres renc :=
  match l with
  | [] => ROk e
  | (m, s) :: r =>
      match renc_encode_sym c m s e with
      | ROk e' => renc_encode_all c r e'
      | other => other
      end
  end.

Fixpoint rdec_decode_all (c : rcfg) (ms : list emodel) (d : rdec) : rres (list Z * rdec) :=
  match ms with
  | [] => ROk ([], d)
  | m :: r =>
      match rdec_decode c m d with
      | ROk (s, d') =>
          match rdec_decode_all c r d' with
          | ROk (ss, d'') => ROk (s :: ss, d'')
          | other => other
          end
      | RErrImpossible => RErrImpossible
      | RErrInvalidData => RErrInvalidData
      | RPanic x => RPanic x
      end
  end.

(* the compressed words of a whole message: encode everything from a fresh encoder, seal *)
Definition range_compress (c : rcfg) (l : list (emodel * Z)) : rres (list N) :=
  match renc_encode_all c l (renc_new c) with
  | ROk e => renc_into_compressed c e
  | RErrImpossible => RErrImpossible
  | RErrInvalidData => RErrInvalidData
  | RPanic x => RPanic x
  end.

Definition msg_models (l : list (emodel * Z)) : list emodel := map fst l.
Definition msg_symbols (l : list (emodel * Z)) : list Z := map snd l.

Definition model_ok (c : rcfg) (m : emodel) : Prop := wf_model m /\ em_prec m <= rPB c.
