//! Family `backend`: histories on the word sources and sinks of `constriction::backends`
//! (C17, cursor part of C20).  Input / output format: see /verif/lib/fam_backend.py (generator)
//! and coq/theories/Corr/Backend_run.v (model runner); the three must agree.
//!
//! Only the public API is used.  The wrapped iterator of the iterator adapters and the callback
//! of the callback adapters are supplied by the harness (a scripted, deliberately NOT fused
//! `ExactSizeIterator`, and a closure that records its calls and fails on script).
use crate::common::*;
use constriction::backends::{
    AsReadWords, AsSeekReadWords, BoundedReadWords, BoundedWriteError, BoundedWriteWords, Cursor,
    FallibleCallbackWriteWords, FallibleIteratorReadWords, InfallibleCallbackWriteWords,
    InfallibleIteratorReadWords, IntoReadWords, IntoSeekReadWords, ReadWords, Reverse, SafeBuf,
    WriteWords,
};
use constriction::{Pos, Queue, Seek, Stack};
use core::convert::Infallible;
use smallvec::SmallVec;
use std::cell::RefCell;
use std::rc::Rc;

pub const NA: Int = -9;
pub const END: Int = -1;
pub const OUT_OF_SPACE: Int = -2;
pub const SEEK_ERR: Int = -3;
pub const CTOR_ERR: Int = -4;

pub trait Wd: Copy + core::fmt::Debug + 'static {
    fn from_int(x: Int) -> Self;
    fn to_int(self) -> Int;
}
impl Wd for u8 {
    fn from_int(x: Int) -> Self {
        assert!(x >= 0 && x <= u8::MAX as Int, "harness: word out of range");
        x as u8
    }
    fn to_int(self) -> Int {
        self as Int
    }
}
impl Wd for u32 {
    fn from_int(x: Int) -> Self {
        assert!(x >= 0 && x <= u32::MAX as Int, "harness: word out of range");
        x as u32
    }
    fn to_int(self) -> Int {
        self as Int
    }
}

type E = i64;

fn rd_inf<W: Wd>(x: Result<Option<W>, Infallible>) -> Int {
    match x {
        Ok(Some(w)) => w.to_int(),
        Ok(None) => END,
        Err(e) => match e {},
    }
}
fn rd_fall<W: Wd>(x: Result<Option<W>, E>) -> Int {
    match x {
        Ok(Some(w)) => w.to_int(),
        Ok(None) => END,
        Err(e) => -(1000 + e as Int),
    }
}
fn rd_item<W: Wd>(x: Result<Option<Result<W, E>>, Infallible>) -> Int {
    match x {
        Ok(Some(Ok(w))) => w.to_int(),
        Ok(Some(Err(e))) => -(2000 + e as Int),
        Ok(None) => END,
        Err(e) => match e {},
    }
}
fn wr_bounded(x: Result<(), BoundedWriteError>) -> Int {
    match x {
        Ok(()) => 0,
        Err(BoundedWriteError::OutOfSpace) => OUT_OF_SPACE,
    }
}
fn wr_inf(x: Result<(), Infallible>) -> Int {
    match x {
        Ok(()) => 0,
        Err(e) => match e {},
    }
}
fn wr_fall(x: Result<(), E>) -> Int {
    match x {
        Ok(()) => 0,
        Err(e) => -(1000 + e as Int),
    }
}
fn sk(x: Result<(), ()>) -> Int {
    match x {
        Ok(()) => 0,
        Err(()) => SEEK_ERR,
    }
}
fn item_int<W: Wd>(x: Result<W, E>) -> Int {
    match x {
        Ok(w) => w.to_int(),
        Err(e) => -(1000 + e as Int),
    }
}
fn dump_words<W: Wd>(ws: &[W], aux: Int, out: &mut Vec<Int>) {
    out.push(ws.len() as Int);
    out.extend(ws.iter().map(|w| w.to_int()));
    out.push(aux);
}

type BoxDut<'a> = Box<dyn Dut<'a> + 'a>;

/// Device under test; every method a type does not implement answers NA.
trait Dut<'a> {
    fn read(&mut self, _s: Int) -> Int {
        NA
    }
    fn write(&mut self, _w: Int) -> Int {
        NA
    }
    fn seek(&mut self, _p: usize) -> Int {
        NA
    }
    fn pos(&self) -> Int {
        NA
    }
    fn remaining(&self, _s: Int) -> Int {
        NA
    }
    fn space_left(&self) -> Int {
        NA
    }
    fn is_exhausted(&self, _s: Int) -> Int {
        NA
    }
    fn maybe_exhausted(&self, _s: Int) -> Int {
        NA
    }
    fn is_full(&self) -> Int {
        NA
    }
    fn maybe_full(&self) -> Int {
        NA
    }
    /// (new device, result)
    fn into_reversed(self: Box<Self>) -> (BoxDut<'a>, Int);
    fn extend(&mut self, _ws: &[Int]) -> Int {
        NA
    }
    fn dump(&self, out: &mut Vec<Int>);
    fn final_dump(self: Box<Self>, out: &mut Vec<Int>);
    fn view_read(&self, _s: Int, _cloned: bool, out: &mut Vec<Int>) {
        out.push(NA)
    }
    fn mut_view_write(&mut self, _w: Int) -> Int {
        NA
    }
    fn buf_mut_truncate(&mut self, _n: usize) -> Int {
        NA
    }
}

macro_rules! no_reverse {
    () => {
        fn into_reversed(self: Box<Self>) -> (BoxDut<'a>, Int) {
            (self, NA)
        }
    };
}

// ---------------------------------------------------------------- Vec, SmallVec

struct VecDut<W>(Vec<W>);
impl<'a, W: Wd> Dut<'a> for VecDut<W> {
    fn read(&mut self, s: Int) -> Int {
        if s == 0 {
            rd_inf(<Vec<W> as ReadWords<W, Stack>>::read(&mut self.0))
        } else {
            NA
        }
    }
    fn write(&mut self, w: Int) -> Int {
        wr_inf(WriteWords::write(&mut self.0, W::from_int(w)))
    }
    fn seek(&mut self, p: usize) -> Int {
        sk(Seek::seek(&mut self.0, p))
    }
    fn pos(&self) -> Int {
        Pos::pos(&self.0) as Int
    }
    fn remaining(&self, s: Int) -> Int {
        if s == 0 {
            <Vec<W> as BoundedReadWords<W, Stack>>::remaining(&self.0) as Int
        } else {
            NA
        }
    }
    fn is_exhausted(&self, s: Int) -> Int {
        if s == 0 {
            <Vec<W> as BoundedReadWords<W, Stack>>::is_exhausted(&self.0) as Int
        } else {
            NA
        }
    }
    fn maybe_exhausted(&self, s: Int) -> Int {
        if s == 0 {
            <Vec<W> as ReadWords<W, Stack>>::maybe_exhausted(&self.0) as Int
        } else {
            NA
        }
    }
    fn maybe_full(&self) -> Int {
        <Vec<W> as WriteWords<W>>::maybe_full(&self.0) as Int
    }
    fn extend(&mut self, ws: &[Int]) -> Int {
        wr_inf(self.0.extend_from_iter(ws.iter().map(|&x| W::from_int(x))))
    }
    fn dump(&self, out: &mut Vec<Int>) {
        dump_words(&self.0, Pos::pos(&self.0) as Int, out)
    }
    fn final_dump(self: Box<Self>, out: &mut Vec<Int>) {
        self.dump(out)
    }
    no_reverse!();
}

struct SmallDut<W>(SmallVec<[W; 4]>);
impl<'a, W: Wd> Dut<'a> for SmallDut<W> {
    fn read(&mut self, s: Int) -> Int {
        if s == 0 {
            rd_inf(<SmallVec<[W; 4]> as ReadWords<W, Stack>>::read(&mut self.0))
        } else {
            NA
        }
    }
    fn write(&mut self, w: Int) -> Int {
        wr_inf(WriteWords::write(&mut self.0, W::from_int(w)))
    }
    fn seek(&mut self, p: usize) -> Int {
        sk(Seek::seek(&mut self.0, p))
    }
    fn pos(&self) -> Int {
        Pos::pos(&self.0) as Int
    }
    fn remaining(&self, s: Int) -> Int {
        if s == 0 {
            <SmallVec<[W; 4]> as BoundedReadWords<W, Stack>>::remaining(&self.0) as Int
        } else {
            NA
        }
    }
    fn is_exhausted(&self, s: Int) -> Int {
        if s == 0 {
            <SmallVec<[W; 4]> as BoundedReadWords<W, Stack>>::is_exhausted(&self.0) as Int
        } else {
            NA
        }
    }
    fn maybe_exhausted(&self, s: Int) -> Int {
        if s == 0 {
            <SmallVec<[W; 4]> as ReadWords<W, Stack>>::maybe_exhausted(&self.0) as Int
        } else {
            NA
        }
    }
    fn maybe_full(&self) -> Int {
        <SmallVec<[W; 4]> as WriteWords<W>>::maybe_full(&self.0) as Int
    }
    fn extend(&mut self, ws: &[Int]) -> Int {
        wr_inf(self.0.extend_from_iter(ws.iter().map(|&x| W::from_int(x))))
    }
    fn dump(&self, out: &mut Vec<Int>) {
        dump_words(&self.0, Pos::pos(&self.0) as Int, out)
    }
    fn final_dump(self: Box<Self>, out: &mut Vec<Int>) {
        self.dump(out)
    }
    no_reverse!();
}

// ---------------------------------------------------------------- Cursor over a mutable buffer

/// `Vec::truncate` through `Cursor::buf_mut` (C20 class cursor_buf_mut_shrink); other buffers: NA
trait BufExt {
    fn try_truncate(&mut self, _n: usize) -> bool {
        false
    }
}
impl<W> BufExt for Vec<W> {
    fn try_truncate(&mut self, n: usize) -> bool {
        self.truncate(n);
        true
    }
}
impl<'b, W> BufExt for &'b mut [W] {}
impl<W> BufExt for Box<[W]> {}

fn cur_read<W: Wd, Buf: SafeBuf<W>>(c: &mut Cursor<W, Buf>, s: Int) -> Int {
    if s == 0 {
        rd_inf(<Cursor<W, Buf> as ReadWords<W, Stack>>::read(c))
    } else {
        rd_inf(<Cursor<W, Buf> as ReadWords<W, Queue>>::read(c))
    }
}
fn cur_remaining<W: Wd, Buf: SafeBuf<W>>(c: &Cursor<W, Buf>, s: Int) -> Int {
    if s == 0 {
        <Cursor<W, Buf> as BoundedReadWords<W, Stack>>::remaining(c) as Int
    } else {
        <Cursor<W, Buf> as BoundedReadWords<W, Queue>>::remaining(c) as Int
    }
}
fn cur_is_exhausted<W: Wd, Buf: SafeBuf<W>>(c: &Cursor<W, Buf>, s: Int) -> Int {
    if s == 0 {
        <Cursor<W, Buf> as BoundedReadWords<W, Stack>>::is_exhausted(c) as Int
    } else {
        <Cursor<W, Buf> as BoundedReadWords<W, Queue>>::is_exhausted(c) as Int
    }
}
fn cur_maybe_exhausted<W: Wd, Buf: SafeBuf<W>>(c: &Cursor<W, Buf>, s: Int) -> Int {
    if s == 0 {
        <Cursor<W, Buf> as ReadWords<W, Stack>>::maybe_exhausted(c) as Int
    } else {
        <Cursor<W, Buf> as ReadWords<W, Queue>>::maybe_exhausted(c) as Int
    }
}
fn cur_view_read<W: Wd, Buf: SafeBuf<W>>(c: &Cursor<W, Buf>, s: Int, cloned: bool, out: &mut Vec<Int>) {
    if cloned {
        let mut v = c.cloned();
        out.push(cur_read(&mut v, s));
        out.push(v.pos() as Int);
    } else {
        let mut v = c.as_view();
        out.push(cur_read(&mut v, s));
        out.push(v.pos() as Int);
    }
}

// the same queries through Reverse<..>: semantics s of the wrapper
fn rev_read<W: Wd, B>(c: &mut Reverse<B>, s: Int) -> Int
where
    B: ReadWords<W, Stack, ReadError = Infallible> + ReadWords<W, Queue, ReadError = Infallible>,
{
    if s == 0 {
        rd_inf(<Reverse<B> as ReadWords<W, Stack>>::read(c))
    } else {
        rd_inf(<Reverse<B> as ReadWords<W, Queue>>::read(c))
    }
}
fn rev_remaining<W: Wd, B>(c: &Reverse<B>, s: Int) -> Int
where
    B: BoundedReadWords<W, Stack> + BoundedReadWords<W, Queue>,
{
    if s == 0 {
        <Reverse<B> as BoundedReadWords<W, Stack>>::remaining(c) as Int
    } else {
        <Reverse<B> as BoundedReadWords<W, Queue>>::remaining(c) as Int
    }
}
fn rev_is_exhausted<W: Wd, B>(c: &Reverse<B>, s: Int) -> Int
where
    B: BoundedReadWords<W, Stack> + BoundedReadWords<W, Queue>,
{
    if s == 0 {
        <Reverse<B> as BoundedReadWords<W, Stack>>::is_exhausted(c) as Int
    } else {
        <Reverse<B> as BoundedReadWords<W, Queue>>::is_exhausted(c) as Int
    }
}
fn rev_maybe_exhausted<W: Wd, B>(c: &Reverse<B>, s: Int) -> Int
where
    B: ReadWords<W, Stack> + ReadWords<W, Queue>,
{
    if s == 0 {
        <Reverse<B> as ReadWords<W, Stack>>::maybe_exhausted(c) as Int
    } else {
        <Reverse<B> as ReadWords<W, Queue>>::maybe_exhausted(c) as Int
    }
}

struct CurDut<W, Buf>(Cursor<W, Buf>);
impl<'a, W: Wd, Buf: SafeBuf<W> + AsMut<[W]> + BufExt + 'a> Dut<'a> for CurDut<W, Buf> {
    fn read(&mut self, s: Int) -> Int {
        cur_read(&mut self.0, s)
    }
    fn write(&mut self, w: Int) -> Int {
        wr_bounded(WriteWords::write(&mut self.0, W::from_int(w)))
    }
    fn seek(&mut self, p: usize) -> Int {
        sk(self.0.seek(p))
    }
    fn pos(&self) -> Int {
        self.0.pos() as Int
    }
    fn remaining(&self, s: Int) -> Int {
        cur_remaining(&self.0, s)
    }
    fn space_left(&self) -> Int {
        BoundedWriteWords::<W>::space_left(&self.0) as Int
    }
    fn is_exhausted(&self, s: Int) -> Int {
        cur_is_exhausted(&self.0, s)
    }
    fn maybe_exhausted(&self, s: Int) -> Int {
        cur_maybe_exhausted(&self.0, s)
    }
    fn is_full(&self) -> Int {
        BoundedWriteWords::<W>::is_full(&self.0) as Int
    }
    fn maybe_full(&self) -> Int {
        WriteWords::<W>::maybe_full(&self.0) as Int
    }
    fn into_reversed(self: Box<Self>) -> (BoxDut<'a>, Int) {
        (Box::new(RevCurDut(self.0.into_reversed())), 0)
    }
    fn extend(&mut self, ws: &[Int]) -> Int {
        wr_bounded(self.0.extend_from_iter(ws.iter().map(|&x| W::from_int(x))))
    }
    fn dump(&self, out: &mut Vec<Int>) {
        dump_words(self.0.buf().as_ref(), self.0.pos() as Int, out)
    }
    fn final_dump(self: Box<Self>, out: &mut Vec<Int>) {
        let (buf, pos) = self.0.into_buf_and_pos();
        dump_words(buf.as_ref(), pos as Int, out)
    }
    fn view_read(&self, s: Int, cloned: bool, out: &mut Vec<Int>) {
        cur_view_read(&self.0, s, cloned, out)
    }
    fn mut_view_write(&mut self, w: Int) -> Int {
        let mut v = self.0.as_mut_view();
        wr_bounded(WriteWords::write(&mut v, W::from_int(w)))
    }
    fn buf_mut_truncate(&mut self, n: usize) -> Int {
        if self.0.buf_mut().try_truncate(n) {
            0
        } else {
            NA
        }
    }
}

struct RevCurDut<W, Buf>(Reverse<Cursor<W, Buf>>);
impl<'a, W: Wd, Buf: SafeBuf<W> + AsMut<[W]> + BufExt + 'a> Dut<'a> for RevCurDut<W, Buf> {
    fn read(&mut self, s: Int) -> Int {
        rev_read::<W, _>(&mut self.0, s)
    }
    fn write(&mut self, w: Int) -> Int {
        wr_bounded(WriteWords::write(&mut self.0, W::from_int(w)))
    }
    fn seek(&mut self, p: usize) -> Int {
        sk(self.0.seek(p))
    }
    fn pos(&self) -> Int {
        self.0.pos() as Int
    }
    fn remaining(&self, s: Int) -> Int {
        rev_remaining::<W, _>(&self.0, s)
    }
    fn space_left(&self) -> Int {
        BoundedWriteWords::<W>::space_left(&self.0) as Int
    }
    fn is_exhausted(&self, s: Int) -> Int {
        rev_is_exhausted::<W, _>(&self.0, s)
    }
    fn maybe_exhausted(&self, s: Int) -> Int {
        rev_maybe_exhausted::<W, _>(&self.0, s)
    }
    fn is_full(&self) -> Int {
        BoundedWriteWords::<W>::is_full(&self.0) as Int
    }
    fn maybe_full(&self) -> Int {
        WriteWords::<W>::maybe_full(&self.0) as Int
    }
    fn into_reversed(self: Box<Self>) -> (BoxDut<'a>, Int) {
        (Box::new(CurDut(self.0.into_reversed())), 0)
    }
    fn extend(&mut self, ws: &[Int]) -> Int {
        wr_bounded(self.0.extend_from_iter(ws.iter().map(|&x| W::from_int(x))))
    }
    fn dump(&self, out: &mut Vec<Int>) {
        dump_words(self.0 .0.buf().as_ref(), self.0 .0.pos() as Int, out)
    }
    fn final_dump(self: Box<Self>, out: &mut Vec<Int>) {
        let (buf, pos) = self.0 .0.into_buf_and_pos();
        dump_words(buf.as_ref(), pos as Int, out)
    }
}

// ---------------------------------------------------------------- read-only cursors

struct RoCurDut<'b, W>(Cursor<W, &'b [W]>);
impl<'a, W: Wd> Dut<'a> for RoCurDut<'a, W> {
    fn read(&mut self, s: Int) -> Int {
        cur_read(&mut self.0, s)
    }
    fn seek(&mut self, p: usize) -> Int {
        sk(self.0.seek(p))
    }
    fn pos(&self) -> Int {
        self.0.pos() as Int
    }
    fn remaining(&self, s: Int) -> Int {
        cur_remaining(&self.0, s)
    }
    fn is_exhausted(&self, s: Int) -> Int {
        cur_is_exhausted(&self.0, s)
    }
    fn maybe_exhausted(&self, s: Int) -> Int {
        cur_maybe_exhausted(&self.0, s)
    }
    fn dump(&self, out: &mut Vec<Int>) {
        dump_words(self.0.buf(), self.0.pos() as Int, out)
    }
    fn final_dump(self: Box<Self>, out: &mut Vec<Int>) {
        let (buf, pos) = self.0.into_buf_and_pos();
        dump_words(buf, pos as Int, out)
    }
    fn view_read(&self, s: Int, cloned: bool, out: &mut Vec<Int>) {
        cur_view_read(&self.0, s, cloned, out)
    }
    no_reverse!();
}

struct RoRevCurDut<'b, W>(Reverse<Cursor<W, &'b [W]>>);
impl<'a, W: Wd> Dut<'a> for RoRevCurDut<'a, W> {
    fn read(&mut self, s: Int) -> Int {
        rev_read::<W, _>(&mut self.0, s)
    }
    fn seek(&mut self, p: usize) -> Int {
        sk(self.0.seek(p))
    }
    fn pos(&self) -> Int {
        self.0.pos() as Int
    }
    fn remaining(&self, s: Int) -> Int {
        rev_remaining::<W, _>(&self.0, s)
    }
    fn is_exhausted(&self, s: Int) -> Int {
        rev_is_exhausted::<W, _>(&self.0, s)
    }
    fn maybe_exhausted(&self, s: Int) -> Int {
        rev_maybe_exhausted::<W, _>(&self.0, s)
    }
    fn dump(&self, out: &mut Vec<Int>) {
        dump_words(self.0 .0.buf(), self.0 .0.pos() as Int, out)
    }
    fn final_dump(self: Box<Self>, out: &mut Vec<Int>) {
        let (buf, pos) = self.0 .0.into_buf_and_pos();
        dump_words(buf, pos as Int, out)
    }
    no_reverse!();
}

// ---------------------------------------------------------------- Reverse<Vec>, Reverse<Reverse<Cursor>>

struct RevVecDut<W>(Reverse<Vec<W>>);
impl<'a, W: Wd> Dut<'a> for RevVecDut<W> {
    fn read(&mut self, s: Int) -> Int {
        if s == 1 {
            rd_inf(<Reverse<Vec<W>> as ReadWords<W, Queue>>::read(&mut self.0))
        } else {
            NA
        }
    }
    fn seek(&mut self, p: usize) -> Int {
        sk(self.0.seek(p))
    }
    fn pos(&self) -> Int {
        self.0.pos() as Int
    }
    fn remaining(&self, s: Int) -> Int {
        if s == 1 {
            <Reverse<Vec<W>> as BoundedReadWords<W, Queue>>::remaining(&self.0) as Int
        } else {
            NA
        }
    }
    fn is_exhausted(&self, s: Int) -> Int {
        if s == 1 {
            <Reverse<Vec<W>> as BoundedReadWords<W, Queue>>::is_exhausted(&self.0) as Int
        } else {
            NA
        }
    }
    fn maybe_exhausted(&self, s: Int) -> Int {
        if s == 1 {
            <Reverse<Vec<W>> as ReadWords<W, Queue>>::maybe_exhausted(&self.0) as Int
        } else {
            NA
        }
    }
    fn dump(&self, out: &mut Vec<Int>) {
        dump_words(&self.0 .0, self.0.pos() as Int, out)
    }
    fn final_dump(self: Box<Self>, out: &mut Vec<Int>) {
        self.dump(out)
    }
    no_reverse!();
}

struct RevRevCurDut<W>(Reverse<Reverse<Cursor<W, Vec<W>>>>);
impl<'a, W: Wd> Dut<'a> for RevRevCurDut<W> {
    fn read(&mut self, s: Int) -> Int {
        rev_read::<W, _>(&mut self.0, s)
    }
    fn seek(&mut self, p: usize) -> Int {
        sk(self.0.seek(p))
    }
    fn pos(&self) -> Int {
        self.0.pos() as Int
    }
    fn remaining(&self, s: Int) -> Int {
        rev_remaining::<W, _>(&self.0, s)
    }
    fn is_exhausted(&self, s: Int) -> Int {
        rev_is_exhausted::<W, _>(&self.0, s)
    }
    fn maybe_exhausted(&self, s: Int) -> Int {
        rev_maybe_exhausted::<W, _>(&self.0, s)
    }
    fn dump(&self, out: &mut Vec<Int>) {
        dump_words(self.0 .0 .0.buf(), self.0 .0 .0.pos() as Int, out)
    }
    fn final_dump(self: Box<Self>, out: &mut Vec<Int>) {
        let (buf, pos) = self.0 .0 .0.into_buf_and_pos();
        dump_words(&buf, pos as Int, out)
    }
    no_reverse!();
}

// ---------------------------------------------------------------- iterator adapters

/// A scripted iterator that is NOT fused: `None` entries are followed by further items.
/// `len()` is the number of items before the next `None`.
#[derive(Clone, Debug)]
struct ScriptIter<W> {
    items: Vec<Option<Result<W, E>>>,
    i: usize,
}
impl<W: Wd> Iterator for ScriptIter<W> {
    type Item = Result<W, E>;
    fn next(&mut self) -> Option<Self::Item> {
        if self.i < self.items.len() {
            let x = self.items[self.i];
            self.i += 1;
            x
        } else {
            None
        }
    }
    fn size_hint(&self) -> (usize, Option<usize>) {
        let n = self.items[self.i.min(self.items.len())..].iter().take_while(|x| x.is_some()).count();
        (n, Some(n))
    }
}
impl<W: Wd> ExactSizeIterator for ScriptIter<W> {}

fn script_iter<W: Wd>(script: &[Int]) -> ScriptIter<W> {
    ScriptIter {
        items: script
            .iter()
            .map(|&x| {
                if x >= 0 {
                    Some(Ok(W::from_int(x)))
                } else if x == -1 {
                    None
                } else {
                    Some(Err((-x - 1000) as E))
                }
            })
            .collect(),
        i: 0,
    }
}

struct FallIterDut<W, I: Iterator>(FallibleIteratorReadWords<I>, core::marker::PhantomData<W>);
impl<'a, W: Wd, I> Dut<'a> for FallIterDut<W, I>
where
    I: Iterator<Item = Result<W, E>> + ExactSizeIterator + Clone + 'a,
{
    fn read(&mut self, s: Int) -> Int {
        if s == 0 {
            rd_fall(<FallibleIteratorReadWords<I> as ReadWords<W, Stack>>::read(&mut self.0))
        } else {
            rd_fall(<FallibleIteratorReadWords<I> as ReadWords<W, Queue>>::read(&mut self.0))
        }
    }
    fn remaining(&self, s: Int) -> Int {
        if s == 0 {
            <FallibleIteratorReadWords<I> as BoundedReadWords<W, Stack>>::remaining(&self.0) as Int
        } else {
            <FallibleIteratorReadWords<I> as BoundedReadWords<W, Queue>>::remaining(&self.0) as Int
        }
    }
    fn is_exhausted(&self, s: Int) -> Int {
        if s == 0 {
            <FallibleIteratorReadWords<I> as BoundedReadWords<W, Stack>>::is_exhausted(&self.0) as Int
        } else {
            <FallibleIteratorReadWords<I> as BoundedReadWords<W, Queue>>::is_exhausted(&self.0) as Int
        }
    }
    fn maybe_exhausted(&self, s: Int) -> Int {
        if s == 0 {
            <FallibleIteratorReadWords<I> as ReadWords<W, Stack>>::maybe_exhausted(&self.0) as Int
        } else {
            <FallibleIteratorReadWords<I> as ReadWords<W, Queue>>::maybe_exhausted(&self.0) as Int
        }
    }
    fn dump(&self, out: &mut Vec<Int>) {
        let rest: Vec<Int> = self.0.clone().into_iter().map(item_int).collect();
        out.push(rest.len() as Int);
        out.extend(rest);
        out.push(0);
    }
    fn final_dump(self: Box<Self>, out: &mut Vec<Int>) {
        let rest: Vec<Int> = self.0.into_iter().map(item_int).collect();
        out.push(rest.len() as Int);
        out.extend(rest);
        out.push(0);
    }
    no_reverse!();
}

struct InfIterDut<W, I: Iterator>(InfallibleIteratorReadWords<I>, core::marker::PhantomData<W>);
impl<'a, W: Wd, I> Dut<'a> for InfIterDut<W, I>
where
    I: Iterator<Item = Result<W, E>> + ExactSizeIterator + Clone + 'a,
{
    fn read(&mut self, s: Int) -> Int {
        if s == 0 {
            rd_item(<InfallibleIteratorReadWords<I> as ReadWords<Result<W, E>, Stack>>::read(&mut self.0))
        } else {
            rd_item(<InfallibleIteratorReadWords<I> as ReadWords<Result<W, E>, Queue>>::read(&mut self.0))
        }
    }
    fn remaining(&self, s: Int) -> Int {
        if s == 0 {
            <InfallibleIteratorReadWords<I> as BoundedReadWords<Result<W, E>, Stack>>::remaining(&self.0) as Int
        } else {
            <InfallibleIteratorReadWords<I> as BoundedReadWords<Result<W, E>, Queue>>::remaining(&self.0) as Int
        }
    }
    fn is_exhausted(&self, s: Int) -> Int {
        if s == 0 {
            <InfallibleIteratorReadWords<I> as BoundedReadWords<Result<W, E>, Stack>>::is_exhausted(&self.0) as Int
        } else {
            <InfallibleIteratorReadWords<I> as BoundedReadWords<Result<W, E>, Queue>>::is_exhausted(&self.0) as Int
        }
    }
    fn maybe_exhausted(&self, s: Int) -> Int {
        if s == 0 {
            <InfallibleIteratorReadWords<I> as ReadWords<Result<W, E>, Stack>>::maybe_exhausted(&self.0) as Int
        } else {
            <InfallibleIteratorReadWords<I> as ReadWords<Result<W, E>, Queue>>::maybe_exhausted(&self.0) as Int
        }
    }
    fn dump(&self, out: &mut Vec<Int>) {
        let rest: Vec<Int> = self.0.clone().into_iter().map(item_int).collect();
        out.push(rest.len() as Int);
        out.extend(rest);
        out.push(0);
    }
    fn final_dump(self: Box<Self>, out: &mut Vec<Int>) {
        let rest: Vec<Int> = self.0.into_iter().map(item_int).collect();
        out.push(rest.len() as Int);
        out.extend(rest);
        out.push(0);
    }
    no_reverse!();
}

type FallScript<W> = FallibleIteratorReadWords<ScriptIter<W>>;
struct RevFallIterDut<W: Wd>(Reverse<FallScript<W>>);
impl<'a, W: Wd> Dut<'a> for RevFallIterDut<W> {
    fn read(&mut self, s: Int) -> Int {
        if s == 0 {
            rd_fall(<Reverse<FallScript<W>> as ReadWords<W, Stack>>::read(&mut self.0))
        } else {
            rd_fall(<Reverse<FallScript<W>> as ReadWords<W, Queue>>::read(&mut self.0))
        }
    }
    fn remaining(&self, s: Int) -> Int {
        if s == 0 {
            <Reverse<FallScript<W>> as BoundedReadWords<W, Stack>>::remaining(&self.0) as Int
        } else {
            <Reverse<FallScript<W>> as BoundedReadWords<W, Queue>>::remaining(&self.0) as Int
        }
    }
    fn is_exhausted(&self, s: Int) -> Int {
        if s == 0 {
            <Reverse<FallScript<W>> as BoundedReadWords<W, Stack>>::is_exhausted(&self.0) as Int
        } else {
            <Reverse<FallScript<W>> as BoundedReadWords<W, Queue>>::is_exhausted(&self.0) as Int
        }
    }
    fn maybe_exhausted(&self, s: Int) -> Int {
        if s == 0 {
            <Reverse<FallScript<W>> as ReadWords<W, Stack>>::maybe_exhausted(&self.0) as Int
        } else {
            <Reverse<FallScript<W>> as ReadWords<W, Queue>>::maybe_exhausted(&self.0) as Int
        }
    }
    fn dump(&self, out: &mut Vec<Int>) {
        let rest: Vec<Int> = self.0 .0.clone().into_iter().map(item_int).collect();
        out.push(rest.len() as Int);
        out.extend(rest);
        out.push(0);
    }
    fn final_dump(self: Box<Self>, out: &mut Vec<Int>) {
        let rest: Vec<Int> = self.0 .0.into_iter().map(item_int).collect();
        out.push(rest.len() as Int);
        out.extend(rest);
        out.push(0);
    }
    no_reverse!();
}

// ---------------------------------------------------------------- callback adapters

type Log<W> = Rc<RefCell<Vec<W>>>;

struct FallCbDut<'c, W>(FallibleCallbackWriteWords<Box<dyn FnMut(W) -> Result<(), E> + 'c>>, Log<W>);
impl<'a, W: Wd> Dut<'a> for FallCbDut<'a, W> {
    fn write(&mut self, w: Int) -> Int {
        wr_fall(WriteWords::write(&mut self.0, W::from_int(w)))
    }
    fn maybe_full(&self) -> Int {
        <FallibleCallbackWriteWords<Box<dyn FnMut(W) -> Result<(), E> + 'a>> as WriteWords<W>>::maybe_full(&self.0)
            as Int
    }
    fn extend(&mut self, ws: &[Int]) -> Int {
        wr_fall(self.0.extend_from_iter(ws.iter().map(|&x| W::from_int(x))))
    }
    fn dump(&self, out: &mut Vec<Int>) {
        dump_words(&self.1.borrow(), 0, out)
    }
    fn final_dump(self: Box<Self>, out: &mut Vec<Int>) {
        let this = *self;
        drop(this.0.into_inner());
        dump_words(&this.1.borrow(), 0, out);
    }
    no_reverse!();
}

struct InfCbDut<'c, W>(InfallibleCallbackWriteWords<Box<dyn FnMut(W) + 'c>>, Log<W>);
impl<'a, W: Wd> Dut<'a> for InfCbDut<'a, W> {
    fn write(&mut self, w: Int) -> Int {
        wr_inf(WriteWords::write(&mut self.0, W::from_int(w)))
    }
    fn maybe_full(&self) -> Int {
        <InfallibleCallbackWriteWords<Box<dyn FnMut(W) + 'a>> as WriteWords<W>>::maybe_full(&self.0) as Int
    }
    fn extend(&mut self, ws: &[Int]) -> Int {
        wr_inf(self.0.extend_from_iter(ws.iter().map(|&x| W::from_int(x))))
    }
    fn dump(&self, out: &mut Vec<Int>) {
        dump_words(&self.1.borrow(), 0, out)
    }
    fn final_dump(self: Box<Self>, out: &mut Vec<Int>) {
        let this = *self;
        drop(this.0.into_inner());
        dump_words(&this.1.borrow(), 0, out);
    }
    no_reverse!();
}

// ---------------------------------------------------------------- constructors

/// ctor: 0 new_at_write_beginning, 1 new_at_write_end, 2 new_at_pos(arg),
/// 3/4 IntoReadWords<Stack/Queue>, 7/8 IntoSeekReadWords<Stack/Queue>
fn mk_cursor<W: Wd, Buf: SafeBuf<W>>(buf: Buf, ctor: Int, arg: usize) -> Option<Cursor<W, Buf>> {
    match ctor {
        0 => Some(Cursor::new_at_write_beginning(buf)),
        1 => Some(Cursor::new_at_write_end(buf)),
        2 => Cursor::new_at_pos(buf, arg).ok(),
        3 => Some(<Buf as IntoReadWords<W, Stack>>::into_read_words(buf)),
        4 => Some(<Buf as IntoReadWords<W, Queue>>::into_read_words(buf)),
        7 => Some(<Buf as IntoSeekReadWords<W, Stack>>::into_seek_read_words(buf)),
        8 => Some(<Buf as IntoSeekReadWords<W, Queue>>::into_seek_read_words(buf)),
        other => panic!("harness: cursor constructor {} not in menu for this buffer", other),
    }
}
/// additionally 9 new_at_write_end_mut, 10 new_at_pos_mut(arg)
fn mk_cursor_mut<W: Wd, Buf: SafeBuf<W> + AsMut<[W]>>(buf: Buf, ctor: Int, arg: usize) -> Option<Cursor<W, Buf>> {
    match ctor {
        9 => Some(Cursor::new_at_write_end_mut(buf)),
        10 => Cursor::new_at_pos_mut(buf, arg).ok(),
        _ => mk_cursor(buf, ctor, arg),
    }
}
/// additionally 5/6 AsReadWords<Stack/Queue>, 11/12 AsSeekReadWords<Stack/Queue> on the owning Vec
fn mk_cursor_shared<'b, W: Wd>(v: &'b Vec<W>, ctor: Int, arg: usize) -> Option<Cursor<W, &'b [W]>> {
    match ctor {
        5 => Some(<Vec<W> as AsReadWords<'b, W, Stack>>::as_read_words(v)),
        6 => Some(<Vec<W> as AsReadWords<'b, W, Queue>>::as_read_words(v)),
        11 => Some(<Vec<W> as AsSeekReadWords<'b, W, Stack>>::as_seek_read_words(v)),
        12 => Some(<Vec<W> as AsSeekReadWords<'b, W, Queue>>::as_seek_read_words(v)),
        _ => mk_cursor(&v[..], ctor, arg),
    }
}

fn ok_w<W: Wd>(w: W) -> Result<W, E> {
    Ok(w)
}

fn run_typed<W: Wd>(r: &mut Reader, out: &mut Vec<Int>) {
    let kind = r.next();
    let ctor = r.next();
    let arg = r.us();
    let words: Vec<W> = r.list().into_iter().map(W::from_int).collect();
    let script: Vec<Int> = r.list();
    let shared: Vec<W> = words.clone();
    let mut excl: Vec<W> = words.clone();
    let log: Log<W> = Rc::new(RefCell::new(Vec::new()));

    let made: Option<BoxDut> = match kind {
        0 => Some(Box::new(VecDut(words))),
        1 => Some(Box::new(SmallDut(SmallVec::<[W; 4]>::from_vec(words)))),
        2 => mk_cursor_mut(words, ctor, arg).map(|c| Box::new(CurDut(c)) as BoxDut),
        3 => mk_cursor_shared(&shared, ctor, arg).map(|c| Box::new(RoCurDut(c)) as BoxDut),
        4 => mk_cursor_mut(&mut excl[..], ctor, arg).map(|c| Box::new(CurDut(c)) as BoxDut),
        5 => mk_cursor_mut(words.into_boxed_slice(), ctor, arg).map(|c| Box::new(CurDut(c)) as BoxDut),
        6 => mk_cursor_mut(words, ctor, arg).map(|c| Box::new(RevCurDut(Reverse(c))) as BoxDut),
        7 => mk_cursor_shared(&shared, ctor, arg).map(|c| Box::new(RoRevCurDut(Reverse(c))) as BoxDut),
        8 => mk_cursor_mut(&mut excl[..], ctor, arg).map(|c| Box::new(RevCurDut(Reverse(c))) as BoxDut),
        9 => mk_cursor_mut(words.into_boxed_slice(), ctor, arg)
            .map(|c| Box::new(RevCurDut(Reverse(c))) as BoxDut),
        10 => Some(Box::new(RevVecDut(Reverse(words)))),
        11 => mk_cursor_mut(words, ctor, arg).map(|c| Box::new(RevRevCurDut(Reverse(Reverse(c)))) as BoxDut),
        12 => Some(Box::new(FallIterDut(
            FallibleIteratorReadWords::new(script_iter::<W>(&script)),
            core::marker::PhantomData,
        ))),
        13 => Some(Box::new(InfIterDut(
            InfallibleIteratorReadWords::new(script_iter::<W>(&script)),
            core::marker::PhantomData,
        ))),
        14 => Some(Box::new(FallIterDut(
            FallibleIteratorReadWords::new(words.into_iter().map(ok_w::<W> as fn(W) -> Result<W, E>)),
            core::marker::PhantomData,
        ))),
        15 => Some(Box::new(InfIterDut(
            InfallibleIteratorReadWords::new(words.into_iter().map(ok_w::<W>).collect::<Vec<_>>()),
            core::marker::PhantomData,
        ))),
        16 => {
            let log2 = log.clone();
            let mut i = 0usize;
            let script2 = script.clone();
            let cb: Box<dyn FnMut(W) -> Result<(), E>> = Box::new(move |w: W| {
                log2.borrow_mut().push(w);
                let e = if i < script2.len() { script2[i] } else { 0 };
                i += 1;
                if e == 0 {
                    Ok(())
                } else {
                    Err(e as E)
                }
            });
            Some(Box::new(FallCbDut(FallibleCallbackWriteWords::new(cb), log.clone())))
        }
        17 => {
            let log2 = log.clone();
            let cb: Box<dyn FnMut(W)> = Box::new(move |w: W| {
                log2.borrow_mut().push(w);
            });
            Some(Box::new(InfCbDut(InfallibleCallbackWriteWords::new(cb), log.clone())))
        }
        18 => Some(Box::new(RevFallIterDut(Reverse(FallibleIteratorReadWords::new(script_iter::<W>(
            &script,
        )))))),
        other => panic!("harness: backend kind {} not in menu", other),
    };
    let mut dut = match made {
        Some(d) => d,
        None => {
            out.push(CTOR_ERR);
            return;
        }
    };
    while !r.done() {
        let op = r.next();
        match op {
            1 => {
                let s = r.next();
                out.push(dut.read(s));
            }
            2 => {
                let w = r.next();
                out.push(dut.write(w));
            }
            3 => {
                let p = r.us();
                out.push(dut.seek(p));
            }
            4 => out.push(dut.pos()),
            5 => {
                let s = r.next();
                out.push(dut.remaining(s));
            }
            6 => out.push(dut.space_left()),
            7 => {
                let s = r.next();
                out.push(dut.is_exhausted(s));
            }
            8 => {
                let s = r.next();
                out.push(dut.maybe_exhausted(s));
            }
            9 => out.push(dut.is_full()),
            10 => out.push(dut.maybe_full()),
            11 => {
                let (d, res) = dut.into_reversed();
                dut = d;
                out.push(res);
            }
            12 => {
                let ws = r.list();
                out.push(dut.extend(&ws));
            }
            13 => dut.dump(out),
            14 => {
                let s = r.next();
                dut.view_read(s, false, out);
            }
            15 => {
                let s = r.next();
                dut.view_read(s, true, out);
            }
            16 => {
                let w = r.next();
                out.push(dut.mut_view_write(w));
            }
            17 => {
                let n = r.us();
                out.push(dut.buf_mut_truncate(n));
            }
            other => panic!("harness: unknown backend op {}", other),
        }
    }
    dut.final_dump(out);
}

pub fn run(r: &mut Reader, out: &mut Vec<Int>) {
    match r.next() {
        8 => run_typed::<u8>(r, out),
        32 => run_typed::<u32>(r, out),
        other => panic!("harness: backend word width {} not in menu", other),
    }
}
