(* Model/Ans.v -- machine-level model of AnsCoder<Word, State, Vec<Word>>
   (src/stream/stack.rs).  Definitions only.

   bulk : the head of the list is the TOP of the stack (= the END of the Vec).
   Every Rust operator is written with the truncation the type imposes:
     state << k   ==> shl SB state k        (bits shifted out are dropped)
     state.as_()  ==> trunc WB state
   No other operation in this file can overflow on ANY input, which is part of
   what Proofs/Ans_lemmas.v shows. *)
From CV Require Export Base.Bits Model.EModel.
Open Scope N_scope.

Record cfg := { WB : N; SB : N }.
Definition wf_cfg (c : cfg) : Prop := 0 < WB c /\ 2 * WB c <= SB c.

Record ans := { bulk : list N; st : N }.

Definition ans_empty : ans := {| bulk := []; st := 0 |}.

Definition thr (c : cfg) : N := 2 ^ (SB c - WB c).

(* stack.rs:987-1003  (the part after the model lookup) *)
Definition ans_encode (c : cfg) (P cum p : N) (a : ans) : ans :=
  let '(b, s) :=
    if p <=? shr (st a) (SB c - P)
    then (trunc (WB c) (st a) :: bulk a, shr (st a) (WB c))
    else (bulk a, st a) in
  let remainder := s mod p in
  let prefix := s / p in
  let quantile := cum + remainder in
  {| bulk := b; st := N.lor (shl (SB c) prefix P) quantile |}.

(* stack.rs:1042-1053 : [quantile], then the update given the model's answer *)
Definition ans_quantile (P : N) (a : ans) : N := (st a) mod (2 ^ P).

Definition ans_decode_upd (c : cfg) (P cum p : N) (a : ans) : ans :=
  let quantile := ans_quantile P a in
  let remainder := quantile - cum in
  let s := shr (st a) P * p + remainder in
  if s <? thr c then
    match bulk a with
    | w :: b => {| bulk := b; st := N.lor (shl (SB c) s (WB c)) w |}
    | [] => {| bulk := []; st := s |}
    end
  else {| bulk := bulk a; st := s |}.

Definition ans_encode_sym (c : cfg) (m : emodel) (s : Z) (a : ans) : option ans :=
  match em_enc m s with
  | Some (cum, p) => Some (ans_encode c (em_prec m) cum p a)
  | None => None                      (* Err(ImpossibleSymbol), coder untouched *)
  end.

Definition ans_decode_sym (c : cfg) (m : emodel) (a : ans) : Z * ans :=
  let '(s, cum, p) := em_dec m (ans_quantile (em_prec m) a) in
  (s, ans_decode_upd c (em_prec m) cum p a).

(* lib.rs:719-730 bit_array_to_chunks_truncated(state).rev():
   WB-bit chunks, least significant first, zero leading (high) chunks dropped.
   [n] is fuel = number of chunks a State can hold. *)
Fixpoint chunks (wb : N) (n : nat) (s : N) : list N :=
  match n with
  | O => []
  | S n' => if s =? 0 then [] else trunc wb s :: chunks wb n' (shr s wb)
  end.

Definition nchunks (c : cfg) : nat := N.to_nat ((SB c + WB c - 1) / WB c).

Definition state_chunks (c : cfg) (s : N) : list N := chunks (WB c) (nchunks c) s.

(* into_compressed / iter_compressed / get_compressed: words in Vec order *)
Definition ans_words (c : cfg) (a : ans) : list N := rev (bulk a) ++ state_chunks c (st a).

(* read_initial_state (stack.rs:332-356); argument = stack with top at head *)
Fixpoint read_more (c : cfg) (stack : list N) (s : N) : list N * N :=
  match stack with
  | [] => ([], s)
  | w :: r =>
      let s' := N.lor (shl (SB c) s (WB c)) w in
      if thr c <=? s' then (r, s') else read_more c r s'
  end.

Definition ans_from_compressed (c : cfg) (ws : list N) : option ans :=
  match rev ws with
  | [] => Some ans_empty
  | w :: r => if w =? 0 then None
              else let '(b, s) := read_more c r w in Some {| bulk := b; st := s |}
  end.

(* from_binary (stack.rs:377-396) *)
Fixpoint read_binary (c : cfg) (stack : list N) (s : N) : list N * N :=
  if thr c <=? s then (stack, s) else
  match stack with
  | [] => ([], s)
  | w :: r => read_binary c r (N.lor (shl (SB c) s (WB c)) w)
  end.

Definition ans_from_binary (c : cfg) (ws : list N) : ans :=
  let '(b, s) := read_binary c (rev ws) 1 in {| bulk := b; st := s |}.

(* bit length of the state: State::BITS - leading_zeros *)
Definition bitlen (s : N) : N := N.size s.

(* exactly [k] chunks, least significant first (zero chunks included) *)
Fixpoint chunks_exact (wb : N) (k : nat) (s : N) : list N :=
  match k with
  | O => []
  | S k' => trunc wb s :: chunks_exact wb k' (shr s wb)
  end.

(* into_binary (stack.rs:879-895, after the fix of F1: exactly valid_bits/WB words).
   valid_bits = (State::BITS - 1).wrapping_sub(leading_zeros); usize::MAX iff state = 0 *)
Definition ans_into_binary (c : cfg) (a : ans) : option (list N) :=
  if st a =? 0 then None else
  let vb := bitlen (st a) - 1 in
  if vb mod WB c =? 0 then
    let truncated := N.lxor (st a) (shl (SB c) 1 vb) in
    Some (rev (bulk a) ++ chunks_exact (WB c) (N.to_nat (vb / WB c)) truncated)
  else None.

(* get_binary = CoderGuard<SEALED = true>::new (stack.rs:1120-1135): the most
   significant chunk of the state must be exactly 1; the others are appended. *)
Definition ans_get_binary (c : cfg) (a : ans) : option (list N) :=
  match rev (state_chunks c (st a)) with
  | top :: rest => if top =? 1 then Some (rev (bulk a) ++ rev rest) else None
  | [] => None
  end.

Definition ans_num_valid_bits (c : cfg) (a : ans) : N :=
  WB c * N.of_nat (length (bulk a)) + (N.max (bitlen (st a)) 1 - 1).

Definition ans_num_words (c : cfg) (a : ans) : N :=
  N.of_nat (length (bulk a)) + N.of_nat (length (state_chunks c (st a))).

Definition ans_is_empty (a : ans) : bool := st a =? 0.

(* documented invariant, stack.rs:126 *)
Definition ans_inv (c : cfg) (a : ans) : Prop :=
  (bulk a = [] \/ thr c <= st a) /\ st a < 2 ^ SB c /\ Forall (fun w => w < 2 ^ WB c) (bulk a).

(* ---------- histories ---------- *)
Fixpoint ans_decode_all (c : cfg) (ms : list emodel) (a : ans) : list Z * ans :=
  match ms with
  | [] => ([], a)
  | m :: r => let '(s, a') := ans_decode_sym c m a in
              let '(ss, a'') := ans_decode_all c r a' in (s :: ss, a'')
  end.

(* encode_symbols: per-symbol loop that stops at the first error, keeping what
   was encoded so far (stream/mod.rs default methods). Returns the coder and the
   number of symbols encoded. *)
Fixpoint ans_encode_all (c : cfg) (l : list (emodel * Z)) (a : ans) : option ans :=
  match l with
  | [] => Some a
  | (m, s) :: r => match ans_encode_sym c m s a with
                   | Some a' => ans_encode_all c r a'
                   | None => None
                   end
  end.

(* batch forms (stream/mod.rs:592-700, stack.rs:719-790): per-symbol loops that stop at the
   first error and keep what was encoded; result = (coder, index of the failing item if any) *)
Fixpoint ans_encode_batch_from (c : cfg) (i : nat) (l : list (emodel * Z)) (a : ans) : ans * option nat :=
  match l with
  | [] => (a, None)
  | (m, s) :: r => match ans_encode_sym c m s a with
                   | Some a' => ans_encode_batch_from c (S i) r a'
                   | None => (a, Some i)
                   end
  end.
Definition ans_encode_batch c l a := ans_encode_batch_from c 0 l a.
(* encode_symbols_reverse / encode_iid_symbols_reverse: the same loop over the reversed iterator *)
Definition ans_encode_batch_reverse c l a := ans_encode_batch c (rev l) a.

(* try_encode_symbols: items are Result<(symbol, model), E>; [None] models an Err item *)
Inductive try_result := TryOk | TryImpossible (i : nat) | TryInvalidModel (i : nat).
Fixpoint ans_try_encode_from (c : cfg) (i : nat) (l : list (option (emodel * Z))) (a : ans) : ans * try_result :=
  match l with
  | [] => (a, TryOk)
  | None :: _ => (a, TryInvalidModel i)
  | Some (m, s) :: r => match ans_encode_sym c m s a with
                        | Some a' => ans_try_encode_from c (S i) r a'
                        | None => (a, TryImpossible i)
                        end
  end.
Definition ans_try_encode c l a := ans_try_encode_from c 0 l a.

Inductive aop := AEnc (m : emodel) (s : Z) | ADec (m : emodel) | AReload.
Inductive aout := ONone | OErr | OSym (s : Z).

Definition ans_step (c : cfg) (a : ans) (o : aop) : ans * aout :=
  match o with
  | AEnc m s => match ans_encode_sym c m s a with
                | Some a' => (a', ONone)
                | None => (a, OErr)
                end
  | ADec m => let '(s, a') := ans_decode_sym c m a in (a', OSym s)
  | AReload => match ans_from_compressed c (ans_words c a) with
               | Some a' => (a', ONone)
               | None => (a, OErr)
               end
  end.

Fixpoint ans_run (c : cfg) (a : ans) (h : list aop) : ans * list aout :=
  match h with
  | [] => (a, [])
  | o :: r => let '(a', x) := ans_step c a o in
              let '(a'', xs) := ans_run c a' r in (a'', x :: xs)
  end.

(* the abstract stack the coder must behave like: pending (model, symbol) pairs,
   most recent first *)
Definition pending := list (emodel * Z).

Inductive ans_spec : pending -> list aop -> pending -> list aout -> Prop :=
| AS_nil p : ans_spec p [] p []
| AS_enc p m s cum pr h p' o :
    em_enc m s = Some (cum, pr) -> ans_spec ((m, s) :: p) h p' o ->
    ans_spec p (AEnc m s :: h) p' (ONone :: o)
| AS_enc_err p m s h p' o :
    em_enc m s = None -> ans_spec p h p' o ->
    ans_spec p (AEnc m s :: h) p' (OErr :: o)
| AS_dec p m s h p' o :
    ans_spec p h p' o -> ans_spec ((m, s) :: p) (ADec m :: h) p' (OSym s :: o)
| AS_reload p h p' o :
    ans_spec p h p' o -> ans_spec p (AReload :: h) p' (ONone :: o).

Fixpoint push_all (c : cfg) (p : pending) (a0 : ans) : option ans :=
  match p with
  | [] => Some a0
  | (m, s) :: r => match push_all c r a0 with
                   | Some a => ans_encode_sym c m s a
                   | None => None
                   end
  end.

Definition op_model_ok (c : cfg) (o : aop) : Prop :=
  match o with
  | AEnc m _ | ADec m => wf_model m /\ em_prec m <= WB c
  | AReload => True
  end.

(* ---------- guards (stack.rs:1107-1160, CoderGuard<SEALED>) ---------- *)
Fixpoint pop_n (n : nat) (l : list N) : list N :=
  match n with O => l | S n' => match l with [] => [] | _ :: r => pop_n n' r end end.

(* CoderGuard::<false>::new : append the state's chunks (least significant first) *)
Definition ans_guard_open (c : cfg) (a : ans) : ans :=
  {| bulk := rev (state_chunks c (st a)) ++ bulk a; st := st a |}.
(* Drop: read one word per chunk *)
Definition ans_guard_close (c : cfg) (a : ans) : ans :=
  {| bulk := pop_n (length (state_chunks c (st a))) (bulk a); st := st a |}.
(* what the guard dereferences to *)
Definition ans_guard_view (a : ans) : list N := rev (bulk a).

(* CoderGuard::<true>::new : most significant chunk must be 1 and is not written *)
Definition ans_sealed_open (c : cfg) (a : ans) : option ans :=
  match rev (state_chunks c (st a)) with
  | top :: rest => if top =? 1 then Some {| bulk := rest ++ bulk a; st := st a |} else None
  | [] => None
  end.
Definition ans_sealed_close (c : cfg) (a : ans) : ans :=
  {| bulk := pop_n (length (state_chunks c (st a)) - 1) (bulk a); st := st a |}.

(* ---------- seeking (stack.rs:1079-1095 over a Cursor / Vec backend) ----------
   A seekable decoder over the words [buf] (Vec order) at position [pos] with state
   [s] reads buf[pos-1], buf[pos-2], ... : it IS the coder {bulk := rev (firstn pos buf)}. *)
Definition ans_pos (a : ans) : N * N := (N.of_nat (length (bulk a)), st a).

Definition ans_seek (buf : list N) (p : N * N) : option ans :=
  if fst p <=? N.of_nat (length buf)
  then Some {| bulk := rev (firstn (N.to_nat (fst p)) buf); st := snd p |}
  else None.

(* ---------- bounded sink (C09): Cursor with [cap] slots; write fails when full ----------
   stack.rs:987-992 : the word is written BEFORE the state is shifted. *)
Inductive enc_result := EncOk (a : ans) | EncImpossible | EncBackendFull.

Definition ans_encode_cap (c : cfg) (cap : N) (m : emodel) (s : Z) (a : ans) : enc_result :=
  match em_enc m s with
  | None => EncImpossible
  | Some (cum, p) =>
      if (p <=? shr (st a) (SB c - em_prec m)) && (cap <=? N.of_nat (length (bulk a)))
      then EncBackendFull
      else EncOk (ans_encode c (em_prec m) cum p a)
  end.

(* ---------- size (C12) ---------- *)
(* value of a little-endian digit string in base 2^wb *)
Fixpoint val_ls (wb : N) (ws : list N) : N :=
  match ws with [] => 0 | w :: r => w + 2 ^ wb * val_ls wb r end.

Definition ans_value (c : cfg) (a : ans) : N := val_ls (WB c) (ans_words c a).
Definition ans_potential (c : cfg) (a : ans) : N := N.max (ans_value c a) (thr c).
