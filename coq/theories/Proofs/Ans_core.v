(* Proofs/Ans_core.v -- arithmetic of one rANS step. *)
From CV Require Import Base.Bits Model.EModel Model.Ans.
From Coq Require Import ZifyBool ZifyN.
Open Scope N_scope.
Set Default Timeout 20.

Section Core.
Variable c : cfg.
Hypothesis Hc : wf_cfg c.
Variable P : N.
Hypothesis HP0 : 0 < P.
Hypothesis HPW : P <= WB c.

Let W := WB c.
Let S := SB c.

Lemma thr_eq : thr c = 2 ^ (S - W). Proof. reflexivity. Qed.

Lemma SB_split_W : 2 ^ S = 2 ^ (S - W) * 2 ^ W.
Proof. destruct Hc. apply pow2_split. subst S W. plia. Qed.

Lemma SB_split_P : 2 ^ S = 2 ^ (S - P) * 2 ^ P.
Proof. destruct Hc. apply pow2_split. subst S W. plia. Qed.

Lemma thr_split_P : 2 ^ (S - W) = 2 ^ (S - W - P) * 2 ^ P.
Proof. destruct Hc. apply pow2_split. subst S W. plia. Qed.

Lemma SmP_split : 2 ^ (S - P) = 2 ^ (S - W - P) * 2 ^ W.
Proof.
  destruct Hc. subst S W.
  replace (SB c - P) with ((SB c - WB c - P) + WB c) by plia.
  apply pow2_add.
Qed.

Lemma thr_le_SmP : 2 ^ (S - W) <= 2 ^ (S - P).
Proof. apply pow2_le. subst S W. plia. Qed.

(* the state written back by encode fits into State and the [|] is a [+] *)
Lemma enc_state_ideal s cum p :
  0 < p -> cum + p <= 2 ^ P -> s / p < 2 ^ (S - P) ->
  N.lor (shl S (s / p) P) (cum + s mod p) = (s / p) * 2 ^ P + cum + s mod p
  /\ (s / p) * 2 ^ P + cum + s mod p < 2 ^ S.
Proof.
  intros Hp Hcp Hpre.
  assert (Hr : s mod p < p) by (apply N.mod_lt; plia).
  assert (Hq : cum + s mod p < 2 ^ P) by plia.
  assert (Hfit : (s / p) * 2 ^ P + (cum + s mod p) < 2 ^ S).
  { rewrite SB_split_P. pnia. }
  split; [|plia].
  unfold shl. rewrite shiftl_mul, trunc_small.
  - rewrite lor_disjoint by assumption. plia.
  - rewrite SB_split_P. pose proof (pow2_pos P). pnia.
Qed.


(* ---------- ideal (truncation-free) form of encode ---------- *)
Definition enc_flush (p : N) (a : ans) : bool := p * 2 ^ (S - P) <=? st a.

Definition enc_ideal (cum p : N) (a : ans) : ans :=
  if enc_flush p a
  then let s := st a / 2 ^ W in
       {| bulk := st a mod 2 ^ W :: bulk a; st := (s / p) * 2 ^ P + cum + s mod p |}
  else {| bulk := bulk a; st := (st a / p) * 2 ^ P + cum + st a mod p |}.

Lemma flush_test p s : 0 < p -> (p <=? shr s (S - P)) = (p * 2 ^ (S - P) <=? s).
Proof.
  intros Hp. rewrite shr_div.
  pose proof (pow2_pos (S - P)) as Hpos.
  destruct (N.leb_spec p (s / 2 ^ (S - P))) as [H|H];
  destruct (N.leb_spec (p * 2 ^ (S - P)) s) as [H'|H']; try reflexivity; exfalso.
  - assert (s / 2 ^ (S - P) * 2 ^ (S - P) <= s).
    { rewrite N.mul_comm. apply N.mul_div_le. plia. }
    pnia.
  - assert (p <= s / 2 ^ (S - P)) by (apply div_ge_lower; plia). plia.
Qed.

Lemma enc_eq_ideal cum p a :
  wf_entry P cum p -> st a < 2 ^ S ->
  ans_encode c P cum p a = enc_ideal cum p a
  /\ st (enc_ideal cum p a) < 2 ^ S.
Proof.
  intros [Hp Hcp] Hst.
  unfold ans_encode, enc_ideal, enc_flush. fold S W.
  rewrite flush_test by assumption.
  destruct (N.leb_spec (p * 2 ^ (S - P)) (st a)) as [Hfl|Hnf].
  - rewrite shr_div. unfold trunc.
    assert (Hpre : st a / 2 ^ W / p < 2 ^ (S - P)).
    { assert (st a / 2 ^ W < 2 ^ (S - W)).
      { apply div_lt_upper; [apply pow2_pos|]. rewrite <- SB_split_W. exact Hst. }
      pose proof thr_le_SmP.
      pose proof (div_le_self (st a / 2 ^ W) p).
      plia. }
    destruct (enc_state_ideal (st a / 2 ^ W) cum p Hp Hcp Hpre) as [-> Hlt].
    split; [reflexivity|exact Hlt].
  - assert (Hpre : st a / p < 2 ^ (S - P)).
    { apply div_lt_upper; [assumption|]. plia. }
    destruct (enc_state_ideal (st a) cum p Hp Hcp Hpre) as [-> Hlt].
    split; [reflexivity|exact Hlt].
Qed.

(* ---------- ideal form of decode ---------- *)
Definition dec_ideal (cum p : N) (a : ans) : ans :=
  let s := st a / 2 ^ P * p + (st a mod 2 ^ P - cum) in
  if s <? 2 ^ (S - W) then
    match bulk a with
    | w :: b => {| bulk := b; st := s * 2 ^ W + w |}
    | [] => {| bulk := []; st := s |}
    end
  else {| bulk := bulk a; st := s |}.

Lemma dec_state_bound s cum p :
  0 < p -> cum + p <= 2 ^ P -> s < 2 ^ S -> cum <= s mod 2 ^ P < cum + p ->
  s / 2 ^ P * p + (s mod 2 ^ P - cum) < p * 2 ^ (S - P).
Proof.
  intros Hp Hcp Hs Hq.
  assert (s / 2 ^ P < 2 ^ (S - P)).
  { apply div_lt_upper; [apply pow2_pos|]. rewrite <- SB_split_P. exact Hs. }
  pnia.
Qed.

Lemma dec_eq_ideal cum p a :
  wf_entry P cum p -> st a < 2 ^ S -> Forall (fun w => w < 2 ^ W) (bulk a) ->
  cum <= st a mod 2 ^ P < cum + p ->
  ans_decode_upd c P cum p a = dec_ideal cum p a.
Proof.
  intros [Hp Hcp] Hst Hb Hq.
  unfold ans_decode_upd, dec_ideal, ans_quantile. rewrite thr_eq, shr_div. fold S W.
  destruct (N.ltb_spec (st a / 2 ^ P * p + (st a mod 2 ^ P - cum)) (2 ^ (S - W))) as [Hlt|Hge];
    [|reflexivity].
  destruct (bulk a) as [|w b] eqn:Eb; [reflexivity|].
  f_equal. inversion Hb as [|? ? Hw _]; subst.
  unfold shl. rewrite shiftl_mul, trunc_small.
  - apply lor_disjoint. exact Hw.
  - rewrite SB_split_W. pose proof (pow2_pos W). pnia.
Qed.

(* ---------- decode after encode ---------- *)
Lemma quantile_after_enc cum p a :
  wf_entry P cum p ->
  let a' := enc_ideal cum p a in
  st a' mod 2 ^ P = cum + (if enc_flush p a then st a / 2 ^ W else st a) mod p
  /\ st a' / 2 ^ P = (if enc_flush p a then st a / 2 ^ W else st a) / p.
Proof.
  intros [Hp Hcp]. unfold enc_ideal.
  destruct (enc_flush p a); cbn [st].
  - set (s := st a / 2 ^ W).
    assert (s mod p < p) by (apply N.mod_lt; plia).
    rewrite <- N.add_assoc.
    rewrite mod_mul_add_small, div_mul_add_small by plia. auto.
  - set (s := st a).
    assert (s mod p < p) by (apply N.mod_lt; plia).
    rewrite <- N.add_assoc.
    rewrite mod_mul_add_small, div_mul_add_small by plia. auto.
Qed.

Lemma dec_enc_ideal cum p a :
  wf_entry P cum p -> ans_inv c a ->
  dec_ideal cum p (enc_ideal cum p a) = a.
Proof.
  intros Hwf (Hinv & Hst & Hb). pose proof Hwf as [Hp Hcp].
  destruct (quantile_after_enc cum p a Hwf) as [Hq Hd].
  unfold dec_ideal. rewrite Hq, Hd. clear Hq Hd.
  unfold enc_ideal, enc_flush. fold S W in Hst, Hb. rewrite thr_eq in Hinv.
  destruct (N.leb_spec (p * 2 ^ (S - P)) (st a)) as [Hfl|Hnf]; cbn [bulk st].
  - (* flushed: the restored state is < thr, so the decoder refills *)
    set (s := st a / 2 ^ W).
    replace (s / p * p + (cum + s mod p - cum)) with s
      by (rewrite (div_mod_eq s p) at 1 by plia; plia).
    assert (Hs : s < 2 ^ (S - W)).
    { apply div_lt_upper; [apply pow2_pos|]. rewrite <- SB_split_W. exact Hst. }
    destruct (N.ltb_spec s (2 ^ (S - W))) as [_|?]; [|plia].
    destruct a as [b s0]; cbn [bulk st] in *. f_equal.
    subst s. rewrite N.mul_comm. symmetry. apply N.div_mod. apply pow2_nz.
  - replace (st a / p * p + (cum + st a mod p - cum)) with (st a)
      by (rewrite (div_mod_eq (st a) p) at 1 by plia; plia).
    destruct (N.ltb_spec (st a) (2 ^ (S - W))) as [Hlt|Hge].
    + destruct Hinv as [Hbe|?]; [|plia]. destruct a as [b s0]; cbn [bulk st] in *.
      subst b. reflexivity.
    + destruct a; reflexivity.
Qed.

Lemma enc_inv_ideal cum p a :
  wf_entry P cum p -> ans_inv c a -> ans_inv c (enc_ideal cum p a).
Proof.
  intros Hwf (Hinv & Hst & Hb). pose proof Hwf as [Hp Hcp].
  destruct (enc_eq_ideal cum p a Hwf Hst) as [_ Hlt].
  split; [|split; [exact Hlt|]].
  - clear Hlt. unfold enc_ideal, enc_flush. rewrite thr_eq in *. fold S W in Hst.
    destruct (N.leb_spec (p * 2 ^ (S - P)) (st a)) as [Hfl|Hnf]; cbn [bulk st].
    + right. set (s := st a / 2 ^ W).
      assert (p * 2 ^ (S - W - P) <= s).
      { apply div_ge_lower; [apply pow2_pos|]. rewrite <- N.mul_assoc, <- SmP_split. exact Hfl. }
      assert (2 ^ (S - W - P) <= s / p) by (apply div_ge_lower; plia).
      rewrite thr_split_P. pnia.
    + destruct Hinv as [Hbe|Hge]; [left; exact Hbe|right].
      assert (2 ^ (S - W - P) <= st a / p).
      { apply div_ge_lower; [assumption|]. rewrite thr_split_P in Hge. pnia. }
      rewrite thr_split_P. pnia.
  - unfold enc_ideal. destruct (enc_flush p a); cbn [bulk]; [|exact Hb].
    constructor; [|exact Hb]. apply N.mod_lt, pow2_nz.
Qed.

(* ---------- encode after decode (surjectivity, C04) ---------- *)
Lemma dec_inv_ideal cum p a :
  wf_entry P cum p -> ans_inv c a -> cum <= st a mod 2 ^ P < cum + p ->
  ans_inv c (dec_ideal cum p a).
Proof.
  intros Hwf (Hinv & Hst & Hb) Hq. pose proof Hwf as [Hp Hcp].
  fold S W in Hst, Hb. rewrite thr_eq in Hinv.
  pose proof (dec_state_bound (st a) cum p Hp Hcp Hst Hq) as Hbound.
  unfold dec_ideal, ans_inv. rewrite thr_eq. fold S W.
  set (s := st a / 2 ^ P * p + (st a mod 2 ^ P - cum)) in *.
  assert (HsS : s < 2 ^ S).
  { rewrite SB_split_P. assert (p <= 2 ^ P) by plia. pnia. }
  destruct (N.ltb_spec s (2 ^ (S - W))) as [Hlt|Hge].
  - destruct (bulk a) as [|w b] eqn:Eb; cbn [bulk st].
    + auto.
    + inversion Hb as [|? ? Hw Hb']; subst.
      destruct Hinv as [?|Hge]; [discriminate|].
      split; [right|split; [|exact Hb']].
      * (* s >= p * 2^(S-W-P) >= 2^(S-2W) *)
        assert (2 ^ (S - W - P) <= st a / 2 ^ P).
        { apply div_ge_lower; [apply pow2_pos|]. rewrite <- thr_split_P. exact Hge. }
        assert (Hx : 2 ^ (S - W - P) * 2 ^ W = 2 ^ (S - P)) by (symmetry; apply SmP_split).
        pose proof thr_le_SmP.
        assert (2 ^ (S - W - P) * 1 <= st a / 2 ^ P * p) by (apply N.mul_le_mono; plia).
        assert (2 ^ (S - W - P) <= s) by (subst s; plia).
        assert (2 ^ (S - W - P) * 2 ^ W <= s * 2 ^ W) by (apply N.mul_le_mono_r; assumption).
        plia.
      * rewrite SB_split_W.
        assert ((s + 1) * 2 ^ W <= 2 ^ (S - W) * 2 ^ W) by (apply N.mul_le_mono_r; plia).
        plia.
  - cbn [bulk st]. split; [right; exact Hge|split; [exact HsS|exact Hb]].
Qed.

Lemma enc_dec_ideal cum p a :
  wf_entry P cum p -> ans_inv c a -> cum <= st a mod 2 ^ P < cum + p ->
  enc_ideal cum p (dec_ideal cum p a) = a.
Proof.
  intros Hwf (Hinv & Hst & Hb) Hq. pose proof Hwf as [Hp Hcp].
  fold S W in Hst, Hb. rewrite thr_eq in Hinv.
  pose proof (dec_state_bound (st a) cum p Hp Hcp Hst Hq) as Hbound.
  unfold dec_ideal.
  set (r := st a mod 2 ^ P - cum) in *.
  set (s := st a / 2 ^ P * p + r) in *.
  assert (Hr : r < p) by (subst r; plia).
  assert (Hsd : s / p = st a / 2 ^ P) by (subst s; apply div_mul_add_small; exact Hr).
  assert (Hsm : s mod p = r) by (subst s; apply mod_mul_add_small; exact Hr).
  assert (Hback : s / p * 2 ^ P + cum + s mod p = st a).
  { rewrite Hsd, Hsm. subst r.
    rewrite (div_mod_eq (st a) (2 ^ P)) at 3 by apply pow2_nz. plia. }
  destruct (N.ltb_spec s (2 ^ (S - W))) as [Hlt|Hge].
  - destruct (bulk a) as [|w b] eqn:Eb.
    + (* empty bulk, no refill: encoder must not flush *)
      unfold enc_ideal, enc_flush; cbn [bulk st].
      destruct (N.leb_spec (p * 2 ^ (S - P)) s) as [Hfl|_].
      { pose proof thr_le_SmP. pnia. }
      rewrite Hback. destruct a as [b0 s0]; cbn [bulk st] in Eb |- *; rewrite Eb; reflexivity.
    + (* refilled: encoder flushes exactly that word *)
      inversion Hb as [|? ? Hw Hb']; subst.
      destruct Hinv as [?|Hge]; [discriminate|].
      unfold enc_ideal, enc_flush; cbn [bulk st].
      assert (Hlow : p * 2 ^ (S - W - P) <= s).
      { assert (2 ^ (S - W - P) <= st a / 2 ^ P).
        { apply div_ge_lower; [apply pow2_pos|]. rewrite <- thr_split_P. exact Hge. }
        subst s. pnia. }
      destruct (N.leb_spec (p * 2 ^ (S - P)) (s * 2 ^ W + w)) as [_|Hnf].
      2:{ rewrite SmP_split in Hnf. pnia. }
      rewrite div_mul_add_small, mod_mul_add_small by exact Hw.
      rewrite Hback. destruct a as [b0 s0]; cbn [bulk st] in Eb |- *; rewrite Eb; reflexivity.
  - unfold enc_ideal, enc_flush; cbn [bulk st].
    destruct (N.leb_spec (p * 2 ^ (S - P)) s) as [Hfl|_]; [plia|].
    rewrite Hback. destruct a as [b0 s0]; reflexivity.
Qed.

End Core.
