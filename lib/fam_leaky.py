"""Family `leaky`: LeakyQuantizer / LeakilyQuantizedDistribution (src/stream/model/quantize.rs).

Case (ints):  symb sgn pb P lo hi   dkind n params(n)...   ops...
  symb sgn pb : Symbol bits, Symbol signed (0/1), Probability bits  (instance of the harness menu)
  P           : PRECISION;  lo..=hi : the support handed to LeakyQuantizer::new
  dkind 0     : StepCdf, params = K (s_1 bits_1) .. (s_K bits_K): cdf(s - 0.5) = f64::from_bits(bits_i)
                for s_i <= s < s_{i+1} (0.0 below s_1); the inverse returns the per-query hint
  dkind 1/2/3 : Gaussian / Cauchy / Laplace, params = bits(location) bits(scale)
  dkind 4     : Binomial, params = n bits(p)
  dkind -1    : constructor only (no distribution, no ops): output is just  dbg fw|-5
  ops: 1 s              left_cumulative_and_probability(s)      -> st c p   (st 0 ok, -1 None, -5 panic)
       2 q hk hv        quantile_function(q), hint (kind,value) -> st s c p (st 0 ok, -5 panic)
                          hint kinds: 0 value as f64, 1 NaN, 2 +inf, 3 -inf, 4 value + 0.5
       3 a b c d m      quantile_function(q) for ALL q < 2^P (P <= 12), hint(q) = c + ((a*q+b) div d) mod m
                          -> r (count st s c p)*r   runs of identical results for consecutive quantiles
       4                symbol_table(): size_hint().0, then all items   -> -5 | hint r (count 0 s0 c0 p)*r
       6                encoder on every symbol lo..=hi         -> r (count st s0 c0 p)*r
                          table runs: `count` consecutive symbols from s0 with the same st and p and left
                          cumulatives c0, c0+p, c0+2p, ...
Output: dbg  fw|-5  [stop if -5 or constructor-only instance]
        K (s_i v_i)*K     observed non_leaky = (free_weight * cdf(s - 0.5)) as Probability, run-length enc.
        hyp               1 iff the observed table is monotone and bounded by free_weight
        op results..      (decode ops are skipped when dkind != 0 and hyp == 0: the real inverse is
                           not under the case's control there)
        off               number of cdf / inverse evaluations at unexpected arguments (StepCdf)
  whole case [-999997] = watchdog (quantile_function did not return), [-999998] = abort.
The model receives  [dbg K (s_i v_i)*K] ++ case  and has to reproduce the output without the observed
table (see model_io).
"""
import math
import struct

FAMILY = "leaky"
RUNNER = ("Corr.Leaky_run", "run_leaky")

PANIC, ABORT, TIMEOUT = -999999, -999998, -999997
# the third-party `probability` crate itself panicked or hung (see harness/src/fam_leaky.rs): the
# case says nothing about constriction; it is dropped from the oracles and the correspondence
FOREIGN = -999995
E_NONE, E_PANIC = -1, -5

MENU = [
    (32, 1, 32, [1, 2, 8, 12, 16, 24, 31, 32]),
    (8, 1, 8, [1, 2, 3, 4, 5, 6, 7, 8]),
    (8, 1, 16, [1, 2, 7, 8, 9, 12, 15, 16]),
    (8, 0, 16, [1, 2, 7, 8, 9, 12, 15, 16]),
    (16, 1, 16, [1, 8, 12, 15, 16]),
    (16, 0, 32, [1, 8, 12, 16, 17, 24, 31, 32]),
    (32, 1, 16, [1, 8, 12, 15, 16]),
]
NEW_ONLY = (64, 1, 32, [1, 12, 24, 31, 32])
MAX_TABLE = 70000      # largest support the generators tabulate
DENSE_MAX = 160        # largest support with one CDF breakpoint per symbol / a full quantile sweep


def bits(x):
    return struct.unpack("<Q", struct.pack("<d", x))[0]


def unbits(b):
    return struct.unpack("<d", struct.pack("<Q", b & 0xFFFFFFFFFFFFFFFF))[0]


def srange(symb, sgn):
    return (-(1 << (symb - 1)), (1 << (symb - 1)) - 1) if sgn else (0, (1 << symb) - 1)


def wrap_s(symb, sgn, z):
    smin, _ = srange(symb, sgn)
    return (z - smin) % (1 << symb) + smin


def py_new(symb, sgn, pb, P, lo, hi):
    """Mirror of LeakyQuantizer::new as the code is now (None = panic)."""
    if not lo < hi:
        return None
    maxp = (1 << P) - 1
    if hi - lo > maxp:
        return None
    ssm1 = wrap_s(symb, sgn, hi - lo) % (1 << pb)
    if ssm1 > maxp:
        return None
    return maxp - ssm1


def cast_prob(v, pb):
    """f64 -> unsigned integer `as` cast: NaN -> 0, saturating, truncating."""
    if v != v or v <= 0:
        return 0
    if v >= float(1 << pb):
        return (1 << pb) - 1
    return int(v)


def rle_lookup(pairs, s, default):
    v = default
    for st, x in pairs:
        if st <= s:
            v = x
        else:
            break
    return v


# ------------------------------------------------------------------ parsing

def parse_case(inp):
    symb, sgn, pb, P, lo, hi, dkind, n = inp[:8]
    params = inp[8:8 + n]
    ops = inp[8 + n:]
    return dict(symb=symb, sgn=sgn, pb=pb, P=P, lo=lo, hi=hi, dkind=dkind, params=params, ops=ops)


def step_pairs(cs):
    k = cs["params"][0]
    return [(cs["params"][1 + 2 * i], cs["params"][2 + 2 * i]) for i in range(k)]


def py_nl_rle(cs, fw):
    """What the harness should observe for a StepCdf case (same f64 arithmetic)."""
    res = []
    for s, b in step_pairs(cs):
        if s > cs["hi"]:
            break
        s = max(s, cs["lo"] + 1)
        v = cast_prob(float(fw) * unbits(b), cs["pb"])
        if res and res[-1][0] == s:
            res[-1] = (s, v)
        elif not res or res[-1][1] != v:
            res.append((s, v))
    if not res or res[0][0] > cs["lo"] + 1:
        if res and res[0][1] == 0:
            res[0] = (cs["lo"] + 1, 0)
        else:
            res.insert(0, (cs["lo"] + 1, 0))
    # merge equal neighbours
    out = []
    for s, v in res:
        if not out or out[-1][1] != v:
            out.append((s, v))
    return out


def model_io(inp, out):
    """-> (model input, expected model output).  Model input = observed build profile and non_leaky
    table ++ case; expected = implementation output without the observed table."""
    if out == [FOREIGN]:
        return [], [PANIC]          # run_leaky [] = [PANIC]: trivially equal
    cs = parse_case(inp)
    if len(out) >= 2 and out[0] in (0, 1):
        dbg = out[0]
        if out[1] < 0 or cs["symb"] == 64 or cs["dkind"] == -1:
            return [dbg, 0] + inp, out
        k = out[2]
        return [dbg, k] + out[3:3 + 2 * k] + inp, out[:2] + out[3 + 2 * k:]
    # whole-case abort / timeout: nothing was observed; for StepCdf the table is computable
    dbg = 1
    fw = py_new(cs["symb"], cs["sgn"], cs["pb"], cs["P"], cs["lo"], cs["hi"])
    if cs["dkind"] == 0 and fw is not None:
        pairs = py_nl_rle(cs, fw)
        return [dbg, len(pairs)] + [x for p in pairs for x in p] + inp, out
    return [dbg, 0] + inp, out


def _runs(out, o):
    n = out[o]
    if n < 0:
        raise ValueError("negative run count")
    rs = [tuple(out[o + 1 + 5 * j:o + 6 + 5 * j]) for j in range(n)]
    if rs and len(rs[-1]) != 5:
        raise ValueError("short run list")
    return rs, o + 1 + 5 * n


def _expand_ap(rs):
    res = []
    for n, st, s0, c0, p in rs:
        if n <= 0 or n > 10000000:
            raise ValueError("bad run length")
        for j in range(n):
            res.append((st, s0 + j, c0 + j * p if st == 0 else 0, p))
    return res


def parse_out(inp, out):
    """-> dict(special, dbg, fw, nl, hyp, results=[(op, args, res)], off) ; raises on malformed output."""
    cs = parse_case(inp)
    r = dict(cs=cs, special=None, dbg=None, fw=None, nl=None, hyp=None, results=[], off=None, hints=[])
    if len(out) == 1 and out[0] in (PANIC, ABORT, TIMEOUT, FOREIGN):
        r["special"] = out[0]
        return r
    r["dbg"] = out[0]
    r["fw"] = out[1]
    if out[1] < 0 or cs["symb"] == 64 or cs["dkind"] == -1:
        if len(out) != 2:
            raise ValueError("trailing output")
        return r
    k = out[2]
    r["nl"] = [(out[3 + 2 * i], out[4 + 2 * i]) for i in range(k)]
    o = 3 + 2 * k
    r["hyp"] = out[o]
    o += 1
    skipdec = cs["dkind"] != 0 and not r["hyp"]
    ops = cs["ops"]
    i = 0
    while i < len(ops):
        op = ops[i]
        if op == 1:
            r["results"].append((1, ops[i + 1], tuple(out[o:o + 3])))
            i += 2
            o += 3
        elif op == 2:
            if not skipdec:
                r["results"].append((2, tuple(ops[i + 1:i + 4]), tuple(out[o:o + 4])))
                o += 4
            i += 4
        elif op == 3:
            if not skipdec:
                rs, o = _runs(out, o)
                if sum(x[0] for x in rs) != 1 << cs["P"] or any(x[0] <= 0 for x in rs):
                    raise ValueError("sweep does not cover all quantiles")
                r["results"].append((3, tuple(ops[i + 1:i + 6]), rs))
            i += 6
        elif op == 4:
            if out[o] == E_PANIC:
                r["results"].append((4, None, None))
                o += 1
            else:
                hint = out[o]           # lower bound of symbol_table().size_hint()
                rs, o = _runs(out, o + 1)
                tbl = [(s, c, p) for st, s, c, p in _expand_ap(rs)]
                r["results"].append((4, None, tbl))
                r["hints"].append((hint, len(tbl)))
            i += 1
        elif op == 6:
            rs, o = _runs(out, o)
            r["results"].append((6, None, [(st, c, p) for st, s, c, p in _expand_ap(rs)]))
            i += 1
        else:
            raise ValueError("bad op %r" % op)
    r["off"] = out[o]
    if o + 1 != len(out):
        raise ValueError("trailing output")
    return r


# ------------------------------------------------------------------ oracles (on IMPLEMENTATION output)

def valid_support(cs):
    return cs["lo"] < cs["hi"] and cs["hi"] - cs["lo"] <= (1 << cs["P"]) - 1


def sign_ext_class(cs):
    """signed Symbol narrower than Probability and a support wider than half the symbol range:
    the size is sign-extended by the `as` cast (clean panic unless PRECISION == BITS)."""
    return cs["sgn"] == 1 and cs["symb"] < cs["pb"] and cs["hi"] - cs["lo"] >= (1 << (cs["symb"] - 1))


def _parsed(inp, out):
    try:
        return parse_out(inp, out), None
    except (IndexError, ValueError) as ex:
        return None, "malformed output (%s)" % ex


def oracle_C19(inp, out):
    """Invalid supports (empty, single element, more than 2^P symbols) are rejected by a clean panic;
    an accepted support leaves free_weight + size <= 2^P (exactly 2^P - size outside the
    sign-extension class), and valid supports outside that class are accepted."""
    r, err = _parsed(inp, out)
    if err:
        return err
    cs = r["cs"]
    if r["special"] is not None:
        if py_new(cs["symb"], cs["sgn"], cs["pb"], cs["P"], cs["lo"], cs["hi"]) is None:
            return "constructor case ended in %d" % r["special"]
        return None      # not about the constructor (see C03 / C10)
    maxp = (1 << cs["P"]) - 1
    if not valid_support(cs):
        if r["fw"] != E_PANIC:
            return "invalid support %d..=%d accepted at P=%d (free_weight %d)" % (cs["lo"], cs["hi"], cs["P"], r["fw"])
        return None
    if r["fw"] == E_PANIC:
        if sign_ext_class(cs):
            return None       # clean failure (documented observation in DESIGN.md section 5)
        return "valid support %d..=%d rejected at P=%d" % (cs["lo"], cs["hi"], cs["P"])
    size_m1 = cs["hi"] - cs["lo"]
    if r["fw"] < 0 or r["fw"] + size_m1 > maxp:
        return "free_weight %d too large for %d symbols at P=%d" % (r["fw"], size_m1 + 1, cs["P"])
    if not sign_ext_class(cs) and r["fw"] != maxp - size_m1:
        return "free_weight %d != 2^P - size = %d" % (r["fw"], maxp - size_m1)
    return None


def _scope(r):
    """C03/C05/C10 speak about accepted supports with the documented preconditions."""
    return (r["special"] is None and r["fw"] is not None and r["fw"] >= 0 and r["cs"]["symb"] != 64
            and r["cs"]["dkind"] != -1)


def _direct_table(r):
    for op, _, res in r["results"]:
        if op == 6:
            return res
    return None


def _iter_table(r):
    for op, _, res in r["results"]:
        if op == 4:
            return res
    return None


def _qruns(op, args, res):
    """-> (first quantile, last quantile, (st, s, c, p)) per listed quantile / per run of a sweep."""
    if op == 2:
        return [(args[0], args[0], res)]
    q = 0
    rs = []
    for n, st, s, c, p in res:
        rs.append((q, q + n - 1, (st, s, c, p)))
        q += n
    return rs


def oracle_C03(inp, out):
    """Hypotheses hold (observed non_leaky monotone and <= free_weight; for the real
    distribution families they are DEMANDED, which is a test of the hypothesis): the encoder's
    intervals tile [0,2^P) with non-empty intervals, no probability one, symbols outside get None,
    every quantile decodes (for every hint) to the triple the encoder reports and contains it."""
    r, err = _parsed(inp, out)
    if err:
        return err
    cs = r["cs"]
    if r["special"] is not None:
        # only in scope if the hypotheses hold, which cannot be observed here except for StepCdf
        fw = py_new(cs["symb"], cs["sgn"], cs["pb"], cs["P"], cs["lo"], cs["hi"])
        if fw is None:
            return "case ended in %d" % r["special"]
        if cs["dkind"] != 0:
            return "real distribution: case ended in %d" % r["special"]
        vals = [v for _, v in py_nl_rle(cs, fw)]
        if all(a <= b for a, b in zip(vals, vals[1:])) and all(v <= fw for v in vals):
            return "hypotheses hold but the case ended in %d" % r["special"]
        return None
    if not _scope(r):
        return None
    if not r["hyp"]:
        if cs["dkind"] != 0:
            return ("HYPOTHESIS TEST: non_leaky values of a real distribution (kind %d) are not monotone / "
                    "bounded by free_weight: %s" % (cs["dkind"], r["nl"][:6]))
        return None
    total = 1 << cs["P"]
    lo, hi = cs["lo"], cs["hi"]
    direct = _direct_table(r)
    enc = {}
    if direct is not None:
        if len(direct) != hi - lo + 1:
            return "encoder sweep has wrong length"
        acc = 0
        for j, (st, c, p) in enumerate(direct):
            if st != 0:
                return "encoder failed (%d) on in-support symbol %d" % (st, lo + j)
            if c != acc or p < 1:
                return "intervals do not tile: symbol %d has (%d,%d), expected left cumulative %d" % (lo + j, c, p, acc)
            if p >= total:
                return "symbol %d has probability one" % (lo + j)
            acc += p
            enc[lo + j] = (c, p)
        if acc != total:
            return "intervals end at %d, not 2^P" % acc
    if r["off"] != 0:
        return "%d cdf / inverse evaluations at unexpected arguments" % r["off"]
    for op, args, res in r["results"]:
        if op == 1:
            s = args
            if s < lo or s > hi:
                if res[0] != E_NONE:
                    return "symbol %d outside the support got %r" % (s, res)
            else:
                if res[0] != 0:
                    return "in-support symbol %d got %r" % (s, res)
                if s in enc and enc[s] != res[1:]:
                    return "encoder not deterministic on %d" % s
                enc.setdefault(s, res[1:])
        elif op in (2, 3):
            for q, q2, (st, s, c, p) in _qruns(op, args, res):
                if q >= total:
                    if st != E_PANIC:
                        return "quantile %d >= 2^P not refused" % q
                    continue
                if st != 0:
                    return "quantile_function(%d) failed with %d" % (q, st)
                if not (lo <= s <= hi):
                    return "quantile_function(%d) returned symbol %d outside the support" % (q, s)
                if not (c <= q and q2 < c + p):
                    return "quantile_function(%d..%d) = (%d,%d,%d) does not contain the quantile" % (q, q2, s, c, p)
                if s in enc and enc[s] != (c, p):
                    return "quantile_function(%d) = (%d,%d,%d) but the encoder reports %r" % (q, s, c, p, enc[s])
    return None


def oracle_C05(inp, out):
    """symbol_table() equals the direct encoder queries on every symbol of the support."""
    r, err = _parsed(inp, out)
    if err:
        return err
    if not _scope(r) or not r["hyp"]:
        return None
    direct, it = _direct_table(r), _iter_table(r)
    have4 = any(op == 4 for op, _, _ in r["results"])
    if have4 and it is None:
        return "symbol_table() panicked"
    if it is None:
        return None
    cs = r["cs"]
    for hint, n in r["hints"]:
        if hint > n:
            return "symbol_table().size_hint() promises at least %d items, the iterator yields %d" % (hint, n)
    if [e[0] for e in it] != list(range(cs["lo"], cs["hi"] + 1)):
        return "symbol_table() does not enumerate the support in order"
    if direct is not None:
        for (s, c, p), (st, c2, p2) in zip(it, direct):
            if st != 0 or (c, p) != (c2, p2):
                return "symbol_table entry (%d,%d,%d) != direct query (%d,%d,%d)" % (s, c, p, st, c2, p2)
    for op, args, res in r["results"]:
        if op == 1 and cs["lo"] <= args <= cs["hi"] and res[0] == 0:
            e = it[args - cs["lo"]]
            if (e[1], e[2]) != res[1:]:
                return "symbol_table entry %r != direct query %r" % (e, res)
    return None


def oracle_C09(inp, out):
    """Symbols outside [lo, hi] (anywhere in the symbol type's range) get None."""
    r, err = _parsed(inp, out)
    if err:
        return err
    if not _scope(r):
        return None
    cs = r["cs"]
    for op, args, res in r["results"]:
        if op == 1 and (args < cs["lo"] or args > cs["hi"]) and res[0] != E_NONE:
            return "symbol %d outside the support got %r" % (args, res)
    return None


def oracle_C10(inp, out):
    """Hypotheses hold: quantile_function returns (no panic, no hang, no abort) for every
    quantile < 2^P and every hint, with a symbol of the support."""
    r, err = _parsed(inp, out)
    if err:
        return err
    cs = r["cs"]
    if r["special"] is not None:
        return oracle_C03(inp, out)
    if not _scope(r) or not r["hyp"]:
        return None
    total = 1 << cs["P"]
    for op, args, res in r["results"]:
        if op in (2, 3):
            for q, q2, (st, s, c, p) in _qruns(op, args, res):
                if q < total and st != 0:
                    return "quantile_function(%d) failed with %d" % (q, st)
                if q < total and not (cs["lo"] <= s <= cs["hi"]):
                    return "quantile_function(%d) returned symbol %d outside the support" % (q, s)
                if q < total and p == 0:
                    return "quantile_function(%d) returned a zero probability" % q
    return None


def oracle_all(inp, out):
    for pid, fn in (("C19", oracle_C19), ("C03", oracle_C03), ("C05", oracle_C05), ("C09", oracle_C09),
                    ("C10", oracle_C10)):
        msg = fn(inp, out)
        if msg:
            return "%s: %s" % (pid, msg)
    return None


def _not_foreign(fn):
    def wrapped(inp, out):
        if out == [FOREIGN]:
            return None
        return fn(inp, out)
    wrapped.__doc__ = fn.__doc__
    return wrapped


ORACLES = {k: _not_foreign(v) for k, v in
           {"C03": oracle_C03, "C05": oracle_C05, "C09": oracle_C09, "C10": oracle_C10, "C19": oracle_C19,
            "C03_leaky": oracle_all}.items()}


def nontrivial(inp, out, prop):
    """Rule: constructor rejected the support, OR hypotheses hold and at least one quantile was decoded to
    a symbol different from the (clamped) hint-independent start, i.e. >= 3 distinct symbols decoded or
    a full table compared."""
    try:
        r = parse_out(inp, out)
    except (IndexError, ValueError):
        return False
    if r["special"] is not None or out == [FOREIGN]:
        return False
    if r["fw"] == E_PANIC:
        return True
    if not r["hyp"]:
        return False
    syms = set()
    tables = 0
    for op, args, res in r["results"]:
        if op == 2 and res[0] == 0:
            syms.add(res[1])
        elif op == 3:
            syms |= {x[2] for x in res if x[1] == 0}
        elif op in (4, 6) and res:
            tables += 1
    return len(syms) >= 3 or tables >= 2


def describe(inp):
    cs = parse_case(inp)
    kinds = {-1: "ctor-only", 0: "StepCdf", 1: "Gaussian", 2: "Cauchy", 3: "Laplace", 4: "Binomial"}
    if cs["dkind"] == -1:
        par = ""
    elif cs["dkind"] == 0:
        par = "%d breakpoints" % cs["params"][0]
    elif cs["dkind"] == 4:
        par = "n=%d p=%r" % (cs["params"][0], unbits(cs["params"][1]))
    else:
        par = "loc=%r scale=%r" % (unbits(cs["params"][0]), unbits(cs["params"][1]))
    opsn = {}
    i = 0
    ops = cs["ops"]
    while i < len(ops):
        opsn[ops[i]] = opsn.get(ops[i], 0) + 1
        i += {1: 2, 2: 4, 3: 6, 4: 1, 6: 1}.get(ops[i], 1)
    return "LeakyQuantizer<f64,%s%d,u%d,%d>::new(%d..=%d) %s(%s) ops=%r" % (
        "i" if cs["sgn"] else "u", cs["symb"], cs["pb"], cs["P"], cs["lo"], cs["hi"], kinds.get(cs["dkind"]), par, opsn)


# ------------------------------------------------------------------ generators

def _header(symb, sgn, pb, P, lo, hi):
    return [symb, sgn, pb, P, lo, hi]


def _pick_support(rng, symb, sgn, pb, P, max_size=None, wide=False):
    """A support that the constructor accepts (when possible)."""
    smin, smax = srange(symb, sgn)
    cap = min(1 << P, smax - smin + 1, max_size or 4096)
    if sgn and symb < pb and P < pb:
        cap = min(cap, 1 << (symb - 1))      # wider ones are sign-extended and panic
    if cap < 2:
        cap = 2
    r = rng.random()
    if wide:
        size = rng.choice([cap, cap - 1, max(2, cap - rng.randrange(0, 30)), max(2, (cap * 3) // 4 + rng.randrange(0, 8))])
    elif r < 0.15:
        size = 2
    elif r < 0.3:
        size = rng.choice([3, 4, 5])
    elif r < 0.45:
        size = cap
    elif r < 0.55:
        size = max(2, cap - rng.randrange(0, 4))
    else:
        size = rng.randint(2, max(2, min(cap, rng.choice([8, 40, 300, cap]))))
    size = max(2, min(size, cap))
    r = rng.random()
    if r < 0.25:
        lo = smin
    elif r < 0.5:
        lo = smax - size + 1
    elif r < 0.7 and sgn:
        lo = max(smin, min(smax - size + 1, -(size // 2) + rng.randrange(-2, 3)))
    else:
        lo = rng.randint(smin, smax - size + 1)
    return lo, lo + size - 1


def _dip1_points(rng, lo, hi, fw):
    """monotone in units of 1/fw except for a few places where the observed integer drops by EXACTLY
    one quantum: the slack of one per symbol then makes right == left cumulative, i.e. a zero
    probability (finding F16: must be a panic, not a zero inside NonZero)"""
    n = hi - lo
    base = sorted(rng.randint(0, max(fw, 1)) for _ in range(n))
    for _ in range(rng.choice([1, 1, 2, 3])):
        j = rng.randrange(n)
        if j + 1 < n and base[j] >= 1:
            base[j + 1] = base[j] - 1
    return [(lo + 1 + i, min(1.0, (base[i] + 0.5) / fw) if fw > 0 else 0.5) for i in range(n)]


def _rle_points(pts):
    out = []
    for s, v in pts:
        if not out or bits(out[-1][1]) != bits(v):
            out.append((s, v))
    return out


def _cdf_shape(rng, lo, hi, fw, adversarial):
    """-> list of (s, cdf float) breakpoints for s in lo+1..=hi (run-length encoded)."""
    n = hi - lo
    kind = rng.choice(["flat0", "flat1", "flat", "onestep", "onestep", "stairs", "stairs", "smooth", "cut",
                       "dense"])
    if adversarial:
        kind = rng.choice(["shuffle", "over1", "weird", "dip", "dip1", "dip1"])
    if n > DENSE_MAX:
        # one breakpoint per symbol is too much volume for the in-Coq model run: few steps only
        kind = rng.choice(["nm_stairs", "over_stairs"]) if adversarial else \
            rng.choice(["flat0", "flat1", "flat", "onestep", "onestep", "stairs", "stairs", "cut"])
    pts = []
    if kind == "flat0":
        pts = [(lo + 1, 0.0)]
    elif kind == "flat1":
        pts = [(lo + 1, 1.0)]
    elif kind == "flat":
        pts = [(lo + 1, rng.random())]
    elif kind == "onestep":
        k = rng.choice([lo + 1, hi, lo + 2 if n >= 2 else hi, hi - 1 if n >= 2 else hi, rng.randint(lo + 1, hi)])
        a, b = rng.choice([(0.0, 1.0), (0.0, 1.0), (1e-9, 1 - 1e-9), (0.25, 0.75)])
        pts = [(lo + 1, a), (k, b)] if k > lo + 1 else [(lo + 1, b)]
    elif kind in ("stairs", "cut"):
        k = min(n, rng.randint(1, 12))
        pos = sorted(rng.sample(range(lo + 1, hi + 1), k))
        a, b = (0.0, 1.0) if kind == "stairs" else tuple(sorted([rng.random(), rng.random()]))
        vals = sorted(a + (b - a) * rng.random() for _ in range(k))
        if rng.random() < 0.3:
            vals[-1] = b
        pts = list(zip(pos, vals))
    elif kind == "smooth":
        mu = rng.uniform(lo - 0.3 * n, hi + 0.3 * n)
        sc = max(1e-3, rng.choice([0.3, 1.0, n / 8.0, n / 2.0, 4.0 * n]))
        pts = [(s, 1.0 / (1.0 + math.exp(-max(-700, min(700, (s - 0.5 - mu) / sc))))) for s in range(lo + 1, hi + 1)]
    elif kind == "dense":
        # every boundary its own value close to k/fw: exercises exact ties of the truncation
        base = sorted(rng.randint(0, max(fw, 0)) for _ in range(n))
        pts = [(lo + 1 + i, min(1.0, (base[i] + rng.choice([0.0, 0.5, 0.999])) / fw) if fw > 0 else rng.random())
               for i in range(n)]
    elif kind in ("nm_stairs", "over_stairs"):
        k = min(n, rng.randint(2, 10))
        pos = sorted(rng.sample(range(lo + 1, hi + 1), k))
        top = 1.0 if kind == "nm_stairs" else rng.choice([1.001, 2.0, 1e6])
        pts = [(x, rng.uniform(0.0, top)) for x in pos]
    elif kind == "shuffle":
        pts = [(s, rng.random()) for s in range(lo + 1, hi + 1)]
    elif kind == "dip":
        vals = sorted(rng.random() for _ in range(n))
        j = rng.randrange(n)
        vals[j] = max(0.0, vals[j] - rng.choice([1e-3, 0.1, 0.5]))
        pts = [(lo + 1 + i, vals[i]) for i in range(n)]
    elif kind == "dip1":
        pts = _dip1_points(rng, lo, hi, fw)
    elif kind == "over1":
        vals = sorted(rng.uniform(0.0, rng.choice([1.001, 1.5, 3.0, 1e6])) for _ in range(n))
        pts = [(lo + 1 + i, vals[i]) for i in range(n)]
    else:
        specials = [float("nan"), float("inf"), -float("inf"), -0.5, -0.0, 1e300, 5e-324, 2.0, 0.0, 1.0]
        pts = [(s, rng.choice(specials) if rng.random() < 0.2 else rng.random()) for s in range(lo + 1, hi + 1)]
    # run-length encode
    out = []
    for s, v in pts:
        if not out or bits(out[-1][1]) != bits(v):
            out.append((s, v))
    return out


def _true_table(cs_lo, cs_hi, P, nl_of):
    """Left cumulatives per symbol when the hypotheses hold."""
    L = {cs_lo: 0}
    for s in range(cs_lo + 1, cs_hi + 1):
        L[s] = nl_of(s) + (s - cs_lo)
    return L


def _hint_for(rng, symb, sgn, lo, hi, true_s):
    smin, smax = srange(symb, sgn)
    r = rng.random()
    if r < 0.2:
        return (0, true_s + rng.choice([0, 0, 1, -1, 2, -2, 5, -7]))
    if r < 0.3:
        return (0, lo + hi - true_s)
    if r < 0.45:
        return (0, rng.choice([lo, hi, lo - 1, hi + 1, (lo + hi) // 2, smin, smax, 0]))
    if r < 0.55:
        return (0, rng.choice([1, -1]) * (1 << rng.choice([7, 8, 15, 16, 31, 32, 40, 63, 64, 90])))
    if r < 0.62:
        return (rng.choice([1, 2, 3]), 0)
    if r < 0.7:
        return (4, true_s + rng.choice([0, -1, 1]))
    if r < 0.8:
        return (0, rng.randint(smin, smax))
    return (0, rng.randint(lo, hi))


def _sweep_hint(rng, symb, sgn, lo, hi, P):
    smin, smax = srange(symb, sgn)
    size = hi - lo + 1
    r = rng.random()
    if r < 0.25:       # constant
        return [0, 0, rng.choice([lo, hi, (lo + hi) // 2, smin, smax, lo - 3, hi + 3, 1 << 70, -(1 << 70)]), 1, 1]
    if r < 0.5:        # roughly linear (right for a flat distribution)
        return [size, rng.randrange(0, 1 << P), lo + rng.choice([0, 0, -2, 3]), 1 << P, 1 << 80]
    if r < 0.7:        # reversed
        return [-size, 0, hi + rng.choice([0, 1, -1]), 1 << P, 1 << 80]
    # pseudo-random over (a bit more than) the support
    return [rng.randrange(1, 1 << 20) | 1, rng.randrange(0, 1 << 20), lo - rng.choice([0, 2, 50]), 1,
            size + rng.choice([0, 4, 100])]


def _step_case(rng, symb, sgn, pb, P, lo, hi, adversarial, n_listed=40, sweep_prob=0.5, force_shape=None):
    fw = py_new(symb, sgn, pb, P, lo, hi)
    hdr = _header(symb, sgn, pb, P, lo, hi)
    if fw is None:
        return hdr + [-1, 0]
    shape = force_shape if force_shape is not None else _cdf_shape(rng, lo, hi, fw, adversarial)
    params = [len(shape)] + [x for s, v in shape for x in (s, bits(v))]
    cs = dict(lo=lo, hi=hi, pb=pb, params=params)
    nl_pairs = py_nl_rle(cs, fw)
    smin, smax = srange(symb, sgn)
    size = hi - lo + 1
    ops = []
    if size <= 6000:
        ops += [6]
    ops += [4]
    # encoder probes: outside neighbours, far outside, type extremes, inside
    for s in {lo - 1, hi + 1, smin, smax, rng.randint(smin, smax), rng.randint(smin, smax), lo, hi,
              rng.randint(lo, hi)}:
        if smin <= s <= smax:
            ops += [1, s]
    total = 1 << P
    if P <= 12 and size <= DENSE_MAX and rng.random() < (sweep_prob if P <= 9 else 0.25 * sweep_prob):
        for _ in range(rng.choice([1, 1, 2]) if P <= 9 else 1):
            ops += [3] + _sweep_hint(rng, symb, sgn, lo, hi, P)
    else:
        # listed quantiles around interval ends
        if size <= 6000:
            L = _true_table(lo, hi, P, lambda s: rle_lookup(nl_pairs, s, 0))
            edges = sorted(set(L.values()))
        else:
            L = None
            edges = sorted({rle_lookup(nl_pairs, s, 0) + (s - lo) for s, _ in nl_pairs} | {0})
        import bisect
        if L is not None:
            ks = sorted(L.items(), key=lambda e: e[1])
            kc = [c for _, c in ks]
        for _ in range(n_listed):
            r = rng.random()
            if r < 0.1:
                q = rng.choice([0, total - 1, 1, total - 2, total // 2])
            elif r < 0.7 and edges:
                q = rng.choice(edges) + rng.choice([-1, 0, 0, 1])
            else:
                q = rng.randrange(total)
            q = max(0, min(total - 1, q))
            if L is not None:
                idx = bisect.bisect_right(kc, q) - 1
                true_s = ks[max(0, idx)][0]
            else:
                true_s = rng.randint(lo, hi)
            hk, hv = _hint_for(rng, symb, sgn, lo, hi, true_s)
            ops += [2, q, hk, hv]
        if P < pb and rng.random() < 0.3:
            ops += [2, rng.choice([total, total + 1, (1 << pb) - 1]), 0, lo]
    return hdr + [0, len(params)] + params + ops


def gen_step(rng):
    """StepCdf cases over the whole menu: step-shaped / flat / cut / dense CDFs, supports at the ends of the
    symbol range, all hint shapes; ~15% adversarial CDFs (hypotheses fail: correspondence only)."""
    symb, sgn, pb, plist = rng.choice(MENU)
    P = rng.choice(plist)
    lo, hi = _pick_support(rng, symb, sgn, pb, P, max_size=rng.choice([16, 300, 4096]))
    return _step_case(rng, symb, sgn, pb, P, lo, hi, adversarial=rng.random() < 0.15, n_listed=rng.choice([10, 40]))


def gen_f16(rng):
    """The F16 shape: small supports whose CDF drops by exactly one quantum somewhere (zero probability
    for the symbol there); table dump, encoder dump and quantiles around every interval end."""
    symb, sgn, pb, plist = rng.choice(MENU)
    P = rng.choice(plist)
    lo, hi = _pick_support(rng, symb, sgn, pb, P, max_size=rng.choice([8, 16, 64]))
    fw = py_new(symb, sgn, pb, P, lo, hi)
    shape = _rle_points(_dip1_points(rng, lo, hi, fw)) if fw is not None and hi > lo else None
    return _step_case(rng, symb, sgn, pb, P, lo, hi, adversarial=True, n_listed=40, force_shape=shape)


def gen_f13(rng):
    """The F13 shape: supports wider than a quarter / half of a narrow signed symbol type, all mass far
    to one side, hints at the other end, so that the exponential search doubles `step` up to its cap."""
    symb, sgn, pb, P = rng.choice([(8, 1, 8, 8), (8, 1, 8, 8), (8, 1, 16, 16), (16, 1, 16, 16), (16, 1, 16, 16),
                                   (8, 1, 8, 7), (8, 0, 16, 8), (8, 0, 16, 12), (16, 0, 32, 16), (16, 1, 16, 15)])
    smin, smax = srange(symb, sgn)
    cap = min(1 << P, smax - smin + 1)
    r = rng.random()
    if r < 0.4:
        lo, hi = smin, smin + cap - 1 - rng.choice([0, 0, 1, 27, cap // 8])
    elif r < 0.7:
        hi = smax
        lo = hi - (cap - 1 - rng.choice([0, 0, 1, 27, cap // 8]))
    else:
        size = rng.randint(max(2, cap // 4), cap)
        lo = rng.randint(smin, smax - size + 1)
        hi = lo + size - 1
    if hi - lo < 1:
        hi = lo + 1
    fw = py_new(symb, sgn, pb, P, lo, hi)
    k = rng.choice([lo + 1, hi, rng.randint(lo + 1, hi), lo + 2, hi - 1])
    k = max(lo + 1, min(hi, k))
    shape = rng.choice([[(lo + 1, 0.0)], [(lo + 1, 1.0)], [(lo + 1, 0.0), (k, 1.0)] if k > lo + 1 else [(lo + 1, 1.0)]])
    hdr = _header(symb, sgn, pb, P, lo, hi)
    if fw is None:
        return hdr + [-1, 0]
    params = [len(shape)] + [x for s, v in shape for x in (s, bits(v))]
    total = 1 << P
    nl_pairs = py_nl_rle(dict(lo=lo, hi=hi, pb=pb, params=params), fw)

    def left(s):
        return 0 if s <= lo else rle_lookup(nl_pairs, s, 0) + (s - lo)

    def true_sym(q):
        a, b = lo, hi          # largest s with left(s) <= q
        while a < b:
            mid = (a + b + 1) // 2
            if left(mid) <= q:
                a = mid
            else:
                b = mid - 1
        return a

    big = hi - lo >= 6000
    ops = []
    if not big or rng.random() < 0.2:
        ops += [4]
    if not big:
        ops += [6]
    if P <= 8 and rng.random() < 0.6:
        ops += [3, 0, 0, rng.choice([lo, hi, smin, smax]), 1, 1]
        ops += [3, 0, 0, rng.choice([lo, hi, smin, smax]), 1, 1]
    for _ in range(24):
        q = rng.choice([0, 1, total - 1, total - 2, total // 2, rng.randrange(total), hi - lo, hi - lo - 1, k - lo,
                        k - lo - 1, k - lo + (fw or 0)])
        q = max(0, min(total - 1, q))
        hk, hv = rng.choice([(0, lo), (0, hi), (0, smin), (0, smax), (2, 0), (3, 0), (1, 0), (0, -300), (0, 300),
                             (0, (lo + hi) // 2), (0, rng.randint(smin, smax))])
        ops += [1, true_sym(q), 2, q, hk, hv]
    return hdr + [0, len(params)] + params + ops


_LOCS = [0.0, 0.3, -0.5, 1e-300, -1e-300, 1e-5, 1.0, -3.7, 10.0, 100.0, -100.5, 1e5, -1e5, 1e10, 1e300, -1e300, -300.7]
_SCALES = [1e-300, 1e-100, 1e-40, 1e-10, 1e-3, 0.01, 0.3, 0.5, 1.0, 3.0, 10.0, 100.0, 1e5, 1e20, 1e100, 1e300]


def gen_real(rng):
    """Real probability::distribution::{Gaussian, Cauchy, Laplace, Binomial} over wide parameter grids with
    supports cutting either tail.  The harness checks the oracle hypotheses on the observed non_leaky
    values (a TEST of the hypothesis); the model gets those values and an arbitrary hint."""
    symb, sgn, pb, plist = rng.choice(MENU)
    P = rng.choice([p for p in plist if p >= 2] or plist)
    lo, hi = _pick_support(rng, symb, sgn, pb, P, max_size=rng.choice([16, 200, 1500]))
    smin, smax = srange(symb, sgn)
    dkind = rng.choice([1, 1, 2, 3, 4])
    if dkind == 4:
        n = rng.choice([1, 2, 10, 100, 999, max(1, hi - lo), max(1, min(hi, 900))])
        p = rng.choice([1e-30, 1e-20, 1e-10, 0.1, 0.4, 0.5, 0.9, 0.999])
        if n >= 1000 and p < 0.1:
            p = 0.4
        params = [n, bits(p)]
        if not sgn and rng.random() < 0.5:
            size = hi - lo + 1
            lo, hi = 0, min(smax, max(1, min(n, size - 1)))
            if py_new(symb, sgn, pb, P, lo, hi) is None:
                lo, hi = 0, 1
    else:
        r = rng.random()
        scale = rng.choice(_SCALES)
        if r < 0.35:
            loc = rng.choice(_LOCS)
        elif r < 0.7:
            loc = rng.uniform(lo - 2.0, hi + 2.0)
        else:
            loc = rng.choice([lo, hi, lo - 0.5, hi + 0.5]) + rng.choice([-5, -1, 0, 1, 5]) * min(scale, 1e6)
        if rng.random() < 0.4:
            scale = rng.choice([0.1, 0.5, 1.0, 2.0, (hi - lo) / 6.0 + 0.01, float(hi - lo + 1), 50.0 * (hi - lo + 1)])
        params = [bits(loc), bits(scale)]
    ops = [6, 4]
    for s in {lo - 1, hi + 1, smin, smax}:
        if smin <= s <= smax:
            ops += [1, s]
    total = 1 << P
    if P <= 12 and rng.random() < 0.5:
        ops += [3, 0, 0, lo, 1, 1]
    else:
        for _ in range(30):
            q = rng.choice([0, total - 1, 1, total // 2, rng.randrange(total), rng.randrange(total)])
            ops += [2, q, 0, rng.choice([lo, hi, (lo + hi) // 2])]
    return _header(symb, sgn, pb, P, lo, hi) + [dkind, len(params)] + params + ops


def gen_new(rng):
    """Constructor stream (C19): empty / single-element / too large supports (also beyond 2^ProbBits for
    Symbol wider than Probability), the largest accepted ones, the sign-extension class of narrow signed
    symbols, all instances incl. the constructor-only (i64,u32).  Accepted small supports are pushed
    through the C03 checker with a flat or one-step CDF."""
    inst = rng.choice(MENU + [NEW_ONLY, NEW_ONLY, (32, 1, 16, [1, 8, 12, 15, 16])])
    symb, sgn, pb, plist = inst
    P = rng.choice(plist)
    smin, smax = srange(symb, sgn)
    maxp = (1 << P) - 1
    r = rng.random()
    lo = rng.choice([smin, 0, -1 if sgn else 1, rng.randint(smin, smax), smax - 1, smax])
    if r < 0.12:
        hi = lo
    elif r < 0.24:
        hi = rng.choice([lo - 1, smin, lo - rng.randint(1, 1000)])
    elif r < 0.5:
        hi = lo + rng.choice([maxp, maxp + 1, maxp - 1, maxp + 2, 2 * maxp + 1])
    elif r < 0.62:
        hi = lo + rng.choice([1 << pb, (1 << pb) + 1, (1 << pb) - 1, (1 << pb) + maxp, 2 << pb, (1 << pb) + 5])
    elif r < 0.72:
        hi = lo + rng.choice([1 << (symb - 1), (1 << (symb - 1)) - 1, (1 << symb) - 1, (1 << (symb - 1)) + 5])
    elif r < 0.8:
        lo, hi = smin, smax
    else:
        hi = lo + rng.randint(1, max(1, min(maxp, 50)))
    # keep the support inside the symbol type (the constructor takes Symbol values)
    if hi > smax:
        shift = hi - smax
        lo, hi = lo - shift, hi - shift
    if lo < smin or hi < smin:
        lo, hi = max(lo, smin), max(hi, smin)
    lo, hi = min(lo, smax), min(hi, smax)
    hdr = _header(symb, sgn, pb, P, lo, hi)
    fw = py_new(symb, sgn, pb, P, lo, hi)
    if symb == 64 or fw is None or hi - lo > MAX_TABLE:
        return hdr + [-1, 0]
    if hi - lo > 3000:
        return hdr + [0, 3, 1, lo + 1, bits(rng.choice([0.0, 1.0, 0.5]))] + [2, 0, 0, lo, 2, (1 << P) - 1, 0, hi]
    return _step_case(rng, symb, sgn, pb, P, lo, hi, adversarial=False, n_listed=8, sweep_prob=0.3)
