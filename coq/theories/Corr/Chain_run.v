(* Corr/Chain_run.v -- runs an integer-encoded chain coder history on Model/Chain.v.
   Mirror of harness/src/fam_chain.rs; the format is documented in lib/fam_chain.py. *)
From CV Require Import Corr.Parse Model.Chain.
Open Scope Z_scope.

Definition E_IMPOSSIBLE := -1.
Definition E_IMPORT := -2.
Definition E_OOR := -3.
Definition E_OOD := -4.
Definition E_EXPORT := -5.
Definition LOST := -7.

Definition cerr_code (e : cerr) : Z :=
  match e with
  | ImpossibleSymbol => E_IMPOSSIBLE
  | OutOfRemainders => E_OOR
  | OutOfCompressedData => E_OOD
  end.

Definition out_words (ws : list N) : list Z := Z.of_nat (length ws) :: map nZ ws.

Definition out_dump (ch : chain) : list Z :=
  nZ (hc ch) :: nZ (hr ch) :: out_words (rev (comp ch)) ++ out_words (rev (rems ch)).

(* live coder with its current PRECISION, or None once a failed conversion consumed it *)
Definition cst := option (N * chain).

Definition out_final (s : cst) : list Z :=
  match s with Some (_, ch) => out_dump ch | None => [LOST] end.

Definition out_export (r : option (list N * list N)) : list Z :=
  match r with
  | Some (pre, suf) => 0 :: out_words pre ++ out_words suf
  | None => [E_EXPORT]
  end.

Definition do_init (c : ccfg) (P : N) (kind : Z) (ws : list N) : list Z * cst :=
  let r := match kind with
           | 0 => chain_from_binary c P ws
           | 1 => chain_from_compressed c P ws
           | _ => chain_from_remainders c P ws
           end in
  match r with
  | inl ch => ([0], Some (P, ch))
  | inr rest => (E_IMPORT :: out_words rest, None)
  end.

(* decode_symbols: one result per item *)
Fixpoint dec_seq (c : ccfg) (ms : list rmodel) (seq : list Z) (ch : chain) : list Z * chain :=
  match seq with
  | [] => ([], ch)
  | m :: r =>
      match chain_decode c (get_model ms m) ch with
      | Ok (s, ch') => let '(o, ch'') := dec_seq c ms r ch' in (0 :: s :: o, ch'')
      | Err e => let '(o, ch'') := dec_seq c ms r ch in (cerr_code e :: o, ch'')
      end
  end.

(* encode_symbols over (model, symbol) pairs: stops at the first error *)
Fixpoint enc_seq (c : ccfg) (ms : list rmodel) (l : list (Z * Z)) (ch : chain) : Z * chain :=
  match l with
  | [] => (0, ch)
  | (m, s) :: r =>
      match chain_encode c (get_model ms m) s ch with
      | Ok ch' => enc_seq c ms r ch'
      | Err e => (cerr_code e, ch)
      end
  end.

Fixpoint read_pairs (k : nat) (l : list Z) : list (Z * Z) * list Z :=
  match k with
  | O => ([], l)
  | S k' => match l with
            | m :: s :: r => let '(ps, rest) := read_pairs k' r in ((m, s) :: ps, rest)
            | _ => ([], [])
            end
  end.

(* round trip, forward part.  items: m >= 0 decode with model m; -P' change precision.
   undo list: (m, s) with m >= 0, or (-Pold, 0) *)
Fixpoint rt_forward (c : ccfg) (ms : list rmodel) (items : list Z) (P : N) (ch : chain)
    (undo : list (Z * Z)) : list Z * cst * list (Z * Z) :=
  match items with
  | [] => ([], Some (P, ch), undo)
  | it :: r =>
      if it <? 0 then
        match chain_change c P (zN (- it)) ch with
        | Ok ch' => let '(o, s, u) := rt_forward c ms r (zN (- it)) ch' ((- nZ P, 0) :: undo) in
                    (0 :: o, s, u)
        | Err e => ([cerr_code e], None, undo)
        end
      else
        match chain_decode c (get_model ms it) ch with
        | Ok (s, ch') => let '(o, st, u) := rt_forward c ms r P ch' ((it, s) :: undo) in
                         (0 :: s :: o, st, u)
        | Err e => let '(o, st, u) := rt_forward c ms r P ch undo in (cerr_code e :: o, st, u)
        end
  end.

Fixpoint rt_undo (c : ccfg) (ms : list rmodel) (undo : list (Z * Z)) (P : N) (ch : chain)
    : list Z * cst :=
  match undo with
  | [] => ([], Some (P, ch))
  | (m, s) :: r =>
      if m <? 0 then
        match chain_change c P (zN (- m)) ch with
        | Ok ch' => let '(o, st) := rt_undo c ms r (zN (- m)) ch' in (0 :: o, st)
        | Err e => ([cerr_code e], None)
        end
      else
        match chain_encode c (get_model ms m) s ch with
        | Ok ch' => let '(o, st) := rt_undo c ms r P ch' in (0 :: o, st)
        | Err e => let '(o, st) := rt_undo c ms r P ch in (cerr_code e :: o, st)
        end
  end.

(* re-import through into_remainders / from_remainders.
   route 1: concatenation prefix ++ suffix; route 2: suffix alone, prefix kept apart *)
Definition reimport (c : ccfg) (route : Z) (P : N) (ch : chain) : list Z * cst :=
  let '(pre, suf) := chain_into_remainders c ch in
  let '(arg, kept) := if route =? 1 then (pre ++ suf, []) else (suf, pre) in
  match chain_from_remainders c P arg with
  | inl ch' => (0 :: out_words kept, Some (P, ch'))
  | inr rest => (E_IMPORT :: out_words rest, None)
  end.

Definition b2z (b : bool) : Z := if b then 1 else 0.

Fixpoint chain_loop (fuel : nat) (c : ccfg) (ms : list rmodel) (l : list Z) (st : cst) : list Z :=
  match fuel with
  | O => out_final st
  | S fuel' =>
    match st with
    | None => out_final st
    | Some (P, ch) =>
      match l with
      | [] => out_final st
      | 1 :: m :: s :: r =>
          match chain_encode c (get_model ms m) s ch with
          | Ok ch' => 0 :: chain_loop fuel' c ms r (Some (P, ch'))
          | Err e => cerr_code e :: chain_loop fuel' c ms r st
          end
      | 2 :: m :: r =>
          match chain_decode c (get_model ms m) ch with
          | Ok (s, ch') => 0 :: s :: chain_loop fuel' c ms r (Some (P, ch'))
          | Err e => cerr_code e :: chain_loop fuel' c ms r st
          end
      | 3 :: p' :: r =>
          match chain_change c P (zN p') ch with
          | Ok ch' => 0 :: chain_loop fuel' c ms r (Some (zN p', ch'))
          | Err e => cerr_code e :: chain_loop fuel' c ms r None
          end
      | 4 :: p' :: r =>
          0 :: chain_loop fuel' c ms r (Some (zN p', chain_increase c (zN p') ch))
      | 5 :: p' :: r =>
          match chain_decrease c (zN p') ch with
          | Ok ch' => 0 :: chain_loop fuel' c ms r (Some (zN p', ch'))
          | Err e => cerr_code e :: chain_loop fuel' c ms r None
          end
      | 6 :: r => out_dump ch ++ chain_loop fuel' c ms r st
      | 8 :: r => out_export (chain_into_binary c ch) ++ chain_loop fuel' c ms r st
      | 9 :: r => out_export (chain_into_compressed c ch) ++ chain_loop fuel' c ms r st
      | 10 :: route :: r =>
          let '(o, st') := reimport c (route + 1) P ch in
          o ++ chain_loop fuel' c ms r st'
      | 11 :: r =>
          b2z (chain_is_whole ch) :: b2z (chain_maybe_exhausted ch) :: b2z (chain_maybe_full ch)
            :: chain_loop fuel' c ms r st
      | 12 :: r =>
          let '(seq, r') := read_list r in
          let '(o, ch') := dec_seq c ms seq ch in
          o ++ chain_loop fuel' c ms r' (Some (P, ch'))
      | 13 :: k :: r =>
          let '(ps, r') := read_pairs (Z.to_nat k) r in
          let '(e, ch') := enc_seq c ms (rev ps) ch in
          e :: chain_loop fuel' c ms r' (Some (P, ch'))
      | 14 :: r =>
          let '(seq, r') := read_list r in
          let '(o, _) := dec_seq c ms seq ch in
          o ++ chain_loop fuel' c ms r' st
      | 15 :: kind :: r =>
          let '(ws, r') := read_list r in
          let '(o, st') := do_init c P kind (map zN ws) in
          o ++ chain_loop fuel' c ms r' st'
      | 16 :: route :: r =>
          let '(items, r') := read_list r in
          let '(o1, st1, undo) := rt_forward c ms items P ch [] in
          match st1 with
          | None => o1 ++ chain_loop fuel' c ms r' None
          | Some (P1, ch1) =>
              let '(o2, st2) := if route =? 0 then ([], Some (P1, ch1)) else reimport c route P1 ch1 in
              match st2 with
              | None => o1 ++ o2 ++ chain_loop fuel' c ms r' None
              | Some (P2, ch2) =>
                  let '(o3, st3) := rt_undo c ms undo P2 ch2 in
                  o1 ++ o2 ++ o3 ++ chain_loop fuel' c ms r' st3
              end
          end
      | _ => [PANIC]
      end
    end
  end.

Definition run_chain (inp : list Z) : list Z :=
  match inp with
  | wb :: sb :: pb :: r =>
      let c := {| cWB := zN wb; cSB := zN sb; cPB := zN pb |} in
      let '(ms, r1) := read_models r in
      match r1 with
      | p0 :: kind :: r2 =>
          let '(ws, r3) := read_list r2 in
          let '(o, st) := do_init c (zN p0) kind (map zN ws) in
          o ++ chain_loop (S (length r3)) c ms r3 st
      | _ => [PANIC]
      end
  | _ => [PANIC]
  end.
