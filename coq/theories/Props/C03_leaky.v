(* Props/C03_leaky.v -- leaky quantizer (src/stream/model/quantize.rs): the leaky parts of
   C03 (valid and exactly invertible), C05 (iterated table = direct queries), C09 (symbols
   outside the support), C10 (decoding is total) and C19 (constructor).  Statements only.

   The floating-point distribution is not modelled: [nl x] is the integer
   [(free_weight * cdf(x - 0.5)) as Probability] the code obtains for the boundary below
   symbol x, [hintv] the value [inverse(..)] returns.  "Documented preconditions" = nl is
   monotone on the support and bounded by free_weight (a cdf that is monotone with values in
   [0,1]; float multiplication by a positive constant and the cast are monotone).
   All theorems hold for signed and unsigned symbol types of every width >= 2 bits, every
   Probability width, every PRECISION in 1..=BITS, both build profiles ([dbg]). *)
From CV Require Import Base.Bits Model.EModel Model.Leaky.
From CV Require Import Proofs.Leaky_base Proofs.Leaky_enc Proofs.Leaky_search Proofs.Leaky_dec
                       Proofs.Leaky_main.
Open Scope Z_scope.

(* ---------------------------------------------------------------- C03 *)
(* valid and exactly invertible, for EVERY inverse hint *)
Theorem C03_leaky_valid : forall c dbg lo hi nl fw,
  wf_lcfg c -> in_sym c lo -> in_sym c hi -> lq_new c lo hi = Some fw ->
  (forall x, lo < x <= hi -> (nl x <= fw)%N) ->
  (forall x y, lo < x -> x <= y -> y <= hi -> (nl x <= nl y)%N) ->
  (* the iterated symbol table tiles [0, 2^P) with non-empty intervals, has at least two
     entries with distinct symbols, and lists exactly what the encoder reports *)
  (exists t, lq_table c dbg lo hi nl = Some t /\ wf_table (PR c) t
             /\ (forall s cu p, In (s, cu, p) t <-> lq_enc c dbg lo hi nl s = EOk cu p))
  (* every symbol of the support is encodable *)
  /\ (forall s, lo <= s <= hi -> exists cu p, lq_enc c dbg lo hi nl s = EOk cu p)
  (* non-empty intervals inside [0, 2^P), no probability one *)
  /\ (forall s cu p, lq_enc c dbg lo hi nl s = EOk cu p ->
        (0 < p)%N /\ (p < 2 ^ PR c)%N /\ (cu + p <= 2 ^ PR c)%N)
  (* the search terminates (fuel 2*bits+8, inner loops bits+1), does not panic, and returns
     a triple of the encoder that contains the quantile *)
  /\ (forall hintv q, (q < 2 ^ PR c)%N ->
        exists s cu p, lq_quantile c dbg lo hi nl hintv q = DOk s cu p
                       /\ lq_enc c dbg lo hi nl s = EOk cu p /\ (cu <= q < cu + p)%N)
  (* ... precisely the triple of the symbol whose interval contains the quantile *)
  /\ (forall hintv s cu p q, lq_enc c dbg lo hi nl s = EOk cu p -> (cu <= q < cu + p)%N ->
        lq_quantile c dbg lo hi nl hintv q = DOk s cu p).
Proof.
  intros c dbg lo hi nl fw Hwf Hlo Hhi Hnew Hbd Hmono.
  exact (valid_all c dbg lo hi nl fw Hwf Hlo Hhi Hnew Hbd Hmono).
Qed.

(* the same as an [emodel]: every coder theorem that takes a [wf_model] applies *)
Theorem C03_leaky_wf_model : forall c dbg lo hi nl fw hintf,
  wf_lcfg c -> in_sym c lo -> in_sym c hi -> lq_new c lo hi = Some fw ->
  (forall x, lo < x <= hi -> (nl x <= fw)%N) ->
  (forall x y, lo < x -> x <= y -> y <= hi -> (nl x <= nl y)%N) ->
  wf_model (leaky_emodel c dbg lo hi nl hintf).
Proof.
  intros c dbg lo hi nl fw hintf Hwf Hlo Hhi Hnew Hbd Hmono.
  exact (leaky_wf_model c dbg lo hi nl fw Hwf Hlo Hhi Hnew Hbd Hmono hintf).
Qed.

(* the doubling guard of fix 713db9b: [step] stays a positive power of two below the type's
   maximum (this is where F13 lived: without it a signed step reaches MIN) *)
Theorem C03_leaky_step_guard : forall c k,
  wf_lcfg c -> 0 <= k <= kmax c ->
  dbl_step c (2 ^ k) = 2 ^ (if k <? kmax c then k + 1 else k)
  /\ 1 <= 2 ^ k /\ 2 ^ k <= smax c.
Proof.
  intros c k Hwf Hk. exact (step_guard c k Hwf Hk).
Qed.

(* ---------------------------------------------------------------- C05 *)
Theorem C05_leaky_table_eq_direct : forall c dbg lo hi nl fw,
  wf_lcfg c -> in_sym c lo -> in_sym c hi -> lq_new c lo hi = Some fw ->
  (forall x, lo < x <= hi -> (nl x <= fw)%N) ->
  (forall x y, lo < x -> x <= y -> y <= hi -> (nl x <= nl y)%N) ->
  exists t, lq_table c dbg lo hi nl = Some t
    /\ (forall s cu p, In (s, cu, p) t <-> lq_enc c dbg lo hi nl s = EOk cu p)
    /\ (forall s, In s (syms t) <-> lo <= s <= hi) /\ NoDup (syms t).
Proof.
  intros c dbg lo hi nl fw Hwf Hlo Hhi Hnew Hbd Hmono.
  exact (table_eq_direct c dbg lo hi nl fw Hwf Hlo Hhi Hnew Hbd Hmono).
Qed.

(* ---------------------------------------------------------------- C09 *)
(* the range check precedes every cast: any symbol (an unbounded Z) outside [lo, hi] gets
   None, for every nl whatsoever *)
Theorem C09_leaky_outside : forall c dbg lo hi nl s,
  s < lo \/ hi < s -> lq_enc c dbg lo hi nl s = ENone.
Proof.
  intros c dbg lo hi nl s. exact (enc_outside_any c dbg lo hi nl s).
Qed.

(* ---------------------------------------------------------------- C10 *)
(* total for EVERY hint of the symbol type and every sufficient fuel; needs only that nl is
   bounded by free_weight (not monotonicity) *)
Theorem C10_leaky_decode_total : forall c dbg lo hi nl fw q fuel ifuel hint,
  wf_lcfg c -> in_sym c lo -> in_sym c hi -> lq_new c lo hi = Some fw ->
  (forall x, lo < x <= hi -> (nl x <= fw)%N) ->
  (q < 2 ^ PR c)%N -> in_sym c hint ->
  (N.to_nat (2 * SYMB c + 8) <= fuel)%nat -> (N.to_nat (SYMB c + 1) <= ifuel)%nat ->
  exists s cu p, lq_dec c dbg lo hi nl q ifuel fuel hint = DOk s cu p
    /\ lo <= s <= hi /\ lq_enc c dbg lo hi nl s = EOk cu p /\ (cu <= q < cu + p)%N.
Proof.
  intros c dbg lo hi nl fw q fuel ifuel hint Hwf Hlo Hhi Hnew Hbd.
  exact (dec_total_any c dbg lo hi nl fw Hwf Hlo Hhi Hnew Hbd q fuel ifuel hint).
Qed.

(* a quantile >= 2^P is refused by the assertion, before the distribution is consulted *)
Theorem C10_leaky_bad_quantile : forall c dbg lo hi nl q fuel ifuel hint,
  wf_lcfg c -> (2 ^ PR c <= q)%N -> lq_dec c dbg lo hi nl q ifuel fuel hint = DPanic.
Proof.
  intros c dbg lo hi nl q fuel ifuel hint. exact (dec_bad_quantile c dbg lo hi nl q fuel ifuel hint).
Qed.

(* ---------------------------------------------------------------- C19 *)
(* LeakyQuantizer::new (None = panic, a clean failure).  The support size is narrowed to
   Probability with an `as` cast; for a signed Symbol NARROWER than Probability a distance of
   at least half the symbol range is sign-extended ([sign_ext_class]): such supports panic
   unless PRECISION == BITS, where they are accepted with a smaller free_weight. *)
Theorem C19_leaky_new_rejects : forall c lo hi,
  wf_lcfg c -> in_sym c lo -> in_sym c hi ->
  let sign_ext := sgn c = true /\ (SYMB c < PB c)%N /\ 2 ^ (Z.of_N (SYMB c) - 1) <= hi - lo in
  (* empty and single-element supports *)
  (hi <= lo -> lq_new c lo hi = None)
  (* more than 2^P elements (also beyond the range of Probability) *)
  /\ (2 ^ Z.of_N (PR c) < hi - lo + 1 -> lq_new c lo hi = None)
  (* accepted: room for the leak of every symbol; exact outside the sign-extension class *)
  /\ (forall fw, lq_new c lo hi = Some fw ->
        lo < hi /\ Z.of_N fw + (hi - lo + 1) <= 2 ^ Z.of_N (PR c)
        /\ (~ sign_ext -> Z.of_N fw = 2 ^ Z.of_N (PR c) - (hi - lo + 1)))
  (* valid supports are accepted ... *)
  /\ (lo < hi -> hi - lo + 1 <= 2 ^ Z.of_N (PR c) -> ~ sign_ext ->
        lq_new c lo hi = Some (Z.to_N (2 ^ Z.of_N (PR c) - (hi - lo + 1))))
  (* ... except the sign-extended ones, which panic below full precision *)
  /\ (sign_ext -> (PR c < PB c)%N -> lq_new c lo hi = None).
Proof.
  intros c lo hi Hwf Hlo Hhi. exact (new_rejects c lo hi Hwf Hlo Hhi).
Qed.

(* ---------------------------------------------------------------- pins *)
Check C03_leaky_valid : forall c dbg lo hi nl fw,
  wf_lcfg c -> in_sym c lo -> in_sym c hi -> lq_new c lo hi = Some fw ->
  (forall x, lo < x <= hi -> (nl x <= fw)%N) ->
  (forall x y, lo < x -> x <= y -> y <= hi -> (nl x <= nl y)%N) ->
  (exists t, lq_table c dbg lo hi nl = Some t /\ wf_table (PR c) t
             /\ (forall s cu p, In (s, cu, p) t <-> lq_enc c dbg lo hi nl s = EOk cu p))
  /\ (forall s, lo <= s <= hi -> exists cu p, lq_enc c dbg lo hi nl s = EOk cu p)
  /\ (forall s cu p, lq_enc c dbg lo hi nl s = EOk cu p ->
        (0 < p)%N /\ (p < 2 ^ PR c)%N /\ (cu + p <= 2 ^ PR c)%N)
  /\ (forall hintv q, (q < 2 ^ PR c)%N ->
        exists s cu p, lq_quantile c dbg lo hi nl hintv q = DOk s cu p
                       /\ lq_enc c dbg lo hi nl s = EOk cu p /\ (cu <= q < cu + p)%N)
  /\ (forall hintv s cu p q, lq_enc c dbg lo hi nl s = EOk cu p -> (cu <= q < cu + p)%N ->
        lq_quantile c dbg lo hi nl hintv q = DOk s cu p).

Check C10_leaky_decode_total : forall c dbg lo hi nl fw q fuel ifuel hint,
  wf_lcfg c -> in_sym c lo -> in_sym c hi -> lq_new c lo hi = Some fw ->
  (forall x, lo < x <= hi -> (nl x <= fw)%N) ->
  (q < 2 ^ PR c)%N -> in_sym c hint ->
  (N.to_nat (2 * SYMB c + 8) <= fuel)%nat -> (N.to_nat (SYMB c + 1) <= ifuel)%nat ->
  exists s cu p, lq_dec c dbg lo hi nl q ifuel fuel hint = DOk s cu p
    /\ lo <= s <= hi /\ lq_enc c dbg lo hi nl s = EOk cu p /\ (cu <= q < cu + p)%N.

Check C09_leaky_outside : forall c dbg lo hi nl s,
  s < lo \/ hi < s -> lq_enc c dbg lo hi nl s = ENone.

(* ---------------------------------------------------------------- non-vacuity *)
(* the F13 instance: i8 symbols -128..=100, u8 probabilities, P = 8, all mass far left *)
Definition c_i8_u8 := {| SYMB := 8; sgn := true; PB := 8; PR := 8 |}.

Example ex_wf : wf_lcfg c_i8_u8.
Proof. unfold wf_lcfg. cbn. lia. Qed.

Example ex_f13_new : lq_new c_i8_u8 (-128) 100 = Some 27%N.
Proof. vm_compute. reflexivity. Qed.

Example ex_f13_dec :
  lq_quantile c_i8_u8 true (-128) 100 (fun _ => 27%N) (-300) 255 = DOk 100 255 1
  /\ lq_enc c_i8_u8 true (-128) 100 (fun _ => 27%N) 100 = EOk 255 1.
Proof. vm_compute. split; reflexivity. Qed.

(* a non-trivial step-shaped table satisfies the hypotheses (P = PB = 8, support 7 symbols) *)
Example ex_hyps :
  let nl := fun x => if x <? 0 then 10%N else if x <? 2 then 100%N else 249%N in
  lq_new c_i8_u8 (-3) 3 = Some 249%N
  /\ (forall x, -3 < x <= 3 -> (nl x <= 249)%N)
  /\ (forall x y, -3 < x -> x <= y -> y <= 3 -> (nl x <= nl y)%N)
  /\ lq_table c_i8_u8 true (-3) 3 nl
     = Some [(-3, 0%N, 11%N); (-2, 11%N, 1%N); (-1, 12%N, 91%N); (0, 103%N, 1%N); (1, 104%N, 150%N);
             (2, 254%N, 1%N); (3, 255%N, 1%N)].
Proof.
  cbv zeta. split; [vm_compute; reflexivity|]. split; [|split].
  - intros x Hx. destruct (Z.ltb_spec x 0); [lia|]. destruct (Z.ltb_spec x 2); lia.
  - intros x y H1 H2 H3.
    destruct (Z.ltb_spec x 0); destruct (Z.ltb_spec y 0); destruct (Z.ltb_spec x 2);
      destruct (Z.ltb_spec y 2); lia.
  - vm_compute. reflexivity.
Qed.

(* the constructor on the instances named in DESIGN.md section 5 and in finding F14 *)
Example ex_new_i8_u32_full :     (* LeakyQuantizer::<_, i8, u32, 24>::new(-128..=127) panics *)
  lq_new {| SYMB := 8; sgn := true; PB := 32; PR := 24 |} (-128) 127 = None.
Proof. vm_compute. reflexivity. Qed.

Example ex_new_i8_u16_full_prec :  (* accepted at P = BITS with a sign-extended size *)
  lq_new {| SYMB := 8; sgn := true; PB := 16; PR := 16 |} (-128) 100 = Some 27%N.
Proof. vm_compute. reflexivity. Qed.

Example ex_new_i32_u16_alias :   (* F14, fixed by 642e4b6: 65537 symbols at 12 bits *)
  lq_new {| SYMB := 32; sgn := true; PB := 16; PR := 12 |} 0 65536 = None.
Proof. vm_compute. reflexivity. Qed.

Print Assumptions C03_leaky_valid.
Print Assumptions C03_leaky_wf_model.
Print Assumptions C03_leaky_step_guard.
Print Assumptions C05_leaky_table_eq_direct.
Print Assumptions C09_leaky_outside.
Print Assumptions C10_leaky_decode_total.
Print Assumptions C10_leaky_bad_quantile.
Print Assumptions C19_leaky_new_rejects.
