(* Props/C12_ans_bits.v -- C12 for the ANS coder in bits (real logarithms). Statements only.
   Depends on the standard library's axiomatisation of the reals (see Print Assumptions). *)
From CV Require Import Base.Bits Model.EModel Model.Ans Proofs.Ans_size Proofs.Ans_size_real.
From Coq Require Import Reals.
Open Scope R_scope.

(* bits occupied after encoding n symbols from the empty coder
     <= StateBits + sum_i (P_i - log2 p_i) + sum_i log2 (1 + 2^-(StateBits - WordBits - P_i)) *)
Theorem C12_ans_bits : forall c l,
  wf_cfg c -> Forall (entry_ok c) l ->
  let a := encode_entries c l ans_empty in
  ans_words c a <> [] ->
  RN (WB c * N.of_nat (length (ans_words c a))) <= RN (SB c) + info_bits l + overhead_bits c l.
Proof. intros c l Hc. exact (ans_size_bits c Hc l). Qed.

(* default preset: the per-symbol rounding term is below 0.006 bit *)
Theorem C12_default_overhead :
  lg (Kof {| WB := 32; SB := 64 |} 24 + 1) - lg (Kof {| WB := 32; SB := 64 |} 24) < 6 / 1000.
Proof. rewrite default_overhead_is. exact default_overhead_small. Qed.

Print Assumptions C12_ans_bits.
Print Assumptions C12_default_overhead.
