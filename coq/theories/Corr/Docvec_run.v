(* Corr/Docvec_run.v -- the documentation's byte-exact example outputs.
   The (cum, p) pairs of the five documented Gaussian models are pinned here; the harness
   re-derives them from the real crate on every run, so a change of the quantiser or of the
   coders' bit streams shows up as a correspondence failure. *)
From CV Require Import Corr.Parse Model.Ans Model.AnsRef Model.Range Model.RangeSpec.
Open Scope Z_scope.

(* symbols [23, -15, 78, 43, -69], DefaultLeakyQuantizer::new(-100..=100), PRECISION = 24 *)
Definition readme_pairs : list (N * N) :=
  [(1749961, 319560); (4911060, 230397); (16387837, 37118); (3502497, 137664); (15510116, 507038)]%N.

Definition readme_entries : list (N * N * N) := map (fun '(cu, p) => (24%N, cu, p)) readme_pairs.

Definition pairs_out : list Z := flat_map (fun '(cu, p) => [nZ cu; nZ p]) readme_pairs.

Definition out_ws (ws : list N) : list Z := Z.of_nat (length ws) :: map nZ ws.

(* ANS: encode_symbols_reverse pushes the LAST symbol first *)
Definition readme_ans_words : list N := ans_ref 32 64 (rev readme_entries).

(* range coder: symbols in order; words = digits of the seal point of the exact interval *)
Definition readme_range_words : list N :=
  spec_words {| rWB := 32; rSB := 64; rPB := 32 |} readme_entries.

Definition run_docvec (inp : list Z) : list Z :=
  match inp with
  | 0 :: _ => pairs_out ++ out_ws readme_ans_words
  | 1 :: _ => pairs_out ++ out_ws readme_range_words
  | _ => [PANIC]
  end.
