(* Proofs/FloatQ_skip.v -- the division-free first loop of the lazy quantile_function never skips
   past the symbol that owns the quantile: [fq_skip_ok] holds for every model built by
   [fq_lazy_new], hence the lazy decoder equals the eager table's decoder for EVERY quantile.

   Side conditions on the float format (both Rust formats satisfy them, see the end of the file):
     3 <= prec           (1 + 2 eps is representable, unit roundoff <= 1/8)
     66 <= emax          (every 64-bit integer converts to a finite float with room to spare) *)
From Coq Require Import ZArith NArith List Bool Reals Lia Lra Psatz.
From Flocq Require Import Core IEEE754.BinarySingleNaN Relative.
From CV Require Import Base.Bits Model.EModel Model.FloatQ Proofs.Table_lemmas Proofs.FloatQ_float
  Proofs.FloatQ_cdf Proofs.FloatQ_lazy.
Set Default Timeout 60.

(* ------------------------------------------------------------------ real-number core *)

(* R < d'/es, es over-estimates s by (1+4u)(1-u), d' over-estimates D by (1+u): then even after
   another rounding of the product, R*s stays <= D *)
Lemma skip_core_real (u D R s es d' : R) :
  (0 < u <= / 8)%R -> (0 < D)%R -> (0 <= R)%R -> (0 < s)%R ->
  (d' <= D * (1 + u))%R -> ((1 + 4 * u) * s * (1 - u) <= es)%R -> (R * es < d')%R ->
  (R * s * (1 + u) <= D)%R.
Proof.
  intros [Hu0 Hu8] HD HR Hs Hd Hes Hlt.
  assert (Hu8' : (u <= 1 / 8)%R) by lra.
  set (a := (R * s)%R).
  assert (Ha : (0 <= a)%R) by (apply Rmult_le_pos; lra).
  assert (H1 : (a * ((1 + 4 * u) * (1 - u)) <= D * (1 + u))%R).
  { assert (R * ((1 + 4 * u) * s * (1 - u)) <= R * es)%R by (apply Rmult_le_compat_l; assumption).
    unfold a. nra. }
  assert (Hk : (0 < (1 + 4 * u) * (1 - u))%R) by nra.
  assert (H2 : ((1 + u) * (1 + u) <= (1 + 4 * u) * (1 - u))%R) by nra.
  assert (H3 : (a * (1 + u) * ((1 + 4 * u) * (1 - u)) <= D * ((1 + 4 * u) * (1 - u)))%R).
  { assert (a * ((1 + 4 * u) * (1 - u)) * (1 + u) <= D * (1 + u) * (1 + u))%R
      by (apply Rmult_le_compat_r; lra).
    assert (D * ((1 + u) * (1 + u)) <= D * ((1 + 4 * u) * (1 - u)))%R
      by (apply Rmult_le_compat_l; lra).
    lra. }
  apply Rmult_le_reg_r with (1 := Hk). exact H3.
Qed.

Section SkipFloat.
Variables prec emax : Z.
Context (Hprec : Prec_gt_0 prec) (Hmax : Prec_lt_emax prec emax).
Hypothesis Hp3 : (3 <= prec)%Z.
Hypothesis He66 : (66 <= emax)%Z.
Notation float := (binary_float prec emax).
Notation fexp := (SpecFloat.fexp prec emax).
Notation rnd := (round radix2 fexp ZnearestE).
Notation fadd := (fq_add prec emax Hprec Hmax).
Notation fmul := (fq_mul prec emax Hprec Hmax).
Notation fdiv := (fq_div prec emax Hprec Hmax).
Notation cast := (fq_to_N prec emax).
Notation NN := (NN prec emax).
Notation pinf := (pinf prec emax).
Notation u := (/ 2 * bpow radix2 (- prec + 1))%R.
Notation ofN := (fq_of_N prec emax Hprec Hmax).

#[local] Instance fexp_valid' : Valid_exp fexp := fexp_correct prec emax Hprec.

Lemma u_bounds : (0 < u <= / 8)%R.
Proof.
  pose proof (bpow_gt_0 radix2 (- prec + 1)) as H0.
  assert (H : (bpow radix2 (- prec + 1) <= bpow radix2 (-2))%R) by (apply bpow_le; lia).
  change (bpow radix2 (-2)) with (/ 4)%R in H.
  split; lra.
Qed.

(* relative error of rounding in the normal range *)
Lemma rel_err (x : R) :
  (bpow radix2 (2 - emax) <= Rabs x)%R ->
  exists dl, (Rabs dl <= u)%R /\ rnd x = (x * (1 + dl))%R.
Proof.
  intros Hx.
  apply (relative_error_N_FLT_ex radix2 (3 - emax - prec) prec Hprec (fun x => negb (Z.even x)) x).
  replace (3 - emax - prec + prec - 1)%Z with (2 - emax)%Z by lia. exact Hx.
Qed.

Lemma rel_err_le (x : R) : (bpow radix2 (2 - emax) <= x)%R -> (rnd x <= x * (1 + u))%R.
Proof.
  intros Hx. pose proof (bpow_gt_0 radix2 (2 - emax)) as Hb.
  destruct (rel_err x) as (dl & Hdl & ->); [rewrite Rabs_pos_eq; lra|].
  apply Rabs_le_inv in Hdl. apply Rmult_le_compat_l; lra.
Qed.

Lemma rel_err_ge (x : R) : (bpow radix2 (2 - emax) <= x)%R -> (x * (1 - u) <= rnd x)%R.
Proof.
  intros Hx. pose proof (bpow_gt_0 radix2 (2 - emax)) as Hb.
  destruct (rel_err x) as (dl & Hdl & ->); [rewrite Rabs_pos_eq; lra|].
  apply Rabs_le_inv in Hdl. apply Rmult_le_compat_l; lra.
Qed.

(* generic_format facts *)
Lemma fmt_bpow (e : Z) : (3 - emax - prec <= e)%Z -> generic_format radix2 fexp (bpow radix2 e).
Proof.
  intros He. apply generic_format_bpow. unfold SpecFloat.fexp, SpecFloat.emin.
  unfold Prec_gt_0 in Hprec. lia.
Qed.

Lemma fmt_IZR (z : Z) : (Z.abs z <= 2 ^ prec)%Z -> generic_format radix2 fexp (IZR z).
Proof.
  intros Hz.
  destruct (Z.eq_dec (Z.abs z) (2 ^ prec)) as [He|Hne].
  - assert (Hb : IZR (Z.abs z) = bpow radix2 prec).
    { rewrite He. rewrite <- (IZR_Zpower radix2) by (unfold Prec_gt_0 in Hprec; lia). reflexivity. }
    destruct (Z.abs_spec z) as [[_ Ha]|[_ Ha]]; rewrite Ha in Hb.
    + rewrite Hb. apply fmt_bpow. lia.
    + replace (IZR z) with (- IZR (- z))%R by (rewrite opp_IZR; lra).
      apply generic_format_opp. rewrite Hb. apply fmt_bpow. lia.
  - replace (IZR z) with (F2R (Float radix2 z 0)) by (unfold F2R; simpl; lra).
    apply (generic_format_FLT radix2 (3 - emax - prec) prec).
    exists (Float radix2 z 0); [reflexivity| |].
    + cbn [Fnum]. change (Z.abs z < 2 ^ prec)%Z. lia.
    + cbn [Fexp]. lia.
Qed.

Lemma rnd_le_generic (x y : R) : generic_format radix2 fexp y -> (x <= y)%R -> (rnd x <= y)%R.
Proof. intros. apply round_le_generic; try typeclasses eauto; assumption. Qed.

(* a representable number below a rounded value is below the exact value *)
Lemma lt_rnd_inv (r x : R) : generic_format radix2 fexp r -> (r < rnd x)%R -> (r < x)%R.
Proof.
  intros Hr Hlt. destruct (Rlt_or_le r x) as [H|H]; [exact H|].
  pose proof (rnd_le_generic x r Hr H). lra.
Qed.

(* ------------------------------------------------------------------ integer -> float *)

Lemma bpow64_lt_emax : (bpow radix2 64 < bpow radix2 emax)%R.
Proof. apply bpow_lt. lia. Qed.

Lemma IZR_N_lt_bpow64 (d : N) : (d < 2 ^ 64)%N -> (IZR (Z.of_N d) <= bpow radix2 64)%R.
Proof.
  intros Hd. change (bpow radix2 64) with (IZR (2 ^ 64)). apply IZR_le.
  change (2 ^ 64)%Z with (Z.of_N (2 ^ 64)). lia.
Qed.

Lemma ofN_finite (d : N) : (d < 2 ^ 64)%N ->
  is_finite (ofN d) = true /\ B2R (ofN d) = rnd (IZR (Z.of_N d)).
Proof.
  intros Hd. unfold fq_of_N.
  pose proof (binary_normalize_correct prec emax Hprec Hmax mode_NE (Z.of_N d) 0 false) as H.
  simpl round_mode in H. cbv zeta in H.
  assert (HF : F2R (Float radix2 (Z.of_N d) 0) = IZR (Z.of_N d)) by (unfold F2R; simpl; lra).
  rewrite HF in H.
  assert (H0 : (0 <= IZR (Z.of_N d))%R) by (apply IZR_le; lia).
  assert (Hr : (rnd (IZR (Z.of_N d)) <= bpow radix2 64)%R).
  { apply rnd_le_generic; [apply fmt_bpow; lia|apply IZR_N_lt_bpow64; exact Hd]. }
  pose proof (rnd_nonneg prec emax Hprec _ H0) as Hr0.
  pose proof bpow64_lt_emax as Hb.
  rewrite Rlt_bool_true in H by (rewrite Rabs_pos_eq; lra).
  destruct H as (HR & HFin & _). split; assumption.
Qed.

Lemma ofN_zero : ofN 0 = B754_zero false.
Proof. reflexivity. Qed.

(* ------------------------------------------------------------------ the constant 1 + 2 eps *)

Definition c12 : float :=
  fadd (fadd (fq_one prec emax Hprec Hmax) (fq_eps prec emax Hprec Hmax)) (fq_eps prec emax Hprec Hmax).

Lemma one_correct : is_finite (fq_one prec emax Hprec Hmax) = true /\ B2R (fq_one prec emax Hprec Hmax) = 1%R.
Proof.
  unfold fq_one.
  pose proof (binary_normalize_correct prec emax Hprec Hmax mode_NE 1 0 false) as H.
  simpl round_mode in H. cbv zeta in H.
  assert (HF : F2R (Float radix2 1 0) = 1%R) by (unfold F2R; simpl; lra).
  rewrite HF in H.
  assert (Hg : generic_format radix2 fexp 1) by (apply (fmt_bpow 0); lia).
  rewrite round_generic in H by (try typeclasses eauto; exact Hg).
  assert (Hb : (1 < bpow radix2 emax)%R) by (apply (bpow_lt radix2 0 emax); lia).
  rewrite Rlt_bool_true in H by (rewrite Rabs_pos_eq; lra).
  destruct H as (HR & HFin & _). split; assumption.
Qed.

Lemma eps_correct : is_finite (fq_eps prec emax Hprec Hmax) = true
  /\ B2R (fq_eps prec emax Hprec Hmax) = bpow radix2 (1 - prec).
Proof.
  unfold fq_eps.
  pose proof (binary_normalize_correct prec emax Hprec Hmax mode_NE 1 (1 - prec) false) as H.
  simpl round_mode in H. cbv zeta in H.
  assert (HF : F2R (Float radix2 1 (1 - prec)) = bpow radix2 (1 - prec)) by (unfold F2R; simpl; lra).
  rewrite HF in H.
  assert (Hg : generic_format radix2 fexp (bpow radix2 (1 - prec))) by (apply fmt_bpow; lia).
  rewrite round_generic in H by (try typeclasses eauto; exact Hg).
  assert (Hb : (bpow radix2 (1 - prec) < bpow radix2 emax)%R) by (apply bpow_lt; lia).
  pose proof (bpow_gt_0 radix2 (1 - prec)).
  rewrite Rlt_bool_true in H by (rewrite Rabs_pos_eq; lra).
  destruct H as (HR & HFin & _). split; assumption.
Qed.

Lemma eps_u : bpow radix2 (1 - prec) = (2 * u)%R.
Proof. replace (- prec + 1)%Z with (1 - prec)%Z by lia. lra. Qed.

(* x + y for finite x, y with a representable, small, exact sum *)
Lemma add_exact (x y : float) :
  is_finite x = true -> is_finite y = true ->
  generic_format radix2 fexp (B2R x + B2R y) -> (Rabs (B2R x + B2R y) <= 2)%R ->
  is_finite (fadd x y) = true /\ B2R (fadd x y) = (B2R x + B2R y)%R.
Proof.
  intros Hx Hy Hg Hb.
  pose proof (Bplus_correct prec emax Hprec Hmax mode_NE x y Hx Hy) as H.
  simpl round_mode in H.
  rewrite round_generic in H by (try typeclasses eauto; exact Hg).
  assert (Hb2 : (2 < bpow radix2 emax)%R) by (apply (bpow_lt radix2 1 emax); lia).
  rewrite Rlt_bool_true in H by lra.
  destruct H as (HR & HFin & _). unfold fq_add. split; assumption.
Qed.

Lemma fmt_one_plus (k : Z) : (1 <= k <= 2)%Z ->
  generic_format radix2 fexp (1 + IZR k * bpow radix2 (1 - prec)).
Proof.
  intros Hk.
  assert (Hpow : (4 <= 2 ^ (prec - 1))%Z).
  { change 4%Z with (2 ^ 2)%Z. apply Z.pow_le_mono_r; lia. }
  replace (1 + IZR k * bpow radix2 (1 - prec))%R
    with (F2R (Float radix2 (2 ^ (prec - 1) + k) (1 - prec))).
  - apply (generic_format_FLT radix2 (3 - emax - prec) prec).
    exists (Float radix2 (2 ^ (prec - 1) + k) (1 - prec)); [reflexivity| |].
    + cbn [Fnum]. change (Z.abs (2 ^ (prec - 1) + k) < 2 ^ prec)%Z.
      replace prec with (prec - 1 + 1)%Z at 2 by lia. rewrite Z.pow_add_r by lia. lia.
    + cbn [Fexp]. lia.
  - unfold F2R. cbn [Fnum Fexp]. rewrite plus_IZR.
    change 2%Z with (radix_val radix2). rewrite IZR_Zpower by lia.
    rewrite Rmult_plus_distr_r. rewrite <- bpow_plus.
    replace (prec - 1 + (1 - prec))%Z with 0%Z by lia. simpl bpow at 1. reflexivity.
Qed.

Lemma c12_correct : is_finite c12 = true /\ B2R c12 = (1 + 4 * u)%R.
Proof.
  destruct one_correct as [F1 R1]. destruct eps_correct as [Fe Re].
  destruct u_bounds as [Hu0 Hu8].
  pose proof eps_u as Heu.
  destruct (add_exact (fq_one prec emax Hprec Hmax) (fq_eps prec emax Hprec Hmax) F1 Fe) as [F2 R2].
  { rewrite R1, Re. replace (1 + bpow radix2 (1 - prec))%R with (1 + IZR 1 * bpow radix2 (1 - prec))%R by lra.
    apply fmt_one_plus. lia. }
  { rewrite R1, Re, Heu. rewrite Rabs_pos_eq; lra. }
  destruct (add_exact _ (fq_eps prec emax Hprec Hmax) F2 Fe) as [F3 R3].
  { rewrite R2, R1, Re.
    replace (1 + bpow radix2 (1 - prec) + bpow radix2 (1 - prec))%R
      with (1 + IZR 2 * bpow radix2 (1 - prec))%R by lra.
    apply fmt_one_plus. lia. }
  { rewrite R2, R1, Re, Heu. rewrite Rabs_pos_eq; lra. }
  unfold c12. split; [exact F3|]. rewrite R3, R2, R1, Re, Heu. lra.
Qed.

(* ------------------------------------------------------------------ scale, enlarged scale, lower bound *)

(* what the constructor guarantees about [scale]: +inf, or finite and positive, and when it is
   subnormal then the free weight is tiny *)
Definition scale_good (scale : float) (fw : N) : Prop :=
  scale = pinf \/
  (is_finite scale = true /\ (0 < B2R scale)%R /\
   ((bpow radix2 (2 - emax) <= B2R scale)%R \/ (fw <= 3)%N)).

Lemma c12_pos_finite : exists m e Hb, c12 = B754_finite false m e Hb.
Proof.
  destruct c12_correct as [Fc Rc]. destruct u_bounds as [Hu0 _].
  destruct (finite_zero_or_pos prec emax c12 Fc) as [(s & Hz)|(m & e & Hb & Hc & _)].
  - rewrite Rc. lra.
  - rewrite Hz in Rc. simpl in Rc. lra.
  - eauto.
Qed.

Lemma es_cases (scale : float) (fw : N) : scale_good scale fw ->
  fmul c12 scale = pinf \/
  (is_finite scale = true /\ is_finite (fmul c12 scale) = true
   /\ B2R (fmul c12 scale) = rnd (B2R c12 * B2R scale)).
Proof.
  intros [->|(Fs & Hs0 & _)].
  - left. destruct c12_pos_finite as (m & e & Hb & ->). reflexivity.
  - destruct c12_correct as [Fc Rc]. destruct u_bounds as [Hu0 _].
    destruct (mul_finite prec emax Hprec Hmax c12 scale Fc ltac:(rewrite Rc; lra) Fs ltac:(lra))
      as [(Hf & HB & _)|(Hp & _)].
    + right. auto.
    + left. exact Hp.
Qed.

Lemma finite_B2R0_zero (x : float) : is_finite x = true -> B2R x = 0%R -> exists s, x = B754_zero s.
Proof.
  intros Hf H0. destruct x as [s|s| |s m e Hb]; try discriminate; [eauto|].
  exfalso. simpl in H0. apply eq_0_F2R in H0. destruct s; discriminate.
Qed.

Lemma lb_cases (d : N) (es : float) : (d < 2 ^ 64)%N ->
  es = pinf \/ (is_finite es = true /\ (0 < B2R es)%R) ->
  let lb := fdiv (ofN d) es in
  (exists s, lb = B754_zero s) \/
  (is_finite es = true /\ (0 < B2R es)%R /\ (1 <= d)%N /\
   ((is_finite lb = true /\ B2R lb = rnd (B2R (ofN d) / B2R es))
    \/ (lb = pinf /\ (bpow radix2 emax <= rnd (B2R (ofN d) / B2R es))%R))).
Proof.
  intros Hd Hes lb. destruct (ofN_finite d Hd) as [Fx Rx].
  destruct Hes as [->|[Fes Hes0]].
  - left. subst lb. unfold fq_div.
    destruct (ofN d) as [s|s| |s m e Hb]; try discriminate; simpl; eauto.
  - destruct (N.eq_dec d 0) as [->|Hd0].
    + left. subst lb. rewrite ofN_zero. unfold fq_div.
      destruct (finite_zero_or_pos prec emax es Fes ltac:(lra)) as [(s & Hz)|(m & e & Hb & Hc & _)].
      * rewrite Hz in Hes0. simpl in Hes0. lra.
      * rewrite Hc. simpl. eauto.
    + right. split; [exact Fes|]. split; [exact Hes0|]. split; [lia|].
      subst lb. unfold fq_div.
      assert (HD1 : (1 <= IZR (Z.of_N d))%R) by (apply IZR_le; lia).
      assert (Hx1 : (1 <= B2R (ofN d))%R).
      { rewrite Rx. apply (rnd_ge_generic prec emax Hprec); [apply (fmt_bpow 0); lia|exact HD1]. }
      pose proof (Bdiv_correct prec emax Hprec Hmax mode_NE (ofN d) es ltac:(lra)) as H.
      simpl round_mode in H.
      assert (Hq : (0 <= B2R (ofN d) / B2R es)%R).
      { unfold Rdiv. apply Rmult_le_pos; [lra|]. left. apply Rinv_0_lt_compat. exact Hes0. }
      pose proof (rnd_nonneg prec emax Hprec _ Hq) as Hr0.
      destruct (Rlt_bool_spec (Rabs (rnd (B2R (ofN d) / B2R es))) (bpow radix2 emax)) as [Hlt|Hge].
      * left. destruct H as (HR & HF & _). split; [rewrite HF; exact Fx|exact HR].
      * right. rewrite Rabs_pos_eq in Hge by exact Hr0. split; [|exact Hge].
        rewrite (finite_pos_sign prec emax (ofN d) Fx ltac:(lra)) in H.
        rewrite (finite_pos_sign prec emax es Fes Hes0) in H.
        unfold binary_overflow in H. simpl in H. apply B2SF_pinf in H. exact H.
Qed.

(* the loop test [R >= lb] on R in [0, +inf] *)
Lemma ge_zero_true (R : float) s : NN R -> fq_ge prec emax R (B754_zero s) = true.
Proof.
  intros [->|[Fr Hr0]]; [reflexivity|].
  unfold fq_ge. rewrite (Bcompare_correct prec emax R (B754_zero s) Fr eq_refl).
  simpl B2R. destruct (Rcompare_spec (B2R R) 0); try reflexivity. lra.
Qed.

Lemma ge_false_finite (R lb : float) : NN R -> is_finite lb = true ->
  fq_ge prec emax R lb = false -> is_finite R = true /\ (B2R R < B2R lb)%R.
Proof.
  intros [->|[Fr Hr0]] Fl H.
  - exfalso. destruct lb as [s|s| |s m e Hb]; try discriminate; unfold fq_ge in H; simpl in H; discriminate.
  - split; [exact Fr|]. unfold fq_ge in H. rewrite (Bcompare_correct prec emax R lb Fr Fl) in H.
    destruct (Rcompare_spec (B2R R) (B2R lb)); try discriminate. assumption.
Qed.

Lemma ge_false_pinf (R : float) : NN R -> fq_ge prec emax R pinf = false -> is_finite R = true.
Proof.
  intros [->|[Fr _]] H; [discriminate|exact Fr].
Qed.

(* ------------------------------------------------------------------ the heart: a prefix sum that failed the test casts to at most q - n *)

Lemma rnd_prod_le (scale : float) (fw d : N) (r es_r : R) :
  is_finite scale = true -> (0 < B2R scale)%R ->
  ((bpow radix2 (2 - emax) <= B2R scale)%R \/ (fw <= 3)%N) ->
  (1 <= d)%N -> (d < 2 ^ 64)%N -> (d < fw)%N ->
  (0 <= r)%R -> es_r = rnd (B2R c12 * B2R scale) -> (0 < es_r)%R ->
  (r < rnd (IZR (Z.of_N d)) / es_r)%R ->
  (rnd (r * B2R scale) <= IZR (Z.of_N d))%R.
Proof.
  intros Fs Hs0 Hcase Hd1 Hd64 Hdfw Hr0 Hes Hes0 Hlt.
  destruct c12_correct as [Fc Rc]. pose proof u_bounds as Hu. destruct Hu as [Hu0 Hu8].
  set (s := B2R scale) in *. set (D := IZR (Z.of_N d)) in *.
  assert (HD1 : (1 <= D)%R) by (apply IZR_le; lia).
  assert (Hb1 : (bpow radix2 (2 - emax) <= 1)%R) by (apply (bpow_le radix2 (2 - emax) 0); lia).
  assert (Hmul : (r * es_r < rnd D)%R).
  { apply Rmult_lt_compat_r with (r := es_r) in Hlt; [|exact Hes0].
    unfold Rdiv in Hlt. rewrite Rmult_assoc, Rinv_l, Rmult_1_r in Hlt by lra. exact Hlt. }
  assert (Hcs : (s <= B2R c12 * s)%R) by (rewrite Rc; nra).
  destruct Hcase as [Hnorm|Hfw3].
  - (* normal scale: relative errors *)
    assert (Hes_ge : ((1 + 4 * u) * s * (1 - u) <= es_r)%R).
    { rewrite Hes, Rc. apply rel_err_ge. rewrite Rc in Hcs. lra. }
    assert (Hd' : (rnd D <= D * (1 + u))%R) by (apply rel_err_le; lra).
    pose proof (skip_core_real u D r s es_r (rnd D) (conj Hu0 Hu8) ltac:(lra) Hr0 Hs0 Hd' Hes_ge Hmul) as Hcore.
    destruct (Rle_lt_dec (bpow radix2 (2 - emax)) (r * s)) as [Hbig|Hsmall].
    + pose proof (rel_err_le (r * s) Hbig). lra.
    + assert (rnd (r * s) <= 1)%R by (apply rnd_le_generic; [apply (fmt_bpow 0); lia|lra]). lra.
  - (* tiny free weight: everything is exact *)
    assert (Hd2 : (Z.of_N d <= 2)%Z) by lia.
    assert (HDf : generic_format radix2 fexp D).
    { apply fmt_IZR. assert (2 ^ 3 <= 2 ^ prec)%Z by (apply Z.pow_le_mono_r; lia). lia. }
    assert (HrD : rnd D = D) by (apply round_generic; try typeclasses eauto; exact HDf).
    assert (Hes_ge : (s <= es_r)%R).
    { rewrite Hes. apply (rnd_ge_generic prec emax Hprec); [apply generic_format_B2R|exact Hcs]. }
    apply rnd_le_generic; [exact HDf|].
    assert (r * s <= r * es_r)%R by (apply Rmult_le_compat_l; assumption). lra.
Qed.

Lemma stop_bound (B : N) (scale : float) (fw d : N) (R : float) :
  scale_good scale fw -> (d < 2 ^ 64)%N -> (d < fw)%N -> NN R ->
  fq_ge prec emax R (fdiv (ofN d) (fmul c12 scale)) = false ->
  (1 <= d)%N /\ (cast B (fmul R scale) <= d)%N.
Proof.
  intros Hsg Hd64 Hdfw HR Hge.
  destruct c12_correct as [Fc Rc]. destruct u_bounds as [Hu0 Hu8].
  destruct (ofN_finite d Hd64) as [Fx Rx].
  assert (Hes : fmul c12 scale = pinf \/
                (is_finite (fmul c12 scale) = true /\ (0 < B2R (fmul c12 scale))%R)
                /\ is_finite scale = true /\ B2R (fmul c12 scale) = rnd (B2R c12 * B2R scale)).
  { destruct (es_cases scale fw Hsg) as [Hp|(Fs & Fe & Re)]; [left; exact Hp|right].
    destruct Hsg as [->|(_ & Hs0 & _)]; [discriminate|].
    split; [|split; assumption]. split; [exact Fe|]. rewrite Re.
    assert (B2R scale <= rnd (B2R c12 * B2R scale))%R.
    { apply (rnd_ge_generic prec emax Hprec); [apply generic_format_B2R|rewrite Rc; nra]. }
    lra. }
  assert (Hes' : fmul c12 scale = pinf \/ (is_finite (fmul c12 scale) = true /\ (0 < B2R (fmul c12 scale))%R))
    by (destruct Hes as [Hp|[H _]]; auto).
  destruct (lb_cases d (fmul c12 scale) Hd64 Hes') as [(s0 & Hz)|(Fe & He0 & Hd1 & Hlb)].
  { rewrite Hz, ge_zero_true in Hge by exact HR. discriminate. }
  destruct Hes as [Hp|(_ & Fs & Re)]; [rewrite Hp in Fe; discriminate|].
  set (es := fmul c12 scale) in *.
  assert (HRf : is_finite R = true /\ (B2R R < rnd (B2R (ofN d) / B2R es))%R).
  { destruct Hlb as [[Fl Rl]|[Hp Hov]].
    - rewrite <- Rl. apply ge_false_finite; assumption.
    - rewrite Hp in Hge. pose proof (ge_false_pinf R HR Hge) as Fr. split; [exact Fr|].
      pose proof (abs_B2R_lt_emax prec emax R) as Hlt. apply Rabs_lt_inv in Hlt. lra. }
  destruct HRf as [Fr Hlt].
  apply lt_rnd_inv in Hlt; [|apply generic_format_B2R].
  assert (Hr0 : (0 <= B2R R)%R) by (destruct HR as [->|[_ H]]; [discriminate|exact H]).
  destruct Hsg as [Hp|(_ & Hs0 & Hcase)]; [rewrite Hp in Fs; discriminate|].
  rewrite Rx in Hlt.
  pose proof (rnd_prod_le scale fw d (B2R R) (B2R es) Fs Hs0 Hcase Hd1 Hd64 Hdfw Hr0 Re He0 Hlt) as Hprod.
  split; [exact Hd1|].
  assert (HD64 := IZR_N_lt_bpow64 d Hd64). pose proof bpow64_lt_emax as Hb64.
  assert (Hp0 : (0 <= rnd (B2R R * B2R scale))%R).
  { apply (rnd_nonneg prec emax Hprec). apply Rmult_le_pos; lra. }
  destruct (mul_finite prec emax Hprec Hmax R scale Fr Hr0 Fs ltac:(lra)) as [(Fm & Rm & _)|(_ & Hov)].
  - rewrite (cast_finite prec emax Hmax B _ Fm). rewrite Rm.
    pose proof (Ztrunc_le _ _ Hprod) as Ht. rewrite Ztrunc_IZR in Ht.
    pose proof (N.le_min_l (Z.to_N (Ztrunc (rnd (B2R R * B2R scale)))) (2 ^ B - 1)). lia.
  - rewrite Rabs_pos_eq in Hov by exact Hp0. lra.
Qed.

(* ------------------------------------------------------------------ the constructor's scale *)

Lemma scale_good_div (fw : N) (norm : float) :
  (2 <= fw)%N -> (fw < 2 ^ 64)%N -> fq_norm_ok prec emax norm = true ->
  scale_good (fdiv (ofN fw) norm) fw.
Proof.
  intros Hfw2 Hfw64 Hnorm.
  destruct (norm_ok_pos prec emax norm Hnorm) as [Fn Hn0].
  destruct (ofN_finite fw Hfw64) as [Fx Rx].
  pose proof (abs_B2R_lt_emax prec emax norm) as Hnmax. apply Rabs_lt_inv in Hnmax.
  assert (Hxk : forall k : Z, (0 <= k <= 2)%Z -> (2 ^ k <= Z.of_N fw)%Z ->
                (bpow radix2 (k - emax) <= B2R (ofN fw) / B2R norm)%R).
  { intros k Hk Hle.
    assert (Hx : (bpow radix2 k <= B2R (ofN fw))%R).
    { rewrite Rx. apply (rnd_ge_generic prec emax Hprec); [apply fmt_bpow; lia|].
      rewrite <- (IZR_Zpower radix2) by lia. apply IZR_le. exact Hle. }
    apply Rmult_le_reg_r with (r := B2R norm); [exact Hn0|].
    unfold Rdiv. rewrite Rmult_assoc, Rinv_l, Rmult_1_r by lra.
    apply Rle_trans with (bpow radix2 (k - emax) * bpow radix2 emax)%R.
    - apply Rmult_le_compat_l; [apply bpow_ge_0|lra].
    - rewrite <- bpow_plus. replace (k - emax + emax)%Z with k by lia. exact Hx. }
  pose proof (Bdiv_correct prec emax Hprec Hmax mode_NE (ofN fw) norm ltac:(lra)) as H.
  simpl round_mode in H. unfold fq_div.
  assert (Hx1 : (bpow radix2 (1 - emax) <= B2R (ofN fw) / B2R norm)%R)
    by (apply Hxk; [lia|change (2 ^ 1)%Z with 2%Z; lia]).
  assert (Hr1 : (bpow radix2 (1 - emax) <= rnd (B2R (ofN fw) / B2R norm))%R).
  { apply (rnd_ge_generic prec emax Hprec); [apply fmt_bpow; lia|exact Hx1]. }
  pose proof (bpow_gt_0 radix2 (1 - emax)) as Hb1.
  destruct (Rlt_bool_spec (Rabs (rnd (B2R (ofN fw) / B2R norm))) (bpow radix2 emax)) as [Hlt|Hge].
  - right. destruct H as (HR & HF & _). split; [rewrite HF; exact Fx|]. rewrite HR.
    split; [lra|].
    destruct (N.le_gt_cases fw 3) as [H3|H4]; [right; exact H3|left].
    apply (rnd_ge_generic prec emax Hprec); [apply fmt_bpow; lia|].
    apply Hxk; [lia|change (2 ^ 2)%Z with 4%Z; lia].
  - left.
    assert (Hx0 : (0 < B2R (ofN fw))%R).
    { pose proof (bpow_gt_0 radix2 emax). 
      assert (0 < B2R (ofN fw) / B2R norm)%R by lra.
      apply Rmult_lt_compat_r with (r := B2R norm) in H1; [|exact Hn0].
      unfold Rdiv in H1. rewrite Rmult_assoc, Rinv_l, Rmult_1_r, Rmult_0_l in H1 by lra. exact H1. }
    rewrite (finite_pos_sign prec emax (ofN fw) Fx Hx0) in H.
    rewrite (finite_pos_sign prec emax norm Fn Hn0) in H.
    unfold binary_overflow in H. simpl in H. apply B2SF_pinf in H. exact H.
Qed.

End SkipFloat.

(* ------------------------------------------------------------------ the first loop *)

Open Scope N_scope.

Section SkipLoop.
Variables prec emax : Z.
Context (Hprec : Prec_gt_0 prec) (Hmax : Prec_lt_emax prec emax).
Hypothesis Hp3 : (3 <= prec)%Z.
Hypothesis He66 : (66 <= emax)%Z.
Variables PB P : N.
Notation float := (binary_float prec emax).
Notation F := (F prec emax Hprec Hmax).
Notation pzero := (fq_zero prec emax).

Hypothesis HP : 0 < P.
Hypothesis HPB : P <= PB.
Hypothesis HU : PB <= fq_USZ.

Variable ws : list float.
Variable scale : float.
Let n := N.of_nat (length ws).
Let fw := 2 ^ P - n.
Hypothesis Hn2 : 2 <= n.
Hypothesis Hn : n + 1 < 2 ^ P.
Hypothesis Hnn : nonneg_all prec emax ws.
Hypothesis Hsg : scale_good prec emax scale fw.

(* [skip_spec] of FloatQ_lazy.v plus: the prefix sum the loop stops behind failed the test
   (or is the empty sum) *)
Lemma skip_inv lb : forall rem pre lf, ws = pre ++ rem -> rem <> [] ->
  (pre = [] \/ fq_ge prec emax (F pre) lb = false) ->
  exists mid w rest, rem = mid ++ w :: rest /\
    fq_skip prec emax Hprec Hmax lb rem (N.of_nat (length pre)) lf (F pre)
    = (rest, N.of_nat (length pre + length mid + 1), F (pre ++ mid), F (pre ++ mid ++ [w]))
    /\ (pre ++ mid = [] \/ fq_ge prec emax (F (pre ++ mid)) lb = false).
Proof.
  assert (HPU : 2 ^ P <= 2 ^ fq_USZ) by (apply pow2_le; lia).
  induction rem as [|w r IH]; intros pre lf Hws Hne Hinv; [contradiction|].
  assert (Hlen : N.of_nat (length pre) + 1 + N.of_nat (length r) = n).
  { unfold n. rewrite Hws, app_length. cbn [length]. lia. }
  cbn [fq_skip].
  rewrite (trunc_small fq_USZ (N.of_nat (length pre) + 1)) by lia.
  rewrite <- F_snoc.
  assert (Hbase : exists mid w0 rest, w :: r = mid ++ w0 :: rest /\
            (r, N.of_nat (length pre) + 1, F pre, F (pre ++ [w]))
            = (rest, N.of_nat (length pre + length mid + 1), F (pre ++ mid), F (pre ++ mid ++ [w0]))
            /\ (pre ++ mid = [] \/ fq_ge prec emax (F (pre ++ mid)) lb = false)).
  { exists [], w, r. split; [reflexivity|]. cbn [length app]. rewrite app_nil_r.
    replace (N.of_nat (length pre + 0 + 1)) with (N.of_nat (length pre) + 1) by lia.
    split; [reflexivity|exact Hinv]. }
  destruct (fq_ge prec emax (F (pre ++ [w])) lb) eqn:Htest; [exact Hbase|].
  destruct r as [|w' r'].
  - cbn [fq_skip]. exact Hbase.
  - destruct (IH (pre ++ [w]) (F pre)) as (mid & w0 & rest & Hr & Hres & Hinv').
    { rewrite Hws, <- app_assoc. reflexivity. }
    { discriminate. }
    { right. exact Htest. }
    exists (w :: mid), w0, rest. split; [cbn; rewrite Hr; reflexivity|].
    replace (N.of_nat (length pre) + 1) with (N.of_nat (length (pre ++ [w])))
      by (rewrite app_length; cbn [length]; lia).
    rewrite Hres. rewrite app_length. cbn [length app]. rewrite <- !app_assoc in *. cbn [app] in *.
    replace (length pre + 1 + length mid + 1)%nat with (length pre + S (length mid) + 1)%nat by lia.
    split; [reflexivity|exact Hinv'].
Qed.

Let m := {| lz_pmf := ws; lz_scale := scale |}.

Theorem skip_ok_scale (q : N) : q < 2 ^ P -> fq_skip_ok prec emax Hprec Hmax PB P m q.
Proof.
  intros Hq.
  assert (HPP : 2 ^ P <= 2 ^ PB) by (apply pow2_le; assumption).
  assert (HPU : 2 ^ PB <= 2 ^ 64) by (apply pow2_le; exact HU).
  assert (Hne : ws <> []) by (intros H; unfold n in Hn2; rewrite H in Hn2; cbn in Hn2; lia).
  unfold fq_skip_ok. cbn [lz_pmf lz_scale m].
  set (lb := fq_lower_bound prec emax Hprec Hmax PB m q).
  destruct (skip_inv lb ws [] pzero eq_refl Hne (or_introl eq_refl)) as (mid & w & rest & Hws & Hskip & Hinv).
  cbn [length app Nat.add] in Hskip, Hinv. change (FloatQ_lazy.F prec emax Hprec Hmax []) with pzero in Hskip.
  change (N.of_nat 0) with 0 in Hskip.
  rewrite Hskip. fold n. rewrite (fq_free_weight_val PB P n HP HPB Hn2 Hn). fold fw.
  assert (Hlen : n = N.of_nat (length mid) + 1 + N.of_nat (length rest)).
  { unfold n. rewrite Hws, app_length. cbn [length]. lia. }
  replace (N.of_nat (length mid + 1) - 1) with (N.of_nat (length mid)) by lia.
  destruct Hinv as [->|Htest].
  - change (F []) with pzero. unfold fq_zero. rewrite scaled_zero. cbn [length]. lia.
  - assert (HnnM : nonneg_all prec emax mid).
    { rewrite Hws in Hnn. apply nonneg_app in Hnn. tauto. }
    pose proof (F_nn prec emax Hprec Hmax mid HnnM) as HNN.
    unfold lb, fq_lower_bound in Htest. cbn [lz_pmf lz_scale m] in Htest. fold n in Htest.
    rewrite (trunc_small PB n) in Htest by lia. unfold fq_ssub in Htest.
    destruct (stop_bound prec emax Hprec Hmax Hp3 He66 PB scale fw (q - n) (F mid) Hsg) as [Hd1 Hc];
      [lia|unfold fw; lia|exact HNN|exact Htest|].
    unfold fq_scaled.
    pose proof (N.le_min_l (fq_to_N prec emax PB (fq_mul prec emax Hprec Hmax (F mid) scale)) fw).
    lia.
Qed.

End SkipLoop.

(* ------------------------------------------------------------------ summary *)
Section SkipMain.
Variables prec emax : Z.
Context (Hprec : Prec_gt_0 prec) (Hmax : Prec_lt_emax prec emax).
Hypothesis Hp3 : (3 <= prec)%Z.
Hypothesis He66 : (66 <= emax)%Z.
Variables PB P : N.
Hypothesis HP : 0 < P.
Hypothesis HPB : P <= PB.
Hypothesis HU : PB <= fq_USZ.

(* [fq_skip_ok] is not a hypothesis: it holds for every model the constructor returns *)
Theorem fq_skip_ok_holds ws norm m q :
  2 <= N.of_nat (length ws) -> N.of_nat (length ws) + 1 < 2 ^ P ->
  fq_all_finite_nonneg prec emax ws = true ->
  fq_norm_ok prec emax (match norm with Some x => x | None => fq_sum prec emax Hprec Hmax ws end) = true ->
  fq_lazy_new prec emax Hprec Hmax PB P ws norm = FqOk m -> q < 2 ^ P ->
  fq_skip_ok prec emax Hprec Hmax PB P m q.
Proof.
  intros H2 Hn Hall Hnorm Hm Hq.
  assert (HPU : 2 ^ P <= 2 ^ 64) by (apply pow2_le; unfold fq_USZ in HU; lia).
  assert (Hlen : fq_len_bad P (N.of_nat (length ws)) = false).
  { apply fq_len_bad_spec; unfold fq_USZ in *; lia. }
  unfold fq_lazy_new, fq_prepare in Hm. rewrite Hlen, Hall in Hm. cbn [negb] in Hm.
  rewrite Hnorm in Hm. cbn [negb] in Hm. injection Hm as Hm. subst m.
  rewrite (fq_free_weight_val PB P _ HP HPB H2 Hn).
  apply (skip_ok_scale prec emax Hprec Hmax Hp3 He66 PB P HP HPB HU ws _ H2 Hn).
  - apply fq_all_finite_nonneg_spec. exact Hall.
  - apply scale_good_div; try assumption; lia.
  - exact Hq.
Qed.

(* the lazy model IS the eager table: constructors agree, encoder side for every symbol,
   decoder side for every quantile -- no side hypothesis left *)
Theorem lazy_dec_eq_eager_full ws norm :
  2 <= N.of_nat (length ws) -> N.of_nat (length ws) + 1 < 2 ^ P ->
  fq_all_finite_nonneg prec emax ws = true ->
  fq_norm_ok prec emax (match norm with Some x => x | None => fq_sum prec emax Hprec Hmax ws end) = true ->
  exists t m,
    fq_eager_table prec emax Hprec Hmax PB P ws norm = FqOk t
    /\ fq_lazy_new prec emax Hprec Hmax PB P ws norm = FqOk m
    /\ wf_table P t
    /\ (forall s, fq_lazy_enc prec emax Hprec Hmax PB P m s = FqOk (tbl_enc t (Z.of_N s)))
    /\ (forall q, q < 2 ^ P -> exists s c p,
           fq_lazy_dec prec emax Hprec Hmax PB P m q = FqOk (s, c, p)
           /\ tbl_dec t q = (Z.of_N s, c, p)).
Proof.
  intros H2 Hn Hall Hnorm.
  destruct (lazy_eq_eager prec emax Hprec Hmax PB P HP HPB HU ws norm H2 Hn Hall Hnorm)
    as (t & m & Ht & Hm & Hwf & Henc & Hdec).
  exists t, m. repeat (split; [assumption|]).
  intros q Hq. destruct (Hdec q) as (s & c & p & Hd & _ & _ & Hok).
  exists s, c, p. split; [exact Hd|]. apply Hok; [exact Hq|].
  apply (fq_skip_ok_holds ws norm m q H2 Hn Hall Hnorm Hm Hq).
Qed.

End SkipMain.

(* ------------------------------------------------------------------ the two Rust float types
   satisfy the side conditions (decidable facts about the format) *)
Definition fq_format_ok (prec emax : Z) : bool := (3 <=? prec)%Z && (66 <=? emax)%Z.

Lemma fq_format_ok_spec prec emax : fq_format_ok prec emax = true -> (3 <= prec)%Z /\ (66 <= emax)%Z.
Proof. unfold fq_format_ok. rewrite andb_true_iff, !Z.leb_le. tauto. Qed.

Example fq_format_ok_f32 : fq_format_ok 24 128 = true := eq_refl.
Example fq_format_ok_f64 : fq_format_ok 53 1024 = true := eq_refl.

Theorem fq_skip_ok_holds_f32 PB P ws norm m q :
  0 < P -> P <= PB -> PB <= fq_USZ ->
  2 <= N.of_nat (length ws) -> N.of_nat (length ws) + 1 < 2 ^ P ->
  fq_all_finite_nonneg 24 128 ws = true ->
  fq_norm_ok 24 128 (match norm with Some x => x | None => fq_sum 24 128 _ _ ws end) = true ->
  fq_lazy_new 24 128 _ _ PB P ws norm = FqOk m -> q < 2 ^ P ->
  fq_skip_ok 24 128 _ _ PB P m q.
Proof. intros. eapply (fq_skip_ok_holds 24 128 _ _ ltac:(lia) ltac:(lia)); eassumption. Qed.

Theorem fq_skip_ok_holds_f64 PB P ws norm m q :
  0 < P -> P <= PB -> PB <= fq_USZ ->
  2 <= N.of_nat (length ws) -> N.of_nat (length ws) + 1 < 2 ^ P ->
  fq_all_finite_nonneg 53 1024 ws = true ->
  fq_norm_ok 53 1024 (match norm with Some x => x | None => fq_sum 53 1024 _ _ ws end) = true ->
  fq_lazy_new 53 1024 _ _ PB P ws norm = FqOk m -> q < 2 ^ P ->
  fq_skip_ok 53 1024 _ _ PB P m q.
Proof. intros. eapply (fq_skip_ok_holds 53 1024 _ _ ltac:(lia) ltac:(lia)); eassumption. Qed.

Theorem lazy_dec_eq_eager_full_f32 PB P (ws : list (binary_float 24 128)) norm :
  0 < P -> P <= PB -> PB <= fq_USZ ->
  2 <= N.of_nat (length ws) -> N.of_nat (length ws) + 1 < 2 ^ P ->
  fq_all_finite_nonneg 24 128 ws = true ->
  fq_norm_ok 24 128 (match norm with Some x => x | None => fq_sum 24 128 _ _ ws end) = true ->
  exists t m,
    fq_eager_table 24 128 _ _ PB P ws norm = FqOk t
    /\ fq_lazy_new 24 128 _ _ PB P ws norm = FqOk m
    /\ wf_table P t
    /\ (forall s, fq_lazy_enc 24 128 _ _ PB P m s = FqOk (tbl_enc t (Z.of_N s)))
    /\ (forall q, q < 2 ^ P -> exists s c p,
           fq_lazy_dec 24 128 _ _ PB P m q = FqOk (s, c, p) /\ tbl_dec t q = (Z.of_N s, c, p)).
Proof. intros. apply (lazy_dec_eq_eager_full 24 128 _ _ ltac:(lia) ltac:(lia)); assumption. Qed.

Theorem lazy_dec_eq_eager_full_f64 PB P (ws : list (binary_float 53 1024)) norm :
  0 < P -> P <= PB -> PB <= fq_USZ ->
  2 <= N.of_nat (length ws) -> N.of_nat (length ws) + 1 < 2 ^ P ->
  fq_all_finite_nonneg 53 1024 ws = true ->
  fq_norm_ok 53 1024 (match norm with Some x => x | None => fq_sum 53 1024 _ _ ws end) = true ->
  exists t m,
    fq_eager_table 53 1024 _ _ PB P ws norm = FqOk t
    /\ fq_lazy_new 53 1024 _ _ PB P ws norm = FqOk m
    /\ wf_table P t
    /\ (forall s, fq_lazy_enc 53 1024 _ _ PB P m s = FqOk (tbl_enc t (Z.of_N s)))
    /\ (forall q, q < 2 ^ P -> exists s c p,
           fq_lazy_dec 53 1024 _ _ PB P m q = FqOk (s, c, p) /\ tbl_dec t q = (Z.of_N s, c, p)).
Proof. intros. apply (lazy_dec_eq_eager_full 53 1024 _ _ ltac:(lia) ltac:(lia)); assumption. Qed.

Check fq_skip_ok_holds.
Check lazy_dec_eq_eager_full.
Print Assumptions fq_skip_ok_holds.
Print Assumptions lazy_dec_eq_eager_full.
Print Assumptions lazy_dec_eq_eager_full_f32.
Print Assumptions lazy_dec_eq_eager_full_f64.
