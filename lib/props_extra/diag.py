"""property entries delivered by the diag family (merged by tools/merge_shared.py)"""
PROPS = {
    "C18_diag": dict(
        coq=["Props.C18_diag", "Corr.Diag_run"],
        fams=[("fam_diag", "gen_diag", 450, 8000), ("fam_diag", "gen_cert", 2, 10)],
        anchors=["src/stream/model.rs", "src/stream/model/categorical/contiguous.rs",
                 "src/stream/model/categorical.rs"],
        rule="accepted table with >=3 entries or >=1 two-argument diagnostic (cross entropy / KL, either "
             "direction) evaluated against a reference vector; gen_cert cases: one compiled Coq `interval` "
             "certificate |entropy_def - reported| <= eps each",
        level_text="Coq theorems over the real numbers: the formulas written in model.rs for entropy, cross entropy, "
                   "reverse cross entropy, KL and reverse KL divergence equal the textbook definitions on the exact "
                   "probabilities q_i/2^P for every valid table and every precision (cross entropy for every real "
                   "vector p, KL for p >= 0 with sum 1 and the zero convention, reverse forms for p > 0); the "
                   "floating-point view of a probability is exactly q/2^P, representable in binary64 (q < 2^53) / "
                   "binary32 (q < 2^24), and the bit patterns of the executable model are proved (Flocq) to encode "
                   "that number. The crate's f64/f32 views are compared bit for bit with the model; every "
                   "floating-point diagnostic is compared with a 60-digit evaluation of the textbook definition "
                   "within a derived rounding bound (n+8)*2^-50*max(1,S); per-run Coq `interval` certificates for "
                   "small tables.",
        level_note="The floating-point evaluation itself (libm log2, summation order) is NOT proved for all inputs: "
                   "it is judged per instance (oracle bound; interval certificates for tables <= 16 entries). "
                   "Axioms: the standard library's real-number axioms only (Classical_Prop.classic, "
                   "ClassicalDedekindReals.sig_forall_dec, sig_not_dec, functional_extensionality_dep), listed per "
                   "theorem in the evidence. Models are ContiguousCategoricalEntropyModel at (u32,24), (u16,12), "
                   "(u8,8), (u32,32), (u16,16), (u8,1); the methods are trait defaults shared by all models.",
        technique="Coq proof over Reals (+ Flocq for representability) + exact bit-pattern correspondence + "
                  "high-precision oracle with derived tolerance + per-instance interval certificates",
        design_ref="DESIGN.md section 4, C18 (diagnostics)",
    ),
}
