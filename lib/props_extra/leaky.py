"""property entries delivered by the leaky family (merged by tools/merge_shared.py)"""
PROPS = {
    "C03_leaky": dict(
        coq=["Props.C03_leaky:C03_", "Corr.Leaky_run"],
        fams=[("fam_leaky", "gen_step", 170, 10000), ("fam_leaky", "gen_f13", 30, 2000), ("fam_leaky", "gen_f16", 40, 3000),
              ("fam_leaky", "gen_real", 100, 10000), ("fam_leaky", "gen_new", 150, 10000)],
        anchors=["src/stream/model/quantize.rs", "src/lib.rs"],
        rule="constructor rejected the support, OR hypotheses hold (observed non_leaky monotone, <= free_weight) "
             "and >= 3 distinct symbols were decoded or both the iterated and the direct table were compared",
        level_text="Machine-checked Coq theorems about a Gallina model of LeakyQuantizer::new, "
                   "left_cumulative_and_probability, quantile_function (three-phase search with wrapping symbol "
                   "arithmetic, signed and unsigned symbol types of every width, every Probability width, every "
                   "PRECISION incl. BITS, EVERY inverse hint) and the symbol_table iterator, with the float CDF "
                   "abstracted as an integer table nl: under monotone nl <= free_weight the encoder's intervals "
                   "tile [0,2^P), the search terminates within 2*bits+8 iterations, never panics and returns "
                   "exactly the encoder's triple; iterator = encoder; outside symbols get None; invalid supports "
                   "panic. Tied to the source by the differential check incl. real Gaussian/Cauchy/Laplace/"
                   "Binomial grids where the hypotheses are TESTED per instance.",
        level_note="Trusted: Coq kernel + vm_compute; hand-written model tied to quantize.rs by sampled "
                   "correspondence; the floating-point CDF and its inverse are NOT modelled (Section variables; the "
                   "harness feeds the observed integers to the model); monotonicity of real CDF implementations is "
                   "tested, not proved; no axioms.",
        technique="Coq proof (loop invariants + decreasing measure for the fuelled search) + correspondence",
        design_ref="DESIGN.md section 4, C03 (leaky quantiser), C05, C09, C10, C19",
    ),
}
