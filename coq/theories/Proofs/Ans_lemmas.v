(* Proofs/Ans_lemmas.v -- machine-level ANS model: one step, export/import,
   raw binary, histories. *)
From CV Require Import Base.Bits Model.EModel Model.Ans Proofs.Ans_core.
From Coq Require Import ZifyBool ZifyN.
Open Scope N_scope.
Set Default Timeout 30.

Section Step.
Variable c : cfg.
Hypothesis Hc : wf_cfg c.

Definition prec_ok (P : N) : Prop := 0 < P /\ P <= WB c.

Lemma ans_inv_bounds a : ans_inv c a -> st a < 2 ^ SB c /\ Forall (fun w => w < 2 ^ WB c) (bulk a).
Proof. intros (_ & H1 & H2). auto. Qed.

(* machine-level single-step theorems *)
Lemma ans_dec_enc P cum p a :
  prec_ok P -> wf_entry P cum p -> ans_inv c a ->
  let a' := ans_encode c P cum p a in
  ans_inv c a' /\ cum <= ans_quantile P a' < cum + p /\ ans_decode_upd c P cum p a' = a.
Proof.
  intros [HP0 HPW] Hwf Hinv a'. subst a'.
  destruct (ans_inv_bounds a Hinv) as [Hst Hb].
  destruct (enc_eq_ideal c Hc P HP0 HPW cum p a Hwf Hst) as [-> Hlt].
  pose proof (enc_inv_ideal c Hc P HP0 HPW cum p a Hwf Hinv) as Hinv'.
  destruct (ans_inv_bounds _ Hinv') as [Hst' Hb'].
  assert (Hq : cum <= st (enc_ideal c P cum p a) mod 2 ^ P < cum + p).
  { destruct (quantile_after_enc c P HP0 HPW cum p a Hwf) as [-> _].
    destruct Hwf as [Hp _].
    match goal with |- context [?x mod p] => assert (x mod p < p) by (apply N.mod_lt; lia) end.
    lia. }
  split; [exact Hinv'|]. split; [exact Hq|].
  rewrite (dec_eq_ideal c Hc P HP0 HPW cum p _ Hwf Hst' Hb' Hq).
  apply dec_enc_ideal; assumption.
Qed.

Lemma ans_enc_dec P cum p a :
  prec_ok P -> wf_entry P cum p -> ans_inv c a ->
  cum <= ans_quantile P a < cum + p ->
  let a' := ans_decode_upd c P cum p a in
  ans_inv c a' /\ ans_encode c P cum p a' = a.
Proof.
  intros [HP0 HPW] Hwf Hinv Hq a'. subst a'.
  destruct (ans_inv_bounds a Hinv) as [Hst Hb]. unfold ans_quantile in Hq.
  rewrite (dec_eq_ideal c Hc P HP0 HPW cum p a Hwf Hst Hb Hq).
  pose proof (dec_inv_ideal c Hc P HP0 HPW cum p a Hwf Hinv Hq) as Hinv'.
  split; [exact Hinv'|].
  destruct (ans_inv_bounds _ Hinv') as [Hst' _].
  destruct (enc_eq_ideal c Hc P HP0 HPW cum p _ Hwf Hst') as [-> _].
  apply enc_dec_ideal; assumption.
Qed.

(* symbol-level versions over any exactly invertible model *)
Lemma ans_pop_push m s a a' :
  wf_model m -> em_prec m <= WB c -> ans_inv c a ->
  ans_encode_sym c m s a = Some a' ->
  ans_inv c a' /\ ans_decode_sym c m a' = (s, a).
Proof.
  intros Hm HPW Hinv Henc. unfold ans_encode_sym in Henc.
  destruct (em_enc m s) as [[cum p]|] eqn:E; [|discriminate]. inversion Henc; subst a'; clear Henc.
  destruct (wfm_enc m Hm s cum p E) as (Hwf & _ & Hdec).
  assert (HP : prec_ok (em_prec m)) by (split; [apply (wfm_prec m Hm)|exact HPW]).
  destruct (ans_dec_enc (em_prec m) cum p a HP Hwf Hinv) as (Hinv' & Hq & Hback).
  split; [exact Hinv'|].
  unfold ans_decode_sym. rewrite (Hdec _ Hq). rewrite Hback. reflexivity.
Qed.

Lemma ans_quantile_lt P a : ans_quantile P a < 2 ^ P.
Proof. unfold ans_quantile. apply N.mod_lt, pow2_nz. Qed.

Lemma ans_push_pop m s a a' :
  wf_model m -> em_prec m <= WB c -> ans_inv c a ->
  ans_decode_sym c m a = (s, a') ->
  ans_inv c a' /\ ans_encode_sym c m s a' = Some a.
Proof.
  intros Hm HPW Hinv Hdec. unfold ans_decode_sym in Hdec.
  pose proof (wfm_dec m Hm _ (ans_quantile_lt (em_prec m) a)) as Hd.
  destruct (em_dec m (ans_quantile (em_prec m) a)) as [[s0 cum] p].
  inversion Hdec; subst s0 a'; clear Hdec. destruct Hd as [Henc Hq].
  destruct (wfm_enc m Hm s cum p Henc) as (Hwf & _ & _).
  assert (HP : prec_ok (em_prec m)) by (split; [apply (wfm_prec m Hm)|exact HPW]).
  destruct (ans_enc_dec (em_prec m) cum p a HP Hwf Hinv Hq) as (Hinv' & Hback).
  split; [exact Hinv'|]. unfold ans_encode_sym. rewrite Henc, Hback. reflexivity.
Qed.

(* decoding is total and stays inside the model for EVERY state (C10) *)
Lemma ans_decode_in_support m a :
  wf_model m ->
  let '(s, _) := ans_decode_sym c m a in exists cum p, em_enc m s = Some (cum, p).
Proof.
  intros Hm. unfold ans_decode_sym.
  pose proof (wfm_dec m Hm _ (ans_quantile_lt (em_prec m) a)) as Hd.
  destruct (em_dec m (ans_quantile (em_prec m) a)) as [[s0 cum] p].
  destruct Hd as [Henc _]. eauto.
Qed.

(* impossible symbol: error and coder untouched (C09) -- by definition of
   ans_encode_sym the result carries no state at all *)
Lemma ans_encode_impossible m s a : em_enc m s = None -> ans_encode_sym c m s a = None.
Proof. intros H. unfold ans_encode_sym. rewrite H. reflexivity. Qed.

(* each encode pushes at most one word (C12, word-count part) *)
Lemma ans_encode_bulk_growth P cum p a :
  let a' := ans_encode c P cum p a in
  bulk a' = bulk a \/ exists w, bulk a' = w :: bulk a.
Proof.
  unfold ans_encode. destruct (p <=? shr (st a) (SB c - P)); cbn [bulk]; eauto.
Qed.

End Step.
