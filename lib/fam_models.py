"""Family `models`: the fixed-point entropy models of src/stream/model/ and their conversion graph.

Input (ints):  pb P symty kind infer  nsyms syms..  nraw raw..  ops...
  pb     Probability::BITS (8 | 16 | 32);  P = PRECISION (menu below);  usize is 64 bit
  symty  symbol type of the non-contiguous kinds: 0 usize, 1 i32, 2 char (code point)
  kind   0 UniformModel::new(raw[0])
         1 ContiguousCategoricalEntropyModel::from_nonzero_fixed_point_probabilities(raw, infer)
         2 NonContiguousCategoricalDecoderModel::from_symbols_and_nonzero_fixed_point_probabilities
         3 NonContiguousCategoricalEncoderModel::  -"-
         4 ContiguousLookupDecoderModel::from_nonzero_fixed_point_probabilities
         5 NonContiguousLookupDecoderModel::from_symbols_and_nonzero_fixed_point_probabilities
  raw    probabilities (cast to Probability) resp. [range] for kind 0
  op     nconv conv..  dump  [nargs args..]         (args only for dump 2 and 3)
    conv 1 as_view  2 to_generic_encoder_model  3 to_generic_decoder_model
         4 to_generic_lookup_decoder_model  5 to_lookup_decoder_model
         6 as_(non_)contiguous_categorical  7 into_(non_)contiguous_categorical  9 clone
         10 (first position, kind 1 only) the same table as a non-contiguous decoder over 0..n
    dump 1 symbol_table -> n (sym cum p)*n       2 left_cumulative_and_probability(args)
         3 quantile_function(args) -> (sym cum p)*  4 all quantiles, run-length compressed
         5 support_size
Output: constructor status 0 | -1 (Err) | whole case PANIC; then per op a status 1 | -5 (conversion
  or accessor does not exist for that type) | -6 (sweep refused, P > 12) | -7 (the conversion / query
  panicked on the accepted model) followed by the results;
  lcp result per symbol: -1 None | -3 not a value of the symbol type | 1 cum p.
"""
from gen_models import gen_parts

FAMILY = "models"
RUNNER = ("Corr.Models_run", "run_models")

MENU = {8: [1, 2, 3, 5, 7, 8], 16: [1, 2, 8, 12, 15, 16], 32: [1, 2, 12, 24, 31, 32], 64: [1, 2, 32, 63, 64]}
UBITS = 64
PANIC, ABORT, TIMEOUT = -999999, -999998, -999997
NA, REFUSED, OP_PANIC = -5, -6, -7

# representation types
U, C, D, E, LC, LN = "U", "C", "D", "E", "LC", "LN"
KIND_TYPE = {0: U, 1: C, 2: D, 3: E, 4: LC, 5: LN}
ITERABLE = (U, C, D, LC, LN)
ENCODERS = (U, C, E)
DECODERS = (U, C, D, LC, LN)


def conv_type(t, k, lookup_ok):
    """type after conversion k, or None if it does not exist"""
    if k == 9:
        return t
    if k == 1:
        return t if t in (C, D, LC, LN) else None
    if k == 2:
        return E if t in ITERABLE else None
    if k == 3:
        return D if t in ITERABLE else None
    if k == 4:
        return LN if (t in ITERABLE and lookup_ok) else None
    if k == 5:
        if not lookup_ok:
            return None
        return {C: LC, D: LN}.get(t)
    if k in (6, 7):
        return {LC: C, LN: D}.get(t)
    return None


def chain_type(kind, convs, lookup_ok):
    t = KIND_TYPE[kind]
    cs = list(convs)
    if cs and cs[0] == 10:
        if kind != 1:
            return None
        t = D
        cs = cs[1:]
    for k in cs:
        t = conv_type(t, k, lookup_ok)
        if t is None:
            return None
    return t


# ---------------------------------------------------------------- case assembly / parsing

def op(convs, dump, args=None):
    o = [len(convs)] + list(convs) + [dump]
    if dump in (2, 3):
        o += [len(args)] + list(args)
    return o


def assemble(pb, P, symty, kind, infer, syms, raw, ops):
    out = [pb, P, symty, kind, 1 if infer else 0, len(syms)] + list(syms) + [len(raw)] + list(raw)
    for o in ops:
        out += o
    return out


def parse(inp):
    pb, P, symty, kind, infer = inp[:5]
    i = 5
    ns = inp[i]
    syms = inp[i + 1:i + 1 + ns]
    i += 1 + ns
    nr = inp[i]
    raw = inp[i + 1:i + 1 + nr]
    i += 1 + nr
    ops = []
    while i < len(inp):
        nc = inp[i]
        convs = inp[i + 1:i + 1 + nc]
        dump = inp[i + 1 + nc]
        i += 2 + nc
        args = []
        if dump in (2, 3):
            na = inp[i]
            args = inp[i + 1:i + 1 + na]
            i += 1 + na
        ops.append((tuple(convs), dump, list(args)))
    return dict(pb=pb, P=P, symty=symty, kind=kind, infer=bool(infer), syms=syms, raw=raw, ops=ops)


def walk(h, out):
    """out: implementation output of an ACCEPTED case (out[0] == 0).  Returns a list of
    (convs, dump, args, status, result); raises ValueError/IndexError on malformed output."""
    res = []
    o = 1
    for convs, dump, args in h["ops"]:
        st = out[o]
        o += 1
        if st != 1:
            if st not in (NA, REFUSED, OP_PANIC):
                raise ValueError("bad status %r" % st)
            res.append((convs, dump, args, st, None))
            continue
        if dump == 1:
            n = out[o]
            t = [tuple(out[o + 1 + 3 * j:o + 4 + 3 * j]) for j in range(n)]
            if len(t) != n or (t and len(t[-1]) != 3):
                raise ValueError("short table")
            o += 1 + 3 * n
            res.append((convs, dump, args, st, t))
        elif dump == 2:
            r = []
            for _ in args:
                x = out[o]
                if x == 1:
                    r.append((out[o + 1], out[o + 2]))
                    o += 3
                elif x in (-1, -3):
                    r.append(x)
                    o += 1
                else:
                    raise ValueError("bad lcp code %r" % x)
            res.append((convs, dump, args, st, r))
        elif dump == 3:
            r = [tuple(out[o + 3 * j:o + 3 + 3 * j]) for j in range(len(args))]
            if r and len(r[-1]) != 3:
                raise ValueError("short quant")
            o += 3 * len(args)
            res.append((convs, dump, args, st, r))
        elif dump == 4:
            n = out[o]
            r = [tuple(out[o + 1 + 4 * j:o + 5 + 4 * j]) for j in range(n)]
            if r and len(r[-1]) != 4:
                raise ValueError("short sweep")
            o += 1 + 4 * n
            res.append((convs, dump, args, st, r))
        elif dump == 5:
            res.append((convs, dump, args, st, out[o]))
            o += 1
        else:
            raise ValueError("bad dump")
    if o != len(out):
        raise ValueError("trailing output")
    return res


# ---------------------------------------------------------------- the specification (python side)

def sym_ok(symty, s):
    if symty == 0:
        return 0 <= s < (1 << UBITS)
    if symty == 1:
        return -(1 << 31) <= s < (1 << 31)
    return 0 <= s < 0xD800 or 0xE000 <= s <= 0x10FFFF


def eff_symty(h):
    return h["symty"] if h["kind"] in (2, 3, 5) else 0


def full_probs(h):
    """the probabilities incl. the inferred one, as unbounded integers; None if infer is impossible"""
    pr = [x % (1 << h["pb"]) for x in h["raw"]]
    if h["infer"]:
        rest = (1 << h["P"]) - sum(pr)
        return pr + [rest]
    return pr


def spec_valid(h):
    """does the input satisfy the documented preconditions (so that it MUST be accepted)?"""
    P = h["P"]
    if h["kind"] == 0:
        # `range` is a usize argument: a value >= 2^64 cannot be passed at all (the harness would
        # truncate it), so it is no input of UniformModel::<u64, 64>::new
        return len(h["raw"]) >= 1 and 2 <= h["raw"][0] <= (1 << P) and h["raw"][0] < (1 << 64)
    if h["infer"] and len(h["raw"]) == 0:
        return False
    fp = full_probs(h)
    if len(fp) < 2 or any(p <= 0 for p in fp) or sum(fp) != (1 << P):
        return False
    if h["kind"] in (2, 3, 5):
        if len(h["syms"]) != len(fp) or len(set(h["syms"])) != len(fp):
            return False
    return True


def spec_table(h):
    """the table a valid input denotes"""
    P = h["P"]
    if h["kind"] == 0:
        n = h["raw"][0]
        ppb = (1 << P) // n
        return [(i, i * ppb, ppb if i != n - 1 else (1 << P) - i * ppb) for i in range(n)]
    fp = full_probs(h)
    syms = h["syms"] if h["kind"] in (2, 3, 5) else list(range(len(fp)))
    t, c = [], 0
    for s, p in zip(syms, fp):
        t.append((s, c, p))
        c += p
    return t


def has_dup_symbols(h):
    n = len(h["raw"]) + (1 if h["infer"] else 0)
    s = h["syms"][:n]
    return len(set(s)) != len(s)


def wf_entries(P, t):
    """C03 on a dumped table: tiling of [0, 2^P) by >= 2 non-empty intervals, distinct symbols"""
    if len(t) < 2:
        return "fewer than two symbols"
    c = 0
    for s, cum, p in t:
        if cum != c:
            return "cumulative %d where %d expected" % (cum, c)
        if p <= 0:
            return "empty interval"
        if p >= (1 << P):
            return "probability one"
        c += p
    if c != (1 << P):
        return "intervals end at %d, not at 2^%d" % (c, P)
    if len({e[0] for e in t}) != len(t):
        return "symbol listed twice"
    return None


def lookup_entry(t, q):
    for e in t:
        if e[1] <= q < e[1] + e[2]:
            return e
    return None


def consistent_with_table(P, t, recs, symty_of):
    """every direct query of every representation agrees with table t"""
    by_sym = {e[0]: e for e in t}
    for convs, dump, args, st, r in recs:
        if st != 1:
            continue
        if dump == 1 and r != t:
            return "symbol_table after conversions %r differs" % (convs,)
        if dump == 2:
            for s, x in zip(args, r):
                if x == -3:
                    if sym_ok(symty_of(convs), s):
                        return "representable symbol %d reported unrepresentable" % s
                    continue
                e = by_sym.get(s)
                want = (e[1], e[2]) if e else -1
                if x != want:
                    return "lcp(%d) after %r = %r, table says %r" % (s, convs, x, want)
        if dump == 3:
            for q, x in zip(args, r):
                if q >= (1 << P):
                    continue
                if x != lookup_entry(t, q):
                    return "quantile_function(%d) after %r = %r, table says %r" % (q, convs, x, lookup_entry(t, q))
        if dump == 4:
            want = [(e[1], e[0], e[1], e[2]) for e in t]
            if r != want:
                return "quantile sweep after %r differs from the table" % (convs,)
        if dump == 5 and r != len(t):
            return "support_size %r != %d" % (r, len(t))
    return None


def _bad(out):
    return any(x in (ABORT, TIMEOUT) for x in out)


def _op_panics(h, recs):
    """ops that panicked on an accepted model; quantiles beyond 2^P on lookup models are the one
    documented panic (assert!) and are never generated together with other arguments"""
    return [(convs, dump, args) for convs, dump, args, st, r in recs
            if st == OP_PANIC and not (dump == 3 and args and all(q >= (1 << h["P"]) for q in args))]


def _symty_of(h):
    def f(convs):
        return 0 if (convs and convs[0] == 10) else eff_symty(h)
    return f


# ---------------------------------------------------------------- oracles (on IMPLEMENTATION output)

def oracle_C03(inp, out):
    """inputs satisfying the documented preconditions: the constructor succeeds and the model it
    returns tiles [0,2^P) by the declared support, every quantile looks up exactly what encoding
    reports, out-of-support symbols have no probability"""
    h = parse(inp)
    if _bad(out):
        return "abort/timeout"
    if not spec_valid(h):
        return None
    if out == [PANIC] or out[:1] != [0]:
        return "input satisfying the preconditions was not accepted: %r" % out[:3]
    try:
        recs = walk(h, out)
    except (ValueError, IndexError):
        return "malformed output"
    if _op_panics(h, recs):
        return "a query on the accepted model panicked: %r" % (_op_panics(h, recs)[0],)
    t = spec_table(h) if not (h["kind"] == 0 and h["raw"][0] > 5000) else None
    tables = [r for convs, dump, args, st, r in recs if dump == 1 and st == 1]
    for tb in tables:
        msg = wf_entries(h["P"], tb)
        if msg:
            return msg
    if t is None:
        # huge uniform range: closed form
        n = h["raw"][0]
        ppb = (1 << h["P"]) // n
        for convs, dump, args, st, r in recs:
            if st != 1:
                continue
            if dump == 2:
                for s, x in zip(args, r):
                    if x == -3:
                        continue
                    want = -1 if not (0 <= s < n) else (s * ppb, ppb if s != n - 1 else (1 << h["P"]) - s * ppb)
                    if x != want:
                        return "lcp(%d) = %r, expected %r" % (s, x, want)
            if dump == 3:
                for q, x in zip(args, r):
                    if q >= (1 << h["P"]):
                        continue
                    s = min(q // ppb, n - 1)
                    want = (s, s * ppb, ppb if s != n - 1 else (1 << h["P"]) - s * ppb)
                    if x != want:
                        return "quantile_function(%d) = %r, expected %r" % (q, x, want)
        return None
    msg = wf_entries(h["P"], t)
    if msg:
        return "spec table: " + msg
    return consistent_with_table(h["P"], t, recs, _symty_of(h))


def oracle_C05(inp, out):
    """all representations reachable from one accepted model are the same model: symbol tables
    identical, every lcp / quantile answer identical across representations and identical to the
    symbol table"""
    h = parse(inp)
    if _bad(out):
        return "abort/timeout"
    if out == [PANIC] or out[:1] != [0]:
        return None
    if h["kind"] in (2, 5) and has_dup_symbols(h):
        return None      # not a model in the sense of C03 (see C19)
    try:
        recs = walk(h, out)
    except (ValueError, IndexError):
        return "malformed output"
    if _op_panics(h, recs):
        return "a query / conversion on the accepted model panicked: %r" % (_op_panics(h, recs)[0],)
    tables = [(convs, r) for convs, dump, args, st, r in recs if dump == 1 and st == 1]
    for convs, tb in tables[1:]:
        if tb != tables[0][1]:
            return "symbol_table after %r differs from symbol_table after %r" % (convs, tables[0][0])
    if tables:
        msg = consistent_with_table(h["P"], tables[0][1], recs, _symty_of(h))
        if msg:
            return msg
    # direct queries against each other (also when no table was dumped)
    seen = {}
    for convs, dump, args, st, r in recs:
        if st != 1 or dump not in (2, 3, 4, 5):
            continue
        if dump in (2, 3):
            for a, x in zip(args, r):
                if dump == 3 and a >= (1 << h["P"]):
                    continue
                if x == -3:
                    continue
                key = (dump, a)
                if key in seen and seen[key][1] != x:
                    return "%s(%d): %r after %r but %r after %r" % (
                        "lcp" if dump == 2 else "quantile_function", a, x, convs, seen[key][1], seen[key][0])
                seen.setdefault(key, (convs, x))
        else:
            key = (dump,)
            if key in seen and seen[key][1] != r:
                return "dump %d differs between %r and %r" % (dump, convs, seen[key][0])
            seen.setdefault(key, (convs, r))
    return None


def support_of(h):
    """(predicate in_support, True) for an input satisfying the preconditions"""
    if h["kind"] == 0:
        n = h["raw"][0]
        return lambda s: 0 <= s < n
    if h["kind"] in (2, 3, 5):
        ss = set(h["syms"])
        return lambda s: s in ss
    n = len(full_probs(h))
    return lambda s: 0 <= s < n


def oracle_C09(inp, out):
    """every symbol outside the support gets None from every encoder representation"""
    h = parse(inp)
    if _bad(out):
        return "abort/timeout"
    if not spec_valid(h) or out == [PANIC] or out[:1] != [0]:
        return None
    try:
        recs = walk(h, out)
    except (ValueError, IndexError):
        return "malformed output"
    for convs, dump, args, st, r in recs:
        if dump != 2 or st != 1:
            continue
        if convs and convs[0] == 10:
            ins = lambda s, n=len(full_probs(h)): 0 <= s < n
        else:
            ins = support_of(h)
        for s, x in zip(args, r):
            if not ins(s) and x not in (-1, -3):
                return "symbol %d outside the support was given (cum, p) = %r after %r" % (s, x, convs)
    return None


def oracle_C19(inp, out):
    """any input: Err / panic, or a model satisfying C03; well-formed input (incl. infer_last at
    every precision) is accepted; a single symbol with all mass is never accepted"""
    h = parse(inp)
    if _bad(out):
        return "abort/timeout (unsafe precondition or hang)"
    valid = spec_valid(h)
    if out == [PANIC] or out[:1] == [-1]:
        if valid:
            return "well-formed input rejected (%s)" % ("panic" if out == [PANIC] else "Err")
        return None
    if out[:1] != [0]:
        return "malformed output"
    try:
        recs = walk(h, out)
    except (ValueError, IndexError):
        return "malformed output"
    if h["kind"] in (2, 5) and has_dup_symbols(h):
        return "decoder model with a duplicate symbol accepted"
    if _op_panics(h, recs):
        return "accepted model is broken: %r panicked" % (_op_panics(h, recs)[0],)
    P = h["P"]
    if h["kind"] in (2, 5):
        # the declared support is the symbol list: every listed symbol gets an interval
        for convs, dump, args, st, r in recs:
            if dump == 1 and st == 1 and not convs and [e[0] for e in r] != list(h["syms"]):
                return "accepted model's support %r differs from the declared symbols %r" % (
                    [e[0] for e in r][:8], list(h["syms"])[:8])
    for convs, dump, args, st, r in recs:
        if st != 1:
            continue
        if dump == 1:
            msg = wf_entries(P, r)
            if msg:
                return "accepted model is broken: " + msg
        if dump == 5 and r < 2:
            return "accepted model has support size %d" % r
        if dump == 3:
            for q, x in zip(args, r):
                if q < (1 << P) and not (x[2] > 0 and x[1] <= q < x[1] + x[2] and x[2] < (1 << P)):
                    return "accepted model: quantile_function(%d) = %r" % (q, x)
        if dump == 2:
            for s, x in zip(args, r):
                if isinstance(x, tuple) and not (0 < x[1] < (1 << P) and x[0] + x[1] <= (1 << P)):
                    return "accepted model: lcp(%d) = %r" % (s, x)
    if h["kind"] == 3:
        # encoder-only model: rebuild the table from the direct queries over the given symbols
        for convs, dump, args, st, r in recs:
            if dump == 2 and st == 1 and not convs and set(h["syms"]) <= set(args):
                for s0, x in zip(args, r):
                    if s0 in set(h["syms"]) and not isinstance(x, tuple):
                        return "accepted encoder model: declared symbol %d has no probability" % s0
                ent = sorted({(x[0], s, x[1]) for s, x in zip(args, r) if isinstance(x, tuple)})
                msg = wf_entries(P, [(s, c, p) for c, s, p in ent])
                if msg:
                    return "accepted encoder model is broken: " + msg
    if valid:
        t = spec_table(h) if not (h["kind"] == 0 and h["raw"][0] > 5000) else None
        if t is not None:
            msg = consistent_with_table(P, t, recs, _symty_of(h))
            if msg:
                return msg
    return None


ORACLES = {"C03": oracle_C03, "C05": oracle_C05, "C09": oracle_C09, "C19": oracle_C19}


def known_dup(inp):
    h = parse(inp)
    return h["kind"] in (2, 5) and has_dup_symbols(h)


KNOWN_CLASSES = {"noncontig_decoder_duplicate_symbols": known_dup}


def nontrivial(inp, out, prop=None):
    """C03: accepted model with a symbol table and >= 1 quantile query answered;
    C05: >= 2 distinct representations dumped; C09: >= 1 out-of-support symbol queried on an
    accepted model; C19: input violating a precondition, or infer_last on a well-formed table"""
    try:
        h = parse(inp)
        if prop == "C19":
            return (not spec_valid(h)) or h["infer"]
        if out[:1] != [0]:
            return False
        recs = walk(h, out)
        ok = [(convs, dump, args, r) for convs, dump, args, st, r in recs if st == 1]
        if prop == "C05":
            return len({convs for convs, dump, args, r in ok}) >= 2
        if prop == "C09":
            ins = support_of(h) if spec_valid(h) else (lambda s: True)
            return any(dump == 2 and any(not ins(s) for s in args) for convs, dump, args, r in ok)
        return any(dump == 1 for convs, dump, args, r in ok) and \
            any(dump in (3, 4) for convs, dump, args, r in ok)
    except Exception:
        return False


def describe(inp):
    h = parse(inp)
    return "models PB=%d P=%d kind=%s symty=%d infer=%d syms=%d raw=%s ops=%d" % (
        h["pb"], h["P"], KIND_TYPE.get(h["kind"], h["kind"]), h["symty"], h["infer"], len(h["syms"]),
        h["raw"][:6] + (["..."] if len(h["raw"]) > 6 else []), len(h["ops"]))


# ---------------------------------------------------------------- generators

def pick_inst(rng, lookup=False):
    pb = rng.choice([8, 16] if lookup else [8, 8, 16, 16, 32, 32, 64])
    ps = MENU[pb]
    r = rng.random()
    if r < 0.3:
        P = ps[-1]
    elif r < 0.4:
        P = ps[0]
    elif r < 0.5:
        P = ps[-2]
    else:
        P = rng.choice(ps)
    if lookup and P > 12 and rng.random() < 0.8:
        P = rng.choice([p for p in ps if p <= 12])
    return pb, P


def pick_n(rng, P, cap=300):
    total = 1 << P
    hi = min(total, cap)
    r = rng.random()
    if r < 0.15:
        return 2
    if r < 0.7:
        return rng.randint(2, min(hi, 9))
    if r < 0.9:
        return rng.randint(2, min(hi, 40))
    if r < 0.95 and total <= 256:
        return total          # every probability is one quantum
    return rng.randint(2, hi)


def gen_syms(rng, symty, n):
    pool = set()
    if symty == 0:
        style = rng.random()
        if style < 0.4:
            return list(range(n)) if rng.random() < 0.5 else rng.sample(range(n + 20), n)
        cands = [0, 1, (1 << 8), (1 << 16), (1 << 32), (1 << 64) - 1, (1 << 63)]
        while len(pool) < n:
            b = rng.choice(cands)
            pool.add(min((1 << 64) - 1, max(0, b + rng.randint(-3, n + 3))))
    elif symty == 1:
        cands = [0, -1, -(1 << 31), (1 << 31) - 1, 1 << 16, -(1 << 16), 100]
        while len(pool) < n:
            b = rng.choice(cands)
            pool.add(min((1 << 31) - 1, max(-(1 << 31), b + rng.randint(-n - 3, n + 3))))
    else:
        cands = [0, 65, 97, 0xD7FF - n - 4, 0xE000, 0x10FFFF - n - 4, 0x1F600, 0x3B1]
        while len(pool) < n:
            b = rng.choice(cands)
            s = b + rng.randint(0, n + 3)
            if sym_ok(2, s):
                pool.add(s)
    l = list(pool)
    rng.shuffle(l)
    return l


def out_symbols(rng, symty, support, pb, k=6):
    """symbols outside the support: neighbours, aliases after narrowing, extremes"""
    sup = list(support)[:50]
    res = []
    for _ in range(k):
        s0 = rng.choice(sup) if sup else 0
        c = rng.choice([
            s0 + (1 << pb), s0 + (1 << 16), s0 + (1 << 32), s0 + (1 << 8), (1 << 64) - 1, s0 + 1, s0 - 1,
            max(sup) + 1 if sup else 1, min(sup) - 1 if sup else -1, -s0 - 1, s0 + (1 << 31), rng.randrange(-5, 500),
            (1 << 64) - 1 - s0, s0 + (1 << 63)])
        res.append(c)
    return res


def quantile_args(rng, P, t, k=8):
    total = 1 << P
    qs = [0, total - 1]
    for _ in range(k):
        e = rng.choice(t)
        qs += [e[1], e[1] + e[2] - 1]
        qs.append(rng.randrange(total))
    return [q for q in qs if 0 <= q < total]


CONVS = [1, 2, 3, 4, 5, 6, 7, 9]


def gen_chain(rng, kind, lookup_ok, maxlen=3):
    t = KIND_TYPE[kind]
    convs = []
    if kind == 1 and rng.random() < 0.25:
        convs.append(10)
        t = D
    for _ in range(rng.randint(0 if convs else 1, maxlen)):
        if rng.random() < 0.06:
            k = rng.choice(CONVS)          # possibly not applicable
        else:
            app = [k for k in CONVS if conv_type(t, k, lookup_ok) is not None]
            if not app:
                break
            k = rng.choice(app)
        t2 = conv_type(t, k, lookup_ok)
        convs.append(k)
        if t2 is None:
            return convs, None
        t = t2
    return convs, t


def std_ops(rng, h, t, small_table, chains=None, sweeps=2):
    """the standard dump set for the base and for a few conversion chains"""
    pb, P, kind, symty = h["pb"], h["P"], h["kind"], eff_symty(h)
    lookup_ok = pb <= 16
    support = [e[0] for e in t] if t else list(range(min(h["raw"][0], 50)))
    ins = rng.sample(support, min(len(support), 12))
    if kind == 3 and len(support) <= 60:
        ins = list(support)
    if kind == 0:
        n = h["raw"][0]
        ins = [s for s in {0, 1, n - 1, n - 2, n // 2, rng.randrange(n)} if 0 <= s < n]
        outs = [n, n + 1, n + (1 << pb), (1 << pb), (1 << pb) + 1, (1 << pb) + n - 1, (1 << 16) + rng.randrange(n),
                (1 << 32) + rng.randrange(n), (1 << 64) - 1, (1 << 63), rng.randrange(n) + (1 << pb)]
        outs = [s for s in outs if not (0 <= s < n)]
    else:
        outs = [s for s in out_symbols(rng, symty, support, pb) if s not in set(support)]
    sargs = ins + outs
    rng.shuffle(sargs)
    if t:
        qargs = quantile_args(rng, P, t)
    else:
        n = h["raw"][0]
        ppb = (1 << P) // n
        qargs = [0, (1 << P) - 1, ppb - 1, ppb, (n - 1) * ppb, (n - 1) * ppb - 1, rng.randrange(1 << P)]
        qargs = [q for q in qargs if 0 <= q < (1 << P)]
    nsweep = [sweeps if P <= 8 else (1 if (P <= 12 and rng.random() < 0.3) else 0)]

    def dumps(convs):
        o = []
        if small_table:
            o.append(op(convs, 1))
        o.append(op(convs, 2, sargs))
        o.append(op(convs, 3, qargs))
        if nsweep[0] > 0 and small_table:
            o.append(op(convs, 4))
            nsweep[0] -= 1
        if rng.random() < 0.5:
            o.append(op(convs, 5))
        return o

    ops = dumps([])
    if chains is None:
        chains = rng.choice([0, 1, 2, 3, 4])
    heavy = P > 12 and (kind in (4, 5))
    for _ in range(chains):
        convs, tt = gen_chain(rng, kind, lookup_ok)
        if not small_table and any(k in (2, 3, 4) for k in convs):
            continue
        if P > 12 and tt in (LC, LN) or (P > 12 and any(k in (4, 5) for k in convs)):
            if rng.random() < 0.9 or heavy:
                continue
            ops += [op(convs, 3, qargs[:4])]
            continue
        ops += dumps(convs)
    return ops


def gen_valid_header(rng):
    r = rng.random()
    if r < 0.18:
        kind = 0
    elif r < 0.45:
        kind = 1
    elif r < 0.62:
        kind = 2
    elif r < 0.75:
        kind = 3
    elif r < 0.87:
        kind = 4
    else:
        kind = 5
    pb, P = pick_inst(rng, lookup=kind in (4, 5))
    symty = rng.choice([0, 1, 2]) if kind in (2, 3, 5) else 0
    total = 1 << P
    if kind == 0:
        c = rng.random()
        if c < 0.5:
            n = rng.choice([2, 3, total, total - 1, max(2, total // 2), max(2, total // 2 + 1), max(2, total // 3)])
        else:
            n = rng.randint(2, min(total, 300))
        n = max(2, min(n, total))
        return dict(pb=pb, P=P, symty=0, kind=0, infer=False, syms=[], raw=[n])
    n = pick_n(rng, P, cap=300 if P <= 12 else 120)
    parts = gen_parts(rng, total, n)
    infer = rng.random() < 0.45
    syms = gen_syms(rng, symty, n) if kind in (2, 3, 5) else []
    raw = parts[:-1] if infer else parts
    return dict(pb=pb, P=P, symty=symty, kind=kind, infer=infer, syms=syms, raw=raw)


def gen_valid(rng):
    """well-formed stream: every input satisfies the documented preconditions"""
    h = gen_valid_header(rng)
    small = not (h["kind"] == 0 and h["raw"][0] > 300)
    t = spec_table(h) if small else None
    ops = std_ops(rng, h, t, small)
    if h["kind"] in (0, 1, 2, 4, 5) and h["P"] < h["pb"] and rng.random() < 0.1:
        # quantiles beyond 2^P: searched models answer something, lookup models assert and panic
        ops.append(op([], 3, [1 << h["P"], (1 << h["pb"]) - 1, (1 << h["P"]) + 1]))
    return assemble(h["pb"], h["P"], h["symty"], h["kind"], h["infer"], h["syms"], h["raw"], ops)


def gen_conv(rng):
    """well-formed stream aimed at the conversion graph (C05): several chains per model"""
    h = gen_valid_header(rng)
    while h["kind"] == 0 and h["raw"][0] > 300:
        h = gen_valid_header(rng)
    t = spec_table(h)
    ops = std_ops(rng, h, t, True, chains=rng.randint(3, 6), sweeps=3)
    return assemble(h["pb"], h["P"], h["symty"], h["kind"], h["infer"], h["syms"], h["raw"], ops)


def gen_malformed(rng):
    """malformed stream: zeros, oversize, totals 2^P+-1, laps, single / empty, duplicate symbols,
    count mismatches, bad uniform ranges; ~25 % well-formed controls (incl. infer_last)"""
    r = rng.random()
    kind = 0 if r < 0.15 else rng.choice([1, 1, 2, 3, 4, 5])
    pb, P = pick_inst(rng, lookup=kind in (4, 5))
    if kind in (4, 5) and P > 12:
        P = rng.choice([p for p in MENU[pb] if p <= 12])
    total, M = 1 << P, 1 << pb
    symty = rng.choice([0, 1, 2]) if kind in (2, 3, 5) else 0
    if kind == 0:
        n = rng.choice([0, 1, total + 1, total + 2, M, M + 1, M + 2, M + 5, (1 << 32) + 3, (1 << 64) - 1, (1 << 63),
                        total, 2, 3, total - 1, 2 * total, M - 1, (1 << 16) + 2, rng.randrange(0, 2 * total + 2)])
        n = max(0, min(n, (1 << 64) - 1))
        h = dict(pb=pb, P=P, symty=0, kind=0, infer=False, syms=[], raw=[n])
        ok = 2 <= n <= total
        ops = std_ops(rng, h, spec_table(h) if ok and n <= 300 else None, ok and n <= 300, chains=1) if ok else [op([], 1)]
        return assemble(pb, P, 0, 0, False, [], [n], ops)
    n = pick_n(rng, P, cap=40)
    parts = gen_parts(rng, total, n)
    infer = rng.random() < 0.5
    m = rng.choice(["valid", "valid", "zero", "zero_keep", "oversize", "wrap_to_total", "plus1", "minus1", "twolaps",
                    "single", "single0", "empty", "infer_full", "infer_over", "allzero", "big"] +
                   (["dup", "dup", "dup", "more_syms", "fewer_syms", "fewer_syms", "no_syms"] if kind in (2, 3, 5) else []))
    raw = parts[:-1] if infer else list(parts)
    nsym = n
    if m == "zero" and raw:
        raw[rng.randrange(len(raw))] = 0
    elif m == "zero_keep" and len(raw) >= 2:
        i = rng.randrange(len(raw))
        j = (i + 1) % len(raw)
        raw[j] += raw[i]
        raw[i] = 0
    elif m == "oversize" and raw:
        raw[rng.randrange(len(raw))] = rng.choice([total, total + 1, M - 1, min(M - 1, 2 * total)])
    elif m == "wrap_to_total" and P < pb:
        x = rng.randrange(1, M - total) if M - total > 1 else 1
        raw = [M - x, x + total] if not infer else [M - x, x + total - 1]
        nsym = 2 + (1 if infer else 0)
    elif m == "plus1":
        infer = False
        raw = list(parts)
        raw[rng.randrange(len(raw))] += 1
    elif m == "minus1":
        infer = False
        raw = list(parts)
        i = max(range(len(raw)), key=lambda k: raw[k])
        raw[i] -= 1
    elif m == "twolaps":
        infer = rng.random() < 0.3
        if P == pb:
            raw = [M // 2] * rng.choice([4, 6]) if not infer else [M // 2] * 3
        else:
            raw = [M // 2, M // 2, total] if not infer else [M // 2, M // 2, total - 1]
        nsym = len(raw) + (1 if infer else 0)
    elif m == "single":
        infer = False
        raw = [total % M]
        nsym = 1
    elif m == "single0":
        infer = rng.random() < 0.5
        raw = [] if infer else [0]
        nsym = 1
    elif m == "empty":
        infer = False
        raw = []
        nsym = 0
    elif m == "infer_full":
        infer = True
        raw = list(parts)
        nsym = n + 1
    elif m == "infer_over":
        infer = True
        raw = list(parts) + [rng.choice([1, total - 1, 1])]
        nsym = n + 2
    elif m == "allzero":
        raw = [0] * rng.choice([1, 2, 3])
        nsym = len(raw) + (1 if infer else 0)
    elif m == "big":
        raw = [rng.randrange(M) for _ in range(rng.randint(1, 6))]
        nsym = len(raw) + (1 if infer else 0)
    else:
        nsym = len(raw) + (1 if infer else 0)
    raw = [max(0, min(M - 1, x)) for x in raw]
    syms = []
    if kind in (2, 3, 5):
        syms = gen_syms(rng, symty, max(nsym, 1))[:nsym]
        if m == "dup" and len(syms) >= 2:
            i, j = rng.sample(range(len(syms)), 2)
            syms[i] = syms[j]
        elif m == "more_syms":
            extra = [s for s in gen_syms(rng, symty, nsym + 3) if s not in set(syms)][:rng.choice([1, 2])]
            syms = syms + extra
        elif m == "fewer_syms" and syms:
            syms = syms[:-1] if rng.random() < 0.7 else syms[:len(syms) // 2]
        elif m == "no_syms":
            syms = []
    h = dict(pb=pb, P=P, symty=symty, kind=kind, infer=infer, syms=syms, raw=raw)
    if spec_valid(h):
        ops = std_ops(rng, h, spec_table(h), True, chains=rng.choice([0, 1, 2]))
    else:
        # whatever gets accepted is dumped completely
        sy = list(dict.fromkeys(syms))[:40] if kind in (2, 3, 5) else list(range(min(len(raw) + 1, 40)))
        ops = [op([], 1), op([], 5), op([], 2, sy + [max(sy) + 1 if sy else 0]),
               op([], 3, [0, total - 1, total // 2])]
        if P <= 8:
            ops.append(op([], 4))
        if kind in (2, 5):
            ops += [op([2], 2, sy), op([3], 1)]
    return assemble(pb, P, symty, kind, infer, syms, raw, ops)
