(* Proofs/Ans_binary.v -- raw binary import/export (C04) and histories (C01). *)
From CV Require Import Base.Bits Model.EModel Model.Ans Proofs.Ans_core Proofs.Ans_lemmas Proofs.Ans_words.
From Coq Require Import ZifyBool ZifyN ZifyNat.
Open Scope N_scope.
Set Default Timeout 30.

Lemma lxor_pow2_add k v : v < 2 ^ k -> N.lxor (2 ^ k + v) (2 ^ k) = v.
Proof.
  intros Hv.
  assert (Hland : N.land (N.shiftl 1 k) v = 0) by (apply land_shiftl_low; exact Hv).
  pose proof (N.add_nocarry_lxor _ _ Hland) as Hx.
  rewrite shiftl_mul, N.mul_1_l in Hx. rewrite Hx.
  rewrite (N.lxor_comm (2 ^ k) v), N.lxor_assoc, N.lxor_nilpotent, N.lxor_0_r. reflexivity.
Qed.

Lemma size_pow2_add k v : v < 2 ^ k -> N.size (2 ^ k + v) = k + 1.
Proof.
  intros Hv. pose proof (pow2_pos k).
  rewrite N.size_log2 by lia. rewrite <- N.add_1_r. f_equal.
  apply (N.log2_unique' _ k v); [lia|lia|reflexivity].
Qed.

Section Binary.
Variable c : cfg.
Hypothesis Hc : wf_cfg c.
Let W := WB c.
Let S := SB c.
Let B := 2 ^ W.
Let T := 2 ^ (S - W).

Local Lemma B_pos' : 0 < B. Proof. apply pow2_pos. Qed.
Local Lemma B_ge2 : 2 <= B.
Proof. destruct Hc as [HW _]. fold W in HW. unfold B.
  replace 2 with (2 ^ 1) at 1 by reflexivity. apply pow2_le. lia. Qed.
Local Lemma T_B' : T * B = 2 ^ S.
Proof. symmetry. destruct Hc. apply pow2_split. subst S W. lia. Qed.

Lemma Bpow_eq j : B ^ N.of_nat j = 2 ^ (W * N.of_nat j).
Proof. unfold B. rewrite N.pow_mul_r. reflexivity. Qed.

Lemma chunks_exact_step j v w :
  w < B -> chunks_exact W (Datatypes.S j) (v * B + w) = w :: chunks_exact W j v.
Proof.
  intros Hw. cbn [chunks_exact]. unfold trunc, shr. rewrite N.shiftr_div_pow2. fold B.
  rewrite mod_mul_add_small, div_mul_add_small by exact Hw. reflexivity.
Qed.

(* the raw-binary view of a state of the form B^j + v *)
Definition binview (b : list N) (j : nat) (v : N) : list N := rev b ++ chunks_exact W j v.

Lemma read_binary_spec stack : forall j v,
  Forall (fun w => w < B) stack -> v < B ^ N.of_nat j -> B ^ N.of_nat j + v < 2 ^ S ->
  let '(b, s) := read_binary c stack (B ^ N.of_nat j + v) in
  exists j' v', s = B ^ N.of_nat j' + v' /\ v' < B ^ N.of_nat j' /\ s < 2 ^ S
    /\ binview stack j v = binview b j' v'
    /\ (b = [] \/ T <= s) /\ Forall (fun w => w < B) b.
Proof.
  induction stack as [|w r IH]; intros j v Hall Hv Hlt.
  - cbn [read_binary]. rewrite thr_eq. fold S W T.
    destruct (T <=? B ^ N.of_nat j + v); exists j, v; repeat split; auto.
  - cbn [read_binary]. rewrite thr_eq. fold S W T.
    destruct (N.leb_spec T (B ^ N.of_nat j + v)) as [Hge|HltT].
    + exists j, v. repeat split; auto.
    + inversion Hall as [|? ? Hw Hall']; subst.
      assert (Hs' : N.lor (shl S (B ^ N.of_nat j + v) W) w
                    = B ^ N.of_nat (Datatypes.S j) + (v * B + w)).
      { unfold shl. rewrite shiftl_mul. fold B. rewrite trunc_small.
        - assert (Hl : N.lor ((B ^ N.of_nat j + v) * B) w = (B ^ N.of_nat j + v) * B + w)
            by (apply lor_disjoint; exact Hw).
          rewrite Hl.
          replace (N.of_nat (Datatypes.S j)) with (N.of_nat j + 1) by lia.
          rewrite N.pow_add_r, N.pow_1_r. lia.
        - rewrite <- T_B'. pose proof B_pos'. nia. }
      rewrite Hs'.
      assert (Hv' : v * B + w < B ^ N.of_nat (Datatypes.S j)).
      { replace (N.of_nat (Datatypes.S j)) with (N.of_nat j + 1) by lia.
        rewrite N.pow_add_r, N.pow_1_r. nia. }
      assert (Hlt' : B ^ N.of_nat (Datatypes.S j) + (v * B + w) < 2 ^ S).
      { replace (N.of_nat (Datatypes.S j)) with (N.of_nat j + 1) by lia.
        rewrite N.pow_add_r, N.pow_1_r. rewrite <- T_B'. nia. }
      specialize (IH (Datatypes.S j) (v * B + w) Hall' Hv' Hlt').
      destruct (read_binary c r (B ^ N.of_nat (Datatypes.S j) + (v * B + w))) as [b s].
      destruct IH as (j' & v' & Hs & Hvv & HsS & Hview & Hfin & Hb).
      exists j', v'. repeat split; auto.
      rewrite <- Hview. unfold binview. cbn [rev]. rewrite chunks_exact_step by exact Hw.
      rewrite <- app_assoc. reflexivity.
Qed.

Lemma into_binary_spec b j v :
  v < B ^ N.of_nat j -> B ^ N.of_nat j + v < 2 ^ S ->
  ans_into_binary c {| bulk := b; st := B ^ N.of_nat j + v |} = Some (binview b j v).
Proof.
  intros Hv Hlt. unfold ans_into_binary, bitlen. cbn [bulk st].
  pose proof (pow2_pos (W * N.of_nat j)) as Hpos.
  rewrite Bpow_eq in *.
  destruct (N.eqb_spec (2 ^ (W * N.of_nat j) + v) 0) as [?|_]; [lia|].
  rewrite size_pow2_add by exact Hv.
  replace (W * N.of_nat j + 1 - 1) with (W * N.of_nat j) by lia.
  fold W. destruct Hc as [HW _]. fold W in HW.
  rewrite (N.mul_comm W), N.mod_mul by lia. cbn [N.eqb].
  rewrite N.div_mul by lia. rewrite Nat2N.id.
  unfold shl. rewrite shiftl_mul, N.mul_1_l, trunc_small.
  - rewrite (N.mul_comm (N.of_nat j)), lxor_pow2_add by exact Hv. reflexivity.
  - fold S. rewrite (N.mul_comm (N.of_nat j)). lia.
Qed.

Lemma chunks_pow n : forall j v, (j < n)%nat -> v < B ^ N.of_nat j ->
  chunks W n (B ^ N.of_nat j + v) = chunks_exact W j v ++ [1].
Proof.
  induction n as [|n IH]; intros j v Hj Hv; [lia|].
  pose proof B_pos'. pose proof B_ge2.
  cbn [chunks].
  destruct (N.eqb_spec (B ^ N.of_nat j + v) 0) as [Hz|_].
  { assert (0 < B ^ N.of_nat j) by (rewrite Bpow_eq; apply pow2_pos). lia. }
  destruct j as [|j].
  - cbn in Hv. assert (v = 0) by lia. subst v. cbn [N.of_nat chunks_exact app].
    rewrite N.pow_0_r, N.add_0_r. unfold trunc, shr. rewrite N.shiftr_div_pow2. fold B.
    rewrite N.mod_small, N.div_small by lia. unfold W. rewrite (chunks_zero c). reflexivity.
  - replace (N.of_nat (Datatypes.S j)) with (N.of_nat j + 1) in * by lia.
    rewrite N.pow_add_r, N.pow_1_r in *.
    cbn [chunks_exact app]. unfold trunc, shr. rewrite !N.shiftr_div_pow2. fold B.
    assert (Hm : (B ^ N.of_nat j * B + v) mod B = v mod B).
    { rewrite N.add_comm, N.mod_add by lia. reflexivity. }
    assert (Hd : (B ^ N.of_nat j * B + v) / B = B ^ N.of_nat j + v / B).
    { rewrite N.add_comm, N.div_add by lia. lia. }
    rewrite Hm, Hd. f_equal. apply IH; [lia|].
    apply div_lt_upper; [lia|]. exact Hv.
Qed.

Lemma get_binary_spec b j v :
  v < B ^ N.of_nat j -> B ^ N.of_nat j + v < 2 ^ S ->
  ans_get_binary c {| bulk := b; st := B ^ N.of_nat j + v |} = Some (binview b j v).
Proof.
  intros Hv Hlt. unfold ans_get_binary, state_chunks. cbn [bulk st]. fold W.
  rewrite chunks_pow; auto.
  - rewrite rev_app_distr. cbn [rev app]. rewrite rev_involutive. reflexivity.
  - (* j < nchunks, since B^j <= st < 2^S <= B^nchunks *)
    pose proof (nchunks_enough c Hc _ Hlt) as He. fold W B in He.
    destruct (Nat.lt_ge_cases j (nchunks c)) as [?|Hge]; [assumption|exfalso].
    assert (B ^ N.of_nat (nchunks c) <= B ^ N.of_nat j).
    { apply N.pow_le_mono_r; [pose proof B_pos'; lia|lia]. }
    lia.
Qed.

Lemma chunks_exact_length wb k s : length (chunks_exact wb k s) = k.
Proof. revert s. induction k; intros; cbn; auto. Qed.

(* ---------- C04: from_binary then export ---------- *)
Theorem ans_binary_roundtrip data :
  Forall (fun w => w < B) data ->
  let a := ans_from_binary c data in
  ans_inv c a
  /\ ans_into_binary c a = Some data
  /\ ans_get_binary c a = Some data
  /\ ans_num_valid_bits c a = W * N.of_nat (length data).
Proof.
  intros Hall a. subst a. unfold ans_from_binary.
  assert (Hall' : Forall (fun w => w < B) (rev data)) by (apply Forall_rev; exact Hall).
  assert (H0 : 0 < B ^ N.of_nat 0) by (cbn; lia).
  assert (H1 : B ^ N.of_nat 0 + 0 < 2 ^ S).
  { cbn. rewrite N.pow_0_r. pose proof (pow2_lt 0 S) as HH. rewrite N.pow_0_r in HH.
    destruct Hc. subst S W. rewrite N.add_0_r. apply HH. lia. }
  pose proof (read_binary_spec (rev data) 0%nat 0 Hall' H0 H1) as Hspec.
  replace (B ^ N.of_nat 0 + 0) with 1 in Hspec by (cbn; rewrite N.pow_0_r; reflexivity).
  destruct (read_binary c (rev data) 1) as [b s].
  destruct Hspec as (j & v & Hs & Hv & HsS & Hview & Hfin & Hb).
  unfold binview in Hview. cbn [chunks_exact] in Hview. rewrite rev_involutive, app_nil_r in Hview.
  subst s. split; [|split; [|split]].
  - unfold ans_inv. cbn [bulk st]. rewrite thr_eq. auto.
  - rewrite into_binary_spec by assumption. rewrite Hview. reflexivity.
  - rewrite get_binary_spec by assumption. rewrite Hview. reflexivity.
  - unfold ans_num_valid_bits, bitlen. cbn [bulk st]. rewrite Bpow_eq in *.
    rewrite size_pow2_add by exact Hv.
    rewrite Hview. rewrite app_length, rev_length, chunks_exact_length. fold W. lia.
Qed.

End Binary.
