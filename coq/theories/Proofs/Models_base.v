(* Proofs/Models_base.v -- arithmetic, monad and list lemmas shared by the proofs about the
   fixed-point entropy models. *)
From CV Require Import Base.Bits Model.EModel Model.MBase Proofs.Table_lemmas.
Open Scope N_scope.
Set Default Timeout 30.

(* ------------------------------------------------------------------ results *)
Lemma bind_ok {A B} (r : res A) (f : A -> res B) b :
  r >>= f = Ok b -> exists a, r = Ok a /\ f a = Ok b.
Proof. destruct r as [a|e]; cbn; [eauto|discriminate]. Qed.

Lemma bind_fail {A B} (r : res A) (f : A -> res B) e :
  r >>= f = Fail e -> r = Fail e \/ exists a, r = Ok a /\ f a = Fail e.
Proof. destruct r as [a|e']; cbn; [eauto|intros H; left; congruence]. Qed.

(* lia / nia do not cope with [/] and [mod] by a non-constant: abstract them first *)
Ltac absdiv :=
  repeat match goal with
  | H : context [?a / ?b] |- _ => let d := fresh "dv" in set (d := a / b) in *; clearbody d
  | |- context [?a / ?b] => let d := fresh "dv" in set (d := a / b) in *; clearbody d
  | H : context [?a mod ?b] |- _ => let d := fresh "md" in set (d := a mod b) in *; clearbody d
  | |- context [?a mod ?b] => let d := fresh "md" in set (d := a mod b) in *; clearbody d
  end.
Ltac dlia := absdiv; lia.
Ltac dnia := absdiv; nia.

Ltac inv_bind H :=
  let a := fresh "a" in let Ha := fresh "Ha" in
  apply bind_ok in H; destruct H as (a & Ha & H).

(* ------------------------------------------------------------------ machine arithmetic *)
Lemma wpow2_eq b e : e <= b -> wpow2 b e = 2 ^ e mod 2 ^ b.
Proof.
  intros H. unfold wpow2. destruct (N.leb_spec b e) as [Hle|Hlt].
  - assert (e = b) by lia. subst. symmetry. apply N.mod_same, pow2_nz.
  - symmetry. apply N.mod_small, pow2_lt. exact Hlt.
Qed.

Lemma wpow2_lt b e : e < b -> wpow2 b e = 2 ^ e.
Proof. intros H. unfold wpow2. destruct (N.leb_spec b e); [lia|reflexivity]. Qed.

Lemma wpow2_same b : wpow2 b b = 0.
Proof. unfold wpow2. rewrite N.leb_refl. reflexivity. Qed.

Lemma wsub_small b x y : y <= x -> x < 2 ^ b -> wsub b x y = x - y.
Proof.
  intros Hyx Hx. unfold wsub, trunc.
  replace (x + 2 ^ b - y) with ((x - y) + 1 * 2 ^ b) by lia.
  rewrite N.mod_add by apply pow2_nz. apply N.mod_small. lia.
Qed.

(* total - cum in the wrapped domain: correct unless total wrapped to 0 and cum = 0 *)
Lemma wsub_pow b e x : e <= b -> x <= 2 ^ e -> (e < b \/ 0 < x) -> wsub b (wpow2 b e) x = 2 ^ e - x.
Proof.
  intros Heb Hx Hor.
  destruct (N.eq_dec e b) as [->|Hne].
  - rewrite wpow2_same. unfold wsub, trunc. destruct Hor as [?|Hpos]; [lia|].
    rewrite N.add_0_l. apply N.mod_small. lia.
  - rewrite wpow2_lt by lia. apply wsub_small; [exact Hx|]. apply pow2_lt. lia.
Qed.

Lemma wadd_mod b s p : wadd b (s mod 2 ^ b) p = (s + p) mod 2 ^ b.
Proof. unfold wadd, trunc. apply N.add_mod_idemp_l, pow2_nz. Qed.

(* the branch-free laps/zeros counter of accumulate_nonzero_probabilities *)
Lemma laps_step M s p : 0 < M -> p < M ->
  (if (s mod M + p) mod M <=? s mod M then 1 else 0) + s / M
  = (if p =? 0 then 1 else 0) + (s + p) / M.
Proof.
  intros HM Hp.
  pose proof (N.div_mod s M ltac:(lia)) as Hs.
  pose proof (N.mod_lt s M ltac:(lia)) as Ha.
  set (a := s mod M) in *. set (k := s / M) in *.
  destruct (N.lt_ge_cases (a + p) M) as [Hlt|Hge].
  - rewrite (N.mod_small (a + p) M) by exact Hlt.
    assert ((s + p) / M = k) as ->.
    { rewrite Hs. replace (M * k + a + p) with (k * M + (a + p)) by lia.
      apply div_mul_add_small. exact Hlt. }
    destruct (N.leb_spec (a + p) a); destruct (N.eqb_spec p 0); lia.
  - assert ((a + p) mod M = a + p - M) as ->.
    { replace (a + p) with ((a + p - M) + 1 * M) at 1 by lia.
      rewrite N.mod_add by lia. apply N.mod_small. lia. }
    assert ((s + p) / M = k + 1) as ->.
    { rewrite Hs. replace (M * k + a + p) with ((k + 1) * M + (a + p - M)) by lia.
      apply div_mul_add_small. lia. }
    destruct (N.leb_spec (a + p - M) a); destruct (N.eqb_spec p 0); lia.
Qed.

(* ------------------------------------------------------------------ indexing *)
Lemma nth_N_spec {A} (l : list A) (i : nat) : nth_N l (N.of_nat i) = nth_error l i.
Proof.
  unfold nth_N. rewrite Nat2N.id.
  destruct (N.ltb_spec (N.of_nat i) (N.of_nat (length l))) as [Hlt|Hge]; [reflexivity|].
  symmetry. apply nth_error_None. lia.
Qed.

Lemma nth_N_big {A} (l : list A) (i : N) : lenN l <= i -> nth_N l i = None.
Proof. unfold nth_N, lenN. intros H. destruct (N.ltb_spec i (N.of_nat (length l))); [lia|reflexivity]. Qed.

Lemma get_unchecked_nat {A} site (l : list A) (i : nat) v :
  nth_error l i = Some v -> get_unchecked site l (N.of_nat i) = Ok v.
Proof. intros H. unfold get_unchecked. rewrite nth_N_spec, H. reflexivity. Qed.

Lemma nth_error_app_l {A} (l1 l2 : list A) i : (i < length l1)%nat -> nth_error (l1 ++ l2) i = nth_error l1 i.
Proof. intros. apply nth_error_app1. assumption. Qed.

Lemma nth_error_app_last {A} (l : list A) x : nth_error (l ++ [x]) (length l) = Some x.
Proof. rewrite nth_error_app2 by lia. rewrite Nat.sub_diag. reflexivity. Qed.

Lemma removelast_snoc {A} (l : list A) x : removelast (l ++ [x]) = l.
Proof. apply removelast_last. Qed.

Lemma last_opt_snoc {A} (l : list A) x : last_opt (l ++ [x]) = Some x.
Proof.
  induction l as [|y r IH]; [reflexivity|].
  cbn [app last_opt]. destruct (r ++ [x]) eqn:E; [destruct r; discriminate|]. exact IH.
Qed.

Lemma last_opt_last {A} (l : list A) d : l <> [] -> last_opt l = Some (last l d).
Proof.
  intros H. destruct (exists_last H) as (l' & x & ->).
  rewrite last_opt_snoc, last_last. reflexivity.
Qed.

(* ------------------------------------------------------------------ cumulatives and tables *)
Fixpoint sumN (l : list N) : N :=
  match l with [] => 0 | x :: r => x + sumN r end.

(* left cumulatives of a probability list, starting at [start] *)
Fixpoint cums (start : N) (probs : list N) : list N :=
  match probs with [] => [] | p :: r => start :: cums (start + p) r end.

(* the table denoted by symbols and probabilities *)
Fixpoint table_of (start : N) (ss : list Z) (probs : list N) : table :=
  match ss, probs with
  | s :: ss', p :: ps => (s, start, p) :: table_of (start + p) ss' ps
  | _, _ => []
  end.

Definition all_pos (probs : list N) : Prop := Forall (fun p => 0 < p) probs.

(* a fixed-point table in the sense of the documentation of
   from_nonzero_fixed_point_probabilities *)
Definition valid_probs (P : N) (probs : list N) : Prop :=
  all_pos probs /\ sumN probs = 2 ^ P /\ (2 <= length probs)%nat.

Definition valid_probsb (P : N) (probs : list N) : bool :=
  forallb (fun p => 0 <? p) probs && (sumN probs =? 2 ^ P) && (2 <=? length probs)%nat.

Lemma valid_probsb_spec P probs : valid_probsb P probs = true <-> valid_probs P probs.
Proof.
  unfold valid_probsb, valid_probs, all_pos. rewrite !andb_true_iff, forallb_forall, Forall_forall.
  rewrite N.eqb_eq, Nat.leb_le. split; intros [[H1 H2] H3] || intros (H1 & H2 & H3); repeat split; auto.
  - intros x Hx. apply N.ltb_lt. auto.
  - intros x Hx. apply N.ltb_lt. auto.
Qed.

Lemma sumN_app a b : sumN (a ++ b) = sumN a + sumN b.
Proof. induction a as [|x r IH]; cbn [app sumN]; lia. Qed.

Lemma cums_length s probs : length (cums s probs) = length probs.
Proof. revert s. induction probs as [|p r IH]; intros s; cbn; [reflexivity|]. rewrite IH. reflexivity. Qed.

Lemma cums_app s a b : cums s (a ++ b) = cums s a ++ cums (s + sumN a) b.
Proof.
  revert s. induction a as [|x r IH]; intros s; cbn [app cums sumN].
  - rewrite N.add_0_r. reflexivity.
  - rewrite IH. rewrite N.add_assoc. reflexivity.
Qed.

Lemma all_pos_len_le probs : all_pos probs -> N.of_nat (length probs) <= sumN probs.
Proof.
  induction 1 as [|p r Hp _ IH]; cbn [length sumN]; [lia|]. lia.
Qed.

Lemma all_pos_app a b : all_pos (a ++ b) <-> all_pos a /\ all_pos b.
Proof. apply Forall_app. Qed.

Lemma table_of_length s ss probs :
  length ss = length probs -> length (table_of s ss probs) = length probs.
Proof.
  revert s ss. induction probs as [|p r IH]; intros s [|x ss] H; cbn in *; try lia. rewrite IH; lia.
Qed.

Lemma table_of_syms s ss probs : length ss = length probs -> syms (table_of s ss probs) = ss.
Proof.
  revert s ss. induction probs as [|p r IH]; intros s [|x ss] H; cbn in *; try lia; try reflexivity.
  unfold syms in *. cbn. rewrite IH by lia. reflexivity.
Qed.

Lemma table_of_cums s ss probs :
  length ss = length probs -> map (fun e => snd (fst e)) (table_of s ss probs) = cums s probs.
Proof.
  revert s ss. induction probs as [|p r IH]; intros s [|x ss] H; cbn in *; try lia; try reflexivity.
  rewrite IH by lia. reflexivity.
Qed.

Lemma table_of_tiles s ss probs :
  length ss = length probs -> all_pos probs -> tiles s (s + sumN probs) (table_of s ss probs).
Proof.
  revert s ss. induction probs as [|p r IH]; intros s [|x ss] H Hp; cbn in *; try lia.
  inversion Hp; subst. split; [reflexivity|]. split; [assumption|].
  replace (s + (p + sumN r)) with (s + p + sumN r) by lia. apply IH; [lia|assumption].
Qed.

Lemma table_of_wf P ss probs :
  0 < P -> valid_probs P probs -> length ss = length probs -> NoDup ss ->
  wf_table P (table_of 0 ss probs).
Proof.
  intros HP (Hpos & Hsum & Hlen) Hl Hnd. unfold wf_table.
  split; [exact HP|]. split.
  - rewrite <- Hsum. replace (sumN probs) with (0 + sumN probs) by lia. apply table_of_tiles; assumption.
  - split; [rewrite table_of_syms; assumption|]. rewrite table_of_length; assumption.
Qed.

Lemma table_of_nth s ss probs i sy p :
  nth_error ss i = Some sy -> nth_error probs i = Some p ->
  nth_error (table_of s ss probs) i = Some (sy, s + sumN (firstn i probs), p).
Proof.
  revert s ss i. induction probs as [|q r IH]; intros s [|x ss] [|i] Hs Hp; cbn in *; try discriminate.
  - inversion Hs; inversion Hp; subst. rewrite N.add_0_r. reflexivity.
  - rewrite (IH (s + q) ss i Hs Hp). f_equal. f_equal. f_equal. lia.
Qed.

Lemma cums_nth s probs i p :
  nth_error probs i = Some p -> nth_error (cums s probs) i = Some (s + sumN (firstn i probs)).
Proof.
  revert s i. induction probs as [|q r IH]; intros s [|i] Hp; cbn in *; try discriminate.
  - rewrite N.add_0_r. reflexivity.
  - rewrite (IH (s + q) i Hp). f_equal. lia.
Qed.

Lemma sumN_firstn_le probs i : sumN (firstn i probs) <= sumN probs.
Proof.
  revert i. induction probs as [|q r IH]; intros [|i]; cbn [firstn sumN]; try lia.
  specialize (IH i). lia.
Qed.

Lemma sumN_firstn_S probs i p :
  nth_error probs i = Some p -> sumN (firstn (S i) probs) = sumN (firstn i probs) + p.
Proof.
  revert i. induction probs as [|q r IH]; intros [|i] H; cbn in *; try discriminate.
  - inversion H. lia.
  - rewrite (IH i H). lia.
Qed.

(* ------------------------------------------------------------------ decoding = partition point *)
Definition ecum (e : Z * N * N) : N := snd (fst e).

Lemma partition_point_map {A B} (f : A -> B) pred l :
  partition_point pred (map f l) = partition_point (fun x => pred (f x)) l.
Proof. induction l as [|x r IH]; cbn; [reflexivity|]. rewrite IH. reflexivity. Qed.

Lemma partition_point_le {A} (pred : A -> bool) l : (partition_point pred l <= length l)%nat.
Proof. induction l as [|x r IH]; cbn; [lia|]. destruct (pred x); lia. Qed.

Lemma tbl_dec_from_pp t cur q :
  tbl_dec_from cur t q =
  match partition_point (fun e => ecum e <=? q) t with
  | O => cur
  | S k => match nth_error t k with Some e => e | None => cur end
  end.
Proof.
  revert cur. induction t as [|[[s c] p] r IH]; intros cur; cbn [tbl_dec_from partition_point]; [reflexivity|].
  unfold ecum at 1. cbn [fst snd]. destruct (c <=? q); [|reflexivity].
  rewrite IH.
  pose proof (partition_point_le (fun e => ecum e <=? q) r) as Hle.
  destruct (partition_point _ r) as [|k] eqn:E; [reflexivity|].
  cbn [nth_error]. destruct (nth_error r k) eqn:En; [reflexivity|].
  apply nth_error_None in En. lia.
Qed.

(* for a table that starts at or below q the decoder is the entry before the partition point *)
Lemma tbl_dec_pp t q d :
  t <> [] -> ecum (hd d t) <= q ->
  exists k, partition_point (fun e => ecum e <=? q) t = S k /\ nth_error t k = Some (tbl_dec t q).
Proof.
  intros Hne H0. destruct t as [|e r]; [contradiction|]. cbn [hd] in H0.
  cbn [tbl_dec partition_point]. destruct (N.leb_spec (ecum e) q) as [_|?]; [|lia].
  exists (partition_point (fun e0 => ecum e0 <=? q) r). split; [reflexivity|].
  rewrite tbl_dec_from_pp.
  pose proof (partition_point_le (fun e0 => ecum e0 <=? q) r) as Hle.
  destruct (partition_point _ r) as [|k] eqn:E; [reflexivity|].
  cbn [nth_error]. destruct (nth_error r k) eqn:En; [reflexivity|].
  apply nth_error_None in En. lia.
Qed.

Lemma no_equal_search {A} (cmp : A -> ordering) l :
  (forall x, cmp x <> Equal) ->
  binary_search_by cmp l = inr (partition_point (fun x => match cmp x with Less => true | _ => false end) l).
Proof.
  intros H. unfold binary_search_by.
  assert (find_equal cmp l = None) as ->; [|reflexivity].
  induction l as [|x r IH]; cbn; [reflexivity|].
  specialize (H x). destruct (cmp x); try contradiction; rewrite IH; reflexivity.
Qed.

(* ------------------------------------------------------------------ encoding by position *)
Lemma tbl_enc_nth t i s c p :
  NoDup (syms t) -> nth_error t i = Some (s, c, p) -> tbl_enc t s = Some (c, p).
Proof. intros Hnd H. apply tbl_enc_nodup; [assumption|]. eapply nth_error_In; eauto. Qed.

Lemma tbl_enc_notin t s : ~ In s (syms t) -> tbl_enc t s = None.
Proof.
  induction t as [|[[s' c] p] r IH]; cbn; intros H; [reflexivity|].
  destruct (Z.eqb_spec s s') as [->|_]; [exfalso; apply H; left; reflexivity|].
  apply IH. intros Hin. apply H. right. exact Hin.
Qed.

Lemma tbl_enc_some_in t s c p : tbl_enc t s = Some (c, p) -> In s (syms t).
Proof.
  intros H. apply tbl_enc_in in H. unfold syms. apply in_map_iff. exists (s, c, p). auto.
Qed.

(* ------------------------------------------------------------------ transfer of wf_model *)
Lemma wf_model_ext m m' :
  em_prec m = em_prec m' ->
  (forall s, em_enc m' s = em_enc m s) ->
  (forall q, q < 2 ^ em_prec m -> em_dec m' q = em_dec m q) ->
  wf_model m -> wf_model m'.
Proof.
  intros HP He Hd [H1 H2 H3]. constructor.
  - rewrite <- HP. exact H1.
  - intros s cum p Henc. rewrite He in Henc. destruct (H2 s cum p Henc) as (Ha & Hb & Hc).
    rewrite <- HP. split; [exact Ha|]. split; [exact Hb|].
    intros q Hq. rewrite Hd; [apply Hc; exact Hq|].
    destruct Ha as [_ Ha]. lia.
  - intros q Hq. rewrite <- HP in Hq. rewrite Hd by exact Hq.
    specialize (H3 q Hq). destruct (em_dec m q) as [[s cum] p]. rewrite He. exact H3.
Qed.

(* every symbol a well-formed table model can encode is in the table *)
Lemma seq_map_nth n i : (i < n)%nat -> nth_error (map Z.of_nat (seq 0 n)) i = Some (Z.of_nat i).
Proof.
  intros H. rewrite nth_error_map, nth_error_nth' with (d := O) by (rewrite seq_length; exact H).
  rewrite seq_nth by exact H. reflexivity.
Qed.

Lemma NoDup_seq_Z n : NoDup (map Z.of_nat (seq 0 n)).
Proof.
  apply NoDup_nth_error. intros i j Hi Hij. rewrite map_length, seq_length in Hi.
  rewrite seq_map_nth in Hij by exact Hi.
  destruct (Nat.lt_ge_cases j n) as [Hj|Hj].
  - rewrite seq_map_nth in Hij by exact Hj. inversion Hij. lia.
  - assert (nth_error (map Z.of_nat (seq 0 n)) j = None) as Hn.
    { apply nth_error_None. rewrite map_length, seq_length. exact Hj. }
    congruence.
Qed.
