(* Proofs/Chain_rem.v -- the remainders side of the chain coder:
   [chain_absorb] (decode: rh := rh*p + (q-cum), flush one word when >= 2^(SB-P))
   [chain_release] (encode: refill exactly when the decoder flushed, divide back). *)
From CV Require Import Base.Bits Model.EModel Model.Chain Proofs.Chain_bits.
From Coq Require Import ZifyBool ZifyN.
Open Scope N_scope.
Set Default Timeout 30.

(* documented invariant of heads.remainders, chain.rs:254-257 *)
Definition remok (c : ccfg) (P rh : N) : Prop :=
  2 ^ (cSB c - cWB c - P) <= rh /\ rh < 2 ^ (cSB c - P).

Section Rem.
Variable c : ccfg.
Variable P : N.
Hypothesis Hwf : wf_ccfg c P.

Let W := cWB c.
Let S := cSB c.
Let L := 2 ^ (S - W - P).
Let U := 2 ^ (S - P).

Lemma wf_facts : 0 < P /\ P <= cPB c /\ cPB c <= W /\ W + P <= S.
Proof. exact Hwf. Qed.

Lemma L_pos : 0 < L. Proof. apply pow2_pos. Qed.

Lemma U_eq : U = L * 2 ^ W.
Proof.
  unfold U, L. rewrite <- pow2_add. f_equal.
  destruct wf_facts as (? & ? & ? & ?). lia.
Qed.

Lemma S_eq : 2 ^ S = U * 2 ^ P.
Proof.
  unfold U. apply pow2_split. destruct wf_facts as (? & ? & ? & ?). lia.
Qed.

Lemma P_W : 2 ^ P <= 2 ^ W.
Proof. apply pow2_le. destruct wf_facts as (? & ? & ? & ?). lia. Qed.

Lemma one_shl_U : shl S 1 (S - P) = U.
Proof.
  unfold shl. rewrite shiftl_mul, N.mul_1_l. apply trunc_small. apply pow2_lt.
  destruct wf_facts as (? & ? & ? & ?). lia.
Qed.

Lemma p_shl_L p : p <= 2 ^ P -> shl S p (S - W - P) = p * L.
Proof.
  intros Hp. unfold shl. rewrite shiftl_mul. fold L. apply trunc_small.
  rewrite S_eq, U_eq. pose proof L_pos. pose proof (pow2_pos W). pose proof (pow2_pos P).
  assert (p * L <= 2 ^ P * L) by (apply N.mul_le_mono_r; exact Hp).
  assert (2 ^ P * L * 1 < 2 ^ P * L * 2 ^ W).
  { apply N.mul_lt_mono_pos_l; [nia|]. apply (pow2_lt 0 W).
    destruct wf_facts as (? & ? & ? & ?). lia. }
  nia.
Qed.

Lemma wsub_exact q cum : cum <= q -> q < 2 ^ P -> wsub (cPB c) q cum = q - cum.
Proof.
  intros Hle Hq. unfold wsub.
  assert (HPB : 2 ^ P <= 2 ^ cPB c) by (apply pow2_le; destruct Hwf as (? & ? & ? & ?); lia).
  rewrite (N.mod_small cum) by lia.
  replace (q + 2 ^ cPB c - cum) with ((q - cum) + 1 * 2 ^ cPB c) by lia.
  rewrite N.mod_add by apply pow2_nz. apply N.mod_small. lia.
Qed.

(* ---------- truncation-free forms ---------- *)
Definition absorb_i (cum p q : N) (r : list N) (rh : N) : list N * N :=
  let rh1 := rh * p + (q - cum) in
  if U <=? rh1 then (rh1 mod 2 ^ W :: r, rh1 / 2 ^ W) else (r, rh1).

Definition release_i (p : N) (r : list N) (rh : N) : option (N * list N * N) :=
  if rh <? p * L then
    match r with
    | [] => None
    | w :: r' => Some ((rh * 2 ^ W + w) mod p, r', (rh * 2 ^ W + w) / p)
    end
  else Some (rh mod p, r, rh / p).

(* rh*p + remainder < (rh+1)*p <= 2^(S-P) * 2^P : the State arithmetic of
   decode_symbol never wraps (comment at chain.rs:1107-1111) *)
Lemma absorb_no_overflow cum p q rh :
  wf_entry P cum p -> cum <= q < cum + p -> remok c P rh ->
  rh * p < 2 ^ S /\ rh * p + (q - cum) < p * U /\ p * U <= 2 ^ S.
Proof.
  intros [Hp Hcp] Hq [_ Hhi]. fold S W U in Hhi. rewrite S_eq.
  assert (p <= 2 ^ P) by lia.
  assert (p * U <= 2 ^ P * U) by (apply N.mul_le_mono_r; assumption).
  assert ((rh + 1) * p <= U * p) by (apply N.mul_le_mono_r; lia).
  split; [nia|]. split; nia.
Qed.

Lemma absorb_eq_i cum p q r rh :
  wf_entry P cum p -> cum <= q < cum + p -> remok c P rh ->
  chain_absorb c P cum p q r rh = absorb_i cum p q r rh.
Proof.
  intros He Hq Hr. destruct (absorb_no_overflow cum p q rh He Hq Hr) as (H1 & H2 & H3).
  destruct He as [Hp Hcp].
  unfold chain_absorb, absorb_i. fold S W.
  rewrite wsub_exact by lia.
  rewrite (trunc_small S (rh * p)) by exact H1.
  rewrite (trunc_small S (rh * p + (q - cum))) by lia.
  rewrite one_shl_U, shr_div. reflexivity.
Qed.

Lemma release_eq_i p r rh :
  0 < p -> p <= 2 ^ P -> remok c P rh -> wordsok c r ->
  chain_release c P p r rh =
  match release_i p r rh with
  | Some (rem, r', rh') => Some (rem, r', rh')
  | None => None
  end
  /\ (forall rem r' rh', release_i p r rh = Some (rem, r', rh') -> rem < p).
Proof.
  intros Hp HpP [Hlo Hhi] Hw. fold S W L U in Hlo, Hhi.
  assert (Hsmall : forall x, x mod p < p) by (intros; apply N.mod_lt; lia).
  assert (Htr : forall x, trunc (cPB c) (trunc W (x mod p)) = x mod p).
  { intros x. pose proof (Hsmall x). pose proof P_W.
    assert (2 ^ P <= 2 ^ cPB c) by (apply pow2_le; destruct Hwf as (? & ? & ? & ?); lia).
    rewrite (trunc_small W) by lia. apply trunc_small. lia. }
  unfold chain_release, release_i. fold S W. rewrite (p_shl_L p HpP).
  destruct (N.ltb_spec rh (p * L)) as [Hlt|Hge].
  - destruct r as [|w r'].
    + split; [reflexivity|discriminate].
    + apply Forall_cons_iff in Hw. destruct Hw as [Hw _]. fold W in Hw.
      assert (Hshl : N.lor (shl S rh W) w = rh * 2 ^ W + w).
      { unfold shl. rewrite shiftl_mul, trunc_small; [apply lor_disjoint; exact Hw|].
        rewrite S_eq, U_eq. pose proof L_pos. pose proof (pow2_pos W).
        assert (p * L <= 2 ^ P * L) by (apply N.mul_le_mono_r; exact HpP). nia. }
      rewrite Hshl, Htr. split; [reflexivity|].
      intros rem r'' rh' H. inversion H; subst. apply Hsmall.
  - rewrite Htr. split; [reflexivity|].
    intros rem r'' rh' H. inversion H; subst. apply Hsmall.
Qed.

(* ---------- invariants ---------- *)
Lemma absorb_i_ok cum p q r rh :
  wf_entry P cum p -> cum <= q < cum + p -> remok c P rh -> wordsok c r ->
  remok c P (snd (absorb_i cum p q r rh)) /\ wordsok c (fst (absorb_i cum p q r rh)).
Proof.
  intros He Hq Hr Hw. destruct (absorb_no_overflow cum p q rh He Hq Hr) as (H1 & H2 & H3).
  destruct He as [Hp Hcp]. destruct Hr as [Hlo Hhi]. fold S W L U in Hlo, Hhi.
  unfold absorb_i. set (rh1 := rh * p + (q - cum)) in *.
  destruct (N.leb_spec U rh1) as [Hfl|Hnf]; cbn [fst snd].
  - split.
    + unfold remok. fold S W L U. split.
      * apply div_ge_lower; [apply pow2_pos|]. rewrite <- U_eq. exact Hfl.
      * apply div_lt_upper; [apply pow2_pos|].
        rewrite S_eq in H3. pose proof P_W.
        assert (U * 2 ^ P <= U * 2 ^ W) by (apply N.mul_le_mono_l; assumption). lia.
    + constructor; [|exact Hw]. fold W. apply N.mod_lt, pow2_nz.
  - split; [|exact Hw]. unfold remok. fold S W L U. split; [|exact Hnf].
    assert (rh * 1 <= rh * p) by (apply N.mul_le_mono_l; lia). lia.
Qed.

Lemma release_i_ok p r rh rem r' rh' :
  0 < p -> p < 2 ^ P -> remok c P rh -> wordsok c r ->
  release_i p r rh = Some (rem, r', rh') ->
  remok c P rh' /\ wordsok c r'.
Proof.
  intros Hp HpP [Hlo Hhi] Hw. fold S W L U in Hlo, Hhi. unfold release_i.
  destruct (N.ltb_spec rh (p * L)) as [Hlt|Hge].
  - destruct r as [|w r0]; [discriminate|]. intros H; inversion H; subst rem r' rh'.
    apply Forall_cons_iff in Hw. destruct Hw as [Hw0 Hw]. fold W in Hw0.
    split; [|exact Hw]. unfold remok. fold S W L U. split.
    + apply div_ge_lower; [exact Hp|].
      pose proof P_W. pose proof L_pos.
      assert (L * 2 ^ W <= rh * 2 ^ W) by (apply N.mul_le_mono_r; exact Hlo).
      assert (L * p <= L * 2 ^ W) by (apply N.mul_le_mono_l; lia). lia.
    + apply div_lt_upper; [exact Hp|]. rewrite U_eq.
      assert ((rh + 1) * 2 ^ W <= p * L * 2 ^ W) by (apply N.mul_le_mono_r; lia). lia.
  - intros H; inversion H; subst rem r' rh'. split; [|exact Hw].
    unfold remok. fold S W L U. split.
    + apply div_ge_lower; [exact Hp|]. lia.
    + pose proof (div_le_self rh p). lia.
Qed.

(* ---------- the two inverse laws ---------- *)
(* the encoder refills exactly when the decoder flushed *)
Lemma release_absorb_i cum p q r rh :
  wf_entry P cum p -> cum <= q < cum + p -> remok c P rh ->
  let '(r', rh') := absorb_i cum p q r rh in release_i p r' rh' = Some (q - cum, r, rh).
Proof.
  intros He Hq Hr. destruct (absorb_no_overflow cum p q rh He Hq Hr) as (H1 & H2 & H3).
  destruct He as [Hp Hcp]. destruct Hr as [Hlo Hhi]. fold S W L U in Hlo, Hhi.
  unfold absorb_i. set (rh1 := rh * p + (q - cum)) in *.
  assert (Hrem : q - cum < p) by lia.
  assert (Hm : rh1 mod p = q - cum) by (apply mod_mul_add_small; exact Hrem).
  assert (Hd : rh1 / p = rh) by (apply div_mul_add_small; exact Hrem).
  destruct (N.leb_spec U rh1) as [Hfl|Hnf]; unfold release_i.
  - assert (Hlt : rh1 / 2 ^ W < p * L).
    { apply div_lt_upper; [apply pow2_pos|]. rewrite <- N.mul_assoc, <- U_eq. exact H2. }
    destruct (N.ltb_spec (rh1 / 2 ^ W) (p * L)) as [_|?]; [|lia].
    replace (rh1 / 2 ^ W * 2 ^ W + rh1 mod 2 ^ W) with rh1
      by (rewrite (div_mod_eq rh1 (2 ^ W)) at 1 by apply pow2_nz; lia).
    rewrite Hm, Hd. reflexivity.
  - assert (Hge : p * L <= rh1).
    { assert (L * p <= rh * p) by (apply N.mul_le_mono_r; exact Hlo). lia. }
    destruct (N.ltb_spec rh1 (p * L)) as [?|_]; [lia|].
    rewrite Hm, Hd. reflexivity.
Qed.

(* the decoder flushes exactly when the encoder refilled *)
Lemma absorb_release_i cum p r rh rem r' rh' :
  0 < p -> remok c P rh -> wordsok c r ->
  release_i p r rh = Some (rem, r', rh') ->
  absorb_i cum p (cum + rem) r' rh' = (r, rh).
Proof.
  intros Hp [Hlo Hhi] Hw. fold S W L U in Hlo, Hhi. unfold release_i.
  destruct (N.ltb_spec rh (p * L)) as [Hlt|Hge].
  - destruct r as [|w r0]; [discriminate|]. intros H; inversion H; subst rem r' rh'.
    apply Forall_cons_iff in Hw. destruct Hw as [Hw0 _]. fold W in Hw0.
    unfold absorb_i. set (rh1 := rh * 2 ^ W + w).
    replace (rh1 / p * p + (cum + rh1 mod p - cum)) with rh1
      by (rewrite (div_mod_eq rh1 p) at 1 by lia; lia).
    assert (U <= rh1).
    { rewrite U_eq. assert (L * 2 ^ W <= rh * 2 ^ W) by (apply N.mul_le_mono_r; exact Hlo).
      subst rh1. lia. }
    destruct (N.leb_spec U rh1) as [_|?]; [|lia].
    subst rh1. rewrite mod_mul_add_small, div_mul_add_small by exact Hw0. reflexivity.
  - intros H; inversion H; subst rem r' rh'.
    unfold absorb_i.
    replace (rh / p * p + (cum + rh mod p - cum)) with rh
      by (rewrite (div_mod_eq rh p) at 1 by lia; lia).
    destruct (N.leb_spec U rh) as [?|_]; [lia|]. reflexivity.
Qed.

(* running out of remainders: exactly when a refill is needed and the backend is
   empty; nothing was mutated *)
Lemma chain_release_none p r rh :
  chain_release c P p r rh = None <-> r = [] /\ rh < shl S p (S - W - P).
Proof.
  unfold chain_release. fold S W.
  destruct (N.ltb_spec rh (shl S p (S - W - P))) as [Hlt|Hge].
  - destruct r; split; try discriminate; intuition congruence.
  - split; [discriminate|]. intros [_ ?]. lia.
Qed.

(* release only pops; what lies underneath the popped word is irrelevant *)
Lemma chain_release_frame p r rh rem r' rh' base :
  chain_release c P p r rh = Some (rem, r', rh') ->
  chain_release c P p (r ++ base) rh = Some (rem, r' ++ base, rh').
Proof.
  unfold chain_release.
  destruct (rh <? shl (cSB c) p (cSB c - cWB c - P)).
  - destruct r as [|w r0]; [discriminate|]. cbn. intros H; inversion H; subst. reflexivity.
  - intros H; inversion H; subst. reflexivity.
Qed.

End Rem.
