(* Proofs/Ans_size.v -- compressed size of the ANS coder (C12) in exact integer form. *)
From CV Require Import Base.Bits Model.EModel Model.Ans Proofs.Ans_core Proofs.Ans_lemmas
  Proofs.Ans_words Proofs.Ans_extra.
From Coq Require Import ZifyBool ZifyN ZifyNat.
Open Scope N_scope.
Set Default Timeout 30.

(* ---- pure arithmetic of one step ---- *)
Lemma step_growth s p cum P :
  0 < p -> cum + p <= 2 ^ P ->
  ((s / p) * 2 ^ P + cum + s mod p) * p < (s + p) * 2 ^ P.
Proof.
  intros Hp Hcp.
  assert (Hm : s mod p < p) by (apply N.mod_lt; lia).
  assert (Hd : s / p * p <= s) by (rewrite N.mul_comm; apply N.mul_div_le; lia).
  set (q := s / p) in *. set (r := s mod p) in *. set (X := 2 ^ P) in *.
  assert (H1 : q * X + cum + r < (q + 1) * X) by lia.
  assert (H2 : (q * X + cum + r) * p < (q + 1) * X * p) by (apply N.mul_lt_mono_pos_r; lia).
  assert (H3 : (q + 1) * X * p = (q * p + p) * X) by lia.
  assert (H4 : (q * p + p) * X <= (s + p) * X) by (apply N.mul_le_mono_r; lia).
  lia.
Qed.

Lemma step_growth_K s p cum P K :
  0 < p -> cum + p <= 2 ^ P -> p * K <= s ->
  ((s / p) * 2 ^ P + cum + s mod p) * p * K <= s * (K + 1) * 2 ^ P.
Proof.
  intros Hp Hcp HpK.
  pose proof (step_growth s p cum P Hp Hcp) as H.
  set (s2 := (s / p) * 2 ^ P + cum + s mod p) in *. set (X := 2 ^ P) in *.
  assert (H1 : s2 * p * K <= (s + p) * X * K) by (apply N.mul_le_mono_r; lia).
  assert (H2 : (s + p) * X * K = (s * K + p * K) * X) by lia.
  assert (H3 : (s * K + p * K) * X <= (s * K + s) * X) by (apply N.mul_le_mono_r; lia).
  lia.
Qed.

Lemma startup_bound s p X K T : s < T -> p <= X -> X * K = T -> (s + p) * K <= T * (K + 1).
Proof.
  intros Hs Hp HT.
  assert (s * K <= T * K) by (apply N.mul_le_mono_r; lia).
  assert (p * K <= X * K) by (apply N.mul_le_mono_r; lia).
  lia.
Qed.

Lemma startup_bound2 s2 s p X K T :
  s2 * p < (s + p) * X -> (s + p) * K <= T * (K + 1) -> s2 * (p * K) <= T * (X * (K + 1)).
Proof.
  intros H1 H2.
  assert (s2 * p * K <= (s + p) * X * K) by (apply N.mul_le_mono_r; lia).
  assert (X * ((s + p) * K) <= X * (T * (K + 1))) by (apply N.mul_le_mono_l; exact H2).
  lia.
Qed.

Lemma pK_le s p X K T : p <= X -> X * K = T -> T <= s -> p * K <= s.
Proof.
  intros Hp HT Hs. assert (p * K <= X * K) by (apply N.mul_le_mono_r; lia). lia.
Qed.

(* ---- digit strings ---- *)
Lemma val_ls_app wb l1 l2 :
  val_ls wb (l1 ++ l2) = val_ls wb l1 + (2 ^ wb) ^ N.of_nat (length l1) * val_ls wb l2.
Proof.
  induction l1 as [|w r IH]; cbn [app val_ls length].
  - cbn. rewrite N.pow_0_r. lia.
  - rewrite IH. replace (N.of_nat (S (length r))) with (N.of_nat (length r) + 1) by lia.
    rewrite N.pow_add_r, N.pow_1_r. lia.
Qed.

Lemma val_chunks wb n : forall s, s < (2 ^ wb) ^ N.of_nat n -> val_ls wb (chunks wb n s) = s.
Proof.
  induction n as [|n IH]; intros s Hs.
  - cbn in Hs. rewrite N.pow_0_r in Hs. assert (s = 0) by lia. subst. reflexivity.
  - cbn [chunks]. destruct (N.eqb_spec s 0) as [->|Hnz]; [reflexivity|].
    cbn [val_ls]. unfold trunc, shr. rewrite N.shiftr_div_pow2.
    pose proof (pow2_pos wb) as HB.
    rewrite IH.
    + rewrite (N.div_mod s (2 ^ wb)) at 3 by lia. lia.
    + apply div_lt_upper; [exact HB|].
      replace (N.of_nat (S n)) with (N.of_nat n + 1) in Hs by lia.
      rewrite N.pow_add_r, N.pow_1_r in Hs. exact Hs.
Qed.

Lemma val_ls_lower wb ws :
  ws <> [] -> last ws 0 <> 0 -> (2 ^ wb) ^ N.of_nat (length ws - 1) <= val_ls wb ws.
Proof.
  induction ws as [|w r IH]; intros Hne Hlast; [contradiction|].
  destruct r as [|w' r'].
  - cbn in *. rewrite N.pow_0_r. lia.
  - change (val_ls wb (w :: w' :: r')) with (w + 2 ^ wb * val_ls wb (w' :: r')).
    cbn [last] in Hlast.
    assert (Hne' : w' :: r' <> []) by discriminate.
    specialize (IH Hne' Hlast). cbn [length] in *.
    replace (N.of_nat (S (S (length r')) - 1)) with (N.of_nat (S (length r') - 1) + 1) by lia.
    rewrite N.pow_add_r, N.pow_1_r.
    set (X := (2 ^ wb) ^ N.of_nat (S (length r') - 1)) in *.
    set (V := val_ls wb (w' :: r')) in *.
    assert (X * 2 ^ wb <= 2 ^ wb * V) by (rewrite N.mul_comm; apply N.mul_le_mono_l; exact IH).
    lia.
Qed.

Section Size.
Variable c : cfg.
Hypothesis Hc : wf_cfg c.
Let W := WB c.
Let S := SB c.
Let B := 2 ^ W.
Let T := 2 ^ (S - W).

Lemma ans_value_eq a :
  st a < 2 ^ S ->
  ans_value c a = val_ls W (rev (bulk a)) + B ^ N.of_nat (length (bulk a)) * st a.
Proof.
  intros Hst. unfold ans_value, ans_words. rewrite val_ls_app, rev_length. fold W B.
  unfold state_chunks. fold W. rewrite val_chunks; [reflexivity|].
  apply (nchunks_enough c Hc). exact Hst.
Qed.

(* the rounding constant of one step *)
Definition Kof (P : N) : N := 2 ^ (S - W - P).

(* one encoding step: the potential grows by at most 2^P (K+1) / (p K) *)
Lemma ans_growth P cum p a :
  0 < P -> P <= W -> wf_entry P cum p -> ans_inv c a ->
  ans_potential c (ans_encode c P cum p a) * (p * Kof P)
  <= ans_potential c a * (2 ^ P * (Kof P + 1)).
Proof.
  intros HP0 HPW Hwf Hinv. pose proof Hwf as [Hp Hcp].
  destruct Hinv as (Hb & Hst & Hall). fold S in Hst. rewrite thr_eq in Hb. fold S W T in Hb.
  assert (Hinv : ans_inv c a) by (repeat split; assumption).
  destruct (enc_eq_ideal c Hc P HP0 HPW cum p a Hwf Hst) as [Heq Hlt]. rewrite Heq.
  unfold ans_potential. rewrite !ans_value_eq by assumption.
  rewrite thr_eq. fold S W T. set (K := Kof P).
  assert (HTK : 2 ^ P * K = T) by (unfold K, Kof, T; symmetry; rewrite N.mul_comm; apply (thr_split_P c Hc P HP0 HPW)).
  assert (HpK : p * K <= 2 ^ P * (K + 1)).
  { assert (p * K <= 2 ^ P * K) by (apply N.mul_le_mono_r; lia). lia. }
  assert (HKpos : 0 < K) by apply pow2_pos.
  unfold enc_ideal, enc_flush. fold S W.
  destruct (N.leb_spec (p * 2 ^ (S - P)) (st a)) as [Hfl|Hnf]; cbn [bulk st length rev].
  - (* flush *)
    rewrite val_ls_app, rev_length. cbn [val_ls length]. fold B.
    set (low := val_ls W (rev (bulk a))). set (k := N.of_nat (length (bulk a))).
    set (s1 := st a / B).
    replace (N.of_nat (Datatypes.S (length (bulk a)))) with (k + 1) by lia.
    rewrite N.pow_add_r, N.pow_1_r, N.mul_0_r, N.add_0_r.
    assert (Hs1 : p * K <= s1).
    { apply div_ge_lower; [apply pow2_pos|].
      assert (HKB : K * B = 2 ^ (S - P)) by (unfold K, Kof, B; symmetry; apply (SmP_split c Hc P HP0 HPW)).
      fold B. rewrite <- N.mul_assoc, HKB. exact Hfl. }
    pose proof (step_growth_K s1 p cum P K Hp Hcp Hs1) as Hg.
    set (s2 := s1 / p * 2 ^ P + cum + s1 mod p) in *.
    assert (Hval : low + B ^ k * (st a mod B) + B ^ k * B * s1 = low + B ^ k * st a).
    { rewrite (N.div_mod (st a) B) at 2 by (apply pow2_nz). fold s1. lia. }
    assert (Hmain : (low + B ^ k * (st a mod B) + B ^ k * B * s2) * (p * K)
                    <= (low + B ^ k * st a) * (2 ^ P * (K + 1))).
    { rewrite <- Hval.
      assert (B ^ k * B * s2 * (p * K) <= B ^ k * B * s1 * (2 ^ P * (K + 1))).
      { replace (B ^ k * B * s2 * (p * K)) with (B ^ k * B * (s2 * p * K)) by lia.
        replace (B ^ k * B * s1 * (2 ^ P * (K + 1))) with (B ^ k * B * (s1 * (K + 1) * 2 ^ P)) by lia.
        apply N.mul_le_mono_l. exact Hg. }
      assert ((low + B ^ k * (st a mod B)) * (p * K) <= (low + B ^ k * (st a mod B)) * (2 ^ P * (K + 1)))
        by (apply N.mul_le_mono_l; exact HpK).
      rewrite (N.mul_add_distr_r _ (B ^ k * B * s2)), (N.mul_add_distr_r _ (B ^ k * B * s1)).
      apply N.add_le_mono; assumption. }
    apply N.max_case_strong; intros _.
    + eapply N.le_trans; [exact Hmain|]. apply N.mul_le_mono_r. apply N.le_max_l.
    + eapply N.le_trans; [apply N.mul_le_mono_l; exact HpK|]. apply N.mul_le_mono_r. apply N.le_max_r.
  - (* no flush *)
    set (low := val_ls W (rev (bulk a))). set (k := N.of_nat (length (bulk a))).
    set (s2 := st a / p * 2 ^ P + cum + st a mod p).
    destruct Hb as [Hbe|Hge].
    + (* start-up phase: empty bulk *)
      subst low k. rewrite Hbe. cbn [rev val_ls length N.of_nat]. rewrite N.pow_0_r, !N.add_0_l, !N.mul_1_l.
      pose proof (step_growth (st a) p cum P Hp Hcp) as Hg. fold s2 in Hg.
      destruct (N.lt_ge_cases (st a) T) as [HltT|HgeT].
      * (* potential before = T *)
        rewrite (N.max_r (st a) T) by lia.
        assert (Hp2 : p <= 2 ^ P) by lia.
        assert (H1 : s2 * (p * K) <= T * (2 ^ P * (K + 1))).
        { apply (startup_bound2 s2 (st a) p (2 ^ P) K T Hg).
          apply (startup_bound (st a) p (2 ^ P) K T HltT Hp2 HTK). }
        apply N.max_case_strong; intros _; [exact H1|].
        apply N.mul_le_mono_l. exact HpK.
      * assert (Hp2 : p <= 2 ^ P) by lia.
        assert (HpKs : p * K <= st a) by (apply (pK_le (st a) p (2 ^ P) K T Hp2 HTK HgeT)).
        pose proof (step_growth_K (st a) p cum P K Hp Hcp HpKs) as Hg2. fold s2 in Hg2.
        rewrite (N.max_l (st a) T) by lia.
        apply N.max_case_strong; intros _; [lia|].
        eapply N.le_trans; [apply N.mul_le_mono_l; exact HpK|]. apply N.mul_le_mono_r. exact HgeT.
    + assert (Hp2 : p <= 2 ^ P) by lia.
      assert (HpKs : p * K <= st a) by (apply (pK_le (st a) p (2 ^ P) K T Hp2 HTK Hge)).
      pose proof (step_growth_K (st a) p cum P K Hp Hcp HpKs) as Hg. fold s2 in Hg.
      assert (Hmain : (low + B ^ k * s2) * (p * K) <= (low + B ^ k * st a) * (2 ^ P * (K + 1))).
      { assert (B ^ k * s2 * (p * K) <= B ^ k * st a * (2 ^ P * (K + 1))).
        { replace (B ^ k * s2 * (p * K)) with (B ^ k * (s2 * p * K)) by lia.
          replace (B ^ k * st a * (2 ^ P * (K + 1))) with (B ^ k * (st a * (K + 1) * 2 ^ P)) by lia.
          apply N.mul_le_mono_l. exact Hg. }
        assert (low * (p * K) <= low * (2 ^ P * (K + 1))) by (apply N.mul_le_mono_l; exact HpK).
        rewrite !N.mul_add_distr_r. apply N.add_le_mono; assumption. }
      apply N.max_case_strong; intros _.
      * eapply N.le_trans; [exact Hmain|]. apply N.mul_le_mono_r. apply N.le_max_l.
      * eapply N.le_trans; [apply N.mul_le_mono_l; exact HpK|]. apply N.mul_le_mono_r. apply N.le_max_r.
Qed.

(* ---- whole messages: entries are (P, cum, p) ---- *)
Definition entry := (N * N * N)%type.
Definition entry_ok (e : entry) : Prop :=
  let '(P, cum, p) := e in 0 < P /\ P <= W /\ wf_entry P cum p.

Fixpoint encode_entries (l : list entry) (a : ans) : ans :=
  match l with
  | [] => a
  | (P, cum, p) :: r => encode_entries r (ans_encode c P cum p a)
  end.

(* denominators / numerators of the information bound, as exact integers *)
Fixpoint info_den (l : list entry) : N :=
  match l with [] => 1 | (P, _, p) :: r => p * Kof P * info_den r end.
Fixpoint info_num (l : list entry) : N :=
  match l with [] => 1 | (P, _, _) :: r => 2 ^ P * (Kof P + 1) * info_num r end.

Lemma encode_entries_inv l : forall a, Forall entry_ok l -> ans_inv c a -> ans_inv c (encode_entries l a).
Proof.
  induction l as [|[[P cum] p] r IH]; intros a Hl Hinv; [exact Hinv|].
  inversion Hl as [|? ? He Hr]; subst. cbn in He. destruct He as (HP0 & HPW & Hwf). cbn [encode_entries]. apply IH; [exact Hr|].
  destruct (ans_dec_enc c Hc P cum p a (conj HP0 HPW) Hwf Hinv) as [Hi _]. exact Hi.
Qed.

Theorem ans_size_product l : forall a,
  Forall entry_ok l -> ans_inv c a ->
  ans_potential c (encode_entries l a) * info_den l <= ans_potential c a * info_num l.
Proof.
  induction l as [|[[P cum] p] r IH]; intros a Hl Hinv; cbn [encode_entries info_den info_num]; [lia|].
  inversion Hl as [|? ? He Hr]; subst. cbn in He. destruct He as (HP0 & HPW & Hwf).
  destruct (ans_dec_enc c Hc P cum p a (conj HP0 HPW) Hwf Hinv) as [Hi _].
  pose proof (IH _ Hr Hi) as H1.
  pose proof (ans_growth P cum p a HP0 HPW Hwf Hinv) as H2.
  set (X := ans_potential c (encode_entries r (ans_encode c P cum p a))) in *.
  set (Y := ans_potential c (ans_encode c P cum p a)) in *.
  set (Z := ans_potential c a) in *.
  assert (X * info_den r * (p * Kof P) <= Y * info_num r * (p * Kof P)) by (apply N.mul_le_mono_r; exact H1).
  assert (Y * (p * Kof P) * info_num r <= Z * (2 ^ P * (Kof P + 1)) * info_num r) by (apply N.mul_le_mono_r; exact H2).
  lia.
Qed.

(* number of words: B^(words-1) <= value, so the bound above is a bound on the bit count *)
Lemma ans_words_value a :
  ans_inv c a -> ans_words c a <> [] ->
  B ^ N.of_nat (length (ans_words c a) - 1) <= ans_value c a.
Proof.
  intros Hinv Hne. unfold ans_value.
  destruct (ans_words_last_nz c Hc a Hinv) as [He|Hl]; [contradiction|].
  apply val_ls_lower; assumption.
Qed.

(* word-count part: each symbol writes at most one word *)
Lemma encode_entries_bulk l : forall a,
  (length (bulk (encode_entries l a)) <= length (bulk a) + length l)%nat.
Proof.
  induction l as [|[[P cum] p] r IH]; intros a; cbn [encode_entries length]; [lia|].
  specialize (IH (ans_encode c P cum p a)).
  destruct (ans_encode_bulk_growth c P cum p a) as [He|[w He]]; rewrite He in IH; cbn [length] in IH; lia.
Qed.

Lemma state_chunks_length s : (length (state_chunks c s) <= nchunks c)%nat.
Proof.
  unfold state_chunks. generalize (nchunks c). intros n. revert s.
  induction n as [|n IH]; intros s; cbn [chunks]; [cbn; lia|].
  destruct (s =? 0); cbn [length]; [lia|]. specialize (IH (shr s (WB c))). lia.
Qed.

Theorem ans_size_words l :
  (length (ans_words c (encode_entries l ans_empty)) <= length l + nchunks c)%nat.
Proof.
  unfold ans_words. rewrite app_length, rev_length.
  pose proof (encode_entries_bulk l ans_empty). cbn [bulk ans_empty length] in H.
  pose proof (state_chunks_length (st (encode_entries l ans_empty))). lia.
Qed.

(* headline: from the empty coder *)
Theorem ans_size_bound l :
  Forall entry_ok l ->
  let a := encode_entries l ans_empty in
  ans_words c a <> [] ->
  B ^ N.of_nat (length (ans_words c a) - 1) * info_den l <= T * info_num l.
Proof.
  intros Hl a Hne.
  pose proof (ans_size_product l ans_empty Hl (ans_empty_inv c)) as H.
  assert (Hp0 : ans_potential c ans_empty = T).
  { unfold ans_potential, ans_value, ans_words, ans_empty; cbn [bulk st rev app].
    unfold state_chunks. rewrite (chunks_zero c). cbn [val_ls]. rewrite thr_eq. apply N.max_r. lia. }
  rewrite Hp0 in H.
  pose proof (ans_words_value a (encode_entries_inv l _ Hl (ans_empty_inv c)) Hne) as Hv.
  assert (Hle : ans_value c a <= ans_potential c a) by (apply N.le_max_l).
  eapply N.le_trans; [|exact H]. apply N.mul_le_mono_r.
  eapply N.le_trans; [exact Hv|exact Hle].
Qed.

End Size.
