(* Corr/Range_run.v -- runs an integer-encoded range-coder case on Model/Range.v.
   Mirror of harness/src/fam_range.rs; format documented in lib/fam_range.py.

   Besides mirroring the implementation's outputs the runner carries the big-number
   specification (Model/RangeSpec.v) alongside the concrete model and checks, after every
   encode / decode / seal / seek, that the refinement relations of DESIGN.md Appendix A
   (rencb, rdecb, sealed words = spec_words, spec decoder = concrete decoder) hold.
   The result of that model-vs-spec differential check is the LAST integer of the output
   (0 = every check held); the harness prints a constant 0 in that slot. *)
From CV Require Import Corr.Parse Model.Range Model.RangeSpec.
Open Scope Z_scope.

Definition ERR_IMPOSSIBLE := -1.
Definition ERR_STATE := -5.
Definition ERR_INVALID := -6.
Definition ERR_SEEK := -7.
Definition ERR_RAW := -8.

Definition out_words (ws : list N) : list Z := Z.of_nat (length ws) :: map nZ ws.

Definition sit_ints (s : situation) : list Z :=
  match s with Normal => [0; 0] | Inverted n w => [nZ n; nZ w] end.

(* Big literals are expensive to elaborate on the Coq side, so the per-step snapshots carry a
   digest of (lower, range[, point]); the complete values are compared at every pos / raw-parts
   op and at the end of each case. *)
Definition DIGEST_MOD : Z := 1000003.
Definition digest2 (a b : N) : Z := (nZ a + 31 * nZ b) mod DIGEST_MOD.
Definition digest3 (a b c : N) : Z := (nZ a + 31 * nZ b + 977 * nZ c) mod DIGEST_MOD.

Definition enc_compact (e : renc) : list Z :=
  Z.of_nat (length (e_bulk e)) :: digest2 (e_lower e) (e_range e) :: sit_ints (e_sit e).

Definition dec_compact (d : rdec) : list Z :=
  [Z.of_nat (rdec_pos d); digest3 (d_lower d) (d_range d) (d_point d)].

Definition enc_raw (e : renc) : list Z :=
  out_words (rev (e_bulk e)) ++ nZ (e_lower e) :: nZ (e_range e) :: sit_ints (e_sit e).

Definition dec_raw (d : rdec) : list Z :=
  [Z.of_nat (rdec_pos d); nZ (d_lower d); nZ (d_range d); nZ (d_point d)].

(* a snapshot taken by Pos::pos: position, (lower, range), and the spec state if tracked *)
Definition snap := (N * N * N * option sstate)%type.

(* None = the model reached one of its Panic_* results *)
Definition opt_app (a : list Z) (b : option (list Z)) : option (list Z) :=
  match b with Some l => Some (a ++ l) | None => None end.

(* decode k symbols with the listed models; errors do not stop the loop (the decoder is
   untouched by a failed call) *)
Fixpoint dec_seq (c : rcfg) (ms : list rmodel) (seq : list Z) (d : rdec) : option (list Z * rdec) :=
  match seq with
  | [] => Some ([], d)
  | m :: r =>
      match rdec_decode c (get_model ms m) d with
      | ROk (s, d') =>
          match dec_seq c ms r d' with
          | Some (o, d'') => Some (0 :: s :: o, d'')
          | None => None
          end
      | RErrInvalidData =>
          match dec_seq c ms r d with
          | Some (o, d'') => Some (ERR_INVALID :: 0 :: o, d'')
          | None => None
          end
      | _ => None
      end
  end.

(* ---- spec tracking helpers ---- *)
Definition track_enc (c : rcfg) (m : emodel) (s : Z) (tr : option sstate) : option sstate :=
  match tr, em_enc m s with
  | Some st, Some (cum, p) => Some (spec_step c (em_prec m) cum p st)
  | _, _ => tr
  end.

Definition chk_enc (c : rcfg) (e : renc) (tr : option sstate) : bool :=
  match tr with Some st => rencb c e st | None => true end.

(* sealed words against the spec: digits of the seal point, or nothing for the empty message *)
Definition chk_seal (c : rcfg) (ws : list N) (tr : option sstate) (nsym : nat) : bool :=
  match tr with
  | Some st => list_eqbN ws (match nsym with O => [] | _ => spec_seal_digits c st end)
  | None => true
  end.

Definition window_ok (c : rcfg) (t : list N) (st : sstate) : bool :=
  (sL st <=? spec_window c t st)%N && (spec_window c t st <=? sL st + sR st)%N.

(* op 26: decode_iid_symbols(k, model): exactly k items, errors leave the decoder unchanged *)
Fixpoint dec_iid_items (c : rcfg) (md : emodel) (k : nat) (d : rdec) : option (list Z * rdec) :=
  match k with
  | O => Some ([], d)
  | S k' =>
      match rdec_decode c md d with
      | ROk (s, d') =>
          match dec_iid_items c md k' d' with
          | Some (l, d'') => Some (0 :: s :: l, d'')
          | None => None
          end
      | RErrInvalidData =>
          match dec_iid_items c md k' d with
          | Some (l, d'') => Some (ERR_INVALID :: 0 :: l, d'')
          | None => None
          end
      | _ => None
      end
  end.

(* ---- decoder phase ---- *)
Fixpoint dec_loop (fuel : nat) (c : rcfg) (ms : list rmodel) (snaps : list snap) (l : list Z)
         (d : rdec) (tr : option sstate) (ok : bool) : option (list Z) :=
  match fuel with
  | O => Some (dec_raw d ++ [if ok then 0 else 1])
  | S fuel' =>
    match l with
    | [] => Some (dec_raw d ++ [if ok then 0 else 1])
    | 20 :: m :: r =>
        let md := get_model ms m in
        match rdec_decode c md d with
        | ROk (s, d') =>
            let '(tr', ok') :=
              match tr with
              | Some st =>
                  match spec_decode c md (d_buf d) st with
                  | Some (s2, st') => (Some st', ok && Z.eqb s s2 && rdecb c (d_buf d) d' st')
                  | None => (None, false)
                  end
              | None => (None, ok)
              end in
            opt_app (0 :: s :: dec_compact d') (dec_loop fuel' c ms snaps r d' tr' ok')
        | RErrInvalidData =>
            let ok' := match tr with
                       | Some st => match spec_decode c md (d_buf d) st with None => ok | Some _ => false end
                       | None => ok
                       end in
            opt_app (ERR_INVALID :: 0 :: dec_compact d) (dec_loop fuel' c ms snaps r d tr ok')
        | _ => None
        end
    | 26 :: m :: k :: r =>
        match dec_iid_items c (get_model ms m) (Z.to_nat k) d with
        | Some (l, d') => opt_app (k :: l ++ dec_compact d') (dec_loop fuel' c ms snaps r d' None ok)
        | None => None
        end
    | 21 :: r =>
        opt_app [if rdec_maybe_exhausted c d then 1 else 0] (dec_loop fuel' c ms snaps r d tr ok)
    | 22 :: i :: r =>
        let '(pos, lo, ra, st) := nth (Z.to_nat i) snaps (0%N, 0%N, 0%N, None) in
        match rdec_seek c pos lo ra d with
        | Some d' =>
            let tr' := match st with
                       | Some s0 => if window_ok c (d_buf d) s0 then Some s0 else None
                       | None => None
                       end in
            let ok' := match tr' with Some s0 => ok && rdecb c (d_buf d) d' s0 | None => ok end in
            opt_app [0] (dec_loop fuel' c ms snaps r d' tr' ok')
        | None => opt_app [ERR_SEEK] (dec_loop fuel' c ms snaps r d tr ok)
        end
    | 27 :: i :: r =>
        let '(pos, lo, ra, st) := nth (Z.to_nat i) snaps (0%N, 0%N, 0%N, None) in
        if rstate_ok c ra then
          match rdec_seek c pos lo ra d with
          | Some d' =>
              let tr' := match st with
                         | Some s0 => if window_ok c (d_buf d) s0 then Some s0 else None
                         | None => None
                         end in
              let ok' := match tr' with Some s0 => ok && rdecb c (d_buf d) d' s0 | None => ok end in
              opt_app [0] (dec_loop fuel' c ms snaps r d' tr' ok')
          | None => opt_app [ERR_SEEK] (dec_loop fuel' c ms snaps r d tr ok)
          end
        else opt_app [ERR_STATE] (dec_loop fuel' c ms snaps r d tr ok)
    | 23 :: r => opt_app (dec_raw d) (dec_loop fuel' c ms snaps r d tr ok)
    | 28 :: r =>               (* the decoder taken apart and reassembled from its own raw parts *)
        match rdec_from_raw_parts c (d_buf d) (d_rest d) (d_lower d) (d_range d) (d_point d) with
        | Some d' => opt_app [0] (dec_loop fuel' c ms snaps r d' tr ok)
        | None => opt_app [ERR_RAW] (dec_loop fuel' c ms snaps r d tr ok)
        end
    | 24 :: pos :: lo :: ra :: r =>
        if rstate_ok c (zN ra) then
          match rdec_seek c (zN pos) (zN lo) (zN ra) d with
          | Some d' => opt_app [0] (dec_loop fuel' c ms snaps r d' None ok)
          | None => opt_app [ERR_SEEK] (dec_loop fuel' c ms snaps r d tr ok)
          end
        else opt_app [ERR_STATE] (dec_loop fuel' c ms snaps r d tr ok)
    | 25 :: lo :: ra :: pt :: r =>
        if rstate_ok c (zN ra) then
          match rdec_from_raw_parts c (d_buf d) (d_rest d) (zN lo) (zN ra) (zN pt) with
          | Some d' => opt_app [0] (dec_loop fuel' c ms snaps r d' None ok)
          | None => opt_app [ERR_RAW] (dec_loop fuel' c ms snaps r d tr ok)
          end
        else opt_app [ERR_STATE] (dec_loop fuel' c ms snaps r d tr ok)
    | _ => None
    end
  end.

(* ---- encoder phase ---- *)
Fixpoint enc_loop (fuel : nat) (c : rcfg) (ms : list rmodel) (snaps : list snap) (l : list Z)
         (e : renc) (tr : option sstate) (nsym : nat) (ok : bool) : option (list Z) :=
  match fuel with
  | O => Some (enc_raw e ++ [if ok then 0 else 1])
  | S fuel' =>
    match l with
    | [] => Some (enc_raw e ++ [if ok then 0 else 1])
    | 1 :: m :: s :: r =>
        let md := get_model ms m in
        match renc_encode_sym c md s e with
        | ROk e' =>
            let tr' := track_enc c md s tr in
            opt_app (0 :: enc_compact e')
                    (enc_loop fuel' c ms snaps r e' tr' (S nsym) (ok && chk_enc c e' tr'))
        | RErrImpossible =>
            opt_app (ERR_IMPOSSIBLE :: enc_compact e) (enc_loop fuel' c ms snaps r e tr nsym ok)
        | _ => None
        end
    | 2 :: r =>
        match renc_get_compressed c e with
        | ROk (view, e') =>
            opt_app (out_words view)
                    (enc_loop fuel' c ms snaps r e' tr nsym (ok && chk_seal c view tr nsym))
        | _ => None
        end
    | 3 :: r =>
        opt_app [nZ (renc_num_words c e); nZ (renc_num_bits c e);
                 if renc_is_empty c e then 1 else 0; if renc_maybe_full e then 1 else 0]
                (enc_loop fuel' c ms snaps r e tr nsym ok)
    | 4 :: r =>
        let '(pos, (lo, ra)) := renc_pos e in
        opt_app [nZ pos; nZ lo; nZ ra]
                (enc_loop fuel' c ms (snaps ++ [(pos, lo, ra, tr)]) r e tr nsym ok)
    | 5 :: r =>
        let '(seq, r') := read_list r in
        match renc_get_compressed c e with
        | ROk (view, e') =>
            match dec_seq c ms seq (rdec_from_compressed c view) with
            | Some (o, d') =>
                opt_app (o ++ [if rdec_maybe_exhausted c d' then 1 else 0])
                        (enc_loop fuel' c ms snaps r' e' tr nsym ok)
            | None => None
            end
        | _ => None
        end
    | 6 :: r => opt_app (enc_raw e) (enc_loop fuel' c ms snaps r e tr nsym ok)
    | 7 :: r => opt_app [0] (enc_loop fuel' c ms snaps r e tr nsym ok)
    | 15 :: r => opt_app [0] (enc_loop fuel' c ms snaps r (renc_clear c e) (Some (spec_init c)) 0%nat ok)
    | 13 :: r => opt_app [0] (enc_loop fuel' c ms snaps r e tr nsym ok)   (* clone_from: same coder *)
    | 14 :: r => opt_app [0] (enc_loop fuel' c ms snaps r e tr nsym ok)   (* clone: same coder *)
    | 8 :: r =>
        let '(b, r1) := read_list r in
        match r1 with
        | lo :: ra :: n :: w :: r2 =>
            if rstate_ok c (zN ra) then
              let e' := {| e_bulk := rev (map zN b); e_lower := zN lo; e_range := zN ra;
                           e_sit := if n =? 0 then Normal else Inverted (zN n) (zN w) |} in
              opt_app [0] (enc_loop fuel' c ms snaps r2 e' None nsym ok)
            else opt_app [ERR_STATE] (enc_loop fuel' c ms snaps r2 e tr nsym ok)
        | _ => None
        end
    | 9 :: r =>
        let '(sfx, r') := read_list r in
        match renc_into_compressed c e with
        | ROk ws =>
            let t := ws ++ map zN sfx in
            let d := rdec_from_compressed c t in
            let tr0 := match tr with Some _ => Some (spec_init c) | None => None end in
            let ok' := ok && chk_seal c ws tr nsym &&
                       match tr0 with Some s0 => rdecb c t d s0 | None => true end in
            opt_app (out_words ws) (dec_loop fuel' c ms snaps r' d tr0 ok')
        | _ => None
        end
    | 11 :: r =>
        let '(sfx, r') := read_list r in
        match renc_into_compressed c e with
        | ROk ws =>
            let t := ws ++ map zN sfx in
            let d := rdec_from_compressed c t in
            let tr0 := match tr with Some _ => Some (spec_init c) | None => None end in
            let ok' := ok && chk_seal c ws tr nsym &&
                       match tr0 with Some s0 => rdecb c t d s0 | None => true end in
            opt_app (out_words ws) (dec_loop fuel' c ms snaps r' d tr0 ok')
        | _ => None
        end
    | 12 :: r =>
        let '(sfx, r') := read_list r in
        match renc_into_compressed c e with
        | ROk ws =>
            let t := ws ++ map zN sfx in
            let d := rdec_from_compressed c t in
            let tr0 := match tr with Some _ => Some (spec_init c) | None => None end in
            let ok' := ok && chk_seal c ws tr nsym &&
                       match tr0 with Some s0 => rdecb c t d s0 | None => true end in
            opt_app (out_words ws) (dec_loop fuel' c ms snaps r' d tr0 ok')
        | _ => None
        end
    | 10 :: r =>
        let '(ws, r') := read_list r in
        let t := map zN ws in
        let d := rdec_from_compressed c t in
        let ok' := ok && rdecb c t d (spec_init c) in
        opt_app [0] (dec_loop fuel' c ms snaps r' d (Some (spec_init c)) ok')
    | _ => None
    end
  end.

Definition run_range (inp : list Z) : list Z :=
  match inp with
  | wb :: sb :: pb :: r =>
      let c := {| rWB := zN wb; rSB := zN sb; rPB := zN pb |} in
      let '(ms, r1) := read_models r in
      match enc_loop (length r1) c ms [] r1 (renc_new c) (Some (spec_init c)) O true with
      | Some o => o
      | None => [PANIC]
      end
  | _ => [PANIC]
  end.
