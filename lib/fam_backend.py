"""Family `backend`: histories on the word sources and sinks of src/backends.rs (C17).

Input (ints):  wb kind ctor arg  n w1..wn  m s1..sm  ops...
  wb    8 | 32 (Word = u8 | u32)
  kind  0 Vec                      1 SmallVec<[W;4]>
        2 Cursor<Vec>              3 Cursor<&[W]>           4 Cursor<&mut [W]>      5 Cursor<Box<[W]>>
        6 Reverse<Cursor<Vec>>     7 Reverse<Cursor<&[W]>>  8 Reverse<Cursor<&mut [W]>>  9 Reverse<Cursor<Box<[W]>>>
        10 Reverse<Vec>            11 Reverse<Reverse<Cursor<Vec>>>
        12 FallibleIteratorReadWords<scripted>   13 InfallibleIteratorReadWords<scripted>
        14 FallibleIteratorReadWords<Map<vec::IntoIter>>   15 InfallibleIteratorReadWords<vec::IntoIter>
        16 FallibleCallbackWriteWords  17 InfallibleCallbackWriteWords
        18 Reverse<FallibleIteratorReadWords<scripted>>
        (6..9, 11: `Reverse(cursor)` of a freshly constructed cursor, no data reversal)
  ctor  (cursor kinds) 0 new_at_write_beginning  1 new_at_write_end  2 new_at_pos(arg)
        3/4 IntoReadWords<Stack/Queue>  7/8 IntoSeekReadWords<Stack/Queue>
        5/6 AsReadWords<Stack/Queue>  11/12 AsSeekReadWords<Stack/Queue>   (kinds 3, 7 only)
        9 new_at_write_end_mut  10 new_at_pos_mut(arg)                      (mutable buffers only)
        a refused constructor ends the case with the single output -4
  w1..wn  initial buffer / vector / items of kinds 14, 15
  s1..sm  script: iterator kinds: w >= 0 Some(Ok(w)), -1 None (NOT the end: a non-fused iterator),
          -(1000+e) Some(Err(e));  callback kinds: result of the i-th call, 0 Ok, e > 0 Err(e)
  ops: 1 s       read with semantics s (0 Stack, 1 Queue) -> word | -1 end of data | -(1000+e) Err(e)
                                                          | -(2000+e) Ok(Some(Err(e))) (kinds 13, 15)
       2 w       write                         -> 0 | -2 OutOfSpace | -(1000+e)
       3 p       seek                          -> 0 | -3
       4         pos                           -> p
       5 s       remaining                     -> n
       6         space_left                    -> n
       7 s       is_exhausted                  -> 0 | 1
       8 s       maybe_exhausted               -> 0 | 1
       9         is_full                       -> 0 | 1
       10        maybe_full                    -> 0 | 1
       11        into_reversed                 -> 0
       12 k ws.. extend_from_iter              -> 0 | -2 | -(1000+e)
       13        dump                          -> len words.. aux   (aux = pos; 0 for adapters)
       14 s      as_view().read                -> result, view.pos()
       15 s      cloned().read                 -> result, clone.pos()
       16 w      as_mut_view().write(w)        -> 0 | -2
       17 k      buf_mut().truncate(k)         -> 0      (Cursor<Vec> only; never generated for C17)
     every op the type does not implement answers the single value -9.
  the final dump (through the consuming accessors) is always appended.
"""

FAMILY = "backend"
RUNNER = ("Corr.Backend_run", "run_backend")

NA, END, OOS, SEEK_ERR, CTOR_ERR = -9, -1, -2, -3, -4
SPECIAL = (-999999, -999998, -999997)

CURSOR_KINDS = (2, 3, 4, 5, 6, 7, 8, 9, 11)
MUTABLE_CURSOR = (2, 4, 5, 6, 8, 9)
REVERSED = (6, 7, 8, 9)
VEC_KINDS = (0, 1, 10)
ITER_KINDS = (12, 13, 14, 15, 18)
CB_KINDS = (16, 17)
ARITY = {1: 1, 2: 1, 3: 1, 4: 0, 5: 1, 6: 0, 7: 1, 8: 1, 9: 0, 10: 0, 11: 0, 13: 0, 14: 1, 15: 1, 16: 1, 17: 1}
BIG = [(1 << 64) - 1, 1 << 63, (1 << 32), (1 << 32) - 1]


# ------------------------------------------------------------------ parsing

def parse(inp):
    """-> dict(wb, kind, ctor, arg, words, script, ops=[(op, args)])"""
    wb, kind, ctor, arg = inp[0:4]
    n = inp[4]
    words = inp[5:5 + n]
    i = 5 + n
    m = inp[i]
    script = inp[i + 1:i + 1 + m]
    i += 1 + m
    ops = []
    while i < len(inp):
        op = inp[i]
        i += 1
        if op == 12:
            k = inp[i]
            ops.append((12, inp[i + 1:i + 1 + k]))
            i += 1 + k
        else:
            a = ARITY[op]
            ops.append((op, inp[i:i + a]))
            i += a
    return dict(wb=wb, kind=kind, ctor=ctor, arg=arg, words=words, script=script, ops=ops)


def walk(inp, out):
    """yields (op, args, result) with result an int, or a list for dumps / view reads; last is
    ("final", [], dump)"""
    c = parse(inp)
    j = 0
    if out == [CTOR_ERR]:
        yield ("ctor_err", [], CTOR_ERR)
        return
    for op, args in c["ops"]:
        if op == 13:
            n = out[j]
            res = out[j:j + n + 2]
            if len(res) != n + 2 or n < 0:
                raise ValueError("short dump")
            j += n + 2
        elif op in (14, 15):
            if out[j] == NA:
                res = NA
                j += 1
            else:
                res = out[j:j + 2]
                if len(res) != 2:
                    raise ValueError("short view read")
                j += 2
        else:
            res = out[j]
            j += 1
        yield (op, args, res)
    n = out[j]
    res = out[j:j + n + 2]
    if len(res) != n + 2 or j + n + 2 != len(out):
        raise ValueError("bad final dump")
    yield ("final", [], res)


# ------------------------------------------------------------------ generators

def _word(rng, wb):
    r = rng.random()
    if r < 0.1:
        return 0
    if r < 0.2:
        return (1 << wb) - 1
    return rng.randrange(1 << wb)


def _words(rng, wb, n):
    # distinct-ish words so that a wrong index is visible
    return [_word(rng, wb) for _ in range(n)]


def _len(rng):
    return rng.choice([0, 0, 1, 1, 2, 3, 4, 5, 8, rng.randrange(0, 24)])


def _seek_target(rng, n, pos_guess):
    r = rng.random()
    if r < 0.2:
        return 0
    if r < 0.4:
        return n
    if r < 0.55:
        return n + 1
    if r < 0.65:
        return max(0, n - 1)
    if r < 0.75:
        return pos_guess
    if r < 0.80:
        return rng.choice(BIG)
    if r < 0.85:
        return n + rng.randrange(2, 6)
    return rng.randrange(0, n + 1)


def _tail_reads(rng, s, n):
    """remaining(s) followed by enough reads to run into the end twice"""
    return [5, s] + [1, s] * (n + 2)


def _tail_writes(rng, wb, n):
    ops = [6]
    for _ in range(n + 2):
        ops += [2, _word(rng, wb)]
    return ops


def gen_cursor(rng, max_ops=60):
    """Cursor over owned / borrowed / mutable / boxed buffers, directly or inside Reverse (also
    Reverse<Reverse<..>>): random interleavings of every operation, seeks aimed at 0, len, len+1 and
    the current position, bounds queries everywhere, in-place reversal, and a tail that runs into
    both ends."""
    wb = rng.choice([8, 32])
    kind = rng.choice(CURSOR_KINDS)
    n = _len(rng)
    words = _words(rng, wb, n)
    mutable = kind in MUTABLE_CURSOR
    ctors = [0, 1, 2, 2, 3, 4, 7, 8]
    if kind in (3, 7):
        ctors += [5, 6, 11, 12]
    if mutable or kind == 11:
        ctors += [9, 10]
    ctor = rng.choice(ctors)
    arg = 0
    if ctor in (2, 10):
        arg = rng.choice([0, n, n + 1, n + 1, max(0, n - 1), rng.randrange(0, n + 2), rng.choice(BIG)])
    ops = []
    k = rng.randint(1, max_ops)
    style = rng.random()
    for _ in range(k):
        r = rng.random()
        if style < 0.25 and r < 0.5:
            # write-then-read-back bursts
            m = rng.randint(1, 4)
            for _ in range(m):
                ops += [2, _word(rng, wb)]
            ops += [1, 0] * rng.randint(1, m + 1)
            continue
        if r < 0.22:
            ops += [1, rng.choice([0, 1])]
        elif r < 0.40:
            ops += [2, _word(rng, wb)]
        elif r < 0.52:
            ops += [3, _seek_target(rng, n, rng.randrange(0, n + 1))]
        elif r < 0.58:
            ops += [4]
            if rng.random() < 0.5:
                # seek back to a position after moving: emitted as pos, move, pos (checked by the oracle)
                ops += [1, rng.choice([0, 1])] * rng.randint(0, 3)
        elif r < 0.66:
            ops += [5, rng.choice([0, 1])]
        elif r < 0.72:
            ops += [6]
        elif r < 0.78:
            ops += [rng.choice([7, 8]), rng.choice([0, 1])]
        elif r < 0.82:
            ops += [rng.choice([9, 10])]
        elif r < 0.88:
            ops += [11]
            if rng.random() < 0.3:
                ops += [11]
        elif r < 0.91:
            ws = _words(rng, wb, rng.randint(0, 5))
            ops += [12, len(ws)] + ws
        elif r < 0.94:
            ops += [13]
        elif r < 0.97:
            ops += [rng.choice([14, 15]), rng.choice([0, 1])]
        else:
            ops += [16, _word(rng, wb)]
    # tail: verify the bounds queries by running into the ends
    for _ in range(rng.randint(1, 3)):
        t = rng.random()
        if t < 0.35:
            ops += _tail_reads(rng, 0, n)
        elif t < 0.7:
            ops += _tail_reads(rng, 1, n)
        else:
            ops += _tail_writes(rng, wb, n)
        if rng.random() < 0.5:
            ops += [3, _seek_target(rng, n, 0)]
        if rng.random() < 0.3:
            ops += [11]
    ops += [4, 13]
    return [wb, kind, ctor, arg, n] + words + [0] + ops


def gen_vec(rng, max_ops=60):
    """Vec, SmallVec (inline and spilled), Reverse<Vec>: push / pop / truncating seeks / queries."""
    wb = rng.choice([8, 32])
    kind = rng.choice(VEC_KINDS)
    n = _len(rng)
    words = _words(rng, wb, n)
    ops = []
    cur = n
    rs = 1 if kind == 10 else 0
    for _ in range(rng.randint(1, max_ops)):
        r = rng.random()
        if r < 0.3:
            ops += [2, _word(rng, wb)]
            if kind != 10:
                cur += 1
        elif r < 0.55:
            ops += [1, rs if rng.random() < 0.9 else 1 - rs]
            cur = max(0, cur - 1)
        elif r < 0.68:
            p = _seek_target(rng, cur, cur)
            ops += [3, p]
            if p <= cur:
                cur = p
        elif r < 0.75:
            ops += [4]
        elif r < 0.83:
            ops += [5, rs]
        elif r < 0.88:
            ops += [rng.choice([7, 8]), rs]
        elif r < 0.92:
            ops += [rng.choice([6, 9, 10, 11])]
        elif r < 0.96:
            ws = _words(rng, wb, rng.randint(0, 6))
            ops += [12, len(ws)] + ws
            if kind != 10:
                cur += len(ws)
        else:
            ops += [13]
    ops += _tail_reads(rng, rs, cur)
    ops += [4]
    return [wb, kind, 0, 0, n] + words + [0] + ops


def gen_adapter(rng, max_ops=40):
    """Iterator adapters over a NON-fused scripted iterator (gaps, errors) and over std iterators;
    callback adapters with scripted failures."""
    wb = rng.choice([8, 32])
    kind = rng.choice(ITER_KINDS + CB_KINDS)
    words, script, ops = [], [], []
    if kind in (12, 13, 18):
        for _ in range(rng.choice([0, 1, 2, 3, 5, 8, rng.randrange(0, 16)])):
            r = rng.random()
            if r < 0.18:
                script.append(-1)
            elif r < 0.30:
                script.append(-(1000 + rng.randint(1, 40)))
            else:
                script.append(_word(rng, wb))
        if rng.random() < 0.3:
            script = [-1] + script
    elif kind in (14, 15):
        words = _words(rng, wb, _len(rng))
    else:
        for _ in range(rng.randrange(0, 10)):
            script.append(0 if rng.random() < 0.65 else rng.randint(1, 40))
    total = len(script) + len(words)
    for _ in range(rng.randint(1, max_ops)):
        r = rng.random()
        if kind in CB_KINDS:
            if r < 0.6:
                ops += [2, _word(rng, wb)]
            elif r < 0.75:
                ws = _words(rng, wb, rng.randint(0, 5))
                ops += [12, len(ws)] + ws
            elif r < 0.85:
                ops += [10]
            elif r < 0.93:
                ops += [13]
            else:
                o = rng.choice([1, 5, 6, 9, 3, 4, 11])
                ops += [o] + ([0] if o in (1, 5, 3) else [])
        else:
            if r < 0.5:
                ops += [1, rng.choice([0, 1])]
            elif r < 0.7:
                ops += [5, rng.choice([0, 1])]
            elif r < 0.8:
                ops += [rng.choice([7, 8]), rng.choice([0, 1])]
            elif r < 0.9:
                ops += [13]
            else:
                o = rng.choice([2, 3, 4, 6, 10, 11])
                ops += [o] + ([0] if o in (2, 3) else [])
    if kind not in CB_KINDS:
        s = rng.choice([0, 1])
        ops += _tail_reads(rng, s, total)
    return [wb, kind, 0, 0, len(words)] + words + [len(script)] + script + ops


# ------------------------------------------------------------------ C17 oracle

class Tape:
    """Abstract stack (above, top first) + abstract queue of cells ahead (below, front first)."""

    def __init__(self, buf, pos, flipped):
        self.flipped = flipped
        self.set_phys(list(buf), pos)

    def phys(self):
        if not self.flipped:
            return self.above[::-1] + self.below
        return self.below[::-1] + self.above

    def pos(self):
        return len(self.above) if not self.flipped else len(self.below)

    def set_phys(self, buf, p):
        if not self.flipped:
            self.above, self.below = buf[:p][::-1], buf[p:]
        else:
            self.below, self.above = buf[:p][::-1], buf[p:]

    def total(self):
        return len(self.above) + len(self.below)

    def read(self, s):
        if s == 0:
            if not self.above:
                return END
            w = self.above.pop(0)
            self.below.insert(0, w)
            return w
        if not self.below:
            return END
        w = self.below.pop(0)
        self.above.insert(0, w)
        return w

    def write(self, w):
        if not self.below:
            return OOS
        self.below.pop(0)
        self.above.insert(0, w)
        return 0

    def copy(self):
        t = Tape([], 0, self.flipped)
        t.above, t.below = list(self.above), list(self.below)
        return t


def _init_pos(c):
    n = len(c["words"])
    ctor = c["ctor"]
    if ctor in (0, 4, 6, 8, 12):
        return 0
    if ctor in (1, 3, 5, 7, 9, 11):
        return n
    return c["arg"] if c["arg"] <= n else None


def _runs_ok(events):
    """black-box exactness + stickiness: events = list of (op, args, res) without NA results.
    After `remaining s -> n`, the directly following reads with semantics s: the first n are not
    end-of-data, the next one is; after the first end-of-data every further read in the run is
    end-of-data.  Same for `space_left -> n` and the directly following writes."""
    i = 0
    while i < len(events):
        op, args, res = events[i]
        if op == 5:
            s, n = args[0], res
            j, k = i + 1, 0
            while j < len(events) and events[j][0] == 1 and events[j][1][0] == s:
                r = events[j][2]
                if k < n and r == END:
                    return "remaining() = %d but read number %d already returned end-of-data" % (n, k + 1)
                if k >= n and r != END:
                    return "remaining() = %d but read number %d still returned %d" % (n, k + 1, r)
                k += 1
                j += 1
        elif op == 6:
            n = res
            j, k = i + 1, 0
            while j < len(events) and events[j][0] == 2:
                r = events[j][2]
                if k < n and r == OOS:
                    return "space_left() = %d but write number %d was refused" % (n, k + 1)
                if k >= n and r == 0:
                    return "space_left() = %d but write number %d still succeeded" % (n, k + 1)
                k += 1
                j += 1
        elif op == 1 and res == END:
            s = args[0]
            j = i + 1
            while j < len(events) and events[j][0] in (1, 4, 5, 7, 8) and (events[j][0] == 4 or events[j][1][0] == s):
                if events[j][0] == 1 and events[j][2] != END:
                    return "read returned %d after end-of-data" % events[j][2]
                j += 1
        i += 1
    return None


def oracle_C17(inp, out):
    """Abstract stack / queue simulation; demands exactly the trait contracts."""
    if any(x in SPECIAL for x in out):
        return "panic/abort/timeout"
    try:
        c = parse(inp)
        kind = c["kind"]
        if any(op == 17 for op, _ in c["ops"]):
            return None          # buf_mut() shrinking is outside C17 (C20 class cursor_buf_mut_shrink)
        events = list(walk(inp, out))
    except (IndexError, ValueError, KeyError):
        return "malformed output"
    live = [e for e in events if e[2] != NA and e[0] not in ("final", "ctor_err", 13, 14, 15)]
    msg = _runs_ok(live)
    if msg:
        return msg
    try:
        if kind in CURSOR_KINDS:
            return _oracle_cursor(c, events)
        if kind in VEC_KINDS:
            return _oracle_vec(c, events)
        if kind in ITER_KINDS:
            return _oracle_iter(c, events)
        return _oracle_cb(c, events)
    except (IndexError, ValueError, TypeError):
        return "malformed output"


def _check_dump(res, words, aux, what):
    if res[0] != len(words) or res[1:-1] != list(words):
        return "%s: contents %r, expected %r" % (what, res[1:-1], list(words))
    if res[-1] != aux:
        return "%s: position %d, expected %d" % (what, res[-1], aux)
    return None


def _oracle_cursor(c, events):
    kind = c["kind"]
    p0 = _init_pos(c)
    if p0 is None:
        if events[0][0] != "ctor_err":
            return "constructor accepted position %d > len %d" % (c["arg"], len(c["words"]))
        return None
    if events[0][0] == "ctor_err":
        return "constructor refused position %d <= len %d" % (p0, len(c["words"]))
    t = Tape(c["words"], p0, kind in REVERSED)
    for op, args, res in events:
        if res == NA:
            continue
        if op == 1:
            exp = t.read(args[0])
            if res != exp:
                return "read(%s) returned %d, the abstract %s says %d" % (
                    "Stack" if args[0] == 0 else "Queue", res, "stack" if args[0] == 0 else "queue", exp)
        elif op == 2:
            exp = t.write(args[0])
            if res != exp:
                return "write returned %d, expected %d" % (res, exp)
        elif op == 3:
            p = args[0]
            if p > t.total():
                if res != SEEK_ERR:
                    return "seek(%d) beyond len %d was not refused" % (p, t.total())
            else:
                if res != 0:
                    return "seek(%d) within len %d was refused" % (p, t.total())
                t.set_phys(t.phys(), p)
        elif op == 4:
            if res != t.pos():
                return "pos() = %d, expected %d" % (res, t.pos())
        elif op == 5:
            exp = len(t.above) if args[0] == 0 else len(t.below)
            if res != exp:
                return "remaining() = %d but %d reads will succeed" % (res, exp)
        elif op == 6:
            if res != len(t.below):
                return "space_left() = %d but %d writes will succeed" % (res, len(t.below))
        elif op == 7:
            exp = len(t.above) if args[0] == 0 else len(t.below)
            if res != (1 if exp == 0 else 0):
                return "is_exhausted() = %d with %d words remaining" % (res, exp)
        elif op == 8:
            exp = len(t.above) if args[0] == 0 else len(t.below)
            if res == 0 and exp == 0:
                return "maybe_exhausted() = false with no words remaining"
        elif op == 9:
            if res != (1 if not t.below else 0):
                return "is_full() = %d with %d cells left" % (res, len(t.below))
        elif op == 10:
            if res == 0 and not t.below:
                return "maybe_full() = false on a full sink"
        elif op == 11:
            if res != 0:
                return "into_reversed failed"
            t.flipped = not t.flipped          # same abstract stack and queue, mirrored positions
        elif op == 12:
            exp = 0
            for w in args:
                exp = t.write(w)
                if exp != 0:
                    break
            if res != exp:
                return "extend_from_iter returned %d, expected %d" % (res, exp)
        elif op in (13, "final"):
            m = _check_dump(res, t.phys(), t.pos(), "buffer dump")
            if m:
                return m
        elif op in (14, 15):
            v = t.copy()
            exp = v.read(args[0])
            if res != [exp, v.pos()]:
                return "view read returned %r, expected %r" % (res, [exp, v.pos()])
        elif op == 16:
            if not t.below:
                exp = OOS
            else:
                t.below[0] = args[0]
                exp = 0
            if res != exp:
                return "write through as_mut_view returned %d, expected %d" % (res, exp)
    return None


def _oracle_vec(c, events):
    st = list(c["words"])
    for op, args, res in events:
        if res == NA:
            continue
        if op == 1:
            exp = st.pop() if st else END
            if res != exp:
                return "read returned %d, the abstract stack says %d" % (res, exp)
        elif op == 2:
            st.append(args[0])
            if res != 0:
                return "write to a vector failed"
        elif op == 3:
            p = args[0]
            if p > len(st):
                if res != SEEK_ERR:
                    return "seek(%d) beyond len %d was not refused" % (p, len(st))
            else:
                if res != 0:
                    return "seek(%d) within len %d was refused" % (p, len(st))
                del st[p:]
        elif op in (4, 5):
            if res != len(st):
                return "%s = %d, expected %d" % ("pos()" if op == 4 else "remaining()", res, len(st))
        elif op == 7:
            if res != (1 if not st else 0):
                return "is_exhausted() = %d with %d words" % (res, len(st))
        elif op == 8:
            if res == 0 and not st:
                return "maybe_exhausted() = false on an empty vector"
        elif op == 12:
            st += list(args)
            if res != 0:
                return "extend_from_iter on a vector failed"
        elif op in (13, "final"):
            m = _check_dump(res, st, len(st), "vector dump")
            if m:
                return m
    return None


def _oracle_iter(c, events):
    kind = c["kind"]
    if kind in (14, 15):
        q = list(c["words"])
    else:
        q = []
        for x in c["script"]:
            if x == -1:
                break
            q.append(x)
    ended = False
    for op, args, res in events:
        if res == NA:
            continue
        if op == 1:
            if q:
                x = q.pop(0)
                exp = x if (x >= 0 or kind not in (13, 15)) else x - 1000
            else:
                exp = END
                ended = True
            if res != exp:
                return "read returned %d, the wrapped iterator says %d%s" % (
                    res, exp, " (after the first end-of-data)" if ended and exp == END else "")
        elif op == 5:
            if res != len(q):
                return "remaining() = %d but %d reads will not return end-of-data" % (res, len(q))
        elif op == 7:
            if res != (1 if not q else 0):
                return "is_exhausted() = %d with %d items" % (res, len(q))
        elif op == 8:
            if res == 0 and not q:
                return "maybe_exhausted() = false on an exhausted source"
        elif op in (13, "final"):
            m = _check_dump(res, q, 0, "rest of the iterator")
            if m:
                return m
    return None


def _oracle_cb(c, events):
    kind = c["kind"]
    script = list(c["script"]) if kind == 16 else []
    log = []

    def call(w):
        log.append(w)
        e = script.pop(0) if script else 0
        return 0 if e == 0 else -(1000 + e)

    for op, args, res in events:
        if res == NA:
            continue
        if op == 2:
            exp = call(args[0])
            if res != exp:
                return "write returned %d, the callback returned %d" % (res, exp)
        elif op == 12:
            exp = 0
            for w in args:
                exp = call(w)
                if exp != 0:
                    break
            if res != exp:
                return "extend_from_iter returned %d, expected %d" % (res, exp)
        elif op in (13, "final"):
            m = _check_dump(res, log, 0, "words passed to the callback")
            if m:
                return m
    return None


ORACLES = {"C17": oracle_C17}

KNOWN_CLASSES = {
    # C20: safe code shrinks a Cursor<Vec> buffer below pos through buf_mut()
    "cursor_buf_mut_shrink": lambda inp: any(op == 17 for op, _ in parse(inp)["ops"]),
}


def nontrivial(inp, out, prop=None):
    """at least one read that returned a word (or one accepted write for pure sinks) AND at least
    one boundary event: end-of-data, OutOfSpace, a refused seek or a refused constructor"""
    try:
        got, edge = False, False
        kind = parse(inp)["kind"]
        for op, args, res in walk(inp, out):
            if op == "ctor_err":
                return True
            if op == 1 and isinstance(res, int) and (res >= 0 or res <= -1000):
                got = True
            if op == 2 and res == 0 and kind in CB_KINDS:
                got = True
            if (op == 1 and res == END) or (op in (2, 12, 16) and res != 0 and res != NA) or (op == 3 and res == SEEK_ERR):
                edge = True
        return got and edge
    except Exception:
        return False


KIND_NAMES = {0: "Vec", 1: "SmallVec", 2: "Cursor<Vec>", 3: "Cursor<&[W]>", 4: "Cursor<&mut [W]>", 5: "Cursor<Box<[W]>>",
              6: "Reverse<Cursor<Vec>>", 7: "Reverse<Cursor<&[W]>>", 8: "Reverse<Cursor<&mut [W]>>",
              9: "Reverse<Cursor<Box<[W]>>>", 10: "Reverse<Vec>", 11: "Reverse<Reverse<Cursor<Vec>>>",
              12: "FallibleIteratorReadWords<scripted>", 13: "InfallibleIteratorReadWords<scripted>",
              14: "FallibleIteratorReadWords<std>", 15: "InfallibleIteratorReadWords<std>",
              16: "FallibleCallbackWriteWords", 17: "InfallibleCallbackWriteWords",
              18: "Reverse<FallibleIteratorReadWords<scripted>>"}


def describe(inp):
    c = parse(inp)
    hist = {}
    for op, _ in c["ops"]:
        hist[op] = hist.get(op, 0) + 1
    return "backend W=u%d %s ctor=%d arg=%d len=%d script=%d ops=%d %s" % (
        c["wb"], KIND_NAMES.get(c["kind"], "?"), c["ctor"], c["arg"], len(c["words"]), len(c["script"]),
        len(c["ops"]), sorted(hist.items()))


def gen_bufmut(rng):
    """C20 known class cursor_buf_mut_shrink: a Cursor<Vec> whose buffer is shrunk below `pos`
    through the safe accessor buf_mut(), followed by a stack-semantics read."""
    wb = rng.choice([8, 32])
    n = rng.randint(1, 8)
    words = [rng.randrange(1 << wb) for _ in range(n)]
    ops = [17, rng.randint(0, n - 1), 1, 0, 13]
    return [wb, 2, 1, 0, n] + words + [0] + ops
