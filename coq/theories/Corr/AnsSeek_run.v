(* Corr/AnsSeek_run.v -- mirror of harness/src/fam_ansseek.rs on Model/Ans.v. *)
From CV Require Import Corr.Parse Model.Ans.
Open Scope Z_scope.

Definition ERR_SEEK := -6.

(* decoder over a buffer: [a] is the part below the cursor (as a coder), [beyond] the words
   at and after the cursor position (kept by cursors, dropped by a Vec) *)
Record sdec := { sd_a : ans; sd_beyond : list N }.

Definition sd_buffer (d : sdec) : list N := rev (bulk (sd_a d)) ++ sd_beyond d.

Definition sd_seek (vec : bool) (d : sdec) (p : N * N) : option sdec :=
  match ans_seek (sd_buffer d) p with
  | Some a => Some {| sd_a := a; sd_beyond := if vec then [] else skipn (N.to_nat (fst p)) (sd_buffer d) |}
  | None => None
  end.

Definition sd_decode (c : cfg) (vec : bool) (m : emodel) (d : sdec) : Z * sdec :=
  let '(s, a') := ans_decode_sym c m (sd_a d) in
  let consumed := firstn (length (bulk (sd_a d)) - length (bulk a')) (bulk (sd_a d)) in
  (s, {| sd_a := a'; sd_beyond := if vec then [] else rev consumed ++ sd_beyond d |}).

Fixpoint enc_msg (c : cfg) (ms : list rmodel) (n : nat) (l : list Z) (a : ans) (snaps : list (N * N))
  : ans * list (N * N) * list Z :=
  match n with
  | O => (a, rev snaps, l)
  | S n' => match l with
            | m :: s :: r =>
                match ans_encode_sym c (get_model ms m) s a with
                | Some a' => enc_msg c ms n' r a' (ans_pos a' :: snaps)
                | None => (a, rev snaps, [])
                end
            | _ => (a, rev snaps, [])
            end
  end.

(* [total] = Some n for the reversed decoder over n words: externally visible positions are
   n - (forward position) *)
Definition remap (total : option N) (p : N) : option N :=
  match total with
  | None => Some p
  | Some n => if N.leb p n then Some (n - p)%N else None
  end.

Fixpoint seek_loop (fuel : nat) (c : cfg) (vec : bool) (total : option N) (ms : list rmodel)
  (snaps : list (N * N)) (l : list Z) (d : sdec) : list Z :=
  match fuel with
  | O => []
  | S fuel' =>
    match l with
    | [] => []
    | 1 :: i :: r =>
        match sd_seek vec d (nth (Z.to_nat i) snaps (0%N, 0%N)) with
        | Some d' => 0 :: seek_loop fuel' c vec total ms snaps r d'
        | None => ERR_SEEK :: seek_loop fuel' c vec total ms snaps r d
        end
    | 2 :: m :: r =>
        let '(s, d') := sd_decode c vec (get_model ms m) d in
        s :: seek_loop fuel' c vec total ms snaps r d'
    | 3 :: p :: s :: r =>
        match remap total (zN p) with
        | Some fp =>
            match sd_seek vec d (fp, zN s) with
            | Some d' => 0 :: seek_loop fuel' c vec total ms snaps r d'
            | None => ERR_SEEK :: seek_loop fuel' c vec total ms snaps r d
            end
        | None => ERR_SEEK :: seek_loop fuel' c vec total ms snaps r d
        end
    | 4 :: r =>
        let '(p, s) := ans_pos (sd_a d) in
        let p' := match total with None => p | Some n => (n - p)%N end in
        nZ p' :: nZ s :: seek_loop fuel' c vec total ms snaps r d
    | 5 :: r => (if ans_is_empty (sd_a d) then 1 else 0) :: seek_loop fuel' c vec total ms snaps r d
    | _ => [PANIC]
    end
  end.

Definition run_ansseek (inp : list Z) : list Z :=
  match inp with
  | wb :: sb :: pb :: r =>
      let c := {| WB := zN wb; SB := zN sb |} in
      let '(ms, r1) := read_models r in
      match r1 with
      | n :: r2 =>
          let '(a, snaps, r3) := enc_msg c ms (Z.to_nat n) r2 ans_empty [ans_pos ans_empty] in
          match r3 with
          | kind :: ops =>
              flat_map (fun '(p, s) => [nZ p; nZ s]) snaps ++
              if Z.eqb kind 3 then
                let chunks := state_chunks c (st a) in
                seek_loop (length ops) c false (Some (N.of_nat (length (bulk a) + length chunks))) ms snaps ops
                  {| sd_a := a; sd_beyond := chunks |}
              else if Z.eqb kind 4 then
                (* kind 3 turned back by into_reversed: forward coordinates, state words beyond the cursor *)
                seek_loop (length ops) c false None ms snaps ops
                  {| sd_a := a; sd_beyond := state_chunks c (st a) |}
              else if Z.eqb kind 5 then
                (* owned cursor turned round by into_reversed: reversed coordinates over the bulk only *)
                seek_loop (length ops) c false (Some (N.of_nat (length (bulk a)))) ms snaps ops
                  {| sd_a := a; sd_beyond := [] |}
              else
                seek_loop (length ops) c (Z.eqb kind 2) None ms snaps ops {| sd_a := a; sd_beyond := [] |}
          | [] => [PANIC]
          end
      | [] => [PANIC]
      end
  | _ => [PANIC]
  end.
