(* Corr/Diag_run.v -- runner for family `diag` (C18 diagnostics): the EXACT part.

   case   = [inst; n; q_1 .. q_n; nvec; (mask; x_1 .. x_n)*]     (the vectors are f64 bit patterns;
            they only matter for the approximate part, which the model does not produce)
   result = [-1]                          if the constructor refuses the table, else
            [n] ++ [sym_i; bits64(cum_i / 2^P); bits64(q_i / 2^P)]_i
                ++ [bits32(cum_i / 2^P); bits32(q_i / 2^P)]_i       (instances whose Probability
                                                                     converts losslessly to f32)
                ++ [bits64(floating_point_probability(s))] for s = 0, n-1, n   (n is outside
                                                                     the support: 0.0)
   inst: 0 = (u32, P=24)  1 = (u16, P=12)  2 = (u8, P=8)  3 = (u32, P=32)  4 = (u16, P=16)
         5 = (u8, P=1)
   Meaning of the bit patterns: Props/C18_diag.v, C18_float_view_b64 / _b32. *)
From CV Require Import Corr.Parse Model.Diag.
Open Scope Z_scope.

(* (Probability::BITS, PRECISION, has an f32 view) *)
Definition diag_inst (i : Z) : N * N * bool :=
  match i with
  | 0 => (32%N, 24%N, false)
  | 1 => (16%N, 12%N, true)
  | 2 => (8%N, 8%N, true)
  | 3 => (32%N, 32%N, false)
  | 4 => (16%N, 16%N, true)
  | _ => (8%N, 1%N, true)
  end.

(* ContiguousCategoricalEntropyModel::from_nonzero_fixed_point_probabilities(qs, false):
   left cumulatives of the probabilities; refused unless there are at least two entries, none is
   zero and they sum to 2^P (for entries that fit the Probability type the wrapping
   bookkeeping of the constructor amounts to exactly this). Symbols are 0, 1, 2, ... *)
Fixpoint build_table (sym : Z) (cum : N) (qs : list N) : table :=
  match qs with
  | [] => []
  | q :: r => (sym, cum, q) :: build_table (sym + 1) (cum + q)%N r
  end.

Definition table_ok (P : N) (qs : list N) : bool :=
  Nat.leb 2 (length qs) && forallb (fun q => N.ltb 0 q) qs && N.eqb (fold_right N.add 0%N qs) (2 ^ P)%N.

Definition out_views64 (P : N) (t : table) : list Z :=
  flat_map (fun e : Z * N * N => let '(s, c, q) := e in [s; nZ (b64_bits P c); nZ (b64_bits P q)]) t.

Definition out_views32 (P : N) (t : table) : list Z :=
  flat_map (fun e : Z * N * N => let '(s, c, q) := e in [nZ (b32_bits P c); nZ (b32_bits P q)]) t.

Definition run_diag (inp : list Z) : list Z :=
  match inp with
  | inst :: rest =>
      let '(_, P, f32) := diag_inst (inst mod 100) in
      let '(qsz, _) := read_list rest in
      let qs := map zN qsz in
      if table_ok P qs then
        let t := build_table 0 0%N qs in
        let n := Z.of_nat (length t) in
        n :: out_views64 P t ++ (if f32 then out_views32 P t else [])
          ++ map (fun s => nZ (b64_bits P (match tbl_enc t s with Some (_, p) => p | None => 0%N end)))
                 [0; n - 1; n]
      else [-1]
  | [] => [PANIC]
  end.
