(* Proofs/Ans_size_real.v -- the size bound of C12 read in bits (logarithmic form). *)
From CV Require Import Base.Bits Model.EModel Model.Ans Proofs.Ans_size.
From Coq Require Import Reals Lra.
From Interval Require Import Tactic.
Open Scope R_scope.
Set Default Timeout 30.

Definition RN (n : N) : R := IZR (Z.of_N n).
Definition log2 (x : R) : R := ln x / ln 2.
Definition lg (n : N) : R := log2 (RN n).

Lemma ln2_pos : 0 < ln 2.
Proof. rewrite <- ln_1. apply ln_increasing; lra. Qed.

Lemma RN_pos n : (0 < n)%N -> 0 < RN n.
Proof. intros H. unfold RN. apply IZR_lt. lia. Qed.

Lemma RN_mul a b : RN (a * b) = RN a * RN b.
Proof. unfold RN. rewrite N2Z.inj_mul, mult_IZR. reflexivity. Qed.

Lemma lg_mul a b : (0 < a)%N -> (0 < b)%N -> lg (a * b) = lg a + lg b.
Proof.
  intros Ha Hb. unfold lg, log2. rewrite RN_mul, ln_mult by (apply RN_pos; assumption).
  field. pose proof ln2_pos. lra.
Qed.

Lemma lg_le a b : (0 < a)%N -> (a <= b)%N -> lg a <= lg b.
Proof.
  intros Ha Hab. unfold lg, log2. apply Rmult_le_compat_r.
  - left. apply Rinv_0_lt_compat, ln2_pos.
  - destruct (N.eq_dec a b) as [->|Hne]; [lra|].
    left. apply ln_increasing; [apply RN_pos; exact Ha|]. unfold RN. apply IZR_lt. lia.
Qed.

Lemma lg_pow2 k : lg (2 ^ k) = RN k.
Proof.
  unfold lg, log2.
  assert (H : RN (2 ^ k) = 2 ^ (N.to_nat k)).
  { unfold RN. rewrite N2Z.inj_pow. cbn [Z.of_N].
    rewrite <- (N2Nat.id k) at 1. rewrite nat_N_Z, <- pow_IZR. reflexivity. }
  rewrite H, ln_pow by lra.
  replace (INR (N.to_nat k)) with (RN k).
  - field. pose proof ln2_pos. lra.
  - unfold RN. rewrite INR_IZR_INZ. f_equal. lia.
Qed.

Lemma lg_powB wb n : lg ((2 ^ wb) ^ n) = RN (wb * n).
Proof. rewrite <- N.pow_mul_r. apply lg_pow2. Qed.

Section Bits.
Variable c : cfg.
Hypothesis Hc : wf_cfg c.

(* information content of the message and accumulated rounding overhead, in bits *)
Fixpoint info_bits (l : list (N * N * N)) : R :=
  match l with [] => 0 | (P, _, p) :: r => (RN P - lg p) + info_bits r end.
Fixpoint overhead_bits (l : list (N * N * N)) : R :=
  match l with [] => 0 | (P, _, _) :: r => (lg (Kof c P + 1) - lg (Kof c P)) + overhead_bits r end.

Lemma Kof_pos P : (0 < Kof c P)%N.
Proof. apply pow2_pos. Qed.

Lemma info_den_pos l : Forall (entry_ok c) l -> (0 < info_den c l)%N.
Proof.
  induction l as [|[[P cum] p] r IH]; intros Hl; cbn [info_den]; [lia|].
  inversion Hl as [|? ? He Hr]; subst. cbn in He. destruct He as (_ & _ & Hp & _).
  specialize (IH Hr). pose proof (Kof_pos P). nia.
Qed.

Lemma info_num_pos l : (0 < info_num c l)%N.
Proof.
  induction l as [|[[P cum] p] r IH]; cbn [info_num]; [lia|].
  pose proof (pow2_pos P). pose proof (Kof_pos P). nia.
Qed.

Lemma lg_den_num l :
  Forall (entry_ok c) l ->
  lg (info_num c l) - lg (info_den c l) = info_bits l + overhead_bits l.
Proof.
  induction l as [|[[P cum] p] r IH]; intros Hl; cbn [info_den info_num info_bits overhead_bits].
  - unfold lg, log2, RN. cbn. rewrite ln_1. lra.
  - inversion Hl as [|? ? He Hr]; subst. cbn in He. destruct He as (_ & _ & Hp & _).
    pose proof (Kof_pos P) as HK. pose proof (pow2_pos P) as H2.
    pose proof (info_den_pos r Hr) as Hd. pose proof (info_num_pos r) as Hn.
    rewrite !lg_mul by nia. rewrite lg_pow2. specialize (IH Hr). lra.
Qed.

(* bits occupied = WB * (number of words); the constant is SB, as the property states
   ("at most StateBits plus two words") *)
Theorem ans_size_bits l :
  Forall (entry_ok c) l ->
  let a := encode_entries c l ans_empty in
  ans_words c a <> [] ->
  RN (WB c * N.of_nat (length (ans_words c a))) <= RN (SB c) + info_bits l + overhead_bits l.
Proof.
  intros Hl a Hne.
  pose proof (ans_size_bound c Hc l Hl Hne) as H. fold a in H.
  set (nw := length (ans_words c a)) in *.
  assert (Hnw : (1 <= nw)%nat) by (subst nw; destruct (ans_words c a); [contradiction|cbn; lia]).
  pose proof (info_den_pos l Hl) as Hd. pose proof (info_num_pos l) as Hn.
  assert (HBpos : (0 < (2 ^ WB c) ^ N.of_nat (nw - 1))%N).
  { apply N.neq_0_lt_0, N.pow_nonzero, pow2_nz. }
  assert (HTpos : (0 < 2 ^ (SB c - WB c))%N) by apply pow2_pos.
  assert (Hlg : lg ((2 ^ WB c) ^ N.of_nat (nw - 1) * info_den c l) <= lg (2 ^ (SB c - WB c) * info_num c l)).
  { apply lg_le; [nia|exact H]. }
  rewrite !lg_mul in Hlg by assumption. rewrite lg_powB, lg_pow2 in Hlg.
  pose proof (lg_den_num l Hl) as Hdn.
  assert (Hsplit : RN (WB c * N.of_nat nw) = RN (WB c * N.of_nat (nw - 1)) + RN (WB c)).
  { unfold RN. rewrite <- plus_IZR. f_equal.
    replace (N.of_nat nw) with (N.of_nat (nw - 1) + 1)%N by lia.
    rewrite N.mul_add_distr_l, N.mul_1_r, N2Z.inj_add. reflexivity. }
  assert (HSB : RN (SB c) = RN (SB c - WB c) + RN (WB c)).
  { unfold RN. rewrite <- plus_IZR. f_equal. destruct Hc. lia. }
  lra.
Qed.

End Bits.

(* the rounding term of the default preset (u32 words, u64 state, 24 bit precision):
   log2 (1 + 2^-(64-32-24)) = log2 (257/256) < 0.006 bit per symbol *)
Lemma default_overhead_small : log2 257 - log2 256 < 6 / 1000.
Proof. unfold log2. interval. Qed.

Lemma default_overhead_is :
  lg (Kof {| WB := 32; SB := 64 |} 24 + 1) - lg (Kof {| WB := 32; SB := 64 |} 24) = log2 257 - log2 256.
Proof. reflexivity. Qed.
