(* Proofs/FloatQ_rejects.v -- the float constructors reject invalid input (C19 float part) and
   never panic; input validation of the `_perfect` constructors. *)
From Coq Require Import ZArith NArith List Bool Reals Lia Lra.
From Flocq Require Import Core IEEE754.BinarySingleNaN.
From CV Require Import Base.Bits Model.EModel Model.FloatQ Proofs.Table_lemmas Proofs.FloatQ_float
  Proofs.FloatQ_cdf Proofs.FloatQ_validator.
Set Default Timeout 60.
Open Scope N_scope.

Section Rejects.
Variables prec emax : Z.
Context (Hprec : Prec_gt_0 prec) (Hmax : Prec_lt_emax prec emax).
Variables PB P : N.
Notation float := (binary_float prec emax).
Notation norm_of := (normalization_of prec emax Hprec Hmax).

(* NaN, +-infinity, or strictly negative (-0.0 is not negative) *)
Definition bad_entry (w : float) : Prop :=
  is_finite w = false \/ fq_lt prec emax w (fq_zero prec emax) = true.

Lemma bad_entry_rejected ws :
  Exists bad_entry ws -> fq_all_finite_nonneg prec emax ws = false.
Proof.
  intros H. apply Exists_exists in H. destruct H as (w & Hin & Hbad).
  destruct (fq_all_finite_nonneg prec emax ws) eqn:Hall; [|reflexivity]. exfalso.
  unfold fq_all_finite_nonneg in Hall. rewrite forallb_forall in Hall.
  specialize (Hall w Hin). apply andb_prop in Hall. destruct Hall as [Hge Hf].
  destruct Hbad as [Hnf|Hlt]; [congruence|].
  unfold fq_ge in Hge. unfold fq_lt in Hlt.
  destruct (Bcompare w (fq_zero prec emax)) as [[| |]|]; discriminate.
Qed.

Hypothesis HP : 0 < P.
Hypothesis HPU : P <= fq_USZ.

Theorem float_ctor_rejects ws norm :
  N.of_nat (length ws) < 2 ^ fq_USZ ->
  (N.of_nat (length ws) < 2 \/ 2 ^ P <= N.of_nat (length ws) + 1 \/ Exists bad_entry ws
   \/ fq_norm_ok prec emax (norm_of ws norm) = false) ->
  fq_fast_cdf prec emax Hprec Hmax PB P ws norm = FqErr
  /\ fq_eager_table prec emax Hprec Hmax PB P ws norm = FqErr
  /\ fq_lazy_new prec emax Hprec Hmax PB P ws norm = FqErr.
Proof.
  intros Hlen Hbad.
  assert (Hprep : fq_prepare prec emax Hprec Hmax PB P ws norm = FqErr).
  { unfold fq_prepare.
    destruct (fq_len_bad P (N.of_nat (length ws))) eqn:Hlb; [reflexivity|].
    apply fq_len_bad_spec in Hlb; try assumption. destruct Hlb as [H2 Hn].
    destruct (fq_all_finite_nonneg prec emax ws) eqn:Hall; [|reflexivity]. cbn [negb].
    fold (norm_of ws norm).
    destruct (fq_norm_ok prec emax (norm_of ws norm)) eqn:Hno; [|reflexivity]. exfalso.
    destruct Hbad as [Hb|[Hb|[Hb|Hb]]]; try lia; try discriminate.
    apply bad_entry_rejected in Hb. congruence. }
  unfold fq_eager_table, fq_fast_cdf, fq_lazy_new. rewrite Hprep. auto.
Qed.

(* the accept / reject decision is exactly the documented one, and nothing in between *)
Theorem float_ctor_decides ws norm :
  P <= PB -> PB <= fq_USZ -> N.of_nat (length ws) < 2 ^ fq_USZ ->
  (fq_eager_table prec emax Hprec Hmax PB P ws norm = FqErr
   /\ fq_lazy_new prec emax Hprec Hmax PB P ws norm = FqErr)
  \/ (exists t scale, fq_eager_table prec emax Hprec Hmax PB P ws norm = FqOk t /\ wf_table P t
      /\ fq_lazy_new prec emax Hprec Hmax PB P ws norm = FqOk {| lz_pmf := ws; lz_scale := scale |}).
Proof.
  intros HPB HU Hlen.
  destruct (N.lt_ge_cases (N.of_nat (length ws)) 2) as [H2|H2].
  { left. destruct (float_ctor_rejects ws norm Hlen) as (_ & ? & ?); auto. }
  destruct (N.lt_ge_cases (N.of_nat (length ws) + 1) (2 ^ P)) as [Hn|Hn].
  2:{ left. destruct (float_ctor_rejects ws norm Hlen) as (_ & ? & ?); auto. }
  destruct (fq_all_finite_nonneg prec emax ws) eqn:Hall.
  2:{ left. unfold fq_eager_table, fq_fast_cdf, fq_lazy_new, fq_prepare.
      destruct (fq_len_bad P (N.of_nat (length ws))); [auto|]. rewrite Hall. auto. }
  destruct (fq_norm_ok prec emax (norm_of ws norm)) eqn:Hno.
  2:{ left. destruct (float_ctor_rejects ws norm Hlen) as (_ & ? & ?); auto. }
  right.
  destruct (eager_explicit prec emax Hprec Hmax PB P HP HPB HU ws norm H2 Hn Hall Hno)
    as (scale & cs & Hprep & _ & _ & _ & Hinc & Hl & _ & Htab).
  destruct (fast_cdf_valid prec emax Hprec Hmax PB P HP HPB HU ws norm H2 Hn Hall Hno)
    as (cdf & t & _ & _ & _ & Htab' & Hwf & _).
  exists t, scale. split; [exact Htab'|]. split; [exact Hwf|].
  unfold fq_lazy_new. rewrite Hprep. reflexivity.
Qed.

(* what "normal and positive" means *)
Lemma fq_norm_ok_inv (x : float) :
  fq_norm_ok prec emax x = true ->
  exists m e Hb, x = B754_finite false m e Hb /\ Z.pos (SpecFloat.digits2_pos m) = prec.
Proof.
  unfold fq_norm_ok, fq_is_normal. destruct x as [s|s| |s m e Hb]; cbn; try discriminate.
  intros H. apply andb_prop in H. destruct H as [Hd Hs]. destruct s; [discriminate|].
  exists m, e, Hb. split; [reflexivity|]. apply Z.eqb_eq. exact Hd.
Qed.

Lemma fq_norm_ok_special (x : float) :
  is_finite_strict x = false \/ Bsign x = true -> fq_norm_ok prec emax x = false.
Proof.
  unfold fq_norm_ok, fq_is_normal. destruct x as [s|s| |s m e Hb]; cbn; intros [H|H]; try reflexivity;
    try discriminate. subst s. apply andb_false_r.
Qed.

End Rejects.

(* ------------------------------------------------------------------ `_perfect` constructors *)
Section PerfectFacts.
Variables prec emax : Z.
Context (Hprec : Prec_gt_0 prec) (Hmax : Prec_lt_emax prec emax).
Variables prec2 emax2 : Z.
Context (Hprec2 : Prec_gt_0 prec2) (Hmax2 : Prec_lt_emax prec2 emax2).
Variable optimise : list (binary_float prec emax) -> fq_res (list N).
Variables PB P : N.
Notation validate := (fq_perfect_validate prec emax prec2 emax2 Hprec2 Hmax2).
Notation perfect := (fq_perfect_table prec emax prec2 emax2 Hprec2 Hmax2 optimise).

Lemma perfect_validate_rejects ws :
  (N.of_nat (length ws) < 2 \/ 2 ^ PB - 1 < N.of_nat (length ws)
   \/ Exists (fun w => fq_lt prec emax w (fq_zero prec emax) = true) ws
   \/ fq_norm_ok prec2 emax2
        (fq_sum prec2 emax2 Hprec2 Hmax2 (map (fq_widen prec emax prec2 emax2 Hprec2 Hmax2) ws)) = false) ->
  validate PB ws = false.
Proof.
  intros H. unfold fq_perfect_validate, fq_perfect_len_bad.
  destruct H as [H|[H|[H|H]]].
  - apply N.ltb_lt in H. rewrite H. reflexivity.
  - apply N.ltb_lt in H. rewrite H, orb_true_r. reflexivity.
  - apply Exists_exists in H. destruct H as (w & Hin & Hw).
    match goal with |- _ && forallb ?f ws = false => destruct (forallb f ws) eqn:Hall end;
      [|apply andb_false_r].
    rewrite forallb_forall in Hall. specialize (Hall w Hin). rewrite Hw in Hall. discriminate.
  - rewrite H, andb_false_r. reflexivity.
Qed.

Theorem perfect_rejects ws : validate PB ws = false -> perfect PB P ws = FqErr.
Proof. intros H. unfold fq_perfect_table. rewrite H. reflexivity. Qed.

(* whatever a `_perfect` constructor returns went through the fixed-point validator *)
Theorem perfect_through_validator ws t :
  perfect PB P ws = FqOk t ->
  validate PB ws = true /\
  exists weights cdf, optimise ws = FqOk weights
    /\ fq_validate_fixed PB P (map (trunc PB) weights) = Some cdf
    /\ fq_table_of_ext PB (fq_extend PB P cdf) = Some t.
Proof.
  unfold fq_perfect_table. destruct (validate PB ws); cbn [negb]; [|discriminate].
  destruct (optimise ws) as [weights| |] eqn:Ho; try discriminate.
  destruct (fq_validate_fixed PB P (map (trunc PB) weights)) as [cdf|] eqn:Hv; [|discriminate].
  destruct (fq_table_of_ext PB (fq_extend PB P cdf)) as [t'|] eqn:Ht; [|discriminate].
  intros H. inversion H; subst. split; [reflexivity|]. exists weights, cdf. repeat split; assumption.
Qed.

(* ... hence it is an exactly invertible model whose probabilities are the optimiser's weights *)
Theorem perfect_ok_valid ws t :
  0 < P -> P <= PB ->
  perfect PB P ws = FqOk t ->
  wf_table P t /\ exists weights, optimise ws = FqOk weights /\ map (fun e => snd e) t = map (trunc PB) weights.
Proof.
  intros HP HPB H. destruct (perfect_through_validator ws t H) as (_ & weights & cdf & Ho & Hv & Ht).
  assert (Hsmall : Forall (fun p => p < 2 ^ PB) (map (trunc PB) weights)).
  { apply Forall_forall. intros p Hin. apply in_map_iff in Hin. destruct Hin as (x & <- & _). apply trunc_lt. }
  destruct (fq_validate_fixed_sound PB P _ cdf HP HPB Hsmall Hv) as (t' & Ht' & Hwf & Hps).
  rewrite Ht in Ht'. inversion Ht'; subst t'. split; [exact Hwf|]. exists weights. auto.
Qed.

End PerfectFacts.
