"""property entries delivered by the huff family (merged by tools/merge_shared.py)"""
PROPS = {
    "C15": dict(
        coq=["Props.C15"],
        fams=[("fam_huff", "gen_int", 220, 20000), ("fam_huff", "gen_float", 170, 15000),
              ("fam_huff", "gen_edge", 30, 1000)],
        anchors=["src/symbol/huffman.rs", "src/symbol/mod.rs"],
        rule="weight list with >= 2 symbols, both trees built, all codewords dumped in both forms and decoded "
             "on a queue and a stack bit coder",
        level_text="Machine-checked Coq theorems about a Gallina model of EncoderHuffmanTree / DecoderHuffmanTree "
                   "(unbounded: every weight type with a total preorder and an addition -- integers of any width, "
                   "IEEE floats --, every usize width, every weight list): both constructors perform the same "
                   "merges (same full binary tree), codewords are prefix-free, Kraft equality, prefix form = "
                   "reversed suffix form, decode(codeword ++ anything) = symbol with the rest untouched (queue and "
                   "stack order), symbols >= n rejected, NaN rejected, result independent of the heap's internal "
                   "order (ties impossible: indices unique), every merge joins the two (weight,index)-minima, all "
                   "get_unchecked indices in bounds. Optimality is proved in full for integer weights (additions "
                   "exact): the total weighted length is <= that of every prefix code on the alphabet (Kraft "
                   "inequality for prefix-free word lists + exchange argument on (weight,length) lists along the "
                   "loop), and equals the sum of the internal node weights. For float weights the sums are rounded: "
                   "structural theorems hold, optimality is only tested (oracle: independent two-queue optimum where "
                   "all partial sums are exact). Tied to the source by the differential check.",
        level_note="Trusted: Coq kernel + vm_compute; hand-written model (Model/Huffman.v) tied to huffman.rs by "
                   "sampled correspondence (u8/u32/u64/f32/f64, 1..200 symbols); std BinaryHeap assumed to "
                   "implement 'pop the minimum of (weight,index)'; float weights run on Flocq binary32/64 in the "
                   "runner (theorems are generic in the weight type); bit coders abstracted to bit lists (C16). "
                   "Out of the model's scope and excluded from generation: integer weight sums that overflow the "
                   "weight type (debug panics, release wraps), inf + -inf inside the heap (NaN ordered by std's "
                   "PartialOrd-based sift). No axioms (Closed under the global context) except C15_float_order and its "
                   "f64 instance, which use Flocq's Bcompare_correct (classic, sig_forall_dec, sig_not_dec, "
                   "functional_extensionality_dep from Coq's Reals).",
        technique="Coq proof (merge-sequence refinement, permutation/flow arguments, exchange argument for "
                  "optimality) + model/implementation correspondence + direct oracle with independent optimum",
        design_ref="DESIGN.md section 4, C15",
    ),
}
