#!/usr/bin/env python3
"""Writes /verif/seeded/<id>/meta.json from the sub-agent's meta.orig.json, confirm.txt and checks.txt."""
import json, os, sys, re
root = "/verif/seeded"
for name in sorted(os.listdir(root)):
    d = os.path.join(root, name)
    if not os.path.isdir(d):
        continue
    orig = {}
    p = os.path.join(d, "meta.orig.json")
    if os.path.exists(p):
        try:
            orig = json.load(open(p))
        except Exception:
            orig = {}
    confirm = open(os.path.join(d, "confirm.txt")).read().strip() if os.path.exists(os.path.join(d, "confirm.txt")) else ""
    checks = open(os.path.join(d, "checks.txt")).read().strip().split("\n") if os.path.exists(os.path.join(d, "checks.txt")) else []
    results = {}
    for line in checks:
        m = re.match(r"(OK|FAIL) (\w+) ", line)
        if m:
            results[m.group(2)] = "detected" if m.group(1) == "FAIL" else "NOT detected"
    for line in checks:
        m = re.match(r"VIOLATION property=(\w+) replay=\S+( no-failing-input-found)?", line)
        if m and m.group(1) in results and results[m.group(1)] == "detected":
            results[m.group(1)] = "detected (correspondence only, no-failing-input-found)" if m.group(2) else "detected with failing input"
    meta = dict(
        id=name,
        property_broken=orig.get("property", name.split("-")[0]),
        summary=orig.get("summary", ""),
        needs_to_manifest=orig.get("needs_to_manifest", ""),
        files=orig.get("files", []),
        produced_by="independent sub-agent given only the property text and a scratch worktree",
        confirmed_by_lead=dict(
            how="tools/confirm_mutant.sh in a fresh scratch worktree of /repo: patch applies; full existing test "
                "suite (cargo test --workspace --no-fail-fast --offline) passes with the patch; demo.rs exits 0 "
                "without and non-zero with the patch",
            result=confirm.split("\n")[0] if confirm else "",
            confirmed=confirm.endswith("CONFIRMED") and "NOT-CONFIRMED" not in confirm),
        checks_run="tools/seedtest.sh: git -C /repo apply patch.diff; ./check <P> --tier quick; git -C /repo checkout -- .",
        check_results=results,
        check_output=checks,
    )
    json.dump(meta, open(os.path.join(d, "meta.json"), "w"), indent=1)
    print(name, results)
