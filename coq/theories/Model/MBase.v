(* Model/MBase.v -- shared vocabulary of the fixed-point entropy-model models
   (src/stream/model/{uniform,categorical,...}.rs).  Definitions only.

   Machine integers are N together with the width of their Rust type:
     PB = Probability::BITS, UB = usize::BITS, PR = PRECISION.
   Every Rust operator is written with the behaviour the type imposes:
     wrapping_add / wrapping_sub / wrapping_mul  ==> wadd / wsub / wmul (mod 2^b)
     plain  + - * <<                             ==> cadd / csub / cmul / cshl1,
         CHECKED: they fail with E_OVERFLOW (debug builds panic, release builds
         wrap; C20 forbids relying on the wrap)
     x.as_() to a b-bit type                     ==> trunc b x
     integer division                            ==> cdiv (panics on zero)
     assert! / expect / unwrap                   ==> E_PANIC
     Err(())                                     ==> E_ERR
     into_nonzero_unchecked / get_unchecked / unreachable_unchecked
                                                 ==> checked, one UB_* code per site *)
From CV Require Export Base.Bits Model.EModel.
Open Scope N_scope.

Record mcfg := { PB : N; UB : N; PR : N }.

(* generic_static_asserts! shared by every model family:
   PRECISION > 0, PRECISION <= Probability::BITS *)
Definition wf_mcfg (c : mcfg) : Prop := 0 < PR c /\ PR c <= PB c.
(* UniformModel::new additionally: PRECISION <= usize::BITS *)
Definition wf_mcfg_uniform (c : mcfg) : Prop := wf_mcfg c /\ PR c <= UB c.
(* lookup models additionally: PRECISION < usize::BITS, and Probability: Into<usize>
   (a lossless conversion, so Probability::BITS <= usize::BITS) *)
Definition wf_mcfg_lookup (c : mcfg) : Prop := wf_mcfg c /\ PR c < UB c /\ PB c <= UB c.

(* ------------------------------------------------------------------ results *)
Inductive res (A : Type) : Type :=
| Ok (a : A)
| Fail (e : Z).
Arguments Ok {A} a.
Arguments Fail {A} e.

Definition bind {A B : Type} (r : res A) (f : A -> res B) : res B :=
  match r with Ok a => f a | Fail e => Fail e end.
Notation "r >>= f" := (bind r f) (at level 50, left associativity).

Definition E_ERR : Z := (-1)%Z.            (* the constructor returned Err(()) *)
Definition E_PANIC : Z := (-999999)%Z.     (* a safe panic *)
Definition E_OVERFLOW : Z := (-2001)%Z.    (* plain arithmetic left its type *)

(* one code per unsafe site *)
Definition UB_uniform_new_range : Z := (-3001)%Z.   (* uniform.rs:44 *)
Definition UB_uniform_new_ppb : Z := (-3002)%Z.     (* uniform.rs:61 *)
Definition UB_uniform_lcp_prob : Z := (-3003)%Z.    (* uniform.rs:110 *)
Definition UB_uniform_quant_prob : Z := (-3004)%Z.  (* uniform.rs:139 *)
Definition UB_uniform_table_prob : Z := (-3005)%Z.  (* uniform.rs:176 *)
Definition UB_nonzero_get : Z := (-3006)%Z.         (* lib.rs:690 NonZero getter hint *)
Definition UB_contig_quant_slice : Z := (-3011)%Z.  (* contiguous.rs:637 *)
Definition UB_contig_quant_unreachable : Z := (-3012)%Z. (* contiguous.rs:646 *)
Definition UB_contig_quant_index : Z := (-3013)%Z.  (* contiguous.rs:657 *)
Definition UB_contig_quant_prob : Z := (-3014)%Z.   (* contiguous.rs:663 *)
Definition UB_contig_lcp_index : Z := (-3015)%Z.    (* contiguous.rs:692 *)
Definition UB_contig_lcp_prob : Z := (-3016)%Z.     (* contiguous.rs:698 *)
Definition UB_ncdec_quant_slice : Z := (-3021)%Z.   (* non_contiguous.rs:625 *)
Definition UB_ncdec_quant_unreachable : Z := (-3022)%Z. (* non_contiguous.rs:634 *)
Definition UB_ncdec_quant_index : Z := (-3023)%Z.   (* non_contiguous.rs:644 *)
Definition UB_ncdec_quant_prob : Z := (-3024)%Z.    (* non_contiguous.rs:653 *)
Definition UB_lkc_quant_table : Z := (-3031)%Z.     (* lookup_contiguous.rs:587 *)
Definition UB_lkc_quant_index : Z := (-3032)%Z.     (* lookup_contiguous.rs:591 *)
Definition UB_lkc_quant_prob : Z := (-3033)%Z.      (* lookup_contiguous.rs:603 *)
Definition UB_lkn_quant_table : Z := (-3041)%Z.     (* lookup_noncontiguous.rs:631 *)
Definition UB_lkn_quant_index : Z := (-3042)%Z.     (* lookup_noncontiguous.rs:635 *)
Definition UB_lkn_quant_prob : Z := (-3043)%Z.      (* lookup_noncontiguous.rs:646 *)

Definition is_UB (e : Z) : bool := ((e <=? -3000) && (-4000 <? e))%Z.
(* everything C20 excludes: undefined behaviour and reliance on wrapping *)
Definition is_unsound (e : Z) : bool := is_UB e || (e =? E_OVERFLOW)%Z.

(* ------------------------------------------------------------------ arithmetic *)
Definition wadd (b x y : N) : N := trunc b (x + y).
Definition wsub (b x y : N) : N := trunc b (x + 2 ^ b - y).    (* x, y < 2^b *)
Definition wmul (b x y : N) : N := trunc b (x * y).
(* lib.rs:733 wrapping_pow2 *)
Definition wpow2 (b e : N) : N := if b <=? e then 0 else 2 ^ e.

Definition cadd (b x y : N) : res N := if x + y <? 2 ^ b then Ok (x + y) else Fail E_OVERFLOW.
Definition csub (x y : N) : res N := if y <=? x then Ok (x - y) else Fail E_OVERFLOW.
Definition cmul (b x y : N) : res N := if x * y <? 2 ^ b then Ok (x * y) else Fail E_OVERFLOW.
(* [T::one() << e] : the shift amount must be below the width *)
Definition cshl1 (b e : N) : res N := if e <? b then Ok (2 ^ e) else Fail E_OVERFLOW.
Definition cdiv (x y : N) : res N := if y =? 0 then Fail E_PANIC else Ok (x / y).
Definition cmod (x y : N) : res N := if y =? 0 then Fail E_PANIC else Ok (x mod y).

Definition nonzero_unchecked (site : Z) (x : N) : res N := if x =? 0 then Fail site else Ok x.
Definition into_nonzero (x : N) : option N := if x =? 0 then None else Some x.
(* lib.rs:683-700 NonZero::get with its unreachable hint *)
Definition nz_get (x : N) : res N := nonzero_unchecked UB_nonzero_get x.

(* slice indexing by a usize (never convert a huge index to nat) *)
Definition nth_N {A : Type} (l : list A) (i : N) : option A :=
  if i <? N.of_nat (length l) then nth_error l (N.to_nat i) else None.
Definition get_unchecked {A : Type} (site : Z) (l : list A) (i : N) : res A :=
  match nth_N l i with Some v => Ok v | None => Fail site end.

Definition lenN {A : Type} (l : list A) : N := N.of_nat (length l).

Fixpoint last_opt {A : Type} (l : list A) : option A :=
  match l with
  | [] => None
  | [x] => Some x
  | _ :: r => last_opt r
  end.

(* Vec::resize *)
Definition resize {A : Type} (l : list A) (n : N) (v : A) : list A :=
  if n <=? lenN l then firstn (N.to_nat n) l else l ++ repeat v (N.to_nat (n - lenN l)).

Fixpoint mapM {A B : Type} (f : A -> res B) (l : list A) : res (list B) :=
  match l with
  | [] => Ok []
  | x :: r => f x >>= fun y => mapM f r >>= fun ys => Ok (y :: ys)
  end.

(* 0 .. n-1 *)
Definition iotaN (n : nat) : list N := map N.of_nat (seq 0 n).

(* ------------------------------------------------------------------ std specs *)
(* slice::partition_point for a predicate that is true on a prefix *)
Fixpoint partition_point {A : Type} (pred : A -> bool) (l : list A) : nat :=
  match l with
  | [] => O
  | x :: r => if pred x then S (partition_point pred r) else O
  end.

Inductive ordering := Less | Equal | Greater.

Fixpoint find_equal {A : Type} (cmp : A -> ordering) (l : list A) : option nat :=
  match l with
  | [] => None
  | x :: r => match cmp x with
              | Equal => Some O
              | _ => option_map S (find_equal cmp r)
              end
  end.

(* slice::binary_search_by on a slice that is partitioned by [cmp]:
   inl i = Ok(i) (some element compares Equal), inr i = Err(i) (insertion point) *)
Definition binary_search_by {A : Type} (cmp : A -> ordering) (l : list A) : nat + nat :=
  match find_equal cmp l with
  | Some i => inl i
  | None => inr (partition_point (fun x => match cmp x with Less => true | _ => false end) l)
  end.

(* ------------------------------------------------------------------ symbol types *)
(* which integers are values of the model's Symbol type *)
Inductive symty := SyUsize | SyI32 | SyChar.
Definition sym_ok (ub : N) (t : symty) (s : Z) : bool :=
  match t with
  | SyUsize => (0 <=? s)%Z && (s <? Z.of_N (2 ^ ub))%Z
  | SyI32 => (- 2147483648 <=? s)%Z && (s <? 2147483648)%Z
  | SyChar => ((0 <=? s) && (s <? 55296) || (57344 <=? s) && (s <? 1114112))%Z
  end.

(* from machine-level query functions to the coder-facing [emodel] *)
Definition enc_of_res (r : res (option (N * N))) : option (N * N) :=
  match r with Ok o => o | Fail _ => None end.
Definition dec_of_res (r : res (Z * N * N)) : Z * N * N :=
  match r with Ok x => x | Fail _ => (0%Z, 0, 0) end.
