"""Family `bits`: histories on the bit-level coders of constriction::symbol (StackCoder S,
QueueEncoder Q, QueueDecoder D, all over Vec / Cursor<Vec>) and the Exp-Golomb codebook.

Input (ints):  ti  ops...
  ti: word type  8|16|32|64 = uN, 33 = the Default* aliases (u32), 65 = usize (64 bit)
  vt: value type of ExpGolomb<uN>: 8|16|32|64
  stack coder S
     1 b          S.write_bit(b)                                   -> 0
     2            S.read_bit()                                     -> 1|0|-1 (end of data)
     3            S.len(), S.is_empty()                            -> len e
     4            ws=S.into_compressed(); S=from_compressed(ws)    -> n ws.. 0   | n ws.. -2 (S=new)
     5            S.get_compressed() (view, dropped)               -> n ws..
     6            S.as_decoder().len(), S.iter().collect()         -> len n bits..   (S untouched)
     7 k          k x Iterator::next                               -> k x (1|0|-1)
     8 vt n       S.encode_symbol(n, ExpGolomb<vt>)                -> 0
     9 vt         S.decode_symbol(ExpGolomb<vt>)                   -> n | -5
    10 k ws..     StackCoder::from_compressed(ws)                  -> 0 (S replaced) | -2 n' ws'.. (S kept)
    11            raw fields of S (via Debug)                      -> n backend.. current_word mask
    12            S.into_iterator().collect(); S=new               -> n bits..
    13 vt k n..   S.encode_iid_symbols_reverse                     -> 0
    14 vt k       S.decode_iid_symbols(k)                          -> k x (n | -5)
    15 k          S=with_bit_capacity(k)                           -> 0
    16            d=S.into_decoder(): len, is_empty, all bits; S=new -> len e n bits..
    17 k b..      k x write_bit                                    -> 0
  queue encoder Q
    21 b | 23 | 25 | 28 vt n | 31 | 32 k | 37 k b..   as 1 | 3 | 5 | 8 | 11 | 15 | 17 on Q
    24            ws=Q.into_compressed(); Q=from_compressed(ws)    -> n ws..
    29 vt k n..   Q.encode_iid_symbols                             -> 0
    30 k ws..     Q=QueueEncoder::from_compressed(ws)              -> 0
    33            D=Q.into_decoder(); Q=new                        -> 0
    34            D=QueueDecoder over a copy of Q.get_compressed() -> 0
    35            Q.into_overshooting_iter().collect(); Q=new      -> n bits..
  queue decoder D
    41 | 42 k | 43 vt | 47 vt k                     as 2 | 7 | 9 | 14 on D
    44            D.maybe_exhausted()                              -> 0|1
    45 k ws..     D=QueueDecoder::from_compressed(Cursor(ws))      -> 0
    46            D.clone().collect()                              -> n bits..
    48            raw fields of D (unread words, current_word, mask)
  the raw fields of S, Q and D are always appended.

  Bit lists travel packed, in the input (ops 17, 37: `k b..` = k, then ceil(k/60) chunks) and in the
  output (`n bits..` = n, then ceil(n/60) chunks): chunks of 60 bits, least significant bit first.
  The k results of ops 7 / 42 are `m chunks.. rest..`: the m leading delivered bits packed, the
  remaining k-m results (normally all -1) raw.
"""

FAMILY = "bits"
RUNNER = ("Corr.Bits_run", "run_bits")

TYPES = [8, 16, 32, 64, 33, 65]
VTS = [8, 16, 32, 64]
SPECIAL = (-999999, -999998, -999997)


def wb_of(ti):
    return {33: 32, 65: 64}.get(ti, ti)


CH = 60


def pack(bits):
    """[k, chunk, chunk, ...]"""
    out = [len(bits)]
    for i in range(0, len(bits), CH):
        v = 0
        for j, b in enumerate(bits[i:i + CH]):
            v |= (1 if b else 0) << j
        out.append(v)
    return out


def nchunks(k):
    return (k + CH - 1) // CH


def unpack(k, chunks):
    bits = []
    for c in chunks:
        n = min(CH, k - len(bits))
        bits += [(c >> j) & 1 for j in range(n)]
    return bits


# ---------------------------------------------------------------- generators

def _bits(rng, k):
    style = rng.random()
    if style < 0.15:
        return [0] * k
    if style < 0.3:
        return [1] * k
    if style < 0.4:
        return [0] * (k - 1) + [1] if k else []
    if style < 0.5:
        return [1] + [0] * (k - 1) if k else []
    return [rng.randrange(2) for _ in range(k)]


def _fill_level(rng, wb):
    """number of bits aimed at word boundaries"""
    w = rng.choice([0, 0, 1, 1, 2, 3])
    off = rng.choice([0, 0, 1, 2, wb - 2, wb - 1, wb - 1, rng.randrange(wb)])
    return w * wb + off


def _word(rng, wb):
    r = rng.random()
    if r < 0.15:
        return 0
    if r < 0.25:
        return 1
    if r < 0.35:
        return (1 << wb) - 1
    if r < 0.45:
        return 1 << (wb - 1)
    if r < 0.55:
        return 1 << rng.randrange(wb)
    if r < 0.6:
        return (1 << (wb - 1)) - 1
    return rng.randrange(1 << wb)


def _value(rng, vt):
    r = rng.random()
    top = (1 << vt) - 1
    if r < 0.15:
        return top
    if r < 0.25:
        return top - 1
    if r < 0.3:
        return top - 2
    if r < 0.45:
        return rng.choice([0, 1, 2, 3, 6, 7, 8])
    if r < 0.75:
        k = rng.randrange(1, vt + 1)
        return max(0, min(top, (1 << k) - 1 + rng.choice([-2, -1, 0, 1])))
    if r < 0.85:
        return rng.randrange(1 << (vt // 2))
    return rng.randrange(1 << vt)


S_INSPECT = [3, 5, 6, 11]
Q_INSPECT = [23, 25, 31]


def gen_fill(rng):
    """Fill levels 0..BITS around word boundaries: write f bits, inspect, export / re-import,
    inspect again, read everything back plus one read beyond the end."""
    ti = rng.choice(TYPES)
    wb = wb_of(ti)
    f = _fill_level(rng, wb)
    bits = _bits(rng, f)
    ops = [3]
    if rng.random() < 0.5:
        ops += [17] + pack(bits)
    else:
        for b in bits:
            ops += [1, b]
    for _ in range(rng.randint(0, 3)):
        ops += [rng.choice(S_INSPECT)]
    if rng.random() < 0.7:
        ops += [5, 4]          # the view, then the real export (C08: same words)
    else:
        ops += [4]
    ops += [3, 11, 6]
    extra = rng.randint(0, 2 * wb)
    more = _bits(rng, extra)
    for b in more:
        ops += [1, b]
        if rng.random() < 0.1:
            ops += [rng.choice(S_INSPECT + [4])]
    total = f + extra
    mode = rng.random()
    if mode < 0.4:
        ops += [7, total + 1]
    elif mode < 0.6:
        for _ in range(total + 1):
            ops += [2]
            if rng.random() < 0.15:
                ops += [rng.choice(S_INSPECT + [4])]
    elif mode < 0.8:
        ops += [12]
    else:
        ops += [16]
    ops += [3, 2]
    return [ti] + ops


def gen_stack(rng, max_ops=80):
    """Random interleaving of write / read / len / export+import / inspection on the stack coder,
    with Exp-Golomb symbols in between."""
    ti = rng.choice(TYPES)
    wb = wb_of(ti)
    ops = []
    n = 0                      # lower bound of the content size is not tracked exactly
    for _ in range(rng.randint(1, max_ops)):
        r = rng.random()
        if r < 0.30:
            ops += [1, rng.randrange(2)]
        elif r < 0.38:
            k = rng.choice([1, 2, wb - 1, wb, wb + 1, rng.randrange(0, 2 * wb + 2)])
            ops += [17] + pack(_bits(rng, k))
        elif r < 0.58:
            ops += [2]
        elif r < 0.63:
            ops += [7, rng.choice([0, 1, 2, wb - 1, wb, wb + 1, rng.randrange(0, 2 * wb + 2)])]
        elif r < 0.73:
            ops += [4]
        elif r < 0.78:
            ops += [5, 4] if rng.random() < 0.5 else [5]
        elif r < 0.90:
            ops += [rng.choice(S_INSPECT)]
        elif r < 0.94:
            vt = rng.choice(VTS)
            ops += [8, vt, _value(rng, vt)]
        elif r < 0.97:
            ops += [9, rng.choice(VTS)]
        elif r < 0.98:
            ops += [15, rng.choice([0, 1, wb - 1, wb, wb + 1, 1000])]
        elif r < 0.99:
            ops += [12]
        else:
            ops += [16]
    ops += [6]
    return [ti] + ops


def gen_import(rng):
    """StackCoder::from_compressed on arbitrary words (also ending in a zero word: rejected, the
    returned Vec observed), then inspection, reads and a re-export of the imported content."""
    ti = rng.choice(TYPES)
    wb = wb_of(ti)
    ops = []
    if rng.random() < 0.3:
        k = rng.randrange(0, wb + 2)
        ops += [17] + pack(_bits(rng, k))
    for _ in range(rng.randint(1, 3)):
        n = rng.choice([0, 1, 1, 2, 3, rng.randrange(0, 6)])
        ws = [_word(rng, wb) for _ in range(n)]
        if ws and rng.random() < 0.25:
            ws[-1] = 0
        if ws and rng.random() < 0.25:
            ws[-1] = rng.choice([1, 1 << (wb - 1), (1 << wb) - 1, 2, 3])
        ops += [10, len(ws)] + ws + [6, 3, 11, 5, 4, 11, 6]
        for _ in range(rng.randint(0, wb + 2)):
            r = rng.random()
            if r < 0.5:
                ops += [2]
            elif r < 0.8:
                ops += [1, rng.randrange(2)]
            else:
                ops += [rng.choice(S_INSPECT + [4])]
    ops += [6]
    return [ti] + ops


def gen_queue(rng, max_ops=50):
    """Queue encoder: writes, inspections, export + re-import (zero padding), conversion into a
    decoder at every fill level, reads running past the end (padding zeros, then end of data)."""
    ti = rng.choice(TYPES)
    wb = wb_of(ti)
    ops = [23]
    if rng.random() < 0.6:
        f = _fill_level(rng, wb)
        ops += [37] + pack(_bits(rng, f))
    for _ in range(rng.randint(0, max_ops)):
        r = rng.random()
        if r < 0.35:
            ops += [21, rng.randrange(2)]
        elif r < 0.42:
            k = rng.choice([1, wb - 1, wb, wb + 1, rng.randrange(0, 2 * wb + 2)])
            ops += [37] + pack(_bits(rng, k))
        elif r < 0.57:
            ops += [rng.choice(Q_INSPECT)]
        elif r < 0.62:
            ops += [24, 23]
        elif r < 0.67:
            vt = rng.choice(VTS)
            ops += [28, vt, _value(rng, vt)]
        elif r < 0.75:
            ops += [34, 44, 46]
        elif r < 0.85:
            ops += [41]
        elif r < 0.90:
            ops += [42, rng.choice([1, wb - 1, wb, wb + 1, rng.randrange(0, 2 * wb + 2)])]
        elif r < 0.93:
            ops += [44]
        elif r < 0.95:
            ops += [43, rng.choice(VTS)]
        elif r < 0.97:
            ops += [48]
        elif r < 0.98:
            ops += [32, rng.choice([0, 1, wb - 1, wb, wb + 1, 1000])]
        else:
            ops += [35]
    ops += [23, 25]
    ops += [33, 44, 46] if rng.random() < 0.5 else [34, 44, 46, 35]
    ops += [42, rng.randrange(0, 3 * wb), 44, 42, 3 * wb + 2, 44, 41]
    return [ti] + ops


def gen_eg(rng):
    """Exp-Golomb symbols (boundary values incl. the maximum of the type) on the stack coder
    (suffix form, read back in reverse) and on the queue (prefix form), surrounded by plain bits
    at arbitrary fill levels; occasionally decoded with a narrower type (over-long code)."""
    ti = rng.choice(TYPES)
    wb = wb_of(ti)
    ops = []
    where = rng.random()
    pre = rng.randrange(0, wb + 1)
    if where < 0.5:
        # stack
        prebits = _bits(rng, pre)
        ops += [17] + pack(prebits)
        syms = []
        for _ in range(rng.randint(1, 6)):
            vt = rng.choice(VTS)
            syms.append((vt, _value(rng, vt)))
        if rng.random() < 0.3:
            vt = syms[0][0]
            vals = [_value(rng, vt) for _ in range(rng.randint(0, 5))]
            ops += [13, vt, len(vals)] + vals + [3]
            if rng.random() < 0.5:
                ops += [4]
            ops += [14, vt, len(vals), 3]
        for vt, n in syms:
            ops += [8, vt, n]
            if rng.random() < 0.3:
                ops += [rng.choice([3, 4, 5, 6])]
        for vt, n in reversed(syms):
            if rng.random() < 0.08:
                vt = rng.choice(VTS)      # possibly the wrong type: rejection or another value
            ops += [9, vt]
            if rng.random() < 0.2:
                ops += [rng.choice([3, 4, 5])]
        ops += [3, 7, pre + 1]
    else:
        prebits = _bits(rng, pre)
        ops += [37] + pack(prebits)
        syms = []
        for _ in range(rng.randint(1, 6)):
            vt = rng.choice(VTS)
            syms.append((vt, _value(rng, vt)))
        for vt, n in syms:
            ops += [28, vt, n]
            if rng.random() < 0.3:
                ops += [rng.choice([23, 25, 24])]
        if rng.random() < 0.3:
            vt = rng.choice(VTS)
            vals = [_value(rng, vt) for _ in range(rng.randint(0, 5))]
            ops += [29, vt, len(vals)] + vals
            tail = [47, vt, len(vals)]
        else:
            tail = []
        ops += [23, rng.choice([33, 34]), 42, pre]
        for vt, n in syms:
            if rng.random() < 0.08:
                vt = rng.choice(VTS)
            ops += [43, vt]
        ops += tail + [44, 46, 43, rng.choice(VTS), 41]
    return [ti] + ops


def gen_eg_garbage(rng):
    """decode Exp-Golomb symbols from arbitrary words: long runs of zeros (over-long codes, codes of
    exactly BITS zeros with and without a zero tail), truncated codes."""
    ti = rng.choice(TYPES)
    wb = wb_of(ti)
    vt = rng.choice(VTS)
    nz = rng.choice([vt - 1, vt, vt, vt + 1, vt + 2, rng.randrange(0, 2 * vt + 2)])
    tail_kind = rng.random()
    if tail_kind < 0.4:
        tail = [0] * nz
    elif tail_kind < 0.7:
        tail = [rng.randrange(2) for _ in range(nz)]
    else:
        tail = [rng.randrange(2) for _ in range(rng.randrange(0, nz + 1))]
    code = [0] * nz + [1] + tail + [rng.randrange(2) for _ in range(rng.randrange(0, 9))]
    ops = []
    if rng.random() < 0.5:
        ops += [37] + pack(code) + [34, 43, vt, 48, 43, vt, 41, 46]
    else:
        rc = list(reversed(code))
        ops += [17] + pack(rc) + [9, vt, 11, 3, 9, vt, 2, 6]
    # the same from raw words
    ws = [_word(rng, wb) for _ in range(rng.randint(1, 4))]
    if ws[-1] == 0:
        ws[-1] = 1
    ops += [45, len(ws)] + ws + [46, 47, rng.choice(VTS), 3, 48]
    ops += [10, len(ws)] + ws + [6, 14, rng.choice(VTS), 3, 11]
    return [ti] + ops


def gen_free(rng, max_ops=70):
    """unconstrained mix of every op on all three objects"""
    ti = rng.choice(TYPES)
    wb = wb_of(ti)
    ops = []
    for _ in range(rng.randint(1, max_ops)):
        r = rng.random()
        if r < 0.2:
            ops += [rng.choice([1, 21]), rng.randrange(2)]
        elif r < 0.3:
            ops += [rng.choice([2, 41])]
        elif r < 0.45:
            ops += [rng.choice([3, 4, 5, 6, 11, 23, 24, 25, 31, 44, 46, 48])]
        elif r < 0.5:
            k = rng.randrange(0, wb + 2)
            ops += [rng.choice([17, 37])] + pack(_bits(rng, k))
        elif r < 0.55:
            ops += [rng.choice([7, 42]), rng.randrange(0, wb + 2)]
        elif r < 0.62:
            vt = rng.choice(VTS)
            ops += [rng.choice([8, 28]), vt, _value(rng, vt)]
        elif r < 0.69:
            ops += [rng.choice([9, 43]), rng.choice(VTS)]
        elif r < 0.73:
            vt = rng.choice(VTS)
            vals = [_value(rng, vt) for _ in range(rng.randint(0, 4))]
            ops += [rng.choice([13, 29]), vt, len(vals)] + vals
        elif r < 0.77:
            ops += [rng.choice([14, 47]), rng.choice(VTS), rng.randrange(0, 4)]
        elif r < 0.85:
            ws = [_word(rng, wb) for _ in range(rng.randrange(0, 4))]
            ops += [rng.choice([10, 30, 45]), len(ws)] + ws
        elif r < 0.92:
            ops += [rng.choice([33, 34])]
        elif r < 0.95:
            ops += [rng.choice([12, 16, 35])]
        else:
            ops += [rng.choice([15, 32]), rng.choice([0, 1, wb, 100])]
    return [ti] + ops


# ---------------------------------------------------------------- output walking

def walk(inp, out):
    """Yields (op, args, result) for each op; finally ("final", None, (rawS, rawQ, rawD))."""
    i, o = 1, 0

    def ilist():
        nonlocal i
        n = inp[i]
        r = inp[i + 1:i + 1 + n]
        if len(r) != n:
            raise ValueError("short input")
        i += 1 + n
        return r

    def olist():
        nonlocal o
        n = out[o]
        if n < 0:
            raise ValueError("negative length")
        r = out[o + 1:o + 1 + n]
        if len(r) != n:
            raise ValueError("short output")
        o += 1 + n
        return r

    def ibits():
        nonlocal i
        k = inp[i]
        n = nchunks(k)
        ch = inp[i + 1:i + 1 + n]
        if len(ch) != n:
            raise ValueError("short input")
        i += 1 + n
        return unpack(k, ch)

    def obits():
        nonlocal o
        k = out[o]
        if k < 0:
            raise ValueError("negative length")
        n = nchunks(k)
        ch = out[o + 1:o + 1 + n]
        if len(ch) != n:
            raise ValueError("short output")
        o += 1 + n
        return unpack(k, ch)

    def oreads(k):
        lead = obits()
        if len(lead) > k:
            raise ValueError("too many bits")
        return lead + take(k - len(lead))

    def oraw():
        nonlocal o
        ws = olist()
        r = (ws, out[o], out[o + 1])
        o += 2
        return r

    def take(k):
        nonlocal o
        r = out[o:o + k]
        if len(r) != k:
            raise ValueError("short output")
        o += k
        return r

    while i < len(inp):
        op = inp[i]
        i += 1
        if op in (1, 21):
            b = inp[i]; i += 1
            yield (op, b, take(1)[0])
        elif op in (2, 41, 44):
            yield (op, None, take(1)[0])
        elif op in (3, 23):
            yield (op, None, tuple(take(2)))
        elif op == 4:
            ws = olist()
            yield (op, None, (ws, take(1)[0]))
        elif op in (5, 25, 24):
            yield (op, None, olist())
        elif op in (12, 35, 46):
            yield (op, None, obits())
        elif op == 6:
            ln = take(1)[0]
            yield (op, None, (ln, obits()))
        elif op in (7, 42):
            k = inp[i]; i += 1
            yield (op, k, oreads(k))
        elif op in (8, 28):
            vt, n = inp[i], inp[i + 1]; i += 2
            yield (op, (vt, n), take(1)[0])
        elif op in (9, 43):
            vt = inp[i]; i += 1
            yield (op, vt, take(1)[0])
        elif op == 10:
            ws = ilist()
            st = take(1)[0]
            yield (op, ws, (st, olist() if st == -2 else None))
        elif op in (11, 31, 48):
            yield (op, None, oraw())
        elif op in (13, 29):
            vt = inp[i]; i += 1
            ns = ilist()
            yield (op, (vt, ns), take(1)[0])
        elif op in (14, 47):
            vt, k = inp[i], inp[i + 1]; i += 2
            yield (op, (vt, k), take(k))
        elif op in (15, 32):
            k = inp[i]; i += 1
            yield (op, k, take(1)[0])
        elif op == 16:
            ln, e = take(2)
            yield (op, None, (ln, e, obits()))
        elif op in (17, 37):
            bs = ibits()
            yield (op, bs, take(1)[0])
        elif op in (30, 45):
            ws = ilist()
            yield (op, ws, take(1)[0])
        elif op in (33, 34):
            yield (op, None, take(1)[0])
        else:
            raise ValueError("bad op %r" % op)
    rs, rq, rd = oraw(), oraw(), oraw()
    if o != len(out):
        raise ValueError("trailing output")
    yield ("final", None, (rs, rq, rd))


# ---------------------------------------------------------------- the abstract containers

def eg_code(n):
    """Exp-Golomb code of n: k zeros, then the k+1 binary digits of n+1 (k = floor(log2(n+1)))."""
    m = n + 1
    k = m.bit_length() - 1
    return [0] * k + [(m >> j) & 1 for j in range(k, -1, -1)]


def eg_parse(bits, vt):
    """bits: list in reading order.  Returns (value, consumed) if a complete code of a value
    < 2^vt starts the list, else None."""
    k = 0
    while k < len(bits) and bits[k] == 0:
        k += 1
    if k >= len(bits) or len(bits) < 2 * k + 1:
        return None
    m = 0
    for b in bits[k:2 * k + 1]:
        m = 2 * m + b
    if m - 1 >= (1 << vt):
        return None
    return m - 1, 2 * k + 1


class Sim:
    """Specification-level simulation of the three containers.  `None` = content unknown (after an
    import of arbitrary words or a failed decode) until an op that lists the whole content."""

    def __init__(self, inp, checks):
        self.wb = wb_of(inp[0])
        self.S = []       # top = end
        self.Q = []       # in write order
        self.D = []       # bits still to be delivered, head = next
        self.checks = checks
        self.view = None  # words of a stack guard view taken while the content was what it is now
        self.qview = None
        self.stats = dict(readback=0, crossed=False, reimport_partial=0, eg_ok=0, eg_big=0, d_cross=0,
                          len_checks=0, views=0, eof=0)

    def pad(self, l):
        return l + [0] * ((-len(l)) % self.wb)

    def step(self, op, a, res):
        c = self.checks
        st = self.stats
        S, Q, D = self.S, self.Q, self.D
        if op not in (3, 4, 5, 6, 11, 23, 25, 31, 44, 46, 48, 34):
            if op < 20:
                self.view = None
            elif op < 40:
                self.qview = None
        # ---------------- stack
        if op in (1, 17):
            if res != 0:
                return "write_bit failed"
            if S is not None:
                S.extend([a] if op == 1 else a)
                st["crossed"] |= len(S) > self.wb
        elif op in (2, 7):
            rs = [res] if op == 2 else res
            for x in rs:
                if S is None:
                    return None
                if not S:
                    st["eof"] += 1
                    if "order" in c and x != -1:
                        return "read from an empty stack returned %d, not end-of-data" % x
                else:
                    b = S.pop()
                    st["readback"] += 1
                    if "order" in c and x != b:
                        return "stack read returned %d, the last unread written bit is %d" % (x, b)
        elif op == 3:
            if S is not None and "len" in c:
                st["len_checks"] += 1
                if res[0] != len(S):
                    return "stack len() = %d but %d bits are on the stack" % (res[0], len(S))
                if res[1] != (1 if not S else 0):
                    return "stack is_empty() = %d with %d bits on the stack" % (res[1], len(S))
        elif op == 4:
            ws, status = res
            if "reimport" in c and status != 0:
                return "re-import of the exported stack failed"
            if status != 0:
                self.S = []
            if "view" in c and self.view is not None and ws != self.view:
                return "guard view %r differs from the exported words %r" % (self.view, ws)
            if S is not None and len(S) % self.wb != 0:
                st["reimport_partial"] += 1
            self.view = None
        elif op == 5:
            st["views"] += 1
            self.view = list(res)
        elif op == 6:
            ln, bits = res
            if "len" in c and ln != len(bits):
                return "decoder len() = %d but it yields %d bits" % (ln, len(bits))
            if S is None:
                self.S = list(reversed(bits))
            elif "order" in c and bits != list(reversed(S)):
                return "iter() yields %r, expected the written bits in reverse %r" % (bits[:40], list(reversed(S))[:40])
        elif op in (8, 13):
            if res != 0:
                return "encode_symbol failed"
            if S is not None:
                vt, ns = (a[0], [a[1]]) if op == 8 else (a[0], list(reversed(a[1])))
                for n in ns:
                    S.extend(reversed(eg_code(n)))
                st["crossed"] |= len(S) > self.wb
        elif op in (9, 14):
            vt, rs = (a, [res]) if op == 9 else (a[0], res)
            for x in rs:
                if S is None:
                    return None
                p = eg_parse(list(reversed(S)), vt)
                if p is None:
                    self.S = S = None      # invalid / truncated code: the property is silent
                    continue
                v, used = p
                del S[len(S) - used:]
                st["eg_ok"] += 1
                if v >= 7:
                    st["eg_big"] += 1
                if "eg" in c and x != v:
                    return "Exp-Golomb decode (stack, u%d) returned %d, expected %d" % (vt, x, v)
        elif op == 10:
            if res[0] == 0:
                self.S = None
        elif op in (12, 16):
            bits = res if op == 12 else res[2]
            if S is not None:
                if "order" in c and bits != list(reversed(S)):
                    return "draining the stack yields %r, expected %r" % (bits[:40], list(reversed(S))[:40])
                if op == 16 and "len" in c and (res[0] != len(S) or res[1] != (1 if not S else 0)):
                    return "decoder len/is_empty %r with %d bits" % (res[:2], len(S))
                st["readback"] += len(bits)
            self.S = []
        elif op == 15:
            self.S = []
        # ---------------- queue encoder
        elif op in (21, 37):
            if res != 0:
                return "write_bit failed"
            if Q is not None:
                Q.extend([a] if op == 21 else a)
        elif op == 23:
            if Q is not None and "len" in c:
                st["len_checks"] += 1
                if res[0] != len(Q):
                    return "queue len() = %d but %d bits were written" % (res[0], len(Q))
                if res[1] != (1 if not Q else 0):
                    return "queue is_empty() = %d with %d bits" % (res[1], len(Q))
        elif op == 24:
            if "view" in c and self.qview is not None and res != self.qview:
                return "queue guard view %r differs from the exported words %r" % (self.qview, res)
            if Q is not None:
                self.Q = self.pad(Q)
        elif op == 25:
            st["views"] += 1
            self.qview = list(res)
        elif op in (28, 29):
            if res != 0:
                return "encode_symbol failed"
            if Q is not None:
                for n in ([a[1]] if op == 28 else a[1]):
                    Q.extend(eg_code(n))
        elif op == 30:
            self.Q = None
        elif op == 32:
            self.Q = []
        elif op in (33, 34):
            self.D = None if Q is None else self.pad(list(Q))
            if op == 33:
                self.Q = []
        elif op == 35:
            if Q is not None and "order" in c and res != self.pad(list(Q)):
                return "queue iterator yields %r, expected %r" % (res[:40], self.pad(list(Q))[:40])
            self.Q = []
        # ---------------- queue decoder
        elif op in (41, 42):
            rs = [res] if op == 41 else res
            for x in rs:
                if D is None:
                    return None
                if not D:
                    st["eof"] += 1
                    if "order" in c and x != -1:
                        return "read from an exhausted queue returned %d" % x
                else:
                    b = D.pop(0)
                    st["readback"] += 1
                    st["d_cross"] += 1
                    if "order" in c and x != b:
                        return "queue read returned %d, the next written bit is %d" % (x, b)
        elif op in (43, 47):
            vt, rs = (a, [res]) if op == 43 else (a[0], res)
            for x in rs:
                if D is None:
                    return None
                p = eg_parse(D, vt)
                if p is None:
                    self.D = D = None
                    continue
                v, used = p
                del D[:used]
                st["eg_ok"] += 1
                if v >= 7:
                    st["eg_big"] += 1
                if "eg" in c and x != v:
                    return "Exp-Golomb decode (queue, u%d) returned %d, expected %d" % (vt, x, v)
        elif op == 44:
            if D is not None and "exhausted" in c:
                want = 1 if (len(D) < self.wb and not any(D)) else 0
                if res != want:
                    return "maybe_exhausted() = %d with remaining bits %r" % (res, D[:70])
        elif op == 45:
            self.D = None
        elif op == 46:
            if D is None:
                self.D = list(res)
            elif "order" in c and res != D:
                return "decoder clone yields %r, expected %r" % (res[:40], D[:40])
        return None


def simulate(inp, out, checks):
    if any(x in SPECIAL for x in out):
        return "panic/abort/timeout", None
    sim = Sim(inp, checks)
    try:
        for op, a, res in walk(inp, out):
            if op == "final":
                break
            msg = sim.step(op, a, res)
            if msg:
                return msg, sim.stats
    except (IndexError, ValueError) as ex:
        return "malformed output (%s)" % ex, sim.stats
    return None, sim.stats


def oracle_C16(inp, out):
    """LIFO / FIFO order, exact len, export + re-import preserves the content (checked through
    every later read), Exp-Golomb symbols round-trip (spec-level code, all widths)."""
    return simulate(inp, out, {"order", "len", "reimport", "eg"})[0]


def oracle_C08(inp, out):
    """bit-coder part: a guard view equals the words of an export taken with the same content, and
    all later observations are what they would be without the inspection."""
    return simulate(inp, out, {"order", "len", "reimport", "view"})[0]


def oracle_C18(inp, out):
    """bit-coder part: len() / is_empty() exact after every op; maybe_exhausted of the queue decoder."""
    return simulate(inp, out, {"len", "exhausted"})[0]


ORACLES = {"C16": oracle_C16, "C08": oracle_C08, "C18": oracle_C18}


def nontrivial(inp, out, prop=None):
    """C16: at least one bit or symbol read back whose value the specification-level simulation
    predicted, AND (the stack grew beyond one word, or it was exported and re-imported with a
    partially filled last word, or an Exp-Golomb value >= 7 round-tripped, or >= WB+1 bits were read
    from a queue decoder).  C08: >= 1 guard view.  C18: >= 1 len check on a known content."""
    msg, st = simulate(inp, out, set())
    if st is None:
        return False
    if prop == "C08":
        return st["views"] >= 1 and st["readback"] >= 1
    if prop == "C18":
        return st["len_checks"] >= 1
    return (st["readback"] + st["eg_ok"] >= 1) and (
        st["crossed"] or st["reimport_partial"] >= 1 or st["eg_big"] >= 1 or st["d_cross"] > wb_of(inp[0]))


def iter_ops(inp):
    """ops of a case from the input alone: yields (op, arg-ints)"""
    i = 1
    while i < len(inp):
        op = inp[i]
        i += 1
        if op in (1, 21, 7, 42, 9, 43, 15, 32):
            n = 1
        elif op in (8, 28, 14, 47):
            n = 2
        elif op in (17, 37):
            n = 1 + nchunks(inp[i])
        elif op in (10, 30, 45):
            n = 1 + inp[i]
        elif op in (13, 29):
            n = 2 + inp[i + 1]
        else:
            n = 0
        yield op, inp[i:i + n]
        i += n


def describe(inp):
    ti = inp[0]
    name = {33: "Default(u32)", 65: "usize"}.get(ti, "u%d" % ti)
    hist = {}
    try:
        for op, _ in iter_ops(inp):
            hist[op] = hist.get(op, 0) + 1
    except Exception:
        pass
    return "bits Word=%s ops=%s" % (name, " ".join("%d:%d" % kv for kv in sorted(hist.items())))
