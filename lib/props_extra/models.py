"""property entries delivered by the fixed-point model families (fam_models): UniformModel, contiguous /
non-contiguous categorical models, lookup models and the conversion graph.  Same content as the
C03 / C05 / C09 / C19 entries of lib/props.py in the models work copy."""
PROPS = {'C03': {'coq': ['Props.C03'],
         'fams': [('fam_models', 'gen_valid', 600, 20000), ('fam_models', 'gen_conv', 150, 8000)],
         'anchors': ['src/stream/model.rs',
                     'src/stream/model/uniform.rs',
                     'src/stream/model/categorical.rs',
                     'src/stream/model/categorical/contiguous.rs',
                     'src/stream/model/categorical/non_contiguous.rs',
                     'src/stream/model/categorical/lookup_contiguous.rs',
                     'src/stream/model/categorical/lookup_noncontiguous.rs',
                     'src/lib.rs'],
         'rule': 'fixed-point model families: constructor accepted, symbol_table dumped and >= 1 quantile query (or '
                 'full quantile sweep) answered',
         'level_text': 'Machine-checked Coq theorems (unbounded in table size, symbols, Probability::BITS, '
                       'usize::BITS and PRECISION incl. PRECISION == Probability::BITS): every UniformModel, '
                       'contiguous, non-contiguous and lookup model the fixed-point constructors accept is exactly '
                       'invertible (tiling of [0,2^P) by non-empty intervals, no probability one, dec o enc exact) - '
                       'about a hand-written wrapping-arithmetic Gallina model tied to the source by a differential '
                       'check (harness vs vm_compute, u8/u16/u32, P in {1,..,BITS-1,BITS}); integer families only - '
                       'float quantisation and the leaky quantiser are separate groups.',
         'level_note': 'Trusted: Coq kernel + vm_compute; hand-written models (Model/MBase, Uniform, Tables, Lookup, '
                       'Convert) correspond to the Rust files only as far as the sampled correspondence shows; std '
                       'binary_search_by is replaced by its partition-point specification, HashMap by a finite map; '
                       'no axioms. Decoder-only non-contiguous models need distinct symbols as a hypothesis (known '
                       'finding noncontig_decoder_duplicate_symbols).',
         'technique': 'Coq proof (validator invariant laps = zeros + sum div 2^BITS; canonical table as hub) + '
                      "model/implementation correspondence + direct C03 predicate on the implementation's dumps",
         'design_ref': 'DESIGN.md section 4, C03'},
 'C05': {'coq': ['Props.C05'],
         'fams': [('fam_models', 'gen_conv', 450, 15000), ('fam_models', 'gen_valid', 300, 10000)],
         'anchors': ['src/stream/model.rs',
                     'src/stream/model/uniform.rs',
                     'src/stream/model/categorical.rs',
                     'src/stream/model/categorical/contiguous.rs',
                     'src/stream/model/categorical/non_contiguous.rs',
                     'src/stream/model/categorical/lookup_contiguous.rs',
                     'src/stream/model/categorical/lookup_noncontiguous.rs',
                     'src/lib.rs'],
         'rule': 'fixed-point model families: >= 2 distinct representations (base + >= 1 conversion chain) of one '
                 'accepted model dumped',
         'level_text': 'Machine-checked Coq theorem C05_all_representations: for every accepted fixed-point model of '
                       'every family and EVERY chain of conversions (as_view, clone, '
                       'to_generic_encoder/decoder/lookup_decoder_model, to_lookup_decoder_model, '
                       'as/into_(non_)contiguous_categorical) the chain never fails and the result answers '
                       'symbol_table, left_cumulative_and_probability, quantile_function and support_size exactly '
                       'like the table the input denotes; plus identity relabelling and lookup = searched. Tied to '
                       'the source by the differential check and a three-way comparison of all dumped '
                       'representations.',
         'level_note': 'Trusted: as C03. view/clone are the identity in a pure model (tied by correspondence). Lazy '
                       "vs eager float models and the leaky quantiser's symbol_table are separate groups.",
         'technique': "Coq proof (invariant 'good representation of table t' preserved by every conversion) + "
                      'correspondence + cross-representation oracle',
         'design_ref': 'DESIGN.md section 4, C05'},
 'C09': {'coq': ['Props.C09'],
         'fams': [('fam_models', 'gen_valid', 600, 20000)],
         'anchors': ['src/stream/model.rs',
                     'src/stream/model/uniform.rs',
                     'src/stream/model/categorical.rs',
                     'src/stream/model/categorical/contiguous.rs',
                     'src/stream/model/categorical/non_contiguous.rs',
                     'src/stream/model/categorical/lookup_contiguous.rs',
                     'src/stream/model/categorical/lookup_noncontiguous.rs',
                     'src/lib.rs'],
         'rule': 'fixed-point model families: >= 1 out-of-support symbol (neighbour, +2^BITS, +2^16, +2^32, '
                 'usize::MAX ...) queried on an accepted encoder representation',
         'level_text': 'Machine-checked Coq theorems C09_models_*: every symbol outside the support - as an '
                       'unbounded integer, with the usize -> Probability narrowing written explicitly - gets None '
                       'from the uniform, contiguous, non-contiguous and every converted encoder model. Model-side '
                       'part of C09 only; the coder-side part (failed encode leaves the coder intact) is a separate '
                       'group.',
         'level_note': 'Trusted: as C03. The theorem is about the code after the fix: commit e50109e (F3).',
         'technique': 'Coq proof + correspondence + direct oracle (out-of-support => None)',
         'design_ref': 'DESIGN.md section 4, C09'},
 'C19': {'coq': ['Props.C19'],
         'fams': [('fam_models', 'gen_malformed', 900, 30000), ('fam_models', 'gen_valid', 300, 10000)],
         'anchors': ['src/stream/model.rs',
                     'src/stream/model/uniform.rs',
                     'src/stream/model/categorical.rs',
                     'src/stream/model/categorical/contiguous.rs',
                     'src/stream/model/categorical/non_contiguous.rs',
                     'src/stream/model/categorical/lookup_contiguous.rs',
                     'src/stream/model/categorical/lookup_noncontiguous.rs',
                     'src/lib.rs'],
         'rule': 'fixed-point constructors / UniformModel::new: input violating a documented precondition, or '
                 'infer_last_probability on a well-formed table',
         'level_text': 'Machine-checked Coq theorems: accumulate_nonzero_probabilities accepts EXACTLY the '
                       'well-formed tables (all entries > 0, unbounded sum exactly 2^P, >= 2 entries => never '
                       'probability one), with and without infer_last_probability, at every precision incl. '
                       'PRECISION == Probability::BITS; per constructor accepted <-> well-formed (+ matching symbol '
                       'count, + distinct symbols for the HashMap encoder); rejection is the clean Err / panic; '
                       'UniformModel accepts exactly 2 <= range <= 2^P. One statement is REFUTED and listed as known '
                       'finding: the decoder-only non-contiguous constructors accept duplicate symbols.',
         'level_note': 'Trusted: as C03. Theorems are about the code after fix: commits db641f3 (F7, F8). Float '
                       'constructors / leaky quantiser support checks are separate groups.',
         'technique': 'Coq proof (exact loop invariant of the branch-free counter) + correspondence on a malformed '
                      'stream + direct oracle (Err/panic or C03-valid dump; well-formed input accepted)',
         'design_ref': 'DESIGN.md section 4, C19'}}
