"""Per-property configuration: Coq modules holding the theorems, correspondence families with
generators and case counts (quick, thorough), anchored source files."""

# family module name -> generator name -> (quick cases, thorough cases)
PROPS = {
    "C01": dict(
        coq=["Props.C01"],
        fams=[("fam_ans", "gen_stack", 600, 40000), ("fam_ans", "gen_free", 150, 5000)],
        anchors=["src/stream/stack.rs", "src/stream/mod.rs", "src/backends.rs", "src/lib.rs"],
        rule="ans history with >=1 decode and >=1 word flushed to bulk (observed in exported words / raw parts)",
        level_text="Machine-checked Coq theorems (unbounded: every state satisfying the documented invariant, every "
                   "Word/State width with State >= 2*Word, every PRECISION <= Word bits, every exactly invertible "
                   "model, every finite stack-disciplined history incl. reloads) about a Gallina model of "
                   "AnsCoder; the model is tied to the current source by a differential check (harness vs "
                   "vm_compute) on seeded histories incl. batch/reverse/fallible forms.",
        level_note="Trusted: Coq kernel + vm_compute; the hand-written model (Model/Ans.v) corresponds to "
                   "stack.rs only as far as the sampled correspondence shows; type menu of the harness; "
                   "no axioms (Closed under the global context). clone is the identity in a pure model.",
        technique="Coq proof (invariant + refinement to an abstract stack) + model/implementation correspondence",
        design_ref="DESIGN.md section 4, C01",
    ),
    "C04": dict(
        coq=["Props.C04"],
        fams=[("fam_ans", "gen_binary", 500, 30000), ("fam_ans", "gen_free", 100, 3000)],
        anchors=["src/stream/stack.rs", "src/lib.rs"],
        rule="from_binary data of >=1 word, >=1 symbol decoded and pushed back",
        level_text="Machine-checked Coq theorems: pop-then-push restores every valid coder (surjectivity), "
                   "from_binary of ANY word list is exported word for word by into_binary and get_binary "
                   "(trailing zero words included), num_valid_bits is exact, decoding is total; for all widths "
                   "and precisions. Tied to the source by the differential correspondence check.",
        level_note="Trusted: Coq kernel + vm_compute; hand-written model tied to stack.rs by sampled "
                   "correspondence; no axioms. The theorem is about the code after the fix: commit for F1.",
        technique="Coq proof (div/mod identities, induction over the word list) + correspondence",
        design_ref="DESIGN.md section 4, C04",
    ),
}

_PENDING = "not claimed yet: the model/theorems for this property are still being built (see DESIGN.md staging)"
NOT_APPLICABLE = {("C%02d" % i): _PENDING for i in range(1, 21)}
