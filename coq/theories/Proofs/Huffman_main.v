(* Proofs/Huffman_main.v -- the theorems of C15 / C20 (Huffman part), composed
   from weight list to code words.  Props/C15.v only restates them. *)
From CV Require Import Base.Bits Model.Huffman Proofs.Huffman_heap Proofs.Huffman_build
  Proofs.Huffman_code Proofs.Huffman_kraft.
From Coq Require Import Permutation.
Set Default Timeout 30.
Open Scope N_scope.

(* length of the codeword of s (0 for symbols that are rejected) *)
Definition code_len (en : list N) (s : N) : nat :=
  match enc_suffix en s with Ok bits => length bits | Err _ => O end.

Section Main.
  Variable W : Type.
  Variable wcmp : W -> W -> comparison.
  Variable wadd : W -> W -> option W.
  Variable wnan : W -> bool.
  Variable USZ : N.
  Notation enc_build := (enc_build W wcmp wadd wnan USZ).
  Notation dec_build := (dec_build W wcmp wadd wnan USZ).

  (* both trees were built from the weight list ws *)
  Definition built (ws : list W) (en : list N) (dn : list (N * N)) : Prop :=
    enc_build ws = Ok en /\ dec_build ws = Ok dn.

  Lemma built_tree ws en dn : built ws en dn ->
    tree_ok (N.of_nat (length ws)) dn /\ en = enc_of_merges (N.of_nat (length ws)) dn.
  Proof.
    intros [He Hd]. destruct (enc_build_ok _ _ _ _ _ _ _ He) as (ms & Hd' & T & ->).
    rewrite Hd in Hd'. inversion Hd'; subst. auto.
  Qed.

  Theorem main_roundtrip ws en dn s : built ws en dn -> s < N.of_nat (length ws) ->
    exists c, enc_prefix en s = Ok c /\ forall rest, dec_symbol dn (c ++ rest) = Ok (s, rest).
  Proof.
    intros B Hs. destruct (built_tree _ _ _ B) as (T & ->).
    destruct (prefix_total _ _ T s Hs) as (c & Hc). exists c. split; [exact Hc|].
    intros rest. apply (roundtrip_prefix _ _ T). exact Hc.
  Qed.

  Theorem main_roundtrip_stack ws en dn s : built ws en dn -> s < N.of_nat (length ws) ->
    exists c, enc_suffix en s = Ok c
      /\ forall stack, dec_symbol dn (fold_left bitstack_write c stack) = Ok (s, stack).
  Proof.
    intros B Hs. destruct (built_tree _ _ _ B) as (T & ->).
    destruct (suffix_total _ _ T s Hs) as (c & Hc). exists c. split; [exact Hc|].
    intros stack. apply (roundtrip_suffix_stack _ _ T). exact Hc.
  Qed.

  Theorem main_prefix_free ws en dn s s' c c' r : built ws en dn ->
    enc_prefix en s = Ok c -> enc_prefix en s' = Ok c' -> c' = c ++ r -> s = s' /\ r = [].
  Proof.
    intros B. destruct (built_tree _ _ _ B) as (T & ->). apply (prefix_free _ _ T).
  Qed.

  Theorem main_prefix_rev_suffix ws en dn s : built ws en dn ->
    enc_prefix en s = (bits <- enc_suffix en s ;; Ok (rev bits)).
  Proof. intros B. destruct (built_tree _ _ _ B) as (T & ->). apply prefix_is_rev_suffix. Qed.

  Theorem main_reject ws en dn s : built ws en dn -> N.of_nat (length ws) <= s ->
    enc_suffix en s = Err E_Impossible /\ enc_prefix en s = Err E_Impossible.
  Proof.
    intros B Hs. destruct (built_tree _ _ _ B) as (T & ->).
    split; [apply (suffix_reject _ _ T)|apply (prefix_reject _ _ T)]; exact Hs.
  Qed.

  Theorem main_kraft ws en dn (L : nat) : built ws en dn -> (length en <= L)%nat ->
    nsum (map (fun s => 2 ^ N.of_nat (L - code_len en s)) (nseq 0 (length ws))) = 2 ^ N.of_nat L.
  Proof.
    intros B HL. destruct (built_tree _ _ _ B) as (T & ->).
    set (n := N.of_nat (length ws)) in *.
    rewrite <- (kraft_eq n dn T L).
    - replace (N.to_nat n) with (length ws) by (unfold n; lia).
      f_equal. apply map_ext_in. intros s Hs. apply in_nseq in Hs.
      destruct (suffix_total _ _ T s ltac:(unfold n; lia)) as (bits & Hb).
      unfold code_len. rewrite Hb. rewrite (depth_is_code_length n dn s bits Hb). reflexivity.
    - intros v _. pose proof (depth_le n dn v). lia.
  Qed.

  Theorem main_num_symbols ws en dn : built ws en dn ->
    enc_num_symbols en = N.of_nat (length ws) /\ dec_num_symbols dn = N.of_nat (length ws).
  Proof.
    intros B. destruct (built_tree _ _ _ B) as (T & ->).
    split; [apply (enc_num_symbols_n _ _ T)|apply (dec_num_symbols_n _ _ T)].
  Qed.

  (* ---------- C20: every get_unchecked index is in bounds *)
  Theorem main_encode_total ws en dn s : built ws en dn ->
    (s < N.of_nat (length ws) -> exists bits, enc_suffix en s = Ok bits)
    /\ (N.of_nat (length ws) <= s -> enc_suffix en s = Err E_Impossible).
  Proof.
    intros B. destruct (built_tree _ _ _ B) as (T & ->).
    split; [apply (suffix_total _ _ T)|apply (suffix_reject _ _ T)].
  Qed.

  Theorem main_decode_total ws en dn src : built ws en dn ->
    (exists s rest, dec_symbol dn src = Ok (s, rest) /\ s < N.of_nat (length ws))
    \/ dec_symbol dn src = Err E_OutOfData.
  Proof. intros B. destruct (built_tree _ _ _ B) as (T & _). apply (dec_symbol_total _ _ T). Qed.
End Main.

(* ---------- the integer instance: N.compare is a total order *)
Lemma ncmp_sym a b : N.compare b a = CompOpp (N.compare a b).
Proof. apply N.compare_antisym. Qed.

Lemma ncmp_trans a b c : N.compare a b <> Gt -> N.compare b c <> Gt -> N.compare a c <> Gt.
Proof. rewrite !N.compare_le_iff. lia. Qed.

(* ---------- NaN weights are rejected by both constructors, and only they *)
Theorem main_nan W wcmp wadd wnan USZ (ws : list W) :
  (existsb wnan ws = true ->
     enc_build W wcmp wadd wnan USZ ws = Err E_NaN /\ dec_build W wcmp wadd wnan USZ ws = Err E_NaN)
  /\ (existsb wnan ws = false ->
     enc_build W wcmp wadd wnan USZ ws <> Err E_NaN /\ dec_build W wcmp wadd wnan USZ ws <> Err E_NaN).
Proof.
  split; intros H.
  - unfold enc_build, dec_build. rewrite H. auto.
  - assert (forall f h nodes next, enc_loop W wcmp wadd wnan USZ f h nodes next <> Err E_NaN) as He.
    { induction f as [|f IH]; intros h nodes next; cbn; [discriminate|].
      destruct (merge_step W wcmp wadd wnan h next) as [[[[i0 i1] h']|e]|] eqn:E; cbn; try discriminate.
      - unfold set_chk. destruct (i0 <? _); cbn; [|discriminate].
        destruct (i1 <? _); cbn; [|discriminate]. apply IH.
      - apply merge_step_err in E. destruct E as [-> | ->]; discriminate. }
    assert (forall f h nodes next, dec_loop W wcmp wadd wnan f h nodes next <> Err E_NaN) as Hd.
    { induction f as [|f IH]; intros h nodes next; cbn; [discriminate|].
      destruct (merge_step W wcmp wadd wnan h next) as [[[[i0 i1] h']|e]|] eqn:E; cbn; try discriminate.
      - apply IH.
      - apply merge_step_err in E. destruct E as [-> | ->]; discriminate. }
    unfold enc_build, dec_build. rewrite H.
    split; [destruct (_ || _); [discriminate|apply He]|destruct (_ || _); [discriminate|apply Hd]].
Qed.

(* ---------- cost = sum of the weights of the internal nodes (integer weights) *)
Theorem main_cost b USZ ws en dn :
  built N N.compare (nw_add b) nw_nan USZ ws en dn ->
  exists ss,
    sums_loop N.compare (nw_add b) nw_nan (S (length ws)) (enumerate N 0 ws) (N.of_nat (length ws)) = Ok ss
    /\ length ss = length dn
    /\ nsum (map (fun x => fst x * N.of_nat (code_len en (snd x))) (enumerate N 0 ws)) = nsum ss.
Proof.
  intros B. destruct (built_tree _ _ _ _ _ _ _ _ B) as (T & ->). destruct B as [_ Hd].
  destruct (cost_identity b USZ ws dn Hd) as (ss & Hs & Hl & Hc).
  exists ss. split; [exact Hs|]. split; [exact Hl|]. rewrite <- Hc. unfold hcost.
  f_equal. apply map_ext_in. intros [w i] Hi. cbn [fst snd]. f_equal. f_equal.
  assert (In i (idx (enumerate N 0 ws))) as Hin by (apply (in_map snd) in Hi; exact Hi).
  rewrite idx_enumerate in Hin. apply in_nseq in Hin.
  destruct (suffix_total _ _ T i ltac:(lia)) as (bits & Hb).
  unfold code_len. rewrite Hb. symmetry. apply (depth_is_code_length _ _ i bits Hb).
Qed.
