(* Proofs/Models_uniform.v -- UniformModel: exactly the ranges 2 .. 2^P are accepted (also at
   PRECISION = Probability::BITS), the accepted model equals its own symbol table, and that
   table is well-formed (heavier last bin included). *)
From CV Require Import Base.Bits Model.EModel Model.MBase Model.Uniform.
From CV Require Import Proofs.Table_lemmas Proofs.Models_base.
Open Scope N_scope.
Set Default Timeout 30.

Lemma div_sub_add a r : 0 < r -> r <= a -> (a - r) / r + 1 = a / r.
Proof.
  intros Hr Hle. replace a with ((a - r) + 1 * r) at 2 by lia.
  rewrite N.div_add by lia. reflexivity.
Qed.

(* the table a uniform model denotes *)
Definition uentry (T ppb last i : N) : Z * N * N :=
  (Z.of_N i, i * ppb, if i =? last then T - i * ppb else ppb).

Definition utable (T ppb last : N) (n : nat) : table := map (uentry T ppb last) (iotaN n).

Section Uniform.
  Variable c : mcfg.
  Hypothesis Hc : wf_mcfg_uniform c.
  Local Notation T := (2 ^ PR c).
  Local Notation M := (2 ^ PB c).

  Lemma uT_le_M : T <= M.
  Proof. apply pow2_le. apply Hc. Qed.
  Lemma uT_le_U : T <= 2 ^ UB c.
  Proof. apply pow2_le. apply Hc. Qed.

  (* ---------------------------------------------------------------- the constructor *)
  Lemma uniform_new_cases range :
    range < 2 ^ UB c ->
    (2 <= range <= T /\ uniform_new c range = Ok {| u_ppb := T / range; u_last := range - 1 |}) \/
    (~ (2 <= range <= T) /\ uniform_new c range = Fail E_PANIC).
  Proof.
    intros Hru. pose proof uT_le_M as HTM. pose proof uT_le_U as HTU.
    destruct Hc as [[HP0 HPle] HPU]. pose proof (pow2_pos (PR c)) as HTpos.
    unfold uniform_new.
    destruct (N.ltb_spec 1 range) as [H1|H1]; cbn [negb].
    2:{ right. split; [lia|reflexivity]. }
    unfold nonzero_unchecked. destruct (N.eqb_spec range 0) as [|_]; [lia|]. cbn [bind].
    unfold csub. destruct (N.leb_spec 1 range) as [_|]; [|lia]. cbn [bind].
    rewrite wsub_pow; [|exact HPle|clear - HTpos; lia|right; lia].
    destruct (N.le_gt_cases range T) as [Hle|Hgt].
    - (* accepted *)
      left. split; [lia|].
      assert (Hl : trunc (PB c) (range - 1) = range - 1) by (apply trunc_small; lia).
      rewrite Hl. rewrite (trunc_small (UB c) (range - 1)) by lia.
      destruct (N.leb_spec (range - 1) (T - 1)) as [_|]; [|lia]. rewrite N.eqb_refl. cbn [andb negb].
      pose proof (N.mul_div_le T range ltac:(lia)) as Hmd.
      assert (Hq1 : 1 <= T / range) by (apply N.div_le_lower_bound; lia).
      assert (Hq2 : T / range <= T / 2) by (apply N.div_le_compat_l; lia).
      assert (Hhalf : T / 2 < T) by (apply N.div_lt; lia).
      destruct (N.eqb_spec (PR c) (PB c)) as [Heq|Hne].
      + rewrite wsub_pow; [|exact HPU|exact Hle|right; lia].
        assert (Hq : (T - range) / range + 1 = T / range) by (apply div_sub_add; lia).
        rewrite (trunc_small (PB c) ((T - range) / range)) by (rewrite <- Heq; lia).
        unfold cadd. rewrite Hq.
        destruct (N.ltb_spec (T / range) M) as [_|]; [|rewrite <- Heq in *; lia]. cbn [bind].
        destruct (N.eqb_spec (T / range) 0) as [|_]; [lia|]. reflexivity.
      + unfold cshl1. destruct (N.ltb_spec (PR c) (PB c)) as [Hlt|]; [|lia]. cbn [bind].
        assert (HTltM : T < M) by (apply pow2_lt; exact Hlt).
        rewrite (trunc_small (PB c) range) by lia.
        unfold cdiv. destruct (N.eqb_spec range 0) as [|_]; [lia|]. cbn [bind].
        unfold into_nonzero. destruct (N.eqb_spec (T / range) 0) as [|_]; [lia|]. reflexivity.
    - (* rejected: the narrowed last symbol is too large or does not convert back *)
      right. split; [lia|].
      assert (Hcond : (trunc (PB c) (range - 1) <=? T - 1) &&
                      (trunc (UB c) (trunc (PB c) (range - 1)) =? range - 1) = false).
      { apply andb_false_iff.
        destruct (N.leb_spec (trunc (PB c) (range - 1)) (T - 1)) as [Hb|]; [right|left; reflexivity].
        apply N.eqb_neq. intros Heq.
        assert (trunc (UB c) (trunc (PB c) (range - 1)) <= trunc (PB c) (range - 1)).
        { unfold trunc at 1. apply N.mod_le. apply pow2_nz. }
        lia. }
      rewrite Hcond. reflexivity.
  Qed.

  Theorem uniform_new_iff range m :
    range < 2 ^ UB c ->
    (uniform_new c range = Ok m <->
     2 <= range <= T /\ m = {| u_ppb := T / range; u_last := range - 1 |}).
  Proof.
    intros Hru. destruct (uniform_new_cases range Hru) as [[Hr Ho]|[Hr Hf]]; rewrite ?Ho, ?Hf.
    - split; [intros H; inversion H; auto|intros [_ ->]; reflexivity].
    - split; [discriminate|intros [? _]; contradiction].
  Qed.

  Theorem uniform_new_reject range e :
    range < 2 ^ UB c -> uniform_new c range = Fail e -> e = E_PANIC /\ ~ (2 <= range <= T).
  Proof.
    intros Hru H. destruct (uniform_new_cases range Hru) as [[Hr Ho]|[Hr Hf]]; [congruence|].
    rewrite Hf in H. inversion H. auto.
  Qed.
End Uniform.

(* ------------------------------------------------------------------ the accepted model *)
Lemma mapM_map_ok {A B} (f : A -> res B) (g : A -> B) l :
  (forall x, In x l -> f x = Ok (g x)) -> mapM f l = Ok (map g l).
Proof.
  induction l as [|x r IH]; intros H; cbn [mapM map]; [reflexivity|].
  rewrite (H x) by (left; reflexivity). cbn [bind]. rewrite IH by (intros y Hy; apply H; right; exact Hy).
  reflexivity.
Qed.

Section UniformQueries.
  Variable c : mcfg.
  Hypothesis Hc : wf_mcfg_uniform c.
  Variable range : N.
  Hypothesis Hr2 : 2 <= range.
  Hypothesis HrT : range <= 2 ^ PR c.
  Hypothesis HrU : range < 2 ^ UB c.
  Local Notation T := (2 ^ PR c).
  Local Notation M := (2 ^ PB c).
  Local Notation ppb := (2 ^ PR c / range).
  Local Notation last := (range - 1).
  Local Notation m := {| u_ppb := 2 ^ PR c / range; u_last := range - 1 |}.
  Local Notation nn := (N.to_nat range).
  Local Notation t := (utable (2 ^ PR c) (2 ^ PR c / range) (range - 1) (N.to_nat range)).

  Lemma u_facts : 1 <= ppb /\ range * ppb <= T /\ last * ppb < T /\ T <= M /\ T <= 2 ^ UB c /\ T < range * (ppb + 1).
  Proof.
    pose proof (uT_le_M c Hc). pose proof (uT_le_U c Hc).
    pose proof (N.mul_div_le T range ltac:(lia)) as Hmd.
    pose proof (N.mul_succ_div_gt T range ltac:(lia)) as Hsd.
    assert (1 <= ppb) by (apply N.div_le_lower_bound; lia).
    repeat split; try lia; nia.
  Qed.

  Lemma utable_nth i : (i < nn)%nat -> nth_error t i = Some (uentry T ppb last (N.of_nat i)).
  Proof.
    intros Hi. unfold utable, iotaN. rewrite map_map, nth_error_map.
    rewrite nth_error_nth' with (d := O) by (rewrite seq_length; exact Hi).
    rewrite seq_nth by exact Hi. reflexivity.
  Qed.

  Lemma utable_length : length t = nn.
  Proof. unfold utable, iotaN. rewrite !map_length, seq_length. reflexivity. Qed.

  Lemma utable_syms : syms t = map Z.of_nat (seq 0 nn).
  Proof.
    unfold syms, utable, iotaN. rewrite !map_map. apply map_ext. intros a. cbn. apply nat_N_Z.
  Qed.

  Lemma utable_tiles_from : forall cnt k, (k + S cnt = nn)%nat ->
    tiles (N.of_nat k * ppb) T (map (uentry T ppb last) (map N.of_nat (seq k (S cnt)))).
  Proof.
    destruct u_facts as (F1 & F2 & F3 & _).
    induction cnt as [|cnt IH]; intros k Hk.
    - cbn [seq map tiles uentry]. assert (N.of_nat k = last) as -> by dlia.
      rewrite N.eqb_refl. split; [reflexivity|]. split; [dlia|]. dlia.
    - change (seq k (S (S cnt))) with (k :: seq (S k) (S cnt)). cbn [map tiles uentry].
      destruct (N.eqb_spec (N.of_nat k) last) as [|_]; [dlia|].
      split; [reflexivity|]. split; [dlia|].
      replace (N.of_nat k * ppb + ppb) with (N.of_nat (S k) * ppb) by dlia.
      apply IH. dlia.
  Qed.

  Lemma utable_wf : wf_table (PR c) t.
  Proof.
    unfold wf_table. split; [apply Hc|]. split; [|split].
    - unfold utable, iotaN. destruct nn as [|n'] eqn:En; [dlia|].
      pose proof (utable_tiles_from n' 0 ltac:(lia)) as H. rewrite N.mul_0_l in H. exact H.
    - rewrite utable_syms. apply NoDup_seq_Z.
    - rewrite utable_length. dlia.
  Qed.

  Lemma utable_enc s :
    tbl_enc t (Z.of_N s) =
    if s <? range then Some (s * ppb, if s =? last then T - s * ppb else ppb) else None.
  Proof.
    destruct (N.ltb_spec s range) as [Hlt|Hge].
    - eapply tbl_enc_nth with (i := N.to_nat s).
      + rewrite utable_syms. apply NoDup_seq_Z.
      + rewrite utable_nth by dlia. unfold uentry. rewrite N2Nat.id. reflexivity.
    - apply tbl_enc_notin. rewrite utable_syms. intros Hin. apply in_map_iff in Hin.
      destruct Hin as (j & Hj & Hin). apply in_seq in Hin. dlia.
  Qed.

  Theorem uniform_table_spec : uniform_table c m = Ok t.
  Proof.
    destruct u_facts as (F1 & F2 & F3 & F4 & F5 & F6).
    unfold uniform_table. cbn [u_last u_ppb].
    rewrite (trunc_small (UB c) last) by dlia.
    unfold cadd. replace (last + 1) with range by dlia.
    destruct (N.ltb_spec range (2 ^ UB c)) as [_|]; [|dlia]. cbn [bind].
    unfold utable. apply mapM_map_ok. intros i Hi.
    unfold iotaN in Hi. apply in_map_iff in Hi. destruct Hi as (j & <- & Hj). apply in_seq in Hj.
    unfold uniform_table_entry, nz_get, nonzero_unchecked. cbn [u_ppb].
    destruct (N.eqb_spec ppb 0) as [|_]; [dlia|]. cbn [bind].
    assert (Hjl : N.of_nat j <= last) by dlia.
    rewrite (trunc_small (PB c) (N.of_nat j)) by dlia.
    assert (Hmul : N.of_nat j * ppb <= last * ppb) by (apply N.mul_le_mono_r; exact Hjl).
    unfold cmul. destruct (N.ltb_spec (N.of_nat j * ppb) M) as [_|]; [|dlia]. cbn [bind].
    unfold uentry. destruct (N.eqb_spec (N.of_nat j) last) as [Hl|Hl]; cbn [negb bind].
    - rewrite wsub_pow; [|apply Hc|dlia|right; rewrite Hl; dnia].
      destruct (N.eqb_spec (T - N.of_nat j * ppb) 0) as [|_]; [dlia|]. reflexivity.
    - reflexivity.
  Qed.

  Theorem uniform_lcp_spec s : s < 2 ^ UB c -> uniform_lcp c m s = Ok (tbl_enc t (Z.of_N s)).
  Proof.
    intros Hs. destruct u_facts as (F1 & F2 & F3 & F4 & F5 & F6).
    rewrite utable_enc. unfold uniform_lcp. cbn [u_last u_ppb].
    destruct (N.lt_ge_cases s M) as [HsM|HsM].
    - rewrite (trunc_small (PB c) s) by exact HsM.
      destruct (N.ltb_spec s (2 ^ UB c)) as [_|]; [|dlia]. rewrite N.eqb_refl. cbn [andb negb].
      unfold nz_get, nonzero_unchecked. destruct (N.eqb_spec ppb 0) as [|_]; [dlia|]. cbn [bind].
      destruct (N.ltb_spec s last) as [Hlt|Hge].
      + assert (s * ppb <= last * ppb) by (apply N.mul_le_mono_r; dlia).
        unfold wmul. rewrite trunc_small by dlia.
        destruct (N.ltb_spec s range) as [_|]; [|dlia]. destruct (N.eqb_spec s last) as [|_]; [dlia|]. reflexivity.
      + destruct (N.eqb_spec s last) as [->|Hne].
        * unfold wmul. rewrite trunc_small by dlia.
          rewrite wsub_pow; [|apply Hc|dlia|right; dnia].
          destruct (N.eqb_spec (T - last * ppb) 0) as [|_]; [dlia|]. cbn [bind].
          destruct (N.ltb_spec last range) as [_|]; [|dlia]. reflexivity.
        * destruct (N.ltb_spec s range) as [|_]; [dlia|]. reflexivity.
    - (* the symbol does not survive narrowing to Probability: out of range, never aliased *)
      assert (Hne : trunc (PB c) s <> s) by (pose proof (trunc_lt (PB c) s); dlia).
      destruct (N.eqb_spec (trunc (PB c) s) s) as [|_]; [contradiction|].
      rewrite andb_false_r. cbn [negb].
      destruct (N.ltb_spec s range) as [|_]; [dlia|]. reflexivity.
  Qed.

  Theorem uniform_quant_spec q : q < T ->
    uniform_quant c m q >>= (fun '(s, cu, p) => Ok (Z.of_N s, cu, p)) = Ok (tbl_dec t q).
  Proof.
    intros Hq. destruct u_facts as (F1 & F2 & F3 & F4 & F5 & F6).
    pose proof (table_model_wf _ _ utable_wf) as [_ Wenc _]. cbn [em_enc em_dec em_prec table_model] in Wenc.
    unfold uniform_quant. cbn [u_last u_ppb].
    unfold nz_get, nonzero_unchecked. destruct (N.eqb_spec ppb 0) as [|_]; [dlia|]. cbn [bind].
    unfold cdiv, cmod. destruct (N.eqb_spec ppb 0) as [|_]; [dlia|]. cbn [bind].
    pose proof (N.div_mod q ppb ltac:(lia)) as Hdm. pose proof (N.mod_lt q ppb ltac:(lia)) as Hml.
    destruct (N.ltb_spec (q / ppb) last) as [Hlt|Hge].
    - unfold csub. destruct (N.leb_spec (q mod ppb) q) as [_|]; [|dlia]. cbn [bind].
      rewrite (trunc_small (UB c) (q / ppb)) by dlia.
      assert (Henc : tbl_enc t (Z.of_N (q / ppb)) = Some (q - q mod ppb, ppb)).
      { rewrite utable_enc. destruct (N.ltb_spec (q / ppb) range) as [_|]; [|dlia].
        destruct (N.eqb_spec (q / ppb) last) as [|_]; [dlia|]. f_equal. f_equal. dlia. }
      destruct (Wenc _ _ _ Henc) as (_ & _ & Hdec). rewrite Hdec by dlia. reflexivity.
    - assert (Hll : last * ppb <= q).
      { assert (last * ppb <= (q / ppb) * ppb) by (apply N.mul_le_mono_r; exact Hge). dlia. }
      unfold cmul. destruct (N.ltb_spec (last * ppb) M) as [_|]; [|dlia]. cbn [bind].
      rewrite wsub_pow; [|apply Hc|dlia|right; dnia].
      destruct (N.eqb_spec (T - last * ppb) 0) as [|_]; [dlia|]. cbn [bind].
      rewrite (trunc_small (UB c) last) by dlia.
      assert (Henc : tbl_enc t (Z.of_N last) = Some (last * ppb, T - last * ppb)).
      { rewrite utable_enc. destruct (N.ltb_spec last range) as [_|]; [|dlia].
        rewrite N.eqb_refl. reflexivity. }
      destruct (Wenc _ _ _ Henc) as (_ & _ & Hdec). rewrite Hdec by dlia. reflexivity.
  Qed.
End UniformQueries.
