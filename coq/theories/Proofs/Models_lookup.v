(* Proofs/Models_lookup.v -- lookup decoder models: the resize-built table maps every quantile
   below 2^P to the index of the interval that contains it, so the lookup decoder equals the
   searched decoder; every get_unchecked index is in bounds. *)
From CV Require Import Base.Bits Model.EModel Model.MBase Model.Tables Model.Lookup.
From CV Require Import Proofs.Table_lemmas Proofs.Models_base Proofs.Models_validator Proofs.Models_tables
  Proofs.Models_ctor.
Open Scope N_scope.
Set Default Timeout 30.

(* the lookup table of a probability list: p_i copies of (the narrowed) index i *)
Fixpoint blocks (c : mcfg) (i : N) (ps : list N) : list N :=
  match ps with
  | [] => []
  | p :: r => repeat (trunc (PB c) i) (N.to_nat p) ++ blocks c (i + 1) r
  end.

Lemma blocks_length c i ps : lenN (blocks c i ps) = sumN ps.
Proof.
  unfold lenN. revert i. induction ps as [|p r IH]; intros i; cbn [blocks sumN length]; [reflexivity|].
  rewrite app_length, repeat_length, Nat2N.inj_add, IH. lia.
Qed.

Lemma blocks_app c i a b : blocks c i (a ++ b) = blocks c i a ++ blocks c (i + lenN a) b.
Proof.
  revert i. induction a as [|p r IH]; intros i; cbn [app blocks].
  - unfold lenN. cbn. rewrite N.add_0_r. reflexivity.
  - rewrite IH, <- app_assoc. rewrite lenN_cons. f_equal. f_equal. f_equal. lia.
Qed.

Lemma resize_grow {A} (l : list A) (k : N) v : resize l (lenN l + k) v = l ++ repeat v (N.to_nat k).
Proof.
  unfold resize. destruct (N.leb_spec (lenN l + k) (lenN l)) as [Hle|Hgt].
  - assert (k = 0) by lia. subst. rewrite N.add_0_r. unfold lenN. rewrite Nat2N.id, firstn_all.
    cbn. rewrite app_nil_r. reflexivity.
  - f_equal. f_equal. lia.
Qed.

Lemma pp_cums_gt q S ps : q < S -> partition_point (fun x => x <=? q) (cums S ps) = O.
Proof. intros H. destruct ps; cbn [cums partition_point]; [reflexivity|]. destruct (N.leb_spec S q); [lia|reflexivity]. Qed.

(* entry q - S of the table is the (narrowed) index of the interval containing q *)
Lemma blocks_nth c : forall ps i S q,
  all_pos ps -> S <= q < S + sumN ps ->
  exists k, partition_point (fun x => x <=? q) (cums S ps) = Datatypes.S k /\
            nth_error (blocks c i ps) (N.to_nat (q - S)) = Some (trunc (PB c) (i + N.of_nat k)).
Proof.
  induction ps as [|p r IH]; intros i S q Hpos Hq; cbn [sumN] in Hq; [lia|].
  inversion Hpos as [|? ? Hp Hpos']; subst. cbn [cums partition_point blocks].
  destruct (N.leb_spec S q) as [_|]; [|lia].
  destruct (N.lt_ge_cases q (S + p)) as [Hlt|Hge].
  - exists O. rewrite pp_cums_gt by exact Hlt. split; [reflexivity|].
    rewrite nth_error_app1 by (rewrite repeat_length; lia).
    rewrite N.add_0_r. apply nth_error_repeat. lia.
  - destruct (IH (i + 1) (S + p) q Hpos' ltac:(lia)) as (k & Hpp & Hn).
    exists (Datatypes.S k). rewrite Hpp. split; [reflexivity|].
    rewrite nth_error_app2 by (rewrite repeat_length; lia). rewrite repeat_length.
    replace (N.to_nat (q - S) - N.to_nat p)%nat with (N.to_nat (q - (S + p))) by lia.
    rewrite Hn. f_equal. f_equal. lia.
Qed.

(* ------------------------------------------------------------------ ideal runs of the closures *)
Section Runs.
  Variable c : mcfg.
  Hypothesis Hc : wf_mcfg_lookup c.
  Local Notation T := (2 ^ PR c).
  Local Notation M := (2 ^ PB c).

  Lemma lk_T_le_M : T <= M.
  Proof. apply pow2_le. apply Hc. Qed.
  Lemma lk_T_lt_U : T < 2 ^ UB c.
  Proof. apply pow2_lt. apply Hc. Qed.

  Lemma fold_lkc : forall ps cdf tbl S,
    all_pos ps -> lenN tbl = S -> S + sumN ps <= T ->
    fold_op (lkc_op c) (cdf, tbl) SInf S ps =
    Ok (SInf, (cdf ++ cums S ps, tbl ++ blocks c (lenN cdf) ps)).
  Proof.
    pose proof lk_T_le_M as HTM. pose proof lk_T_lt_U as HTU.
    induction ps as [|p r IH]; intros cdf tbl S Hpos Hlen Hsum; cbn [fold_op cums blocks].
    - rewrite !app_nil_r. reflexivity.
    - inversion Hpos as [|? ? Hp Hpos']; subst. cbn [sumN] in Hsum. cbn [src_next].
      unfold lkc_op at 1. rewrite (trunc_small (PB c) (lenN tbl)) by lia.
      unfold cadd. destruct (N.ltb_spec (lenN tbl + p) (2 ^ UB c)) as [_|]; [|lia]. cbn [bind].
      rewrite resize_grow.
      rewrite IH; [|exact Hpos'| |lia].
      2:{ rewrite lenN_app. unfold lenN at 2. rewrite repeat_length. lia. }
      rewrite <- !app_assoc. cbn [app]. rewrite lenN_app. unfold lenN at 3. cbn [length].
      reflexivity.
  Qed.

  Lemma fold_lkn : forall ps (cdf : list (N * Z)) tbl S l,
    all_pos ps -> lenN tbl = S -> S + sumN ps <= T ->
    fold_op (fun st s (_ : N) p => lkn_push c st s p) (cdf, tbl) (SList l) S ps =
    if (length ps <=? length l)%nat
    then Ok (SList (skipn (length ps) l),
             (cdf ++ combine (cums S ps) (firstn (length ps) l), tbl ++ blocks c (lenN cdf) ps))
    else Fail E_ERR.
  Proof.
    pose proof lk_T_le_M as HTM. pose proof lk_T_lt_U as HTU.
    induction ps as [|p r IH]; intros cdf tbl S l Hpos Hlen Hsum; cbn [fold_op cums blocks length].
    - cbn. rewrite !app_nil_r. reflexivity.
    - inversion Hpos as [|? ? Hp Hpos']; subst. cbn [sumN] in Hsum.
      destruct l as [|x l]; cbn [src_next length]; [reflexivity|].
      unfold lkn_push at 1. rewrite (trunc_small (PB c) (lenN tbl)) by lia.
      unfold cadd. destruct (N.ltb_spec (lenN tbl + p) (2 ^ UB c)) as [_|]; [|lia]. cbn [bind].
      rewrite resize_grow.
      rewrite IH; [|exact Hpos'| |lia].
      2:{ rewrite lenN_app. unfold lenN at 2. rewrite repeat_length. lia. }
      change (Datatypes.S (length r) <=? Datatypes.S (length l))%nat with (length r <=? length l)%nat.
      destruct (length r <=? length l)%nat; [|reflexivity].
      cbn [skipn firstn combine]. rewrite <- !app_assoc. cbn [app]. rewrite lenN_app.
      unfold lenN at 3. cbn [length]. reflexivity.
  Qed.
End Runs.

(* ------------------------------------------------------------------ the canonical lookup models *)
Definition lkc_of (c : mcfg) (probs : list N) : lkc :=
  {| lkc_table := blocks c 0 probs; lkc_cdf := cdf_of c probs |}.

Definition lkn_of (c : mcfg) (ss : list Z) (probs : list N) : lkn :=
  {| lkn_table := blocks c 0 probs; lkn_cdf := ecdf c ss probs (last ss 0%Z) |}.

Section LkValid.
  Variable c : mcfg.
  Hypothesis Hc : wf_mcfg_lookup c.
  Variable probs : list N.
  Hypothesis Hv : valid_probs (PR c) probs.
  Local Notation T := (2 ^ PR c).
  Local Notation M := (2 ^ PB c).
  Local Notation nn := (length probs).

  Lemma lk_n_le_T : N.of_nat nn <= T.
  Proof. destruct Hv as (Hpos & Hsum & _). rewrite <- Hsum. apply all_pos_len_le. exact Hpos. Qed.

  Lemma lk_check q : q < T ->
    (if PB c =? PR c then Ok tt
     else cshl1 (PB c) (PR c) >>= fun lim => if q <? lim then Ok tt else Fail E_PANIC) = Ok tt.
  Proof.
    intros Hq. destruct (N.eqb_spec (PB c) (PR c)) as [|Hne]; [reflexivity|].
    destruct Hc as [[HP0 HPle] _]. unfold cshl1.
    destruct (N.ltb_spec (PR c) (PB c)) as [_|]; [|lia]. cbn [bind].
    destruct (N.ltb_spec q T) as [_|]; [reflexivity|lia].
  Qed.

  (* the table entry for q, and the two cdf entries around it *)
  Lemma lk_index ss q : length ss = nn -> q < T ->
    exists k s p,
      nth_N (blocks c 0 probs) q = Some (N.of_nat k) /\
      nth_error ss k = Some s /\ nth_error probs k = Some p /\
      tbl_dec (table_of 0 ss probs) q = (s, sumN (firstn k probs), p).
  Proof.
    intros Hss Hq. destruct Hv as (Hpos & Hsum & Hlen).
    destruct (search_spec c probs Hv ss q Hss) as (k & s & p & Hpp & Hs & Hp & Hdec).
    destruct (blocks_nth c probs 0 0 q Hpos ltac:(lia)) as (k' & Hpp' & Hn).
    rewrite Hpp in Hpp'. inversion Hpp'; subst k'.
    exists k, s, p. split; [|auto].
    unfold nth_N. fold (lenN (blocks c 0 probs)). rewrite blocks_length, Hsum.
    destruct (N.ltb_spec q T) as [_|]; [|lia].
    rewrite N.sub_0_r in Hn. rewrite Hn, N.add_0_l. f_equal. apply trunc_small.
    assert (k < nn)%nat by (apply nth_error_Some; congruence).
    pose proof lk_n_le_T. pose proof (lk_T_le_M c Hc). lia.
  Qed.

  Theorem lkc_quant_spec q : q < T ->
    lkc_quant c (lkc_of c probs) q >>= (fun '(s, cu, p) => Ok (Z.of_N s, cu, p))
    = Ok (tbl_dec (table_of 0 (iotaZ nn) probs) q).
  Proof.
    intros Hq. unfold lkc_quant. rewrite (lk_check q Hq). cbn [bind lkc_of lkc_table lkc_cdf].
    destruct (lk_index (iotaZ nn) q (iotaZ_length nn) Hq) as (k & s & p & Hn & Hs & Hp & Hdec).
    unfold get_unchecked at 1. rewrite Hn. cbn [bind].
    destruct (cdf_diff c probs (proj1 Hc) Hv k p Hp) as (Hl & rgt & Hr & Hd & Hp0).
    rewrite (get_unchecked_nat _ _ _ _ Hl). cbn [bind].
    assert (Hk : (k < nn)%nat) by (apply nth_error_Some; congruence).
    pose proof lk_n_le_T as HnT. pose proof (lk_T_lt_U c Hc) as HTU.
    unfold cadd. destruct (N.ltb_spec (N.of_nat k + 1) (2 ^ UB c)) as [_|]; [|lia]. cbn [bind].
    replace (N.of_nat k + 1) with (N.of_nat (S k)) by lia.
    rewrite (get_unchecked_nat _ _ _ _ Hr). cbn [bind].
    rewrite Hd. unfold nonzero_unchecked. destruct (N.eqb_spec p 0) as [|_]; [lia|]. cbn [bind].
    rewrite Hdec. f_equal. f_equal. f_equal.
    unfold iotaZ in Hs. rewrite seq_map_nth in Hs by exact Hk. inversion Hs. apply nat_N_Z.
  Qed.

  Variable ss : list Z.
  Hypothesis Hss : length ss = nn.

  Theorem lkn_quant_spec q : q < T ->
    lkn_quant c (lkn_of c ss probs) q = Ok (tbl_dec (table_of 0 ss probs) q).
  Proof.
    intros Hq. unfold lkn_quant. rewrite (lk_check q Hq). cbn [bind lkn_of lkn_table lkn_cdf].
    destruct (lk_index ss q Hss Hq) as (k & s & p & Hn & Hs & Hp & Hdec).
    unfold get_unchecked at 1. rewrite Hn. cbn [bind].
    destruct (cdf_diff c probs (proj1 Hc) Hv k p Hp) as (Hl & rgt & Hr & Hd & Hp0).
    pose proof (ecdf_nth c probs ss Hss k s p Hs Hp) as Hlk.
    rewrite (get_unchecked_nat _ _ _ _ Hlk). cbn [bind].
    assert (Hk : (k < nn)%nat) by (apply nth_error_Some; congruence).
    pose proof lk_n_le_T as HnT. pose proof (lk_T_lt_U c Hc) as HTU.
    unfold cadd. destruct (N.ltb_spec (N.of_nat k + 1) (2 ^ UB c)) as [_|]; [|lia]. cbn [bind].
    replace (N.of_nat k + 1) with (N.of_nat (S k)) by lia.
    assert (Hr' : exists sx, nth_error (ecdf c ss probs (last ss 0%Z)) (S k) = Some (rgt, sx)).
    { pose proof (ecdf_fst c probs ss Hss) as Hf. rewrite <- Hf in Hr. rewrite nth_error_map in Hr.
      destruct (nth_error (ecdf c ss probs (last ss 0%Z)) (S k)) as [[a b]|]; [|discriminate].
      cbn in Hr. inversion Hr. eauto. }
    destruct Hr' as (sx & Hr'). rewrite (get_unchecked_nat _ _ _ _ Hr'). cbn [bind fst].
    rewrite Hd. unfold nonzero_unchecked. destruct (N.eqb_spec p 0) as [|_]; [lia|]. cbn [bind].
    rewrite Hdec. reflexivity.
  Qed.
End LkValid.

(* ------------------------------------------------------------------ constructors *)
Section LkCtor.
  Variable c : mcfg.
  Hypothesis Hc : wf_mcfg_lookup c.
  Local Notation M := (2 ^ PB c).

  Theorem lkc_from_probs_iff probs infer m :
    Forall (fun p => p < M) probs ->
    (lkc_from_probs c probs infer = Ok m <->
     valid_probs (PR c) (full_probs c probs infer) /\ m = lkc_of c (full_probs c probs infer)).
  Proof.
    intros HF. unfold lkc_from_probs. set (full := full_probs c probs infer).
    assert (Hrun : valid_probs (PR c) full ->
              accumulate c (lkc_op c) probs SInf infer ([], []) = Ok (SInf, (cums 0 full, blocks c 0 full))).
    { intros Hv. rewrite (accumulate_valid_eq c _ (proj1 Hc) _ _ _ _ Hv). fold full.
      destruct Hv as (Hpos & Hsum & _).
      rewrite (fold_lkc c Hc full [] [] 0 Hpos eq_refl ltac:(lia)). reflexivity. }
    split.
    - intros H. inv_bind H. destruct a as [sy [cdf tbl]].
      pose proof (accumulate_accepts_valid c _ (proj1 Hc) _ _ _ _ _ HF Ha) as Hv. fold full in Hv.
      rewrite (Hrun Hv) in Ha. inversion Ha; subst. inversion H. split; [exact Hv|reflexivity].
    - intros [Hv ->]. rewrite (Hrun Hv). reflexivity.
  Qed.

  Lemma lkn_from_probs_valid ss probs infer :
    valid_probs (PR c) (full_probs c probs infer) ->
    lkn_from_probs c ss probs infer =
    if (length (full_probs c probs infer) =? length ss)%nat
    then Ok (lkn_of c ss (full_probs c probs infer)) else Fail E_ERR.
  Proof.
    intros Hv. unfold lkn_from_probs. set (full := full_probs c probs infer) in *.
    rewrite (accumulate_valid_eq c _ (proj1 Hc) _ _ _ _ Hv). fold full.
    destruct Hv as (Hpos & Hsum & Hl).
    rewrite (fold_lkn c Hc full [] [] 0 ss Hpos eq_refl ltac:(lia)). cbn [app].
    destruct (Nat.leb_spec (length full) (length ss)) as [Hle|Hgt].
    2:{ destruct (Nat.eqb_spec (length full) (length ss)); [lia|reflexivity]. }
    cbn [bind]. unfold lkn_close, ncdec_close.
    assert (Hne : combine (cums 0 full) (firstn (length full) ss) <> []).
    { destruct full as [|p r]; [cbn in Hl; lia|]. destruct ss; [cbn in Hle; lia|]. discriminate. }
    rewrite (last_opt_last _ (0, 0%Z) Hne).
    destruct (Nat.eqb_spec (length full) (length ss)) as [Heq|Hne'].
    - rewrite Heq, firstn_all, skipn_all.
      assert (Hlen : length (cums 0 full) = length ss) by (rewrite cums_length; exact Heq).
      pose proof (last_combine_snd (cums 0 full) ss 0 0%Z Hlen) as Hls.
      destruct (last (combine (cums 0 full) ss) (0, 0%Z)) as [lc ls]. cbn [snd] in Hls. subst ls.
      cbn [bind src_next]. reflexivity.
    - destruct (last _ (0, 0%Z)) as [lc ls]. cbn [bind].
      assert (Hsk : skipn (length full) ss <> []).
      { intros E. apply (f_equal (@length Z)) in E. rewrite skipn_length in E. cbn in E. lia. }
      destruct (skipn (length full) ss); [contradiction|]. reflexivity.
  Qed.

  Theorem lkn_from_probs_iff ss probs infer m :
    Forall (fun p => p < M) probs ->
    (lkn_from_probs c ss probs infer = Ok m <->
     valid_probs (PR c) (full_probs c probs infer) /\
     length ss = length (full_probs c probs infer) /\
     m = lkn_of c ss (full_probs c probs infer)).
  Proof.
    intros HF. split.
    - intros H.
      assert (Hv : valid_probs (PR c) (full_probs c probs infer)).
      { unfold lkn_from_probs in H. inv_bind H. eapply accumulate_accepts_valid; eauto. apply Hc. }
      rewrite (lkn_from_probs_valid ss probs infer Hv) in H.
      destruct (Nat.eqb_spec (length (full_probs c probs infer)) (length ss)); [|discriminate].
      inversion H. split; [exact Hv|]. split; [lia|reflexivity].
    - intros (Hv & Hlen & ->). rewrite (lkn_from_probs_valid ss probs infer Hv).
      destruct (Nat.eqb_spec (length (full_probs c probs infer)) (length ss)); [reflexivity|lia].
  Qed.
End LkCtor.
