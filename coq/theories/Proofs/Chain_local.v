(* Proofs/Chain_local.v -- C14: chain decoding is local.  The quantile stream is a
   function of the compressed backend and the bit buffer alone ([chain_chunks]);
   the models and the remainders head never feed back into it. *)
From CV Require Import Base.Bits Model.EModel Model.Chain Proofs.Chain_bits.
From Coq Require Import ZifyBool ZifyN.
Open Scope N_scope.
Set Default Timeout 30.

(* ---------- list facts about the specification functions ---------- *)
Lemma nth_error_tl {A} (l : list A) i : nth_error (tl l) i = nth_error l (S i).
Proof. destruct l; [destruct i; reflexivity|reflexivity]. Qed.

Lemma hd_error_nth {A} (l : list A) : hd_error l = nth_error l 0.
Proof. destruct l; reflexivity. Qed.

Lemma local_outputs_nth ms : forall chs i,
  nth_error (local_outputs ms chs) i =
  match nth_error ms i with
  | Some m => Some (sym_at m (nth_error chs i))
  | None => None
  end.
Proof.
  induction ms as [|m r IH]; intros chs i; cbn [local_outputs].
  - destruct i; reflexivity.
  - destruct i as [|i]; cbn [nth_error].
    + rewrite hd_error_nth. reflexivity.
    + rewrite IH, nth_error_tl. reflexivity.
Qed.

Lemma local_outputs_length ms : forall chs, length (local_outputs ms chs) = length ms.
Proof. induction ms as [|m r IH]; intros chs; cbn; [reflexivity|]. rewrite IH. reflexivity. Qed.

Lemma pad_chunks_nth n : forall chs i, (i < n)%nat ->
  nth_error (pad_chunks n chs) i = Some (nth_error chs i).
Proof.
  induction n as [|n IH]; intros chs i Hi; [lia|]. cbn [pad_chunks].
  destruct i as [|i]; cbn [nth_error].
  - rewrite hd_error_nth. reflexivity.
  - rewrite IH by lia. rewrite nth_error_tl. reflexivity.
Qed.

Lemma sym_at_err m oq : (exists e, sym_at m oq = Err e) <-> oq = None.
Proof.
  destruct oq; cbn; split.
  - intros [e H]; discriminate.
  - discriminate.
  - reflexivity.
  - eauto.
Qed.

(* running out of data at position i: decided by the number of chunks alone *)
Lemma local_outputs_err ms chs i :
  is_err (nth_error (local_outputs ms chs) i) = true <-> (i < length ms)%nat /\ (length chs <= i)%nat.
Proof.
  rewrite local_outputs_nth.
  destruct (nth_error ms i) as [m|] eqn:Em.
  - assert (Hi : (i < length ms)%nat) by (apply nth_error_Some; congruence).
    destruct (nth_error chs i) as [q|] eqn:Eq; cbn.
    + assert ((i < length chs)%nat) by (apply nth_error_Some; congruence).
      split; [discriminate|lia].
    + apply nth_error_None in Eq. split; auto.
  - apply nth_error_None in Em. cbn. split; [discriminate|lia].
Qed.

(* replacing the model of one position: every other position is unchanged and the
   positions that run out of data are the same *)
Lemma local_model_swap ms ms' chs j :
  length ms = length ms' ->
  (forall i, i <> j -> nth_error ms i = nth_error ms' i) ->
  forall i,
    (i <> j -> nth_error (local_outputs ms chs) i = nth_error (local_outputs ms' chs) i)
    /\ is_err (nth_error (local_outputs ms chs) i) = is_err (nth_error (local_outputs ms' chs) i).
Proof.
  intros Hlen Hsame i. split.
  - intros Hij. rewrite !local_outputs_nth, (Hsame i Hij). reflexivity.
  - apply eq_true_iff_eq. rewrite !local_outputs_err, Hlen. reflexivity.
Qed.

(* changing one chunk (bits flipped inside chunk j): likewise *)
Lemma local_chunk_change ms chs chs' j :
  length chs = length chs' ->
  (forall i, i <> j -> nth_error chs i = nth_error chs' i) ->
  forall i,
    (i <> j -> nth_error (local_outputs ms chs) i = nth_error (local_outputs ms chs') i)
    /\ is_err (nth_error (local_outputs ms chs) i) = is_err (nth_error (local_outputs ms chs') i).
Proof.
  intros Hlen Hsame i. split.
  - intros Hij. rewrite !local_outputs_nth, (Hsame i Hij). reflexivity.
  - apply eq_true_iff_eq. rewrite !local_outputs_err, Hlen. reflexivity.
Qed.

Lemma replace_nth_length {A} j (x : A) l : length (replace_nth j x l) = length l.
Proof.
  revert j. induction l as [|y r IH]; intros j; [destruct j; reflexivity|].
  destruct j; cbn; [reflexivity|]. rewrite IH. reflexivity.
Qed.

Lemma replace_nth_other {A} j (x : A) l i : i <> j -> nth_error (replace_nth j x l) i = nth_error l i.
Proof.
  revert j i. induction l as [|y r IH]; intros j i Hij; [destruct j; reflexivity|].
  destruct j as [|j]; destruct i as [|i]; cbn; try reflexivity; try lia.
  apply IH. lia.
Qed.

Section Local.
Variable c : ccfg.
Variable P : N.
Hypothesis Hwf : wf_ccfg c P.

Let W := cWB c.

(* ---------- the fuel of [take_all] is sufficient ---------- *)
Definition mu (cm : list N) (h : N) : N := W * N.of_nat (length cm) + N.log2 h.

Lemma log2_shift_add h k low : 1 <= h -> low < 2 ^ k -> N.log2 (h * 2 ^ k + low) = N.log2 h + k.
Proof.
  intros Hh Hlow. apply N.log2_unique; [lia|].
  destruct (N.log2_spec h) as [Hlo Hhi]; [lia|].
  rewrite <- N.add_succ_l, !pow2_add.
  assert (2 ^ N.log2 h * 2 ^ k <= h * 2 ^ k) by (apply N.mul_le_mono_r; exact Hlo).
  assert ((h + 1) * 2 ^ k <= 2 ^ N.succ (N.log2 h) * 2 ^ k) by (apply N.mul_le_mono_r; lia).
  lia.
Qed.

Lemma log2_div h k : N.log2 (h / 2 ^ k) = N.log2 h - k.
Proof. rewrite <- N.shiftr_div_pow2. apply N.log2_shiftr. Qed.

Lemma lt_pow_log2 h k : 1 <= h -> (h < 2 ^ k <-> N.log2 h < k).
Proof. intros. apply N.log2_lt_pow2. lia. Qed.

Lemma div_P_lt w : w < 2 ^ W -> w / 2 ^ P < 2 ^ (W - P).
Proof.
  intros Hw. apply div_lt_upper; [apply pow2_pos|].
  pose proof (W_split c P Hwf) as H. cbv zeta in H. fold W in H. rewrite <- H. exact Hw.
Qed.

(* every take removes exactly P bits from W*|cm| + log2 h *)
Lemma take_i_measure cm h q cm' h' :
  headok c h -> wordsok c cm -> take_i c P cm h = Some (q, cm', h') ->
  mu cm' h' + P = mu cm h.
Proof.
  intros [Hh1 Hh2] Hcm. unfold take_i, mu. fold W.
  pose proof (P_le_W c P Hwf) as HPW. cbv zeta in HPW. fold W in HPW.
  destruct (N.eqb_spec P W) as [HE|HNE].
  - destruct cm as [|w r]; [discriminate|]. intros H; inversion H; subst q cm' h'.
    cbn [length]. rewrite Nat2N.inj_succ, N.mul_succ_r. lia.
  - destruct (N.ltb_spec h (2 ^ P)) as [Hlt|Hge].
    + destruct cm as [|w r]; [discriminate|]. intros H; inversion H; subst q cm' h'.
      apply Forall_cons_iff in Hcm. destruct Hcm as [Hw _]. fold W in Hw.
      rewrite log2_shift_add; [|exact Hh1|].
      * cbn [length]. rewrite Nat2N.inj_succ, N.mul_succ_r. lia.
      * apply div_P_lt. exact Hw.
    + intros H; inversion H; subst q cm' h'. rewrite log2_div.
      assert (P <= N.log2 h) by (apply N.log2_le_pow2; lia). lia.
Qed.

Lemma take_all_fuel f1 : forall f2 cm h,
  headok c h -> wordsok c cm ->
  mu cm h < N.of_nat f1 -> mu cm h < N.of_nat f2 ->
  take_all c P f1 cm h = take_all c P f2 cm h.
Proof.
  induction f1 as [|f1 IH]; intros f2 cm h Hh Hcm H1 H2; [lia|].
  destruct f2 as [|f2]; [lia|]. cbn [take_all].
  destruct (chain_take c P cm h) as [[[q cm'] h']|] eqn:Et; [|reflexivity].
  destruct (chain_take_ok c P Hwf _ _ _ _ _ Hh Hcm Et) as (_ & Hh' & Hcm').
  rewrite (take_eq_i c P Hwf cm h Hh Hcm) in Et.
  pose proof (take_i_measure cm h q cm' h' Hh Hcm Et) as Hmu.
  pose proof (P_pos c P Hwf).
  f_equal. apply IH; try assumption; lia.
Qed.

Definition chunks_of (cm : list N) (h : N) : list N :=
  take_all c P (take_fuel c cm h) cm h.

Lemma chain_chunks_of ch : chain_chunks c P ch = chunks_of (comp ch) (hc ch).
Proof. reflexivity. Qed.

Lemma take_fuel_ok cm h : mu cm h < N.of_nat (take_fuel c cm h).
Proof. unfold take_fuel, mu. fold W. lia. Qed.

Lemma chunks_of_unfold cm h :
  headok c h -> wordsok c cm ->
  chunks_of cm h =
  match chain_take c P cm h with
  | None => []
  | Some (q, cm', h') => trunc (cPB c) q :: chunks_of cm' h'
  end.
Proof.
  intros Hh Hcm. unfold chunks_of at 1. unfold take_fuel. cbn [take_all].
  destruct (chain_take c P cm h) as [[[q cm'] h']|] eqn:Et; [|reflexivity].
  destruct (chain_take_ok c P Hwf _ _ _ _ _ Hh Hcm Et) as (_ & Hh' & Hcm').
  rewrite (take_eq_i c P Hwf cm h Hh Hcm) in Et.
  pose proof (take_i_measure cm h q cm' h' Hh Hcm Et) as Hmu.
  pose proof (P_pos c P Hwf).
  f_equal. apply take_all_fuel; try assumption.
  - unfold mu in *. lia.
  - apply take_fuel_ok.
Qed.

(* ---------- the headline of C14 ---------- *)
(* needs no hypothesis on the models (not even well-formedness) and none on the
   remainders: they cannot influence which bits are handed out *)
Lemma chain_decode_all_local ms : forall ch,
  Forall (fun m => em_prec m = P) ms -> headok c (hc ch) -> wordsok c (comp ch) ->
  fst (chain_decode_all c ms ch) = local_outputs ms (chain_chunks c P ch)
  /\ chain_quantiles c ms ch = pad_chunks (length ms) (chain_chunks c P ch).
Proof.
  induction ms as [|m r IH]; intros ch Hms Hh Hcm; [split; reflexivity|].
  apply Forall_cons_iff in Hms. destruct Hms as [HmP Hr].
  rewrite chain_chunks_of, (chunks_of_unfold _ _ Hh Hcm).
  cbn [chain_decode_all chain_quantiles local_outputs pad_chunks length].
  unfold chain_quantile, chain_decode. rewrite HmP.
  destruct (chain_take c P (comp ch) (hc ch)) as [[[qw cm'] h']|] eqn:Et.
  - destruct (chain_take_ok c P Hwf _ _ _ _ _ Hh Hcm Et) as (_ & Hh' & Hcm').
    destruct (em_dec m (trunc (cPB c) qw)) as [[s cum] p] eqn:Ed.
    destruct (chain_absorb c P cum p (trunc (cPB c) qw) (rems ch) (hr ch)) as [r' rh'].
    set (ch' := {| comp := cm'; rems := r'; hc := h'; hr := rh' |}).
    destruct (IH ch' Hr Hh' Hcm') as [IH1 IH2].
    destruct (chain_decode_all c r ch') as [o ch''] eqn:Eall.
    cbn [fst snd hd_error tl sym_at] in *. rewrite Ed. cbn [fst].
    split; [f_equal; exact IH1|f_equal; exact IH2].
  - destruct (IH ch Hr Hh Hcm) as [IH1 IH2].
    rewrite chain_chunks_of, (chunks_of_unfold _ _ Hh Hcm), Et in IH1, IH2.
    destruct (chain_decode_all c r ch) as [o ch''] eqn:Eall.
    cbn [fst snd hd_error tl sym_at] in *.
    split; [f_equal; exact IH1|f_equal; exact IH2].
Qed.

(* the compressed side after any number of decodes does not depend on the models
   (nor on the remainders) *)
Lemma chain_decode_all_comp ms : forall ms' ch ch',
  Forall (fun m => em_prec m = P) ms -> Forall (fun m => em_prec m = P) ms' ->
  length ms = length ms' -> comp ch = comp ch' -> hc ch = hc ch' ->
  comp (snd (chain_decode_all c ms ch)) = comp (snd (chain_decode_all c ms' ch'))
  /\ hc (snd (chain_decode_all c ms ch)) = hc (snd (chain_decode_all c ms' ch')).
Proof.
  induction ms as [|m r IH]; intros ms' ch ch' H1 H2 Hlen Hc Hh.
  - destruct ms'; [|cbn in Hlen; discriminate]. cbn. auto.
  - destruct ms' as [|m' r']; [cbn in Hlen; discriminate|].
    apply Forall_cons_iff in H1. destruct H1 as [E1 H1].
    apply Forall_cons_iff in H2. destruct H2 as [E2 H2].
    assert (Hlen' : length r = length r') by (cbn in Hlen; lia).
    cbn [chain_decode_all]. unfold chain_decode. rewrite E1, E2, <- Hc, <- Hh.
    destruct (chain_take c P (comp ch) (hc ch)) as [[[qw cm'] h']|].
    + destruct (em_dec m (trunc (cPB c) qw)) as [[s cum] p].
      destruct (em_dec m' (trunc (cPB c) qw)) as [[s' cum'] p'].
      destruct (chain_absorb c P cum p (trunc (cPB c) qw) (rems ch) (hr ch)) as [x rh'].
      destruct (chain_absorb c P cum' p' (trunc (cPB c) qw) (rems ch') (hr ch')) as [x' rh''].
      pose proof (IH r' {| comp := cm'; rems := x; hc := h'; hr := rh' |}
                        {| comp := cm'; rems := x'; hc := h'; hr := rh'' |} H1 H2 Hlen' eq_refl eq_refl) as IH'.
      destruct (chain_decode_all c r {| comp := cm'; rems := x; hc := h'; hr := rh' |}).
      destruct (chain_decode_all c r' {| comp := cm'; rems := x'; hc := h'; hr := rh'' |}).
      exact IH'.
    + pose proof (IH r' ch ch' H1 H2 Hlen' Hc Hh) as IH'.
      destruct (chain_decode_all c r ch); destruct (chain_decode_all c r' ch'). exact IH'.
Qed.

(* ---------- the number of chunks depends on the shape of the data alone ---------- *)
Lemma take_all_shape f : forall cm1 h1 cm2 h2,
  headok c h1 -> headok c h2 -> wordsok c cm1 -> wordsok c cm2 ->
  length cm1 = length cm2 -> N.log2 h1 = N.log2 h2 ->
  length (take_all c P f cm1 h1) = length (take_all c P f cm2 h2).
Proof.
  induction f as [|f IH]; intros cm1 h1 cm2 h2 Hh1 Hh2 Hc1 Hc2 Hlen Hlog; [reflexivity|].
  cbn [take_all].
  rewrite (take_eq_i c P Hwf cm1 h1 Hh1 Hc1), (take_eq_i c P Hwf cm2 h2 Hh2 Hc2).
  destruct (take_i c P cm1 h1) as [[[q1 cm1'] h1']|] eqn:E1;
  destruct (take_i c P cm2 h2) as [[[q2 cm2'] h2']|] eqn:E2.
  - destruct (take_i_ok c P Hwf _ _ _ _ _ Hh1 Hc1 E1) as (_ & Hh1' & Hc1').
    destruct (take_i_ok c P Hwf _ _ _ _ _ Hh2 Hc2 E2) as (_ & Hh2' & Hc2').
    cbn [length]. f_equal. apply IH; try assumption.
    + revert E1 E2. unfold take_i.
      destruct (P =? cWB c).
      * destruct cm1; [discriminate|]. destruct cm2; [discriminate|].
        intros A B; inversion A; inversion B; subst. cbn in Hlen. lia.
      * destruct Hh1 as [Ha _]. destruct Hh2 as [Hb _].
        destruct (N.ltb_spec h1 (2 ^ P)) as [L1|L1]; destruct (N.ltb_spec h2 (2 ^ P)) as [L2|L2].
        -- destruct cm1; [discriminate|]. destruct cm2; [discriminate|].
           intros A B; inversion A; inversion B; subst. cbn in Hlen. lia.
        -- apply (lt_pow_log2 h1 P Ha) in L1. assert (~ h2 < 2 ^ P) by lia.
           rewrite (lt_pow_log2 h2 P Hb) in H. lia.
        -- apply (lt_pow_log2 h2 P Hb) in L2. assert (~ h1 < 2 ^ P) by lia.
           rewrite (lt_pow_log2 h1 P Ha) in H. lia.
        -- intros A B; inversion A; inversion B; subst. exact Hlen.
    + revert E1 E2. unfold take_i. fold W.
      destruct (P =? W).
      * destruct cm1; [discriminate|]. destruct cm2; [discriminate|].
        intros A B; inversion A; inversion B; subst. exact Hlog.
      * destruct Hh1 as [Ha _]. destruct Hh2 as [Hb _].
        destruct (N.ltb_spec h1 (2 ^ P)) as [L1|L1]; destruct (N.ltb_spec h2 (2 ^ P)) as [L2|L2].
        -- destruct cm1 as [|w1 r1]; [discriminate|]. destruct cm2 as [|w2 r2]; [discriminate|].
           apply Forall_cons_iff in Hc1. destruct Hc1 as [Hw1 _].
           apply Forall_cons_iff in Hc2. destruct Hc2 as [Hw2 _]. fold W in Hw1, Hw2.
           intros A B; inversion A; inversion B; subst.
           rewrite !log2_shift_add; try assumption; try lia.
           ++ apply div_P_lt. exact Hw2.
           ++ apply div_P_lt. exact Hw1.
        -- apply (lt_pow_log2 h1 P Ha) in L1. assert (~ h2 < 2 ^ P) by lia.
           rewrite (lt_pow_log2 h2 P Hb) in H. lia.
        -- apply (lt_pow_log2 h2 P Hb) in L2. assert (~ h1 < 2 ^ P) by lia.
           rewrite (lt_pow_log2 h1 P Ha) in H. lia.
        -- intros A B; inversion A; inversion B; subst. rewrite !log2_div. lia.
  - exfalso. revert E1 E2. unfold take_i. destruct (P =? cWB c).
    + destruct cm1; [discriminate|]. destruct cm2; [|discriminate]. discriminate.
    + destruct Hh1 as [Ha _]. destruct Hh2 as [Hb _].
      destruct (N.ltb_spec h1 (2 ^ P)) as [L1|L1]; destruct (N.ltb_spec h2 (2 ^ P)) as [L2|L2];
        try discriminate.
      * destruct cm1; [discriminate|]. destruct cm2; [|discriminate]. discriminate.
      * apply (lt_pow_log2 h2 P Hb) in L2. assert (~ h1 < 2 ^ P) by lia.
        rewrite (lt_pow_log2 h1 P Ha) in H. lia.
  - exfalso. revert E1 E2. unfold take_i. destruct (P =? cWB c).
    + destruct cm2; [discriminate|]. destruct cm1; [|discriminate]. discriminate.
    + destruct Hh1 as [Ha _]. destruct Hh2 as [Hb _].
      destruct (N.ltb_spec h1 (2 ^ P)) as [L1|L1]; destruct (N.ltb_spec h2 (2 ^ P)) as [L2|L2];
        try discriminate.
      * destruct cm2; [discriminate|]. destruct cm1; [|discriminate]. discriminate.
      * apply (lt_pow_log2 h1 P Ha) in L1. assert (~ h2 < 2 ^ P) by lia.
        rewrite (lt_pow_log2 h2 P Hb) in H. lia.
  - reflexivity.
Qed.

Lemma chunks_of_shape cm1 h1 cm2 h2 :
  headok c h1 -> headok c h2 -> wordsok c cm1 -> wordsok c cm2 ->
  length cm1 = length cm2 -> N.log2 h1 = N.log2 h2 ->
  length (chunks_of cm1 h1) = length (chunks_of cm2 h2).
Proof.
  intros. unfold chunks_of, take_fuel. rewrite H3, H4. apply take_all_shape; assumption.
Qed.

End Local.
