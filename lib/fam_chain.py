"""Family `chain`: histories on ChainCoder<Word, State, Vec<Word>, Vec<Word>, PRECISION> (C13, C14).

Input (ints):  wb sb pb  <models>  P0 init_kind init_words(len-prefixed, Vec order)  ops...
  init_kind 0 from_binary, 1 from_compressed, 2 from_remainders    -> 0 | -2 n rest..  (then: lost)
  ops (the model's precision must equal the coder's current PRECISION):
       1 m sym        encode_symbol                    -> 0 | -1 ImpossibleSymbol | -3 OutOfRemainders
       2 m            decode_symbol                    -> 0 sym | -4 OutOfCompressedData
       3 P'           change_precision                 -> 0 | -3 (coder consumed: lost)
       4 P'           increase_precision (P' >= P)     -> 0
       5 P'           decrease_precision (P' <= P)     -> 0 | -3 (lost)
       6              raw state                        -> hc hr n comp.. n rems..   (Vec order)
       8              clone().into_binary()            -> 0 n prefix.. n suffix.. | -5
       9              clone().into_compressed()        -> 0 n prefix.. n suffix.. | -5
      10 r            into_remainders + from_remainders(r=0: prefix++suffix, r=1: suffix alone)
                                                       -> 0 n kept_prefix.. | -2 n rest.. (lost)
      11              is_whole maybe_exhausted maybe_full
      12 k m..        decode_symbols                   -> per item: 0 sym | -4
      13 k (m sym)..  encode_symbols_reverse           -> 0 | -1 | -3   (stops at the first error)
      14 k m..        decode_symbols on a clone (coder itself untouched) -> per item: 0 sym | -4
      15 kind n ws..  replace the coder by a fresh one at the current PRECISION -> as init
      16 route k it.. round trip: items (m >= 0: decode with model m; -P': change_precision(P')),
                      then route 0: same coder / 1: re-import prefix++suffix / 2: suffix alone,
                      then undo in reverse (encode_symbol / change_precision back)
                      -> forward results (0 sym | -4 | 0 | -3 lost), route result (as op 10, none for
                         route 0), one result per undo item (0 | -1 | -3; failed precision undo: lost)
  once the coder is lost the remaining ops are ignored; the final raw state (or -7 if lost) is appended.
"""
from gen_models import gen_table, enc_models, table_lookup

FAMILY = "chain"
RUNNER = ("Corr.Chain_run", "run_chain")

CHAIN_MENU = [(8, 16, 8), (8, 32, 8), (8, 64, 8), (16, 32, 16), (16, 32, 8), (16, 64, 16),
              (32, 64, 32), (32, 64, 16), (64, 128, 32)]
CHAIN_PRECISIONS = {
    8: [1, 2, 3, 4, 5, 6, 7, 8],
    16: [1, 2, 4, 7, 8, 9, 12, 15, 16],
    32: [1, 2, 8, 12, 16, 24, 31, 32],
}
SPECIAL = (-999999, -999998, -999997)


# ---------------------------------------------------------------- pieces

def _pick_p(rng, pb):
    ps = CHAIN_PRECISIONS[pb]
    r = rng.random()
    if r < 0.25:
        return ps[-1]
    if r < 0.35:
        return ps[0]
    if r < 0.45:
        return ps[-2]
    return rng.choice(ps)


def _precisions(rng, pb, n):
    ps = []
    while len(ps) < n:
        p = _pick_p(rng, pb)
        if p not in ps:
            ps.append(p)
    return ps


def _models_for(rng, precs, per=None):
    """Returns (models, {P: [indices]})."""
    ms, by = [], {}
    for P in precs:
        for _ in range(per or rng.randint(1, 3)):
            by.setdefault(P, []).append(len(ms))
            ms.append((P, gen_table(rng, P)))
    return ms, by


def _word(rng, wb):
    r = rng.random()
    if r < 0.1:
        return 0
    if r < 0.2:
        return (1 << wb) - 1
    if r < 0.27:
        return 1
    if r < 0.32:
        return 1 << (wb - 1)
    return rng.randrange(1 << wb)


def _data(rng, wb, n, kind):
    style = rng.random()
    if style < 0.08:
        ws = [0] * n
    elif style < 0.16:
        ws = [(1 << wb) - 1] * n
    elif style < 0.5:
        ws = [_word(rng, wb) for _ in range(n)]
    else:
        ws = [rng.randrange(1 << wb) for _ in range(n)]
    if kind == 1 and ws and ws[-1] == 0 and rng.random() < 0.9:
        ws[-1] = rng.choice([1, (1 << wb) - 1, rng.randrange(1, 1 << wb)])
    return ws


def head_words_binary(wb, sb, P):
    """number of words from_binary moves into the remainders head"""
    need = sb - wb - P
    return (need + wb - 1) // wb if need > 0 else 0


def _nwords(rng, wb, sb, P):
    nh = head_words_binary(wb, sb, P)
    return rng.choice([0, 1, nh - 1 if nh > 0 else 0, nh, nh + 1, nh + 2, rng.randrange(0, 12),
                       rng.randrange(0, 61), rng.randrange(0, 61)])


def _nsyms(rng, wb, sb, P, n):
    """number of symbols aimed at the point where the data runs out"""
    avail = max(0, n - head_words_binary(wb, sb, P)) * wb
    exact = avail // P
    per_word = max(1, wb // P)
    r = rng.random()
    if r < 0.35:
        k = exact + rng.choice([-2, -1, 0, 0, 1, 2, 3])
    elif r < 0.5:
        # ends exactly when a word has just been used up / just been fetched
        k = per_word * rng.randint(0, max(0, exact // per_word)) + rng.choice([0, 0, 1])
    elif r < 0.6:
        k = rng.choice([0, 1, 2])
    else:
        k = rng.randrange(0, exact + 3)
    return max(0, min(k, 150))


def _in_sym(rng, t):
    return rng.choice(t)[0]


def _out_sym(rng, t):
    syms = {e[0] for e in t}
    while True:
        s = rng.choice([max(syms) + 1, min(syms) - 1, rng.randrange(-5000, 5000), (1 << 32) + rng.choice(list(syms))])
        if s not in syms:
            return s


def _assemble(wb, sb, pb, ms, p0, kind, ws, ops):
    return [wb, sb, pb] + enc_models(ms) + [p0, kind, len(ws)] + ws + ops


def _schedule(rng, pb, by, precs, P, k, p_change):
    """k decodes interleaved with precision changes (probability p_change before each item)"""
    items = []
    for _ in range(k):
        if len(precs) > 1 and rng.random() < p_change:
            P = rng.choice([q for q in precs if q != P])
            items.append(-P)
        items.append(rng.choice(by[P]))
    if len(precs) > 1 and rng.random() < p_change:
        P = rng.choice([q for q in precs if q != P])
        items.append(-P)
    return items, P


# ---------------------------------------------------------------- generators

def gen_restore(rng):
    """C13: from_binary / from_compressed of arbitrary data, decode k symbols (aimed at the point
    where the data runs out), optionally with precision changes, re-import by one of the three
    documented routes, undo in reverse order, export."""
    wb, sb, pb = rng.choice(CHAIN_MENU)
    with_prec = rng.random() < 0.45
    precs = _precisions(rng, pb, rng.randint(2, 3) if with_prec else 1)
    ms, by = _models_for(rng, precs)
    P0 = precs[0]
    kind = rng.choice([0, 0, 1])
    n = _nwords(rng, wb, sb, P0)
    ws = _data(rng, wb, n, kind)
    k = _nsyms(rng, wb, sb, P0, n)
    items, _ = _schedule(rng, pb, by, precs, P0, k, 0.15 if with_prec else 0.0)
    route = rng.choice([0, 1, 2])
    pre = rng.choice([[], [6], [8, 9], [11], [6, 8, 9]])
    ops = pre + [16, route, len(items)] + items + [8, 9, 11]
    return _assemble(wb, sb, pb, ms, P0, kind, ws, ops)


def _hr_words(wb, hr):
    ws = []
    while hr:
        ws.append(hr & ((1 << wb) - 1))
        hr >>= wb
    return ws


def gen_boundary(rng):
    """C13, thresholds hit exactly (no raw-head hook needed: from_compressed / from_remainders
    let the top words choose the remainders head): remainders*p + remainder == 2^(S-P) + {-1,0,1}
    (decode flush / encode refill), head == 2^(S-P') + {-1,0,1} before increasing the precision,
    head == 2^(S-P'-W) + {-1,0,1} before decreasing it.  Raw state dumped around every step."""
    for _ in range(50):
        wb, sb, pb = rng.choice(CHAIN_MENU)
        what = rng.random()
        delta = rng.choice([-1, 0, 0, 0, 1])
        filler = [_word(rng, wb) for _ in range(rng.randint(0, 6))]
        if what < 0.5:
            P = _pick_p(rng, pb)
            L, U = 1 << (sb - wb - P), 1 << (sb - P)
            ms, by = _models_for(rng, [P], per=2)
            m = rng.randrange(len(ms))
            s, cum, p = rng.choice(ms[m][1])
            T = U + delta
            hr, rem = T // p, T % p
            if not (L <= hr < U):
                continue
            qword = cum + rem
            if P < wb:
                qword |= rng.randrange(1 << (wb - P)) << P
            ws = filler + [qword] + _hr_words(wb, hr)
            more = [rng.choice(by[P]) for _ in range(rng.randint(0, 3))]
            ops = [6, 2, m, 6, 1, m, s, 6, 9]
            if rng.random() < 0.5:
                ops += [16, rng.choice([0, 1, 2]), 1 + len(more), m] + more + [9]
            return _assemble(wb, sb, pb, ms, P, 1, ws, ops)
        precs = CHAIN_PRECISIONS[pb]
        P, P2 = rng.sample(precs, 2)
        ms, by = _models_for(rng, [P, P2], per=1)
        L, U = 1 << (sb - wb - P), 1 << (sb - P)
        if what < 0.75:
            if P2 < P:
                P, P2 = P2, P
                L, U = 1 << (sb - wb - P), 1 << (sb - P)
            hr = (1 << (sb - P2)) + delta            # increase P -> P2 flushes iff hr >= 2^(S-P2)
            if not (L <= hr < U):
                continue
            ws = filler + _hr_words(wb, hr)
            ops = [6, rng.choice([3, 4]), P2, 6, rng.choice([3, 5]), P, 6, 9]
            return _assemble(wb, sb, pb, ms, P, 1, ws, ops)
        if P2 > P:
            P, P2 = P2, P
            L, U = 1 << (sb - wb - P), 1 << (sb - P)
        hr = (1 << (sb - P2 - wb)) + delta           # decrease P -> P2 refills iff hr < 2^(S-P2-W)
        if not (L <= hr < U):
            continue
        hc = rng.choice([1, rng.randrange(1, 1 << wb)])
        ws = filler + _hr_words(wb, hr) + [hc]
        ops = [6, rng.choice([3, 5]), P2, 6, rng.choice([3, 4]), P, 6, 2, by[P][0], 6]
        return _assemble(wb, sb, pb, ms, P, 2, ws, ops)
    return gen_restore(rng)


def chunk_bits(wb, sb, P, n):
    """The model-independent chunk structure of from_binary data of n words (Vec order):
    list of chunks, each a list of (word index, bit index), least significant bit first.
    None if from_binary fails."""
    nh = head_words_binary(wb, sb, P)
    if n < nh:
        return None
    pos = n - nh
    buf = []
    res = []
    while True:
        if P == wb or len(buf) < P:
            if pos == 0:
                break
            pos -= 1
            bits = [(pos, b) for b in range(wb)]
            res.append(bits[:P])
            if P != wb:
                buf = bits[P:] + buf
        else:
            res.append(buf[:P])
            buf = buf[P:]
    return res


def chunk_values(wb, sb, P, ws):
    cb = chunk_bits(wb, sb, P, len(ws))
    if cb is None:
        return None
    return [sum(((ws[w] >> b) & 1) << i for i, (w, b) in enumerate(ch)) for ch in cb]


def gen_local(rng):
    """C14: twin decodes (on clones) of the same data with one model replaced, and of data with
    bits flipped inside one chunk."""
    wb, sb, pb = rng.choice(CHAIN_MENU)
    P = _pick_p(rng, pb)
    ms, by = _models_for(rng, [P], per=rng.randint(2, 4))
    n = _nwords(rng, wb, sb, P)
    ws0 = _data(rng, wb, n, 0)
    ws = list(ws0)
    k = _nsyms(rng, wb, sb, P, n) if rng.random() < 0.7 else rng.randint(1, 6)
    k = max(1, k)
    seq = [rng.randrange(len(ms)) for _ in range(k)]
    ops = [14, k] + seq
    cb = chunk_bits(wb, sb, P, n)
    for _ in range(rng.randint(1, 3)):
        r = rng.random()
        if r < 0.5:
            j = rng.randrange(k)
            seq2 = list(seq)
            seq2[j] = rng.choice([i for i in range(len(ms)) if i != seq[j]] or [seq[j]])
            ops += [14, k] + seq2
        elif cb:
            j = rng.choice([rng.randrange(len(cb)), min(k - 1, len(cb) - 1), min(k, len(cb) - 1)])
            ws2 = list(ws)
            for (w, b) in rng.sample(cb[j], rng.randint(1, len(cb[j]))):
                ws2[w] ^= 1 << b
            ops += [15, 0, len(ws2)] + ws2 + [14, k] + seq
            if rng.random() < 0.5:
                ops += [15, 0, len(ws)] + ws
            else:
                ws = ws2
        elif n > 0:
            ws2 = list(ws)
            ws2[rng.randrange(n)] ^= 1 << rng.randrange(wb)
            ops += [15, 0, len(ws2)] + ws2 + [14, k] + seq
            ws = ws2
    if rng.random() < 0.3:
        ops += [12, k] + seq
    return _assemble(wb, sb, pb, ms, P, 0, ws0, ops)


def gen_doc_example(rng):
    """the shape of the module-level doc example: three symbols, first model changed"""
    wb, sb, pb = 32, 64, 32
    P = 24
    ms, by = _models_for(rng, [P], per=4)
    ws = [rng.randrange(1 << 32) for _ in range(4)]
    return _assemble(wb, sb, pb, ms, P, 0, ws, [14, 3, 0, 1, 2, 14, 3, 3, 1, 2])


def gen_free(rng, max_ops=60):
    """Unconstrained histories: any constructor on any data, encodes of arbitrary / impossible
    symbols, decodes past the end, precision changes, exports at any time, dumps around errors."""
    wb, sb, pb = rng.choice(CHAIN_MENU)
    precs = _precisions(rng, pb, rng.randint(1, 3))
    ms, by = _models_for(rng, precs)
    P = precs[0]
    kind = rng.choice([0, 0, 1, 1, 2])
    n = _nwords(rng, wb, sb, P)
    ws = _data(rng, wb, n, kind)
    ops = []
    for _ in range(rng.randint(1, max_ops)):
        r = rng.random()
        m = rng.choice(by[P])
        t = ms[m][1]
        if r < 0.22:
            body = [1, m, _in_sym(rng, t) if rng.random() < 0.85 else _out_sym(rng, t)]
            ops += ([6] + body + [6]) if rng.random() < 0.3 else body
        elif r < 0.50:
            body = [2, m]
            ops += ([6] + body + [6]) if rng.random() < 0.2 else body
        elif r < 0.58 and len(precs) > 1:
            q = rng.choice([x for x in precs if x != P])
            how = rng.random()
            if how < 0.5:
                ops += [3, q]
            elif q > P:
                ops += [4, q]
            else:
                ops += [5, q]
            P = q
        elif r < 0.61:
            ops += [rng.choice([4, 5, 3]), P]
        elif r < 0.66:
            k = rng.randint(0, 6)
            ops += [12, k] + [rng.choice(by[P]) for _ in range(k)]
        elif r < 0.71:
            k = rng.randint(0, 5)
            ops += [13, k]
            for _ in range(k):
                mm = rng.choice(by[P])
                ops += [mm, _in_sym(rng, ms[mm][1]) if rng.random() < 0.9 else _out_sym(rng, ms[mm][1])]
        elif r < 0.76:
            ops += [10, rng.choice([0, 1])]
        elif r < 0.79:
            k2 = rng.choice([0, 1, 2])
            n2 = _nwords(rng, wb, sb, P)
            ws2 = _data(rng, wb, n2, k2)
            ops += [15, k2, len(ws2)] + ws2
        elif r < 0.84:
            k = rng.randint(0, 8)
            items, P2 = _schedule(rng, pb, by, precs, P, k, 0.2)
            ops += [16, rng.choice([0, 1, 2]), len(items)] + items
        else:
            ops += [rng.choice([6, 8, 9, 11])]
    return _assemble(wb, sb, pb, ms, precs[0], kind, ws, ops)


# ---------------------------------------------------------------- output walking

def models_of(inp):
    i = 3
    nm = inp[i]
    i += 1
    ms = []
    for _ in range(nm):
        P, k = inp[i], inp[i + 1]
        t = [tuple(inp[i + 2 + 3 * j:i + 5 + 3 * j]) for j in range(k)]
        ms.append((P, t))
        i += 2 + 3 * k
    return ms, i


def header(inp):
    ms, i = models_of(inp)
    p0, kind, n = inp[i], inp[i + 1], inp[i + 2]
    ws = inp[i + 3:i + 3 + n]
    return ms, p0, kind, ws, i + 3 + n


class _Out:
    def __init__(self, out):
        self.out = out
        self.o = 0

    def one(self):
        self.o += 1
        return self.out[self.o - 1]

    def words(self):
        n = self.one()
        if n < 0:
            raise ValueError("negative length")
        r = self.out[self.o:self.o + n]
        if len(r) != n:
            raise IndexError
        self.o += n
        return r

    def init(self):
        c = self.one()
        if c == 0:
            return ("ok", None)
        return ("err", self.words())

    def reimport(self):
        c = self.one()
        return ("ok" if c == 0 else "err", self.words())

    def dec_items(self, k):
        res = []
        for _ in range(k):
            c = self.one()
            res.append(("ok", self.one()) if c == 0 else ("err", c))
        return res

    def dump(self):
        hc, hr = self.one(), self.one()
        return dict(hc=hc, hr=hr, comp=self.words(), rems=self.words())

    def export(self):
        c = self.one()
        if c == 0:
            return (self.words(), self.words())
        return None


def walk(inp, out):
    """Yields (op, args, result) for init, every executed op and the final state."""
    ms, p0, kind, ws, i = header(inp)
    o = _Out(out)
    r = o.init()
    yield ("init", (p0, kind, ws), r)
    alive = r[0] == "ok"
    while i < len(inp) and alive:
        op = inp[i]
        if op == 1:
            yield (1, (inp[i + 1], inp[i + 2]), o.one()); i += 3
        elif op == 2:
            yield (2, (inp[i + 1],), o.dec_items(1)[0]); i += 2
        elif op in (3, 4, 5):
            c = o.one()
            yield (op, (inp[i + 1],), c); i += 2
            alive = c == 0
        elif op == 6:
            yield (6, (), o.dump()); i += 1
        elif op in (8, 9):
            yield (op, (), o.export()); i += 1
        elif op == 10:
            r = o.reimport()
            yield (10, (inp[i + 1],), r); i += 2
            alive = r[0] == "ok"
        elif op == 11:
            yield (11, (), [o.one(), o.one(), o.one()]); i += 1
        elif op in (12, 14):
            k = inp[i + 1]
            seq = inp[i + 2:i + 2 + k]
            yield (op, seq, o.dec_items(k)); i += 2 + k
        elif op == 13:
            k = inp[i + 1]
            pairs = [(inp[i + 2 + 2 * j], inp[i + 3 + 2 * j]) for j in range(k)]
            yield (13, pairs, o.one()); i += 2 + 2 * k
        elif op == 15:
            k2, n = inp[i + 1], inp[i + 2]
            ws2 = inp[i + 3:i + 3 + n]
            r = o.init()
            yield (15, (k2, ws2), r); i += 3 + n
            alive = r[0] == "ok"
        elif op == 16:
            route, k = inp[i + 1], inp[i + 2]
            items = inp[i + 3:i + 3 + k]
            i += 3 + k
            fwd, undo_n, lost = [], 0, False
            for it in items:
                if it < 0:
                    c = o.one()
                    fwd.append(("prec", c))
                    if c != 0:
                        lost = True
                        break
                    undo_n += 1
                else:
                    d = o.dec_items(1)[0]
                    fwd.append(d)
                    if d[0] == "ok":
                        undo_n += 1
            res = dict(fwd=fwd, route=None, undo=[], lost=lost)
            if not lost and route != 0:
                rr = o.reimport()
                res["route"] = rr
                if rr[0] != "ok":
                    lost = True
            if not lost:
                # undo results: a failed precision change ends the list early
                und = []
                undo_items = []
                for it, f in zip(items, fwd):
                    if it < 0:
                        undo_items.append("prec")
                    elif f[0] == "ok":
                        undo_items.append("enc")
                for what in reversed(undo_items):
                    c = o.one()
                    und.append((what, c))
                    if what == "prec" and c != 0:
                        lost = True
                        break
                res["undo"] = und
            res["lost"] = lost
            yield (16, (route, items), res)
            alive = not lost
        else:
            raise ValueError("bad op %r" % op)
    if alive:
        yield ("final", (), o.dump())
    else:
        c = o.one()
        yield ("final", (), c)
    if o.o != len(out):
        raise ValueError("trailing output")


# ---------------------------------------------------------------- oracles (on IMPLEMENTATION output)

def oracle_C13(inp, out):
    """from_binary / from_compressed data; non-mutating ops; ONE round trip (decode with optional
    precision changes, re-import by any documented route, undo in reverse); then the export matching
    the constructor must succeed and kept_prefix ++ prefix ++ suffix must equal the original data.
    Also: a fresh coder exports its own data; an op that reports an error leaves the raw state as it was."""
    if any(x in SPECIAL for x in out):
        return "panic/abort/timeout"
    try:
        ms, p0, kind, ws, _ = header(inp)
        steps = list(walk(inp, out))
    except (IndexError, ValueError):
        return "malformed output"
    # error => state unchanged (whenever dumps surround the op)
    for a, b, c in zip(steps, steps[1:], steps[2:]):
        if a[0] == 6 and c[0] == 6 and b[0] in (1, 2):
            failed = (b[0] == 1 and b[2] != 0) or (b[0] == 2 and b[2][0] == "err")
            if failed and a[2] != c[2]:
                return "op %d reported an error but changed the coder" % b[0]
    # decode then encode of the decoded symbol / precision change there and back: raw state restored
    cur = p0
    hist = []
    for st in steps:
        hist.append((st, cur))
        if st[0] in (3, 4, 5) and st[2] == 0:
            cur = st[1][0]
    for k in range(len(hist) - 4):
        (a, pa), (b, _), (m_, _), (d, _), (e, _) = hist[k:k + 5]
        if not (a[0] == 6 and m_[0] == 6 and e[0] == 6):
            continue
        if b[0] == 2 and b[2][0] == "ok" and d[0] == 1 and d[1][0] == b[1][0] and d[1][1] == b[2][1]:
            if d[2] != 0:
                return "re-encoding the symbol just decoded failed with %d" % d[2]
            if a[2] != e[2]:
                return "decode + encode of the decoded symbol did not restore the raw state"
        if b[0] in (3, 4, 5) and b[2] == 0 and d[0] in (3, 4, 5) and d[1][0] == pa:
            if d[2] != 0:
                return "undoing a precision change failed with %d" % d[2]
            if a[2] != e[2]:
                return "precision change there and back did not restore the raw state"
    if kind not in (0, 1) or steps[0][2][0] != "ok":
        return None
    want = 8 if kind == 0 else 9
    phase = 0          # 0: fresh, 1: after the round trip
    kept = []
    for op, args, res in steps[1:]:
        if op in (6, 11, 14, "final"):
            continue
        if op in (8, 9):
            if op != want:
                continue
            if res is None:
                return "export (op %d) failed %s" % (op, "on the fresh coder" if phase == 0 else "after the round trip")
            if kept + res[0] + res[1] != ws:
                return "restored data %r differs from the original %r" % (kept + res[0] + res[1], ws)
            continue
        if op == 16 and phase == 0:
            phase = 1
            if res["lost"] and any(f == ("prec", -3) for f in res["fwd"]):
                return None          # a precision decrease ran out of remainders: reported, out of scope
            for f in res["fwd"]:
                if f[0] == "err" and f[1] != -4:
                    return "decode failed with an undocumented error %d" % f[1]
                if f[0] == "prec" and f[1] not in (0,):
                    return "precision change failed with %d" % f[1]
            if args[0] != 0:
                if res["route"] is None or res["route"][0] != "ok":
                    return "re-import of the exported remainders failed"
                kept = res["route"][1]
            for what, c in res["undo"]:
                if c != 0:
                    return "undo step (%s) failed with %d" % (what, c)
            if res["lost"]:
                return "coder lost during the round trip"
            continue
        return None              # anything else: outside the property's scope
    return None


def oracle_C14(inp, out):
    """from_binary data: the i-th symbol returned by decode_symbols is the symbol the i-th model
    assigns to the i-th PRECISION-bit chunk of the data (chunks computed from the data alone), and
    OutOfCompressedData occurs exactly from position len(chunks) on.  Twin runs differing in one
    model / in bits of one chunk differ in at most that position."""
    if any(x in SPECIAL for x in out):
        return "panic/abort/timeout"
    try:
        ms, p0, kind, ws, _ = header(inp)
        steps = list(walk(inp, out))
    except (IndexError, ValueError):
        return "malformed output"
    if kind != 0:
        return None
    wb, sb = inp[0], inp[1]
    data = ws
    alive = steps[0][2][0] == "ok"
    if (chunk_bits(wb, sb, p0, len(data)) is not None) != alive:
        return "from_binary success does not depend on the data length alone"
    prev = None
    for op, args, res in steps[1:]:
        if op == 15:
            if args[0] != 0:
                return None
            data = args[1]
            if (chunk_bits(wb, sb, p0, len(data)) is not None) != (res[0] == "ok"):
                return "from_binary success does not depend on the data length alone"
            continue
        if op in (6, 11, "final"):
            continue
        if op == 12:
            prev = None
        if op not in (12, 14):
            return None
        qs = chunk_values(wb, sb, p0, data)
        for i, (m, r) in enumerate(zip(args, res)):
            P, t = ms[m]
            if i < len(qs):
                exp = ("ok", table_lookup(t, qs[i])[0])
            else:
                exp = ("err", -4)
            if r != exp:
                return "position %d: got %r, the model assigns %r to chunk %d of the data" % (i, r, exp, i)
        if op == 14:
            if prev is not None and len(prev[1]) == len(res):
                pseq, pres, pdata = prev
                diff_models = [i for i in range(len(args)) if args[i] != pseq[i]]
                cb = chunk_bits(wb, sb, p0, len(data))
                diff_chunks = []
                if len(pdata) == len(data) and cb is not None:
                    changed = {(w, b) for w in range(len(data)) for b in range(wb) if (data[w] ^ pdata[w]) >> b & 1}
                    diff_chunks = [i for i, ch in enumerate(cb) if changed & set(ch)]
                    allowed = set(diff_models) | set(diff_chunks)
                    for i in range(len(res)):
                        if i not in allowed and res[i] != pres[i]:
                            return "position %d changed although neither its model nor its chunk did" % i
                        if (res[i][0] == "err") != (pres[i][0] == "err"):
                            return "running out of data moved at position %d" % i
            prev = (list(args), res, list(data))
        if op == 12:
            return None
    return None


def oracle_C09(inp, out):
    """encode_symbol: a symbol outside the model's support is refused with ImpossibleSymbol (-1), a
    symbol of the support never is (its only error is OutOfRemainders, -3); a refused encode leaves
    the raw state as it was (whenever dumps surround it); the batch form stops at the first error."""
    if any(x in SPECIAL for x in out):
        return "panic/abort/timeout"
    try:
        ms, p0, kind, ws, _ = header(inp)
        steps = list(walk(inp, out))
    except (IndexError, ValueError):
        return "malformed output"

    def insup(m, sym):
        return any(e[0] == sym for e in ms[m][1])

    for st in steps:
        if st[0] == 1:
            m, sym = st[1]
            if not insup(m, sym) and st[2] != -1:
                return "encode of a symbol outside the support returned %d" % st[2]
            if insup(m, sym) and st[2] not in (0, -3):
                return "encode of a symbol of the support returned %d" % st[2]
        elif st[0] == 13:
            bad = [not insup(m, sym) for m, sym in st[1]]
            if not any(bad) and st[2] not in (0, -3):
                return "batch encode of symbols of the support returned %d" % st[2]
            if any(bad) and st[2] == 0:
                return "batch encode containing an impossible symbol succeeded"
    for a, b, c in zip(steps, steps[1:], steps[2:]):
        if a[0] == 6 and c[0] == 6 and b[0] == 1 and b[2] != 0 and a[2] != c[2]:
            return "a refused encode changed the coder"
    return None


ORACLES = {"C13": oracle_C13, "C14": oracle_C14, "C09": oracle_C09}


def nontrivial(inp, out, prop=None):
    """C13: (or: dump / step / dump / inverse step / dump, all ok) a round trip with >= 3 symbols decoded and pushed back (all undo steps ok) followed by a
    successful matching export.  C14: >= 2 twin decodes with >= 2 positions, >= 1 symbol decoded."""
    try:
        ms, p0, kind, ws, _ = header(inp)
        steps = list(walk(inp, out))
        if prop == "C14":
            tw = [s for s in steps if s[0] == 14 and len(s[1]) >= 2 and any(r[0] == "ok" for r in s[2])]
            return len(tw) >= 2
        rt = [s for s in steps if s[0] == 16]
        if not rt:
            # boundary cases: dump, step, dump, inverse step, dump -- all successful
            for k in range(len(steps) - 4):
                a, b, m_, d, e = steps[k:k + 5]
                if a[0] == 6 and m_[0] == 6 and e[0] == 6:
                    if b[0] == 2 and b[2][0] == "ok" and d[0] == 1 and d[2] == 0:
                        return True
                    if b[0] in (3, 4, 5) and b[2] == 0 and d[0] in (3, 4, 5) and d[2] == 0 and m_[2] != a[2]:
                        return True
            return False
        res = rt[0][2]
        nsym = len([f for f in res["fwd"] if f[0] == "ok"])
        want = 8 if kind == 0 else 9
        idx = steps.index(rt[0])
        exported = any(s[0] == want and s[2] is not None for s in steps[idx + 1:])
        return nsym >= 3 and not res["lost"] and all(c == 0 for _, c in res["undo"]) and exported
    except Exception:
        return False


def describe(inp):
    ms, p0, kind, ws, i = header(inp)
    return "chain W=%d S=%d PB=%d P0=%d models=%s init_kind=%d data_words=%d ops=%d ints" % (
        inp[0], inp[1], inp[2], p0, [(P, len(t)) for P, t in ms], kind, len(ws), len(inp) - i)
