(* Corr/Backend_run.v -- runs an integer-encoded backend history on Model/Backend.v.
   Mirror of harness/src/fam_backend.rs; format documented in lib/fam_backend.py. *)
From CV Require Import Corr.Parse Model.Backend.
Open Scope Z_scope.

Definition NA := -9.
Definition END_OF_DATA := -1.
Definition OUT_OF_SPACE := -2.
Definition SEEK_ERR := -3.
Definition CTOR_ERR := -4.

Definition fault_code (f : fault) : Z :=
  match f with
  | UB_cursor_stack_read => -701
  | UB_rev_cursor_write => -702
  | OVF_cursor_space_left => -711
  | OVF_cursor_remaining_queue => -712
  | OVF_into_reversed => -713
  end.

Definition enc_rres (r : rres) : Z :=
  match r with
  | RSome w => nZ w
  | RSomeErr e => - (2000 + e)
  | RNone => END_OF_DATA
  | RErr e => - (1000 + e)
  | RFault f => fault_code f
  end.
Definition enc_wres (r : wres) : Z :=
  match r with
  | WOk => 0
  | WOutOfSpace => OUT_OF_SPACE
  | WErr e => - (1000 + e)
  | WFault f => fault_code f
  end.
Definition enc_qres (q : qres) : Z :=
  match q with QVal n => Z.of_nat n | QFault f => fault_code f end.

Definition enc_out (x : out) : list Z :=
  match x with
  | ONa => [NA]
  | ORd r => [enc_rres r]
  | OWr r => [enc_wres r]
  | OSk SOk => [0]
  | OSk SErr => [SEEK_ERR]
  | OQ q => [enc_qres q]
  | OView r p => [enc_rres r; Z.of_nat p]
  end.

Definition enc_item (x : item) : Z :=
  match x with IOk w => nZ w | IErr e => - (1000 + e) end.

(* len words.. aux *)
Fixpoint dump (b : backend) : list Z :=
  match b with
  | BVec v | BSmallVec v => Z.of_nat (length v) :: map nZ v ++ [Z.of_nat (length v)]
  | BCursor _ c => Z.of_nat (length (buf c)) :: map nZ (buf c) ++ [Z.of_nat (pos c)]
  | BRev b' => dump b'
  | BFallIter f | BInfIter f =>
      let r := fuse_rest f in Z.of_nat (length r) :: map enc_item r ++ [0]
  | BFallCb cb | BInfCb cb => Z.of_nat (length (cb_log cb)) :: map nZ (cb_log cb) ++ [0]
  end.

(* positions are [nat] in the model; cases use buffers of fewer than 4096 words, so every
   position above 4096 (usize::MAX, 1 << 63, ...) is out of range and is represented by 4096 *)
Definition clamp (p : Z) : nat := Z.to_nat (Z.min p 4096).

Definition dec_sem (z : Z) : sem := if Z.eqb z 0 then Stack else Queue.

Definition dec_item (z : Z) : option item :=
  if Z.leb 0 z then Some (IOk (zN z))
  else if Z.eqb z (-1) then None
  else Some (IErr (- z - 1000)).

Fixpoint bk_loop (fuel : nat) (l : list Z) (b : backend) : list Z :=
  match fuel with
  | O => dump b
  | S fuel' =>
    let go o r := let '(b', x) := bk_step b o in enc_out x ++ bk_loop fuel' r b' in
    match l with
    | [] => dump b
    | 1 :: s :: r => go (ORead (dec_sem s)) r
    | 2 :: w :: r => go (OWrite (zN w)) r
    | 3 :: p :: r => go (OSeek (clamp p)) r
    | 4 :: r => go OPos r
    | 5 :: s :: r => go (ORemaining (dec_sem s)) r
    | 6 :: r => go OSpaceLeft r
    | 7 :: s :: r => go (OIsExhausted (dec_sem s)) r
    | 8 :: s :: r => go (OMaybeExhausted (dec_sem s)) r
    | 9 :: r => go OIsFull r
    | 10 :: r => go OMaybeFull r
    | 11 :: r => go OIntoReversed r
    | 12 :: r => let '(ws, r') := read_list r in go (OExtend (map zN ws)) r'
    | 13 :: r => dump b ++ bk_loop fuel' r b
    | 14 :: s :: r => go (OViewRead (dec_sem s)) r
    | 15 :: s :: r => go (OClonedRead (dec_sem s)) r
    | 16 :: w :: r => go (OMutViewWrite (zN w)) r
    | 17 :: n :: r => go (OBufMutTruncate (clamp n)) r
    | _ => [PANIC]
    end
  end.

Definition bufkind_of (kind : Z) : bufkind :=
  match kind with
  | 3 | 7 => BufSlice
  | 4 | 8 => BufMutSlice
  | 5 | 9 => BufBox
  | _ => BufVec
  end.

Definition mk_cursor (ctor arg : Z) (ws : list N) : option cursor :=
  match ctor with
  | 0 => Some (cursor_new_at_write_beginning ws)
  | 1 | 9 => Some (cursor_new_at_write_end ws)
  | 3 | 5 | 7 | 11 => Some (into_read_words Stack ws)
  | 4 | 6 | 8 | 12 => Some (into_read_words Queue ws)
  | _ => cursor_new_at_pos ws (clamp arg)
  end.

Definition init_backend (kind ctor arg : Z) (ws : list N) (sc : list Z) : option backend :=
  let scr := map dec_item sc in
  match kind with
  | 0 => Some (BVec ws)
  | 1 => Some (BSmallVec ws)
  | 2 | 3 | 4 | 5 => omap (BCursor (bufkind_of kind)) (mk_cursor ctor arg ws)
  | 6 | 7 | 8 | 9 => omap (fun c => BRev (BCursor (bufkind_of kind) c)) (mk_cursor ctor arg ws)
  | 10 => Some (BRev (BVec ws))
  | 11 => omap (fun c => BRev (BRev (BCursor BufVec c))) (mk_cursor ctor arg ws)
  | 12 => Some (BFallIter (fuse_new scr))
  | 13 => Some (BInfIter (fuse_new scr))
  | 14 => Some (BFallIter (fuse_new (map (fun w => Some (IOk w)) ws)))
  | 15 => Some (BInfIter (fuse_new (map (fun w => Some (IOk w)) ws)))
  | 16 => Some (BFallCb {| cb_log := []; cb_script := sc |})
  | 17 => Some (BInfCb {| cb_log := []; cb_script := sc |})
  | _ => Some (BRev (BFallIter (fuse_new scr)))
  end.

Definition run_backend (inp : list Z) : list Z :=
  match inp with
  | _wb :: kind :: ctor :: arg :: r =>
      let '(ws, r1) := read_list r in
      let '(sc, r2) := read_list r1 in
      match init_backend kind ctor arg (map zN ws) sc with
      | Some b => bk_loop (length r2) r2 b
      | None => [CTOR_ERR]
      end
  | _ => [PANIC]
  end.
