(* Proofs/FloatQ_validator.v -- the fixed-point validator the `_perfect` constructors push their
   weights through (accumulate_nonzero_probabilities, infer_last_probability = false) only
   accepts exact tilings. Integer arithmetic only. *)
From Coq Require Import ZArith NArith List Bool Lia.
From CV Require Import Base.Bits Model.EModel Model.FloatQ Proofs.Table_lemmas Proofs.FloatQ_cdf.
Set Default Timeout 60.
Open Scope N_scope.

Fixpoint lefts (a : N) (ps : list N) : list N :=
  match ps with
  | [] => []
  | p :: r => a :: lefts (a + p) r
  end.

Fixpoint sumN (ps : list N) : N :=
  match ps with [] => 0 | p :: r => p + sumN r end.

Fixpoint zeros (ps : list N) : N :=
  match ps with [] => 0 | p :: r => (if p =? 0 then 1 else 0) + zeros r end.

Lemma lefts_trunc PB : forall r x y, trunc PB x = trunc PB y ->
  map (trunc PB) (lefts x r) = map (trunc PB) (lefts y r).
Proof.
  induction r as [|p r IH]; intros x y H; cbn; [reflexivity|].
  f_equal; [exact H|]. apply IH. unfold trunc in *.
  rewrite (N.add_mod x), (N.add_mod y), H by apply pow2_nz. reflexivity.
Qed.

Lemma mod_step PB a p s :
  (trunc PB (a + p) + s) mod 2 ^ PB = (a + (p + s)) mod 2 ^ PB.
Proof.
  unfold trunc. rewrite (N.add_assoc a p s).
  rewrite (N.add_mod ((a + p) mod 2 ^ PB) s), (N.add_mod (a + p) s) by apply pow2_nz.
  rewrite N.mod_mod by apply pow2_nz. reflexivity.
Qed.

Lemma acc_spec PB : forall ps a l acc, a < 2 ^ PB -> Forall (fun p => p < 2 ^ PB) ps ->
  exists w,
    fq_accumulate PB ps a l acc
    = (rev acc ++ map (trunc PB) (lefts a ps), (a + sumN ps) mod 2 ^ PB, l + w + zeros ps)
    /\ a + sumN ps = (a + sumN ps) mod 2 ^ PB + 2 ^ PB * w.
Proof.
  pose proof (pow2_pos PB) as HM.
  induction ps as [|p r IH]; intros a l acc Ha Hps.
  - exists 0. cbn. rewrite app_nil_r, !N.add_0_r, N.mod_small by exact Ha. split; [reflexivity|lia].
  - inversion Hps as [|? ? Hp Hr]; subst.
    cbn [fq_accumulate lefts sumN zeros map].
    set (a1 := trunc PB (a + p)).
    assert (Ha1 : a1 < 2 ^ PB) by apply trunc_lt.
    destruct (IH a1 (l + (if a1 <=? a then 1 else 0)) (a :: acc) Ha1 Hr) as (w' & Heq & Hsum).
    (* one step: a + p = a1 + 2^PB * w1 with w1 in {0,1} *)
    pose proof (div_mod_eq (a + p) (2 ^ PB) (pow2_nz PB)) as Hdm.
    fold (trunc PB (a + p)) in Hdm. fold a1 in Hdm.
    set (w1 := (a + p) / 2 ^ PB) in *.
    assert (Hw1 : w1 <= 1).
    { unfold w1. assert ((a + p) / 2 ^ PB < 2); [|lia]. apply div_lt_upper; lia. }
    assert (Hev : (if a1 <=? a then 1 else 0) = w1 + (if p =? 0 then 1 else 0)).
    { destruct (N.leb_spec a1 a), (N.eqb_spec p 0); nia. }
    exists (w' + w1). split.
    + rewrite Heq. f_equal; [f_equal|].
      * cbn [rev]. rewrite <- app_assoc. cbn [app]. f_equal.
        rewrite (trunc_small PB a Ha). f_equal.
        apply lefts_trunc. unfold a1, trunc. rewrite N.mod_mod by apply pow2_nz. reflexivity.
      * unfold a1. apply mod_step.
      * rewrite Hev. lia.
    + assert (Hm : (a + (p + sumN r)) mod 2 ^ PB = (a1 + sumN r) mod 2 ^ PB).
      { unfold a1. symmetry. apply mod_step. }
      rewrite Hm. nia.
Qed.

Lemma zeros_0_pos ps : zeros ps = 0 -> Forall (fun p => 0 < p) ps.
Proof.
  induction ps as [|p r IH]; cbn; intros H; constructor.
  - destruct (N.eqb_spec p 0); lia.
  - apply IH. destruct (N.eqb_spec p 0); lia.
Qed.

Lemma sum_0_zeros ps : sumN ps = 0 -> zeros ps = N.of_nat (length ps).
Proof.
  induction ps as [|p r IH]; cbn [sumN zeros length]; intros H; [reflexivity|].
  assert (p = 0) by lia. subst p. rewrite N.eqb_refl, IH by lia. lia.
Qed.

Lemma lefts_incr : forall r a p, 0 < p -> Forall (fun p => 0 < p) r ->
  fq_incr a (lefts (a + p) r) (a + p + sumN r).
Proof.
  induction r as [|p' r IH]; intros a p Hp Hr; cbn [lefts fq_incr sumN].
  - lia.
  - inversion Hr as [|? ? Hp' Hr']; subst. split; [lia|].
    replace (a + p + (p' + sumN r)) with (a + p + p' + sumN r) by lia.
    apply IH; assumption.
Qed.

Lemma lefts_length : forall r a, length (lefts a r) = length r.
Proof. induction r; intros; cbn; auto. Qed.

Lemma incr_small PB T : forall cs l, fq_incr l cs T -> T <= 2 ^ PB ->
  map (trunc PB) cs = cs.
Proof.
  induction cs as [|x r IH]; intros l H HT; [reflexivity|].
  cbn in H. destruct H as [_ Hr]. cbn [map]. f_equal.
  - apply trunc_small. pose proof (fq_incr_lt _ _ _ Hr). lia.
  - eapply IH; eauto.
Qed.

Theorem fq_validate_fixed_sound PB P ps cdf :
  0 < P -> P <= PB -> Forall (fun p => p < 2 ^ PB) ps ->
  fq_validate_fixed PB P ps = Some cdf ->
  exists t, fq_table_of_ext PB (fq_extend PB P cdf) = Some t /\ wf_table P t
            /\ map (fun e => snd e) t = ps.
Proof.
  intros HP HPB Hps. unfold fq_validate_fixed.
  pose proof (pow2_pos PB) as HM. pose proof (pow2_le P PB HPB) as HPP.
  destruct (acc_spec PB ps 0 0 [] HM Hps) as (w & Heq & Hsum).
  rewrite Heq. cbn [rev app]. rewrite !N.add_0_l in *.
  destruct (negb (sumN ps mod 2 ^ PB =? fq_wpow2 PB P)) eqn:E1; [discriminate|].
  destruct (negb (w + zeros ps =? (if P =? PB then 1 else 0))) eqn:E2; [discriminate|].
  destruct (N.of_nat (length ps) <? 2) eqn:E3; [discriminate|].
  cbn [orb]. intros H. inversion H; subst cdf. clear H.
  apply negb_false_iff, N.eqb_eq in E1. apply negb_false_iff, N.eqb_eq in E2.
  apply N.ltb_ge in E3.
  (* the probabilities are all positive and sum to exactly 2^P *)
  assert (Hmain : zeros ps = 0 /\ sumN ps = 2 ^ P).
  { destruct (N.eqb_spec P PB) as [->|Hne].
    - rewrite fq_wpow2_eq in E1. rewrite E1 in Hsum.
      destruct (N.eq_dec w 0) as [->|Hw].
      + exfalso. assert (Hs0 : sumN ps = 0) by lia. apply sum_0_zeros in Hs0. lia.
      + assert (w = 1) by lia. subst w. split; lia.
    - assert (P < PB) by lia. rewrite fq_wpow2_lt in E1 by assumption.
      assert (w = 0) by lia. subst w. split; lia. }
  destruct Hmain as [Hz Hs].
  pose proof (zeros_0_pos ps Hz) as Hpos.
  destruct ps as [|p0 rest]; [cbn in E3; lia|].
  destruct rest as [|p1 rest']; [cbn in E3; lia|].
  inversion Hpos as [|? ? Hp0 Hrest]; subst.
  pose proof (lefts_incr (p1 :: rest') 0 p0 Hp0 Hrest) as Hinc.
  rewrite N.add_0_l in Hinc.
  change (sumN (p0 :: p1 :: rest')) with (p0 + sumN (p1 :: rest')) in Hs. rewrite Hs in Hinc.
  cbn [lefts map]. rewrite N.add_0_l.
  rewrite (trunc_small PB 0 HM).
  change (trunc PB p0 :: map (trunc PB) (lefts (p0 + p1) rest'))
    with (map (trunc PB) (lefts p0 (p1 :: rest'))).
  rewrite (incr_small PB (2 ^ P) _ 0 Hinc HPP).
  set (cs := lefts p0 (p1 :: rest')) in *.
  assert (Hne : cs <> []) by (unfold cs; cbn; discriminate).
  pose proof (fq_table_from_incr PB P HP HPB cs 0%Z 0 Hinc (or_intror Hne)) as Ht.
  destruct (tbl_of_tiles (2 ^ P) cs 0%Z 0 Hinc) as [Htl Hsy].
  exists (tbl_of 0%Z 0 cs (2 ^ P)). split.
  { unfold fq_table_of_ext, fq_extend. cbn [app]. exact Ht. }
  split.
  { split; [exact HP|]. split; [exact Htl|]. split.
    - rewrite Hsy. apply fq_seqZ_nodup.
    - rewrite <- (map_length (fun e => fst (fst e)) (tbl_of 0%Z 0 cs (2 ^ P))).
      fold (syms (tbl_of 0%Z 0 cs (2 ^ P))). rewrite Hsy, fq_seqZ_length.
      unfold cs. rewrite lefts_length. cbn [length]. lia. }
  (* the probabilities of the table are the validated ones *)
  assert (Hgen : forall r a p T sym, a + p + sumN r = T ->
            map (fun e : Z * N * N => snd e) (tbl_of sym a (lefts (a + p) r) T) = p :: r).
  { induction r as [|q r IH]; intros a p T sym HT; cbn [lefts tbl_of map snd sumN] in *.
    - f_equal. lia.
    - f_equal; [lia|]. apply IH. lia. }
  unfold cs. rewrite <- (N.add_0_l p0) at 1. apply Hgen. cbn [sumN] in *. lia.
Qed.
