(* Corr/Models_run.v -- runs an integer-encoded `models` case on Model/{Uniform,Tables,
   Lookup,Convert}.v.  Mirror of harness/src/fam_models.rs; format in lib/fam_models.py. *)
From CV Require Import Corr.Parse Model.Convert.
Open Scope Z_scope.

Definition NOT_APPLICABLE := -5.
Definition REFUSED := -6.
Definition UNREPRESENTABLE := -3.
Definition NONE := -1.
Definition OP_PANIC := -7.

Definition symty_of (z : Z) : symty :=
  match z with 1 => SyI32 | 2 => SyChar | _ => SyUsize end.

Definition conv_of (z : Z) : option conv :=
  match z with
  | 1 => Some CView | 2 => Some CGenEnc | 3 => Some CGenDec | 4 => Some CGenLookup
  | 5 => Some CToLookup | 6 => Some CAsCategorical | 7 => Some CIntoCategorical
  | 9 => Some CClone
  | _ => None
  end.

Fixpoint convs_of (l : list Z) : option (list conv) :=
  match l with
  | [] => Some []
  | z :: r => match conv_of z, convs_of r with
              | Some k, Some ks => Some (k :: ks)
              | _, _ => None
              end
  end.

Definition out_entry (e : Z * N * N) : list Z := let '(s, cu, p) := e in [s; nZ cu; nZ p].

Definition out_table (t : table) : list Z := Z.of_nat (length t) :: flat_map out_entry t.

Definition triple_eqb (a b : Z * N * N) : bool :=
  let '(s1, c1, p1) := a in let '(s2, c2, p2) := b in
  Z.eqb s1 s2 && N.eqb c1 c2 && N.eqb p1 p2.

(* run-length compressed sweep over all quantiles 0 .. n-1 *)
Fixpoint sweep (f : N -> res (Z * N * N)) (n : nat) (q : N) (prev : option (Z * N * N))
    : res (list (list Z)) :=
  match n with
  | O => Ok []
  | S n' =>
      f q >>= fun e =>
      sweep f n' (N.succ q) (Some e) >>= fun rest =>
      let same := match prev with Some e' => triple_eqb e e' | None => false end in
      Ok (if same then rest else (nZ q :: out_entry e) :: rest)
  end.

Definition do_dump (c : mcfg) (ty : symty) (r : rep) (dump : Z) (args : list Z) : res (list Z) :=
  match dump with
  | 1 => match rep_table c r with
         | None => Ok [NOT_APPLICABLE]
         | Some rt => rt >>= fun t => Ok (1 :: out_table t)
         end
  | 2 => match rep_lcp c r 0 with
         | None => Ok [NOT_APPLICABLE]
         | Some _ =>
             mapM (fun s =>
                     if negb (sym_ok (UB c) ty s) then Ok [UNREPRESENTABLE] else
                     match rep_lcp c r s with
                     | None => Ok [NOT_APPLICABLE]
                     | Some rr => rr >>= fun o =>
                                  Ok (match o with
                                      | None => [NONE]
                                      | Some (cu, p) => [1; nZ cu; nZ p]
                                      end)
                     end) args >>= fun ls => Ok (1 :: concat ls)
         end
  | 3 => match rep_quant c r 0%N with
         | None => Ok [NOT_APPLICABLE]
         | Some _ =>
             mapM (fun q => match rep_quant c r (trunc (PB c) (zN q)) with
                            | None => Ok [NOT_APPLICABLE]
                            | Some rr => rr >>= fun e => Ok (out_entry e)
                            end) args >>= fun ls => Ok (1 :: concat ls)
         end
  | 4 => match rep_quant c r 0%N with
         | None => Ok [NOT_APPLICABLE]
         | Some _ =>
             if (12 <? PR c)%N then Ok [REFUSED] else
             sweep (fun q => match rep_quant c r q with
                             | None => Fail E_PANIC
                             | Some rr => rr
                             end) (N.to_nat (2 ^ PR c)) 0%N None >>= fun ls =>
             Ok (1 :: Z.of_nat (length ls) :: concat ls)
         end
  | 5 => match rep_support_size r with
         | None => Ok [NOT_APPLICABLE]
         | Some rn => rn >>= fun n => Ok [1; nZ n]
         end
  | _ => Fail E_PANIC
  end.

(* conversion 10: the same fixed-point table as a non-contiguous decoder model over the
   symbols 0..n (identity relabelling); only from a contiguous base *)
Definition relabel (c : mcfg) (kind : Z) (probs : list N) (infer : bool) : res (option rep) :=
  if kind =? 1 then
    let n := (length probs + (if infer then 1 else 0))%nat in
    ncdec_from_probs c (map Z.of_nat (seq 0 n)) probs infer >>= fun m => Ok (Some (RNcDec m))
  else Ok None.

Definition apply_convs (c : mcfg) (lookup_ok : bool) (kind : Z) (probs : list N) (infer : bool)
    (base : rep) (convs : list Z) : res (option rep) :=
  match convs with
  | 10 :: r => match convs_of r with
               | None => Fail E_PANIC
               | Some ks => relabel c kind probs infer >>= fun o =>
                            match o with
                            | None => Ok None
                            | Some b => rep_convs c lookup_ok ks b
                            end
               end
  | _ => match convs_of convs with
         | None => Fail E_PANIC
         | Some ks => rep_convs c lookup_ok ks base
         end
  end.

(* consecutive ops with the same conversion chain reuse the converted representation *)
Fixpoint ops_loop (fuel : nat) (c : mcfg) (lookup_ok : bool) (ty : symty) (kind : Z)
    (probs : list N) (infer : bool) (base : rep) (memo : option (list Z * option rep)) (l : list Z)
    : res (list Z) :=
  match fuel with
  | O => Ok []
  | S fuel' =>
    match l with
    | [] => Ok []
    | _ =>
      let '(convs, r1) := read_list l in
      match r1 with
      | [] => Fail E_PANIC
      | dump :: r2 =>
          let '(args, r3) := if (dump =? 2) || (dump =? 3) then read_list r2 else ([], r2) in
          let ty' := match convs with 10 :: _ => SyUsize | _ => ty end in
          let ro := match memo with
                    | Some (cv, o) => if list_eqbz cv convs then Ok o
                                      else apply_convs c lookup_ok kind probs infer base convs
                    | None => apply_convs c lookup_ok kind probs infer base convs
                    end in
          let rout := ro >>= fun o =>
                      match o with
                      | None => Ok [NOT_APPLICABLE]
                      | Some rp => do_dump c ty' rp dump args
                      end in
          (* a (safe) panic of a conversion or query is reported for this op only *)
          (match rout with
           | Ok out => Ok out
           | Fail e => if e =? E_PANIC then Ok [OP_PANIC] else Fail e
           end) >>= fun out =>
          let memo' := match ro with Ok o => Some (convs, o) | Fail _ => None end in
          ops_loop fuel' c lookup_ok ty kind probs infer base memo' r3 >>= fun rest =>
          Ok (out ++ rest)
      end
    end
  end.

Definition construct (c : mcfg) (lookup_ok : bool) (ty : symty) (kind : Z) (syms : list Z)
    (probs : list N) (range : N) (infer : bool) : res rep :=
  if negb (forallb (sym_ok (UB c) ty) syms) then Fail E_PANIC else
  match kind with
  | 0 => uniform_new c range >>= fun m => Ok (RUniform m)
  | 1 => contig_from_probs c probs infer >>= fun m => Ok (RContig m)
  | 2 => ncdec_from_probs c syms probs infer >>= fun m => Ok (RNcDec m)
  | 3 => ncenc_from_probs c syms probs infer >>= fun m => Ok (RNcEnc m)
  | 4 => if lookup_ok then lkc_from_probs c probs infer >>= fun m => Ok (RLkC m) else Fail E_PANIC
  | 5 => if lookup_ok then lkn_from_probs c syms probs infer >>= fun m => Ok (RLkN m) else Fail E_PANIC
  | _ => Fail E_PANIC
  end.

Definition run_models (inp : list Z) : list Z :=
  match inp with
  | pb :: p :: symty :: kind :: infer :: r =>
      let c := {| PB := zN pb; UB := 64; PR := zN p |} in
      let lookup_ok := (pb <=? 16) in
      let '(syms, r1) := read_list r in
      let '(raw, r2) := read_list r1 in
      let probs := map (fun x => trunc (PB c) (zN x)) raw in
      let range := trunc (UB c) (zN (hdz raw)) in
      let ty := if (kind =? 2) || (kind =? 3) || (kind =? 5) then symty_of symty else SyUsize in
      let infer := negb (infer =? 0) in
      match construct c lookup_ok ty kind syms probs range infer >>= fun base =>
            ops_loop (length r2) c lookup_ok ty kind probs infer base None r2 >>= fun out =>
            Ok (0 :: out) with
      | Ok l => l
      | Fail e => [e]
      end
  | _ => [PANIC]
  end.
